From Coq Require Import List Arith Lia Bool PeanoNat.
Import ListNotations.

(* Go sync.RWMutex, writer-preferring: a pending writer blocks new readers. *)
Inductive op := RLock | RUnlock | WLock | WUnlock | Work.

Inductive wstate := WNone | WPending (t : nat) | WHeld (t : nat).

Record state := {
  progs   : list (list op);   (* remaining operations of each thread *)
  readers : nat;              (* active read holders *)
  ws      : wstate
}.

(* One step of thread t. WLock is two micro-steps: announce (blocks new readers), then acquire. *)
Fixpoint set_nth {A} (l : list A) (i : nat) (x : A) : list A :=
  match l, i with
  | [], _ => []
  | _ :: t, O => x :: t
  | h :: t, S j => h :: set_nth t j x
  end.

Definition step (s : state) (t : nat) : option state :=
  match nth_error (progs s) t with
  | None => None
  | Some [] => None
  | Some (o :: rest) =>
    match o with
    | Work => Some {| progs := set_nth (progs s) t rest; readers := readers s; ws := ws s |}
    | RLock => match ws s with
               | WNone => Some {| progs := set_nth (progs s) t rest; readers := S (readers s); ws := WNone |}
               | _ => None end
    | RUnlock => Some {| progs := set_nth (progs s) t rest; readers := pred (readers s); ws := ws s |}
    | WLock => match ws s with
               | WNone => Some {| progs := progs s; readers := readers s; ws := WPending t |}   (* announce; op stays *)
               | WPending t' => if Nat.eqb t t' && Nat.eqb (readers s) 0
                                then Some {| progs := set_nth (progs s) t rest; readers := 0; ws := WHeld t |}
                                else None
               | WHeld _ => None end
    | WUnlock => Some {| progs := set_nth (progs s) t rest; readers := readers s; ws := WNone |}
    end
  end.

(* A flat program never acquires while holding and releases what it acquires. *)
Inductive mode := Out | InR | InW.
Fixpoint flat_from (m : mode) (p : list op) : bool :=
  match p with
  | [] => match m with Out => true | _ => false end
  | o :: r =>
    match m, o with
    | Out, Work => flat_from Out r
    | Out, RLock => flat_from InR r
    | Out, WLock => flat_from InW r
    | InR, Work => flat_from InR r
    | InR, RUnlock => flat_from Out r
    | InW, Work => flat_from InW r
    | InW, WUnlock => flat_from Out r
    | _, _ => false
    end
  end.
Definition flat (p : list op) := flat_from Out p.

(* thread t is currently inside a read / write section, given its remaining program *)
Definition thread_mode (s : state) (t : nat) (m : mode) : Prop :=
  exists p, nth_error (progs s) t = Some p /\ flat_from m p = true.

(* Invariant tying the lock word to the thread modes *)
Record Inv (s : state) : Prop := {
  inv_modes : forall t p, nth_error (progs s) t = Some p -> exists m, flat_from m p = true;
  inv_readers_pos : readers s > 0 -> exists t p, nth_error (progs s) t = Some p /\ flat_from InR p = true;
  inv_held : forall t, ws s = WHeld t -> exists p, nth_error (progs s) t = Some p /\ flat_from InW p = true;
  inv_pending : forall t, ws s = WPending t ->
      exists r, nth_error (progs s) t = Some (WLock :: r) /\ flat_from InW r = true;
  inv_none : ws s = WNone -> forall t p, nth_error (progs s) t = Some p -> flat_from InW p = false \/ True
}.

Definition done (s : state) : Prop := forall t p, nth_error (progs s) t = Some p -> p = [].

(* Deadlock freedom: a state satisfying the invariant is finished or some thread can step. *)
Theorem progress s : Inv s -> done s \/ exists t s', step s t = Some s'.
Proof.
  intros I.
  destruct (Nat.eq_dec (readers s) 0) as [Hr0|Hrpos].
  - destruct (ws s) as [|tp|th] eqn:Hw.
    + (* nobody holds anything: any unfinished thread can step *)
      destruct (existsb (fun p => match p with [] => false | _ => true end) (progs s)) eqn:Ex.
      * apply existsb_exists in Ex. destruct Ex as [p [Hin Hp]]. apply In_nth_error in Hin. destruct Hin as [t Ht].
        right. exists t. unfold step. rewrite Ht. destruct p as [|o r]; [discriminate|].
        destruct (inv_modes s I t (o :: r) Ht) as [m Hm].
        destruct o; rewrite ?Hw; eauto.
      * left. intros t p Ht. apply nth_error_In in Ht.
        destruct p; auto. exfalso.
        assert (existsb (fun p => match p with [] => false | _ => true end) (progs s) = true).
        { apply existsb_exists. eexists; split; eauto. }
        congruence.
    + (* pending writer and no readers: it can acquire *)
      destruct (inv_pending s I tp Hw) as [r [Ht Hf]]. right. exists tp. unfold step. rewrite Ht, Hw.
      rewrite Nat.eqb_refl, Hr0. cbn. eauto.
    + (* held: the holder's next op is Work or WUnlock *)
      destruct (inv_held s I th Hw) as [p [Ht Hf]]. right. exists th. unfold step. rewrite Ht.
      destruct p as [|o r]; [discriminate|]. destruct o; cbn in Hf; try discriminate; eauto.
  - (* some reader is inside: its next op is Work or RUnlock, always enabled *)
    destruct (inv_readers_pos s I ltac:(lia)) as [t [p [Ht Hf]]]. right. exists t. unfold step. rewrite Ht.
    destruct p as [|o r]; [discriminate|]. destruct o; cbn in Hf; try discriminate; eauto.
Qed.

(* The nested read lock of the pinned tree deadlocks: reader holds R, writer announces, reader re-locks *)
Example nested_deadlock :
  let s0 := {| progs := [[RLock; RLock; RUnlock; RUnlock]; [WLock; WUnlock]]; readers := 0; ws := WNone |} in
  exists s, (forall s1, step s0 0 = Some s1 -> forall s2, step s1 1 = Some s2 -> s = s2) /\
  match step s0 0 with Some s1 => match step s1 1 with Some s2 =>
     step s2 0 = None /\ step s2 1 = None /\ progs s2 <> [[]; []] | None => False end | None => False end.
Proof.
  cbn. eexists. split; [intros s1 H1 s2 H2; inversion H1; subst; cbn in H2; inversion H2; reflexivity|].
  repeat split; discriminate.
Qed.
