(* C02 / C07 / C19 routing — slottools/edges.go, TRANSLATED from the Go source on every check
   (Generated/GoLiteC02.v, by gen/golite.go), proved equal to what the models compute:
     CalcEpochForSlot slot  = slot / epoch_len                         (C02_Rpc.epoch_of; ConstsC07.epoch_len of C07)
     CalcEpochLimits epoch  = (epoch*epoch_len, epoch*epoch_len + epoch_len - 1), both reduced modulo 2^64
                              (no reduction happens exactly when epoch*epoch_len + epoch_len < 2^64 — the premise of
                              the C01 slot theorems; the pair is then the block-time range of C01_IndexAll)
     Uint64RangesHavePartialOverlapIncludingEdges [a0,a1] [b0,b1] = "the two closed intervals share a point"
                              (for well-formed intervals a0 <= a1, b0 <= b1; the exact boolean without that premise
                              is stated too)
   so a change of any of these Go functions changes a term these theorems are about. *)
From Coq Require Import List ZArith NArith String Bool Lia.
Import ListNotations.
Require Import YF.GoLite YF.GoLiteLemmas YF.Generated.GoLiteC02 YF.Generated.ConstsC07.
Require YF.C02_Rpc YF.C01_IndexAll.
Local Open Scope string_scope.
Local Open Scope Z_scope.

(* the three copies of the epoch length in the development are the generated constant *)
Lemma epoch_len_models_agree :
  C02_Rpc.epoch_len = ConstsC07.epoch_len /\ C01_IndexAll.epoch_len = ConstsC07.epoch_len.
Proof. split; reflexivity. Qed.

Lemma epoch_len_Z : Z.of_N epoch_len = 432000.
Proof. reflexivity. Qed.

Definition two64 : N := 18446744073709551616%N.

Lemma max_le_min_iff_common_point a0 a1 b0 b1 :
  (Z.max a0 b0 <=? Z.min a1 b1) = true <-> exists x, a0 <= x <= a1 /\ b0 <= x <= b1.
Proof.
  rewrite Z.leb_le. split.
  - intros H. exists (Z.max a0 b0). lia.
  - intros [x Hx]. lia.
Qed.

(* Everything below holds for ANY translated program that binds these names to these function terms. *)
Section Generic.
Variable prog : program.
Hypothesis prog_CalcEpochForSlot : plookup "CalcEpochForSlot" prog = Some fn_CalcEpochForSlot.
Hypothesis prog_CalcEpochLimits : plookup "CalcEpochLimits" prog = Some fn_CalcEpochLimits.
Hypothesis prog_Overlap :
  plookup "Uint64RangesHavePartialOverlapIncludingEdges" prog = Some fn_Uint64RangesHavePartialOverlapIncludingEdges.

(* ------------------------------------------------------------------ CalcEpochForSlot *)
(* every uint64 slot; the division cannot panic (the divisor is the constant) and cannot wrap *)
Theorem CalcEpochForSlot_is_div ext fuel (slot : N) : (slot < two64)%N ->
  call prog ext fuel "CalcEpochForSlot" [VInt (Z.of_N slot)] = RRet (VInt (Z.of_N (slot / epoch_len))).
Proof.
  intros Hs. unfold two64 in Hs.
  unfold call. rewrite prog_CalcEpochForSlot. unfold fn_CalcEpochForSlot. cbn [f_params f_body bind_params]. go_run.
  rewrite Z.quot_div_nonneg by lia.
  rewrite N2Z.inj_div, epoch_len_Z.
  rewrite wrap_u64_small; [reflexivity|].
  split; [apply Z.div_pos; lia|]. apply Z.div_lt_upper_bound; lia.
Qed.

Corollary CalcEpochForSlot_is_epoch_of ext fuel (slot : N) : (slot < two64)%N ->
  call prog ext fuel "CalcEpochForSlot" [VInt (Z.of_N slot)] = RRet (VInt (Z.of_N (C02_Rpc.epoch_of slot))).
Proof. exact (CalcEpochForSlot_is_div ext fuel slot). Qed.

(* ------------------------------------------------------------------ CalcEpochLimits *)
(* for EVERY epoch: both results are the mathematical values reduced modulo 2^64 (Go's uint64 arithmetic) *)
Theorem CalcEpochLimits_mod ext fuel (epoch : N) :
  call prog ext fuel "CalcEpochLimits" [VInt (Z.of_N epoch)] =
  RRet (VTuple [VInt (Z.of_N ((epoch * epoch_len) mod two64));
                VInt (Z.of_N ((epoch * epoch_len + epoch_len - 1) mod two64))]).
Proof.
  unfold call. rewrite prog_CalcEpochLimits. unfold fn_CalcEpochLimits. cbn [f_params f_body bind_params]. go_run.
  rewrite !wrap_u64.
  rewrite Zplus_mod_idemp_l, Zminus_mod_idemp_l.
  rewrite !N2Z.inj_mod, N2Z.inj_sub, N2Z.inj_add, !N2Z.inj_mul, epoch_len_Z by (unfold epoch_len; lia).
  reflexivity.
Qed.

(* no wrap-around: exactly the premise of the C01 slot theorems *)
Theorem CalcEpochLimits_exact ext fuel (epoch : N) : (epoch * epoch_len + epoch_len < two64)%N ->
  call prog ext fuel "CalcEpochLimits" [VInt (Z.of_N epoch)] =
  RRet (VTuple [VInt (Z.of_N (epoch * epoch_len)); VInt (Z.of_N (epoch * epoch_len + epoch_len - 1))]).
Proof.
  intros H. rewrite CalcEpochLimits_mod.
  rewrite !N.mod_small; [reflexivity| |]; unfold epoch_len, two64 in *; lia.
Qed.

(* the wrap-around is real: from the first epoch whose end passes 2^64 the results are reduced, e.g. the stop of
   epoch 42700796466920 (its start is still below 2^64) is a SMALL number *)
Lemma CalcEpochLimits_wraps_example ext fuel :
  call prog ext fuel "CalcEpochLimits" [VInt 42700796466920] =
  RRet (VTuple [VInt 18446744073709440000; VInt 320383]).
Proof.
  change 42700796466920 with (Z.of_N 42700796466920). rewrite CalcEpochLimits_mod. reflexivity.
Qed.

(* every slot of the range routes back to the epoch, and the slots just outside do not (no wrap-around) *)
Lemma epoch_limits_contain (epoch slot : N) :
  (epoch * epoch_len <= slot <= epoch * epoch_len + epoch_len - 1)%N <-> (slot / epoch_len = epoch)%N.
Proof.
  unfold epoch_len. split.
  - intros H. symmetry. apply (N.div_unique slot 432000 epoch (slot - epoch * 432000)); lia.
  - intros <-. pose proof (N.div_mod slot 432000 ltac:(lia)). pose proof (N.mod_lt slot 432000 ltac:(lia)). lia.
Qed.

(* ------------------------------------------------------------------ Uint64RangesHavePartialOverlapIncludingEdges *)
(* the exact boolean, no premise *)
Theorem Overlap_exact ext fuel a0 a1 b0 b1 :
  call prog ext fuel "Uint64RangesHavePartialOverlapIncludingEdges" [VInts [a0; a1]; VInts [b0; b1]] =
  RRet (VBool (if a0 <? b0 then b0 <=? a1 else a0 <=? b1)).
Proof.
  unfold call. rewrite prog_Overlap. unfold fn_Uint64RangesHavePartialOverlapIncludingEdges.
  cbn [f_params f_body bind_params]. go_run.
  change (nth_z [a0; a1] 0) with a0. change (nth_z [b0; b1] 0) with b0.
  destruct (a0 <? b0); go_run.
  - change (nth_z [a0; a1] 1) with a1. change (nth_z [b0; b1] 0) with b0. reflexivity.
  - change (nth_z [b0; b1] 1) with b1. change (nth_z [a0; a1] 0) with a0. reflexivity.
Qed.

(* for well-formed closed intervals [a0,a1], [b0,b1]: true exactly when they share a point *)
Theorem Overlap_is_intersection ext fuel a0 a1 b0 b1 : a0 <= a1 -> b0 <= b1 ->
  exists r, call prog ext fuel "Uint64RangesHavePartialOverlapIncludingEdges" [VInts [a0; a1]; VInts [b0; b1]] = RRet (VBool r) /\
    (r = true <-> exists x, a0 <= x <= a1 /\ b0 <= x <= b1).
Proof.
  intros Ha Hb. eexists. split; [apply Overlap_exact|].
  destruct (Z.ltb_spec a0 b0) as [H|H].
  - rewrite Z.leb_le. split.
    + intros H1. exists b0. lia.
    + intros [x Hx]. lia.
  - rewrite Z.leb_le. split.
    + intros H1. exists a0. lia.
    + intros [x Hx]. lia.
Qed.

Corollary Overlap_is_max_le_min ext fuel a0 a1 b0 b1 : a0 <= a1 -> b0 <= b1 ->
  call prog ext fuel "Uint64RangesHavePartialOverlapIncludingEdges" [VInts [a0; a1]; VInts [b0; b1]] =
  RRet (VBool (Z.max a0 b0 <=? Z.min a1 b1)).
Proof.
  intros Ha Hb. rewrite Overlap_exact. do 2 f_equal.
  destruct (Z.ltb_spec a0 b0); destruct (Z.leb_spec (Z.max a0 b0) (Z.min a1 b1)); try (apply Z.leb_le; lia); apply Z.leb_gt; lia.
Qed.
End Generic.
