(* C01 composed with C05 as well: the abstract membership index (sig-exists) of C01_IndexAll is instantiated by
   the byte-level bucketteer model (current file format, Writer.Put* / Seal, Reader.Has), so that C01's premise
   [sx_complete] is DISCHARGED by C05's no-false-negative theorem for every hash function. Together with
   C01_Instance (compact index) no premise about any index is left in the C01 statements. *)
From Coq Require Import List Arith Lia Bool PeanoNat NArith.
Import ListNotations.
Require Import Codec ReadAt CI Car C04_Model C04_Formats C01_IndexAll C01_Instance.
Require C05_Model C05_Proofs.
Close Scope N_scope.

Section SxInst.
Variable sig_hash : list N -> N.            (* xxhash64 of the signature *)
Variable sx_meta : C05_Model.meta.

Definition wf_sigb (s : list N) : bool := (length s =? 64) && forallb (fun b => N.ltb b 256) s.
Lemma wf_sigb_ok s : wf_sigb s = true -> C05_Model.wf_sig s.
Proof.
  unfold wf_sigb, C05_Model.wf_sig. rewrite andb_true_iff, Nat.eqb_eq, forallb_forall, Forall_forall.
  intros [A B]. split; [exact A|]. intros x Hx. apply N.ltb_lt. auto.
Qed.

(* Writer: Put every first signature, then Seal (current format); refused when a signature is not 64 bytes or
   there are 2^29 signatures or more (the reader's uint32 section length would wrap) *)
Definition sx_build (sigs : list (list N)) : option (list N) :=
  if forallb wf_sigb sigs && N.ltb (N.of_nat (length sigs)) 536870912 then
    match C05_Model.seal C05_Model.V2 sx_meta (C05_Model.puts sig_hash sigs) with
    | C05_Model.Ok f => Some f
    | _ => None
    end
  else None.
Definition sx_has (f : list N) (s : list N) : bool :=
  match C05_Model.file_has sig_hash C05_Model.V2 f s with C05_Model.Ok true => true | _ => false end.

Theorem sx_complete sigs f x : sx_build sigs = Some f -> In x sigs -> sx_has f x = true.
Proof.
  unfold sx_build, sx_has. intros H Hin.
  destruct (forallb wf_sigb sigs) eqn:Ew; [|discriminate]. cbn [andb] in H.
  destruct (N.ltb (N.of_nat (length sigs)) 536870912) eqn:El; [|discriminate].
  destruct (C05_Model.seal C05_Model.V2 sx_meta (C05_Model.puts sig_hash sigs)) as [g| |] eqn:Es; try discriminate.
  assert (f = g) by congruence. subst g.
  assert (HF : Forall C05_Model.wf_sig sigs).
  { apply Forall_forall. intros s Hs. apply wf_sigb_ok. rewrite forallb_forall in Ew. auto. }
  assert (HS : forall p, (N.of_nat (length (C05_Model.clean (C05_Model.bucket (C05_Model.puts sig_hash sigs) p))) < 536870912)%N).
  { apply C05_Proofs.small_of_few. apply N.ltb_lt. exact El. }
  rewrite (C05_Proofs.no_false_negative sig_hash C05_Model.V2 sx_meta sigs f HF HS I Es x Hin). reflexivity.
Qed.
End SxInst.

(* C01 with BOTH concrete indexes *)
Section Composed2.
Variable cid_parse : list N -> option (list N * nat).
Variable good_cid : list N -> Prop.
Hypothesis cid_parse_ok : forall c rest, good_cid c -> cid_parse (c ++ rest) = Some (c, length c).
Variable kind_of : list N -> kind.
Variable dec_block : list N -> option (N * N).
Variable dec_sig : list N -> option (list N).
Variable hash : N -> list N -> N.
Variable bucket_of : nat -> list N -> nat.
Hypothesis bucket_of_lt : forall nb k, 0 < nb -> bucket_of nb k < nb.
Variable m : meta.
Hypothesis m_ok : meta_ok m.
Variable sig_hash : list N -> N.
Variable sx_meta : C05_Model.meta.

Let build := ci_build hash bucket_of m.
Let get := ci_get hash bucket_of.
Let sxb := sx_build sig_hash sx_meta.
Let sxh := sx_has sig_hash.

Theorem C01_objects_concrete epoch hdr objs ixs o :
  wf_car good_cid kind_of dec_block objs ->
  index_all kind_of dec_block dec_sig (list N) build (list N) sxb epoch hdr objs = Some ixs -> In o objs ->
  get_node_by_cid cid_parse (list N) get (list N) ixs (Car.car hdr objs) (Car.cid o) = Some (Car.data o).
Proof.
  apply (C01_objects cid_parse good_cid cid_parse_ok kind_of dec_block dec_sig (list N) build get
           (ci_found hash bucket_of bucket_of_lt m m_ok) (list N) sxb sxh (sx_complete sig_hash sx_meta)).
Qed.
Theorem C01_slots_concrete epoch hdr objs ixs o slot time :
  (epoch * epoch_len + epoch_len < 2 ^ 64)%N ->
  wf_car good_cid kind_of dec_block objs ->
  index_all kind_of dec_block dec_sig (list N) build (list N) sxb epoch hdr objs = Some ixs -> In o objs ->
  is_block kind_of dec_block o slot time ->
  find_cid_from_slot (list N) get (list N) ixs slot = Some (Car.cid o) /\ blocktime (list N) (list N) ixs slot = Some time.
Proof.
  apply (C01_slots cid_parse good_cid cid_parse_ok kind_of dec_block dec_sig (list N) build get
           (ci_found hash bucket_of bucket_of_lt m m_ok) (list N) sxb sxh (sx_complete sig_hash sx_meta)).
Qed.
Theorem C01_sigs_concrete epoch hdr objs ixs o sg :
  index_all kind_of dec_block dec_sig (list N) build (list N) sxb epoch hdr objs = Some ixs -> In o objs ->
  is_tx kind_of dec_sig o sg ->
  find_cid_from_sig (list N) get (list N) ixs sg = Some (Car.cid o) /\ sig_exists (list N) (list N) sxh ixs sg = true.
Proof.
  apply (C01_sigs kind_of dec_block dec_sig (list N) build get
           (ci_found hash bucket_of bucket_of_lt m m_ok) (list N) sxb sxh (sx_complete sig_hash sx_meta)).
Qed.
End Composed2.
