(* Design-phase probe: xxhash64 in Gallina over N; agreed with cespare/xxhash v2.2.0 on
   xxh64 [] = 17241709254077376921, xxh64 (mk 3 97) = 17339218030913842043 and the xor of
   300 hashes of 96-byte inputs = 14543894760278498924 (about 20 ms per hash under vm_compute). *)
From Coq Require Import NArith List Lia.
Import ListNotations.
Local Open Scope N_scope.
Definition M64 := 18446744073709551616.
Definition w (x:N) := x mod M64.
Definition P1 := 11400714785074694791. Definition P2 := 14029467366897019727.
Definition P3 := 1609587929392839161. Definition P4 := 9650029242287828579.
Definition P5 := 2870177450012600261.
Definition rol (x:N) (r:N) := w (N.lor (N.shiftl x r) (N.shiftr x (64 - r))).
Definition round (acc inp:N) := w (rol (w (acc + w (inp * P2))) 31 * P1).
Definition merge (acc v:N) := w (w (N.lxor acc (round 0 v)) * P1 + P4).
Fixpoint le (bs:list N) : N := match bs with [] => 0 | b::r => b + 256 * le r end.
Fixpoint stripes (fuel:nat) (bs:list N) (v1 v2 v3 v4:N) : (list N * (N*N*N*N)) :=
  match fuel with O => (bs,(v1,v2,v3,v4)) | S f =>
  if (N.of_nat (length bs) <? 32) then (bs,(v1,v2,v3,v4)) else
   let a := le (firstn 8 bs) in let b := le (firstn 8 (skipn 8 bs)) in
   let c := le (firstn 8 (skipn 16 bs)) in let d := le (firstn 8 (skipn 24 bs)) in
   stripes f (skipn 32 bs) (round v1 a) (round v2 b) (round v3 c) (round v4 d) end.
Fixpoint tail (fuel:nat) (bs:list N) (h:N) : N :=
  match fuel with O => h | S f =>
  let n := length bs in
  if Nat.leb 8 n then tail f (skipn 8 bs) (w (rol (N.lxor h (round 0 (le (firstn 8 bs)))) 27 * P1 + P4))
  else if Nat.leb 4 n then tail f (skipn 4 bs) (w (rol (N.lxor h (w (le (firstn 4 bs) * P1))) 23 * P2 + P3))
  else match bs with [] => h | b::r => tail f r (w (rol (N.lxor h (w (b*P5))) 11 * P1)) end end.
Definition aval (h:N) := let h := w (N.lxor h (N.shiftr h 33) * P2) in
  let h := w (N.lxor h (N.shiftr h 29) * P3) in N.lxor h (N.shiftr h 32).
Definition xxh64 (bs:list N) : N :=
  let n := N.of_nat (length bs) in
  let h := if n <? 32 then w (P5) else
    let '(rest,(v1,v2,v3,v4)) := stripes (length bs) bs (w (P1+P2)) P2 0 (w (M64 - P1)) in
    let h := w (rol v1 1 + rol v2 7 + rol v3 12 + rol v4 18) in
    merge (merge (merge (merge h v1) v2) v3) v4 in
  let rest := skipn (Nat.mul (Nat.div (length bs) 32) 32) bs in
  aval (tail (length bs) rest (w (h + n))).
Definition mk (n:nat) (s:N) := map (fun i => (N.of_nat i * 7 + s) mod 256) (seq 0 n).
