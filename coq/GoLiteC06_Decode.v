(* C06 — the record decoder of the address index's linked log: (OffsetAndSizeAndSlot).FromReader and
   OffsetAndSizeAndSlotSliceFromBytes (gsfa/linkedlog/offset-size-slot.go; the function ReadWithSize runs on the
   decompressed payload of every record), translated from the Go source on every check (Generated/GoLiteC06.v) and proved
   to compute the model's entries_dec (C06_LinkedLog.v — the decoder the C06 theorems are about): entries are read
   until io.EOF; an io.EOF inside an entry also ends the loop silently (errors.Is sees through the %w wrapping); a
   malformed uvarint is the error. *)
From Coq Require Import List ZArith NArith String Bool Lia.
Import ListNotations.
Require Import YF.GoLite YF.GoLiteLemmas YF.Generated.GoLiteC06 YF.Codec YF.C06_LinkedLog YF.GoLiteC06_Codec.
Local Open Scope string_scope.
Local Open Scope Z_scope.
Local Open Scope list_scope.

Lemma skipn_skipn' {A} (n m : nat) (l : list A) : skipn n (skipn m l) = skipn (m + n) l.
Proof. revert l; induction m as [|m IH]; intros l; [reflexivity|]. destruct l; [destruct n; reflexivity|]. cbn. apply IH. Qed.

(* ------------------------------------------------------------------ position-based reading of the model *)
Section Model.
Variable bs : list N.

(* ReadUvarint at position pos: Some None = io.EOF, None = malformed, Some (Some (v, pos')) *)
Definition uvp (pos : nat) : option (option (N * nat)) :=
  if (List.length bs <=? pos)%nat then Some None
  else match uvarint_dec (skipn pos bs) with
       | None => None
       | Some (v, n) => Some (Some (v, (pos + n)%nat))
       end.

Inductive fr_res := FrOk (e : entry) (p : nat) | FrEOF | FrBad.

(* FromReader at position pos *)
Definition fr (pos : nat) : fr_res :=
  match uvp pos with None => FrBad | Some None => FrEOF | Some (Some (o, p1)) =>
  match uvp p1 with None => FrBad | Some None => FrEOF | Some (Some (s, p2)) =>
  match uvp p2 with None => FrBad | Some None => FrEOF | Some (Some (sl, p3)) =>
  match nth_error bs p3 with None => FrEOF | Some fl => FrOk (o, s, sl, fl) (S p3) end end end end.

(* the loop of OffsetAndSizeAndSlotSliceFromBytes from position pos; outer None = out of (model) fuel *)
Fixpoint pdec (n : nat) (pos : nat) : option (option (list entry)) :=
  match n with
  | O => None
  | S n' =>
    match fr pos with
    | FrBad => Some None
    | FrEOF => Some (Some [])
    | FrOk e p =>
      match pdec n' p with
      | Some (Some es) => Some (Some (e :: es))
      | Some None => Some None
      | None => None
      end
    end
  end.

Lemma rd_uv_uvp pos :
  rd_uv (skipn pos bs) =
  match uvp pos with
  | None => None
  | Some None => Some None
  | Some (Some (v, p)) => Some (Some (v, skipn p bs))
  end.
Proof.
  unfold uvp, rd_uv. destruct (Nat.leb_spec (List.length bs) pos) as [Hge|Hlt].
  - rewrite skipn_all2 by exact Hge. reflexivity.
  - destruct (skipn pos bs) as [|b r] eqn:Hs.
    + apply (f_equal (@List.length N)) in Hs. rewrite skipn_length in Hs. cbn in Hs. lia.
    + destruct (uvarint_dec (b :: r)) as [[v n]|]; [|reflexivity].
      rewrite <- Hs. rewrite skipn_skipn'. reflexivity.
Qed.

Lemma uvp_bounds pos v p : uvp pos = Some (Some (v, p)) -> (pos < p <= List.length bs)%nat.
Proof.
  unfold uvp. destruct (Nat.leb_spec (List.length bs) pos) as [Hge|Hlt]; [discriminate|].
  destruct (uvarint_dec (skipn pos bs)) as [[v' n]|] eqn:Hd; [|discriminate].
  intros H. injection H as <- <-. unfold uvarint_dec in Hd.
  pose proof (uv_dec_bounds _ _ _ _ _ _ Hd) as [H1 H2]. rewrite skipn_length in H2. lia.
Qed.

Lemma fr_bounds pos e p : fr pos = FrOk e p -> (pos < p <= List.length bs)%nat.
Proof.
  unfold fr.
  destruct (uvp pos) as [[[o p1]|]|] eqn:H1; try discriminate.
  destruct (uvp p1) as [[[s p2]|]|] eqn:H2; try discriminate.
  destruct (uvp p2) as [[[sl p3]|]|] eqn:H3; try discriminate.
  destruct (nth_error bs p3) as [fl|] eqn:H4; try discriminate.
  intros H. injection H as _ <-.
  apply uvp_bounds in H1. apply uvp_bounds in H2. apply uvp_bounds in H3.
  assert (p3 < List.length bs)%nat by (apply nth_error_Some; congruence). lia.
Qed.

(* with enough fuel the loop ends by itself: every entry consumes input *)
Lemma pdec_total n : forall pos, (List.length bs - pos < n)%nat -> pdec n pos <> None.
Proof.
  induction n as [|n IH]; intros pos Hn; [lia|].
  cbn [pdec]. destruct (fr pos) as [e p| |] eqn:Hf; try discriminate.
  pose proof (fr_bounds _ _ _ Hf) as Hb.
  specialize (IH p ltac:(lia)). destruct (pdec n p) as [[es|]|]; congruence.
Qed.

(* pdec is the model's entries_dec on the bytes from pos on *)
Lemma pdec_is_entries_dec n : forall pos r, pdec n pos = Some r ->
  forall f, (n <= f)%nat -> entries_dec f (skipn pos bs) = r.
Proof.
  induction n as [|n IH]; intros pos r H f Hf; [discriminate|].
  destruct f as [|f]; [lia|].
  cbn [pdec] in H. cbn [entries_dec]. unfold fr in H.
  rewrite (rd_uv_uvp pos).
  destruct (uvp pos) as [[[o p1]|]|]; try (injection H as <-; reflexivity).
  rewrite (rd_uv_uvp p1).
  destruct (uvp p1) as [[[s p2]|]|]; try (injection H as <-; reflexivity).
  rewrite (rd_uv_uvp p2).
  destruct (uvp p2) as [[[sl p3]|]|]; try (injection H as <-; reflexivity).
  destruct (nth_error bs p3) as [fl|] eqn:Hn.
  - assert (Hs : skipn p3 bs = fl :: skipn (S p3) bs).
    { clear - Hn. revert p3 Hn. induction bs as [|b l IHl]; intros [|p] Hn; cbn in *; try discriminate.
      - injection Hn as <-. reflexivity.
      - apply IHl. exact Hn. }
    rewrite Hs.
    destruct (pdec n (S p3)) as [[es|]|] eqn:Hp; try discriminate.
    + rewrite (IH (S p3) _ Hp f ltac:(lia)). injection H as <-. reflexivity.
    + rewrite (IH (S p3) _ Hp f ltac:(lia)). injection H as <-. reflexivity.
  - assert (Hs : skipn p3 bs = []).
    { apply skipn_all2. apply nth_error_None. exact Hn. }
    rewrite Hs. injection H as <-. reflexivity.
Qed.
End Model.

(* ------------------------------------------------------------------ the translated functions *)
Section Dec.
Variable prog : program.
Hypothesis prog_ReadUvarint : plookup "uvarintReader.ReadUvarint" prog = Some fn_uvarintReader_ReadUvarint.
Hypothesis prog_ReadByte : plookup "uvarintReader.ReadByte" prog = Some fn_uvarintReader_ReadByte.
Hypothesis prog_FromReader : plookup "OffsetAndSizeAndSlot.FromReader" prog = Some fn_OffsetAndSizeAndSlot_FromReader.
Hypothesis prog_Slice : plookup "OffsetAndSizeAndSlotSliceFromBytes" prog = Some fn_OffsetAndSizeAndSlotSliceFromBytes.

Variable ext : string -> list val -> option val.     (* ANY oracle that answers binary.Uvarint as std_ext does *)
Hypothesis ext_uv : forall buf, ext "binary.Uvarint" [VInts buf] = std_ext "binary.Uvarint" [VInts buf].
Variable bs : list N.
Hypothesis bs_len : Z.of_nat (List.length bs) < 4611686018427387904.
Hypothesis bs_bytes : Forall (fun b => (b < 256)%N) bs.

Definition oz (o s sl fl : Z) : val :=
  VStruct [("Offset", VInt o); ("Size", VInt s); ("Slot", VInt sl); ("Flags", VInt fl)].

Lemma oas_val_oz o s sl fl : oas_val (o, s, sl, fl) = oz (Z.of_N o) (Z.of_N s) (Z.of_N sl) (Z.of_N fl).
Proof. reflexivity. Qed.

Lemma ReadUvarint_body f pos :
  exec prog ext f (f_body fn_uvarintReader_ReadUvarint) [("r", rdr_val pos bs)] =
  match uvp bs pos with
  | Some None => RRet (VTuple [VInt 0; VErr "io.EOF"; rdr_val pos bs])
  | None => RRet (VTuple [VInt 0; VErr "errors.New"; rdr_val pos bs])
  | Some (Some (v, p)) => RRet (VTuple [VInt (Z.of_N v); VNil; rdr_val p bs])
  end.
Proof.
  pose proof (ReadUvarint_is_rd_uv_ext prog prog_ReadUvarint ext ext_uv f pos bs bs_len) as H.
  unfold call in H. rewrite prog_ReadUvarint in H.
  change (bind_params (f_params fn_uvarintReader_ReadUvarint) [rdr_val pos bs]) with (Some [("r", rdr_val pos bs)]) in H.
  cbv beta iota in H.
  assert (R : match rd_uv (skipn pos bs) with
              | Some None => RRet (VTuple [VInt 0; VErr "io.EOF"; rdr_val pos bs])
              | None => RRet (VTuple [VInt 0; VErr "errors.New"; rdr_val pos bs])
              | Some (Some (v, _)) =>
                  match uvarint_dec (skipn pos bs) with
                  | Some (_, n) => RRet (VTuple [VInt (Z.of_N v); VNil; rdr_val (pos + n) bs])
                  | None => RStuck
                  end
              end =
              match uvp bs pos with
              | Some None => RRet (VTuple [VInt 0; VErr "io.EOF"; rdr_val pos bs])
              | None => RRet (VTuple [VInt 0; VErr "errors.New"; rdr_val pos bs])
              | Some (Some (v, p)) => RRet (VTuple [VInt (Z.of_N v); VNil; rdr_val p bs])
              end).
  { rewrite rd_uv_uvp. unfold uvp.
    destruct (Nat.leb_spec (List.length bs) pos) as [Hge|Hlt]; [reflexivity|].
    destruct (uvarint_dec (skipn pos bs)) as [[v n]|]; reflexivity. }
  rewrite R in H. clear R.
  destruct (exec prog ext f (f_body fn_uvarintReader_ReadUvarint) [("r", rdr_val pos bs)]);
    destruct (uvp bs pos) as [[[v0 p0]|]|]; try discriminate; exact H.
Qed.

Lemma ReadByte_body f pos :
  exec prog ext f (f_body fn_uvarintReader_ReadByte) [("r", rdr_val pos bs)] =
  match nth_error bs pos with
  | None => RRet (VTuple [VInt 0; VErr "io.EOF"; rdr_val pos bs])
  | Some b => RRet (VTuple [VInt (Z.of_N b); VNil; rdr_val (S pos) bs])
  end.
Proof.
  pose proof (ReadByte_spec_ext prog prog_ReadByte ext f pos bs bs_len) as H.
  unfold call in H. rewrite prog_ReadByte in H.
  change (bind_params (f_params fn_uvarintReader_ReadByte) [rdr_val pos bs]) with (Some [("r", rdr_val pos bs)]) in H.
  cbv beta iota in H.
  destruct (exec prog ext f (f_body fn_uvarintReader_ReadByte) [("r", rdr_val pos bs)]);
    destruct (nth_error bs pos); try discriminate; exact H.
Qed.

(* what FromReader returns, by the model's classification of the bytes at pos *)
Definition fr_post (r : fr_res) (out : res) : Prop :=
  match r with
  | FrOk e p => out = RRet (VTuple [VNil; oas_val e; rdr_val p bs])
  | FrEOF => exists a b, out = RRet (VTuple [VErr "%w io.EOF"; a; b])
  | FrBad => exists a b, out = RRet (VTuple [VErr "%w errors.New"; a; b])
  end.

Ltac call_uv p :=
  rewrite exec_call_S; go_cbn; rewrite prog_ReadUvarint;
  change (bind_params (f_params fn_uvarintReader_ReadUvarint) [rdr_val p bs]) with (Some [("r", rdr_val p bs)]);
  cbv beta iota; rewrite ReadUvarint_body.

Theorem FromReader_body f pos o0 s0 sl0 f0 : (1 <= f)%nat ->
  fr_post (fr bs pos)
    (exec prog ext f (f_body fn_OffsetAndSizeAndSlot_FromReader) [("oas", oz o0 s0 sl0 f0); ("r", rdr_val pos bs)]).
Proof.
  intros Hf. destruct f as [|f]; [lia|].
  unfold fn_OffsetAndSizeAndSlot_FromReader, oz, fr. cbn [f_body]. go_run.
  call_uv pos.
  destruct (uvp bs pos) as [[[o p1]|]|]; go_run; [|eexists; eexists; reflexivity|eexists; eexists; reflexivity].
  call_uv p1.
  destruct (uvp bs p1) as [[[s p2]|]|]; go_run; [|eexists; eexists; reflexivity|eexists; eexists; reflexivity].
  call_uv p2.
  destruct (uvp bs p2) as [[[sl p3]|]|]; go_run; [|eexists; eexists; reflexivity|eexists; eexists; reflexivity].
  rewrite exec_call_S. go_cbn. rewrite prog_ReadByte.
  change (bind_params (f_params fn_uvarintReader_ReadByte) [rdr_val p3 bs]) with (Some [("r", rdr_val p3 bs)]).
  cbv beta iota. rewrite ReadByte_body.
  destruct (nth_error bs p3) as [fl|] eqn:Hn; go_run; [|eexists; eexists; reflexivity].
  assert (Hfl : (fl < 256)%N).
  { apply nth_error_In in Hn. rewrite Forall_forall in bs_bytes. apply bs_bytes. exact Hn. }
  rewrite (wrap_unsigned_id U8 (Z.of_N fl)) by (try reflexivity; cbn; lia).
  reflexivity.
Qed.

(* ------------------------------------------------------------------ the loop *)
Definition loop_env (rv : val) (acc : list val) (o e : val) : env :=
  [("buf", VInts (zs bs)); ("r", rv); ("oass", VTuple acc); ("oas", o); ("err", e)].

Definition loop_body : stmt :=
  SSeq (SAssign (LVar "oas") (EStructLit [("Offset", EInt 0); ("Size", EInt 0); ("Slot", EInt 0); ("Flags", EInt 0)]))
  (SSeq (SCall [LVar "err"; LVar "oas"; LVar "r"] "OffsetAndSizeAndSlot.FromReader" [EVar "oas"; EVar "r"])
  (SSeq (SIf (ENot (EIsNil (EVar "err")))
  (SSeq (SIf (EErrorsIs (EVar "err") "io.EOF")
  (SBreak)
  (SSkip))
  (SReturn [ENilSlice; EWrap (EVar "err")]))
  (SSkip))
  (SAssign (LVar "oass") (EBuiltin "appendv" [EVar "oass"; EVar "oas"])))).

Ltac loop_step pos :=
  rewrite exec_for_S; go_cbn; unfold loop_body at 1;
  rewrite exec_seq; rewrite exec_assign; unfold loop_env; go_cbn;
  rewrite exec_seq; rewrite exec_call_S; go_cbn; rewrite prog_FromReader;
  change (bind_params (f_params fn_OffsetAndSizeAndSlot_FromReader)
            [VStruct [("Offset", VInt 0); ("Size", VInt 0); ("Slot", VInt 0); ("Flags", VInt 0)]; rdr_val pos bs])
    with (Some [("oas", oz 0 0 0 0); ("r", rdr_val pos bs)]);
  cbv beta iota.

Lemma loop_spec n : forall pos acc o e g, (n + 2 <= g)%nat ->
  match pdec bs n pos with
  | None => True
  | Some None =>
      exec prog ext g (SFor (EBool true) SSkip loop_body) (loop_env (rdr_val pos bs) acc o e) =
      RRet (VTuple [VInts []; VErr "%w %w errors.New"])
  | Some (Some es) =>
      exists rv' o' e',
      exec prog ext g (SFor (EBool true) SSkip loop_body) (loop_env (rdr_val pos bs) acc o e) =
      RNorm (loop_env rv' (acc ++ map oas_val es) o' e')
  end.
Proof.
  induction n as [|n IH]; intros pos acc o e g Hg; [exact I|].
  cbn [pdec].
  destruct g as [|g]; [lia|]. destruct g as [|g]; [lia|].
  pose proof (FromReader_body (S g) pos 0 0 0 0 ltac:(lia)) as Hfr.
  destruct (fr bs pos) as [[[[eo es_] esl] efl] p| |] eqn:Hf; cbn [fr_post] in Hfr.
  - (* an entry: append and go on *)
    specialize (IH p (acc ++ [oas_val (eo, es_, esl, efl)]) (oas_val (eo, es_, esl, efl)) VNil (S g) ltac:(lia)).
    destruct (pdec bs n p) as [[es|]|]; [| |exact I].
    + destruct IH as (p' & o' & e' & IH). exists p', o', e'.
      loop_step pos. rewrite Hfr. go_run.
      unfold loop_env in IH. rewrite IH. cbn [map]. rewrite <- app_assoc. reflexivity.
    + loop_step pos. rewrite Hfr. go_run.
      unfold loop_env in IH. rewrite IH. reflexivity.
  - (* io.EOF: break; the reader and the scratch entry are whatever FromReader left *)
    destruct Hfr as (a & b & Hfr).
    exists b, a, (VErr "%w io.EOF").
    loop_step pos. rewrite Hfr. go_run. cbn [map]. rewrite app_nil_r. reflexivity.
  - destruct Hfr as (a & b & Hfr).
    loop_step pos. rewrite Hfr. go_run. reflexivity.
Qed.

(* OffsetAndSizeAndSlotSliceFromBytes IS the model's entries_dec, for every byte string *)
Theorem SliceFromBytes_is_entries_dec g f : (List.length bs + 3 <= g)%nat -> (List.length bs < f)%nat ->
  call prog ext g "OffsetAndSizeAndSlotSliceFromBytes" [VInts (zs bs)] =
  match entries_dec f bs with
  | Some es => RRet (VTuple [VTuple (map oas_val es); VNil])
  | None => RRet (VTuple [VInts []; VErr "%w %w errors.New"])
  end.
Proof.
  intros Hg Hf.
  pose proof (pdec_total bs (S (List.length bs)) 0%nat ltac:(lia)) as Htot.
  pose proof (loop_spec (S (List.length bs)) 0%nat [] (oz 0 0 0 0) VNil g ltac:(lia)) as Hloop.
  pose proof (pdec_is_entries_dec bs (S (List.length bs)) 0%nat) as Hdec.
  destruct (pdec bs (S (List.length bs)) 0) as [r|]; [|congruence].
  specialize (Hdec r eq_refl f ltac:(lia)). cbn [skipn] in Hdec. rewrite Hdec. clear Hdec Htot.
  unfold call. rewrite prog_Slice. unfold fn_OffsetAndSizeAndSlotSliceFromBytes.
  cbn [f_params f_body bind_params]. go_run.
  fold loop_body.
  change [("buf", VInts (zs bs)); ("r", VStruct [("pos", VInt 0); ("buf", VInts (zs bs))]); ("oass", VTuple []);
          ("oas", VStruct [("Offset", VInt 0); ("Size", VInt 0); ("Slot", VInt 0); ("Flags", VInt 0)]); ("err", VNil)]
    with (loop_env (rdr_val 0 bs) [] (oz 0 0 0 0) VNil).
  destruct r as [es|].
  - destruct Hloop as (rv' & o' & e' & Hloop). rewrite Hloop. unfold loop_env. go_run. reflexivity.
  - rewrite Hloop. reflexivity.
Qed.

End Dec.

(* ------------------------------------------------------------------ round trip with the writer's payload *)
Local Open Scope N_scope.
Lemma uv_enc_bytes f : forall x, x < 2 ^ (7 * N.of_nat f + 8) -> Forall (fun b => b < 256) (uv_enc f x).
Proof.
  induction f as [|f IH]; intros x Hx.
  - cbn [uv_enc]. constructor; [|constructor]. change (2 ^ (7 * N.of_nat 0 + 8)) with 256 in Hx. exact Hx.
  - cbn [uv_enc]. destruct (N.ltb_spec x 128) as [Hs|Hb].
    + constructor; [lia|constructor].
    + constructor.
      * pose proof (N.mod_upper_bound x 128 ltac:(lia)). lia.
      * apply IH. replace (7 * N.of_nat (S f) + 8) with (7 + (7 * N.of_nat f + 8)) in Hx by lia.
        rewrite N.pow_add_r in Hx. change (2 ^ 7) with 128 in Hx.
        apply N.div_lt_upper_bound; [lia|exact Hx].
Qed.

Lemma entries_enc_bytes es : Forall entry_wf es -> Forall (fun b => b < 256) (entries_enc es).
Proof.
  induction es as [|e es IH]; intros Hw; [constructor|].
  inversion Hw as [|? ? He Hw']; subst. destruct e as [[[o s] sl] fl]. destruct He as (Ho & Hs & Hsl & Hfl).
  cbn [entries_enc flat_map entry_enc]. fold (entries_enc es).
  assert (Hu : forall x, x < 2 ^ 64 -> Forall (fun b => b < 256) (uvarint x)).
  { intros x Hx. apply uv_enc_bytes. change (2 ^ (7 * N.of_nat 9 + 8)) with (2 ^ 71).
    eapply N.lt_trans; [exact Hx|]. reflexivity. }
  rewrite !Forall_app. repeat split; auto; try (constructor; [exact Hfl|constructor]).
Qed.
Local Close Scope N_scope.

Section RoundTrip.
Variable prog : program.
Hypothesis prog_ReadUvarint : plookup "uvarintReader.ReadUvarint" prog = Some fn_uvarintReader_ReadUvarint.
Hypothesis prog_ReadByte : plookup "uvarintReader.ReadByte" prog = Some fn_uvarintReader_ReadByte.
Hypothesis prog_FromReader : plookup "OffsetAndSizeAndSlot.FromReader" prog = Some fn_OffsetAndSizeAndSlot_FromReader.
Hypothesis prog_Slice : plookup "OffsetAndSizeAndSlotSliceFromBytes" prog = Some fn_OffsetAndSizeAndSlotSliceFromBytes.

(* the decoder applied to what createIndexesPayload concatenates (the Bytes of each entry) returns the entries *)
Theorem SliceFromBytes_entries_enc (es : list entry) g :
  Forall entry_wf es -> Z.of_nat (List.length (entries_enc es)) < 4611686018427387904 ->
  (List.length (entries_enc es) + 3 <= g)%nat ->
  call prog std_ext g "OffsetAndSizeAndSlotSliceFromBytes" [VInts (zs (entries_enc es))] =
  RRet (VTuple [VTuple (map oas_val es); VNil]).
Proof.
  intros Hw Hlen Hg.
  rewrite (SliceFromBytes_is_entries_dec prog prog_ReadUvarint prog_ReadByte prog_FromReader prog_Slice
             std_ext (fun _ => eq_refl)
             (entries_enc es) Hlen (entries_enc_bytes es Hw) g (S (List.length (entries_enc es))) Hg ltac:(lia)).
  rewrite entries_dec_enc; [reflexivity| |exact Hw].
  pose proof (entries_enc_length es). lia.
Qed.
End RoundTrip.
