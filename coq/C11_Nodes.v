(* C11 (and the decoder part of C12): the seven IPLD node kinds of ledger.ipldsch, their tuple
   representation as CBOR items (the specification side: what ipld-prime bindnode + dag-cbor writes and
   accepts), and the hand-written fast decoders of ipld/ipldbindcode/cbor.go transcribed function by
   function, with explicit Ok | Err | Panic outcomes.

   Conventions
   - Go `int` is int64: typed values hold Z; `int(uint64)` / `uint64(int64)` conversions are written out.
   - A `nullable optional` field (Go `**T`) has three states: Absent | Null | Present.
   - [guarded site] says whether the type assertion / slice expression at [site] is checked in the code
     (repaired tree: every site guarded -> an error is returned; pinned tree: unguarded -> a Go panic).
   - [cid_len] stands for go-cid's CidFromBytes (third-party): None = error, Some n = a CID occupying the
     first n bytes. Theorems are stated for an arbitrary [cid_len]; [cid_len_impl] is the executable
     transcription used by the correspondence check.
   - fxamacker/cbor behaviour the decoders depend on (default decoding mode) is modelled by [lib_ok]
     (MaxNestedLevels, MaxArrayElements, built-in tag content), [top_arr] (decoding into []interface{}
     strips enclosing tags; null gives a nil slice) and [norm] (self-described-CBOR tag 55799 is stripped
     in front of array elements). *)
From Coq Require Import List Arith Lia Bool PeanoNat NArith ZArith.
Import ListNotations.
Require Import YF.Cbor YF.Generated.ConstsC11.
Local Open Scope N_scope.

(* ------------------------------------------------------------------ outcomes *)
Inductive err := EParse | ELib | EMissing | EType | EKind | ECid.
Inductive outcome (A : Type) : Type := Ok (a : A) | Err (e : err) | Panic (site : N).
Arguments Ok {A} a.
Arguments Err {A} e.
Arguments Panic {A} site.

Definition bind {A B : Type} (o : outcome A) (f : A -> outcome B) : outcome B :=
  match o with Ok a => f a | Err e => Err e | Panic s => Panic s end.
Notation "x <- a ;; b" := (bind a (fun x => b)) (at level 61, a at next level, right associativity).

Fixpoint mapM {A B : Type} (f : A -> outcome B) (l : list A) : outcome (list B) :=
  match l with
  | [] => Ok []
  | x :: r => y <- f x ;; t <- mapM f r ;; Ok (y :: t)
  end.

(* potential panic sites of ipld/ipldbindcode/cbor.go *)
Definition site_block_meta : N := 1.            (* Block.UnmarshalCBOR:       meta.([]interface{})     *)
Definition site_entry_hash : N := 2.            (* Entry.UnmarshalCBOR:       hash.([]byte)            *)
Definition site_tx_data : N := 3.               (* Transaction.UnmarshalCBOR: data.([]interface{})     *)
Definition site_tx_metadata : N := 4.           (* Transaction.UnmarshalCBOR: metadata.([]interface{}) *)
Definition site_rewards_data : N := 5.          (* Rewards.UnmarshalCBOR:     data.([]interface{})     *)
Definition site_link_empty : N := 6.            (* decodeCborLinkListFromAny: rawBytes[1:]             *)
Definition site_block_rewards_empty : N := 7.   (* Block.UnmarshalCBOR:       rawBytes[1:] (rewards)   *)
Definition all_sites : list N := [1; 2; 3; 4; 5; 6; 7].

(* ------------------------------------------------------------------ go-cid CidFromBytes (transcription) *)
(* varint.FromUvarint: at most 9 bytes, minimal encoding *)
Fixpoint uv63 (bs : list N) (i : nat) (x s : N) : option (N * nat) :=
  match bs with
  | [] => None
  | b :: r =>
    if ((i =? 8)%nat && (128 <=? b)) || (9 <=? i)%nat then None
    else if b <? 128 then (if (b =? 0) && (0 <? s) then None else Some (x + b * 2 ^ s, S i))
    else uv63 r (S i) (x + (b mod 128) * 2 ^ s) (s + 7)
  end.

Definition cid_v1_len (d : list N) : option nat :=
  match uv63 d 0 0 0 with None => None | Some (vers, n) =>
  if negb (vers =? 1) then None else
  let d1 := skipn n d in
  match uv63 d1 0 0 0 with None => None | Some (_, cn) =>
  let d2 := skipn cn d1 in
  if (length d2 <? 2)%nat then None else
  match uv63 d2 0 0 0 with None => None | Some (_, c1) =>
  let d3 := skipn c1 d2 in
  match uv63 d3 0 0 0 with None => None | Some (len, c2) =>
  let d4 := skipn c2 d3 in
  if 2147483647 <? len then None
  else if N.of_nat (length d4) <? len then None
  else Some (n + cn + c1 + c2 + N.to_nat len)%nat
  end end end end.

Definition cid_len_impl (d : list N) : option nat :=
  match d with
  | a :: b :: _ :: _ =>
    if (a =? 18) && (b =? 32) then (if (34 <=? length d)%nat then Some 34%nat else None)
    else cid_v1_len d
  | _ => cid_v1_len d
  end.

(* ------------------------------------------------------------------ typed values (ledger.ipldsch) *)
Definition link := list N.      (* the bytes of a CID *)
Inductive opt2 (A : Type) : Type := Absent | Null | Present (a : A).
Arguments Absent {A}.
Arguments Null {A}.
Arguments Present {A} a.

Record DataFrame := mkDataFrame {
  df_kind : Z; df_hash : opt2 Z; df_index : opt2 Z; df_total : opt2 Z; df_data : list N; df_next : opt2 (list link) }.
Record Transaction := mkTransaction {
  tx_kind : Z; tx_data : DataFrame; tx_metadata : DataFrame; tx_slot : Z; tx_index : opt2 Z }.
Record Entry := mkEntry { en_kind : Z; en_num_hashes : Z; en_hash : list N; en_transactions : list link }.
Record Shredding := mkShredding { sh_entry_end_idx : Z; sh_shred_end_idx : Z }.
Record SlotMeta := mkSlotMeta { sm_parent_slot : Z; sm_blocktime : Z; sm_block_height : opt2 Z }.
Record Block := mkBlock {
  bl_kind : Z; bl_slot : Z; bl_shredding : list Shredding; bl_entries : list link; bl_meta : SlotMeta; bl_rewards : link }.
Record Subset := mkSubset { su_kind : Z; su_first : Z; su_last : Z; su_blocks : list link }.
Record Epoch := mkEpoch { ep_kind : Z; ep_epoch : Z; ep_subsets : list link }.
Record Rewards := mkRewards { rw_kind : Z; rw_slot : Z; rw_data : DataFrame }.

Inductive node :=
| NTransaction (x : Transaction) | NEntry (x : Entry) | NBlock (x : Block) | NSubset (x : Subset)
| NEpoch (x : Epoch) | NRewards (x : Rewards) | NDataFrame (x : DataFrame).

(* ------------------------------------------------------------------ the schema's tuple representation *)
Definition repr_int (z : Z) : item := if (0 <=? z)%Z then CUint (Z.to_N z) else CNint (Z.to_N (-1 - z)).
Definition repr_opt_int (o : opt2 Z) : item := match o with Present z => repr_int z | _ => CNull end.
(* a trailing `nullable optional` field: omitted when absent *)
Definition repr_trailing {A : Type} (f : A -> item) (o : opt2 A) : list item :=
  match o with Absent => [] | Null => [CNull] | Present a => [f a] end.
(* dag-cbor link: tag 42 around the CID bytes prefixed with the multibase identity byte 0x00 *)
Definition repr_link (c : link) : item := CTag 42 (CBytes (0 :: c)).
Definition repr_links (l : list link) : item := CArr (map repr_link l).

Definition repr_dataframe (d : DataFrame) : item :=
  CArr ([repr_int (df_kind d); repr_opt_int (df_hash d); repr_opt_int (df_index d); repr_opt_int (df_total d);
         CBytes (df_data d)] ++ repr_trailing repr_links (df_next d)).
Definition repr_transaction (t : Transaction) : item :=
  CArr ([repr_int (tx_kind t); repr_dataframe (tx_data t); repr_dataframe (tx_metadata t); repr_int (tx_slot t)]
        ++ repr_trailing repr_int (tx_index t)).
Definition repr_entry (e : Entry) : item :=
  CArr [repr_int (en_kind e); repr_int (en_num_hashes e); CBytes (en_hash e); repr_links (en_transactions e)].
Definition repr_shredding (s : Shredding) : item := CArr [repr_int (sh_entry_end_idx s); repr_int (sh_shred_end_idx s)].
Definition repr_slotmeta (m : SlotMeta) : item :=
  CArr ([repr_int (sm_parent_slot m); repr_int (sm_blocktime m)] ++ repr_trailing repr_int (sm_block_height m)).
Definition repr_block (b : Block) : item :=
  CArr [repr_int (bl_kind b); repr_int (bl_slot b); CArr (map repr_shredding (bl_shredding b));
        repr_links (bl_entries b); repr_slotmeta (bl_meta b); repr_link (bl_rewards b)].
Definition repr_subset (s : Subset) : item :=
  CArr [repr_int (su_kind s); repr_int (su_first s); repr_int (su_last s); repr_links (su_blocks s)].
Definition repr_epoch (e : Epoch) : item :=
  CArr [repr_int (ep_kind e); repr_int (ep_epoch e); repr_links (ep_subsets e)].
Definition repr_rewards (r : Rewards) : item :=
  CArr [repr_int (rw_kind r); repr_int (rw_slot r); repr_dataframe (rw_data r)].

Definition repr_node (n : node) : item :=
  match n with
  | NTransaction x => repr_transaction x | NEntry x => repr_entry x | NBlock x => repr_block x
  | NSubset x => repr_subset x | NEpoch x => repr_epoch x | NRewards x => repr_rewards x
  | NDataFrame x => repr_dataframe x
  end.

(* ------------------------------------------------------------------ fxamacker/cbor (default decoding mode) *)
Definition tag_selfdescribed : N := 55799.

(* what `interface{}` elements look like after decoding: tag 55799 is stripped in front of array elements *)
Fixpoint norm (el : bool) (i : item) : item :=
  match i with
  | CTag t c => if el && (t =? tag_selfdescribed) then norm true c else CTag t (norm false c)
  | CArr l => CArr (map (norm true) l)
  | x => x
  end.

(* wellformedInternal: arrays count one nesting level each, a tag directly inside a tag counts one *)
Fixpoint wfi (d : N) (i : item) : bool :=
  match i with
  | CArr l => (d + 1 <=? max_nested_levels) && (N.of_nat (length l) <=? max_array_elements) && forallb (wfi (d + 1)) l
  | CTag _ c => match c with
                | CTag _ _ => (d + 1 <=? max_nested_levels) && wfi (d + 1) c
                | _ => wfi d c
                end
  | _ => true
  end.

(* validBuiltinTag: bignum tags 2/3 need byte-string content. Time tags 0/1 are outside the modelled
   fragment (reported as a library error; the harness does not compare such inputs). *)
Fixpoint tags_ok (i : item) : bool :=
  match i with
  | CTag t c => negb (t <? 2)
                && (if (t =? 2) || (t =? 3) then match c with CBytes _ => true | _ => false end else true)
                && tags_ok c
  | CArr l => forallb tags_ok l
  | _ => true
  end.

Definition lib_ok (i : item) : bool := wfi 0 i && tags_ok i.

(* dec.Decode(&arr) with arr []interface{}: enclosing tags are stripped, null leaves a nil slice *)
Fixpoint top_arr (i : item) : outcome (list item) :=
  match i with
  | CArr l => Ok l
  | CNull => Ok []
  | CTag t c => if t <? 4 then Err EType else top_arr c
  | _ => Err EType
  end.

(* Go dynamic types of a decoded element *)
Definition as_tag (i : item) : option (N * item) :=       (* cbor.Tag; tags 1..3 decode to time.Time / big.Int *)
  match i with CTag t c => if t <? 4 then None else Some (t, c) | _ => None end.

(* The parser of Cbor.v in a form that can be EVALUATED on hostile inputs: a declared string length is compared
   with the remaining input before it is turned into a unary number (Cbor.take computes N.to_nat first, which
   a call-by-value evaluator cannot survive for a declared length of 2^63). C11_Proofs.parse_g_eq proves
   parse_g = Cbor.parse and parse_seq_g = Cbor.parse_seq on all inputs. *)
Definition take_g (n : N) (bs : list N) : option (list N * list N) :=
  if n <=? N.of_nat (length bs) then take (N.to_nat n) bs else None.
Definition special (bs : list N) : option (item * list N) :=
  match bs with
  | 246 :: r => Some (CNull, r)
  | 244 :: r => Some (CBool false, r)
  | 245 :: r => Some (CBool true, r)
  | _ => None
  end.
Fixpoint parse_g (fuel : nat) (bs : list N) : option (item * list N) :=
  match fuel with
  | O => None
  | S f =>
    match special bs with
    | Some res => Some res
    | None =>
      match parse_head bs with
      | None => None
      | Some (m, n, r) =>
        if m =? 0 then Some (CUint n, r)
        else if m =? 1 then Some (CNint n, r)
        else if m =? 2 then match take_g n r with Some (a, r') => Some (CBytes a, r') | None => None end
        else if m =? 3 then match take_g n r with Some (a, r') => Some (CText a, r') | None => None end
        else if m =? 4 then match parse_seq_g f n r with Some (l, r') => Some (CArr l, r') | None => None end
        else if m =? 6 then match parse_g f r with Some (i, r') => Some (CTag n i, r') | None => None end
        else None
      end
    end
  end
with parse_seq_g (fuel : nat) (n : N) (bs : list N) : option (list item * list N) :=
  match fuel with
  | O => None
  | S f =>
    if n =? 0 then Some ([], bs)
    else match parse_g f bs with
         | None => None
         | Some (i, r) => match parse_seq_g f (n - 1) r with
                          | Some (l, r') => Some (i :: l, r')
                          | None => None
                          end
         end
  end.

(* enough fuel for every input of that length: w i <= 2 * length (encode i) (C11_Proofs.w_le) *)
Definition parse_bytes (bs : list N) : option (item * list N) := parse_g (2 * length bs) bs.

(* ------------------------------------------------------------------ the fast decoders (cbor.go) *)
Definition two63 : N := 9223372036854775808.
Definition two64 : N := 18446744073709551616.

(* getUint64FromInterface: uint64 as is, int64 converted with uint64(); negative integers below -2^63
   arrive as big.Int and are rejected *)
Definition to_u64 (i : item) : option N :=
  match i with
  | CUint n => Some (n mod two64)
  | CNint n => if n <? two63 then Some (two64 - 1 - n) else None
  | _ => None
  end.
(* int(x) for x uint64 *)
Definition int_of_u64 (u : N) : Z := if u <? two63 then Z.of_N u else (Z.of_N u - Z.of_N two64)%Z.
(* uint64(x) for x int *)
Definition u64_of_int (z : Z) : N := Z.to_N (z mod Z.of_N two64).

Definition of_option {A : Type} (o : option A) : opt2 A := match o with Some a => Present a | None => Absent end.

Section Decoders.
Variable cid_len : list N -> option nat.
Variable guarded : N -> bool.

Definition assert_fail {A : Type} (site : N) : outcome A := if guarded site then Err EType else Panic site.

(* arr.Get(i) present and an integer *)
Definition get_int (arr : list item) (i : nat) : outcome Z :=
  match nth_error arr i with
  | None => Err EMissing
  | Some it => match to_u64 it with Some u => Ok (int_of_u64 u) | None => Err EType end
  end.
(* optional trailing / nullable field: read if present and non-null *)
Definition get_opt_int (arr : list item) (i : nat) : outcome (option Z) :=
  match nth_error arr i with
  | None => Ok None
  | Some CNull => Ok None
  | Some it => match to_u64 it with Some u => Ok (Some (int_of_u64 u)) | None => Err EType end
  end.

(* one link: cbor.Tag, number 42, []byte content, CidFromBytes(rawBytes[1:]) *)
Definition dec_link (site : N) (it : item) : outcome link :=
  match as_tag it with
  | None => Err EType
  | Some (t, c) =>
    if negb (t =? 42) then Err EType else
    match c with
    | CBytes raw =>
      match raw with
      | [] => assert_fail site
      | _ :: r => match cid_len r with Some n => Ok (firstn n r) | None => Err ECid end
      end
    | _ => Err EType
    end
  end.

(* decodeCborLinkListFromAny *)
Definition dec_link_list (it : item) : outcome (list link) :=
  match it with
  | CNull => Ok []
  | CArr l => mapM (dec_link site_link_empty) l
  | _ => Err EType
  end.
Definition get_links (arr : list item) (i : nat) : outcome (list link) :=
  match nth_error arr i with None => Err EMissing | Some it => dec_link_list it end.

(* DataFrame.fromCBORArray *)
Definition un_dataframe (arr : list item) : outcome DataFrame :=
  k <- get_int arr 0 ;;
  if negb (k =? ukind_dataframe)%Z then Err EKind else
  h <- get_opt_int arr 1 ;;
  ix <- get_opt_int arr 2 ;;
  tot <- get_opt_int arr 3 ;;
  d <- match nth_error arr 4 with
       | None => Err EMissing
       | Some (CBytes b) => Ok b
       | Some _ => Err EType
       end ;;
  nx <- match nth_error arr 5 with
        | None => Ok Absent
        | Some it => l <- dec_link_list it ;; Ok (Present l)
        end ;;
  Ok (mkDataFrame k (of_option h) (of_option ix) (of_option tot) d nx).

(* a nested DataFrame: data.([]interface{}) unchecked *)
Definition get_frame (site : N) (arr : list item) (i : nat) : outcome DataFrame :=
  match nth_error arr i with
  | None => Err EMissing
  | Some (CArr l) => un_dataframe l
  | Some _ => assert_fail site
  end.

Definition un_transaction (arr : list item) : outcome Transaction :=
  k <- get_int arr 0 ;;
  if negb (k =? ukind_transaction)%Z then Err EKind else
  d <- get_frame site_tx_data arr 1 ;;
  m <- get_frame site_tx_metadata arr 2 ;;
  s <- get_int arr 3 ;;
  ix <- get_opt_int arr 4 ;;
  Ok (mkTransaction k d m s (of_option ix)).

Definition un_entry (arr : list item) : outcome Entry :=
  k <- get_int arr 0 ;;
  if negb (k =? ukind_entry)%Z then Err EKind else
  nh <- get_int arr 1 ;;
  h <- match nth_error arr 2 with
       | None => Err EMissing
       | Some (CBytes b) => Ok b
       | Some _ => assert_fail site_entry_hash
       end ;;
  txs <- get_links arr 3 ;;
  Ok (mkEntry k nh h txs).

Definition dec_shredding (it : item) : outcome Shredding :=
  match it with
  | CArr a => e <- get_int a 0 ;; s <- get_int a 1 ;; Ok (mkShredding e s)
  | _ => Err EType
  end.

Definition un_slotmeta (m : list item) : outcome SlotMeta :=
  p <- get_int m 0 ;;
  bt <- get_int m 1 ;;
  bh <- get_opt_int m 2 ;;
  Ok (mkSlotMeta p bt (of_option bh)).

Definition un_block (arr : list item) : outcome Block :=
  k <- get_int arr 0 ;;
  if negb (k =? ukind_block)%Z then Err EKind else
  sl <- get_int arr 1 ;;
  sh <- match nth_error arr 2 with
        | None => Err EMissing
        | Some (CArr l) => mapM dec_shredding l
        | Some _ => Err EType
        end ;;
  en <- get_links arr 3 ;;
  me <- match nth_error arr 4 with
        | None => Err EMissing
        | Some (CArr m) => un_slotmeta m
        | Some _ => assert_fail site_block_meta
        end ;;
  rw <- match nth_error arr 5 with
        | None => Err EMissing
        | Some it => dec_link site_block_rewards_empty it
        end ;;
  Ok (mkBlock k sl sh en me rw).

Definition un_subset (arr : list item) : outcome Subset :=
  k <- get_int arr 0 ;;
  if negb (k =? ukind_subset)%Z then Err EKind else
  f <- get_int arr 1 ;;
  l <- get_int arr 2 ;;
  bs <- get_links arr 3 ;;
  Ok (mkSubset k f l bs).

Definition un_epoch (arr : list item) : outcome Epoch :=
  k <- get_int arr 0 ;;
  if negb (k =? ukind_epoch)%Z then Err EKind else
  e <- get_int arr 1 ;;
  ss <- get_links arr 2 ;;
  Ok (mkEpoch k e ss).

Definition un_rewards (arr : list item) : outcome Rewards :=
  k <- get_int arr 0 ;;
  if negb (k =? ukind_rewards)%Z then Err EKind else
  s <- get_int arr 1 ;;
  d <- get_frame site_rewards_data arr 2 ;;
  Ok (mkRewards k s d).

(* T.UnmarshalCBOR on one decoded item *)
Definition unmarshal {A : Type} (un : list item -> outcome A) (i : item) : outcome A :=
  if lib_ok i then (arr <- top_arr i ;; un (map (norm true) arr)) else Err ELib.

(* iplddecoders._Decode*Fast: UnmarshalCBOR, then the kind check *)
Definition check_kind {A : Type} (kind : A -> Z) (k : Z) (o : outcome A) : outcome A :=
  x <- o ;; if (kind x =? k)%Z then Ok x else Err EKind.

Definition fast_decode_transaction (i : item) := check_kind tx_kind kind_transaction (unmarshal un_transaction i).
Definition fast_decode_entry (i : item) := check_kind en_kind kind_entry (unmarshal un_entry i).
Definition fast_decode_block (i : item) := check_kind bl_kind kind_block (unmarshal un_block i).
Definition fast_decode_subset (i : item) := check_kind su_kind kind_subset (unmarshal un_subset i).
Definition fast_decode_epoch (i : item) := check_kind ep_kind kind_epoch (unmarshal un_epoch i).
Definition fast_decode_rewards (i : item) := check_kind rw_kind kind_rewards (unmarshal un_rewards i).
Definition fast_decode_dataframe (i : item) := check_kind df_kind kind_dataframe (unmarshal un_dataframe i).

(* all seven behind the kind number asked for (iplddecoders.Decode<Kind>) *)
Definition fast_decode (k : Z) (i : item) : outcome node :=
  if (k =? kind_transaction)%Z then x <- fast_decode_transaction i ;; Ok (NTransaction x)
  else if (k =? kind_entry)%Z then x <- fast_decode_entry i ;; Ok (NEntry x)
  else if (k =? kind_block)%Z then x <- fast_decode_block i ;; Ok (NBlock x)
  else if (k =? kind_subset)%Z then x <- fast_decode_subset i ;; Ok (NSubset x)
  else if (k =? kind_epoch)%Z then x <- fast_decode_epoch i ;; Ok (NEpoch x)
  else if (k =? kind_rewards)%Z then x <- fast_decode_rewards i ;; Ok (NRewards x)
  else if (k =? kind_dataframe)%Z then x <- fast_decode_dataframe i ;; Ok (NDataFrame x)
  else Err EKind.

(* on bytes: the decoder reads the first data item of the input (trailing bytes are not looked at) *)
Definition on_bytes {A : Type} (f : item -> outcome A) (bs : list N) : outcome A :=
  match parse_bytes bs with
  | Some (i, _) => f i
  | None => Err EParse
  end.

Definition fast_decode_bytes_transaction := on_bytes fast_decode_transaction.
Definition fast_decode_bytes_entry := on_bytes fast_decode_entry.
Definition fast_decode_bytes_block := on_bytes fast_decode_block.
Definition fast_decode_bytes_subset := on_bytes fast_decode_subset.
Definition fast_decode_bytes_epoch := on_bytes fast_decode_epoch.
Definition fast_decode_bytes_rewards := on_bytes fast_decode_rewards.
Definition fast_decode_bytes_dataframe := on_bytes fast_decode_dataframe.
Definition fast_decode_bytes (k : Z) := on_bytes (fast_decode k).

End Decoders.

Definition all_guarded : N -> bool := fun _ => true.     (* the repaired tree *)
Definition none_guarded : N -> bool := fun _ => false.   (* the pinned tree *)

(* ------------------------------------------------------------------ observation through the accessors *)
Inductive ov := VZ (z : Z) | VN (n : N) | VB (b : list N) | VT (b : bool) | VNone | VSome (o : ov) | VL (l : list ov).

Definition is_nil {A : Type} (l : list A) : bool := match l with [] => true | _ => false end.

(* Get*: (value, ok) with ok = false for null and for omitted *)
Definition ov_opt_int (o : opt2 Z) : ov := match o with Present z => VSome (VZ z) | _ => VNone end.
(* GetHash / GetBlockHeight return the value converted to uint64 *)
Definition ov_opt_u64 (o : opt2 Z) : ov := match o with Present z => VSome (VN (u64_of_int z)) | _ => VNone end.
Definition ov_links (l : list link) : ov := VL (map VB l).
(* GetNext: (list, ok) with ok = false when null, omitted or a nil list; HasNext: non-empty.
   Both decoders leave a nil list for an empty one. *)
Definition next_list (o : opt2 (list link)) : list link := match o with Present l => l | _ => [] end.

Definition observe_dataframe (d : DataFrame) : ov :=
  VL [VZ (df_kind d); ov_opt_u64 (df_hash d); ov_opt_int (df_index d); ov_opt_int (df_total d); VB (df_data d);
      VT (negb (is_nil (next_list (df_next d)))); ov_links (next_list (df_next d))].
Definition observe_transaction (t : Transaction) : ov :=
  VL [VZ (tx_kind t); observe_dataframe (tx_data t); observe_dataframe (tx_metadata t); VZ (tx_slot t);
      ov_opt_int (tx_index t)].
Definition observe_entry (e : Entry) : ov :=
  VL [VZ (en_kind e); VZ (en_num_hashes e); VB (en_hash e); ov_links (en_transactions e)].
Definition observe_shredding (s : Shredding) : ov := VL [VZ (sh_entry_end_idx s); VZ (sh_shred_end_idx s)].
Definition observe_block (b : Block) : ov :=
  VL [VZ (bl_kind b); VZ (bl_slot b); VL (map observe_shredding (bl_shredding b)); ov_links (bl_entries b);
      VZ (sm_parent_slot (bl_meta b)); VZ (sm_blocktime (bl_meta b)); ov_opt_u64 (sm_block_height (bl_meta b));
      VB (bl_rewards b)].
Definition observe_subset (s : Subset) : ov :=
  VL [VZ (su_kind s); VZ (su_first s); VZ (su_last s); ov_links (su_blocks s)].
Definition observe_epoch (e : Epoch) : ov := VL [VZ (ep_kind e); VZ (ep_epoch e); ov_links (ep_subsets e)].
Definition observe_rewards (r : Rewards) : ov := VL [VZ (rw_kind r); VZ (rw_slot r); observe_dataframe (rw_data r)].

Definition observe_node (n : node) : ov :=
  match n with
  | NTransaction x => VL [VN 0; observe_transaction x] | NEntry x => VL [VN 1; observe_entry x]
  | NBlock x => VL [VN 2; observe_block x] | NSubset x => VL [VN 3; observe_subset x]
  | NEpoch x => VL [VN 4; observe_epoch x] | NRewards x => VL [VN 5; observe_rewards x]
  | NDataFrame x => VL [VN 6; observe_dataframe x]
  end.

(* what the fast decoders store: null and omitted both leave the field nil; a null `next` leaves an empty list *)
Definition canon_opt {A : Type} (o : opt2 A) : opt2 A := match o with Present a => Present a | _ => Absent end.
Definition canon_next (o : opt2 (list link)) : opt2 (list link) :=
  match o with Absent => Absent | Null => Present [] | Present l => Present l end.
Definition canon_dataframe (d : DataFrame) : DataFrame :=
  mkDataFrame (df_kind d) (canon_opt (df_hash d)) (canon_opt (df_index d)) (canon_opt (df_total d)) (df_data d)
              (canon_next (df_next d)).
Definition canon_transaction (t : Transaction) : Transaction :=
  mkTransaction (tx_kind t) (canon_dataframe (tx_data t)) (canon_dataframe (tx_metadata t)) (tx_slot t)
                (canon_opt (tx_index t)).
Definition canon_slotmeta (m : SlotMeta) : SlotMeta :=
  mkSlotMeta (sm_parent_slot m) (sm_blocktime m) (canon_opt (sm_block_height m)).
Definition canon_block (b : Block) : Block :=
  mkBlock (bl_kind b) (bl_slot b) (bl_shredding b) (bl_entries b) (canon_slotmeta (bl_meta b)) (bl_rewards b).
Definition canon_rewards (r : Rewards) : Rewards := mkRewards (rw_kind r) (rw_slot r) (canon_dataframe (rw_data r)).

(* ------------------------------------------------------------------ schema-conforming values *)
Definition int64_ok (z : Z) : Prop := (- Z.of_N two63 <= z < Z.of_N two63)%Z.
Definition opt_int64_ok (o : opt2 Z) : Prop := match o with Present z => int64_ok z | _ => True end.
(* every Go slice is shorter than 2^63 *)
Definition bytes_ok (b : list N) : Prop := N.of_nat (length b) < two63.

Section Conforming.
Variable cid_len : list N -> option nat.

(* a link is the byte string of one CID: CidFromBytes accepts it and consumes all of it *)
Definition link_ok (c : link) : Prop := cid_len c = Some (length c) /\ N.of_nat (length c) < two63 - 1.
(* FORCED by the CBOR library: lists longer than MaxArrayElements are rejected by the fast decoders *)
Definition links_ok (l : list link) : Prop := N.of_nat (length l) <= max_array_elements /\ Forall link_ok l.
Definition opt_links_ok (o : opt2 (list link)) : Prop := match o with Present l => links_ok l | _ => True end.

Definition conforming_dataframe (d : DataFrame) : Prop :=
  df_kind d = kind_dataframe /\ opt_int64_ok (df_hash d) /\ opt_int64_ok (df_index d) /\ opt_int64_ok (df_total d)
  /\ bytes_ok (df_data d) /\ opt_links_ok (df_next d).
Definition conforming_transaction (t : Transaction) : Prop :=
  tx_kind t = kind_transaction /\ conforming_dataframe (tx_data t) /\ conforming_dataframe (tx_metadata t)
  /\ int64_ok (tx_slot t) /\ opt_int64_ok (tx_index t).
Definition conforming_entry (e : Entry) : Prop :=
  en_kind e = kind_entry /\ int64_ok (en_num_hashes e) /\ bytes_ok (en_hash e) /\ links_ok (en_transactions e).
Definition conforming_shredding (s : Shredding) : Prop := int64_ok (sh_entry_end_idx s) /\ int64_ok (sh_shred_end_idx s).
Definition conforming_slotmeta (m : SlotMeta) : Prop :=
  int64_ok (sm_parent_slot m) /\ int64_ok (sm_blocktime m) /\ opt_int64_ok (sm_block_height m).
Definition conforming_block (b : Block) : Prop :=
  bl_kind b = kind_block /\ int64_ok (bl_slot b)
  /\ N.of_nat (length (bl_shredding b)) <= max_array_elements /\ Forall conforming_shredding (bl_shredding b)
  /\ links_ok (bl_entries b) /\ conforming_slotmeta (bl_meta b) /\ link_ok (bl_rewards b).
Definition conforming_subset (s : Subset) : Prop :=
  su_kind s = kind_subset /\ int64_ok (su_first s) /\ int64_ok (su_last s) /\ links_ok (su_blocks s).
Definition conforming_epoch (e : Epoch) : Prop :=
  ep_kind e = kind_epoch /\ int64_ok (ep_epoch e) /\ links_ok (ep_subsets e).
Definition conforming_rewards (r : Rewards) : Prop :=
  rw_kind r = kind_rewards /\ int64_ok (rw_slot r) /\ conforming_dataframe (rw_data r).

Definition conforming_node (n : node) : Prop :=
  match n with
  | NTransaction x => conforming_transaction x | NEntry x => conforming_entry x | NBlock x => conforming_block x
  | NSubset x => conforming_subset x | NEpoch x => conforming_epoch x | NRewards x => conforming_rewards x
  | NDataFrame x => conforming_dataframe x
  end.
End Conforming.

Definition kind_of (n : node) : Z :=
  match n with
  | NTransaction _ => kind_transaction | NEntry _ => kind_entry | NBlock _ => kind_block | NSubset _ => kind_subset
  | NEpoch _ => kind_epoch | NRewards _ => kind_rewards | NDataFrame _ => kind_dataframe
  end.
