(* C01 — executable checker for the harness's observations (correspondence with createAllIndexes,
   indexes.OffsetAndSize and blocktimeindex). It runs the functions the C01 theorems are about. *)
From Coq Require Import List Arith Lia Bool PeanoNat NArith.
From Coq Require Import ZifyN ZifyNat ZifyBool.
Import ListNotations.
Require Import Codec ReadAt Car C01_IndexAll.
Close Scope N_scope.

(* section length from the two lengths only *)
Definition seclen_N (c d : N) : N := (N.of_nat (length (uvarint (c + d))) + c + d)%N.

Lemma seclen_N_ok (o : Car.obj) :
  N.of_nat (Car.seclen o) = seclen_N (N.of_nat (length (Car.cid o))) (N.of_nat (length (Car.data o))).
Proof.
  unfold Car.seclen, Car.section, seclen_N. rewrite !app_length. rewrite Nat2N.inj_add.
  replace (N.of_nat (length (Car.cid o)) + N.of_nat (length (Car.data o)))%N
    with (N.of_nat (length (Car.cid o) + length (Car.data o))) by lia. lia.
Qed.

(* running offsets, in N: what createAllIndexes must record for objects of the given (cid length, data length) *)
Fixpoint offsets (off : N) (sizes : list (N * N)) : list (N * N) :=
  match sizes with
  | [] => []
  | (c, d) :: r => (off, seclen_N c d) :: offsets (off + seclen_N c d)%N r
  end.

Lemma offsets_ok objs : forall off,
  map (fun e => (N.of_nat (snd (fst e)), N.of_nat (snd e))) (Car.index_from off objs) =
  offsets (N.of_nat off) (map (fun o => (N.of_nat (length (Car.cid o)), N.of_nat (length (Car.data o)))) objs).
Proof.
  induction objs as [|o r IH]; intros off; [reflexivity|].
  cbn [Car.index_from map offsets fst snd]. rewrite <- seclen_N_ok. f_equal.
  rewrite IH. f_equal. lia.
Qed.

Inductive case :=
| COffsets (hdr_len : N) (sizes : list (N * N)) (observed : list (N * N))  (* observed (offset,size) per object, file order *)
| CCodec (off len : N) (observed : option (list N))                        (* OffsetAndSize bytes / Put error *)
| CBlocktime (start end_ epoch : N) (cap : nat) (sets : list (N * N)) (observed : option (list N))  (* marshalled bytes *)
| CBlocktimeGet (file : list N) (slot : N) (observed : option N).

Fixpoint list_eqb {A} (eqb : A -> A -> bool) (l1 l2 : list A) : bool :=
  match l1, l2 with
  | [], [] => true
  | x :: a, y :: b => eqb x y && list_eqb eqb a b
  | _, _ => false
  end.
Definition pair_eqb (a b : N * N) : bool := N.eqb (fst a) (fst b) && N.eqb (snd a) (snd b).
Definition optlist_eqb (a b : option (list N)) : bool :=
  match a, b with
  | Some x, Some y => list_eqb N.eqb x y
  | None, None => true
  | _, _ => false
  end.
Definition optN_eqb (a b : option N) : bool :=
  match a, b with Some x, Some y => N.eqb x y | None, None => true | _, _ => false end.

Fixpoint bt_sets (t : bt) (sets : list (N * N)) : option bt :=
  match sets with
  | [] => Some t
  | (s, v) :: r => match bt_set t s v with Some t' => bt_sets t' r | None => None end
  end.

Definition case_ok (c : case) : bool :=
  match c with
  | COffsets h sizes obs => list_eqb pair_eqb (offsets h sizes) obs
  | CCodec off len obs => optlist_eqb (enc_os off len) obs
  | CBlocktime s e ep cap sets obs =>
      optlist_eqb (match bt_sets (bt_new s e cap) sets with Some t => bt_marshal ep t | None => None end) obs
  | CBlocktimeGet file slot obs =>
      optN_eqb (match bt_unmarshal file with Some t => bt_get t slot | None => None end) obs
  end.

Fixpoint bad_from (i : nat) (cs : list case) : list nat :=
  match cs with [] => [] | c :: t => if case_ok c then bad_from (S i) t else i :: bad_from (S i) t end.
Definition check (cs : list case) : list nat := bad_from 0 cs.
