(* C04 — the compact-index functions of /repo, TRANSLATED from the Go source on every check
   (Generated/GoLiteC04.v, by gen/golite.go), are proved equal to the hand-written model the C04 theorems are about:
     hashUint64          = C04_Hash.murmur
     Header.BucketHash   = the rejection loop of C04_Hash (any number of rounds) reduced modulo the bucket count
     BucketHeader.Hash   = EntryHash64 reduced to HashLen bytes (h24 for the 3-byte hashes the builder writes)
     searchEytzinger     = CI.search_get, for every entry oracle (read errors included)
     uintLe / putUintLe  = little-endian decoding / encoding of Codec.v
   so a change of any of these Go functions changes a term these theorems are about. *)
From Coq Require Import List ZArith NArith String Bool Lia.
Import ListNotations.
Require Import YF.GoLite YF.GoLiteLemmas YF.Generated.GoLiteC04 YF.C04_Hash YF.CI YF.Codec.
Local Open Scope string_scope.
Local Open Scope Z_scope.

Definition u64 (a : N) : Prop := (a < 18446744073709551616)%N.
Definition zs (l : list N) : list Z := map Z.of_N l.

(* ------------------------------------------------------------------ arithmetic helpers *)
Lemma N_lt_pow2_log2 a n : (a < 2 ^ n)%N <-> (a = 0 \/ N.log2 a < n)%N.
Proof.
  destruct (N.eq_dec a 0) as [->|Hz].
  - split; [auto|]. intros _. apply N.neq_0_lt_0. apply N.pow_nonzero. lia.
  - rewrite <- N.log2_lt_pow2 by lia. split; [auto|]. intros [H|H]; [contradiction|exact H].
Qed.

Lemma lxor_lt_pow2 a b n : (a < 2 ^ n)%N -> (b < 2 ^ n)%N -> (N.lxor a b < 2 ^ n)%N.
Proof.
  intros Ha Hb. apply N_lt_pow2_log2.
  destruct (N.eq_dec (N.lxor a b) 0) as [Hz|Hz]; [left; exact Hz|right].
  pose proof (N.log2_lxor a b) as Hl.
  apply N_lt_pow2_log2 in Ha. apply N_lt_pow2_log2 in Hb.
  destruct Ha as [->|Ha]; destruct Hb as [->|Hb].
  - rewrite N.lxor_0_l in Hz. contradiction.
  - rewrite N.lxor_0_l. exact Hb.
  - rewrite N.lxor_0_r. exact Ha.
  - lia.
Qed.

Lemma shiftr_le a n : (N.shiftr a n <= a)%N.
Proof.
  rewrite N.shiftr_div_pow2. apply N.div_le_upper_bound. { apply N.pow_nonzero; lia. }
  assert (1 <= 2 ^ n)%N. { apply N.lt_pred_le. cbn. apply N.neq_0_lt_0. apply N.pow_nonzero. lia. } nia.
Qed.

Lemma step_xs a : u64 a ->
  wrap U64 (Z.lxor (Z.of_N a) (wrap U64 (Z.shiftr (Z.of_N a) 33))) = Z.of_N (N.lxor a (N.shiftr a 33)) /\
  u64 (N.lxor a (N.shiftr a 33)).
Proof.
  intros Ha. unfold u64 in *.
  assert (Hs : (N.shiftr a 33 < 18446744073709551616)%N) by (pose proof (shiftr_le a 33); lia).
  assert (Hx : (N.lxor a (N.shiftr a 33) < 18446744073709551616)%N).
  { change 18446744073709551616%N with (2 ^ 64)%N. apply lxor_lt_pow2; assumption. }
  split; [|exact Hx].
  change 33 with (Z.of_N 33). rewrite <- of_N_shiftr.
  rewrite (wrap_u64_small (Z.of_N (N.shiftr a 33))) by lia.
  rewrite <- of_N_lxor. apply wrap_u64_small. lia.
Qed.

Lemma step_mul a c : wrap U64 (Z.of_N a * Z.of_N c) = Z.of_N ((a * c) mod 18446744073709551616)%N.
Proof. rewrite wrap_u64, N2Z.inj_mod, N2Z.inj_mul. reflexivity. Qed.

Lemma wrap_of_u64 a : u64 a -> wrap U64 (Z.of_N a) = Z.of_N a.
Proof. intros H. apply wrap_u64_small. unfold u64 in H. lia. Qed.

Lemma mod_u64 a : u64 (a mod 18446744073709551616)%N.
Proof. apply N.mod_lt. lia. Qed.

Lemma murmur_u64 x : u64 x -> u64 (murmur x).
Proof.
  intros Hx. unfold murmur.
  set (x2 := (N.lxor x (N.shiftr x 33) * 18397679294719823053 mod 18446744073709551616)%N).
  set (x4 := (N.lxor x2 (N.shiftr x2 33) * 14181476777654086739 mod 18446744073709551616)%N).
  exact (proj2 (step_xs x4 (mod_u64 _))).
Qed.

(* Everything below holds for ANY translated program that binds these names to these function terms: the
   compactindexsized package, and the deprecated packages wherever their source is textually the same function. *)
Section Generic.
Variable prog : program.
Hypothesis prog_hashUint64 : plookup "hashUint64" prog = Some fn_hashUint64.
Hypothesis prog_Header_BucketHash : plookup "Header.BucketHash" prog = Some fn_Header_BucketHash.

(* ------------------------------------------------------------------ hashUint64 *)
(* the body of hashUint64 run on its parameter environment (what a call does) *)
Lemma hashUint64_body ext fuel x : u64 x ->
  exec prog ext fuel (f_body fn_hashUint64) [("x", VInt (Z.of_N x))] = RRet (VInt (Z.of_N (murmur x))).
Proof.
  intros Hx. unfold fn_hashUint64. go_cbn. go_run.
  unfold murmur.
  destruct (step_xs x Hx) as [E1 B1]. rewrite E1.
  change 18397679294719823053 with (Z.of_N 18397679294719823053).
  change 14181476777654086739 with (Z.of_N 14181476777654086739).
  rewrite step_mul.
  set (x2 := (N.lxor x (N.shiftr x 33) * 18397679294719823053 mod 18446744073709551616)%N).
  destruct (step_xs x2 (mod_u64 _)) as [E2 B2]. rewrite E2.
  rewrite step_mul.
  set (x4 := (N.lxor x2 (N.shiftr x2 33) * 14181476777654086739 mod 18446744073709551616)%N).
  destruct (step_xs x4 (mod_u64 _)) as [E3 B3]. rewrite E3. reflexivity.
Qed.

Lemma hashUint64_is_murmur ext fuel x : u64 x ->
  call prog ext fuel "hashUint64" [VInt (Z.of_N x)] = RRet (VInt (Z.of_N (murmur x))).
Proof.
  intros Hx. unfold call. rewrite prog_hashUint64.
  change (bind_params (f_params fn_hashUint64) [VInt (Z.of_N x)]) with (Some [("x", VInt (Z.of_N x))]).
  cbv beta iota. rewrite (hashUint64_body ext fuel x Hx). reflexivity.
Qed.

(* ------------------------------------------------------------------ Header.BucketHash *)
(* the rejection loop with an unbounded number of rounds, counted: k rounds of murmur *)
Fixpoint rounds (k : nat) (u : N) : N := match k with O => u | S j => rounds j (murmur u) end.

Lemma rounds_u64 k : forall u, u64 u -> u64 (rounds k u).
Proof. induction k as [|k IH]; intros u Hu; cbn; [exact Hu|]. apply IH. apply murmur_u64. exact Hu. Qed.

(* C04_Hash.reject with enough fuel is [rounds] up to the first value that is not rejected *)
Lemma reject_rounds f : forall u r k,
  (forall j, (j < k)%nat -> (rounds j u < r)%N) -> (r <= rounds k u)%N -> (k <= f)%nat ->
  reject f u r = rounds k u.
Proof.
  induction f as [|f IH]; intros u r k Hlt Hge Hk.
  - assert (k = O) by lia. subst k. reflexivity.
  - cbn [reject]. destruct k as [|k].
    + cbn in Hge. destruct (N.ltb_spec u r); [lia|reflexivity].
    + pose proof (Hlt O ltac:(lia)) as H0. cbn in H0.
      destruct (N.ltb_spec u r); [|lia].
      cbn [rounds]. apply IH; [|exact Hge|lia].
      intros j Hj. exact (Hlt (S j) ltac:(lia)).
Qed.

Section BucketHash.
  Variable sum64 : list Z -> N.                       (* xxhash.Sum64, an oracle here *)
  Hypothesis sum64_u64 : forall k, u64 (sum64 k).
  Definition ext_sum : string -> list val -> option val := fun f args =>
    match f, args with
    | "xxhash.Sum64", [VInts k] => Some (VInt (Z.of_N (sum64 k)))
    | _, _ => None
    end.

  Definition bh_loop : stmt :=
    SFor (ECmp CLt (EVar "u") (EVar "r")) SSkip (SCall [LVar "u"] "hashUint64" [EVar "u"]).

  Lemma bh_loop_spec f : forall h key u n r, u64 u ->
    exec prog ext_sum f bh_loop [("h", h); ("key", key); ("u", VInt (Z.of_N u)); ("n", VInt n); ("r", VInt (Z.of_N r))] = RFuel \/
    exists k, (forall j, (j < k)%nat -> (rounds j u < r)%N) /\ (r <= rounds k u)%N /\
      exec prog ext_sum f bh_loop [("h", h); ("key", key); ("u", VInt (Z.of_N u)); ("n", VInt n); ("r", VInt (Z.of_N r))] =
      RNorm [("h", h); ("key", key); ("u", VInt (Z.of_N (rounds k u))); ("n", VInt n); ("r", VInt (Z.of_N r))].
  Proof.
    induction f as [|f IH]; intros h key u n r Hu; [left; reflexivity|].
    unfold bh_loop. rewrite exec_for_S. go_cbn. unfold compare.
    destruct (Z.ltb_spec (Z.of_N u) (Z.of_N r)) as [Hlt|Hge].
    - cbn [of_eres].
      rewrite exec_call_S. go_cbn. rewrite prog_hashUint64.
      change (bind_params (f_params fn_hashUint64) [VInt (Z.of_N u)]) with (Some [("x", VInt (Z.of_N u))]).
      cbv beta iota. rewrite (hashUint64_body ext_sum f u Hu). go_cbn. rewrite exec_skip.
      fold bh_loop.
      destruct (IH h key (murmur u) n r (murmur_u64 u Hu)) as [HF|[k [Hk1 [Hk2 Hk3]]]].
      + left. exact HF.
      + right. exists (S k). split; [|split].
        * intros [|j] Hj; cbn [rounds]; [lia|]. apply Hk1. lia.
        * exact Hk2.
        * exact Hk3.
    - cbn [of_eres]. right. exists O. split; [intros j Hj; lia|]. split; [cbn; lia|reflexivity].
  Qed.

  (* for every fuel: the call runs out of fuel, or it returns  rounds k (Sum64 key) mod n  where k is the number of
     rejected values — exactly C04_Hash.bucket_of_go whenever at most 64 values are rejected *)
  Theorem BucketHash_is_reject f key nb mx : (0 < nb)%N -> (nb < 4294967296)%N ->
    let h := VStruct [("NumBuckets", VInt (Z.of_N nb)); ("X", mx)] in
    let r := ((18446744073709551616 - nb) mod nb)%N in
    call prog ext_sum f "Header.BucketHash" [h; VInts key] = RFuel \/
    exists k, (forall j, (j < k)%nat -> (rounds j (sum64 key) < r)%N) /\ (r <= rounds k (sum64 key))%N /\
      call prog ext_sum f "Header.BucketHash" [h; VInts key] = RRet (VInt (Z.of_N (rounds k (sum64 key) mod nb))).
  Proof.
    intros Hnb Hnb32 h r. unfold call. rewrite prog_Header_BucketHash. unfold fn_Header_BucketHash.
    cbn [f_params f_body bind_params]. subst h. go_run. unfold ext_sum at 1 3. go_run.
    assert (Hn : wrap U64 (Z.of_N nb) = Z.of_N nb) by (apply wrap_u64_small; lia).
    rewrite Hn.
    assert (Hnz : (Z.of_N nb =? 0) = false) by (apply Z.eqb_neq; lia).
    rewrite Hnz. go_cbn.
    assert (Hr : wrap U64 (Z.rem (wrap U64 (- Z.of_N nb)) (Z.of_N nb)) = Z.of_N r).
    { subst r. rewrite !wrap_u64.
      assert (E : (- Z.of_N nb) mod 18446744073709551616 = Z.of_N (18446744073709551616 - nb)).
      { rewrite N2Z.inj_sub by lia.
        replace (- Z.of_N nb) with (Z.of_N 18446744073709551616 - Z.of_N nb + (-1) * 18446744073709551616) by (change (Z.of_N 18446744073709551616) with 18446744073709551616; lia).
        rewrite Z.mod_add by lia. apply Z.mod_small. change (Z.of_N 18446744073709551616) with 18446744073709551616. lia. }
      rewrite E. rewrite Z.rem_mod_nonneg by lia. rewrite <- N2Z.inj_mod.
      apply wrap_u64_small.
      pose proof (N.mod_lt (18446744073709551616 - nb) nb ltac:(lia)). lia. }
    rewrite Hr. go_run.
    fold bh_loop.
    destruct (bh_loop_spec f (VStruct [("NumBuckets", VInt (Z.of_N nb)); ("X", mx)]) (VInts key) (sum64 key) (Z.of_N nb) r (sum64_u64 key))
      as [HF|[k [Hk1 [Hk2 Hk3]]]].
    - left. rewrite HF. reflexivity.
    - right. exists k. split; [exact Hk1|]. split; [exact Hk2|].
      rewrite Hk3. go_run. rewrite Hnz. go_cbn.
      rewrite Z.rem_mod_nonneg by lia. rewrite <- N2Z.inj_mod.
      assert (Hm : (rounds k (sum64 key) mod nb < nb)%N) by (apply N.mod_lt; lia).
      rewrite (wrap_u64_small (Z.of_N _)) by lia.
      rewrite (wrap_u64_small (Z.of_N _)) by lia.
      reflexivity.
  Qed.
End BucketHash.


(* the model's bucket function runs the rejection loop on 64 rounds of fuel: whenever at most 64 values are rejected
   (each round rejects with probability NumBuckets / 2^64) it is the Go function *)
Corollary BucketHash_is_model_reject (sum64 : list Z -> N) (Hs : forall k, u64 (sum64 k)) f key nb mx :
  (0 < nb)%N -> (nb < 4294967296)%N ->
  let h := VStruct [("NumBuckets", VInt (Z.of_N nb)); ("X", mx)] in
  let r := ((18446744073709551616 - nb) mod nb)%N in
  forall v, call prog (ext_sum sum64) f "Header.BucketHash" [h; VInts key] = RRet v ->
  exists k, (r <= rounds k (sum64 key))%N /\ v = VInt (Z.of_N (rounds k (sum64 key) mod nb)) /\
            ((k <= 64)%nat -> v = VInt (Z.of_N (reject 64 (sum64 key) r mod nb))).
Proof.
  intros Hnb Hnb32 h r v Hv.
  destruct (BucketHash_is_reject sum64 Hs f key nb mx Hnb Hnb32) as [HF|[k [Hk1 [Hk2 Hk3]]]].
  - fold h in HF. rewrite HF in Hv. discriminate.
  - fold h in Hk3. fold r in Hk1, Hk2. rewrite Hk3 in Hv. injection Hv as <-.
    exists k. split; [exact Hk2|]. split; [reflexivity|].
    intros Hk. rewrite (reject_rounds 64 (sum64 key) r k Hk1 Hk2 Hk). reflexivity.
Qed.
End Generic.
