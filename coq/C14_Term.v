(* C14: (1) the executable sort instance; (2) finite stores (association lists): the repaired collection
   never runs out of fuel `S (length store)` - i.e. it terminates on EVERY store, cyclic links included;
   (3) the order in which frames are stored is irrelevant; (4) the pinned code (no visited set): agrees
   with the repaired code on every link tree with pairwise distinct CIDs, and never returns on a cyclic
   link, whatever the fuel. *)
From Coq Require Import List Arith Lia Bool PeanoNat NArith ZArith Sorting.Sorted Sorting.Permutation.
Import ListNotations.
Require Import C14_Hash C14_Frames.

(* ---------- (1) insertion sort by the Go comparator (stable) ---------- *)
Fixpoint insert (x : frame) (l : list frame) : list frame :=
  match l with
  | [] => [x]
  | y :: r => if fless y x then y :: insert x r else x :: y :: r
  end.
Definition isort (l : list frame) : list frame := fold_right insert [] l.

Lemma fless_asym a b : fless a b = true -> fless b a = false.
Proof.
  unfold fless. destruct (f_index a), (f_index b); try reflexivity; try discriminate.
  intros H. apply Z.ltb_lt in H. apply Z.ltb_ge. lia.
Qed.
Lemma fless_negtrans a b c : fless a b = false -> fless b c = false -> fless a c = false.
Proof.
  unfold fless. destruct (f_index a), (f_index b), (f_index c); try reflexivity; try discriminate.
  intros H1 H2. apply Z.ltb_ge in H1, H2. apply Z.ltb_ge. lia.
Qed.

Lemma insert_perm x l : Permutation (insert x l) (x :: l).
Proof.
  induction l as [|y r IH]; cbn; [reflexivity|]. destruct (fless y x); [|reflexivity].
  eapply Permutation_trans; [apply perm_skip; exact IH|apply perm_swap].
Qed.
Lemma isort_perm l : Permutation (isort l) l.
Proof.
  induction l as [|x l IH]; cbn; [constructor|].
  eapply Permutation_trans; [apply insert_perm|apply perm_skip; exact IH].
Qed.
Lemma insert_sorted x l : fsorted l -> fsorted (insert x l).
Proof.
  unfold fsorted. induction l as [|y r IH]; intros H; cbn.
  - constructor; constructor.
  - inversion H as [|? ? Hr Hy]; subst. destruct (fless y x) eqn:E.
    + constructor; [apply IH; exact Hr|]. apply Forall_forall. intros z Hz.
      eapply Permutation_in in Hz; [|apply insert_perm]. destruct Hz as [<-|Hz].
      * apply fless_asym; exact E.
      * rewrite Forall_forall in Hy. apply Hy; exact Hz.
    + constructor; [exact H|]. constructor; [exact E|]. apply Forall_forall. intros z Hz.
      rewrite Forall_forall in Hy. eapply fless_negtrans; [apply Hy; exact Hz|exact E].
Qed.
Lemma isort_sorted l : fsorted (isort l).
Proof. induction l as [|x l IH]; cbn; [constructor|apply insert_sorted; exact IH]. Qed.

(* ---------- finite stores ---------- *)
Fixpoint lookup (sl : list (cid * frame)) (c : cid) : option frame :=
  match sl with
  | [] => None
  | (k, f) :: r => if N.eqb c k then Some f else lookup r c
  end.
Lemma lookup_in sl c f : lookup sl c = Some f -> In (c, f) sl.
Proof.
  induction sl as [|[k g] r IH]; cbn; [discriminate|]. destruct (N.eqb_spec c k) as [->|].
  - intros H; inversion H; now left.
  - intros H; right; auto.
Qed.
Lemma in_lookup sl c f : NoDup (map fst sl) -> In (c, f) sl -> lookup sl c = Some f.
Proof.
  induction sl as [|[k g] r IH]; cbn; [tauto|]. intros Hnd [H|H].
  - inversion H; subst. now rewrite N.eqb_refl.
  - inversion Hnd as [|? ? Hk Hr]; subst. destruct (N.eqb_spec c k) as [->|]; [|auto].
    exfalso. apply Hk. change k with (fst (k, f)). now apply in_map.
Qed.
Lemma lookup_perm sl sl' : NoDup (map fst sl) -> Permutation sl sl' -> forall c, lookup sl c = lookup sl' c.
Proof.
  intros Hnd P c.
  assert (Hnd' : NoDup (map fst sl')) by (eapply Permutation_NoDup; [apply Permutation_map; exact P|exact Hnd]).
  destruct (lookup sl c) as [f|] eqn:E.
  - symmetry. apply in_lookup; [exact Hnd'|]. eapply Permutation_in; [exact P|]. now apply lookup_in.
  - destruct (lookup sl' c) as [f|] eqn:E'; [|reflexivity].
    apply lookup_in in E'. apply Permutation_sym in P. eapply Permutation_in in E'; [|exact P].
    apply (in_lookup _ _ _ Hnd) in E'. congruence.
Qed.

(* the model depends on the store only through the look-ups it makes *)
Lemma go_ext st st' rec rec' : (forall c, st c = st' c) -> (forall s f, rec s f = rec' s f) ->
  forall cs seen acc, go st rec cs seen acc = go st' rec' cs seen acc.
Proof.
  intros Hs Hr. induction cs as [|c cs IH]; intros seen acc; cbn; [reflexivity|].
  destruct (memb c seen); [reflexivity|]. rewrite <- Hs. destruct (st c) as [g|]; [|reflexivity].
  rewrite <- Hr. destruct (rec (c :: seen) g) as [[s fs]| |]; auto.
Qed.
Lemma collect_ext srt st st' : (forall c, st c = st' c) ->
  forall fuel seen f, collect srt st fuel seen f = collect srt st' fuel seen f.
Proof.
  intros Hs. induction fuel as [|k IH]; intros seen f; cbn [collect]; [reflexivity|].
  destruct (f_next f) as [|c cs]; [reflexivity|].
  rewrite (go_ext st st' (collect srt st k) (collect srt st' k) Hs IH). reflexivity.
Qed.
Lemma load_ext srt st st' : (forall c, st c = st' c) -> forall fuel f0, load srt st fuel f0 = load srt st' fuel f0.
Proof. intros Hs fuel f0. unfold load. rewrite (collect_ext srt st st' Hs). reflexivity. Qed.

(* the total model of the repaired code on a finite store *)
Definition load_auto (srt : list frame -> list frame) (sl : list (cid * frame)) (f0 : frame) : res (list N) :=
  load srt (lookup sl) (S (length sl)) f0.

Theorem store_order_irrelevant srt sl sl' f0 :
  NoDup (map fst sl) -> Permutation sl sl' -> load_auto srt sl' f0 = load_auto srt sl f0.
Proof.
  intros Hnd P. unfold load_auto. rewrite <- (Permutation_length P).
  apply load_ext. intros c. symmetry. apply lookup_perm; assumption.
Qed.

(* ---------- (2) termination ---------- *)
Section Termination.
  Variable srt : list frame -> list frame.
  Hypothesis srt_perm : forall l, Permutation (srt l) l.
  Variable sl : list (cid * frame).
  Let st := lookup sl.
  Let keys := map fst sl.

  (* number of store entries whose CID has not been reached yet *)
  Definition unseen (seen : list cid) : nat := length (filter (fun c => negb (memb c seen)) keys).

  Lemma filter_len_le {A} (p q : A -> bool) l : (forall x, p x = true -> q x = true) ->
    length (filter p l) <= length (filter q l).
  Proof.
    intros H. induction l as [|x l IH]; cbn; [lia|]. destruct (p x) eqn:E.
    - rewrite (H x E). cbn. lia.
    - destruct (q x); cbn; lia.
  Qed.
  Lemma filter_len_lt {A} (p q : A -> bool) l x : (forall y, p y = true -> q y = true) ->
    In x l -> p x = false -> q x = true -> length (filter p l) < length (filter q l).
  Proof.
    intros H. induction l as [|y l IH]; cbn; [tauto|]. intros [->|Hin] Hp Hq.
    - rewrite Hp, Hq. cbn. pose proof (filter_len_le p q l H). lia.
    - specialize (IH Hin Hp Hq). destruct (p y) eqn:E.
      + rewrite (H y E). cbn. lia.
      + destruct (q y); cbn; lia.
  Qed.
  Lemma unseen_mono seen seen' : incl seen seen' -> unseen seen' <= unseen seen.
  Proof.
    intros Hi. apply filter_len_le. intros x Hx. apply negb_true_iff in Hx. apply negb_true_iff.
    apply memb_false. apply memb_false in Hx. intros H. apply Hx. apply Hi. exact H.
  Qed.
  Lemma unseen_fetch seen c g : st c = Some g -> ~ In c seen -> unseen (c :: seen) < unseen seen.
  Proof.
    intros Hst Hn. apply filter_len_lt with (x := c).
    - intros y Hy. apply negb_true_iff in Hy. apply negb_true_iff. apply memb_false. apply memb_false in Hy.
      intros H. apply Hy. now right.
    - apply lookup_in in Hst. unfold keys. change c with (fst (c, g)). now apply in_map.
    - apply negb_false_iff. apply memb_In. now left.
    - apply negb_true_iff. now apply memb_false.
  Qed.

  Lemma collect_incl fuel seen f seen' fs : collect srt st fuel seen f = Ok (seen', fs) -> incl seen seen'.
  Proof.
    revert seen f seen' fs. induction fuel as [|k IH]; intros seen f seen' fs H; [discriminate|].
    cbn [collect] in H. destruct (f_next f) as [|c cs]; [inversion H; subst; apply incl_refl|].
    destruct (go st (collect srt st k) (c :: cs) seen [f]) as [[s1 fs1]| |] eqn:E; try discriminate.
    inversion H; subst. clear H. revert E. generalize [f]. generalize (c :: cs). clear c cs.
    intros cs. revert seen. induction cs as [|c cs IHc]; intros seen acc E; cbn in E.
    - inversion E; subst. apply incl_refl.
    - destruct (memb c seen); [discriminate|]. destruct (st c) as [g|]; [|discriminate].
      destruct (collect srt st k (c :: seen) g) as [[s2 fs2]| |] eqn:E2; try discriminate.
      apply IH in E2. apply IHc in E. intros x Hx. apply E, E2. now right.
  Qed.

  Lemma collect_terminates : forall fuel seen f, unseen seen < fuel -> collect srt st fuel seen f <> OutOfFuel.
  Proof.
    induction fuel as [|k IH]; intros seen f Hm; [lia|]. cbn [collect].
    destruct (f_next f) as [|c cs]; [discriminate|].
    assert (G : forall cs seen acc, unseen seen <= k -> go st (collect srt st k) cs seen acc <> OutOfFuel).
    { clear c cs seen f Hm. induction cs as [|c cs IHc]; intros seen acc Hm; cbn; [discriminate|].
      destruct (memb c seen) eqn:Em; [discriminate|]. apply memb_false in Em.
      destruct (st c) as [g|] eqn:Hst; [|discriminate].
      pose proof (unseen_fetch seen c g Hst Em) as Hlt.
      destruct (collect srt st k (c :: seen) g) as [[s2 fs2]| |] eqn:E2; [|discriminate|].
      - apply IHc. apply collect_incl in E2. pose proof (unseen_mono (c :: seen) s2 E2). lia.
      - exfalso. apply (IH (c :: seen) g); [lia|exact E2]. }
    specialize (G (c :: cs) seen [f]).
    destruct (go st (collect srt st k) (c :: cs) seen [f]) as [[s fs]| |]; try discriminate.
    apply G. lia.
  Qed.

  Theorem load_auto_total f0 : load_auto srt sl f0 <> OutOfFuel.
  Proof.
    unfold load_auto, load. fold st.
    pose proof (collect_terminates (S (length sl)) [] f0) as H.
    destruct (collect srt st (S (length sl)) [] f0) as [[s fs]| |] eqn:E.
    - destruct (f_total f0) as [n|]; [destruct (Z.eqb _ n); [|discriminate]|];
        unfold finish; destruct (f_hash f0); try discriminate; destruct (verify_hash _ _); discriminate.
    - discriminate.
    - exfalso. apply H; [|reflexivity]. unfold unseen.
      pose proof (filter_len_le (fun c => negb (memb c [])) (fun _ => true) keys (fun _ _ => eq_refl)) as L.
      assert (length (filter (fun _ : cid => true) keys) = length sl).
      { unfold keys. rewrite <- (map_length fst sl). generalize (map fst sl). intros l.
        induction l; cbn; auto. }
      lia.
  Qed.
End Termination.

(* ---------- (4) the pinned code: no visited set ---------- *)
Section Pinned.
  Variable srt : list frame -> list frame.
  Variable st : cid -> option frame.

  Fixpoint go_pinned (rec : frame -> res (list frame)) (cs : list cid) (acc : list frame) : res (list frame) :=
    match cs with
    | [] => Ok acc
    | c :: cs' =>
        match st c with
        | None => Err EMissing
        | Some f' => match rec f' with
                     | Ok fs => go_pinned rec cs' (acc ++ fs)
                     | Err e => Err e
                     | OutOfFuel => OutOfFuel
                     end
        end
    end.
  Fixpoint collect_pinned (fuel : nat) (f : frame) : res (list frame) :=
    match fuel with
    | O => OutOfFuel
    | S k => match f_next f with
             | [] => Ok [f]
             | cs => match go_pinned (collect_pinned k) cs [f] with
                     | Ok fs => Ok (srt fs)
                     | Err e => Err e
                     | OutOfFuel => OutOfFuel
                     end
             end
    end.

  (* on every realised link tree (nothing missing) the pinned code returns the same frames as the
     repaired code does when the CIDs are pairwise distinct: the repair only changes the outcome when
     a CID is met twice *)
  Lemma go_pinned_tree rec (ks : list (cid * ltree)) :
    (forall c s, In (c, s) ks -> st c = Some (root s) /\ rec (root s) = Ok (tcollect srt s)) ->
    forall acc, go_pinned rec (map fst ks) acc = Ok (acc ++ flat_map (fun ck => tcollect srt (snd ck)) ks).
  Proof.
    induction ks as [|[c s] r IH]; intros Hk acc; cbn.
    - now rewrite app_nil_r.
    - destruct (Hk c s (or_introl eq_refl)) as [-> ->].
      rewrite IH; [|intros c' s' H; apply Hk; now right]. now rewrite app_assoc.
  Qed.
  Lemma collect_pinned_tree : forall n t, tsize t <= n -> realises st t ->
    forall fuel, tdepth t <= fuel -> collect_pinned fuel (root t) = Ok (tcollect srt t).
  Proof.
    induction n as [|n IH]; intros [f ks] Hs Hr fuel Hd; cbn in Hs; [lia|].
    inversion Hr as [f' ks' Hnext Hkids]; subst f' ks'.
    destruct fuel as [|k]; [cbn in Hd; lia|].
    cbn [root collect_pinned]. destruct ks as [|[c s] r] eqn:Eks.
    - cbn in Hnext. now rewrite Hnext.
    - rewrite <- Eks in *.
      assert (Hne : exists c0 cs0, f_next f = c0 :: cs0) by (rewrite Hnext, Eks; cbn; eauto).
      destruct Hne as [c0 [cs0 Ec]]. rewrite Ec, <- Ec, Hnext.
      rewrite (go_pinned_tree (collect_pinned k) ks).
      + rewrite Eks. reflexivity.
      + intros c' s' Hin. destruct (Hkids c' s' Hin) as [Hst Hr']. split; [exact Hst|].
        apply IH; auto.
        * pose proof (fold_size_in ks c' s' Hin). lia.
        * pose proof (fold_depth_in ks c' s' Hin). cbn in Hd. lia.
  Qed.
End Pinned.

(* a frame whose link resolves to itself: the pinned recursion never returns, whatever the fuel
   (in Go: the goroutine stack grows until the runtime ends the process with "stack overflow") *)
Definition self_frame : frame := mkF None (Some 0%Z) (Some 2%Z) [1%N] [7%N].
Definition self_store (c : cid) : option frame := if N.eqb c 7 then Some self_frame else None.
Theorem pinned_cycle_never_returns srt : forall fuel, collect_pinned srt self_store fuel self_frame = OutOfFuel.
Proof.
  induction fuel as [|k IH]; [reflexivity|].
  change (collect_pinned srt self_store (S k) self_frame) with
    (match go_pinned self_store (collect_pinned srt self_store k) [7%N] [self_frame] with
     | Ok fs => Ok (srt fs) | Err e => Err e | OutOfFuel => OutOfFuel end).
  cbn [go_pinned]. change (self_store 7%N) with (Some self_frame). cbv beta iota. rewrite IH. reflexivity.
Qed.
(* the repaired code answers with an error *)
Example repaired_cycle_is_error :
  load_auto isort [(7%N, self_frame)] self_frame = Err EDupLink.
Proof. vm_compute. reflexivity. Qed.
