(* C13 / C05 / C01 — the positioned-read helpers readFullAt (bucketteer/read.go, deprecated/bucketteer/read.go,
   storage.go — the repairs 19fd07a and f06ca95) and readUint64Le, translated from the Go source on every check
   (Generated/GoLiteRdC05.v, GoLiteRdLC05.v, GoLiteRdMain.v), over an ORACLE for the reader (io.ReaderAt.ReadAt may
   deliver fewer bytes than asked, and may return ANY error value — io.EOF included — together with any count):
     - a COMPLETE read is a success whatever error value came with it (io.EOF with a full read is legal for a ReaderAt);
     - a SHORT read is never a success: the result is the reader's error, or io.ErrUnexpectedEOF when the reader gave none;
     - readUint64Le returns the little-endian value of the 8 bytes read, or that error — never a value made from a
       partly filled buffer. *)
From Coq Require Import List ZArith NArith String Bool Lia.
Import ListNotations.
Require Import YF.GoLite YF.GoLiteLemmas YF.Generated.GoLiteRdC05.
Local Open Scope string_scope.
Local Open Scope Z_scope.
Local Open Scope list_scope.

Definition is_err (v : val) : Prop := v = VNil \/ exists n, v = VErr n.

(* the error a short read ends with *)
Definition short_err (e : val) : val := match e with VNil => VErr "io.ErrUnexpectedEOF" | _ => e end.

Lemma short_err_not_nil e : is_err e -> short_err e <> VNil.
Proof. intros [->|[n ->]]; cbn; discriminate. Qed.

Section Rd.
Variable prog : program.
Hypothesis prog_readFullAt : plookup "readFullAt" prog = Some fn_readFullAt.
Hypothesis prog_readUint64Le : plookup "readUint64Le" prog = Some fn_readUint64Le.

Variable rd : Z -> Z -> list Z * val.        (* the positioned reader: bytes delivered, error value *)
Hypothesis rd_err : forall off len, is_err (snd (rd off len)).
Definition ext_ra : string -> list val -> option val := fun f args =>
  match f, args with
  | "io.ReaderAt.ReadAt", [VInts buf; VInt off] =>
      let '(bs, e) := rd off (zlen buf) in Some (VTuple [VInt (zlen bs); e; VInts (blit buf O bs)])
  | _, _ => None
  end.

Theorem readFullAt_spec fuel rdv (buf : list Z) (off : Z) :
  call prog ext_ra fuel "readFullAt" [rdv; VInts buf; VInt off] =
  let '(bs, e) := rd off (zlen buf) in
  if zlen bs =? zlen buf
  then RRet (VTuple [VNil; VInts (blit buf O bs)])
  else RRet (VTuple [short_err e; VInts (blit buf O bs)]).
Proof.
  unfold call. rewrite prog_readFullAt. unfold fn_readFullAt.
  cbn [f_params f_body bind_params]. go_run.
  unfold ext_ra at 1.
  pose proof (rd_err off (zlen buf)) as He.
  destruct (rd off (zlen buf)) as [bs e] eqn:Hrd. cbn [snd] in He.
  go_cbn. go_run. rewrite zlen_blit.
  destruct (zlen bs =? zlen buf) eqn:Heq.
  - go_run. reflexivity.
  - go_run. destruct He as [->|[n ->]]; go_run; reflexivity.
Qed.

(* the body of readFullAt as a callee *)
Lemma readFullAt_body fuel rdv (buf : list Z) (off : Z) :
  exec prog ext_ra fuel (f_body fn_readFullAt) [("reader", rdv); ("buf", VInts buf); ("off", VInt off)] =
  let '(bs, e) := rd off (zlen buf) in
  if zlen bs =? zlen buf
  then RRet (VTuple [VNil; VInts (blit buf O bs)])
  else RRet (VTuple [short_err e; VInts (blit buf O bs)]).
Proof.
  pose proof (readFullAt_spec fuel rdv buf off) as H.
  unfold call in H. rewrite prog_readFullAt in H.
  change (bind_params (f_params fn_readFullAt) [rdv; VInts buf; VInt off])
    with (Some [("reader", rdv); ("buf", VInts buf); ("off", VInt off)]) in H.
  cbv beta iota in H.
  destruct (rd off (zlen buf)) as [bs e].
  destruct (exec prog ext_ra fuel (f_body fn_readFullAt) [("reader", rdv); ("buf", VInts buf); ("off", VInt off)]);
    destruct (zlen bs =? zlen buf); try discriminate; exact H.
Qed.

(* success exactly on a complete read; on a short read the error is never nil *)
Corollary readFullAt_success_iff_complete fuel rdv buf off :
  (exists out, call prog ext_ra fuel "readFullAt" [rdv; VInts buf; VInt off] = RRet (VTuple [VNil; out])) <->
  zlen (fst (rd off (zlen buf))) = zlen buf.
Proof.
  rewrite readFullAt_spec. pose proof (rd_err off (zlen buf)) as He.
  destruct (rd off (zlen buf)) as [bs e]. cbn [fst snd] in *.
  destruct (Z.eqb_spec (zlen bs) (zlen buf)) as [Heq|Hne].
  - split; [intros _; exact Heq | intros _; eexists; reflexivity].
  - split; [|intros H; contradiction].
    intros [out H]. exfalso. injection H as H1 _. exact (short_err_not_nil e He H1).
Qed.

Lemma blit8_full (bs : list Z) : zlen bs = 8 -> blit [0; 0; 0; 0; 0; 0; 0; 0] O bs = bs.
Proof.
  intros H. apply blit_full. unfold zlen in H. cbn [List.length]. lia.
Qed.

Theorem readUint64Le_spec fuel rdv (pos : Z) : (1 <= fuel)%nat ->
  call prog ext_ra fuel "readUint64Le" [rdv; VInt pos] =
  let '(bs, e) := rd pos 8 in
  if zlen bs =? 8
  then RRet (VTuple [VInt (le_value bs); VNil])
  else RRet (VTuple [VInt 0; short_err e]).
Proof.
  intros Hfuel. destruct fuel as [|fuel]; [lia|].
  unfold call. rewrite prog_readUint64Le. unfold fn_readUint64Le.
  cbn [f_params f_body bind_params]. go_run.
  rewrite exec_call_S. go_cbn. rewrite prog_readFullAt.
  change (bind_params (f_params fn_readFullAt) [rdv; VInts [0; 0; 0; 0; 0; 0; 0; 0]; VInt pos])
    with (Some [("reader", rdv); ("buf", VInts [0; 0; 0; 0; 0; 0; 0; 0]); ("off", VInt pos)]).
  cbv beta iota. rewrite readFullAt_body.
  change (zlen [0; 0; 0; 0; 0; 0; 0; 0]) with 8.
  pose proof (rd_err pos 8) as He.
  destruct (rd pos 8) as [bs e] eqn:Hrd. cbn [snd] in He.
  destruct (Z.eqb_spec (zlen bs) 8) as [Heq|Hne].
  - go_run. rewrite (blit8_full bs Heq). rewrite Heq. go_consts. go_cbn.
    rewrite firstn_all2 by (unfold zlen in Heq; lia). reflexivity.
  - go_run. destruct He as [->|[n ->]]; go_run; reflexivity.
Qed.

End Rd.
