(* C07 — part C: the map view of a result (keys / lookup), sorting of epoch numbers, the JSON-RPC reply. *)
From Coq Require Import List Arith Lia Bool PeanoNat NArith ZArith Permutation Sorting.Sorted.
From Coq Require Import ZifyN ZifyNat ZifyBool.
Import ListNotations.
Require Import YF.C07_Model YF.C07_Proofs.

(* ---------- generic facts about StronglySorted ---------- *)
Lemma ss_filter {A} (R : A -> A -> Prop) f l : StronglySorted R l -> StronglySorted R (filter f l).
Proof.
  induction 1 as [|x l Hs IH Hf]; cbn; [constructor|].
  destruct (f x); [|exact IH]. constructor; [exact IH|].
  rewrite Forall_forall in *. intros y Hy. apply filter_In in Hy. apply Hf. tauto.
Qed.
Lemma ss_app {A} (R : A -> A -> Prop) a b :
  StronglySorted R a -> StronglySorted R b -> (forall x y, In x a -> In y b -> R x y) -> StronglySorted R (a ++ b).
Proof.
  induction 1 as [|x a Hs IH Hf]; intros Hb Hab; cbn; [exact Hb|].
  constructor.
  - apply IH; auto. intros; apply Hab; cbn; auto.
  - rewrite Forall_forall in *. intros y Hy. apply in_app_or in Hy. destruct Hy; [auto|]. apply Hab; cbn; auto.
Qed.
Lemma ss_incl_tail {A} (R : A -> A -> Prop) x l l' :
  StronglySorted R (x :: l) -> StronglySorted R l' -> (forall y, In y l' -> In y l) -> StronglySorted R (x :: l').
Proof.
  intros H Hl' Hin. apply StronglySorted_inv in H. destruct H as [_ Hf]. constructor; [exact Hl'|].
  rewrite Forall_forall in *. auto.
Qed.

(* ---------- sorting epoch numbers in descending order ---------- *)
Definition wdesc : list N -> Prop := StronglySorted (fun a b : N => (b <= a)%N).
Definition desc : list N -> Prop := StronglySorted (fun a b : N => (b < a)%N).

Lemma insert_perm x l : Permutation (insert_desc x l) (x :: l).
Proof.
  induction l as [|y t IH]; cbn; [reflexivity|]. destruct (y <=? x)%N; [reflexivity|].
  rewrite IH. apply perm_swap.
Qed.
Lemma sort_perm l : Permutation (sort_desc l) l.
Proof. induction l as [|x t IH]; cbn; [constructor|]. rewrite insert_perm. now constructor. Qed.

Lemma insert_sorted x l : wdesc l -> wdesc (insert_desc x l).
Proof.
  unfold wdesc. induction 1 as [|y t Hs IH Hf]; cbn.
  - constructor; constructor.
  - destruct (N.leb_spec y x) as [Hle|Hgt].
    + constructor; [constructor; assumption|]. constructor; [exact Hle|].
      rewrite Forall_forall in *. intros z Hz. specialize (Hf z Hz). lia.
    + constructor; [exact IH|]. rewrite Forall_forall in *. intros z Hz.
      apply (Permutation_in _ (insert_perm x t)) in Hz. destruct Hz as [<-|Hz]; [lia|auto].
Qed.
Lemma sort_sorted l : wdesc (sort_desc l).
Proof. induction l as [|x t IH]; cbn; [constructor|]. now apply insert_sorted. Qed.

Lemma wdesc_nodup_desc l : wdesc l -> NoDup l -> desc l.
Proof.
  unfold wdesc, desc. induction 1 as [|x t Hs IH Hf]; intros Hnd; [constructor|].
  inversion Hnd as [|? ? Hx Hnd']; subst. constructor; [auto|].
  rewrite Forall_forall in *. intros y Hy. specialize (Hf y Hy).
  assert (y <> x) by (intros ->; contradiction). lia.
Qed.
Lemma desc_nodup l : desc l -> NoDup l.
Proof.
  unfold desc. induction 1 as [|x t Hs IH Hf]; constructor; [|exact IH].
  intros Hx. rewrite Forall_forall in Hf. specialize (Hf x Hx). lia.
Qed.

(* a strictly descending list is determined by its elements: whatever (unstable) sort is used, the result is the same *)
Lemma desc_perm_eq l1 : forall l2, desc l1 -> desc l2 -> Permutation l1 l2 -> l1 = l2.
Proof.
  unfold desc. induction l1 as [|x t1 IH]; intros l2 H1 H2 Hp.
  - apply Permutation_nil in Hp. now subst.
  - destruct l2 as [|y t2]; [apply Permutation_sym, Permutation_nil in Hp; discriminate|].
    apply StronglySorted_inv in H1. destruct H1 as [H1 F1].
    apply StronglySorted_inv in H2. destruct H2 as [H2 F2].
    rewrite Forall_forall in F1, F2.
    assert (x = y).
    { assert (Hx : In x (y :: t2)) by (eapply Permutation_in; [exact Hp|left; reflexivity]).
      assert (Hy : In y (x :: t1)) by (eapply Permutation_in; [apply Permutation_sym; exact Hp|left; reflexivity]).
      destruct Hx as [->|Hx]; [reflexivity|]. destruct Hy as [->|Hy]; [reflexivity|].
      specialize (F1 y Hy). specialize (F2 x Hx). lia. }
    subst y. f_equal. apply IH; auto. eapply Permutation_cons_inv; exact Hp.
Qed.

Lemma sort_desc_of_perm l1 l2 : NoDup l2 -> Permutation l1 l2 -> sort_desc l1 = sort_desc l2.
Proof.
  intros Hnd Hp.
  assert (Hnd1 : NoDup l1) by (eapply Permutation_NoDup; [apply Permutation_sym; exact Hp|exact Hnd]).
  apply desc_perm_eq.
  - apply wdesc_nodup_desc; [apply sort_sorted|]. eapply Permutation_NoDup; [apply Permutation_sym, sort_perm|exact Hnd1].
  - apply wdesc_nodup_desc; [apply sort_sorted|]. eapply Permutation_NoDup; [apply Permutation_sym, sort_perm|exact Hnd].
  - rewrite !sort_perm. exact Hp.
Qed.

Lemma keys_nodup m : NoDup (keys m).
Proof. apply NoDup_nodup. Qed.
Lemma keys_in m t : In t m -> In (tag t) (keys m).
Proof. intros H. unfold keys. apply nodup_In. now apply in_map. Qed.

(* ---------- the reply ---------- *)

(* repaired handler: whatever order the map iteration produces, the reply lists the epochs newest first *)
Theorem reply_sorted m perm : Permutation perm (keys m) -> reply true perm m = flatten_desc m.
Proof.
  intros Hp. unfold reply, flatten_desc. f_equal. apply sort_desc_of_perm; [apply keys_nodup|exact Hp].
Qed.

(* the same for any sorting routine that returns a descending permutation of what it is given (sort.Slice is not stable) *)
Theorem reply_any_sort m perm sorted :
  Permutation perm (keys m) -> Permutation sorted perm -> wdesc sorted -> flatten_by sorted m = flatten_desc m.
Proof.
  intros Hp Hs Hw. unfold flatten_desc. f_equal.
  assert (Hnd : NoDup sorted).
  { eapply Permutation_NoDup; [apply Permutation_sym; eapply Permutation_trans; [exact Hs|exact Hp]|apply keys_nodup]. }
  apply desc_perm_eq.
  - now apply wdesc_nodup_desc.
  - apply wdesc_nodup_desc; [apply sort_sorted|].
    eapply Permutation_NoDup; [apply Permutation_sym, sort_perm|apply keys_nodup].
  - rewrite sort_perm. eapply Permutation_trans; eauto.
Qed.

(* pinned handler: some iteration order gives a reply that is not newest-first *)
Lemma reply_unsorted_refuted :
  exists m perm, Permutation perm (keys m) /\ reply false perm m <> flatten_desc m.
Proof.
  exists [(2%N, (1, 864001%N)); (1%N, (2, 432001%N))], [1%N; 2%N]. split.
  - vm_compute. apply perm_swap.
  - vm_compute. discriminate.
Qed.

(* ---------- a result whose log is in descending epoch order is its own newest-first flattening ---------- *)
Definition tags_desc : list tagged -> Prop := StronglySorted (fun a b => (tag b <= tag a)%N).

Lemma lookup_none k m : (forall t, In t m -> tag t <> k) -> lookup k m = [].
Proof.
  induction m as [|t m IH]; intros H; [reflexivity|]. cbn.
  destruct (N.eqb_spec (tag t) k) as [E|E]; [exfalso; apply (H t); cbn; auto|].
  apply IH. intros; apply H; cbn; auto.
Qed.
Lemma filter_all {A} (f : A -> bool) l : (forall x, In x l -> f x = true) -> filter f l = l.
Proof.
  induction l as [|x l IH]; intros H; [reflexivity|]. cbn. rewrite H by (cbn; auto). f_equal.
  apply IH. intros; apply H; cbn; auto.
Qed.

Lemma split_front k m : tags_desc m -> (forall t, In t m -> (tag t <= k)%N) ->
  m = lookup k m ++ filter (fun t => negb (N.eqb (tag t) k)) m.
Proof.
  unfold tags_desc. induction 1 as [|t m Hs IH Hf]; intros Hk; [reflexivity|].
  cbn [lookup filter]. fold (lookup k m).
  destruct (N.eqb_spec (tag t) k) as [E|E]; cbn [negb].
  - cbn. f_equal. apply IH. intros; apply Hk; cbn; auto.
  - rewrite Forall_forall in Hf.
    assert (Hlt : (tag t < k)%N) by (specialize (Hk t (or_introl eq_refl)); lia).
    rewrite lookup_none.
    + cbn. f_equal. symmetry. apply filter_all. intros x Hx. specialize (Hf x Hx).
      apply negb_true_iff. apply N.eqb_neq. lia.
    + intros x Hx. specialize (Hf x Hx). lia.
Qed.

Lemma lookup_filter_other k e m : e <> k ->
  lookup e (filter (fun t => negb (N.eqb (tag t) k)) m) = lookup e m.
Proof.
  intros Hne. unfold lookup. induction m as [|t m IH]; [reflexivity|]. cbn.
  destruct (N.eqb_spec (tag t) k) as [E|E]; cbn.
  - destruct (N.eqb_spec (tag t) e); [congruence|exact IH].
  - destruct (N.eqb (tag t) e); [f_equal|]; exact IH.
Qed.

Lemma bucket ks : desc ks -> forall m, tags_desc m -> (forall t, In t m -> In (tag t) ks) -> flatten_by ks m = m.
Proof.
  unfold desc. induction 1 as [|k ks Hs IH Hf]; intros m Hm Hin.
  - destruct m as [|t m]; [reflexivity|]. destruct (Hin t (or_introl eq_refl)).
  - rewrite Forall_forall in Hf. unfold flatten_by. cbn [map concat]. fold (flatten_by ks m).
    set (rest := filter (fun t => negb (N.eqb (tag t) k)) m).
    assert (Hle : forall t, In t m -> (tag t <= k)%N).
    { intros t Ht. destruct (Hin t Ht) as [<-|H']; [lia|]. specialize (Hf _ H'). lia. }
    assert (Hrest : flatten_by ks m = flatten_by ks rest).
    { unfold flatten_by. f_equal. apply map_ext_in. intros e He. symmetry. apply lookup_filter_other.
      intros ->. specialize (Hf _ He). lia. }
    rewrite Hrest, IH.
    + symmetry. now apply split_front.
    + now apply ss_filter.
    + intros t Ht. apply filter_In in Ht. destruct Ht as [Ht Hne].
      destruct (Hin t Ht) as [E|H']; [|exact H']. apply negb_true_iff, N.eqb_neq in Hne. congruence.
Qed.

Theorem flatten_desc_sorted m : tags_desc m -> flatten_desc m = m.
Proof.
  intros Hm. unfold flatten_desc. apply bucket; [|exact Hm|].
  - apply wdesc_nodup_desc; [apply sort_sorted|].
    eapply Permutation_NoDup; [apply Permutation_sym, sort_perm|apply keys_nodup].
  - intros t Ht. eapply Permutation_in; [apply Permutation_sym, sort_perm|]. now apply keys_in.
Qed.

(* ---------- slices of a descending history are descending ---------- *)
Lemma after_in b l x : In x (after b l) -> In x l.
Proof. induction l as [|y l IH]; cbn; [tauto|]. destruct (Nat.eqb (key y) b); auto. Qed.
Lemma upto_in u l x : In x (upto u l) -> In x l.
Proof.
  induction l as [|y l IH]; cbn; [tauto|]. destruct (Nat.eqb (key y) u); cbn; [tauto|]. intros [H|H]; auto.
Qed.
Lemma firstn_in {A} n (l : list A) x : In x (firstn n l) -> In x l.
Proof. revert l; induction n as [|n IH]; intros [|y l]; cbn; try tauto. intros [H|H]; auto. Qed.

Lemma after_sorted {R : tagged -> tagged -> Prop} b l : StronglySorted R l -> StronglySorted R (after b l).
Proof.
  induction 1 as [|x l Hs IH Hf]; cbn; [constructor|]. destruct (Nat.eqb (key x) b); auto.
Qed.
Lemma upto_sorted {R : tagged -> tagged -> Prop} u l : StronglySorted R l -> StronglySorted R (upto u l).
Proof.
  induction 1 as [|x l Hs IH Hf]; cbn; [constructor|]. destruct (Nat.eqb (key x) u).
  - constructor; constructor.
  - apply (ss_incl_tail R x l); [constructor; assumption|exact IH|]. intros y. apply upto_in.
Qed.
Lemma firstn_sorted {A} {R : A -> A -> Prop} n l : StronglySorted R l -> StronglySorted R (firstn n l).
Proof.
  intros H. revert n. induction H as [|x l Hs IH Hf]; intros [|n]; cbn; try constructor.
  - apply IH.
  - rewrite Forall_forall in *. intros y Hy. apply Hf. eapply firstn_in; eauto.
Qed.
Lemma slice_sorted {R : tagged -> tagged -> Prop} limit before until l :
  StronglySorted R l -> StronglySorted R (slice_spec limit before until l).
Proof.
  intros H. unfold slice_spec.
  assert (Ha : StronglySorted R (match before with Some b => after b l | None => l end))
    by (destruct before; [now apply after_sorted|exact H]).
  destruct until; [apply upto_sorted|]; now apply firstn_sorted.
Qed.
Lemma slice_in limit before until l x : In x (slice_spec limit before until l) -> In x l.
Proof.
  unfold slice_spec. intros H.
  assert (H1 : In x (firstn limit (match before with Some b => after b l | None => l end)))
    by (destruct until; [eapply upto_in; eauto|exact H]).
  apply firstn_in in H1. destruct before; [eapply after_in; eauto|exact H1].
Qed.

(* ---------- the history of readers given newest epoch first is in descending epoch order ---------- *)
Definition epochs_desc (eps : list epoch) : Prop := StronglySorted (fun a b : epoch => (fst b < fst a)%N) eps.

Lemma visible_incl {A} (c : list (list A)) r : In r (visible c) -> In r c.
Proof.
  induction c as [|r0 c IH]; cbn; [tauto|]. destruct r0; cbn; [tauto|]. intros [H|H]; auto.
Qed.
Lemma idx_hist_tag e i t : In t (idx_hist (tag_idx e i)) -> tag t = e.
Proof.
  destruct i as [c| |]; cbn; try tauto. intros H. apply in_concat in H. destruct H as [r [Hr Ht]].
  apply visible_incl in Hr. apply in_map_iff in Hr. destruct Hr as [r0 [<- _]].
  apply in_map_iff in Ht. destruct Ht as [x [<- _]]. reflexivity.
Qed.
Lemma same_tag_sorted e l : (forall t, In t l -> tag t = e) -> tags_desc l.
Proof.
  unfold tags_desc. induction l as [|x l IH]; intros H; constructor.
  - apply IH. intros; apply H; cbn; auto.
  - rewrite Forall_forall. intros y Hy. rewrite (H x), (H y) by (cbn; auto). lia.
Qed.
Lemma history_in eps t : In t (history eps) -> exists p, In p eps /\ tag t = fst p.
Proof.
  unfold history. intros H. apply in_concat in H. destruct H as [l [Hl Ht]].
  apply in_map_iff in Hl. destruct Hl as [p [<- Hp]]. exists p. split; [exact Hp|]. eapply idx_hist_tag; eauto.
Qed.
Lemma history_cons p eps : history (p :: eps) = idx_hist (tag_idx (fst p) (snd p)) ++ history eps.
Proof. reflexivity. Qed.

Lemma history_tags_desc eps : epochs_desc eps -> tags_desc (history eps).
Proof.
  unfold epochs_desc. induction 1 as [|p eps Hs IH Hf]; [constructor|].
  rewrite history_cons. apply ss_app; [|exact IH|].
  - eapply same_tag_sorted. intros t. apply idx_hist_tag.
  - intros x y Hx Hy. apply idx_hist_tag in Hx. apply history_in in Hy. destruct Hy as [q [Hq Ey]].
    rewrite Forall_forall in Hf. specialize (Hf q Hq). lia.
Qed.

(* C07, main statement: the result map, read newest epoch first, is the slice of the complete history *)
Theorem slice_flat eps limit before until :
  epochs_desc eps -> Forall no_failure eps ->
  exists m, get_before_until eps limit before until = Some m /\
            flatten_desc m = slice_spec (Z.to_nat limit) before until (history eps) /\
            (forall e, lookup e m = lookup e (slice_spec (Z.to_nat limit) before until (history eps))).
Proof.
  intros Hd Hnf. eexists. split; [now apply get_before_until_spec|]. split; [|reflexivity].
  apply flatten_desc_sorted. apply slice_sorted. now apply history_tags_desc.
Qed.

(* end to end: the JSON-RPC reply of the repaired handler, for every map iteration order *)
Theorem reply_is_slice eps limit before until m perm :
  epochs_desc eps -> Forall no_failure eps ->
  get_before_until eps limit before until = Some m -> Permutation perm (keys m) ->
  reply true perm m = slice_spec (Z.to_nat limit) before until (history eps).
Proof.
  intros Hd Hnf Hm Hp. destruct (slice_flat eps limit before until Hd Hnf) as [m' [E1 [E2 _]]].
  rewrite Hm in E1. inversion E1; subst m'. rewrite reply_sorted by exact Hp. exact E2.
Qed.

(* declarative reading of the slice when `before` is a signature of the history *)
Lemma after_split pre b post bsig :
  key b = bsig -> (forall x, In x pre -> key x <> bsig) -> after bsig (pre ++ b :: post) = post.
Proof.
  intros Hb. induction pre as [|x pre IH]; intros Hpre; cbn.
  - subst. now rewrite Nat.eqb_refl.
  - destruct (Nat.eqb_spec (key x) bsig) as [E|E]; [exfalso; apply (Hpre x); cbn; auto|].
    apply IH. intros; apply Hpre; cbn; auto.
Qed.
Lemma after_absent bsig l : (forall x, In x l -> key x <> bsig) -> after bsig l = [].
Proof.
  induction l as [|x l IH]; intros H; [reflexivity|]. cbn.
  destruct (Nat.eqb_spec (key x) bsig) as [E|E]; [exfalso; apply (H x); cbn; auto|].
  apply IH. intros; apply H; cbn; auto.
Qed.
Lemma upto_split pre u post usig :
  key u = usig -> (forall x, In x pre -> key x <> usig) -> upto usig (pre ++ u :: post) = pre ++ [u].
Proof.
  intros Hu. induction pre as [|x pre IH]; intros Hpre; cbn.
  - subst. now rewrite Nat.eqb_refl.
  - destruct (Nat.eqb_spec (key x) usig) as [E|E]; [exfalso; apply (Hpre x); cbn; auto|].
    f_equal. apply IH. intros; apply Hpre; cbn; auto.
Qed.
Lemma upto_absent usig l : (forall x, In x l -> key x <> usig) -> upto usig l = l.
Proof.
  induction l as [|x l IH]; intros H; [reflexivity|]. cbn.
  destruct (Nat.eqb_spec (key x) usig) as [E|E]; [exfalso; apply (H x); cbn; auto|].
  f_equal. apply IH. intros; apply H; cbn; auto.
Qed.
