(* C15 — accum/block.go: ObjectAccumulator.Run (producer), startFlusher (consumer), flushQueue (FIFO).

   Generic in the object type [O]: the theorems are instantiated with the CAR objects of Car.v
   (C15_Offsets.v) and the checker with abstracted objects (id, section length, kind) (C15_Check.v);
   both run the very same functions defined here.

   Go code followed (pinned tree):
     Run:   totalOffset := HeaderSize(); loop { NextNodeBytes(); currentOffset := totalOffset;
            totalOffset += sectionLength; skip the first skipNodes sections; kind := data[1];
            kind == flushOnKind -> sendToFlusher(&element, children); new children slice
            else ignoreKinds.Has(kind) -> continue; else children = append(children, element) }
            EOF -> sendToFlusher(nil, children); deferred: flushWg.Wait(); close(flushQueue)
     sendToFlusher: flushWg.Add(1); flushQueue <- fb        (blocks while the queue is full)
     startFlusher:  fb := <-flushQueue; flush(fb.parent, fb.children); flushWg.Done()
     flush: head == nil && len(other) == 0 -> no callback; else callback(head, other)            *)
From Coq Require Import List Arith Lia Bool PeanoNat NArith.
Import ListNotations.

Section Accum.
Variable O : Type.
Variable slen : O -> N.      (* sectionLength returned by NextNodeBytes: varint bytes + cid + data *)
Variable kind : O -> N.      (* iplddecoders.Kind(data[1]) *)
Variable fk : N.             (* flushOnKind *)
Variable ign : list N.       (* ignoreKinds *)

Record item := { it_obj : O; it_off : N; it_len : N }.        (* ObjectWithMetadata *)
Definition group := (option item * list item)%type.            (* callback(parent, children) *)

Definition is_flush (o : O) : bool := N.eqb (kind o) fk.
Definition ignored (o : O) : bool := existsb (N.eqb (kind o)) ign.   (* KindSlice.Has *)

(* ------------------------------------------------------------------------------------------ *)
(* The specification: what the property text says, independent of the producer's code.         *)

(* every section of the file with the offset at which it sits: header first, sections back to back *)
Fixpoint items (off : N) (l : list O) : list item :=
  match l with
  | [] => []
  | o :: r => {| it_obj := o; it_off := off; it_len := slen o |} :: items (off + slen o) r
  end.

(* an object takes part in the traversal iff it is a block (flush kind) or its kind is not ignored *)
Definition keep (it : item) : bool := is_flush (it_obj it) || negb (ignored (it_obj it)).

(* cut the kept objects after every block; what follows the last block is the parentless group *)
Fixpoint split_groups (cur : list item) (l : list item) : list group :=
  match l with
  | [] => [(None, cur)]
  | it :: r => if is_flush (it_obj it) then (Some it, cur) :: split_groups [] r
               else split_groups (cur ++ [it]) r
  end.

(* flush(): a group with no parent and no children is not handed to the callback *)
Definition nonempty (g : group) : bool :=
  match g with (None, []) => false | _ => true end.

Definition groups_spec (hdrlen : N) (nskip : nat) (objs : list O) : list group :=
  filter nonempty (split_groups [] (filter keep (skipn nskip (items hdrlen objs)))).

(* ------------------------------------------------------------------------------------------ *)
(* The producer loop of Run, run alone (what it hands to sendToFlusher, in order).               *)
Fixpoint produce (off : N) (nsk : nat) (cur : list item) (l : list O) : list group :=
  match l with
  | [] => [(None, cur)]                                        (* io.EOF: sendToFlusher(nil, children) *)
  | o :: r =>
      let it := {| it_obj := o; it_off := off; it_len := slen o |} in
      let off' := (off + slen o)%N in                          (* totalOffset += sectionLength, always *)
      match nsk with
      | S k => produce off' k cur r                            (* numSkipped < skipNodes *)
      | 0 => if is_flush o then (Some it, cur) :: produce off' 0 [] r
             else if ignored o then produce off' 0 cur r
             else produce off' 0 (cur ++ [it]) r
      end
  end.

Lemma produce_split : forall l off nsk cur,
  produce off nsk cur l = split_groups cur (filter keep (skipn nsk (items off l))).
Proof.
  induction l as [|o r IH]; intros off nsk cur.
  - destruct nsk; reflexivity.
  - destruct nsk as [|k]; cbn [produce items skipn].
    + cbn [filter]. unfold keep at 1. cbn [it_obj].
      destruct (is_flush o) eqn:Ef; cbn [orb].
      * cbn [split_groups it_obj]. rewrite Ef. f_equal. apply (IH _ 0).
      * destruct (ignored o) eqn:Ei; cbn [negb].
        -- apply (IH _ 0).
        -- cbn [split_groups it_obj]. rewrite Ef. apply (IH _ 0).
    + apply IH.
Qed.

(* ------------------------------------------------------------------------------------------ *)
(* Producer and consumer as a transition system; a schedule is a list of choices.              *)
Inductive phase := Reading | Draining | Closed.
(* Reading : inside the loop of Run
   Draining: the last group (nil, children) has been sent; Run sits in flushWg.Wait()
   Closed  : Wait returned, close(flushQueue) done, Run has returned *)

Record state := {
  todo : list O;             (* sections not yet read *)
  off : N;                   (* totalOffset *)
  nsk : nat;                 (* skipNodes - numSkipped *)
  cur : list item;           (* children of the open group *)
  ph : phase;
  queue : list group;        (* flushQueue, FIFO, capacity cap *)
  inflight : option group;   (* group taken by the flusher whose callback has not returned yet *)
  delivered : list group     (* completed callback invocations, in order *)
}.

Inductive choice :=
| Prod      (* producer: read one section (and send when it closes a group) / EOF send / Wait+close *)
| Recv      (* flusher: fb := <-flushQueue, callback starts *)
| Flush.    (* flusher: callback returns, flushWg.Done() *)

Variable cap : nat.          (* capacity of flushQueue *)

Definition init (hdrlen : N) (nskip : nat) (objs : list O) : state :=
  {| todo := objs; off := hdrlen; nsk := nskip; cur := []; ph := Reading;
     queue := []; inflight := None; delivered := [] |}.

Definition room (s : state) : bool := length (queue s) <? cap.

Definition step (s : state) (c : choice) : option state :=
  match c with
  | Prod =>
      match ph s with
      | Reading =>
          match todo s with
          | [] =>
              if room s
              then Some {| todo := []; off := off s; nsk := nsk s; cur := []; ph := Draining;
                           queue := queue s ++ [(None, cur s)]; inflight := inflight s;
                           delivered := delivered s |}
              else None                                         (* send blocks: queue full *)
          | o :: r =>
              let it := {| it_obj := o; it_off := off s; it_len := slen o |} in
              let off' := (off s + slen o)%N in
              match nsk s with
              | S k => Some {| todo := r; off := off'; nsk := k; cur := cur s; ph := Reading;
                               queue := queue s; inflight := inflight s; delivered := delivered s |}
              | 0 =>
                  if is_flush o then
                    if room s
                    then Some {| todo := r; off := off'; nsk := 0; cur := []; ph := Reading;
                                 queue := queue s ++ [(Some it, cur s)]; inflight := inflight s;
                                 delivered := delivered s |}
                    else None                                   (* send blocks: queue full *)
                  else if ignored o then
                    Some {| todo := r; off := off'; nsk := 0; cur := cur s; ph := Reading;
                            queue := queue s; inflight := inflight s; delivered := delivered s |}
                  else
                    Some {| todo := r; off := off'; nsk := 0; cur := cur s ++ [it]; ph := Reading;
                            queue := queue s; inflight := inflight s; delivered := delivered s |}
              end
          end
      | Draining =>
          (* flushWg.Wait() returns when every sent group has been flushed; then close(flushQueue) *)
          match queue s, inflight s with
          | [], None => Some {| todo := todo s; off := off s; nsk := nsk s; cur := cur s; ph := Closed;
                                queue := []; inflight := None; delivered := delivered s |}
          | _, _ => None
          end
      | Closed => None
      end
  | Recv =>
      match inflight s, queue s with
      | None, g :: q => Some {| todo := todo s; off := off s; nsk := nsk s; cur := cur s; ph := ph s;
                                queue := q; inflight := Some g; delivered := delivered s |}
      | _, _ => None
      end
  | Flush =>
      match inflight s with
      | Some g => Some {| todo := todo s; off := off s; nsk := nsk s; cur := cur s; ph := ph s;
                          queue := queue s; inflight := None;
                          delivered := delivered s ++ (if nonempty g then [g] else []) |}
      | None => None
      end
  end.

Fixpoint run (s : state) (cs : list choice) : option state :=
  match cs with
  | [] => Some s
  | c :: cs' => match step s c with Some s' => run s' cs' | None => None end
  end.

Lemma run_app cs1 : forall s cs2,
  run s (cs1 ++ cs2) = match run s cs1 with Some s' => run s' cs2 | None => None end.
Proof.
  induction cs1 as [|c cs1 IH]; intros s cs2; cbn; [reflexivity|].
  destruct (step s c); [apply IH|reflexivity].
Qed.

(* ---------------------------------- invariant ---------------------------------- *)
Definition pending (s : state) : list group := match inflight s with Some g => [g] | None => [] end.
Definition future (s : state) : list group :=
  match ph s with Reading => produce (off s) (nsk s) (cur s) (todo s) | _ => [] end.

(* [all] = everything the producer sends when run alone. At every moment it is cut into
   flushed ++ in the callback ++ queued ++ still to be produced, in this order. *)
Definition Inv (all : list group) (s : state) : Prop :=
  exists pre, delivered s = filter nonempty pre /\
              pre ++ pending s ++ queue s ++ future s = all /\
              (ph s = Closed -> queue s = [] /\ inflight s = None).

Lemma Inv_init hdrlen nskip objs : Inv (produce hdrlen nskip [] objs) (init hdrlen nskip objs).
Proof. exists []. cbn. repeat split; discriminate. Qed.

Lemma step_Inv all s c s' : Inv all s -> step s c = Some s' -> Inv all s'.
Proof.
  intros [pre [Hd [Hall Hcl]]] Hs. destruct c; cbn [step] in Hs.
  - (* Prod *)
    destruct (ph s) eqn:Eph; [| |discriminate].
    + unfold future in Hall. rewrite Eph in Hall.
      destruct (todo s) as [|o r] eqn:Et.
      * destruct (room s); [|discriminate]. inversion Hs; subst s'; clear Hs.
        exists pre. unfold pending, future. cbn. split; [exact Hd|]. split; [|discriminate].
        cbn [produce] in Hall. rewrite <- Hall. now rewrite <- !app_assoc.
      * destruct (nsk s) as [|k] eqn:En.
        -- cbn [produce] in Hall. destruct (is_flush o) eqn:Ef.
           ++ destruct (room s); [|discriminate]. inversion Hs; subst s'; clear Hs.
              exists pre. unfold pending, future. cbn. split; [exact Hd|]. split; [|discriminate].
              rewrite <- Hall. now rewrite <- !app_assoc.
           ++ destruct (ignored o) eqn:Ei; inversion Hs; subst s'; clear Hs;
                exists pre; unfold pending, future; cbn; (split; [exact Hd|]); (split; [|discriminate]);
                exact Hall.
        -- cbn [produce] in Hall. inversion Hs; subst s'; clear Hs.
           exists pre. unfold pending, future. cbn. split; [exact Hd|]. split; [|discriminate]. exact Hall.
    + unfold future in Hall. rewrite Eph in Hall.
      destruct (queue s) eqn:Eq; [|discriminate]. destruct (inflight s) eqn:Ei; [discriminate|].
      inversion Hs; subst s'; clear Hs. exists pre. unfold pending, future. cbn.
      split; [exact Hd|]. split; [|auto]. unfold pending in Hall. rewrite Ei in Hall. exact Hall.
  - (* Recv *)
    destruct (inflight s) eqn:Ei; [discriminate|]. destruct (queue s) as [|g q] eqn:Eq; [discriminate|].
    inversion Hs; subst s'; clear Hs. exists pre. unfold pending, future in *. cbn.
    rewrite Ei in Hall. split; [exact Hd|]. split; [exact Hall|].
    intros Hc. destruct (Hcl Hc) as [H1 _]. discriminate.
  - (* Flush *)
    destruct (inflight s) as [g|] eqn:Ei; [|discriminate].
    inversion Hs; subst s'; clear Hs. exists (pre ++ [g]). unfold pending, future in *. cbn.
    rewrite Ei in Hall. split.
    + rewrite filter_app, Hd. cbn [filter]. destruct (nonempty g); reflexivity.
    + split; [rewrite <- Hall; now rewrite <- !app_assoc|].
      intros Hc. destruct (Hcl Hc) as [_ H2]. discriminate.
Qed.

Lemma run_Inv all cs : forall s s', Inv all s -> run s cs = Some s' -> Inv all s'.
Proof.
  induction cs as [|c cs IH]; intros s s' HI Hr; cbn in Hr.
  - inversion Hr; subst; exact HI.
  - destruct (step s c) as [s1|] eqn:Es; [|discriminate]. eapply IH; [|exact Hr]. eapply step_Inv; eauto.
Qed.

Lemma produce_is_spec hdrlen nskip objs :
  filter nonempty (produce hdrlen nskip [] objs) = groups_spec hdrlen nskip objs.
Proof. unfold groups_spec. now rewrite produce_split. Qed.

(* ---------------------------------- C15_groups ---------------------------------- *)
(* When Run has returned (Closed), the callback has been invoked with exactly groups_spec. *)
Theorem groups_delivered hdrlen nskip objs cs s :
  run (init hdrlen nskip objs) cs = Some s -> ph s = Closed ->
  delivered s = groups_spec hdrlen nskip objs.
Proof.
  intros Hr Hc. pose proof (run_Inv _ cs _ _ (Inv_init hdrlen nskip objs) Hr) as [pre [Hd [Hall Hcl]]].
  destruct (Hcl Hc) as [Hq Hi]. unfold pending, future in Hall. rewrite Hq, Hi, Hc in Hall. cbn in Hall.
  rewrite app_nil_r in Hall. subst pre. rewrite Hd. apply produce_is_spec.
Qed.

(* at every moment of every schedule, what has been delivered is a prefix of groups_spec:
   nothing is delivered twice, out of order, or with other children *)
Theorem delivered_prefix hdrlen nskip objs cs s :
  run (init hdrlen nskip objs) cs = Some s ->
  exists rest, groups_spec hdrlen nskip objs = delivered s ++ rest.
Proof.
  intros Hr. pose proof (run_Inv _ cs _ _ (Inv_init hdrlen nskip objs) Hr) as [pre [Hd [Hall _]]].
  rewrite <- produce_is_spec, <- Hall, filter_app, <- Hd. eauto.
Qed.

Theorem schedule_independent hdrlen nskip objs cs1 cs2 s1 s2 :
  run (init hdrlen nskip objs) cs1 = Some s1 -> ph s1 = Closed ->
  run (init hdrlen nskip objs) cs2 = Some s2 -> ph s2 = Closed ->
  delivered s1 = delivered s2.
Proof.
  intros H1 C1 H2 C2. rewrite (groups_delivered _ _ _ _ _ H1 C1), (groups_delivered _ _ _ _ _ H2 C2).
  reflexivity.
Qed.

(* ---------------------------------- progress / termination ---------------------------------- *)
(* no deadlock: in EVERY state in which Run has not returned some step is enabled, for any capacity >= 1 *)
Theorem progress s : 1 <= cap -> ph s <> Closed -> exists c s', step s c = Some s'.
Proof.
  intros Hcap Hph. destruct (inflight s) as [g|] eqn:Ei.
  - exists Flush. cbn. rewrite Ei. eauto.
  - destruct (queue s) as [|g q] eqn:Eq.
    + exists Prod. cbn [step]. unfold room. rewrite Eq. cbn [length].
      replace (0 <? cap) with true by (symmetry; apply Nat.ltb_lt; lia).
      destruct (ph s); [| |congruence].
      * destruct (todo s) as [|o r]; [eauto|]. destruct (nsk s); [|eauto].
        destruct (is_flush o); [eauto|]. destruct (ignored o); eauto.
      * rewrite Ei. eauto.
    + exists Recv. cbn. rewrite Ei, Eq. eauto.
Qed.

Definition rank (p : phase) : nat := match p with Reading => 2 | Draining => 1 | Closed => 0 end.
Definition measure (s : state) : nat :=
  3 * (length (todo s) + rank (ph s)) + 2 * length (queue s) + (match inflight s with Some _ => 1 | None => 0 end).

Lemma step_decreases s c s' : step s c = Some s' -> measure s' < measure s.
Proof.
  intros Hs. destruct c; cbn [step] in Hs.
  - destruct (ph s) eqn:Eph; [| |discriminate].
    + destruct (todo s) as [|o r] eqn:Et.
      * destruct (room s); [|discriminate]. inversion Hs; subst s'. unfold measure. cbn.
        rewrite Eph, Et, app_length. cbn. lia.
      * destruct (nsk s).
        -- destruct (is_flush o).
           ++ destruct (room s); [|discriminate]. inversion Hs; subst s'. unfold measure. cbn.
              rewrite Eph, Et, app_length. cbn. lia.
           ++ destruct (ignored o); inversion Hs; subst s'; unfold measure; cbn; rewrite Eph, Et; cbn; lia.
        -- inversion Hs; subst s'. unfold measure. cbn. rewrite Eph, Et. cbn. lia.
    + destruct (queue s) eqn:Eq; [|discriminate]. destruct (inflight s) eqn:Ei; [discriminate|].
      inversion Hs; subst s'. unfold measure. cbn. rewrite Eph, Eq, Ei. cbn. lia.
  - destruct (inflight s) eqn:Ei; [discriminate|]. destruct (queue s) as [|g q] eqn:Eq; [discriminate|].
    inversion Hs; subst s'. unfold measure. cbn. rewrite Ei, Eq. cbn. lia.
  - destruct (inflight s) eqn:Ei; [|discriminate]. inversion Hs; subst s'. unfold measure. cbn.
    rewrite Ei. lia.
Qed.

Lemma run_measure cs : forall s s', run s cs = Some s' -> measure s' + length cs <= measure s.
Proof.
  induction cs as [|c cs IH]; intros s s' Hr; cbn in Hr.
  - inversion Hr; subst. cbn. lia.
  - destruct (step s c) as [s1|] eqn:Es; [|discriminate].
    pose proof (step_decreases _ _ _ Es). pose proof (IH _ _ Hr). cbn [length]. lia.
Qed.

(* every schedule is finite: at most 3 * (sections + 2) steps *)
Theorem schedule_bounded hdrlen nskip objs cs s :
  run (init hdrlen nskip objs) cs = Some s -> length cs <= 3 * (length objs + 2).
Proof.
  intros Hr. pose proof (run_measure _ _ _ Hr) as H. unfold measure at 2 in H. cbn in H. lia.
Qed.

(* from every state Run can be brought to its return, whatever happened before *)
Theorem can_complete : 1 <= cap -> forall s, exists cs s', run s cs = Some s' /\ ph s' = Closed.
Proof.
  intros Hcap s. remember (measure s) as m eqn:Em. revert s Em.
  induction m as [m IH] using lt_wf_ind. intros s Em.
  destruct (ph s) eqn:Eph.
  - destruct (progress s Hcap) as [c [s1 Hs]]; [congruence|].
    pose proof (step_decreases _ _ _ Hs) as Hd.
    destruct (IH (measure s1) ltac:(lia) s1 eq_refl) as [cs [s' [Hr Hc]]].
    exists (c :: cs), s'. cbn. rewrite Hs. auto.
  - destruct (progress s Hcap) as [c [s1 Hs]]; [congruence|].
    pose proof (step_decreases _ _ _ Hs) as Hd.
    destruct (IH (measure s1) ltac:(lia) s1 eq_refl) as [cs [s' [Hr Hc]]].
    exists (c :: cs), s'. cbn. rewrite Hs. auto.
  - exists [], s. auto.
Qed.

(* ---------------------------------- facts about the specification itself ---------------------------------- *)
(* These say in the words of the property what groups_spec is; they do not mention the producer. *)
Definition flat (g : group) : list item :=
  snd g ++ match fst g with Some p => [p] | None => [] end.

Lemma split_flat l : forall cur, concat (map flat (split_groups cur l)) = cur ++ l.
Proof.
  induction l as [|it r IH]; intros cur; cbn [split_groups].
  - cbn. now rewrite !app_nil_r.
  - destruct (is_flush (it_obj it)).
    + cbn [map concat flat fst snd]. rewrite IH. cbn. now rewrite <- app_assoc.
    + rewrite IH. now rewrite <- app_assoc.
Qed.

Lemma flat_empty g : nonempty g = false -> flat g = [].
Proof. destruct g as [[p|] [|c ch]]; cbn; congruence. Qed.

Lemma concat_filter_nonempty gs : concat (map flat (filter nonempty gs)) = concat (map flat gs).
Proof.
  induction gs as [|g gs IH]; cbn; [reflexivity|]. destruct (nonempty g) eqn:E; cbn.
  - now rewrite IH.
  - now rewrite IH, (flat_empty g E).
Qed.

(* (1) children-then-parent of all groups, concatenated, are exactly the kept objects after the skipped
       ones, in file order, each once, each with its offset and length *)
Theorem spec_flat hdrlen nskip objs :
  concat (map flat (groups_spec hdrlen nskip objs)) = filter keep (skipn nskip (items hdrlen objs)).
Proof. unfold groups_spec. rewrite concat_filter_nonempty, split_flat. reflexivity. Qed.

(* (2) the parents are exactly the blocks, in file order *)
Definition parents (gs : list group) : list item :=
  flat_map (fun g => match fst g with Some p => [p] | None => [] end) gs.

Lemma split_parents l : forall cur,
  parents (split_groups cur l) = filter (fun it => is_flush (it_obj it)) l.
Proof.
  induction l as [|it r IH]; intros cur; cbn [split_groups filter]; [reflexivity|].
  destruct (is_flush (it_obj it)); [cbn; now rewrite IH|apply IH].
Qed.

Lemma parents_filter_nonempty gs : parents (filter nonempty gs) = parents gs.
Proof.
  unfold parents. induction gs as [|g gs IH]; cbn [filter flat_map]; [reflexivity|].
  destruct (nonempty g) eqn:E; cbn [flat_map].
  - now rewrite IH.
  - rewrite IH. destruct g as [[p|] ch]; [destruct ch; discriminate|reflexivity].
Qed.

Lemma filter_filter {A} (f g : A -> bool) l : (forall x, f x = true -> g x = true) ->
  filter f (filter g l) = filter f l.
Proof.
  intros H. induction l as [|x l IH]; cbn; [reflexivity|].
  destruct (g x) eqn:Eg; cbn.
  - now rewrite IH.
  - destruct (f x) eqn:Ef; [rewrite (H x Ef) in Eg; discriminate|exact IH].
Qed.

Theorem spec_parents hdrlen nskip objs :
  parents (groups_spec hdrlen nskip objs) =
  filter (fun it => is_flush (it_obj it)) (skipn nskip (items hdrlen objs)).
Proof.
  unfold groups_spec. rewrite parents_filter_nonempty, split_parents.
  apply filter_filter. intros x Hx. unfold keep. now rewrite Hx.
Qed.

(* (3) no child is a block, every parent is a block, only the last group can lack a parent *)
Lemma split_children l : forall cur g,
  Forall (fun it => is_flush (it_obj it) = false) cur ->
  In g (split_groups cur l) -> Forall (fun it => is_flush (it_obj it) = false) (snd g).
Proof.
  induction l as [|it r IH]; intros cur g Hc Hin; cbn [split_groups] in Hin.
  - destruct Hin as [<-|[]]. exact Hc.
  - destruct (is_flush (it_obj it)) eqn:Ef.
    + destruct Hin as [<-|Hin]; [exact Hc|]. eapply IH; [constructor|exact Hin].
    + eapply IH; [|exact Hin]. apply Forall_app. split; [exact Hc|]. constructor; [exact Ef|constructor].
Qed.

Theorem spec_children_not_blocks hdrlen nskip objs g :
  In g (groups_spec hdrlen nskip objs) -> Forall (fun it => is_flush (it_obj it) = false) (snd g).
Proof.
  unfold groups_spec. intros Hin. apply filter_In in Hin. destruct Hin as [Hin _].
  eapply split_children; [constructor|exact Hin].
Qed.

Lemma split_parentless_last l : forall cur,
  exists gs ch, split_groups cur l = gs ++ [(None, ch)] /\ Forall (fun g => fst g <> None) gs.
Proof.
  induction l as [|it r IH]; intros cur; cbn [split_groups].
  - exists [], cur. split; [reflexivity|constructor].
  - destruct (is_flush (it_obj it)).
    + destruct (IH []) as [gs [ch [E F]]]. exists ((Some it, cur) :: gs), ch. rewrite E. split; [reflexivity|].
      constructor; [cbn; discriminate|exact F].
    + apply IH.
Qed.

Theorem spec_parentless_only_last hdrlen nskip objs :
  exists gs tl, groups_spec hdrlen nskip objs = gs ++ tl /\ Forall (fun g => fst g <> None) gs /\
                (tl = [] \/ exists c ch, tl = [(None, c :: ch)]).
Proof.
  unfold groups_spec.
  destruct (split_parentless_last (filter keep (skipn nskip (items hdrlen objs))) []) as [gs [ch [E F]]].
  rewrite E, filter_app. exists (filter nonempty gs). cbn [filter].
  destruct ch as [|c ch]; cbn [nonempty].
  - exists []. split; [reflexivity|]. split; [|auto].
    apply Forall_forall. intros g Hg. apply filter_In in Hg. rewrite Forall_forall in F. apply F, Hg.
  - exists [(None, c :: ch)]. split; [reflexivity|]. split; [|right; eauto].
    apply Forall_forall. intros g Hg. apply filter_In in Hg. rewrite Forall_forall in F. apply F, Hg.
Qed.

(* every delivered item is a section of the file with its offset *)
Lemma spec_items_in hdrlen nskip objs g it :
  In g (groups_spec hdrlen nskip objs) -> In it (flat g) -> In it (items hdrlen objs).
Proof.
  intros Hg Hit.
  assert (H : In it (concat (map flat (groups_spec hdrlen nskip objs)))).
  { apply in_concat. exists (flat g). split; [apply in_map; exact Hg|exact Hit]. }
  rewrite spec_flat in H. apply filter_In in H. destruct H as [H _].
  rewrite <- (firstn_skipn nskip (items hdrlen objs)). apply in_or_app. right. exact H.
Qed.

End Accum.

Arguments it_obj {O}.
Arguments it_off {O}.
Arguments it_len {O}.
Arguments todo {O}.
Arguments off {O}.
Arguments nsk {O}.
Arguments cur {O}.
Arguments ph {O}.
Arguments queue {O}.
Arguments inflight {O}.
Arguments delivered {O}.
Arguments flat {O}.
Arguments parents {O}.
Arguments nonempty {O}.
