(* C06 — GsfaWriter.Push as a program over the machine of C06_Machine.v, histories, schedules of the
   background goroutine, and the end-to-end theorems.

   One call Push(slot, keys, entry) executes, in this order (it holds a.mu; the background goroutine runs
   concurrently and touches neither a.accum nor a.popRank, so the op list can be computed when the call starts):
     if slot % FE == 0 && a.accum.Len() > FM:   OPurge R;  one flush op per victim
        (victim = accumulated key with 0 < len < FS that is not in the purged pop rank, keys in sorted order)
     for every key of Dedupe+Sort(keys):        OPush key entry
   [pVia] chooses how a victim is flushed: true = through the channel (REPAIRED, OQFlush), false = written
   synchronously (pinned design, OSFlush).

   A schedule is a list of lists of background steps: the i-th list runs before the i-th op of the pushing
   goroutine; what is left runs after the last push, before Close. EVERY interleaving is such a schedule. *)
From Coq Require Import List NArith Lia Arith Bool PeanoNat Permutation.
Import ListNotations.
Require Import C06_Machine.

Record params := Prm {
  pB : nat;      (* itemsPerBatch *)
  pP : nat;      (* howManyBuffersToFlushConcurrently *)
  pC : nat;      (* capacity of fullBufferWriterChan (blocking only; see respects_cap) *)
  pFE : N;       (* periodic flush looks at slots that are multiples of this *)
  pFM : N;       (* ... when more than this many keys are accumulated *)
  pFS : N;       (* ... and flushes keys with fewer than this many values *)
  pR : nat;      (* rank list size of the pop rank *)
  pVia : bool    (* periodic flush goes through the channel *)
}.

(* ---------- Dedupe + Sort ---------- *)
Fixpoint ins (x : nat) (l : list nat) : list nat :=
  match l with [] => [x] | y :: t => if x <=? y then x :: l else y :: ins x t end.
Definition isort (l : list nat) : list nat := fold_right ins [] l.
Definition norm_keys (ks : list nat) : list nat := isort (nodup Nat.eq_dec ks).

Lemma ins_perm x l : Permutation (ins x l) (x :: l).
Proof.
  induction l as [|y t IH]; cbn; [reflexivity|]. destruct (x <=? y); [reflexivity|].
  rewrite IH. apply perm_swap.
Qed.
Lemma isort_perm l : Permutation (isort l) l.
Proof. induction l as [|x l IH]; cbn; [constructor|]. rewrite ins_perm. now constructor. Qed.
Lemma norm_keys_nodup ks : NoDup (norm_keys ks).
Proof.
  unfold norm_keys. eapply Permutation_NoDup; [symmetry; apply isort_perm|apply NoDup_nodup].
Qed.
Lemma norm_keys_in ks k : In k (norm_keys ks) <-> In k ks.
Proof.
  unfold norm_keys. split; intros H.
  - apply (nodup_In Nat.eq_dec). eapply Permutation_in; [apply isort_perm|exact H].
  - eapply Permutation_in; [symmetry; apply isort_perm|]. apply nodup_In. exact H.
Qed.

Inductive bop := BRecv | BWrite.
Definition sched := list (list bop).

Section Front.
Variable entry : Type.
Variable store : Type.
Variable sflush : store -> nat -> list entry -> store.
Notation mstate := (mstate entry store).
Notation op := (op entry).
Notation batch := (nat * list entry)%type.

Record push := Push { ps_slot : N; ps_keys : list nat; ps_entry : entry }.

Definition periodic (prm : params) (acc : list batch) (slot : N) : bool :=
  (N.modulo slot (pFE prm) =? 0)%N && (pFM prm <? N.of_nat (length acc))%N.
Definition victim (prm : params) (acc : list batch) (r : rank) (k : nat) : bool :=
  let n := length (acc_get entry acc k) in
  (0 <? n) && (N.of_nat n <? pFS prm)%N && negb (rank_has r k).
Definition victims (prm : params) (acc : list batch) (r : rank) : list nat :=
  filter (victim prm acc r) (isort (acc_keys entry acc)).
Definition flush_op (prm : params) (k : nat) : op := if pVia prm then OQFlush entry k else OSFlush entry k.

Definition push_ops (prm : params) (acc : list batch) (r : rank) (p : push) : list op :=
  (if periodic prm acc (ps_slot p)
   then OPurge entry (pR prm) :: map (flush_op prm) (victims prm acc (purge (pR prm) r))
   else [])
  ++ map (fun k => OPush entry k (ps_entry p)) (norm_keys (ps_keys p)).

Definition bops (l : list bop) : list op :=
  map (fun b => match b with BRecv => ORecv entry | BWrite => OWrite entry end) l.

Section Run.
Variable prm : params.
Notation step := (step entry store sflush (pB prm) (pP prm)).
Notation exec := (exec entry store sflush (pB prm) (pP prm)).

Fixpoint run_ops (ops : list op) (sc : sched) (s : mstate) : mstate * sched :=
  match ops with
  | [] => (s, sc)
  | o :: t => run_ops t (tl sc) (step (exec (bops (hd [] sc)) s) o)
  end.

Fixpoint run_hist (h : list push) (sc : sched) (s : mstate) : mstate :=
  match h with
  | [] => exec (bops (concat sc)) s
  | p :: t =>
    let (s', sc') := run_ops (push_ops prm (m_acc _ _ s) (m_rank _ _ s) p) sc s in
    run_hist t sc' s'
  end.

(* write -> Close *)
Definition gsfa_run (h : list push) (sc : sched) (s0 : mstate) : mstate :=
  close entry store sflush (pP prm) (run_hist h sc s0).
End Run.

(* what the property expects for address k: the entries of the pushes that name k, oldest first *)
Definition entries_for (k : nat) (h : list push) : list entry :=
  flat_map (fun p => if existsb (Nat.eqb k) (ps_keys p) then [ps_entry p] else []) h.
Definition addresses (h : list push) : list nat := flat_map ps_keys h.

Lemma entries_for_nonempty k h : In k (addresses h) -> entries_for k h <> [].
Proof.
  unfold addresses, entries_for. induction h as [|p h IH]; cbn; [tauto|]. intros H.
  apply in_app_or in H. destruct (existsb (Nat.eqb k) (ps_keys p)) eqn:E; [discriminate|].
  destruct H as [H|H]; [|cbn; auto].
  exfalso. apply not_true_iff_false in E. apply E. apply existsb_exists. exists k. split; [exact H|apply Nat.eqb_refl].
Qed.

(* ---------- histories of op lists ---------- *)
Lemma hist_app (a b : list op) k : hist entry (a ++ b) k = hist entry a k ++ hist entry b k.
Proof. unfold hist. apply flat_map_app. Qed.

Lemma hist_bops l k : hist entry (bops l) k = [].
Proof. induction l as [|b l IH]; cbn; auto. destruct b; cbn; exact IH. Qed.

Lemma hist_flush_ops prm vs k : hist entry (map (flush_op prm) vs) k = [].
Proof.
  induction vs as [|v vs IH]; [reflexivity|]. cbn [map hist flat_map].
  fold (hist entry (map (flush_op prm) vs) k). rewrite IH. unfold flush_op. destruct (pVia prm); reflexivity.
Qed.

Lemma hist_pushes ks e k : NoDup ks ->
  hist entry (map (fun k0 => OPush entry k0 e) ks) k = if existsb (Nat.eqb k) ks then [e] else [].
Proof.
  induction ks as [|k0 ks IH]; intros ND; cbn [map hist flat_map op_hist existsb]; auto.
  inversion ND as [|? ? Hni ND']; subst. fold (hist entry (map (fun k1 => OPush entry k1 e) ks) k). rewrite IH by auto.
  destruct (Nat.eqb_spec k0 k) as [->|Hne].
  - rewrite Nat.eqb_refl. cbn [orb]. replace (existsb (Nat.eqb k) ks) with false; [reflexivity|].
    symmetry. apply not_true_is_false. intros Hx. apply existsb_exists in Hx. destruct Hx as [x [Hx1 Hx2]].
    apply Nat.eqb_eq in Hx2. subst. contradiction.
  - replace (k =? k0) with false by (symmetry; apply Nat.eqb_neq; auto). reflexivity.
Qed.

Lemma existsb_norm_keys ks k : existsb (Nat.eqb k) (norm_keys ks) = existsb (Nat.eqb k) ks.
Proof.
  destruct (existsb (Nat.eqb k) ks) eqn:E.
  - apply existsb_exists in E. destruct E as [x [Hx Hk]]. apply Nat.eqb_eq in Hk. subst x.
    apply existsb_exists. exists k. split; [apply (proj2 (norm_keys_in ks k)); exact Hx|apply Nat.eqb_refl].
  - apply not_true_is_false. intros H. apply existsb_exists in H. destruct H as [x [Hx Hk]].
    apply Nat.eqb_eq in Hk. subst x. apply (proj1 (norm_keys_in ks k)) in Hx. apply not_true_iff_false in E. apply E.
    apply existsb_exists. exists k. split; [exact Hx|apply Nat.eqb_refl].
Qed.

Lemma hist_push_ops prm acc r p k :
  hist entry (push_ops prm acc r p) k = if existsb (Nat.eqb k) (ps_keys p) then [ps_entry p] else [].
Proof.
  unfold push_ops. rewrite hist_app. rewrite hist_pushes by apply norm_keys_nodup. rewrite existsb_norm_keys.
  destruct (periodic prm acc (ps_slot p)); [|reflexivity].
  cbn [hist flat_map op_hist app]. fold (hist entry (map (flush_op prm) (victims prm acc (purge (pR prm) r))) k).
  now rewrite hist_flush_ops.
Qed.

(* ================= theorems over a lawful store ================= *)
Section Laws.
Variable sget : store -> nat -> list entry.
Variable sinv : store -> Prop.
Hypothesis sinv_flush : forall st k b, sinv st -> sinv (sflush st k b).
Hypothesis sget_same : forall st k b, sinv st -> sget (sflush st k b) k = rev b ++ sget st k.
Hypothesis sget_other : forall st k k' b, sinv st -> k' <> k -> sget (sflush st k b) k' = sget st k'.
Variable prm : params.
Notation B := (pB prm).
Notation P := (pP prm).
Notation step := (C06_Machine.step entry store sflush B P).
Notation exec := (C06_Machine.exec entry store sflush B P).
Notation view := (view entry store sget).
Notation pending := (pending entry store).
Notation ops_ok := (ops_ok entry store sflush B P).
Notation op_ok := (op_ok entry store).

Definition good (s : mstate) : Prop := sinv (m_store _ _ s).

Lemma step_ok s o : good s -> op_ok s o ->
  good (step s o) /\ forall k, view (step s o) k = view s k ++ op_hist entry o k.
Proof. intros. apply (step_view entry store sflush B P sget sinv); auto. Qed.

Lemma ops_ok_bops l : forall s, ops_ok s (bops l).
Proof. induction l as [|b l IH]; intros s; cbn; auto. destruct b; cbn; split; auto. Qed.

Lemma bg_ok l s : good s ->
  good (exec (bops l) s) /\ forall k, view (exec (bops l) s) k = view s k.
Proof.
  intros H. destruct (exec_view entry store sflush B P sget sinv sinv_flush sget_same sget_other (bops l) s H (ops_ok_bops l s)) as [Hg Hv].
  split; [exact Hg|]. intros k. rewrite Hv, hist_bops. apply app_nil_r.
Qed.

(* background steps touch neither the accumulators nor the pop rank *)
Lemma bg_frame l : forall s,
  m_acc _ _ (exec (bops l) s) = m_acc _ _ s /\ m_rank _ _ (exec (bops l) s) = m_rank _ _ s.
Proof.
  induction l as [|b l IH]; intros s; [split; reflexivity|].
  cbn [bops map C06_Machine.exec fold_left]. fold (bops l).
  change (fold_left step (bops l) ?x) with (exec (bops l) x).
  destruct b.
  - destruct (IH (step s (ORecv entry))) as [A R]. rewrite A, R. cbn [C06_Machine.step]. unfold recv.
    destruct (m_wq _ _ s); [|split; reflexivity]. destruct (m_chan _ _ s); [split; reflexivity|].
    destruct (_ || _); split; reflexivity.
  - destruct (IH (step s (OWrite entry))) as [A R]. rewrite A, R. cbn [C06_Machine.step]. unfold write.
    destruct (m_wq _ _ s) as [|[k b] w]; split; reflexivity.
Qed.

Definition no_sync (ops : list op) : Prop :=
  Forall (fun o => match o with OSFlush _ _ => False | _ => True end) ops.

(* ops of the pushing goroutine interleaved with background steps: the view grows by what was pushed *)
Lemma run_ops_view ops : forall sc s, good s -> no_sync ops ->
  good (fst (run_ops prm ops sc s)) /\ forall k, view (fst (run_ops prm ops sc s)) k = view s k ++ hist entry ops k.
Proof.
  induction ops as [|o ops IH]; intros sc s Hg Hns; cbn [run_ops fst].
  - split; [exact Hg|]. intros k. cbn. now rewrite app_nil_r.
  - inversion Hns as [|? ? Ho Hns']; subst.
    destruct (bg_ok (hd [] sc) s Hg) as [Hg1 Hv1].
    assert (Hok : op_ok (exec (bops (hd [] sc)) s) o) by (destruct o; cbn; auto; contradiction).
    destruct (step_ok _ o Hg1 Hok) as [Hg2 Hv2].
    destruct (IH (tl sc) _ Hg2 Hns') as [Hg3 Hv3]. split; [exact Hg3|].
    intros k. rewrite Hv3, Hv2, Hv1. cbn [hist flat_map]. fold (hist entry ops k). now rewrite <- app_assoc.
Qed.

Lemma no_sync_push_ops acc r p : pVia prm = true -> no_sync (push_ops prm acc r p).
Proof.
  intros Hv. unfold push_ops, no_sync. apply Forall_app. split.
  - destruct (periodic prm acc (ps_slot p)); [|constructor]. constructor; [exact I|].
    apply Forall_forall. intros o Ho. apply in_map_iff in Ho. destruct Ho as [v [<- _]].
    unfold flush_op. rewrite Hv. exact I.
  - apply Forall_forall. intros o Ho. apply in_map_iff in Ho. destruct Ho as [v [<- _]]. exact I.
Qed.

Lemma run_hist_view h : pVia prm = true -> forall sc s, good s ->
  good (run_hist prm h sc s) /\ forall k, view (run_hist prm h sc s) k = view s k ++ entries_for k h.
Proof.
  intros Hvia. induction h as [|p h IH]; intros sc s Hg; cbn [run_hist entries_for flat_map].
  - destruct (bg_ok (concat sc) s Hg) as [Hg1 Hv1]. split; [exact Hg1|]. intros k. rewrite Hv1. now rewrite app_nil_r.
  - pose proof (run_ops_view (push_ops prm (m_acc _ _ s) (m_rank _ _ s) p) sc s Hg (no_sync_push_ops _ _ p Hvia)) as [Hg1 Hv1].
    destruct (run_ops prm (push_ops prm (m_acc _ _ s) (m_rank _ _ s) p) sc s) as [s' sc'] eqn:E. cbn [fst] in *.
    destruct (IH sc' s' Hg1) as [Hg2 Hv2]. split; [exact Hg2|]. intros k.
    rewrite Hv2, Hv1, hist_push_ops. fold (entries_for k h). now rewrite <- app_assoc.
Qed.

(* C06, machine half, REPAIRED writer: every history, every schedule of the background goroutine *)
Theorem get_all_via_channel h sc s0 k :
  pVia prm = true -> good s0 -> view s0 k = [] ->
  sget (m_store _ _ (gsfa_run prm h sc s0)) k = rev (entries_for k h).
Proof.
  intros Hvia Hg Hv0. unfold gsfa_run.
  destruct (run_hist_view h Hvia sc s0 Hg) as [Hg1 Hv1].
  destruct (close_get entry store sflush P sget sinv sinv_flush sget_same sget_other (run_hist prm h sc s0) k Hg1) as [_ Hc].
  rewrite Hc, Hv1, Hv0. reflexivity.
Qed.

(* ---------- the pinned design: victims are written synchronously; safe while the pop rank covers
              every key that has a batch on its way ---------- *)
Definition covered (s : mstate) : Prop :=
  forall k, pending s k <> [] -> rank_has (m_rank _ _ s) k = true.

Lemma rank_has_incr r k0 k : rank_has (rank_incr r k0) k = rank_has r k || (k0 =? k).
Proof.
  induction r as [|[k1 v] r IH]; cbn.
  - now rewrite orb_false_r.
  - destruct (k1 =? k0) eqn:E; cbn.
    + apply Nat.eqb_eq in E. subst k1. destruct (k0 =? k); cbn; auto. now rewrite orb_false_r.
    + fold (rank_has (rank_incr r k0) k). fold (rank_has r k). rewrite IH. now rewrite orb_assoc.
Qed.

Lemma pending_recv s k : pending (step s (ORecv entry)) k = pending s k.
Proof.
  cbn [C06_Machine.step]. unfold recv. destruct (m_wq _ _ s) as [|w wq] eqn:Ew; [|reflexivity].
  destruct (m_chan _ _ s) as [|kb rest] eqn:Ec; [reflexivity|].
  unfold C06_Machine.pending. destruct (_ || _); cbn [m_wq m_parked m_chan]; rewrite Ew, Ec;
    rewrite (pend_cons entry k kb rest); [|rewrite pend_app]; cbn [bpend flat_map app];
    repeat rewrite app_nil_r; repeat rewrite <- app_assoc; reflexivity.
Qed.

Lemma pending_write s k : pending (step s (OWrite entry)) k <> [] -> pending s k <> [].
Proof.
  cbn [C06_Machine.step]. unfold write. destruct (m_wq _ _ s) as [|[k0 b] wq] eqn:Ew; [auto|].
  unfold C06_Machine.pending. cbn [m_wq m_parked m_chan]. rewrite Ew. rewrite (pend_cons entry k (k0, b) wq).
  intros H E. apply H. apply app_eq_nil in E. destruct E as [E1 E2]. apply app_eq_nil in E1. destruct E1 as [_ E1].
  rewrite E1, E2. reflexivity.
Qed.

Lemma bg_covered l : forall s, covered s -> covered (exec (bops l) s).
Proof.
  induction l as [|b l IH]; intros s H; [exact H|].
  cbn [bops map C06_Machine.exec fold_left]. fold (bops l). change (fold_left step (bops l) ?x) with (exec (bops l) x).
  apply IH. intros k Hk. destruct b.
  - rewrite pending_recv in Hk. specialize (H k Hk).
    replace (m_rank _ _ (step s (ORecv entry))) with (m_rank _ _ s); [exact H|].
    cbn [C06_Machine.step]. unfold recv. destruct (m_wq _ _ s); [|reflexivity]. destruct (m_chan _ _ s); [reflexivity|].
    destruct (_ || _); reflexivity.
  - apply pending_write in Hk. specialize (H k Hk).
    replace (m_rank _ _ (step s (OWrite entry))) with (m_rank _ _ s); [exact H|].
    cbn [C06_Machine.step]. unfold write. destruct (m_wq _ _ s) as [|[k0 b] w]; reflexivity.
Qed.

Lemma push_covered s k0 e : covered s -> covered (step s (OPush entry k0 e)).
Proof.
  intros H. cbn [C06_Machine.step]. unfold push1. destruct (acc_get entry (m_acc _ _ s) k0) as [|a cur]; [exact H|].
  destruct (B <=? _); [|exact H].
  intros k. unfold C06_Machine.pending. cbn [m_wq m_parked m_chan m_rank]. rewrite pend_app, rank_has_incr.
  destruct (Nat.eqb_spec k0 k) as [->|Hne]; [intros _; apply orb_true_r|].
  rewrite (pend_single_other entry k k0) by auto. rewrite app_nil_r, orb_false_r. apply H.
Qed.

(* victims written synchronously one after the other, background steps in between *)
Lemma run_sync_flushes vs : forall sc s r0, good s -> covered s -> m_rank _ _ s = r0 ->
  (forall v, In v vs -> rank_has r0 v = false) ->
  let res := fst (run_ops prm (map (OSFlush entry) vs) sc s) in
  good res /\ covered res /\ m_rank _ _ res = r0 /\ forall k, view res k = view s k.
Proof.
  induction vs as [|v vs IH]; intros sc s r0 Hg Hc Hr Hvs; cbn [map run_ops fst].
  - repeat split; auto.
  - destruct (bg_ok (hd [] sc) s Hg) as [Hg1 Hv1]. pose proof (bg_covered (hd [] sc) s Hc) as Hc1.
    destruct (bg_frame (hd [] sc) s) as [_ Hr1]. set (s1 := exec (bops (hd [] sc)) s) in *.
    assert (Hok : op_ok s1 (OSFlush entry v)).
    { cbn. destruct (pending s1 v) eqn:Ep; [reflexivity|]. exfalso.
      assert (Hne : pending s1 v <> []) by (rewrite Ep; discriminate).
      specialize (Hc1 v Hne). rewrite Hr1, Hr in Hc1. rewrite (Hvs v) in Hc1 by (now left). discriminate. }
    destruct (step_ok s1 _ Hg1 Hok) as [Hg2 Hv2].
    assert (Hfr : m_rank _ _ (step s1 (OSFlush entry v)) = r0 /\ forall k, pending (step s1 (OSFlush entry v)) k = pending s1 k).
    { cbn [C06_Machine.step]. unfold sflush_acc. destruct (acc_get entry (m_acc _ _ s1) v); split;
        cbn [m_rank]; try (intros; reflexivity); congruence. }
    destruct Hfr as [Hr2 Hp2].
    assert (Hc2 : covered (step s1 (OSFlush entry v))).
    { intros k Hk. rewrite Hp2 in Hk. rewrite Hr2. specialize (Hc1 k Hk). congruence. }
    destruct (IH (tl sc) _ r0 Hg2 Hc2 Hr2 (fun x Hx => Hvs x (or_intror Hx))) as (Hg3 & Hc3 & Hr3 & Hv3).
    repeat split; auto. intros k. rewrite Hv3, Hv2, Hv1. cbn. apply app_nil_r.
Qed.

Lemma run_pushes ks e : forall sc s, good s -> covered s ->
  let res := fst (run_ops prm (map (fun k => OPush entry k e) ks) sc s) in
  good res /\ covered res /\ forall k, view res k = view s k ++ hist entry (map (fun k0 => OPush entry k0 e) ks) k.
Proof.
  induction ks as [|k0 ks IH]; intros sc s Hg Hc; cbn [map run_ops fst].
  - repeat split; auto. intros k. cbn. now rewrite app_nil_r.
  - destruct (bg_ok (hd [] sc) s Hg) as [Hg1 Hv1]. pose proof (bg_covered (hd [] sc) s Hc) as Hc1.
    set (s1 := exec (bops (hd [] sc)) s) in *.
    destruct (step_ok s1 (OPush entry k0 e) Hg1 I) as [Hg2 Hv2].
    pose proof (push_covered s1 k0 e Hc1) as Hc2.
    destruct (IH (tl sc) _ Hg2 Hc2) as (Hg3 & Hc3 & Hv3). repeat split; auto.
    intros k. rewrite Hv3, Hv2, Hv1. cbn [hist flat_map]. fold (hist entry (map (fun k1 => OPush entry k1 e) ks) k).
    now rewrite <- app_assoc.
Qed.

Lemma run_ops_app a : forall b sc s,
  run_ops prm (a ++ b) sc s = run_ops prm b (snd (run_ops prm a sc s)) (fst (run_ops prm a sc s)).
Proof. induction a as [|o a IH]; intros b sc s; cbn [app run_ops fst snd]; auto. Qed.

(* the forced hypothesis: whenever the periodic flush runs, purge() drops nothing *)
Fixpoint purge_is_noop (h : list push) (sc : sched) (s : mstate) : Prop :=
  match h with
  | [] => True
  | p :: t =>
    (periodic prm (m_acc _ _ s) (ps_slot p) = true -> purge (pR prm) (m_rank _ _ s) = m_rank _ _ s) /\
    purge_is_noop t (snd (run_ops prm (push_ops prm (m_acc _ _ s) (m_rank _ _ s) p) sc s))
                    (fst (run_ops prm (push_ops prm (m_acc _ _ s) (m_rank _ _ s) p) sc s))
  end.

Lemma victims_not_ranked acc r v : In v (victims prm acc r) -> rank_has r v = false.
Proof.
  unfold victims. intros H. apply filter_In in H. destruct H as [_ H]. unfold victim in H.
  apply andb_true_iff in H. destruct H as [_ H]. now apply negb_true_iff in H.
Qed.

Lemma run_push_sync p sc s : pVia prm = false -> good s -> covered s ->
  (periodic prm (m_acc _ _ s) (ps_slot p) = true -> purge (pR prm) (m_rank _ _ s) = m_rank _ _ s) ->
  let res := fst (run_ops prm (push_ops prm (m_acc _ _ s) (m_rank _ _ s) p) sc s) in
  good res /\ covered res /\
  forall k, view res k = view s k ++ (if existsb (Nat.eqb k) (ps_keys p) then [ps_entry p] else []).
Proof.
  intros Hvia Hg Hc Hpurge. cbv zeta. unfold push_ops. rewrite run_ops_app.
  set (pre := if periodic prm (m_acc _ _ s) (ps_slot p) then _ else []).
  assert (Hpre : good (fst (run_ops prm pre sc s)) /\ covered (fst (run_ops prm pre sc s)) /\
                 forall k, view (fst (run_ops prm pre sc s)) k = view s k).
  { unfold pre. destruct (periodic prm (m_acc _ _ s) (ps_slot p)) eqn:Ep; [|cbn; auto].
    rewrite (Hpurge eq_refl). cbn [run_ops].
    destruct (bg_ok (hd [] sc) s Hg) as [Hg1 Hv1]. pose proof (bg_covered (hd [] sc) s Hc) as Hc1.
    destruct (bg_frame (hd [] sc) s) as [_ Hr1]. set (s1 := exec (bops (hd [] sc)) s) in *.
    set (s2 := step s1 (OPurge entry (pR prm))).
    assert (Hs2 : s2 = s1).
    { unfold s2. cbn [C06_Machine.step]. rewrite Hr1, (Hpurge eq_refl). destruct s1; cbn in *. now rewrite Hr1. }
    rewrite Hs2. replace (map (flush_op prm) (victims prm (m_acc _ _ s) (m_rank _ _ s)))
      with (map (OSFlush entry) (victims prm (m_acc _ _ s) (m_rank _ _ s)))
      by (apply map_ext; intros; unfold flush_op; now rewrite Hvia).
    destruct (run_sync_flushes (victims prm (m_acc _ _ s) (m_rank _ _ s)) (tl sc) s1 (m_rank _ _ s) Hg1 Hc1 Hr1
                (fun v Hv => victims_not_ranked _ _ v Hv)) as (Hg3 & Hc3 & _ & Hv3).
    repeat split; auto. intros k. rewrite Hv3. apply Hv1. }
  destruct Hpre as (Hg1 & Hc1 & Hv1).
  destruct (run_pushes (norm_keys (ps_keys p)) (ps_entry p) (snd (run_ops prm pre sc s)) _ Hg1 Hc1) as (Hg2 & Hc2 & Hv2).
  repeat split; auto. intros k. rewrite Hv2, Hv1. rewrite hist_pushes by apply norm_keys_nodup.
  now rewrite existsb_norm_keys.
Qed.

Lemma run_hist_view_sync h : pVia prm = false -> forall sc s, good s -> covered s -> purge_is_noop h sc s ->
  good (run_hist prm h sc s) /\ forall k, view (run_hist prm h sc s) k = view s k ++ entries_for k h.
Proof.
  intros Hvia. induction h as [|p h IH]; intros sc s Hg Hc Hp; cbn [run_hist entries_for flat_map].
  - destruct (bg_ok (concat sc) s Hg) as [Hg1 Hv1]. split; [exact Hg1|]. intros k. rewrite Hv1. now rewrite app_nil_r.
  - destruct Hp as [Hp1 Hp2].
    destruct (run_push_sync p sc s Hvia Hg Hc Hp1) as (Hg1 & Hc1 & Hv1).
    destruct (run_ops prm (push_ops prm (m_acc _ _ s) (m_rank _ _ s) p) sc s) as [s' sc'] eqn:E. cbn [fst snd] in *.
    destruct (IH sc' s' Hg1 Hc1 Hp2) as [Hg2 Hv2]. split; [exact Hg2|]. intros k.
    rewrite Hv2, Hv1. fold (entries_for k h). now rewrite <- app_assoc.
Qed.

(* C06, machine half, pinned periodic flush (with the repaired Close): every history and schedule along
   which purge() never drops a key *)
Theorem get_all_sync_flush h sc s0 k :
  pVia prm = false -> good s0 -> covered s0 -> purge_is_noop h sc s0 -> view s0 k = [] ->
  sget (m_store _ _ (gsfa_run prm h sc s0)) k = rev (entries_for k h).
Proof.
  intros Hvia Hg Hc Hp Hv0. unfold gsfa_run.
  destruct (run_hist_view_sync h Hvia sc s0 Hg Hc Hp) as [Hg1 Hv1].
  destruct (close_get entry store sflush P sget sinv sinv_flush sget_same sget_other (run_hist prm h sc s0) k Hg1) as [_ Hc'].
  rewrite Hc', Hv1, Hv0. reflexivity.
Qed.

End Laws.

(* Bounded channel: a Push that would overflow fullBufferWriterChan waits until the background goroutine has
   received a batch. Blocking only removes schedules; the theorems above hold for all of them. *)

End Front.
