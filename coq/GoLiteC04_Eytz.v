(* C04 / C05 — the recursive eytzinger layout function of compactindexsized/build.go, translated from the Go source
   on every check, is the model's [Eytz.go] (the function the layout/search theorems of Eytz*.v are about): same
   result index, same output array, no panic — for every input, every partially filled output and every subtree. *)
From Coq Require Import List ZArith NArith String Bool Lia Arith.
Import ListNotations.
Require Import YF.GoLite YF.GoLiteLemmas YF.Generated.GoLiteC04 YF.Eytz YF.Eytz2 YF.Eytz3.
Local Open Scope string_scope.
Local Open Scope Z_scope.
Local Open Scope list_scope.

Lemma set_nth_upd : forall (l : list Z) i x, set_nth l i x = upd Z l i x.
Proof. induction l as [|h t IH]; intros [|i] x; cbn [set_nth upd]; try reflexivity; rewrite IH; reflexivity. Qed.

Definition ey_env (inp out : list Z) (i k : nat) : env :=
  [("in", VInts inp); ("out", VInts out); ("i", VInt (Z.of_nat i)); ("k", VInt (Z.of_nat k))].
Definition ey_ret (r : nat * list Z) : res := RRet (VTuple [VInt (Z.of_nat (fst r)); VInts (snd r)]).

Lemma inorder_S n f k :
  inorder n (S f) k = if (k <=? n)%nat then inorder n f (2 * k) ++ k :: inorder n f (2 * k + 1) else [].
Proof. reflexivity. Qed.

Lemma go_S f (inp out : list Z) i k :
  go Z 0 (S f) inp out i k =
  if (k <=? List.length inp)%nat then
    let '(i1, o1) := go Z 0 f inp out i (2 * k) in
    go Z 0 f inp (upd Z o1 (k - 1) (nth i1 inp 0)) (S i1) (2 * k + 1)
  else (i, out).
Proof. reflexivity. Qed.

(* Everything below holds for ANY translated program that binds these names to these function terms: the
   compactindexsized package, and the deprecated packages wherever their source is textually the same function. *)
Section Generic.
Variable prog : program.
Hypothesis prog_eytzinger : plookup "eytzinger" prog = Some fn_eytzinger.

Lemma ey_body_spec ext : forall f inp out i k,
  (1 <= k)%nat -> List.length out = List.length inp ->
  Z.of_nat (List.length inp) < 2305843009213693952 ->
  (List.length inp < k * 2 ^ f)%nat ->
  (i + List.length (inorder (List.length inp) (S f) k) <= List.length inp)%nat ->
  exec prog ext f (f_body fn_eytzinger) (ey_env inp out i k) = ey_ret (go Z 0 (S f) inp out i k).
Proof.
  induction f as [|f IH]; intros inp out i k Hk Hlen Hn Hfuel Hcount.
  - (* no fuel needed: k is beyond the input *)
    assert (Hgt : (List.length inp < k)%nat) by (cbn in Hfuel; lia).
    unfold fn_eytzinger, ey_env. cbn [f_body]. go_run.
    unfold zlen. rewrite of_nat_leb.
    destruct (Nat.leb_spec k (List.length inp)) as [Hc|_]; [lia|].
    go_run. rewrite go_S. destruct (Nat.leb_spec k (List.length inp)) as [Hc|_]; [lia|]. reflexivity.
  - unfold fn_eytzinger, ey_env. cbn [f_body]. go_run.
    unfold zlen. rewrite of_nat_leb.
    rewrite (go_S (S f)). rewrite inorder_S in Hcount.
    destruct (Nat.leb_spec k (List.length inp)) as [Hle|Hgt].
    + (* the node exists: left subtree, the node, right subtree *)
      set (n := List.length inp) in *.
      set (L := inorder n (S f) (2 * k)) in *.
      rewrite app_length in Hcount. cbn [List.length] in Hcount.
      go_cbn.
      rewrite exec_call_S. go_cbn. rewrite prog_eytzinger.
      rewrite (wrap_i64_small (2 * Z.of_nat k)) by lia.
      replace (2 * Z.of_nat k) with (Z.of_nat (2 * k)) by lia.
      change (bind_params (f_params fn_eytzinger) [VInts inp; VInts out; VInt (Z.of_nat i); VInt (Z.of_nat (2 * k))])
        with (Some (ey_env inp out i (2 * k))).
      cbv beta iota.
      assert (Hpow : (2 ^ S f = 2 * 2 ^ f)%nat) by (cbn; lia).
      rewrite (IH inp out i (2 * k)%nat) by (try assumption; try lia; fold n; fold L; lia).
      fold n.
      pose proof (go_spec Z 0 (S f) inp out i (2 * k)) as Hg1. fold n in Hg1. fold L in Hg1.
      destruct (go Z 0 (S f) inp out i (2 * k)) as [i1 o1] eqn:Hgo1.
      injection Hg1 as Hi1 Ho1.
      assert (Hlen1 : List.length o1 = n).
      { rewrite Ho1. rewrite apply_updates_length. exact Hlen. }
      unfold ey_ret. cbn [fst snd]. go_run.
      (* out[k-1] = in[i1] *)
      rewrite (wrap_i64_small (Z.of_nat k - 1)) by lia.
      unfold zlen. rewrite Hlen1.
      assert (Hb1 : (0 <=? Z.of_nat i1) && (Z.of_nat i1 <? Z.of_nat (List.length inp)) = true).
      { apply andb_true_iff. split; [apply Z.leb_le; lia|apply Z.ltb_lt]. fold n. lia. }
      rewrite Hb1. go_cbn.
      assert (Hb2 : (0 <=? Z.of_nat k - 1) && (Z.of_nat k - 1 <? Z.of_nat n) = true).
      { apply andb_true_iff. split; [apply Z.leb_le; lia|apply Z.ltb_lt; lia]. }
      rewrite Hb2. go_run.
      rewrite (wrap_i64_small (Z.of_nat i1 + 1)) by lia.
      (* second call *)
      rewrite exec_call_S. go_cbn. rewrite prog_eytzinger.
      rewrite (wrap_i64_small (2 * Z.of_nat k)) by lia.
      rewrite (wrap_i64_small (2 * Z.of_nat k + 1)) by lia.
      replace (2 * Z.of_nat k + 1) with (Z.of_nat (2 * k + 1)) by lia.
      replace (Z.of_nat i1 + 1) with (Z.of_nat (S i1)) by lia.
      unfold nth_z. rewrite Nat2Z.id.
      replace (Z.to_nat (Z.of_nat k - 1)) with (k - 1)%nat by lia.
      rewrite set_nth_upd.
      set (o2 := upd Z o1 (k - 1) (nth i1 inp 0)).
      change (bind_params (f_params fn_eytzinger) [VInts inp; VInts o2; VInt (Z.of_nat (S i1)); VInt (Z.of_nat (2 * k + 1))])
        with (Some (ey_env inp o2 (S i1) (2 * k + 1))).
      cbv beta iota.
      assert (Hlen2 : List.length o2 = List.length inp) by (unfold o2; rewrite upd_length; exact Hlen1).
      rewrite (IH inp o2 (S i1) (2 * k + 1)%nat) by (try assumption; try lia; fold n; lia).
      fold n. unfold o2.
      destruct (go Z 0 (S f) inp (upd Z o1 (k - 1) (nth i1 inp 0)) (S i1) (2 * k + 1)) as [i2 o3] eqn:Hgo2.
      unfold ey_ret. cbn [fst snd]. go_run. reflexivity.
    + go_cbn. go_run. reflexivity.
Qed.

(* Go's eytzinger(in, out, 0, 1) on a fresh output array is the model's layout of the whole input *)
Theorem eytzinger_is_go ext f inp out :
  List.length out = List.length inp ->
  Z.of_nat (List.length inp) < 2305843009213693952 ->
  (List.length inp < 2 ^ f)%nat ->
  call prog ext f "eytzinger" [VInts inp; VInts out; VInt 0; VInt 1] = ey_ret (go Z 0 (S f) inp out 0 1).
Proof.
  intros Hlen Hn Hf. unfold call. rewrite prog_eytzinger.
  change (bind_params (f_params fn_eytzinger) [VInts inp; VInts out; VInt 0; VInt 1]) with (Some (ey_env inp out 0 1)).
  cbv beta iota.
  rewrite (ey_body_spec ext f inp out 0 1); [reflexivity|lia|exact Hlen|exact Hn|lia|].
  rewrite inorder_root_length; [lia|].
  apply Nat.lt_le_trans with (2 ^ f)%nat; [exact Hf|]. apply Nat.pow_le_mono_r; lia.
Qed.
End Generic.
