(* C06 — end to end: NewGsfaWriter / Push* / Close / NewGsfaReader.Get.
   The writer program of C06_Front.v is run over the position store and over the byte store of
   C06_Store.v; the two runs are related by the refinement, which gives the byte-level theorem. *)
From Coq Require Import List NArith Lia Arith Bool PeanoNat.
Import ListNotations.
Require Import Gsfa GsfaP GsfaT C06_LinkedLog C06_Machine C06_Store C06_Front.
Local Close Scope N_scope.
Local Open Scope nat_scope.

(* ---------- the writer program over two related stores ---------- *)
Section RunSim.
Variable entry : Type.
Variables store1 store2 : Type.
Variable f1 : store1 -> nat -> list entry -> store1.
Variable f2 : store2 -> nat -> list entry -> store2.
Variable R : store1 -> store2 -> Prop.
Hypothesis R_flush : forall a b k v, R a b -> R (f1 a k v) (f2 b k v).
Variable prm : params.
Notation mrel := (mrel entry store1 store2 R).

Lemma run_ops_rel ops : forall sc s1 s2, mrel s1 s2 ->
  mrel (fst (run_ops entry store1 f1 prm ops sc s1)) (fst (run_ops entry store2 f2 prm ops sc s2)) /\
  snd (run_ops entry store1 f1 prm ops sc s1) = snd (run_ops entry store2 f2 prm ops sc s2).
Proof.
  induction ops as [|o ops IH]; intros sc s1 s2 H; cbn [run_ops fst snd]; [auto|].
  apply IH. apply (step_rel entry store1 store2 f1 f2 (pB prm) (pP prm) R R_flush).
  apply (exec_rel entry store1 store2 f1 f2 (pB prm) (pP prm) R R_flush). exact H.
Qed.

Lemma run_hist_rel h : forall sc s1 s2, mrel s1 s2 ->
  mrel (run_hist entry store1 f1 prm h sc s1) (run_hist entry store2 f2 prm h sc s2).
Proof.
  induction h as [|p h IH]; intros sc s1 s2 H; cbn [run_hist].
  - apply (exec_rel entry store1 store2 f1 f2 (pB prm) (pP prm) R R_flush). exact H.
  - assert (Ea : m_acc _ _ s1 = m_acc _ _ s2) by apply H.
    assert (Er : m_rank _ _ s1 = m_rank _ _ s2) by apply H.
    rewrite Ea, Er.
    destruct (run_ops_rel (push_ops entry prm (m_acc _ _ s2) (m_rank _ _ s2) p) sc s1 s2 H) as [Hm Hs].
    destruct (run_ops entry store1 f1 prm _ sc s1) as [s1' sc1]. destruct (run_ops entry store2 f2 prm _ sc s2) as [s2' sc2].
    cbn [fst snd] in *. subst sc2. apply IH. exact Hm.
Qed.

Lemma gsfa_run_rel h sc s1 s2 : mrel s1 s2 ->
  mrel (gsfa_run entry store1 f1 prm h sc s1) (gsfa_run entry store2 f2 prm h sc s2).
Proof.
  intros H. unfold gsfa_run. apply (close_rel entry store1 store2 f1 f2 (pP prm) R R_flush).
  apply run_hist_rel. exact H.
Qed.
End RunSim.

(* ================= position level (any entry type) ================= *)
Section Pos.
Variable entry : Type.
Notation mstate := (mstate entry (astore entry)).

Definition pos_init : mstate := MS entry (astore entry) [] [] [] [] [] (a_init entry).

(* write the history under the schedule, Close *)
Definition gsfa_pos (prm : params) (h : list (push entry)) (sc : sched) : mstate :=
  gsfa_run entry (astore entry) (aflush entry) prm h sc pos_init.
(* NewGsfaReader.Get on the result (no limit) *)
Definition pos_get (s : mstate) (k : nat) : list entry := aget entry (m_store _ _ s) k.

Lemma pos_init_view k : view entry (astore entry) (aget entry) pos_init k = [].
Proof. reflexivity. Qed.

Theorem pos_get_all prm h sc k : pVia prm = true ->
  pos_get (gsfa_pos prm h sc) k = rev (entries_for entry k h).
Proof.
  intros Hvia. unfold pos_get, gsfa_pos.
  apply (get_all_via_channel entry (astore entry) (aflush entry) (aget entry) (ainv entry)
           (ainv_flush entry) (aget_same entry) (aget_other entry) prm h sc pos_init k Hvia).
  - apply ainv_init.
  - apply pos_init_view.
Qed.

Theorem pos_get_all_sync prm h sc k : pVia prm = false ->
  purge_is_noop entry (astore entry) (aflush entry) prm h sc pos_init ->
  pos_get (gsfa_pos prm h sc) k = rev (entries_for entry k h).
Proof.
  intros Hvia Hp. unfold pos_get, gsfa_pos.
  apply (get_all_sync_flush entry (astore entry) (aflush entry) (aget entry) (ainv entry)
           (ainv_flush entry) (aget_same entry) (aget_other entry) prm h sc pos_init k Hvia).
  - apply ainv_init.
  - intros k0 H. exfalso. apply H. reflexivity.
  - exact Hp.
  - apply pos_init_view.
Qed.

(* the pinned Close orders, for the refutations *)
Definition gsfa_pos_with (cl : mstate -> mstate) (prm : params) (h : list (push entry)) (sc : sched) : mstate :=
  cl (run_hist entry (astore entry) (aflush entry) prm h sc pos_init).
End Pos.

(* ================= byte level ================= *)
Section Bytes.
Variable compress : list N -> list N.
Variable decompress : list N -> option (list N).
Hypothesis decompress_compress : forall x, decompress (compress x) = Some x.
Notation bstate := (mstate entry bstore).

Definition byte_init : bstate := MS entry bstore [] [] [] [] [] b_init.

Definition gsfa_bytes (prm : params) (h : list (push entry)) (sc : sched) : bstate :=
  gsfa_run entry bstore (bflush compress) prm h sc byte_init.
(* NewGsfaReader.Get on the files: None = "pubkey not found" / read error *)
Definition byte_get (fuel : nat) (s : bstate) (k : nat) : option (list entry) :=
  bget decompress fuel (m_store _ _ s) k.

Lemma init_rel : mrel entry bstore (astore entry) (Rb compress) byte_init (pos_init entry).
Proof. unfold mrel. cbn [m_acc m_chan m_parked m_wq m_rank m_store byte_init pos_init]. repeat (split; [reflexivity|]). apply Rb_init. Qed.

Lemma bytes_refine_pos prm h sc :
  Rb compress (m_store _ _ (gsfa_bytes prm h sc)) (m_store _ _ (gsfa_pos entry prm h sc)).
Proof.
  unfold gsfa_bytes, gsfa_pos.
  apply (gsfa_run_rel entry bstore (astore entry) (bflush compress) (aflush entry) (Rb compress)
           (fun a b k v H => Rb_flush compress a b k v H) prm h sc byte_init (pos_init entry) init_rel).
Qed.

(* C06, end to end on bytes *)
Theorem byte_get_all prm h sc : pVia prm = true ->
  Forall (fun p => entry_wf (ps_entry entry p)) h ->
  fits compress (log entry (m_store _ _ (gsfa_pos entry prm h sc))) ->
  forall a, In a (addresses entry h) ->
  forall fuel, length (log entry (m_store _ _ (gsfa_pos entry prm h sc))) <= fuel ->
  byte_get fuel (gsfa_bytes prm h sc) a = Some (rev (entries_for entry a h)).
Proof.
  intros Hvia Hwf Hfits a Ha fuel Hfuel. unfold byte_get.
  pose proof (bytes_refine_pos prm h sc) as HR.
  pose proof (pos_get_all entry prm h sc a Hvia) as Hg. unfold pos_get, aget in Hg.
  rewrite (bget_refines compress decompress decompress_compress _ _ a fuel HR Hfits Hfuel).
  - destruct (heads entry (m_store _ _ (gsfa_pos entry prm h sc)) a) eqn:Eh.
    + now rewrite Hg.
    + exfalso. unfold get in Hg. rewrite Eh in Hg. rewrite walk_none in Hg.
      apply (entries_for_nonempty entry a h Ha). apply (f_equal (@rev entry)) in Hg. rewrite rev_involutive in Hg.
      symmetry. exact Hg.
  - rewrite Hg. apply Forall_rev. unfold entries_for. apply Forall_flat_map. rewrite Forall_forall in Hwf |- *.
    intros p Hp. destruct (existsb _ _); [|constructor]. constructor; [|constructor]. apply Hwf. exact Hp.
Qed.

Theorem byte_get_all_sync prm h sc : pVia prm = false ->
  purge_is_noop entry (astore entry) (aflush entry) prm h sc (pos_init entry) ->
  Forall (fun p => entry_wf (ps_entry entry p)) h ->
  fits compress (log entry (m_store _ _ (gsfa_pos entry prm h sc))) ->
  forall a, In a (addresses entry h) ->
  forall fuel, length (log entry (m_store _ _ (gsfa_pos entry prm h sc))) <= fuel ->
  byte_get fuel (gsfa_bytes prm h sc) a = Some (rev (entries_for entry a h)).
Proof.
  intros Hvia Hp Hwf Hfits a Ha fuel Hfuel. unfold byte_get.
  pose proof (bytes_refine_pos prm h sc) as HR.
  pose proof (pos_get_all_sync entry prm h sc a Hvia Hp) as Hg. unfold pos_get, aget in Hg.
  rewrite (bget_refines compress decompress decompress_compress _ _ a fuel HR Hfits Hfuel).
  - destruct (heads entry (m_store _ _ (gsfa_pos entry prm h sc)) a) eqn:Eh.
    + now rewrite Hg.
    + exfalso. unfold get in Hg. rewrite Eh in Hg. rewrite walk_none in Hg.
      apply (entries_for_nonempty entry a h Ha). apply (f_equal (@rev entry)) in Hg. rewrite rev_involutive in Hg.
      symmetry. exact Hg.
  - rewrite Hg. apply Forall_rev. unfold entries_for. apply Forall_flat_map. rewrite Forall_forall in Hwf |- *.
    intros p Hp'. destruct (existsb _ _); [|constructor]. constructor; [|constructor]. apply Hwf. exact Hp'.
Qed.

End Bytes.
