(* C14: the writer layout of the schema comment in ledger.ipldsch
     frame i carries index i, total n, the hash of the whole payload, chunk i, and - when i is a
     multiple of the fan-out k - links to the next (up to k) frames i+1 .. min(i+k, n-1)
   (10 frames, fan-out 5:  0 -> 1..5,  5 -> 6..9), and the theorems about it:
   round trip for every payload / chunking / frame count / fan-out / CID assignment / store content and
   order, and rejection of single-frame faults (frame missing from the store, link dropped, link duplicated). *)
From Coq Require Import List Arith Lia Bool PeanoNat NArith ZArith Sorting.Sorted Sorting.Permutation.
Import ListNotations.
Require Import C14_Hash C14_Frames C14_Term.

(* splitting a payload into nf chunks of sz bytes (the last one takes the rest) *)
Fixpoint chunk (sz nf : nat) (d : list N) : list (list N) :=
  match nf with
  | O => []
  | S O => [d]
  | S nf' => firstn sz d :: chunk sz nf' (skipn sz d)
  end.
Lemma chunk_length sz nf d : length (chunk sz nf d) = nf.
Proof.
  revert d. induction nf as [|nf IH]; intros d; [reflexivity|]. destruct nf as [|nf']; [reflexivity|].
  change (length (firstn sz d :: chunk sz (S nf') (skipn sz d)) = S (S nf')). cbn [length]. now rewrite IH.
Qed.
Lemma chunk_concat sz nf d : 1 <= nf -> concat (chunk sz nf d) = d.
Proof.
  revert d. induction nf as [|nf IH]; intros d H; [lia|]. destruct nf as [|nf']; [cbn; apply app_nil_r|].
  change (concat (firstn sz d :: chunk sz (S nf') (skipn sz d)) = d). cbn [concat].
  rewrite IH by lia. apply firstn_skipn.
Qed.
(* nframes chunks of equal size ceil(len/nframes) *)
Definition chunk_even (nf : nat) (d : list N) : list (list N) := chunk ((length d + nf - 1) / nf) nf d.

Lemma flat_map_map {A B C} (g : A -> B) (f : B -> list C) l : flat_map f (map g l) = flat_map (fun x => f (g x)) l.
Proof. induction l; cbn; congruence. Qed.
Lemma map_nth_seq {A} (l : list A) d : map (fun i => nth i l d) (seq 0 (length l)) = l.
Proof.
  induction l as [|a l IH]; [reflexivity|]. cbn [length seq map nth]. f_equal.
  rewrite <- seq_shift, map_map. exact IH.
Qed.

Section Layout.
  Variable srt : list frame -> list frame.
  Hypothesis srt_perm : forall l, Permutation (srt l) l.
  Hypothesis srt_sorted : forall l, fsorted (srt l).

  Variable cidof : nat -> cid.          (* the CID of frame i (frame 0 is embedded in its parent node) *)
  Variable chunks : list (list N).      (* any chunking of the payload *)
  Variable k : nat.                     (* fan-out *)
  Variable hsh : option N.              (* recorded checksum, if any *)
  Let n := length chunks.
  Hypothesis Hk : 1 <= k.
  Hypothesis Hn : 1 <= n.
  Hypothesis cid_inj : forall i j, i < n -> j < n -> cidof i = cidof j -> i = j.

  Definition wlinks (i : nat) : list cid :=
    if (i mod k =? 0)%nat then map cidof (seq (S i) (Nat.min k (n - 1 - i))) else [].
  Definition wframe (i : nat) : frame :=
    mkF hsh (Some (Z.of_nat i)) (Some (Z.of_nat n)) (nth i chunks []) (wlinks i).
  Definition wstore : list (cid * frame) := map (fun i => (cidof i, wframe i)) (seq 1 (n - 1)).
  Definition store_has (st : cid -> option frame) : Prop :=
    forall i, 1 <= i < n -> st (cidof i) = Some (wframe i).

  (* ---------- arithmetic of the layout ---------- *)
  Lemma in_wlinks i c : In c (wlinks i) <->
    i mod k = 0 /\ exists j, c = cidof j /\ i < j /\ j <= i + k /\ j <= n - 1.
  Proof.
    unfold wlinks. destruct (Nat.eqb_spec (i mod k) 0) as [E|E].
    - rewrite in_map_iff. split.
      + intros [j [<- Hj]]. apply in_seq in Hj. split; [exact E|]. exists j. repeat split; lia.
      + intros [_ [j [-> Hj]]]. exists j. split; [reflexivity|]. apply in_seq. lia.
    - split; [intros []|intros [E' _]; congruence].
  Qed.
  Lemma parent_ex j : 1 <= j -> exists p, p mod k = 0 /\ p < j /\ j <= p + k.
  Proof.
    intros Hj. exists (k * ((j - 1) / k)).
    pose proof (Nat.div_mod (j - 1) k ltac:(lia)) as D.
    pose proof (Nat.mod_upper_bound (j - 1) k ltac:(lia)) as U.
    split; [rewrite Nat.mul_comm; apply Nat.mod_mul; lia|]. lia.
  Qed.
  Lemma parent_unique i i' j : i mod k = 0 -> i' mod k = 0 ->
    i < j -> j <= i + k -> i' < j -> j <= i' + k -> i = i'.
  Proof.
    intros E E' H1 H2 H3 H4.
    apply Nat.div_exact in E; [|lia]. apply Nat.div_exact in E'; [|lia].
    remember (i / k) as a. remember (i' / k) as b.
    assert (a = b) by nia. subst. congruence.
  Qed.
  Lemma leaf_mod i j : i mod k = 0 -> i < j -> j < i + k -> j mod k <> 0.
  Proof.
    intros E H1 H2. apply Nat.div_exact in E; [|lia].
    replace j with ((j - i) + (i / k) * k) by nia. rewrite Nat.mod_add by lia.
    rewrite Nat.mod_small by lia. lia.
  Qed.
  Lemma head_mod i : i mod k = 0 -> (i + k) mod k = 0.
  Proof. intros E. replace (i + k) with (i + 1 * k) by lia. rewrite Nat.mod_add by lia. exact E. Qed.

  (* ---------- the link tree of the layout ---------- *)
  Fixpoint wtree (fuel i : nat) : ltree :=
    match fuel with
    | O => LNode (wframe i) []
    | S f => LNode (wframe i)
               (if (i mod k =? 0)%nat
                then map (fun j => (cidof j, wtree f j)) (seq (S i) (Nat.min k (n - 1 - i))) else [])
    end.
  Lemma root_wtree f i : root (wtree f i) = wframe i.
  Proof. destruct f; reflexivity. Qed.

  Lemma wtree_realises st : store_has st -> forall f i, n - 1 - i <= f -> realises st (wtree f i).
  Proof.
    intros Hst. induction f as [|f IH]; intros i Hf.
    - cbn [wtree]. constructor; [|intros c s []]. cbn [f_next wframe]. unfold wlinks.
      replace (Nat.min k (n - 1 - i)) with 0 by lia. cbn. destruct (i mod k =? 0)%nat; reflexivity.
    - cbn [wtree]. constructor.
      + cbn [f_next wframe]. unfold wlinks. destruct (i mod k =? 0)%nat; [|reflexivity].
        rewrite map_map. reflexivity.
      + intros c s Hin. destruct (i mod k =? 0)%nat; [|destruct Hin].
        apply in_map_iff in Hin. destruct Hin as [j [Hj Hjs]]. inversion Hj; subst c s.
        apply in_seq in Hjs. rewrite root_wtree. split; [apply Hst; lia|apply IH; lia].
  Qed.
  Lemma wtree_depth f i : tdepth (wtree f i) <= S f.
  Proof.
    revert i. induction f as [|f IH]; intros i; [cbn; lia|]. cbn [wtree tdepth].
    apply le_n_S. destruct (i mod k =? 0)%nat; [|cbn; lia].
    induction (seq (S i) (Nat.min k (n - 1 - i))) as [|j l IHl]; cbn; [lia|].
    pose proof (IH j). lia.
  Qed.

  Definition wp (j : nat) : cid * frame := (cidof j, wframe j).

  Lemma wtree_pairs : forall f i, n - 1 - i <= f ->
    tpairs (wtree f i) = if (i mod k =? 0)%nat then map wp (seq (S i) (n - 1 - i)) else [].
  Proof.
    induction f as [|f IH]; intros i Hf.
    - cbn. replace (n - 1 - i) with 0 by lia. cbn. destruct (i mod k =? 0)%nat; reflexivity.
    - cbn [wtree tpairs]. destruct (Nat.eqb_spec (i mod k) 0) as [E|E]; [|reflexivity].
      rewrite flat_map_map. cbn [fst snd].
      assert (Leaves : forall l, (forall j, In j l -> i < j /\ j < i + k) ->
                flat_map (fun j => (cidof j, root (wtree f j)) :: tpairs (wtree f j)) l = map wp l).
      { induction l as [|j l IHl]; intros Hl; [reflexivity|]. cbn [flat_map map].
        rewrite IHl by (intros x Hx; apply Hl; now right).
        destruct (Hl j (or_introl eq_refl)) as [H1 H2].
        rewrite root_wtree, IH by lia.
        pose proof (leaf_mod i j E H1 H2) as Hm. apply Nat.eqb_neq in Hm. rewrite Hm. reflexivity. }
      destruct (Nat.lt_ge_cases (n - 1 - i) k) as [Hlt|Hge].
      + replace (Nat.min k (n - 1 - i)) with (n - 1 - i) by lia.
        apply Leaves. intros j Hj. apply in_seq in Hj. lia.
      + replace (Nat.min k (n - 1 - i)) with ((k - 1) + 1) by lia.
        replace (n - 1 - i) with ((k - 1) + (n - i - k)) by lia.
        rewrite !seq_app, flat_map_app, map_app. f_equal.
        * apply Leaves. intros j Hj. apply in_seq in Hj. lia.
        * replace (S i + (k - 1)) with (i + k) by lia. cbn [seq flat_map]. rewrite app_nil_r.
          rewrite root_wtree, IH by lia. rewrite (proj2 (Nat.eqb_eq _ _) (head_mod i E)).
          replace (n - i - k) with (S (n - 1 - (i + k))) by lia. reflexivity.
  Qed.

  Definition ideal : list frame := map wframe (seq 0 n).

  Lemma wtree_flat : tflat (wtree (n - 1) 0) = ideal.
  Proof.
    unfold tflat. rewrite root_wtree, wtree_pairs by lia.
    rewrite Nat.mod_0_l by lia. cbn [Nat.eqb]. unfold ideal.
    replace (n - 1 - 0) with (n - 1) by lia.
    replace (seq 0 n) with (0 :: seq 1 (n - 1)) by (replace n with (S (n - 1)) at 2 by lia; reflexivity).
    cbn [map]. f_equal. rewrite map_map. reflexivity.
  Qed.
  Lemma wtree_cids : tcids (wtree (n - 1) 0) = map cidof (seq 1 (n - 1)).
  Proof.
    unfold tcids. rewrite wtree_pairs by lia. rewrite Nat.mod_0_l by lia. cbn [Nat.eqb].
    replace (n - 1 - 0) with (n - 1) by lia. rewrite map_map. reflexivity.
  Qed.
  Lemma cids_nodup : NoDup (map cidof (seq 1 (n - 1))).
  Proof.
    assert (G : forall l, NoDup l -> (forall x, In x l -> x < n) -> NoDup (map cidof l)).
    { induction l as [|a l IH]; intros Hnd Hl; cbn; [constructor|]. inversion Hnd; subst. constructor.
      - intros Hin. apply in_map_iff in Hin. destruct Hin as [b [Hb Hbl]].
        apply cid_inj in Hb; [subst; tauto| |]; apply Hl; [now right|now left].
      - apply IH; auto. intros x Hx. apply Hl. now right. }
    apply G; [apply seq_NoDup|]. intros x Hx. apply in_seq in Hx. lia.
  Qed.
  Lemma ideal_chunks : is_chunk_frames ideal chunks.
  Proof.
    unfold is_chunk_frames, ideal. repeat split.
    - rewrite map_map. reflexivity.
    - rewrite map_map. cbn [f_data wframe]. apply map_nth_seq.
    - apply Forall_forall. intros f Hf. apply in_map_iff in Hf. destruct Hf as [i [<- _]]. discriminate.
  Qed.

  (* ---------- round trip ---------- *)
  Definition hash_recorded_ok : Prop :=
    match hsh with None => True | Some h => crc64 (concat chunks) = h \/ fnv1a (concat chunks) = h end.

  Theorem layout_roundtrip st fuel : store_has st -> hash_recorded_ok -> n <= fuel ->
    load srt st fuel (wframe 0) = Ok (concat chunks).
  Proof.
    intros Hst Hh Hf.
    pose proof (wtree_realises st Hst (n - 1) 0 ltac:(lia)) as Hr.
    destruct (collect_tree srt st (tsize (wtree (n - 1) 0)) (wtree (n - 1) 0) (le_n _) Hr fuel [])
      as [s [E _]].
    - pose proof (wtree_depth (n - 1) 0). lia.
    - rewrite wtree_cids. apply cids_nodup.
    - intros x _ [].
    - rewrite root_wtree in E. unfold load. rewrite E.
      destruct (reassemble_tree srt srt_perm srt_sorted (wtree (n - 1) 0) ideal chunks ideal_chunks)
        as [Hc [Hp Hl]]; [rewrite wtree_flat; reflexivity|].
      cbn [f_total wframe]. rewrite Hl. fold n. rewrite Z.eqb_refl.
      unfold finish. rewrite Hp. cbn [f_hash wframe]. unfold hash_recorded_ok in Hh.
      destruct hsh as [h|]; [|reflexivity].
      apply verify_hash_spec in Hh. rewrite Hh. reflexivity.
  Qed.

  (* finite stores: any association list that contains the frames (any order, any extra entries) *)
  Theorem layout_roundtrip_auto sl : store_has (lookup sl) -> hash_recorded_ok ->
    load_auto srt sl (wframe 0) = Ok (concat chunks).
  Proof.
    intros Hst Hh. unfold load_auto. apply layout_roundtrip; auto.
    assert (L : length (map cidof (seq 1 (n - 1))) <= length (map fst sl)).
    { apply NoDup_incl_length; [apply cids_nodup|]. intros c Hc. apply in_map_iff in Hc.
      destruct Hc as [i [<- Hi]]. apply in_seq in Hi. specialize (Hst i ltac:(lia)).
      apply lookup_in in Hst. change (cidof i) with (fst (cidof i, wframe i)). now apply in_map. }
    rewrite !map_length, seq_length in L. lia.
  Qed.
  Lemma wstore_has : store_has (lookup wstore).
  Proof.
    intros i Hi. apply in_lookup.
    - unfold wstore. rewrite map_map. cbn [fst]. apply cids_nodup.
    - unfold wstore. apply in_map_iff. exists i. split; [reflexivity|]. apply in_seq. lia.
  Qed.

  (* ---------- single-frame faults ---------- *)
  (* every frame j >= 1 is reachable from frame 0 as soon as the frames before it are in the store *)
  Lemma layout_reach st : forall j, 1 <= j < n ->
    (forall i, 1 <= i < j -> st (cidof i) = Some (wframe i)) -> reach st (wframe 0) (cidof j).
  Proof.
    induction j as [j IH] using lt_wf_ind. intros Hj Hst.
    destruct (parent_ex j ltac:(lia)) as [p [Ep [H1 H2]]].
    assert (Hin : In (cidof j) (wlinks p)).
    { apply in_wlinks. split; [exact Ep|]. exists j. repeat split; lia. }
    destruct (Nat.eq_dec p 0) as [->|Hp].
    - apply reach_link. exact Hin.
    - eapply reach_step; [apply (IH p); [lia|lia|intros i Hi; apply Hst; lia]|apply Hst; lia|exact Hin].
  Qed.

  (* (1) frame j is missing from the store *)
  Theorem layout_missing_rejected st fuel j : 1 <= j < n ->
    (forall i, 1 <= i < n -> i <> j -> st (cidof i) = Some (wframe i)) -> st (cidof j) = None ->
    forall d, load srt st fuel (wframe 0) <> Ok d.
  Proof.
    intros Hj Hst Hnone. apply (missing_rejected srt st srt_perm srt_sorted fuel (wframe 0) (cidof j)); [|exact Hnone].
    apply layout_reach; [exact Hj|]. intros i Hi. apply Hst; lia.
  Qed.

  (* (2) frame p (the first frame when p = 0) lists some CID twice, e.g. a link was duplicated *)
  Theorem layout_dup_link_rejected st fuel p g f0 : p < n -> ~ NoDup (f_next g) ->
    (forall i, 1 <= i < p -> st (cidof i) = Some (wframe i)) ->
    (p = 0 -> f0 = g) -> (1 <= p -> f0 = wframe 0 /\ st (cidof p) = Some g) ->
    forall d, load srt st fuel f0 <> Ok d.
  Proof.
    intros Hp Hnd Hst H0 H1. apply (dup_link_rejected srt st srt_perm srt_sorted fuel f0 g); [|exact Hnd].
    destruct (Nat.eq_dec p 0) as [->|Hp0]; [left; symmetry; auto|right].
    destruct (H1 ltac:(lia)) as [-> Hg]. exists (cidof p). split; [|exact Hg].
    apply layout_reach; [lia|exact Hst].
  Qed.

  (* (3) the link to frame j was dropped from its parent p: with `total` present the count check fails.
     g = frame p without the link; everything else is as written. *)
  Lemma reach_closed st f0 (S : cid -> Prop) :
    (forall c, In c (f_next f0) -> S c) ->
    (forall c g c', S c -> st c = Some g -> In c' (f_next g) -> S c') ->
    forall c, reach st f0 c -> S c.
  Proof. intros H0 Hs c Hr. induction Hr; eauto. Qed.

  Theorem layout_drop_link_rejected st fuel p j g f0 :
    p < n -> 1 <= j < n -> In (cidof j) (wlinks p) ->
    g = mkF hsh (Some (Z.of_nat p)) (Some (Z.of_nat n)) (nth p chunks []) (remove N.eq_dec (cidof j) (wlinks p)) ->
    (forall i, 1 <= i < n -> i <> p -> st (cidof i) = Some (wframe i)) ->
    (p = 0 -> f0 = g) -> (1 <= p -> f0 = wframe 0 /\ st (cidof p) = Some g) ->
    forall d, load srt st fuel f0 <> Ok d.
  Proof.
    intros Hp Hj Hin Hg Hst H0 H1 d H.
    destruct (count_char srt st srt_perm srt_sorted fuel f0 d (Z.of_nat n) H) as [new [Nd [Hnew Hlen]]].
    { destruct (Nat.eq_dec p 0) as [->|Hp0]; [rewrite (H0 eq_refl), Hg; reflexivity|].
      destruct (H1 ltac:(lia)) as [-> _]. reflexivity. }
    apply in_wlinks in Hin. destruct Hin as [Ep [j' [Hjj [Hj1 [Hj2 Hj3]]]]].
    apply cid_inj in Hjj; [subst j'|lia|lia].
    set (S := fun c => exists i, 1 <= i < n /\ i <> j /\ c = cidof i).
    (* links of an untouched frame i <> p stay inside S; so do those of g *)
    assert (Sw : forall i c, i <> p -> In c (wlinks i) -> S c).
    { intros i c Hip Hc. apply in_wlinks in Hc. destruct Hc as [Ei [x [-> [Hx1 [Hx2 Hx3]]]]].
      exists x. repeat split; try lia. intros ->. apply Hip.
      apply (parent_unique i p j); auto. }
    assert (Sg : forall c, In c (f_next g) -> S c).
    { intros c Hc. rewrite Hg in Hc. cbn [f_next] in Hc. apply in_remove in Hc. destruct Hc as [Hc Hne].
      apply in_wlinks in Hc. destruct Hc as [_ [x [-> [Hx1 [Hx2 Hx3]]]]].
      exists x. repeat split; try lia. intros ->. congruence. }
    assert (Hsub : forall c, reach st f0 c -> S c).
    { apply reach_closed.
      - destruct (Nat.eq_dec p 0) as [->|Hp0]; [rewrite (H0 eq_refl); exact Sg|].
        destruct (H1 ltac:(lia)) as [-> _]. cbn [f_next wframe]. intros c Hc. apply (Sw 0 c); [lia|exact Hc].
      - intros c g' c' [i [Hi [Hij ->]]] Hg' Hc'. destruct (Nat.eq_dec i p) as [->|Hip].
        + destruct (H1 ltac:(lia)) as [_ Hpg]. rewrite Hpg in Hg'. inversion Hg'; subst g'. apply Sg. exact Hc'.
        + rewrite (Hst i Hi Hip) in Hg'. inversion Hg'; subst g'. apply (Sw i); auto. }
    assert (Hincl : incl new (map cidof (remove Nat.eq_dec j (seq 1 (n - 1))))).
    { intros c Hc. apply Hnew, Hsub in Hc. destruct Hc as [i [Hi [Hij ->]]].
      apply in_map. apply in_in_remove; [exact Hij|]. apply in_seq. lia. }
    apply NoDup_incl_length in Hincl; [|exact Nd]. rewrite map_length in Hincl.
    assert (Hrm : length (remove Nat.eq_dec j (seq 1 (n - 1))) < n - 1).
    { pose proof (remove_length_lt Nat.eq_dec (seq 1 (n - 1)) j) as R. rewrite seq_length in R.
      apply R. apply in_seq. lia. }
    lia.
  Qed.

End Layout.
