(* C06 — the entry codec of gsfa/linkedlog (offset-size-slot.go, bitmap.go), translated from the Go source on every
   check (Generated/GoLiteC06.v), is the codec of the model C06_LinkedLog.v:
     (OffsetAndSizeAndSlot).Bytes  = entry_enc          (three uvarints and the flags byte)
     (uvarintReader).ReadUvarint   = rd_uv              (io.EOF at the end, parse failure, or value + new position)
     (uvarintReader).ReadByte      = next byte or io.EOF
     (Bitmap).Get / Set            = testbit / set or clear one bit of a byte (panic outside 0..7)
   encoding/binary's AppendUvarint / Uvarint / PutUvarint and slices.Clip are the oracle [std_ext] below: they are
   what Codec.uvarint / Codec.uvarint_dec model (their round trip is Codec.uvarint_roundtrip). *)
From Coq Require Import List ZArith NArith String Bool Lia.
Import ListNotations.
Require Import YF.GoLite YF.GoLiteLemmas YF.Generated.GoLiteC06 YF.Codec YF.C06_LinkedLog.
Local Open Scope string_scope.
Local Open Scope Z_scope.
Local Open Scope list_scope.

Definition zs (l : list N) : list Z := map Z.of_N l.
Definition ns (l : list Z) : list N := map Z.to_N l.

Lemma ns_zs l : ns (zs l) = l.
Proof. unfold ns, zs. rewrite map_map. rewrite <- (map_id l) at 2. apply map_ext. intros a. apply N2Z.id. Qed.
Lemma zs_app a b : zs (a ++ b) = zs a ++ zs b.
Proof. apply map_app. Qed.
Lemma zlen_zs l : zlen (zs l) = Z.of_nat (List.length l).
Proof. unfold zlen, zs. rewrite map_length. reflexivity. Qed.
Lemma skipn_zs n l : skipn n (zs l) = zs (skipn n l).
Proof. unfold zs. apply skipn_map. Qed.
Lemma slice_z_tail l p : 0 <= p <= Z.of_nat (List.length l) ->
  slice_z (zs l) p (zlen (zs l)) = zs (skipn (Z.to_nat p) l).
Proof.
  intros Hp. unfold slice_z. rewrite skipn_zs. rewrite zlen_zs.
  apply firstn_all2. unfold zs. rewrite map_length, skipn_length. lia.
Qed.

(* encoding/binary and slices, as the model sees them.  binary.Uvarint reports failure by n <= 0 (0: buffer too
   small, negative: overflow); the callers test only n <= 0, the oracle answers 0 *)
Definition std_ext : string -> list val -> option val := fun f args =>
  match f, args with
  | "binary.AppendUvarint", [VInts buf; VInt x] => Some (VInts (buf ++ zs (uvarint (Z.to_N x))))
  | "binary.Uvarint", [VInts buf] =>
      match uvarint_dec (ns buf) with
      | Some (v, n) => Some (VTuple [VInt (Z.of_N v); VInt (Z.of_nat n)])
      | None => Some (VTuple [VInt 0; VInt 0])
      end
  | "slices.Clip", [VInts buf] => Some (VInts buf)
  | "binary.PutUvarint", [VInts buf; VInt x] =>      (* panics in Go when buf is too short: not answered here *)
      let enc := zs (uvarint (Z.to_N x)) in
      if (List.length enc <=? List.length buf)%nat
      then Some (VTuple [VInt (Z.of_nat (List.length enc)); VInts (blit buf O enc)]) else None
  | _, _ => None
  end.

Lemma uv_dec_bounds : forall l i acc sh v n, uv_dec i acc sh l = Some (v, n) -> (i < n <= i + List.length l)%nat.
Proof.
  induction l as [|b r IH]; intros i acc sh v n H; cbn [uv_dec] in H; [discriminate|].
  destruct (Nat.eqb i 10); [discriminate|].
  destruct (b <? 128)%N.
  - destruct (Nat.eqb i 9 && (1 <? b)%N); [discriminate|]. injection H as _ <-. cbn [List.length]. lia.
  - apply IH in H. cbn [List.length]. lia.
Qed.

Section Generic.
Variable prog : program.
Hypothesis prog_Bitmap_Get : plookup "Bitmap.Get" prog = Some fn_Bitmap_Get.
Hypothesis prog_Bitmap_Set : plookup "Bitmap.Set" prog = Some fn_Bitmap_Set.
Hypothesis prog_Bytes : plookup "OffsetAndSizeAndSlot.Bytes" prog = Some fn_OffsetAndSizeAndSlot_Bytes.
Hypothesis prog_ReadUvarint : plookup "uvarintReader.ReadUvarint" prog = Some fn_uvarintReader_ReadUvarint.
Hypothesis prog_ReadByte : plookup "uvarintReader.ReadByte" prog = Some fn_uvarintReader_ReadByte.
Hypothesis prog_encodeUvarint : plookup "encodeUvarint" prog = Some fn_encodeUvarint.

(* ------------------------------------------------------------------ Bytes *)
Definition oas_val (e : entry) : val :=
  let '(o, s, sl, fl) := e in
  VStruct [("Offset", VInt (Z.of_N o)); ("Size", VInt (Z.of_N s)); ("Slot", VInt (Z.of_N sl)); ("Flags", VInt (Z.of_N fl))].

Theorem Bytes_is_entry_enc fuel (e : entry) : (snd e < 256)%N ->
  call prog std_ext fuel "OffsetAndSizeAndSlot.Bytes" [oas_val e] = RRet (VInts (zs (entry_enc e))).
Proof.
  destruct e as [[[o s] sl] fl]. cbn [snd]. intros Hfl.
  unfold call. rewrite prog_Bytes. unfold fn_OffsetAndSizeAndSlot_Bytes, oas_val.
  cbn [f_params f_body bind_params]. go_run.
  unfold std_ext at 1. go_run. unfold std_ext at 1. go_run. unfold std_ext at 1. go_run.
  unfold std_ext at 1. go_run.
  rewrite !N2Z.id. cbn [app].
  assert (Hw : wrap U8 (Z.of_N fl) = Z.of_N fl).
  { apply wrap_unsigned_id; [reflexivity|]. cbn. lia. }
  rewrite Hw. unfold entry_enc. rewrite !zs_app. rewrite <- !app_assoc. reflexivity.
Qed.

(* ------------------------------------------------------------------ uvarintReader *)
Definition rdr_val (pos : nat) (bs : list N) : val := VStruct [("pos", VInt (Z.of_nat pos)); ("buf", VInts (zs bs))].

Theorem ReadUvarint_is_rd_uv_ext (ext : string -> list val -> option val)
  (Huv : forall buf, ext "binary.Uvarint" [VInts buf] = std_ext "binary.Uvarint" [VInts buf])
  fuel pos (bs : list N) : Z.of_nat (List.length bs) < 4611686018427387904 ->
  call prog ext fuel "uvarintReader.ReadUvarint" [rdr_val pos bs] =
  match rd_uv (skipn pos bs) with
  | Some None => RRet (VTuple [VInt 0; VErr "io.EOF"; rdr_val pos bs])
  | None => RRet (VTuple [VInt 0; VErr "errors.New"; rdr_val pos bs])
  | Some (Some (v, _)) =>
      match uvarint_dec (skipn pos bs) with
      | Some (_, n) => RRet (VTuple [VInt (Z.of_N v); VNil; rdr_val (pos + n) bs])
      | None => RStuck
      end
  end.
Proof.
  intros Hlen.
  unfold call. rewrite prog_ReadUvarint. unfold fn_uvarintReader_ReadUvarint, rdr_val.
  cbn [f_params f_body bind_params]. go_run. rewrite zlen_zs. rewrite of_nat_leb.
  destruct (Nat.leb_spec (List.length bs) pos) as [Hge|Hlt].
  - (* at the end *)
    rewrite skipn_all2 by exact Hge. cbn [rd_uv]. go_run. reflexivity.
  - cbn [of_eres]. go_run. rewrite zlen_zs.
    assert (Hb : (0 <=? Z.of_nat pos) && (Z.of_nat pos <=? Z.of_nat (List.length bs)) && (Z.of_nat (List.length bs) <=? Z.of_nat (List.length bs)) = true).
    { rewrite !andb_true_iff. repeat split; apply Z.leb_le; lia. }
    rewrite Hb. go_cbn.
    rewrite <- (zlen_zs bs). rewrite slice_z_tail by lia. rewrite Nat2Z.id.
    rewrite Huv. unfold std_ext at 1. rewrite ns_zs.
    assert (Hne : skipn pos bs <> []).
    { intros E. apply (f_equal (@List.length N)) in E. rewrite skipn_length in E. cbn in E. lia. }
    unfold rd_uv. destruct (skipn pos bs) as [|b0 r0] eqn:Hs; [contradiction|].
    destruct (uvarint_dec (b0 :: r0)) as [[v n]|] eqn:Hd.
    + go_run.
      pose proof (uv_dec_bounds _ _ _ _ _ _ Hd) as [Hn Hnb]. cbn [Nat.add] in Hnb.
      destruct (Z.leb_spec (Z.of_nat n) 0) as [Hc|_]; [lia|].
      go_run.
      assert (Hsl : List.length (b0 :: r0) = (List.length bs - pos)%nat) by (rewrite <- Hs; apply skipn_length).
      rewrite wrap_i64_small by lia.
      replace (Z.of_nat pos + Z.of_nat n) with (Z.of_nat (pos + n)) by lia. reflexivity.
    + go_run. reflexivity.
Qed.

Definition ReadUvarint_is_rd_uv := ReadUvarint_is_rd_uv_ext std_ext (fun _ => eq_refl).

Theorem ReadByte_spec_ext (ext : string -> list val -> option val) fuel pos (bs : list N) : Z.of_nat (List.length bs) < 4611686018427387904 ->
  call prog ext fuel "uvarintReader.ReadByte" [rdr_val pos bs] =
  match nth_error bs pos with
  | None => RRet (VTuple [VInt 0; VErr "io.EOF"; rdr_val pos bs])
  | Some b => RRet (VTuple [VInt (Z.of_N b); VNil; rdr_val (S pos) bs])
  end.
Proof.
  intros Hlen.
  unfold call. rewrite prog_ReadByte. unfold fn_uvarintReader_ReadByte, rdr_val.
  cbn [f_params f_body bind_params]. go_run. rewrite zlen_zs. rewrite of_nat_leb.
  destruct (Nat.leb_spec (List.length bs) pos) as [Hge|Hlt].
  - assert (E : nth_error bs pos = None) by (apply nth_error_None; exact Hge). rewrite E. go_run. reflexivity.
  - cbn [of_eres]. go_run. rewrite zlen_zs.
    assert (Hb : (0 <=? Z.of_nat pos) && (Z.of_nat pos <? Z.of_nat (List.length bs)) = true).
    { rewrite andb_true_iff. split; [apply Z.leb_le|apply Z.ltb_lt]; lia. }
    rewrite Hb. go_run. rewrite wrap_i64_small by lia.
    destruct (nth_error bs pos) as [b|] eqn:E; [|apply nth_error_None in E; lia].
    unfold nth_z. rewrite Nat2Z.id. unfold zs.
    rewrite (nth_indep _ 0 (Z.of_N 0)) by (rewrite map_length; exact Hlt).
    rewrite map_nth. rewrite (nth_error_nth bs pos 0%N E).
    replace (Z.of_nat pos + 1) with (Z.of_nat (S pos)) by lia. reflexivity.
Qed.
Definition ReadByte_spec := ReadByte_spec_ext std_ext.


(* ------------------------------------------------------------------ Bitmap *)
(* one byte, eight bit positions: decided by running all 2048 cases in the kernel, then lifted *)
Definition get_formula (b i : Z) : bool := negb (wrap U8 (Z.land b (wrap U8 (1 * 2 ^ i))) =? 0).
Definition set_formula (b i : Z) (v : bool) : Z :=
  if v then wrap U8 (Z.lor b (wrap U8 (1 * 2 ^ i))) else wrap U8 (Z.land b (wrap U8 (- wrap U8 (1 * 2 ^ i) - 1))).
Definition bit_sweep : bool :=
  forallb (fun b => forallb (fun i =>
      Bool.eqb (get_formula (Z.of_nat b) (Z.of_nat i)) (N.testbit (N.of_nat b) (N.of_nat i)) &&
      (set_formula (Z.of_nat b) (Z.of_nat i) true =? Z.of_N (N.setbit (N.of_nat b) (N.of_nat i))) &&
      (set_formula (Z.of_nat b) (Z.of_nat i) false =? Z.of_N (N.clearbit (N.of_nat b) (N.of_nat i))))
    (seq 0 8)) (seq 0 256).
Lemma bit_sweep_ok : bit_sweep = true.
Proof. vm_compute. reflexivity. Qed.
Lemma bit_facts (b : N) (i : Z) : (b < 256)%N -> 0 <= i < 8 ->
  get_formula (Z.of_N b) i = N.testbit b (Z.to_N i) /\
  set_formula (Z.of_N b) i true = Z.of_N (N.setbit b (Z.to_N i)) /\
  set_formula (Z.of_N b) i false = Z.of_N (N.clearbit b (Z.to_N i)).
Proof.
  intros Hb Hi. pose proof bit_sweep_ok as H. unfold bit_sweep in H.
  rewrite forallb_forall in H. specialize (H (N.to_nat b)).
  rewrite in_seq in H. specialize (H ltac:(lia)).
  rewrite forallb_forall in H. specialize (H (Z.to_nat i)).
  rewrite in_seq in H. specialize (H ltac:(lia)).
  rewrite !andb_true_iff in H. destruct H as [[H1 H2] H3].
  rewrite N2Nat.id in H1, H2, H3.
  assert (E1 : Z.of_nat (N.to_nat b) = Z.of_N b) by lia.
  assert (E2 : Z.of_nat (Z.to_nat i) = i) by lia.
  assert (E3 : N.of_nat (Z.to_nat i) = Z.to_N i) by lia.
  rewrite E1, E2, E3 in H1, H2, H3.
  apply eqb_prop in H1. apply Z.eqb_eq in H2. apply Z.eqb_eq in H3. auto.
Qed.

Theorem Bitmap_Get_is_testbit ext fuel (b : N) (i : Z) : (b < 256)%N ->
  call prog ext fuel "Bitmap.Get" [VInt (Z.of_N b); VInt i] =
  if (i <? 0) || (8 <=? i) then RPanic else RRet (VBool (N.testbit b (Z.to_N i))).
Proof.
  intros Hb.
  unfold call. rewrite prog_Bitmap_Get. unfold fn_Bitmap_Get. cbn [f_params f_body bind_params]. go_run.
  destruct (i <? 0) eqn:H0; cbn [orb]; [go_run; reflexivity|].
  destruct (8 <=? i) eqn:H8; [go_run; reflexivity|].
  go_run. apply Z.ltb_ge in H0. apply Z.leb_gt in H8.
  rewrite (wrap_u64_small i) by lia.
  destruct (Z.ltb_spec i 0) as [Hc|_]; [lia|]. go_cbn.
  fold (get_formula (Z.of_N b) i). rewrite (proj1 (bit_facts b i Hb ltac:(lia))). reflexivity.
Qed.

Theorem Bitmap_Set_is_setbit ext fuel (b : N) (i : Z) (v : bool) : (b < 256)%N ->
  call prog ext fuel "Bitmap.Set" [VInt (Z.of_N b); VInt i; VBool v] =
  if (i <? 0) || (8 <=? i) then RPanic
  else RRet (VInt (Z.of_N (if v then N.setbit b (Z.to_N i) else N.clearbit b (Z.to_N i)))).
Proof.
  intros Hb.
  unfold call. rewrite prog_Bitmap_Set. unfold fn_Bitmap_Set. cbn [f_params f_body bind_params]. go_run.
  destruct (i <? 0) eqn:H0; cbn [orb]; [go_run; reflexivity|].
  destruct (8 <=? i) eqn:H8; [go_run; reflexivity|].
  go_run. apply Z.ltb_ge in H0. apply Z.leb_gt in H8.
  destruct (bit_facts b i Hb ltac:(lia)) as [_ [Hs Hc]].
  destruct v; go_run; rewrite (wrap_u64_small i) by lia;
    (destruct (Z.ltb_spec i 0) as [Hx|_]; [lia|]); go_run.
  - fold (set_formula (Z.of_N b) i true). rewrite Hs. reflexivity.
  - fold (set_formula (Z.of_N b) i false). rewrite Hc. reflexivity.
Qed.

(* ------------------------------------------------------------------ encodeUvarint (the record length prefix) *)
Lemma uv_enc_length_le f x : (List.length (uv_enc f x) <= S f)%nat.
Proof.
  revert x. induction f as [|f IH]; intros x; cbn [uv_enc]; [cbn; lia|].
  destruct (x <? 128)%N; cbn [List.length]; [lia|]. specialize (IH (x / 128)%N). lia.
Qed.

Lemma blit_then_firstn : forall (l s : list Z), (List.length s <= List.length l)%nat ->
  firstn (List.length s) (blit l O s) = s.
Proof.
  induction l as [|h t IH]; intros s H; destruct s as [|x xs]; cbn [List.length] in H; try reflexivity; [lia|].
  cbn [blit firstn List.length]. rewrite IH by lia. reflexivity.
Qed.

Theorem encodeUvarint_is_uvarint fuel (n : N) :
  call prog std_ext fuel "encodeUvarint" [VInt (Z.of_N n)] = RRet (VInts (zs (uvarint n))).
Proof.
  unfold call. rewrite prog_encodeUvarint. unfold fn_encodeUvarint. cbn [f_params f_body bind_params]. go_run.
  unfold std_ext at 1. rewrite N2Z.id.
  pose proof (uv_enc_length_le 9 n) as Hl. fold (uvarint n) in Hl.
  assert (Hz : List.length (zs (uvarint n)) = List.length (uvarint n)) by (unfold zs; apply map_length).
  rewrite Hz. cbn [List.length].
  destruct (Nat.leb_spec (List.length (uvarint n)) 10) as [_|Hc]; [|lia].
  go_run. rewrite zlen_blit. go_consts.
  assert (Hb : (0 <=? Z.of_nat (List.length (uvarint n))) && (Z.of_nat (List.length (uvarint n)) <=? 10) = true).
  { rewrite !andb_true_iff. split; apply Z.leb_le; lia. }
  rewrite Hb. go_cbn. unfold slice_z. rewrite Z.sub_0_r, Nat2Z.id. cbn [Z.to_nat skipn].
  rewrite <- Hz. rewrite blit_then_firstn by (rewrite Hz; cbn [List.length]; lia). reflexivity.
Qed.

End Generic.
