(* GoLite — unfolding equations of the interpreter (one per statement form), a symbolic-execution tactic, and the
   bridge between Z-valued machine integers and the N-valued models of the development. *)
From Coq Require Import List ZArith NArith String Bool Lia.
Import ListNotations.
Require Import YF.GoLite.
Local Open Scope string_scope.
Local Open Scope Z_scope.

Section Eqns.
  Variable prog : program.
  Variable ext : string -> list val -> option val.
  Notation exec := (exec prog ext).

  Lemma exec_skip f e : exec f SSkip e = RNorm e.
  Proof. destruct f; reflexivity. Qed.
  Lemma exec_seq f a b e : exec f (SSeq a b) e = match exec f a e with RNorm e' => exec f b e' | r => r end.
  Proof. destruct f; reflexivity. Qed.
  Lemma exec_assign f l x e : exec f (SAssign l x) e = of_eres (eval e x) (fun v => assign e l v).
  Proof. destruct f; reflexivity. Qed.
  Lemma exec_multi f ls x e : exec f (SMulti ls x) e = of_eres (eval e x) (fun v => assign_all e ls (ret_values v)).
  Proof. destruct f; reflexivity. Qed.
  Lemma exec_if f c a b e :
    exec f (SIf c a b) e =
    of_eres (eval e c) (fun v => match v with VBool true => exec f a e | VBool false => exec f b e | _ => RStuck end).
  Proof. destruct f; reflexivity. Qed.
  Lemma exec_for_0 c post body e : exec O (SFor c post body) e = RFuel.
  Proof. reflexivity. Qed.
  Lemma exec_for_S f c post body e :
    exec (S f) (SFor c post body) e =
    of_eres (eval e c) (fun v =>
      match v with
      | VBool false => RNorm e
      | VBool true =>
          match exec (S f) body e with
          | RNorm e' | RCont e' =>
              match exec (S f) post e' with
              | RNorm e'' => exec f (SFor c post body) e''
              | r => r
              end
          | RBrk e' => RNorm e'
          | r => r
          end
      | _ => RStuck
      end).
  Proof. reflexivity. Qed.
  Lemma exec_return f es e :
    exec f (SReturn es) e = of_eres (eval_list e es) (fun v => match v with VTuple [x] => RRet x | _ => RRet v end).
  Proof. destruct f; reflexivity. Qed.
  Lemma exec_break f e : exec f SBreak e = RBrk e.
  Proof. destruct f; reflexivity. Qed.
  Lemma exec_continue f e : exec f SContinue e = RCont e.
  Proof. destruct f; reflexivity. Qed.
  Lemma exec_panic f e : exec f SPanic e = RPanic.
  Proof. destruct f; reflexivity. Qed.
  Lemma exec_copy f dst src e :
    exec f (SCopy dst src) e =
    of_eres (read_lval e dst) (fun vd => of_eres (eval e src) (fun vs =>
      match vd, vs with
      | VInts d, VInts s => write_back e dst (blit d O s)
      | _, _ => RStuck
      end)).
  Proof. destruct f; reflexivity. Qed.
  Lemma exec_putle f n dst x e :
    exec f (SPutLE n dst x) e =
    of_eres (read_lval e dst) (fun vd => of_eres (eval e x) (fun vx =>
      match vd, vx with
      | VInts d, VInt z => if zlen d <? Z.of_nat n then RPanic else write_back e dst (blit d O (le_bytes n z))
      | _, _ => RStuck
      end)).
  Proof. destruct f; reflexivity. Qed.
  Lemma exec_putbe f n dst x e :
    exec f (SPutBE n dst x) e =
    of_eres (read_lval e dst) (fun vd => of_eres (eval e x) (fun vx =>
      match vd, vx with
      | VInts d, VInt z => if zlen d <? Z.of_nat n then RPanic else write_back e dst (blit d O (be_bytes n z))
      | _, _ => RStuck
      end)).
  Proof. destruct f; reflexivity. Qed.
  Lemma exec_call_0 ls g args e : exec O (SCall ls g args) e = RFuel.
  Proof. reflexivity. Qed.
  Lemma exec_call_S f ls g args e :
    exec (S f) (SCall ls g args) e =
    of_eres (eval_list e args) (fun va =>
      match plookup g prog with
      | None => RStuck
      | Some d =>
          match bind_params (f_params d) (ret_values va) with
          | None => RStuck
          | Some e0 =>
              match exec f (f_body d) e0 with
              | RRet v => assign_all e ls (ret_values v)
              | RNorm _ => assign_all e ls []
              | RBrk _ | RCont _ => RStuck
              | r => r
              end
          end
      end).
  Proof. reflexivity. Qed.
  Lemma exec_callext f ls g args e :
    exec f (SCallExt ls g args) e =
    of_eres (eval_list e args) (fun va =>
      match ext g (ret_values va) with
      | Some v => assign_all e ls (ret_values v)
      | None => RStuck
      end).
  Proof. destruct f; reflexivity. Qed.
End Eqns.

(* Symbolic execution of straight-line code: rewrite with the equations, then let cbn evaluate expressions and
   environment look-ups (integer arithmetic stays symbolic: see the Arguments lines of the files that use it). *)
Ltac go_rw :=
  repeat first
    [ rewrite exec_seq | rewrite exec_assign | rewrite exec_multi | rewrite exec_if | rewrite exec_return
    | rewrite exec_skip | rewrite exec_break | rewrite exec_continue | rewrite exec_panic | rewrite exec_copy
    | rewrite exec_putle | rewrite exec_putbe | rewrite exec_callext ].
Ltac go_cbn :=
  cbn [eval eval_list ebind as_int as_bool as_ints of_eres assign assign_all lookup update flookup fupdate
       String.eqb Ascii.eqb Bool.eqb arith opt_int ret_values read_lval write_back builtin bind_params plookup
       f_params f_body fst snd].
Ltac go_step := go_rw; go_cbn.

(* ------------------------------------------------------------------ integers: Z of the interpreter, N of the models *)
Lemma of_N_lxor a b : Z.of_N (N.lxor a b) = Z.lxor (Z.of_N a) (Z.of_N b).
Proof. destruct a, b; reflexivity. Qed.
Lemma of_N_land a b : Z.of_N (N.land a b) = Z.land (Z.of_N a) (Z.of_N b).
Proof. destruct a, b; reflexivity. Qed.
Lemma of_N_lor a b : Z.of_N (N.lor a b) = Z.lor (Z.of_N a) (Z.of_N b).
Proof. destruct a, b; reflexivity. Qed.
Lemma of_N_shiftr a n : Z.of_N (N.shiftr a n) = Z.shiftr (Z.of_N a) (Z.of_N n).
Proof.
  rewrite N.shiftr_div_pow2, Z.shiftr_div_pow2 by lia.
  rewrite N2Z.inj_div, N2Z.inj_pow. reflexivity.
Qed.
Lemma of_N_mod a b : (b <> 0)%N -> Z.of_N (a mod b) = Z.of_N a mod Z.of_N b.
Proof. intros H. apply N2Z.inj_mod. Qed.

Lemma wrap_u64 z : wrap U64 z = z mod 18446744073709551616.
Proof. reflexivity. Qed.
Lemma wrap_i64_small z : - 9223372036854775808 <= z < 9223372036854775808 -> wrap I64 z = z.
Proof. intros H. apply wrap_signed_id; [reflexivity|]. cbn. lia. Qed.
Lemma wrap_u64_small z : 0 <= z < 18446744073709551616 -> wrap U64 z = z.
Proof. intros H. apply wrap_unsigned_id; [reflexivity|]. cbn. lia. Qed.

(* comparisons of closed numerals (shift counts, lengths of literal arrays) are decided by computation *)
Ltac go_const_bool t :=
  let v := eval vm_compute in t in
  match v with
  | true => change t with true
  | false => change t with false
  end.
Ltac go_consts :=
  repeat match goal with
  | |- context [Z.ltb ?a ?b] => go_const_bool (Z.ltb a b)
  | |- context [Z.leb ?a ?b] => go_const_bool (Z.leb a b)
  | |- context [Z.eqb ?a ?b] => go_const_bool (Z.eqb a b)
  end.
Ltac go_run := repeat (progress (go_step; go_consts; cbn [andb orb negb])).
