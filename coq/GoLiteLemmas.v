(* GoLite — unfolding equations of the interpreter (one per statement form), a symbolic-execution tactic, and the
   bridge between Z-valued machine integers and the N-valued models of the development. *)
From Coq Require Import List ZArith NArith String Bool Lia.
Import ListNotations.
Require Import YF.GoLite.
Local Open Scope string_scope.
Local Open Scope Z_scope.

Section Eqns.
  Variable prog : program.
  Variable ext : string -> list val -> option val.
  Notation exec := (exec prog ext).

  Lemma exec_skip f e : exec f SSkip e = RNorm e.
  Proof. destruct f; reflexivity. Qed.
  Lemma exec_seq f a b e : exec f (SSeq a b) e = match exec f a e with RNorm e' => exec f b e' | r => r end.
  Proof. destruct f; reflexivity. Qed.
  Lemma exec_assign f l x e : exec f (SAssign l x) e = of_eres (eval e x) (fun v => assign e l v).
  Proof. destruct f; reflexivity. Qed.
  Lemma exec_multi f ls x e : exec f (SMulti ls x) e = of_eres (eval e x) (fun v => assign_all e ls (ret_values v)).
  Proof. destruct f; reflexivity. Qed.
  Lemma exec_if f c a b e :
    exec f (SIf c a b) e =
    of_eres (eval e c) (fun v => match v with VBool true => exec f a e | VBool false => exec f b e | _ => RStuck end).
  Proof. destruct f; reflexivity. Qed.
  Lemma exec_for_0 c post body e : exec O (SFor c post body) e = RFuel.
  Proof. reflexivity. Qed.
  Lemma exec_for_S f c post body e :
    exec (S f) (SFor c post body) e =
    of_eres (eval e c) (fun v =>
      match v with
      | VBool false => RNorm e
      | VBool true =>
          match exec (S f) body e with
          | RNorm e' | RCont e' =>
              match exec (S f) post e' with
              | RNorm e'' => exec f (SFor c post body) e''
              | r => r
              end
          | RBrk e' => RNorm e'
          | r => r
          end
      | _ => RStuck
      end).
  Proof. reflexivity. Qed.
  Lemma exec_return f es e :
    exec f (SReturn es) e = of_eres (eval_list e es) (fun v => match v with VTuple [x] => RRet x | _ => RRet v end).
  Proof. destruct f; reflexivity. Qed.
  Lemma exec_break f e : exec f SBreak e = RBrk e.
  Proof. destruct f; reflexivity. Qed.
  Lemma exec_continue f e : exec f SContinue e = RCont e.
  Proof. destruct f; reflexivity. Qed.
  Lemma exec_panic f e : exec f SPanic e = RPanic.
  Proof. destruct f; reflexivity. Qed.
  Lemma exec_copy f dst src e :
    exec f (SCopy dst src) e =
    of_eres (read_lval e dst) (fun vd => of_eres (eval e src) (fun vs =>
      match vd, vs with
      | VInts d, VInts s => write_back e dst (blit d O s)
      | _, _ => RStuck
      end)).
  Proof. destruct f; reflexivity. Qed.
  Lemma exec_putle f n dst x e :
    exec f (SPutLE n dst x) e =
    of_eres (read_lval e dst) (fun vd => of_eres (eval e x) (fun vx =>
      match vd, vx with
      | VInts d, VInt z => if zlen d <? Z.of_nat n then RPanic else write_back e dst (blit d O (le_bytes n z))
      | _, _ => RStuck
      end)).
  Proof. destruct f; reflexivity. Qed.
  Lemma exec_putbe f n dst x e :
    exec f (SPutBE n dst x) e =
    of_eres (read_lval e dst) (fun vd => of_eres (eval e x) (fun vx =>
      match vd, vx with
      | VInts d, VInt z => if zlen d <? Z.of_nat n then RPanic else write_back e dst (blit d O (be_bytes n z))
      | _, _ => RStuck
      end)).
  Proof. destruct f; reflexivity. Qed.
  Lemma exec_call_0 ls g args e : exec O (SCall ls g args) e = RFuel.
  Proof. reflexivity. Qed.
  Lemma exec_call_S f ls g args e :
    exec (S f) (SCall ls g args) e =
    of_eres (eval_list e args) (fun va =>
      match plookup g prog with
      | None => RStuck
      | Some d =>
          match bind_params (f_params d) (ret_values va) with
          | None => RStuck
          | Some e0 =>
              match exec f (f_body d) e0 with
              | RRet v => assign_all e ls (ret_values v)
              | RNorm _ => assign_all e ls []
              | RBrk _ | RCont _ => RStuck
              | r => r
              end
          end
      end).
  Proof. reflexivity. Qed.
  Lemma exec_callext f ls g args e :
    exec f (SCallExt ls g args) e =
    of_eres (eval_list e args) (fun va =>
      match ext g (ret_values va) with
      | Some v => assign_all e ls (ret_values v)
      | None => RStuck
      end).
  Proof. destruct f; reflexivity. Qed.
End Eqns.

(* Symbolic execution of straight-line code: rewrite with the equations, then let cbn evaluate expressions and
   environment look-ups (integer arithmetic stays symbolic: see the Arguments lines of the files that use it). *)
Ltac go_rw :=
  repeat first
    [ rewrite exec_seq | rewrite exec_assign | rewrite exec_multi | rewrite exec_if | rewrite exec_return
    | rewrite exec_skip | rewrite exec_break | rewrite exec_continue | rewrite exec_panic | rewrite exec_copy
    | rewrite exec_putle | rewrite exec_putbe | rewrite exec_callext ].
Ltac go_cbn :=
  cbn [err_wrap err_root ch_pct ch_w ch_sp andb eval eval_list ebind as_int as_bool as_ints of_eres assign assign_all lookup update flookup fupdate
       String.eqb Ascii.eqb Bool.eqb arith compare opt_int ret_values read_lval write_back builtin bind_params plookup
       f_params f_body fst snd rev app].
Ltac go_step := go_rw; go_cbn.

(* ------------------------------------------------------------------ integers: Z of the interpreter, N of the models *)
Lemma of_N_lxor a b : Z.of_N (N.lxor a b) = Z.lxor (Z.of_N a) (Z.of_N b).
Proof. destruct a, b; reflexivity. Qed.
Lemma of_N_land a b : Z.of_N (N.land a b) = Z.land (Z.of_N a) (Z.of_N b).
Proof. destruct a, b; reflexivity. Qed.
Lemma of_N_lor a b : Z.of_N (N.lor a b) = Z.lor (Z.of_N a) (Z.of_N b).
Proof. destruct a, b; reflexivity. Qed.
Lemma of_N_shiftr a n : Z.of_N (N.shiftr a n) = Z.shiftr (Z.of_N a) (Z.of_N n).
Proof.
  rewrite N.shiftr_div_pow2, Z.shiftr_div_pow2 by lia.
  rewrite N2Z.inj_div, N2Z.inj_pow. reflexivity.
Qed.
Lemma of_N_mod a b : (b <> 0)%N -> Z.of_N (a mod b) = Z.of_N a mod Z.of_N b.
Proof. intros H. apply N2Z.inj_mod. Qed.

Lemma of_N_eqb a b : (Z.of_N a =? Z.of_N b) = N.eqb a b.
Proof. destruct (N.eqb_spec a b) as [->|H]; [apply Z.eqb_refl|]. apply Z.eqb_neq. intros E. apply N2Z.inj in E. contradiction. Qed.
Lemma of_N_ltb a b : (Z.of_N a <? Z.of_N b) = N.ltb a b.
Proof. destruct (N.ltb_spec a b); [apply Z.ltb_lt|apply Z.ltb_ge]; lia. Qed.
Lemma of_N_leb a b : (Z.of_N a <=? Z.of_N b) = N.leb a b.
Proof. destruct (N.leb_spec a b); [apply Z.leb_le|apply Z.leb_gt]; lia. Qed.
Lemma of_nat_ltb a b : (Z.of_nat a <? Z.of_nat b) = Nat.ltb a b.
Proof. destruct (Nat.ltb_spec a b); [apply Z.ltb_lt|apply Z.ltb_ge]; lia. Qed.
Lemma of_nat_leb a b : (Z.of_nat a <=? Z.of_nat b) = Nat.leb a b.
Proof. destruct (Nat.leb_spec a b); [apply Z.leb_le|apply Z.leb_gt]; lia. Qed.

Lemma wrap_u64 z : wrap U64 z = z mod 18446744073709551616.
Proof. reflexivity. Qed.
Lemma wrap_i64_small z : - 9223372036854775808 <= z < 9223372036854775808 -> wrap I64 z = z.
Proof. intros H. apply wrap_signed_id; [reflexivity|]. cbn. lia. Qed.
Lemma wrap_u64_small z : 0 <= z < 18446744073709551616 -> wrap U64 z = z.
Proof. intros H. apply wrap_unsigned_id; [reflexivity|]. cbn. lia. Qed.

(* comparisons of closed numerals (shift counts, lengths of literal arrays) are decided by computation; the
   operands must be numerals syntactically (vm_compute on an open term can blow up) *)
Ltac is_pos_const p :=
  match p with xH => idtac | xO ?q => is_pos_const q | xI ?q => is_pos_const q end.
Ltac is_Z_const z :=
  match z with Z0 => idtac | Zpos ?p => is_pos_const p | Zneg ?p => is_pos_const p end.
Ltac is_nat_const n :=
  match n with O => idtac | S ?m => is_nat_const m end.
Ltac is_list_spine l :=
  match l with nil => idtac | cons _ ?t => is_list_spine t end.
Ltac go_const_bool t :=
  let v := eval vm_compute in t in
  match v with
  | true => change t with true
  | false => change t with false
  end.
Ltac go_consts :=
  repeat match goal with
  | |- context [zlen ?l] => is_list_spine l; let v := eval cbv in (Z.of_nat (List.length l)) in change (zlen l) with v
  | |- context [Z.of_nat ?a] => is_nat_const a; let v := eval vm_compute in (Z.of_nat a) in change (Z.of_nat a) with v
  | |- context [Z.to_nat ?a] => is_Z_const a; let v := eval vm_compute in (Z.to_nat a) in change (Z.to_nat a) with v
  | |- context [Z.sub ?a ?b] => is_Z_const a; is_Z_const b; let v := eval vm_compute in (Z.sub a b) in change (Z.sub a b) with v
  | |- context [Z.ltb ?a ?b] => is_Z_const a; is_Z_const b; go_const_bool (Z.ltb a b)
  | |- context [Z.leb ?a ?b] => is_Z_const a; is_Z_const b; go_const_bool (Z.leb a b)
  | |- context [Z.eqb ?a ?b] => is_Z_const a; is_Z_const b; go_const_bool (Z.eqb a b)
  end.
Ltac go_run := repeat (progress (go_step; go_consts; cbn [andb orb negb repeat])).

(* ------------------------------------------------------------------ byte windows *)
Lemma blit_length : forall (l : list Z) lo s, List.length (blit l lo s) = List.length l.
Proof.
  induction l as [|h t IH]; intros lo s.
  - destruct lo; [destruct s|]; reflexivity.
  - destruct lo as [|j]; cbn [blit].
    + destruct s as [|x xs]; [reflexivity|]. cbn [List.length]. rewrite IH. reflexivity.
    + cbn [List.length]. rewrite IH. reflexivity.
Qed.
Lemma zlen_blit l lo s : zlen (blit l lo s) = zlen l.
Proof. unfold zlen. rewrite blit_length. reflexivity. Qed.
Lemma blit_full : forall (l s : list Z), List.length s = List.length l -> blit l O s = s.
Proof.
  induction l as [|h t IH]; intros s H; destruct s as [|x xs]; cbn [List.length] in H; try discriminate; [reflexivity|].
  cbn [blit]. rewrite IH by lia. reflexivity.
Qed.
Lemma slice_z_all l : slice_z l 0 (zlen l) = l.
Proof. unfold slice_z, zlen. rewrite Z.sub_0_r, Nat2Z.id. cbn [Z.to_nat skipn]. apply firstn_all. Qed.
Lemma zlen_nonneg l : 0 <= zlen l.
Proof. unfold zlen. lia. Qed.
