(* C11: proofs about the fast decoders of C11_Nodes.v — agreement with the schema representation on
   conforming values (item level and byte level), kind exclusivity, and the parse/encode round trip with
   the fuel used by [parse_bytes]. *)
From Coq Require Import List Arith Lia Bool PeanoNat NArith ZArith.
From Coq Require Import ZifyN ZifyNat ZifyBool.
Import ListNotations.
Require Import YF.Cbor YF.C11_Nodes YF.Generated.ConstsC11.
Local Open Scope N_scope.

(* ------------------------------------------------------------------ integers *)
Lemma two63_val : two63 = 9223372036854775808. Proof. reflexivity. Qed.
Lemma two64_val : two64 = 18446744073709551616. Proof. reflexivity. Qed.
Lemma two64_pow : two64 = 2 ^ 64. Proof. reflexivity. Qed.

Lemma to_u64_repr_int z : int64_ok z ->
  exists u, to_u64 (repr_int z) = Some u /\ int_of_u64 u = z.
Proof.
  unfold int64_ok, repr_int. rewrite two63_val. intros H.
  destruct (0 <=? z)%Z eqn:E.
  - apply Z.leb_le in E. exists (Z.to_N z). cbn [to_u64]. split.
    + f_equal. apply N.mod_small. rewrite two64_val. lia.
    + unfold int_of_u64. rewrite two63_val, two64_val.
      destruct (Z.to_N z <? 9223372036854775808) eqn:E2; [lia|]. apply N.ltb_ge in E2. lia.
  - apply Z.leb_gt in E. exists (two64 - 1 - Z.to_N (-1 - z)). cbn [to_u64]. split.
    + rewrite two63_val. destruct (Z.to_N (-1 - z) <? 9223372036854775808) eqn:E2; [reflexivity|].
      apply N.ltb_ge in E2. lia.
    + unfold int_of_u64. rewrite two63_val, two64_val.
      destruct (18446744073709551616 - 1 - Z.to_N (-1 - z) <? 9223372036854775808) eqn:E2.
      * apply N.ltb_lt in E2. lia.
      * lia.
Qed.

Lemma repr_int_not_null z : repr_int z <> CNull.
Proof. unfold repr_int. destruct (0 <=? z)%Z; discriminate. Qed.

Section Proofs.
Variable cid_len : list N -> option nat.
Variable guarded : N -> bool.

Notation get_int := C11_Nodes.get_int.

Lemma get_int_repr arr i z : nth_error arr i = Some (repr_int z) -> int64_ok z -> get_int arr i = Ok z.
Proof.
  intros Hn Hz. unfold C11_Nodes.get_int. rewrite Hn.
  destruct (to_u64_repr_int z Hz) as [u [-> Hu]]. rewrite Hu. reflexivity.
Qed.

Definition opt_val (o : opt2 Z) : option Z := match o with Present z => Some z | _ => None end.

Lemma get_opt_int_repr arr i o : nth_error arr i = Some (repr_opt_int o) -> opt_int64_ok o ->
  get_opt_int arr i = Ok (opt_val o).
Proof.
  intros Hn Ho. unfold get_opt_int. rewrite Hn. destruct o as [| |z]; cbn; try reflexivity.
  destruct (to_u64_repr_int z Ho) as [u [Hu Hz]].
  pose proof (repr_int_not_null z) as Hnn.
  destruct (repr_int z) eqn:E; try congruence; rewrite Hu, Hz; reflexivity.
Qed.

Lemma get_opt_int_none arr i : nth_error arr i = None -> get_opt_int arr i = Ok None.
Proof. intros H. unfold get_opt_int. rewrite H. reflexivity. Qed.

Lemma get_opt_int_trailing_int pre i o : length pre = i -> opt_int64_ok o ->
  get_opt_int (pre ++ repr_trailing repr_int o) i = Ok (opt_val o).
Proof.
  intros Hl Ho. destruct o as [| |z]; cbn [repr_trailing opt_val].
  - apply get_opt_int_none. apply nth_error_None. rewrite app_nil_r. lia.
  - unfold get_opt_int. rewrite nth_error_app2 by lia. rewrite Hl, Nat.sub_diag. reflexivity.
  - apply (get_opt_int_repr _ _ (Present z)); [|exact Ho].
    rewrite nth_error_app2 by lia. rewrite Hl, Nat.sub_diag. reflexivity.
Qed.

Lemma of_option_opt_val o : of_option (opt_val o) = canon_opt o.
Proof. destruct o; reflexivity. Qed.

(* ------------------------------------------------------------------ links *)
Lemma dec_link_repr site c : link_ok cid_len c -> dec_link cid_len guarded site (repr_link c) = Ok c.
Proof.
  intros [Hc _]. unfold dec_link, repr_link. cbn. rewrite Hc. rewrite firstn_all. reflexivity.
Qed.

Lemma mapM_dec_link_repr site l : Forall (link_ok cid_len) l ->
  mapM (dec_link cid_len guarded site) (map repr_link l) = Ok l.
Proof.
  induction 1 as [|c l Hc Hl IH]; [reflexivity|].
  cbn [map mapM]. rewrite dec_link_repr by exact Hc. cbn [bind]. rewrite IH. reflexivity.
Qed.

Lemma dec_link_list_repr l : links_ok cid_len l -> dec_link_list cid_len guarded (repr_links l) = Ok l.
Proof. intros [_ H]. unfold dec_link_list, repr_links. apply mapM_dec_link_repr. exact H. Qed.

Lemma get_links_repr arr i l : nth_error arr i = Some (repr_links l) -> links_ok cid_len l ->
  get_links cid_len guarded arr i = Ok l.
Proof. intros Hn Hl. unfold get_links. rewrite Hn. apply dec_link_list_repr. exact Hl. Qed.

(* ------------------------------------------------------------------ library model on representations *)
Lemma norm_repr_int b z : norm b (repr_int z) = repr_int z.
Proof. unfold repr_int. destruct (0 <=? z)%Z; reflexivity. Qed.
Lemma norm_repr_opt_int b o : norm b (repr_opt_int o) = repr_opt_int o.
Proof. destruct o; cbn [repr_opt_int]; try reflexivity. apply norm_repr_int. Qed.
Lemma norm_repr_link b c : norm b (repr_link c) = repr_link c.
Proof. unfold repr_link. cbn. rewrite andb_false_r. reflexivity. Qed.
Lemma map_norm_repr_link l : map (norm true) (map repr_link l) = map repr_link l.
Proof. induction l as [|c l IH]; [reflexivity|]. cbn [map]. rewrite norm_repr_link, IH. reflexivity. Qed.
Lemma norm_repr_links b l : norm b (repr_links l) = repr_links l.
Proof. unfold repr_links. cbn [norm]. rewrite map_norm_repr_link. reflexivity. Qed.
Lemma map_norm_trailing_links o :
  map (norm true) (repr_trailing repr_links o) = repr_trailing repr_links o.
Proof. destruct o; cbn [repr_trailing map]; try reflexivity. rewrite norm_repr_links. reflexivity. Qed.
Lemma map_norm_trailing_int o :
  map (norm true) (repr_trailing repr_int o) = repr_trailing repr_int o.
Proof. destruct o; cbn [repr_trailing map]; try reflexivity. rewrite norm_repr_int. reflexivity. Qed.

(* the elements of each tuple *)
Definition elems_dataframe (d : DataFrame) : list item :=
  [repr_int (df_kind d); repr_opt_int (df_hash d); repr_opt_int (df_index d); repr_opt_int (df_total d);
   CBytes (df_data d)] ++ repr_trailing repr_links (df_next d).
Lemma repr_dataframe_elems d : repr_dataframe d = CArr (elems_dataframe d).
Proof. reflexivity. Qed.

Lemma map_norm_elems_dataframe d : map (norm true) (elems_dataframe d) = elems_dataframe d.
Proof.
  unfold elems_dataframe. rewrite map_app, map_norm_trailing_links. cbn [map norm].
  rewrite norm_repr_int, !norm_repr_opt_int. reflexivity.
Qed.
Lemma norm_repr_dataframe b d : norm b (repr_dataframe d) = repr_dataframe d.
Proof. rewrite repr_dataframe_elems. cbn [norm]. rewrite map_norm_elems_dataframe. reflexivity. Qed.

Lemma norm_repr_shredding b s : norm b (repr_shredding s) = repr_shredding s.
Proof. unfold repr_shredding. cbn [norm map]. rewrite !norm_repr_int. reflexivity. Qed.
Lemma map_norm_repr_shredding l : map (norm true) (map repr_shredding l) = map repr_shredding l.
Proof. induction l as [|c l IH]; [reflexivity|]. cbn [map]. rewrite norm_repr_shredding, IH. reflexivity. Qed.
Lemma norm_repr_slotmeta b m : norm b (repr_slotmeta m) = repr_slotmeta m.
Proof.
  unfold repr_slotmeta. cbn [norm]. rewrite map_app, map_norm_trailing_int. cbn [map].
  rewrite !norm_repr_int. reflexivity.
Qed.

(* nesting and size limits *)
Lemma nest1 : 0 + 1 <= max_nested_levels. Proof. vm_compute. discriminate. Qed.
Lemma nest2 : 0 + 1 + 1 <= max_nested_levels. Proof. vm_compute. discriminate. Qed.
Lemma nest3 : 0 + 1 + 1 + 1 <= max_nested_levels. Proof. vm_compute. discriminate. Qed.
Lemma tuple_fits : 6 <= max_array_elements. Proof. vm_compute. discriminate. Qed.
Lemma max_array_lt : max_array_elements < 2 ^ 64. Proof. vm_compute. reflexivity. Qed.

Lemma wfi_repr_int d z : wfi d (repr_int z) = true.
Proof. unfold repr_int. destruct (0 <=? z)%Z; reflexivity. Qed.
Lemma wfi_repr_opt_int d o : wfi d (repr_opt_int o) = true.
Proof. destruct o; cbn [repr_opt_int]; try reflexivity. apply wfi_repr_int. Qed.
Lemma wfi_repr_link d c : wfi d (repr_link c) = true.
Proof. reflexivity. Qed.
Lemma forallb_wfi_links d l : forallb (wfi d) (map repr_link l) = true.
Proof. induction l as [|c l IH]; [reflexivity|]. cbn [map forallb]. rewrite wfi_repr_link, IH. reflexivity. Qed.
Lemma wfi_repr_links d l : d + 1 <= max_nested_levels -> N.of_nat (length l) <= max_array_elements ->
  wfi d (repr_links l) = true.
Proof.
  intros Hd Hl. unfold repr_links. cbn [wfi]. rewrite map_length, forallb_wfi_links.
  rewrite (proj2 (N.leb_le _ _) Hd), (proj2 (N.leb_le _ _) Hl). reflexivity.
Qed.

Lemma tags_ok_repr_int z : tags_ok (repr_int z) = true.
Proof. unfold repr_int. destruct (0 <=? z)%Z; reflexivity. Qed.
Lemma tags_ok_repr_opt_int o : tags_ok (repr_opt_int o) = true.
Proof. destruct o; cbn [repr_opt_int]; try reflexivity. apply tags_ok_repr_int. Qed.
Lemma tags_ok_repr_link c : tags_ok (repr_link c) = true.
Proof. reflexivity. Qed.
Lemma tags_ok_repr_links l : tags_ok (repr_links l) = true.
Proof.
  unfold repr_links. cbn [tags_ok]. induction l as [|c l IH]; [reflexivity|].
  cbn [map forallb]. rewrite tags_ok_repr_link, IH. reflexivity.
Qed.

Lemma leb_true a b : a <= b -> (a <=? b) = true.
Proof. intros H. apply N.leb_le. exact H. Qed.

Lemma length_trailing {A} (f : A -> item) o : (length (repr_trailing f o) <= 1)%nat.
Proof. destruct o; cbn; lia. Qed.

Lemma wfi_repr_dataframe d x : d + 1 + 1 <= max_nested_levels -> conforming_dataframe cid_len x ->
  wfi d (repr_dataframe x) = true.
Proof.
  intros Hd (_ & _ & _ & _ & _ & Hn). rewrite repr_dataframe_elems. cbn [wfi].
  assert (Hd1 : d + 1 <= max_nested_levels) by lia.
  rewrite (leb_true _ _ Hd1).
  assert (Hlen : N.of_nat (length (elems_dataframe x)) <= max_array_elements).
  { unfold elems_dataframe. rewrite app_length. pose proof (length_trailing repr_links (df_next x)).
    pose proof tuple_fits. cbn [length]. lia. }
  rewrite (leb_true _ _ Hlen). cbn [andb].
  unfold elems_dataframe. rewrite forallb_app. cbn [forallb].
  rewrite wfi_repr_int, !wfi_repr_opt_int. cbn [wfi andb].
  destruct (df_next x) as [| |l]; cbn [repr_trailing forallb]; try reflexivity.
  rewrite wfi_repr_links; [reflexivity|exact Hd|]. exact (proj1 Hn).
Qed.

Lemma tags_ok_repr_dataframe x : tags_ok (repr_dataframe x) = true.
Proof.
  rewrite repr_dataframe_elems. cbn [tags_ok]. unfold elems_dataframe. rewrite forallb_app. cbn [forallb].
  rewrite tags_ok_repr_int, !tags_ok_repr_opt_int. cbn [tags_ok andb].
  destruct (df_next x); cbn [repr_trailing forallb]; try reflexivity. rewrite tags_ok_repr_links. reflexivity.
Qed.

(* ------------------------------------------------------------------ DataFrame *)
Lemma un_dataframe_repr x : conforming_dataframe cid_len x ->
  un_dataframe cid_len guarded (elems_dataframe x) = Ok (canon_dataframe x).
Proof.
  intros (Hk & Hh & Hi & Ht & Hd & Hn).
  unfold un_dataframe.
  rewrite (get_int_repr _ _ (df_kind x)); [|reflexivity|rewrite Hk; vm_compute; split; [discriminate|reflexivity]].
  cbn [bind]. rewrite Hk. replace (kind_dataframe =? ukind_dataframe)%Z with true by reflexivity. cbn [negb].
  rewrite (get_opt_int_repr _ _ (df_hash x)); [|reflexivity|exact Hh]. cbn [bind].
  rewrite (get_opt_int_repr _ _ (df_index x)); [|reflexivity|exact Hi]. cbn [bind].
  rewrite (get_opt_int_repr _ _ (df_total x)); [|reflexivity|exact Ht]. cbn [bind].
  replace (nth_error (elems_dataframe x) 4) with (Some (CBytes (df_data x))) by reflexivity. cbn [bind].
  rewrite !of_option_opt_val.
  unfold canon_dataframe. rewrite Hk.
  destruct (df_next x) as [| |l] eqn:En.
  - replace (nth_error (elems_dataframe x) 5) with (@None item) by (unfold elems_dataframe; rewrite En; reflexivity).
    reflexivity.
  - replace (nth_error (elems_dataframe x) 5) with (Some CNull) by (unfold elems_dataframe; rewrite En; reflexivity).
    reflexivity.
  - replace (nth_error (elems_dataframe x) 5) with (Some (repr_links l)) by (unfold elems_dataframe; rewrite En; reflexivity).
    rewrite dec_link_list_repr by exact Hn. reflexivity.
Qed.

Lemma get_frame_repr site arr i x : nth_error arr i = Some (repr_dataframe x) -> conforming_dataframe cid_len x ->
  get_frame cid_len guarded site arr i = Ok (canon_dataframe x).
Proof. intros Hn Hx. unfold get_frame. rewrite Hn, repr_dataframe_elems. apply un_dataframe_repr. exact Hx. Qed.


(* ------------------------------------------------------------------ the other six kinds (tuple level) *)
Definition elems_transaction (t : Transaction) : list item :=
  [repr_int (tx_kind t); repr_dataframe (tx_data t); repr_dataframe (tx_metadata t); repr_int (tx_slot t)]
  ++ repr_trailing repr_int (tx_index t).
Definition elems_entry (e : Entry) : list item :=
  [repr_int (en_kind e); repr_int (en_num_hashes e); CBytes (en_hash e); repr_links (en_transactions e)].
Definition elems_block (b : Block) : list item :=
  [repr_int (bl_kind b); repr_int (bl_slot b); CArr (map repr_shredding (bl_shredding b));
   repr_links (bl_entries b); repr_slotmeta (bl_meta b); repr_link (bl_rewards b)].
Definition elems_subset (s : Subset) : list item :=
  [repr_int (su_kind s); repr_int (su_first s); repr_int (su_last s); repr_links (su_blocks s)].
Definition elems_epoch (e : Epoch) : list item :=
  [repr_int (ep_kind e); repr_int (ep_epoch e); repr_links (ep_subsets e)].
Definition elems_rewards (r : Rewards) : list item :=
  [repr_int (rw_kind r); repr_int (rw_slot r); repr_dataframe (rw_data r)].

Ltac kind_ok Hk := rewrite Hk; vm_compute; split; [discriminate|reflexivity].

Lemma un_transaction_repr x : conforming_transaction cid_len x ->
  un_transaction cid_len guarded (elems_transaction x) = Ok (canon_transaction x).
Proof.
  intros (Hk & Hd & Hm & Hs & Hi). unfold un_transaction.
  rewrite (get_int_repr _ _ (tx_kind x)); [|reflexivity|kind_ok Hk].
  cbn [bind]. rewrite Hk. replace (kind_transaction =? ukind_transaction)%Z with true by reflexivity. cbn [negb].
  rewrite (get_frame_repr _ _ _ (tx_data x)); [|reflexivity|exact Hd]. cbn [bind].
  rewrite (get_frame_repr _ _ _ (tx_metadata x)); [|reflexivity|exact Hm]. cbn [bind].
  rewrite (get_int_repr _ _ (tx_slot x)); [|reflexivity|exact Hs]. cbn [bind].
  unfold elems_transaction. rewrite get_opt_int_trailing_int; [|reflexivity|exact Hi]. cbn [bind].
  rewrite of_option_opt_val. unfold canon_transaction. rewrite Hk. reflexivity.
Qed.

Lemma un_entry_repr x : conforming_entry cid_len x ->
  un_entry cid_len guarded (elems_entry x) = Ok x.
Proof.
  intros (Hk & Hn & Hh & Ht). unfold un_entry.
  rewrite (get_int_repr _ _ (en_kind x)); [|reflexivity|kind_ok Hk].
  cbn [bind]. rewrite Hk. replace (kind_entry =? ukind_entry)%Z with true by reflexivity. cbn [negb].
  rewrite (get_int_repr _ _ (en_num_hashes x)); [|reflexivity|exact Hn]. cbn [bind].
  replace (nth_error (elems_entry x) 2) with (Some (CBytes (en_hash x))) by reflexivity. cbn [bind].
  rewrite (get_links_repr _ _ (en_transactions x)); [|reflexivity|exact Ht]. cbn [bind].
  destruct x; cbn in *. rewrite Hk. reflexivity.
Qed.

Lemma dec_shredding_repr s : conforming_shredding s -> dec_shredding (repr_shredding s) = Ok s.
Proof.
  intros [He Hs]. unfold dec_shredding, repr_shredding.
  rewrite (get_int_repr _ _ (sh_entry_end_idx s)); [|reflexivity|exact He]. cbn [bind].
  rewrite (get_int_repr _ _ (sh_shred_end_idx s)); [|reflexivity|exact Hs]. cbn [bind].
  destruct s; reflexivity.
Qed.
Lemma mapM_dec_shredding_repr l : Forall conforming_shredding l ->
  mapM dec_shredding (map repr_shredding l) = Ok l.
Proof.
  induction 1 as [|c l Hc Hl IH]; [reflexivity|].
  cbn [map mapM]. rewrite dec_shredding_repr by exact Hc. cbn [bind]. rewrite IH. reflexivity.
Qed.

Definition elems_slotmeta (m : SlotMeta) : list item :=
  [repr_int (sm_parent_slot m); repr_int (sm_blocktime m)] ++ repr_trailing repr_int (sm_block_height m).
Lemma un_slotmeta_repr m : conforming_slotmeta m -> un_slotmeta (elems_slotmeta m) = Ok (canon_slotmeta m).
Proof.
  intros (Hp & Hb & Hh). unfold un_slotmeta.
  rewrite (get_int_repr _ _ (sm_parent_slot m)); [|reflexivity|exact Hp]. cbn [bind].
  rewrite (get_int_repr _ _ (sm_blocktime m)); [|reflexivity|exact Hb]. cbn [bind].
  unfold elems_slotmeta. rewrite get_opt_int_trailing_int; [|reflexivity|exact Hh]. cbn [bind].
  rewrite of_option_opt_val. reflexivity.
Qed.

Lemma un_block_repr x : conforming_block cid_len x ->
  un_block cid_len guarded (elems_block x) = Ok (canon_block x).
Proof.
  intros (Hk & Hs & Hshl & Hsh & He & Hm & Hr). unfold un_block.
  rewrite (get_int_repr _ _ (bl_kind x)); [|reflexivity|kind_ok Hk].
  cbn [bind]. rewrite Hk. replace (kind_block =? ukind_block)%Z with true by reflexivity. cbn [negb].
  rewrite (get_int_repr _ _ (bl_slot x)); [|reflexivity|exact Hs]. cbn [bind].
  replace (nth_error (elems_block x) 2) with (Some (CArr (map repr_shredding (bl_shredding x)))) by reflexivity.
  rewrite mapM_dec_shredding_repr by exact Hsh. cbn [bind].
  rewrite (get_links_repr _ _ (bl_entries x)); [|reflexivity|exact He]. cbn [bind].
  replace (nth_error (elems_block x) 4) with (Some (CArr (elems_slotmeta (bl_meta x)))) by reflexivity.
  rewrite un_slotmeta_repr by exact Hm. cbn [bind].
  replace (nth_error (elems_block x) 5) with (Some (repr_link (bl_rewards x))) by reflexivity.
  rewrite dec_link_repr by exact Hr. cbn [bind].
  unfold canon_block. rewrite Hk. reflexivity.
Qed.

Lemma un_subset_repr x : conforming_subset cid_len x ->
  un_subset cid_len guarded (elems_subset x) = Ok x.
Proof.
  intros (Hk & Hf & Hl & Hb). unfold un_subset.
  rewrite (get_int_repr _ _ (su_kind x)); [|reflexivity|kind_ok Hk].
  cbn [bind]. rewrite Hk. replace (kind_subset =? ukind_subset)%Z with true by reflexivity. cbn [negb].
  rewrite (get_int_repr _ _ (su_first x)); [|reflexivity|exact Hf]. cbn [bind].
  rewrite (get_int_repr _ _ (su_last x)); [|reflexivity|exact Hl]. cbn [bind].
  rewrite (get_links_repr _ _ (su_blocks x)); [|reflexivity|exact Hb]. cbn [bind].
  destruct x; cbn in *. rewrite Hk. reflexivity.
Qed.

Lemma un_epoch_repr x : conforming_epoch cid_len x ->
  un_epoch cid_len guarded (elems_epoch x) = Ok x.
Proof.
  intros (Hk & He & Hs). unfold un_epoch.
  rewrite (get_int_repr _ _ (ep_kind x)); [|reflexivity|kind_ok Hk].
  cbn [bind]. rewrite Hk. replace (kind_epoch =? ukind_epoch)%Z with true by reflexivity. cbn [negb].
  rewrite (get_int_repr _ _ (ep_epoch x)); [|reflexivity|exact He]. cbn [bind].
  rewrite (get_links_repr _ _ (ep_subsets x)); [|reflexivity|exact Hs]. cbn [bind].
  destruct x; cbn in *. rewrite Hk. reflexivity.
Qed.

Lemma un_rewards_repr x : conforming_rewards cid_len x ->
  un_rewards cid_len guarded (elems_rewards x) = Ok (canon_rewards x).
Proof.
  intros (Hk & Hs & Hd). unfold un_rewards.
  rewrite (get_int_repr _ _ (rw_kind x)); [|reflexivity|kind_ok Hk].
  cbn [bind]. rewrite Hk. replace (kind_rewards =? ukind_rewards)%Z with true by reflexivity. cbn [negb].
  rewrite (get_int_repr _ _ (rw_slot x)); [|reflexivity|exact Hs]. cbn [bind].
  rewrite (get_frame_repr _ _ _ (rw_data x)); [|reflexivity|exact Hd]. cbn [bind].
  unfold canon_rewards. rewrite Hk. reflexivity.
Qed.


(* ------------------------------------------------------------------ library checks on whole tuples *)
Lemma unmarshal_repr {A : Type} (un : list item -> outcome A) elems :
  lib_ok (CArr elems) = true -> map (norm true) elems = elems ->
  unmarshal un (CArr elems) = un elems.
Proof. intros Hl Hn. unfold unmarshal. rewrite Hl. cbn [top_arr bind]. rewrite Hn. reflexivity. Qed.

Lemma wfi_arr d l : d + 1 <= max_nested_levels -> N.of_nat (length l) <= max_array_elements ->
  forallb (wfi (d + 1)) l = true -> wfi d (CArr l) = true.
Proof. intros H1 H2 H3. cbn [wfi]. rewrite (leb_true _ _ H1), (leb_true _ _ H2), H3. reflexivity. Qed.

Lemma small_fits n : (n <= 6)%nat -> N.of_nat n <= max_array_elements.
Proof. intros H. pose proof tuple_fits. lia. Qed.

Lemma lib_ok_dataframe x : conforming_dataframe cid_len x -> lib_ok (repr_dataframe x) = true.
Proof.
  intros H. unfold lib_ok. rewrite wfi_repr_dataframe, tags_ok_repr_dataframe; auto. apply nest2.
Qed.

Lemma lib_ok_transaction x : conforming_transaction cid_len x -> lib_ok (CArr (elems_transaction x)) = true.
Proof.
  intros (Hk & Hd & Hm & Hs & Hi). unfold lib_ok. apply andb_true_intro. split.
  - apply wfi_arr; [apply nest1| |].
    + unfold elems_transaction. rewrite app_length. pose proof (length_trailing repr_int (tx_index x)).
      apply small_fits. cbn [length]. lia.
    + unfold elems_transaction. rewrite forallb_app. cbn [forallb].
      rewrite !wfi_repr_int, !wfi_repr_dataframe by (auto; apply nest3). cbn [andb].
      destruct (tx_index x); cbn [repr_trailing forallb]; try reflexivity. rewrite wfi_repr_int. reflexivity.
  - cbn [tags_ok]. unfold elems_transaction. rewrite forallb_app. cbn [forallb].
    rewrite !tags_ok_repr_int, !tags_ok_repr_dataframe. cbn [andb].
    destruct (tx_index x); cbn [repr_trailing forallb]; try reflexivity. rewrite tags_ok_repr_int. reflexivity.
Qed.

Lemma lib_ok_entry x : conforming_entry cid_len x -> lib_ok (CArr (elems_entry x)) = true.
Proof.
  intros (Hk & Hn & Hh & Ht). unfold lib_ok. apply andb_true_intro. split.
  - apply wfi_arr; [apply nest1|apply small_fits; cbn; lia|].
    unfold elems_entry. cbn [forallb]. rewrite !wfi_repr_int.
    rewrite wfi_repr_links; [reflexivity|apply nest2|exact (proj1 Ht)].
  - cbn [tags_ok]. unfold elems_entry. cbn [forallb]. rewrite !tags_ok_repr_int, tags_ok_repr_links. reflexivity.
Qed.

Lemma wfi_repr_shredding d s : d + 1 <= max_nested_levels -> wfi d (repr_shredding s) = true.
Proof.
  intros Hd. unfold repr_shredding. apply wfi_arr; [exact Hd|apply small_fits; cbn; lia|].
  cbn [forallb]. rewrite !wfi_repr_int. reflexivity.
Qed.
Lemma forallb_wfi_shreddings d l : d + 1 <= max_nested_levels -> forallb (wfi d) (map repr_shredding l) = true.
Proof.
  intros Hd. induction l as [|c l IH]; [reflexivity|]. cbn [map forallb]. rewrite wfi_repr_shredding, IH; auto.
Qed.
Lemma tags_ok_shreddings l : forallb tags_ok (map repr_shredding l) = true.
Proof.
  induction l as [|c l IH]; [reflexivity|]. cbn [map forallb]. rewrite IH. unfold repr_shredding. cbn [tags_ok forallb].
  rewrite !tags_ok_repr_int. reflexivity.
Qed.
Lemma wfi_repr_slotmeta d m : d + 1 <= max_nested_levels -> wfi d (repr_slotmeta m) = true.
Proof.
  intros Hd. unfold repr_slotmeta. apply wfi_arr; [exact Hd| |].
  - rewrite app_length. pose proof (length_trailing repr_int (sm_block_height m)). apply small_fits. cbn [length]. lia.
  - rewrite forallb_app. cbn [forallb]. rewrite !wfi_repr_int. cbn [andb].
    destruct (sm_block_height m); cbn [repr_trailing forallb]; try reflexivity. rewrite wfi_repr_int. reflexivity.
Qed.
Lemma tags_ok_repr_slotmeta m : tags_ok (repr_slotmeta m) = true.
Proof.
  unfold repr_slotmeta. cbn [tags_ok]. rewrite forallb_app. cbn [forallb]. rewrite !tags_ok_repr_int. cbn [andb].
  destruct (sm_block_height m); cbn [repr_trailing forallb]; try reflexivity. rewrite tags_ok_repr_int. reflexivity.
Qed.

Lemma lib_ok_block x : conforming_block cid_len x -> lib_ok (CArr (elems_block x)) = true.
Proof.
  intros (Hk & Hs & Hshl & Hsh & He & Hm & Hr). unfold lib_ok. apply andb_true_intro. split.
  - apply wfi_arr; [apply nest1|apply small_fits; cbn; lia|].
    unfold elems_block. cbn [forallb]. rewrite !wfi_repr_int.
    rewrite wfi_arr; [|apply nest2|rewrite map_length; exact Hshl|apply forallb_wfi_shreddings; apply nest3].
    rewrite wfi_repr_links; [|apply nest2|exact (proj1 He)].
    rewrite wfi_repr_slotmeta by apply nest2. rewrite wfi_repr_link. reflexivity.
  - cbn [tags_ok]. unfold elems_block. cbn [forallb tags_ok].
    rewrite !tags_ok_repr_int, tags_ok_shreddings, tags_ok_repr_links, tags_ok_repr_slotmeta. reflexivity.
Qed.

Lemma lib_ok_subset x : conforming_subset cid_len x -> lib_ok (CArr (elems_subset x)) = true.
Proof.
  intros (Hk & Hf & Hl & Hb). unfold lib_ok. apply andb_true_intro. split.
  - apply wfi_arr; [apply nest1|apply small_fits; cbn; lia|].
    unfold elems_subset. cbn [forallb]. rewrite !wfi_repr_int.
    rewrite wfi_repr_links; [reflexivity|apply nest2|exact (proj1 Hb)].
  - cbn [tags_ok]. unfold elems_subset. cbn [forallb]. rewrite !tags_ok_repr_int, tags_ok_repr_links. reflexivity.
Qed.

Lemma lib_ok_epoch x : conforming_epoch cid_len x -> lib_ok (CArr (elems_epoch x)) = true.
Proof.
  intros (Hk & He & Hs). unfold lib_ok. apply andb_true_intro. split.
  - apply wfi_arr; [apply nest1|apply small_fits; cbn; lia|].
    unfold elems_epoch. cbn [forallb]. rewrite !wfi_repr_int.
    rewrite wfi_repr_links; [reflexivity|apply nest2|exact (proj1 Hs)].
  - cbn [tags_ok]. unfold elems_epoch. cbn [forallb]. rewrite !tags_ok_repr_int, tags_ok_repr_links. reflexivity.
Qed.

Lemma lib_ok_rewards x : conforming_rewards cid_len x -> lib_ok (CArr (elems_rewards x)) = true.
Proof.
  intros (Hk & Hs & Hd). unfold lib_ok. apply andb_true_intro. split.
  - apply wfi_arr; [apply nest1|apply small_fits; cbn; lia|].
    unfold elems_rewards. cbn [forallb]. rewrite !wfi_repr_int.
    rewrite wfi_repr_dataframe; [reflexivity|apply nest3|exact Hd].
  - cbn [tags_ok]. unfold elems_rewards. cbn [forallb]. rewrite !tags_ok_repr_int, tags_ok_repr_dataframe. reflexivity.
Qed.

Lemma map_norm_elems_transaction x : map (norm true) (elems_transaction x) = elems_transaction x.
Proof.
  unfold elems_transaction. rewrite map_app, map_norm_trailing_int. cbn [map].
  rewrite !norm_repr_int, !norm_repr_dataframe. reflexivity.
Qed.
Lemma map_norm_elems_entry x : map (norm true) (elems_entry x) = elems_entry x.
Proof. unfold elems_entry. cbn [map norm]. rewrite !norm_repr_int, norm_repr_links. reflexivity. Qed.
Lemma map_norm_elems_block x : map (norm true) (elems_block x) = elems_block x.
Proof.
  unfold elems_block. cbn [map]. rewrite !norm_repr_int, norm_repr_links, norm_repr_slotmeta, norm_repr_link.
  cbn [norm]. rewrite map_norm_repr_shredding. reflexivity.
Qed.
Lemma map_norm_elems_subset x : map (norm true) (elems_subset x) = elems_subset x.
Proof. unfold elems_subset. cbn [map]. rewrite !norm_repr_int, norm_repr_links. reflexivity. Qed.
Lemma map_norm_elems_epoch x : map (norm true) (elems_epoch x) = elems_epoch x.
Proof. unfold elems_epoch. cbn [map]. rewrite !norm_repr_int, norm_repr_links. reflexivity. Qed.
Lemma map_norm_elems_rewards x : map (norm true) (elems_rewards x) = elems_rewards x.
Proof. unfold elems_rewards. cbn [map]. rewrite !norm_repr_int, norm_repr_dataframe. reflexivity. Qed.

(* ------------------------------------------------------------------ agreement, item level *)
Theorem agree_dataframe x : conforming_dataframe cid_len x ->
  fast_decode_dataframe cid_len guarded (repr_dataframe x) = Ok (canon_dataframe x).
Proof.
  intros H. unfold fast_decode_dataframe. rewrite repr_dataframe_elems.
  rewrite unmarshal_repr; [|rewrite <- repr_dataframe_elems; apply lib_ok_dataframe; exact H|apply map_norm_elems_dataframe].
  rewrite un_dataframe_repr by exact H. unfold check_kind. cbn [bind canon_dataframe df_kind].
  rewrite (proj1 H), Z.eqb_refl. reflexivity.
Qed.
Theorem agree_transaction x : conforming_transaction cid_len x ->
  fast_decode_transaction cid_len guarded (repr_transaction x) = Ok (canon_transaction x).
Proof.
  intros H. unfold fast_decode_transaction. change (repr_transaction x) with (CArr (elems_transaction x)).
  rewrite unmarshal_repr; [|apply lib_ok_transaction; exact H|apply map_norm_elems_transaction].
  rewrite un_transaction_repr by exact H. unfold check_kind. cbn [bind canon_transaction tx_kind].
  rewrite (proj1 H), Z.eqb_refl. reflexivity.
Qed.
Theorem agree_entry x : conforming_entry cid_len x ->
  fast_decode_entry cid_len guarded (repr_entry x) = Ok x.
Proof.
  intros H. unfold fast_decode_entry. change (repr_entry x) with (CArr (elems_entry x)).
  rewrite unmarshal_repr; [|apply lib_ok_entry; exact H|apply map_norm_elems_entry].
  rewrite un_entry_repr by exact H. unfold check_kind. cbn [bind].
  rewrite (proj1 H), Z.eqb_refl. reflexivity.
Qed.
Theorem agree_block x : conforming_block cid_len x ->
  fast_decode_block cid_len guarded (repr_block x) = Ok (canon_block x).
Proof.
  intros H. unfold fast_decode_block. change (repr_block x) with (CArr (elems_block x)).
  rewrite unmarshal_repr; [|apply lib_ok_block; exact H|apply map_norm_elems_block].
  rewrite un_block_repr by exact H. unfold check_kind. cbn [bind canon_block bl_kind].
  rewrite (proj1 H), Z.eqb_refl. reflexivity.
Qed.
Theorem agree_subset x : conforming_subset cid_len x ->
  fast_decode_subset cid_len guarded (repr_subset x) = Ok x.
Proof.
  intros H. unfold fast_decode_subset. change (repr_subset x) with (CArr (elems_subset x)).
  rewrite unmarshal_repr; [|apply lib_ok_subset; exact H|apply map_norm_elems_subset].
  rewrite un_subset_repr by exact H. unfold check_kind. cbn [bind].
  rewrite (proj1 H), Z.eqb_refl. reflexivity.
Qed.
Theorem agree_epoch x : conforming_epoch cid_len x ->
  fast_decode_epoch cid_len guarded (repr_epoch x) = Ok x.
Proof.
  intros H. unfold fast_decode_epoch. change (repr_epoch x) with (CArr (elems_epoch x)).
  rewrite unmarshal_repr; [|apply lib_ok_epoch; exact H|apply map_norm_elems_epoch].
  rewrite un_epoch_repr by exact H. unfold check_kind. cbn [bind].
  rewrite (proj1 H), Z.eqb_refl. reflexivity.
Qed.
Theorem agree_rewards x : conforming_rewards cid_len x ->
  fast_decode_rewards cid_len guarded (repr_rewards x) = Ok (canon_rewards x).
Proof.
  intros H. unfold fast_decode_rewards. change (repr_rewards x) with (CArr (elems_rewards x)).
  rewrite unmarshal_repr; [|apply lib_ok_rewards; exact H|apply map_norm_elems_rewards].
  rewrite un_rewards_repr by exact H. unfold check_kind. cbn [bind canon_rewards rw_kind].
  rewrite (proj1 H), Z.eqb_refl. reflexivity.
Qed.

End Proofs.

(* ------------------------------------------------------------------ observations of the stored value *)
Lemma ov_opt_int_canon o : ov_opt_int (canon_opt o) = ov_opt_int o.
Proof. destruct o; reflexivity. Qed.
Lemma ov_opt_u64_canon o : ov_opt_u64 (canon_opt o) = ov_opt_u64 o.
Proof. destruct o; reflexivity. Qed.
Lemma next_list_canon o : next_list (canon_next o) = next_list o.
Proof. destruct o; reflexivity. Qed.

Lemma observe_canon_dataframe x : observe_dataframe (canon_dataframe x) = observe_dataframe x.
Proof.
  unfold observe_dataframe, canon_dataframe. cbn [df_kind df_hash df_index df_total df_data df_next].
  rewrite ov_opt_u64_canon, !ov_opt_int_canon, next_list_canon. reflexivity.
Qed.
Lemma observe_canon_transaction x : observe_transaction (canon_transaction x) = observe_transaction x.
Proof.
  unfold observe_transaction, canon_transaction. cbn [tx_kind tx_data tx_metadata tx_slot tx_index].
  rewrite !observe_canon_dataframe, ov_opt_int_canon. reflexivity.
Qed.
Lemma observe_canon_block x : observe_block (canon_block x) = observe_block x.
Proof.
  unfold observe_block, canon_block, canon_slotmeta.
  cbn [bl_kind bl_slot bl_shredding bl_entries bl_meta bl_rewards sm_parent_slot sm_blocktime sm_block_height].
  rewrite ov_opt_u64_canon. reflexivity.
Qed.
Lemma observe_canon_rewards x : observe_rewards (canon_rewards x) = observe_rewards x.
Proof.
  unfold observe_rewards, canon_rewards. cbn [rw_kind rw_slot rw_data]. rewrite observe_canon_dataframe. reflexivity.
Qed.

(* ------------------------------------------------------------------ parse/encode with the fuel of [parse_bytes] *)
Lemma encode_nonempty i : (1 <= length (encode i))%nat.
Proof.
  destruct i as [n|n|l|l|l|t i| |b]; cbn [encode];
    try (destruct (head_first 0 n ltac:(lia)) as [b0 [r [E _]]]; rewrite E; cbn; lia);
    try (destruct (head_first 1 n ltac:(lia)) as [b0 [r [E _]]]; rewrite E; cbn; lia).
  - destruct (head_first 2 (N.of_nat (length l)) ltac:(lia)) as [b0 [r [E _]]]. rewrite E. cbn. lia.
  - destruct (head_first 3 (N.of_nat (length l)) ltac:(lia)) as [b0 [r [E _]]]. rewrite E. cbn. lia.
  - destruct (head_first 4 (N.of_nat (length l)) ltac:(lia)) as [b0 [r [E _]]]. rewrite E. cbn. lia.
  - destruct (head_first 6 t ltac:(lia)) as [b0 [r [E _]]]. rewrite E. cbn. lia.
  - cbn. lia.
  - destruct b; cbn; lia.
Qed.

Lemma head_nonempty m n : m < 8 -> (1 <= length (head m n))%nat.
Proof. intros H. destruct (head_first m n H) as [b0 [r [E _]]]. rewrite E. cbn. lia. Qed.

Lemma w_bound : forall n : nat,
  (forall i, (w i <= n)%nat -> (w i <= 2 * length (encode i))%nat) /\
  (forall l, (wl l <= n)%nat -> (wl l <= 1 + 2 * length (concat (map encode l)))%nat).
Proof.
  induction n as [|n [IHi IHl]].
  - split; intros x H; destruct x; cbn in H; lia.
  - split.
    + intros i Hw. destruct i as [k|k|l|l|l|t i| |b];
        try (pose proof (encode_nonempty (CUint k)); cbn [w] in *; lia);
        try (pose proof (encode_nonempty (CNint k)); cbn [w] in *; lia);
        try (pose proof (encode_nonempty (CBytes l)); cbn [w] in *; lia);
        try (pose proof (encode_nonempty (CText l)); cbn [w] in *; lia);
        try (pose proof (encode_nonempty CNull); cbn [w] in *; lia);
        try (pose proof (encode_nonempty (CBool b)); cbn [w] in *; lia).
      * cbn [w] in *.
        change ((fix wl (l : list item) : nat := match l with [] => 1%nat | x :: r => S (Nat.max (w x) (wl r)) end) l) with (wl l) in *.
        cbn [encode]. rewrite app_length. pose proof (head_nonempty 4 (N.of_nat (length l)) ltac:(lia)).
        assert (wl l <= n)%nat by lia. specialize (IHl l H0). lia.
      * cbn [w] in *. cbn [encode]. rewrite app_length. pose proof (head_nonempty 6 t ltac:(lia)).
        assert (w i <= n)%nat by lia. specialize (IHi i H0). lia.
    + intros l Hw. destruct l as [|x r]; [cbn; lia|].
      cbn [wl] in *. cbn [map concat]. rewrite app_length. pose proof (encode_nonempty x).
      assert (Hx : (w x <= n)%nat) by lia. assert (Hr : (wl r <= n)%nat) by lia.
      specialize (IHi x Hx). specialize (IHl r Hr). lia.
Qed.

Lemma w_le i : (w i <= 2 * length (encode i))%nat.
Proof. apply (proj1 (w_bound (w i))). lia. Qed.

(* the evaluable parser is the parser of Cbor.v *)
Lemma take_g_eq n bs : take_g n bs = take (N.to_nat n) bs.
Proof.
  unfold take_g, take. destruct (n <=? N.of_nat (length bs)) eqn:E; [reflexivity|].
  apply N.leb_gt in E. replace (N.to_nat n <=? length bs)%nat with false; [reflexivity|].
  symmetry. apply Nat.leb_gt. lia.
Qed.

Lemma parse_unfold f bs :
  parse (S f) bs =
  match special bs with
  | Some res => Some res
  | None =>
    match parse_head bs with
    | None => None
    | Some (m, n, r) =>
      if m =? 0 then Some (CUint n, r)
      else if m =? 1 then Some (CNint n, r)
      else if m =? 2 then match take (N.to_nat n) r with Some (a, r') => Some (CBytes a, r') | None => None end
      else if m =? 3 then match take (N.to_nat n) r with Some (a, r') => Some (CText a, r') | None => None end
      else if m =? 4 then match parse_seq f n r with Some (l, r') => Some (CArr l, r') | None => None end
      else if m =? 6 then match parse f r with Some (i, r') => Some (CTag n i, r') | None => None end
      else None
    end
  end.
Proof.
  destruct bs as [|b r]; [reflexivity|].
  destruct b as [|p]; [reflexivity|].
  cbn [parse special].
  do 8 (destruct p as [p|p|]; try reflexivity).
Qed.

Lemma parse_g_eq : forall fuel,
  (forall bs, parse_g fuel bs = parse fuel bs) /\ (forall n bs, parse_seq_g fuel n bs = parse_seq fuel n bs).
Proof.
  induction fuel as [|f [IHp IHs]]; [split; reflexivity|]. split.
  - intros bs. rewrite parse_unfold. cbn [parse_g].
    destruct (special bs); [reflexivity|].
    destruct (parse_head bs) as [[[m n] r]|]; [|reflexivity].
    rewrite !take_g_eq, IHs, IHp. reflexivity.
  - intros n bs. cbn [parse_seq_g parse_seq]. destruct (n =? 0); [reflexivity|].
    rewrite IHp. destruct (parse f bs) as [[i r]|]; [|reflexivity]. rewrite IHs. reflexivity.
Qed.

Theorem parse_bytes_encode i rest : wf i -> parse_bytes (encode i ++ rest) = Some (i, rest).
Proof.
  intros H. unfold parse_bytes. rewrite (proj1 (parse_g_eq _)). apply (proj1 (roundtrip _)); [|exact H].
  rewrite app_length. pose proof (w_le i). lia.
Qed.

Lemma on_bytes_encode {A : Type} (f : item -> outcome A) i rest : wf i -> on_bytes f (encode i ++ rest) = f i.
Proof. intros H. unfold on_bytes. rewrite parse_bytes_encode by exact H. reflexivity. Qed.

(* ------------------------------------------------------------------ representations are well-formed items *)
Lemma wf_arr l : wf (CArr l) <-> N.of_nat (length l) < 2 ^ 64 /\ wfl l.
Proof. split; intro H; exact H. Qed.
Lemma wfl_app a b : wfl (a ++ b) <-> wfl a /\ wfl b.
Proof. induction a as [|x a IH]; cbn [app wfl]; tauto. Qed.

Lemma wf_repr_int z : int64_ok z -> wf (repr_int z).
Proof.
  unfold int64_ok, repr_int. rewrite two63_val. intros H. destruct (0 <=? z)%Z eqn:E; cbn [wf].
  - apply Z.leb_le in E. change (2 ^ 64) with 18446744073709551616. lia.
  - apply Z.leb_gt in E. change (2 ^ 64) with 18446744073709551616. lia.
Qed.
Lemma wf_repr_opt_int o : opt_int64_ok o -> wf (repr_opt_int o).
Proof. destruct o; cbn [repr_opt_int opt_int64_ok]; try (intros; exact I). apply wf_repr_int. Qed.
Lemma wf_bytes b : bytes_ok b -> wf (CBytes b).
Proof. unfold bytes_ok. rewrite two63_val. cbn [wf]. change (2 ^ 64) with 18446744073709551616. lia. Qed.
Lemma wf_trailing_int o : opt_int64_ok o -> wfl (repr_trailing repr_int o).
Proof. destruct o; cbn [repr_trailing wfl wf opt_int64_ok]; try tauto. intros H. split; [apply wf_repr_int; exact H|exact I]. Qed.

Section WF.
Variable cid_len : list N -> option nat.

Lemma wf_repr_link c : link_ok cid_len c -> wf (repr_link c).
Proof.
  intros [_ H]. rewrite two63_val in H. unfold repr_link. cbn [wf length].
  change (2 ^ 64) with 18446744073709551616. lia.
Qed.
Lemma wfl_repr_links l : Forall (link_ok cid_len) l -> wfl (map repr_link l).
Proof. induction 1 as [|c l Hc Hl IH]; cbn [map wfl]; [exact I|]. split; [apply wf_repr_link; exact Hc|exact IH]. Qed.
Lemma wf_repr_links l : links_ok cid_len l -> wf (repr_links l).
Proof.
  intros [Hn Hl]. unfold repr_links. apply wf_arr. rewrite map_length. split.
  - pose proof max_array_lt. lia.
  - apply wfl_repr_links. exact Hl.
Qed.

Lemma small_len n : (n <= 7)%nat -> N.of_nat n < 2 ^ 64.
Proof. change (2 ^ 64) with 18446744073709551616. lia. Qed.

Lemma wf_repr_dataframe x : conforming_dataframe cid_len x -> wf (repr_dataframe x).
Proof.
  intros (Hk & Hh & Hi & Ht & Hd & Hn). unfold repr_dataframe. apply wf_arr. split.
  - rewrite app_length. pose proof (length_trailing repr_links (df_next x)). apply small_len. cbn [length]. lia.
  - apply wfl_app. split.
    + cbn [wfl]. repeat split; try (apply wf_repr_opt_int; assumption).
      * apply wf_repr_int. rewrite Hk. vm_compute. split; [discriminate|reflexivity].
      * apply wf_bytes. exact Hd.
    + destruct (df_next x); cbn [repr_trailing wfl wf]; try tauto. split; [apply wf_repr_links; exact Hn|exact I].
Qed.

Ltac wfk Hk := apply wf_repr_int; rewrite Hk; vm_compute; split; [discriminate|reflexivity].

Lemma wf_repr_transaction x : conforming_transaction cid_len x -> wf (repr_transaction x).
Proof.
  intros (Hk & Hd & Hm & Hs & Hi). unfold repr_transaction. apply wf_arr. split.
  - rewrite app_length. pose proof (length_trailing repr_int (tx_index x)). apply small_len. cbn [length]. lia.
  - apply wfl_app. split; [|apply wf_trailing_int; exact Hi].
    cbn [wfl]. refine (conj _ (conj _ (conj _ (conj _ I))));
      [wfk Hk|apply wf_repr_dataframe; exact Hd|apply wf_repr_dataframe; exact Hm|apply wf_repr_int; exact Hs].
Qed.
Lemma wf_repr_entry x : conforming_entry cid_len x -> wf (repr_entry x).
Proof.
  intros (Hk & Hn & Hh & Ht). unfold repr_entry. apply wf_arr. split; [apply small_len; cbn; lia|].
  cbn [wfl]. refine (conj _ (conj _ (conj _ (conj _ I))));
    [wfk Hk|apply wf_repr_int; exact Hn|apply wf_bytes; exact Hh|apply wf_repr_links; exact Ht].
Qed.
Lemma wf_repr_shredding s : conforming_shredding s -> wf (repr_shredding s).
Proof.
  intros [He Hs]. unfold repr_shredding. apply wf_arr. split; [apply small_len; cbn; lia|].
  cbn [wfl]. refine (conj _ (conj _ I)); apply wf_repr_int; assumption.
Qed.
Lemma wfl_repr_shreddings l : Forall conforming_shredding l -> wfl (map repr_shredding l).
Proof. induction 1 as [|c l Hc Hl IH]; cbn [map wfl]; [exact I|]. split; [apply wf_repr_shredding; exact Hc|exact IH]. Qed.
Lemma wf_repr_slotmeta m : conforming_slotmeta m -> wf (repr_slotmeta m).
Proof.
  intros (Hp & Hb & Hh). unfold repr_slotmeta. apply wf_arr. split.
  - rewrite app_length. pose proof (length_trailing repr_int (sm_block_height m)). apply small_len. cbn [length]. lia.
  - apply wfl_app. split; [|apply wf_trailing_int; exact Hh]. cbn [wfl]. refine (conj _ (conj _ I)); apply wf_repr_int; assumption.
Qed.
Lemma wf_repr_block x : conforming_block cid_len x -> wf (repr_block x).
Proof.
  intros (Hk & Hs & Hshl & Hsh & He & Hm & Hr). unfold repr_block. apply wf_arr. split; [apply small_len; cbn; lia|].
  cbn [wfl]. refine (conj _ (conj _ (conj _ (conj _ (conj _ (conj _ I)))))).
  - wfk Hk.
  - apply wf_repr_int; exact Hs.
  - apply wf_arr. rewrite map_length. split; [pose proof max_array_lt; lia|apply wfl_repr_shreddings; exact Hsh].
  - apply wf_repr_links; exact He.
  - apply wf_repr_slotmeta; exact Hm.
  - apply wf_repr_link; exact Hr.
Qed.
Lemma wf_repr_subset x : conforming_subset cid_len x -> wf (repr_subset x).
Proof.
  intros (Hk & Hf & Hl & Hb). unfold repr_subset. apply wf_arr. split; [apply small_len; cbn; lia|].
  cbn [wfl]. refine (conj _ (conj _ (conj _ (conj _ I))));
    [wfk Hk|apply wf_repr_int; exact Hf|apply wf_repr_int; exact Hl|apply wf_repr_links; exact Hb].
Qed.
Lemma wf_repr_epoch x : conforming_epoch cid_len x -> wf (repr_epoch x).
Proof.
  intros (Hk & He & Hs). unfold repr_epoch. apply wf_arr. split; [apply small_len; cbn; lia|].
  cbn [wfl]. refine (conj _ (conj _ (conj _ I)));
    [wfk Hk|apply wf_repr_int; exact He|apply wf_repr_links; exact Hs].
Qed.
Lemma wf_repr_rewards x : conforming_rewards cid_len x -> wf (repr_rewards x).
Proof.
  intros (Hk & Hs & Hd). unfold repr_rewards. apply wf_arr. split; [apply small_len; cbn; lia|].
  cbn [wfl]. refine (conj _ (conj _ (conj _ I)));
    [wfk Hk|apply wf_repr_int; exact Hs|apply wf_repr_dataframe; exact Hd].
Qed.
Lemma wf_repr_node n : conforming_node cid_len n -> wf (repr_node n).
Proof.
  destruct n; cbn [conforming_node repr_node];
    [apply wf_repr_transaction|apply wf_repr_entry|apply wf_repr_block|apply wf_repr_subset|apply wf_repr_epoch
    |apply wf_repr_rewards|apply wf_repr_dataframe].
Qed.
End WF.

(* ------------------------------------------------------------------ kinds *)
Section Kinds.
Variable cid_len : list N -> option nat.
Variable guarded : N -> bool.

(* whatever is accepted carries the kind number that was asked for *)
Lemma check_kind_ok {A : Type} (kind : A -> Z) k o x : check_kind kind k o = Ok x -> kind x = k.
Proof.
  unfold check_kind. destruct o as [a|e|s]; cbn [bind]; try discriminate.
  destruct (kind a =? k)%Z eqn:E; [|discriminate]. intros H. inversion H; subst. apply Z.eqb_eq. exact E.
Qed.

Lemma get_int_head z rest : int64_ok z -> C11_Nodes.get_int (repr_int z :: rest) 0 = Ok z.
Proof. intros H. apply get_int_repr; [reflexivity|exact H]. Qed.

(* a tuple whose first element is another kind number is rejected by every decoder, before anything else is looked at *)
Ltac wrong_kind :=
  intros Hz Hne; match goal with |- ?f _ _ _ = _ => unfold f end;
  rewrite get_int_head by exact Hz; cbn [bind];
  match goal with |- context [(?a =? ?b)%Z] => replace (a =? b)%Z with false by (symmetry; apply Z.eqb_neq; exact Hne) end;
  reflexivity.

Lemma un_dataframe_wrong z rest : int64_ok z -> z <> ukind_dataframe -> un_dataframe cid_len guarded (repr_int z :: rest) = Err EKind.
Proof. wrong_kind. Qed.
Lemma un_transaction_wrong z rest : int64_ok z -> z <> ukind_transaction -> un_transaction cid_len guarded (repr_int z :: rest) = Err EKind.
Proof. wrong_kind. Qed.
Lemma un_entry_wrong z rest : int64_ok z -> z <> ukind_entry -> un_entry cid_len guarded (repr_int z :: rest) = Err EKind.
Proof. wrong_kind. Qed.
Lemma un_block_wrong z rest : int64_ok z -> z <> ukind_block -> un_block cid_len guarded (repr_int z :: rest) = Err EKind.
Proof. wrong_kind. Qed.
Lemma un_subset_wrong z rest : int64_ok z -> z <> ukind_subset -> un_subset cid_len guarded (repr_int z :: rest) = Err EKind.
Proof. wrong_kind. Qed.
Lemma un_epoch_wrong z rest : int64_ok z -> z <> ukind_epoch -> un_epoch cid_len guarded (repr_int z :: rest) = Err EKind.
Proof. wrong_kind. Qed.
Lemma un_rewards_wrong z rest : int64_ok z -> z <> ukind_rewards -> un_rewards cid_len guarded (repr_int z :: rest) = Err EKind.
Proof. wrong_kind. Qed.

Lemma unmarshal_wrong {A : Type} (un : list item -> outcome A) (kind : A -> Z) k z rest :
  (forall rest', un (repr_int z :: rest') = Err EKind) ->
  exists e, check_kind kind k (unmarshal un (CArr (repr_int z :: rest))) = Err e.
Proof.
  intros H. unfold unmarshal. destruct (lib_ok (CArr (repr_int z :: rest))); [|eexists; reflexivity].
  cbn [top_arr bind map]. rewrite norm_repr_int, H. eexists; reflexivity.
Qed.

Lemma bind_err_ex {A B : Type} (o : outcome A) (f : A -> outcome B) :
  (exists e, o = Err e) -> exists e, bind o f = Err e.
Proof. intros [e ->]. exists e. reflexivity. Qed.

Lemma fast_decode_wrong k z rest : int64_ok z -> k <> z ->
  exists e, fast_decode cid_len guarded k (CArr (repr_int z :: rest)) = Err e.
Proof.
  intros Hz Hne. unfold fast_decode.
  destruct (k =? kind_transaction)%Z eqn:E0.
  { apply Z.eqb_eq in E0. apply bind_err_ex. apply unmarshal_wrong. intros r. apply un_transaction_wrong; [exact Hz|].
    change ukind_transaction with kind_transaction. congruence. }
  destruct (k =? kind_entry)%Z eqn:E1.
  { apply Z.eqb_eq in E1. apply bind_err_ex. apply unmarshal_wrong. intros r. apply un_entry_wrong; [exact Hz|].
    change ukind_entry with kind_entry. congruence. }
  destruct (k =? kind_block)%Z eqn:E2.
  { apply Z.eqb_eq in E2. apply bind_err_ex. apply unmarshal_wrong. intros r. apply un_block_wrong; [exact Hz|].
    change ukind_block with kind_block. congruence. }
  destruct (k =? kind_subset)%Z eqn:E3.
  { apply Z.eqb_eq in E3. apply bind_err_ex. apply unmarshal_wrong. intros r. apply un_subset_wrong; [exact Hz|].
    change ukind_subset with kind_subset. congruence. }
  destruct (k =? kind_epoch)%Z eqn:E4.
  { apply Z.eqb_eq in E4. apply bind_err_ex. apply unmarshal_wrong. intros r. apply un_epoch_wrong; [exact Hz|].
    change ukind_epoch with kind_epoch. congruence. }
  destruct (k =? kind_rewards)%Z eqn:E5.
  { apply Z.eqb_eq in E5. apply bind_err_ex. apply unmarshal_wrong. intros r. apply un_rewards_wrong; [exact Hz|].
    change ukind_rewards with kind_rewards. congruence. }
  destruct (k =? kind_dataframe)%Z eqn:E6.
  { apply Z.eqb_eq in E6. apply bind_err_ex. apply unmarshal_wrong. intros r. apply un_dataframe_wrong; [exact Hz|].
    change ukind_dataframe with kind_dataframe. congruence. }
  eexists; reflexivity.
Qed.

Lemma kind_of_int64 n : int64_ok (kind_of n).
Proof. destruct n; vm_compute; (split; [discriminate|reflexivity]). Qed.

Lemma repr_node_head n : conforming_node cid_len n -> exists rest, repr_node n = CArr (repr_int (kind_of n) :: rest).
Proof.
  destruct n as [x|x|x|x|x|x|x]; cbn [conforming_node repr_node kind_of]; intros H; pose proof (proj1 H) as Hk.
  - unfold repr_transaction. rewrite Hk. eexists; reflexivity.
  - unfold repr_entry. rewrite Hk. eexists; reflexivity.
  - unfold repr_block. rewrite Hk. eexists; reflexivity.
  - unfold repr_subset. rewrite Hk. eexists; reflexivity.
  - unfold repr_epoch. rewrite Hk. eexists; reflexivity.
  - unfold repr_rewards. rewrite Hk. eexists; reflexivity.
  - unfold repr_dataframe. rewrite Hk. eexists; reflexivity.
Qed.

Theorem kind_exclusive n k : conforming_node cid_len n -> k <> kind_of n ->
  exists e, fast_decode cid_len guarded k (repr_node n) = Err e.
Proof.
  intros Hc Hne. destruct (repr_node_head n Hc) as [rest ->].
  apply fast_decode_wrong; [apply kind_of_int64|exact Hne].
Qed.

Theorem kind_exclusive_bytes n k tail : conforming_node cid_len n -> k <> kind_of n ->
  exists e, fast_decode_bytes cid_len guarded k (encode (repr_node n) ++ tail) = Err e.
Proof.
  intros Hc Hne. unfold fast_decode_bytes. rewrite on_bytes_encode by (apply (wf_repr_node cid_len); exact Hc).
  apply kind_exclusive; assumption.
Qed.

(* the dispatcher returns the decoder's answer for the matching kind *)
Theorem fast_decode_agree n : conforming_node cid_len n ->
  exists n', fast_decode cid_len guarded (kind_of n) (repr_node n) = Ok n' /\ observe_node n' = observe_node n.
Proof.
  destruct n as [x|x|x|x|x|x|x]; cbn [conforming_node repr_node kind_of]; intros H; unfold fast_decode.
  - cbn [Z.eqb kind_transaction]. rewrite (agree_transaction cid_len guarded x H). cbn [bind].
    eexists; split; [reflexivity|]. cbn [observe_node]. rewrite observe_canon_transaction. reflexivity.
  - replace (kind_entry =? kind_transaction)%Z with false by reflexivity.
    replace (kind_entry =? kind_entry)%Z with true by reflexivity.
    rewrite (agree_entry cid_len guarded x H). cbn [bind]. eexists; split; reflexivity.
  - replace (kind_block =? kind_transaction)%Z with false by reflexivity.
    replace (kind_block =? kind_entry)%Z with false by reflexivity.
    replace (kind_block =? kind_block)%Z with true by reflexivity.
    rewrite (agree_block cid_len guarded x H). cbn [bind].
    eexists; split; [reflexivity|]. cbn [observe_node]. rewrite observe_canon_block. reflexivity.
  - replace (kind_subset =? kind_transaction)%Z with false by reflexivity.
    replace (kind_subset =? kind_entry)%Z with false by reflexivity.
    replace (kind_subset =? kind_block)%Z with false by reflexivity.
    replace (kind_subset =? kind_subset)%Z with true by reflexivity.
    rewrite (agree_subset cid_len guarded x H). cbn [bind]. eexists; split; reflexivity.
  - replace (kind_epoch =? kind_transaction)%Z with false by reflexivity.
    replace (kind_epoch =? kind_entry)%Z with false by reflexivity.
    replace (kind_epoch =? kind_block)%Z with false by reflexivity.
    replace (kind_epoch =? kind_subset)%Z with false by reflexivity.
    replace (kind_epoch =? kind_epoch)%Z with true by reflexivity.
    rewrite (agree_epoch cid_len guarded x H). cbn [bind]. eexists; split; reflexivity.
  - replace (kind_rewards =? kind_transaction)%Z with false by reflexivity.
    replace (kind_rewards =? kind_entry)%Z with false by reflexivity.
    replace (kind_rewards =? kind_block)%Z with false by reflexivity.
    replace (kind_rewards =? kind_subset)%Z with false by reflexivity.
    replace (kind_rewards =? kind_epoch)%Z with false by reflexivity.
    replace (kind_rewards =? kind_rewards)%Z with true by reflexivity.
    rewrite (agree_rewards cid_len guarded x H). cbn [bind].
    eexists; split; [reflexivity|]. cbn [observe_node]. rewrite observe_canon_rewards. reflexivity.
  - replace (kind_dataframe =? kind_transaction)%Z with false by reflexivity.
    replace (kind_dataframe =? kind_entry)%Z with false by reflexivity.
    replace (kind_dataframe =? kind_block)%Z with false by reflexivity.
    replace (kind_dataframe =? kind_subset)%Z with false by reflexivity.
    replace (kind_dataframe =? kind_epoch)%Z with false by reflexivity.
    replace (kind_dataframe =? kind_rewards)%Z with false by reflexivity.
    replace (kind_dataframe =? kind_dataframe)%Z with true by reflexivity.
    rewrite (agree_dataframe cid_len guarded x H). cbn [bind].
    eexists; split; [reflexivity|]. cbn [observe_node]. rewrite observe_canon_dataframe. reflexivity.
Qed.

End Kinds.

(* ------------------------------------------------------------------ conformance is decidable (used by the checker
   on every generated value and by the non-vacuity examples) *)
Section Decide.
Variable cid_len : list N -> option nat.

Definition int64_okb (z : Z) : bool := ((- Z.of_N two63 <=? z) && (z <? Z.of_N two63))%Z.
Definition opt_int64_okb (o : opt2 Z) : bool := match o with Present z => int64_okb z | _ => true end.
Definition bytes_okb (b : list N) : bool := N.of_nat (length b) <? two63.
Definition link_okb (c : link) : bool :=
  match cid_len c with Some n => (n =? length c)%nat | None => false end && (N.of_nat (length c) <? two63 - 1).
Definition links_okb (l : list link) : bool := (N.of_nat (length l) <=? max_array_elements) && forallb link_okb l.
Definition opt_links_okb (o : opt2 (list link)) : bool := match o with Present l => links_okb l | _ => true end.
Definition conformingb_dataframe (d : DataFrame) : bool :=
  (df_kind d =? kind_dataframe)%Z && opt_int64_okb (df_hash d) && opt_int64_okb (df_index d) && opt_int64_okb (df_total d)
  && bytes_okb (df_data d) && opt_links_okb (df_next d).
Definition conformingb_transaction (t : Transaction) : bool :=
  (tx_kind t =? kind_transaction)%Z && conformingb_dataframe (tx_data t) && conformingb_dataframe (tx_metadata t)
  && int64_okb (tx_slot t) && opt_int64_okb (tx_index t).
Definition conformingb_entry (e : Entry) : bool :=
  (en_kind e =? kind_entry)%Z && int64_okb (en_num_hashes e) && bytes_okb (en_hash e) && links_okb (en_transactions e).
Definition conformingb_shredding (s : Shredding) : bool := int64_okb (sh_entry_end_idx s) && int64_okb (sh_shred_end_idx s).
Definition conformingb_slotmeta (m : SlotMeta) : bool :=
  int64_okb (sm_parent_slot m) && int64_okb (sm_blocktime m) && opt_int64_okb (sm_block_height m).
Definition conformingb_block (b : Block) : bool :=
  (bl_kind b =? kind_block)%Z && int64_okb (bl_slot b)
  && (N.of_nat (length (bl_shredding b)) <=? max_array_elements) && forallb conformingb_shredding (bl_shredding b)
  && links_okb (bl_entries b) && conformingb_slotmeta (bl_meta b) && link_okb (bl_rewards b).
Definition conformingb_subset (s : Subset) : bool :=
  (su_kind s =? kind_subset)%Z && int64_okb (su_first s) && int64_okb (su_last s) && links_okb (su_blocks s).
Definition conformingb_epoch (e : Epoch) : bool :=
  (ep_kind e =? kind_epoch)%Z && int64_okb (ep_epoch e) && links_okb (ep_subsets e).
Definition conformingb_rewards (r : Rewards) : bool :=
  (rw_kind r =? kind_rewards)%Z && int64_okb (rw_slot r) && conformingb_dataframe (rw_data r).
Definition conformingb_node (n : node) : bool :=
  match n with
  | NTransaction x => conformingb_transaction x | NEntry x => conformingb_entry x | NBlock x => conformingb_block x
  | NSubset x => conformingb_subset x | NEpoch x => conformingb_epoch x | NRewards x => conformingb_rewards x
  | NDataFrame x => conformingb_dataframe x
  end.

Lemma int64_okb_sound z : int64_okb z = true -> int64_ok z.
Proof. unfold int64_okb, int64_ok. intros H. apply andb_prop in H. destruct H as [H1 H2]. apply Z.leb_le in H1. apply Z.ltb_lt in H2. lia. Qed.
Lemma opt_int64_okb_sound o : opt_int64_okb o = true -> opt_int64_ok o.
Proof. destruct o; cbn; try (intros; exact I). apply int64_okb_sound. Qed.
Lemma bytes_okb_sound b : bytes_okb b = true -> bytes_ok b.
Proof. unfold bytes_okb, bytes_ok. intros H. apply N.ltb_lt in H. exact H. Qed.
Lemma link_okb_sound c : link_okb c = true -> link_ok cid_len c.
Proof.
  unfold link_okb, link_ok. intros H. apply andb_prop in H. destruct H as [H1 H2]. apply N.ltb_lt in H2. split; [|exact H2].
  destruct (cid_len c) as [n|]; [|discriminate]. apply Nat.eqb_eq in H1. congruence.
Qed.
Lemma forallb_Forall {A : Type} (p : A -> bool) (P : A -> Prop) l : (forall a, p a = true -> P a) -> forallb p l = true -> Forall P l.
Proof.
  intros Hp. induction l as [|x r IH]; cbn [forallb]; intros H; [constructor|].
  apply andb_prop in H. destruct H as [H1 H2]. constructor; auto.
Qed.
Lemma links_okb_sound l : links_okb l = true -> links_ok cid_len l.
Proof.
  unfold links_okb, links_ok. intros H. apply andb_prop in H. destruct H as [H1 H2]. apply N.leb_le in H1. split; [exact H1|].
  eapply forallb_Forall; [|exact H2]. apply link_okb_sound.
Qed.
Lemma opt_links_okb_sound o : opt_links_okb o = true -> opt_links_ok cid_len o.
Proof. destruct o; cbn; try (intros; exact I). apply links_okb_sound. Qed.

Lemma conformingb_dataframe_sound d : conformingb_dataframe d = true -> conforming_dataframe cid_len d.
Proof.
  unfold conformingb_dataframe, conforming_dataframe. intros H.
  apply andb_prop in H. destruct H as [H H6]. apply andb_prop in H. destruct H as [H H5].
  apply andb_prop in H. destruct H as [H H4]. apply andb_prop in H. destruct H as [H H3].
  apply andb_prop in H. destruct H as [H1 H2].
  apply Z.eqb_eq in H1.
  refine (conj H1 (conj _ (conj _ (conj _ (conj _ _))))); auto using opt_int64_okb_sound, bytes_okb_sound, opt_links_okb_sound.
Qed.
Lemma conformingb_transaction_sound t : conformingb_transaction t = true -> conforming_transaction cid_len t.
Proof.
  unfold conformingb_transaction, conforming_transaction. intros H.
  apply andb_prop in H. destruct H as [H H5]. apply andb_prop in H. destruct H as [H H4].
  apply andb_prop in H. destruct H as [H H3]. apply andb_prop in H. destruct H as [H1 H2].
  apply Z.eqb_eq in H1.
  refine (conj H1 (conj _ (conj _ (conj _ _)))); auto using conformingb_dataframe_sound, int64_okb_sound, opt_int64_okb_sound.
Qed.
Lemma conformingb_entry_sound e : conformingb_entry e = true -> conforming_entry cid_len e.
Proof.
  unfold conformingb_entry, conforming_entry. intros H.
  apply andb_prop in H. destruct H as [H H4]. apply andb_prop in H. destruct H as [H H3]. apply andb_prop in H. destruct H as [H1 H2].
  apply Z.eqb_eq in H1.
  refine (conj H1 (conj _ (conj _ _))); auto using int64_okb_sound, bytes_okb_sound, links_okb_sound.
Qed.
Lemma conformingb_shredding_sound s : conformingb_shredding s = true -> conforming_shredding s.
Proof. unfold conformingb_shredding, conforming_shredding. intros H. apply andb_prop in H. destruct H. split; apply int64_okb_sound; assumption. Qed.
Lemma conformingb_slotmeta_sound m : conformingb_slotmeta m = true -> conforming_slotmeta m.
Proof.
  unfold conformingb_slotmeta, conforming_slotmeta. intros H.
  apply andb_prop in H. destruct H as [H H3]. apply andb_prop in H. destruct H as [H1 H2].
  refine (conj _ (conj _ _)); auto using int64_okb_sound, opt_int64_okb_sound.
Qed.
Lemma conformingb_block_sound b : conformingb_block b = true -> conforming_block cid_len b.
Proof.
  unfold conformingb_block, conforming_block. intros H.
  apply andb_prop in H. destruct H as [H H7]. apply andb_prop in H. destruct H as [H H6].
  apply andb_prop in H. destruct H as [H H5]. apply andb_prop in H. destruct H as [H H4].
  apply andb_prop in H. destruct H as [H H3]. apply andb_prop in H. destruct H as [H1 H2].
  apply Z.eqb_eq in H1. apply N.leb_le in H3.
  refine (conj H1 (conj _ (conj H3 (conj _ (conj _ (conj _ _))))));
    auto using int64_okb_sound, links_okb_sound, conformingb_slotmeta_sound, link_okb_sound.
  eapply forallb_Forall; [|exact H4]. apply conformingb_shredding_sound.
Qed.
Lemma conformingb_subset_sound s : conformingb_subset s = true -> conforming_subset cid_len s.
Proof.
  unfold conformingb_subset, conforming_subset. intros H.
  apply andb_prop in H. destruct H as [H H4]. apply andb_prop in H. destruct H as [H H3]. apply andb_prop in H. destruct H as [H1 H2].
  apply Z.eqb_eq in H1.
  refine (conj H1 (conj _ (conj _ _))); auto using int64_okb_sound, links_okb_sound.
Qed.
Lemma conformingb_epoch_sound e : conformingb_epoch e = true -> conforming_epoch cid_len e.
Proof.
  unfold conformingb_epoch, conforming_epoch. intros H.
  apply andb_prop in H. destruct H as [H H3]. apply andb_prop in H. destruct H as [H1 H2].
  apply Z.eqb_eq in H1.
  refine (conj H1 (conj _ _)); auto using int64_okb_sound, links_okb_sound.
Qed.
Lemma conformingb_rewards_sound r : conformingb_rewards r = true -> conforming_rewards cid_len r.
Proof.
  unfold conformingb_rewards, conforming_rewards. intros H.
  apply andb_prop in H. destruct H as [H H3]. apply andb_prop in H. destruct H as [H1 H2].
  apply Z.eqb_eq in H1.
  refine (conj H1 (conj _ _)); auto using int64_okb_sound, conformingb_dataframe_sound.
Qed.
Theorem conformingb_node_sound n : conformingb_node n = true -> conforming_node cid_len n.
Proof.
  destruct n; cbn [conformingb_node conforming_node];
    [apply conformingb_transaction_sound|apply conformingb_entry_sound|apply conformingb_block_sound
    |apply conformingb_subset_sound|apply conformingb_epoch_sound|apply conformingb_rewards_sound
    |apply conformingb_dataframe_sound].
Qed.
End Decide.

(* ------------------------------------------------------------------ the statements of Properties/C11.v *)
Section Final.
Variable cid_len : list N -> option nat.
Variable guarded : N -> bool.
Lemma agree_obs_transaction x : conforming_transaction cid_len x ->
  exists x', fast_decode_transaction cid_len guarded (repr_transaction x) = Ok x' /\ observe_transaction x' = observe_transaction x.
Proof.
  intros H. exists (canon_transaction x). split; [apply agree_transaction; exact H|apply observe_canon_transaction].
Qed.
Lemma bytes_obs_transaction x tail : conforming_transaction cid_len x ->
  exists x', fast_decode_bytes_transaction cid_len guarded (encode (repr_transaction x) ++ tail) = Ok x' /\ observe_transaction x' = observe_transaction x.
Proof.
  intros H. unfold fast_decode_bytes_transaction. rewrite on_bytes_encode by (apply (wf_repr_transaction cid_len); exact H).
  apply agree_obs_transaction. exact H.
Qed.
Lemma agree_obs_entry x : conforming_entry cid_len x ->
  exists x', fast_decode_entry cid_len guarded (repr_entry x) = Ok x' /\ observe_entry x' = observe_entry x.
Proof.
  intros H. exists (x). split; [apply agree_entry; exact H|reflexivity].
Qed.
Lemma bytes_obs_entry x tail : conforming_entry cid_len x ->
  exists x', fast_decode_bytes_entry cid_len guarded (encode (repr_entry x) ++ tail) = Ok x' /\ observe_entry x' = observe_entry x.
Proof.
  intros H. unfold fast_decode_bytes_entry. rewrite on_bytes_encode by (apply (wf_repr_entry cid_len); exact H).
  apply agree_obs_entry. exact H.
Qed.
Lemma agree_obs_block x : conforming_block cid_len x ->
  exists x', fast_decode_block cid_len guarded (repr_block x) = Ok x' /\ observe_block x' = observe_block x.
Proof.
  intros H. exists (canon_block x). split; [apply agree_block; exact H|apply observe_canon_block].
Qed.
Lemma bytes_obs_block x tail : conforming_block cid_len x ->
  exists x', fast_decode_bytes_block cid_len guarded (encode (repr_block x) ++ tail) = Ok x' /\ observe_block x' = observe_block x.
Proof.
  intros H. unfold fast_decode_bytes_block. rewrite on_bytes_encode by (apply (wf_repr_block cid_len); exact H).
  apply agree_obs_block. exact H.
Qed.
Lemma agree_obs_subset x : conforming_subset cid_len x ->
  exists x', fast_decode_subset cid_len guarded (repr_subset x) = Ok x' /\ observe_subset x' = observe_subset x.
Proof.
  intros H. exists (x). split; [apply agree_subset; exact H|reflexivity].
Qed.
Lemma bytes_obs_subset x tail : conforming_subset cid_len x ->
  exists x', fast_decode_bytes_subset cid_len guarded (encode (repr_subset x) ++ tail) = Ok x' /\ observe_subset x' = observe_subset x.
Proof.
  intros H. unfold fast_decode_bytes_subset. rewrite on_bytes_encode by (apply (wf_repr_subset cid_len); exact H).
  apply agree_obs_subset. exact H.
Qed.
Lemma agree_obs_epoch x : conforming_epoch cid_len x ->
  exists x', fast_decode_epoch cid_len guarded (repr_epoch x) = Ok x' /\ observe_epoch x' = observe_epoch x.
Proof.
  intros H. exists (x). split; [apply agree_epoch; exact H|reflexivity].
Qed.
Lemma bytes_obs_epoch x tail : conforming_epoch cid_len x ->
  exists x', fast_decode_bytes_epoch cid_len guarded (encode (repr_epoch x) ++ tail) = Ok x' /\ observe_epoch x' = observe_epoch x.
Proof.
  intros H. unfold fast_decode_bytes_epoch. rewrite on_bytes_encode by (apply (wf_repr_epoch cid_len); exact H).
  apply agree_obs_epoch. exact H.
Qed.
Lemma agree_obs_rewards x : conforming_rewards cid_len x ->
  exists x', fast_decode_rewards cid_len guarded (repr_rewards x) = Ok x' /\ observe_rewards x' = observe_rewards x.
Proof.
  intros H. exists (canon_rewards x). split; [apply agree_rewards; exact H|apply observe_canon_rewards].
Qed.
Lemma bytes_obs_rewards x tail : conforming_rewards cid_len x ->
  exists x', fast_decode_bytes_rewards cid_len guarded (encode (repr_rewards x) ++ tail) = Ok x' /\ observe_rewards x' = observe_rewards x.
Proof.
  intros H. unfold fast_decode_bytes_rewards. rewrite on_bytes_encode by (apply (wf_repr_rewards cid_len); exact H).
  apply agree_obs_rewards. exact H.
Qed.
Lemma agree_obs_dataframe x : conforming_dataframe cid_len x ->
  exists x', fast_decode_dataframe cid_len guarded (repr_dataframe x) = Ok x' /\ observe_dataframe x' = observe_dataframe x.
Proof.
  intros H. exists (canon_dataframe x). split; [apply agree_dataframe; exact H|apply observe_canon_dataframe].
Qed.
Lemma bytes_obs_dataframe x tail : conforming_dataframe cid_len x ->
  exists x', fast_decode_bytes_dataframe cid_len guarded (encode (repr_dataframe x) ++ tail) = Ok x' /\ observe_dataframe x' = observe_dataframe x.
Proof.
  intros H. unfold fast_decode_bytes_dataframe. rewrite on_bytes_encode by (apply (wf_repr_dataframe cid_len); exact H).
  apply agree_obs_dataframe. exact H.
Qed.
Lemma bytes_obs_node n tail : conforming_node cid_len n ->
  exists n', fast_decode_bytes cid_len guarded (kind_of n) (encode (repr_node n) ++ tail) = Ok n' /\ observe_node n' = observe_node n.
Proof.
  intros H. unfold fast_decode_bytes. rewrite on_bytes_encode by (apply (wf_repr_node cid_len); exact H).
  apply fast_decode_agree. exact H.
Qed.

(* nothing of another kind is ever returned: an accepted node carries the kind number that was asked for *)
Lemma accepted_kind_transaction i x : fast_decode_transaction cid_len guarded i = Ok x -> tx_kind x = kind_transaction.
Proof. apply check_kind_ok. Qed.
Lemma accepted_kind_entry i x : fast_decode_entry cid_len guarded i = Ok x -> en_kind x = kind_entry.
Proof. apply check_kind_ok. Qed.
Lemma accepted_kind_block i x : fast_decode_block cid_len guarded i = Ok x -> bl_kind x = kind_block.
Proof. apply check_kind_ok. Qed.
Lemma accepted_kind_subset i x : fast_decode_subset cid_len guarded i = Ok x -> su_kind x = kind_subset.
Proof. apply check_kind_ok. Qed.
Lemma accepted_kind_epoch i x : fast_decode_epoch cid_len guarded i = Ok x -> ep_kind x = kind_epoch.
Proof. apply check_kind_ok. Qed.
Lemma accepted_kind_rewards i x : fast_decode_rewards cid_len guarded i = Ok x -> rw_kind x = kind_rewards.
Proof. apply check_kind_ok. Qed.
Lemma accepted_kind_dataframe i x : fast_decode_dataframe cid_len guarded i = Ok x -> df_kind x = kind_dataframe.
Proof. apply check_kind_ok. Qed.
End Final.

(* ------------------------------------------------------------------ the list bound is forced by the library *)
Lemma wfi_long d l : max_array_elements < N.of_nat (length l) -> wfi d (CArr l) = false.
Proof.
  intros H. cbn [wfi]. replace (N.of_nat (length l) <=? max_array_elements) with false by (symmetry; apply N.leb_gt; exact H).
  rewrite andb_false_r. reflexivity.
Qed.

Theorem long_list_rejected cid_len guarded e : max_array_elements < N.of_nat (length (en_transactions e)) ->
  fast_decode_entry cid_len guarded (repr_entry e) = Err ELib.
Proof.
  intros H. unfold fast_decode_entry, unmarshal.
  assert (Hl : lib_ok (repr_entry e) = false).
  { unfold lib_ok. replace (wfi 0 (repr_entry e)) with false; [reflexivity|].
    unfold repr_entry. symmetry. cbn [wfi forallb].
    change (repr_links (en_transactions e)) with (CArr (map repr_link (en_transactions e))).
    rewrite (wfi_long (0 + 1) (map repr_link (en_transactions e))) by (rewrite map_length; exact H).
    rewrite !andb_false_r. reflexivity. }
  rewrite Hl. reflexivity.
Qed.

Lemma kind_numbers_ok :
  kind_transaction = ukind_transaction /\ kind_entry = ukind_entry /\ kind_block = ukind_block /\ kind_subset = ukind_subset /\
  kind_epoch = ukind_epoch /\ kind_rewards = ukind_rewards /\ kind_dataframe = ukind_dataframe /\
  NoDup [kind_transaction; kind_entry; kind_block; kind_subset; kind_epoch; kind_rewards; kind_dataframe].
Proof.
  repeat (split; [reflexivity|]).
  repeat (constructor; [cbn; intros H; repeat (destruct H as [H|H]; [discriminate H|]); exact H|]). constructor.
Qed.
