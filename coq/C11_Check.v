(* C11: executable checker run on the harness's observations (case files written by
   harness/iplddecoders/c11_test.go). It runs the very functions the theorems of Properties/C11.v are about:
   [parse], [repr_node], [fast_decode_bytes], [observe_node]. *)
From Coq Require Import List Arith Bool NArith ZArith Uint63.
Import ListNotations.
Require Import YF.Cbor YF.C11_Nodes YF.C11_Proofs YF.Generated.ConstsC11.

(* ---------- byte strings travel as primitive 63-bit integers: 7 bytes per integer, least significant
   byte first, with a sentinel 1 above the last byte (so 0x01 alone is the empty chunk) ---------- *)
Fixpoint chunk_bytes (fuel : nat) (x : int) : list N :=
  match fuel with
  | O => []
  | S f => if (x <=? 1)%uint63 then []
           else Z.to_N (Uint63.to_Z (x land 255)%uint63) :: chunk_bytes f (x >> 8)%uint63
  end.
Definition unpack (l : list int) : list N := flat_map (chunk_bytes 8) l.

(* ---------- decidable equality of items and observations ---------- *)
Fixpoint list_eqb {A : Type} (eq : A -> A -> bool) (x y : list A) : bool :=
  match x, y with
  | [], [] => true
  | a :: x', b :: y' => eq a b && list_eqb eq x' y'
  | _, _ => false
  end.

Fixpoint item_eqb (a b : item) : bool :=
  match a, b with
  | CUint x, CUint y => N.eqb x y
  | CNint x, CNint y => N.eqb x y
  | CBytes x, CBytes y => list_eqb N.eqb x y
  | CText x, CText y => list_eqb N.eqb x y
  | CArr x, CArr y =>
      (fix go (x y : list item) : bool :=
         match x, y with
         | [], [] => true
         | p :: x', q :: y' => item_eqb p q && go x' y'
         | _, _ => false
         end) x y
  | CTag s x, CTag t y => N.eqb s t && item_eqb x y
  | CNull, CNull => true
  | CBool x, CBool y => Bool.eqb x y
  | _, _ => false
  end.

Fixpoint ov_eqb (a b : ov) : bool :=
  match a, b with
  | VZ x, VZ y => Z.eqb x y
  | VN x, VN y => N.eqb x y
  | VB x, VB y => list_eqb N.eqb x y
  | VT x, VT y => Bool.eqb x y
  | VNone, VNone => true
  | VSome x, VSome y => ov_eqb x y
  | VL x, VL y =>
      (fix go (x y : list ov) : bool :=
         match x, y with
         | [], [] => true
         | p :: x', q :: y' => ov_eqb p q && go x' y'
         | _, _ => false
         end) x y
  | _, _ => false
  end.

(* ---------- outcome classes ---------- *)
Definition class_ok : N := 0%N.
Definition class_err : N := 1%N.
Definition class_panic : N := 2%N.
Definition class_of {A : Type} (o : outcome A) : N :=
  match o with Ok _ => class_ok | Err _ => class_err | Panic _ => class_panic end.

(* One case:
     kind asked for (iplddecoders.Decode<Kind>), the typed value the bytes were made from (None for fixture
     nodes), the bytes written by the reference encoder, the outcome class of the fast decoder and what was
     observed on its result through exported fields and accessors. *)
Definition case := (Z * option node * list N * N * ov)%type.

Definition case_ok (c : case) : bool :=
  let '(k, v, bs, cls, obs) := c in
  (* the model of the fast decoder on the same bytes gives the same class and observation *)
  (match fast_decode_bytes cid_len_impl all_guarded k bs with
   | Ok n => N.eqb cls class_ok && ov_eqb (observe_node n) obs
   | Err _ => N.eqb cls class_err
   | Panic _ => N.eqb cls class_panic
   end)
  &&
  (* the reference encoder's bytes are the schema representation [repr_node] of the typed value, and the
     observation is the one the property demands for that value *)
  (match v with
   | None => true
   | Some n =>
     (* the generated value meets the hypotheses of the C11 theorems *)
     conformingb_node cid_len_impl n
     &&
     match parse_bytes bs with
     | Some (i, []) => item_eqb i (repr_node n)
     | _ => false
     end
     && (if N.eqb cls class_ok then ov_eqb (observe_node n) obs else true)
   end).

Fixpoint bad_from (i : nat) (cs : list case) : list nat :=
  match cs with [] => [] | c :: t => if case_ok c then bad_from (S i) t else i :: bad_from (S i) t end.
Definition check (cs : list case) : list nat := bad_from 0 cs.
