From Coq Require Import List Arith Lia Bool PeanoNat NArith.
Import ListNotations.
Require Import Codec ReadAt CI.
Close Scope N_scope.

(* C13 for the compact index: a truncated file gives the same answer as the complete one, or a read error *)
Section T.
Variable hash : N -> list N -> N.
Variable bucket_of : nat -> list N -> nat.
Variable vs : nat.
Variable hdr : list N.
Variable nb : nat.
Notation lookup := (lookup hash bucket_of vs hdr nb).

Lemma search_get_mono f : forall (g1 g2 : nat -> option entry) n x idx r,
  (forall i e, g1 i = Some e -> g2 i = Some e) ->
  search_get f g1 n x idx = r -> r <> ReadErr -> search_get f g2 n x idx = r.
Proof.
  induction f as [|f IH]; intros g1 g2 n x idx r Hg H Hr; cbn [search_get] in *; auto.
  destruct (idx <? n); auto.
  destruct (g1 idx) as [e|] eqn:E1.
  - rewrite (Hg _ _ E1). destruct (N.eqb (fst e) x); auto. eapply IH; eauto.
  - congruence.
Qed.

Theorem lookup_truncated file n k r :
  lookup (firstn n file) k = r -> r <> ReadErr -> lookup file k = r.
Proof.
  intros H Hr. unfold CI.lookup in *.
  destruct (read_at (firstn n file) (length hdr + 16 * bucket_of nb k) 16) as [bh|] eqn:E; [|congruence].
  rewrite (read_at_trunc file n _ _ _ E).
  destruct (parse_bucket_hdr bh) as [[[d cnt] hl] off].
  apply (search_get_mono _ (load_entry vs (firstn n file) off) (load_entry vs file off)); auto.
  intros i e Hl. unfold CI.load_entry in *.
  destruct (read_at (firstn n file) (off + i * stride vs) (stride vs)) as [bs|] eqn:E2; [|discriminate].
  now rewrite (read_at_trunc file n _ _ _ E2).
Qed.

(* the property's reading: whatever the complete file answers (Found v or NotFound), a truncated copy
   answers the same or fails with a read error - never a silent "not found" or another value *)
Corollary truncated_same_or_error file n k :
  lookup (firstn n file) k = lookup file k \/ lookup (firstn n file) k = ReadErr.
Proof.
  destruct (lookup (firstn n file) k) eqn:E.
  - left. symmetry. apply (lookup_truncated file n k (Found v)); auto. discriminate.
  - left. symmetry. apply (lookup_truncated file n k NotFound); auto. discriminate.
  - now right.
Qed.
End T.
Print Assumptions truncated_same_or_error.
