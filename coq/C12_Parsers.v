(* C12 — parsers of external data (non-decoder part): panic and allocation behaviour of
     compactindexsized.Open / Header.Load / DB.GetBucket / Bucket.Lookup      (compactindex.go, query.go)
     indexes.getDefaultMetadata, indexmeta.Meta.GetUint64                      (metadata.go, indexmeta.go, uints.go)
     carreader.ReadNodeInfoWithData and the section loop                       (carreader/reader.go)
     blocktimeindex.unmarshalBinary / Index.Get                                (blocktimeindex/writer.go)
     bucketteer.readHeader                                                     (bucketteer/read.go)
     linkedlog.ReadWithSize                                                    (gsfa/linkedlog/linked-log.go)
     the `data[1]` kind dispatch and the nil-transaction loop of GetBlock.
   Every function takes a record of GUARD flags: flag = true is the repaired code (the check exists and returns an
   error), flag = false is the code of the pinned tree (no check: the Go runtime panics, or the allocation is made
   with the size found in the file). Outcomes are explicit: Ok | Err | Panic site, and the size of the largest
   single allocation the parser requests is returned next to the outcome.
   Narrowings are written out: 8+4+size in uint32 is [mod 2^32], uint8(ValueSize) is [mod 256], HashLen+OffsetWidth
   in uint8 is [mod 256], 64-HashLen*8 in uint8, uint64 subtraction wraps [mod 2^64], int(x) of x >= 2^63 is negative.
   Offsets are kept in N and converted to nat only after they were compared with the file length. *)
From Coq Require Import List Arith Lia Bool PeanoNat NArith ZifyN ZifyNat ZifyBool.
Import ListNotations.
Require Import YF.Codec YF.C04_Formats YF.Generated.ConstsC04.
Require YF.C10_Load.
Local Open Scope N_scope.

(* ------------------------------------------------------------------ outcomes *)
Inductive ores (A : Type) := OOk (a : A) | OErr | OPanic (site : N).
Arguments OOk {A} a.
Arguments OErr {A}.
Arguments OPanic {A} site.

Definition is_panic {A} (o : ores A) : bool := match o with OPanic _ => true | _ => false end.
(* class numbers used by the harness: 0 ok, 1 error, 2 panic *)
Definition class_of {A} (o : ores A) : N := match o with OOk _ => 0 | OErr => 1 | OPanic _ => 2 end.

(* panic sites *)
Definition site_hdr_short : N := 1.      (* Header.Load: buf[:8] / buf[8:12] of a buffer shorter than 12 *)
Definition site_hdr_fixed : N := 2.      (* Header.Load: buf[12:20], buf[20:24], buf[24] *)
Definition site_entry_slice : N := 3.    (* BucketDescriptor.unmarshalEntry: buf[0:HashLen], buf[HashLen:HashLen+OffsetWidth] *)
Definition site_meta_u64 : N := 4.       (* BtoUint64 / decodeUint64 on a value shorter than 8 bytes *)
Definition site_car_makeslice : N := 5.  (* ReadNodeInfoWithData: make([]byte, sectionLen-cidLen), negative *)
Definition site_bt_makeslice : N := 6.   (* blocktimeindex.unmarshalBinary: make([]int64, capacity) *)
Definition site_bt_index : N := 7.       (* Index.Get: values[slot-start] *)
Definition site_ll_makeslice : N := 8.   (* ReadWithSize: make([]byte, size - sizeOfUvarint(size)), wrapped *)
Definition site_ll_slice : N := 9.       (* ReadWithSize: data[:len(data)-9] *)
Definition site_kind_index : N := 10.    (* data[1] *)
Definition site_nil_tx : N := 11.        (* transactionNode.GetPositionIndex() on a nil *Transaction *)

Definition two32 : N := 4294967296.
Definition two64 : N := 18446744073709551616.

Definition flen (f : list N) : N := N.of_nat (length f).

(* ReadAt on an in-memory file with N offsets: a short read is an error *)
Definition read_n (f : list N) (off len : N) : option (list N) :=
  if off + len <=? flen f then Some (firstn (N.to_nat len) (skipn (N.to_nat off) f)) else None.

Lemma read_n_length f off len bs : read_n f off len = Some bs -> length bs = N.to_nat len.
Proof.
  unfold read_n, flen. destruct (off + len <=? N.of_nat (length f)) eqn:E; [|discriminate].
  intros H. inversion H; subst. rewrite firstn_length, skipn_length. lia.
Qed.

(* ------------------------------------------------------------------ incremental read (the repair of Open / readHeader) *)
(* readFirstBytes / readBytesAt: the buffer starts at min(total, chunk) and doubles only after everything read so far
   was delivered. [avail] = bytes the stream holds from the start offset. Returns (read succeeded, largest allocation). *)
Fixpoint incr_loop (fuel : nat) (avail tot cur amax : N) : bool * N :=
  if cur =? tot then (true, amax)
  else match fuel with
       | O => (false, amax)
       | S f => let next := N.min tot (2 * cur) in
                let amax' := N.max amax next in
                if avail <? next then (false, amax') else incr_loop f avail tot next amax'
       end.
Definition read_incr (chunk avail tot : N) : bool * N :=
  let c := N.min tot chunk in
  if avail <? c then (false, c) else incr_loop 64 avail tot c c.

Lemma incr_loop_alloc fuel : forall avail tot cur amax chunk,
  cur <= avail -> amax <= N.max chunk (2 * avail) ->
  snd (incr_loop fuel avail tot cur amax) <= N.max chunk (2 * avail).
Proof.
  induction fuel as [|f IH]; intros avail tot cur amax chunk Hc Ha; cbn [incr_loop].
  - destruct (cur =? tot); cbn [snd]; exact Ha.
  - destruct (cur =? tot); cbn [snd]; [exact Ha|].
    destruct (avail <? N.min tot (2 * cur)) eqn:E; cbn [snd].
    + lia.
    + apply IH; lia.
Qed.

Lemma read_incr_alloc chunk avail tot : snd (read_incr chunk avail tot) <= N.max chunk (2 * avail).
Proof.
  unfold read_incr. destruct (avail <? N.min tot chunk) eqn:E; cbn [snd]; [lia|].
  apply incr_loop_alloc; lia.
Qed.

(* a successful incremental read delivered [tot] bytes *)
Lemma incr_loop_ok fuel : forall avail tot cur amax a,
  cur <= avail -> incr_loop fuel avail tot cur amax = (true, a) -> tot <= avail.
Proof.
  induction fuel as [|f IH]; intros avail tot cur amax a Hc; cbn [incr_loop].
  - destruct (cur =? tot) eqn:E; [|discriminate]. intros _. lia.
  - destruct (cur =? tot) eqn:E; [intros _; lia|].
    destruct (avail <? N.min tot (2 * cur)) eqn:E2; [discriminate|]. apply IH. lia.
Qed.
Lemma read_incr_ok chunk avail tot a : read_incr chunk avail tot = (true, a) -> tot <= avail.
Proof.
  unfold read_incr. destruct (avail <? N.min tot chunk) eqn:E; [discriminate|]. apply incr_loop_ok. lia.
Qed.

(* the doubling reaches any total below 2^64 within the fuel: a sufficient stream is read completely *)
Lemma incr_loop_complete fuel : forall avail tot cur amax,
  tot <= avail -> 0 < cur -> cur <= tot -> tot <= cur * 2 ^ N.of_nat fuel ->
  fst (incr_loop fuel avail tot cur amax) = true.
Proof.
  induction fuel as [|f IH]; intros avail tot cur amax Ht H0 Hc Hf; cbn [incr_loop].
  - cbn in Hf. replace (cur =? tot) with true by (symmetry; apply N.eqb_eq; lia). reflexivity.
  - destruct (cur =? tot) eqn:E; [reflexivity|]. apply N.eqb_neq in E.
    replace (avail <? N.min tot (2 * cur)) with false by (symmetry; apply N.ltb_ge; lia).
    apply IH; try lia.
    rewrite Nat2N.inj_succ, N.pow_succ_r' in Hf.
    destruct (N.min_spec tot (2 * cur)) as [[_ ->]|[_ ->]]; [|lia].
    assert (1 <= 2 ^ N.of_nat f) by (apply N.lt_pred_le, N.neq_0_lt_0, N.pow_nonzero; lia). nia.
Qed.

Theorem read_incr_complete chunk avail tot :
  0 < chunk -> tot <= avail -> tot < 2 ^ 64 -> fst (read_incr chunk avail tot) = true.
Proof.
  intros Hc Ha Ht. unfold read_incr.
  replace (avail <? N.min tot chunk) with false by (symmetry; apply N.ltb_ge; lia).
  destruct (N.eq_dec tot 0) as [->|Hz].
  - rewrite N.min_0_l. reflexivity.
  - assert (1 <= N.min tot chunk) by lia.
    apply incr_loop_complete; try lia.
Qed.

(* ------------------------------------------------------------------ compactindexsized: Open + Header.Load *)
Record sized_guards := mk_sized_guards {
  g_hdr_len : bool;      (* Header.Load checks len(buf) >= 25 *)
  g_hdr_total64 : bool;  (* Open computes 8+4+size in 64 bits *)
  g_hdr_incr : bool;     (* Open reads the header incrementally (readFirstBytes) *)
  g_value_size : bool;   (* GetBucket rejects ValueSize = 0 or > 252 *)
  g_hash_len : bool      (* GetBucket rejects HashLen + OffsetWidth > Stride *)
}.
Definition sized_all : sized_guards := mk_sized_guards true true true true true.
Definition sized_none : sized_guards := mk_sized_guards false false false false false.

Record hdr := mk_hdr { h_vs : N; h_nb : N; h_size : N }.

Definition open_chunk : N := 65536.

(* Header.Load on the buffer [buf] (the first [tot] bytes of the file, whose magic was already checked by Open) *)
Definition header_load (g : sized_guards) (buf : list N) : ores hdr :=
  let blen := flen buf in
  if g_hdr_len g && (blen <? 25) then OErr
  else if blen <? 12 then OPanic site_hdr_short
  else if negb (bytes_eqb (firstn 8 buf) sized_Magic) then OErr
  else
    let size := le_dec (firstn 4 (skipn 8 buf)) in
    if size <? 12 then OErr
    else if blen mod two32 <? size then OErr
    else if blen <? 25 then OPanic site_hdr_fixed
    else
      let vs := le_dec (firstn 8 (skipn 12 buf)) in
      let nb := le_dec (firstn 4 (skipn 20 buf)) in
      if negb (nth 24 buf 0 =? sized_Version) then OErr
      else match parse_meta (skipn 25 buf) with
           | None => OErr
           | Some _ => if vs =? 0 then OErr else if nb =? 0 then OErr else OOk (mk_hdr vs nb blen)
           end.

(* query.go Open: returns the outcome and the largest allocation requested *)
Definition open_sized_c12 (g : sized_guards) (file : list N) : ores hdr * N :=
  let len := flen file in
  if len <? 12 then (OErr, 0)
  else if negb (bytes_eqb (firstn 8 file) sized_Magic) then (OErr, 0)
  else
    let size := le_dec (firstn 4 (skipn 8 file)) in
    let tot := if g_hdr_total64 g then 12 + size else (12 + size) mod two32 in
    let '(okread, a) := if g_hdr_incr g then read_incr open_chunk len tot
                        else (tot <=? len, tot) in
    if negb okread then (OErr, a)
    else (header_load g (firstn (N.to_nat tot) file), a).

(* ------------------------------------------------------------------ compactindexsized: GetBucket + Lookup *)
Inductive lres := LFound | LNotFound | LErr | LPanic (site : N) | LFuel.

(* unmarshalEntry slices a buffer of capacity [stride] with buf[0:hl] and buf[hl:(hl+ow) mod 256] *)
Definition entry_panics (stride hl ow : N) : bool :=
  (stride <? hl) || (stride <? (hl + ow) mod 256) || ((hl + ow) mod 256 <? hl).

(* BucketHeader.Hash: xsum & (MaxUint64 >> (64 - HashLen*8)), the shift count computed in uint8 *)
Definition hash_mask (hl : N) : N :=
  let sh := (64 + 256 - (hl * 8) mod 256) mod 256 in
  if 64 <=? sh then 0 else (two64 - 1) / 2 ^ sh.

Fixpoint search_c12 (fuel : nat) (file : list N) (foff stride hl ow n target idx : N) : lres :=
  if idx <? n then
    match fuel with
    | O => LFuel
    | S f =>
      (* loadEntry: the section reader never cuts an entry with idx < n; the stream must hold it.
         A zero stride reads nothing and "succeeds". *)
      match (if stride =? 0 then Some [] else read_n file (foff + idx * stride) stride) with
      | None => LErr
      | Some buf =>
        if entry_panics stride hl ow then LPanic site_entry_slice
        else
          let h := le_dec (firstn (N.to_nat (N.min hl 8)) buf) in
          if h =? target then LFound
          else search_c12 f file foff stride hl ow n target (if h <? target then 2 * idx + 2 else 2 * idx + 1)
      end
    end
  else LNotFound.

Definition lookup_sized_c12 (g : sized_guards) (file : list N) (h : hdr) (bidx xsum : N) : lres :=
  if h_nb h <=? bidx then LErr
  else if g_value_size g && ((h_vs h =? 0) || (252 <? h_vs h)) then LErr
  else
    let ow := h_vs h mod 256 in
    let stride := (3 + ow) mod 256 in
    match read_n file (h_size h + 16 * bidx) 16 with
    | None => LErr
    | Some bh =>
      let n := le_dec (firstn 4 (skipn 4 bh)) in
      let hl := nth 8 bh 0 in
      let foff := le_dec (firstn 6 (skipn 10 bh)) in
      if g_hash_len g && (stride <? hl + ow) then LErr
      else search_c12 64 file foff stride hl ow n (N.land xsum (hash_mask hl)) 0
    end.

(* ---------- totality of the repaired reader ---------- *)
(* small list facts *)
Lemma In_firstn_in {A} (x : A) n l : In x (firstn n l) -> In x l.
Proof. revert l; induction n; intros [|a l]; cbn; try tauto. intros [H|H]; [left; exact H|right; apply IHn, H]. Qed.
Lemma In_skipn_in {A} (x : A) n l : In x (skipn n l) -> In x l.
Proof. revert l; induction n; intros [|a l]; cbn; try tauto. intros H; right; apply IHn, H. Qed.
Lemma Forall_firstn_skipn (P : N -> Prop) a b l : Forall P l -> Forall P (firstn a (skipn b l)).
Proof.
  intros H. apply Forall_forall. intros x Hx. apply (proj1 (Forall_forall _ _) H).
  apply (In_skipn_in _ _ _ (In_firstn_in _ _ _ Hx)).
Qed.
Lemma read_n_Forall (P : N -> Prop) f off len bs : Forall P f -> read_n f off len = Some bs -> Forall P bs.
Proof.
  unfold read_n. intros Hf. destruct (off + len <=? flen f); [|discriminate].
  intros H. injection H as <-. apply Forall_firstn_skipn, Hf.
Qed.
Lemma le_dec_bound bs : Forall (fun b => b < 256) bs -> le_dec bs < 256 ^ N.of_nat (length bs).
Proof.
  induction 1 as [|b r Hb Hr IH]; cbn [le_dec length]; [cbn; lia|].
  rewrite Nat2N.inj_succ, N.pow_succ_r'. assert (b < 256) by exact Hb. lia.
Qed.

Lemma header_load_guarded buf : forall s, header_load sized_all buf <> OPanic s.
Proof.
  intros s. unfold header_load. cbn [g_hdr_len sized_all].
  destruct (flen buf <? 25) eqn:E; cbn [andb]; [discriminate|].
  replace (flen buf <? 12) with false by (symmetry; apply N.ltb_ge; apply N.ltb_ge in E; lia).
  repeat match goal with
         | |- (if ?b then _ else _) <> _ => destruct b; try discriminate
         | |- match ?x with _ => _ end <> _ => destruct x; try discriminate
         end.
Qed.

Theorem open_sized_total : forall file,
  (forall s, fst (open_sized_c12 sized_all file) <> OPanic s) /\
  snd (open_sized_c12 sized_all file) <= 2 * flen file + 65536.
Proof.
  intros file. unfold open_sized_c12. cbn [g_hdr_total64 g_hdr_incr sized_all].
  destruct (flen file <? 12); [split; [discriminate|cbn; lia]|].
  destruct (negb (bytes_eqb (firstn 8 file) sized_Magic)); [split; [discriminate|cbn; lia]|].
  set (tot := 12 + le_dec (firstn 4 (skipn 8 file))).
  pose proof (read_incr_alloc open_chunk (flen file) tot) as Ha.
  destruct (read_incr open_chunk (flen file) tot) as [okr a]. cbn [snd] in Ha. unfold open_chunk in Ha.
  destruct okr; cbn [negb fst snd]; (split; [|lia]).
  - intros s. apply header_load_guarded.
  - discriminate.
Qed.

Lemma entry_ok_guarded vs hl : 1 <= vs -> vs <= 252 -> hl + vs mod 256 <= (3 + vs mod 256) mod 256 ->
  entry_panics ((3 + vs mod 256) mod 256) hl (vs mod 256) = false.
Proof.
  intros H1 H2. rewrite (N.mod_small vs 256) by lia. rewrite (N.mod_small (3 + vs) 256) by lia. intros H3.
  unfold entry_panics. rewrite (N.mod_small (hl + vs) 256) by lia.
  repeat (apply orb_false_intro); apply N.ltb_ge; lia.
Qed.

Lemma search_no_panic_when_entry_ok fuel : forall file foff stride hl ow n target idx s,
  entry_panics stride hl ow = false -> search_c12 fuel file foff stride hl ow n target idx <> LPanic s.
Proof.
  induction fuel as [|f IH]; intros file foff stride hl ow n target idx s He; cbn [search_c12];
    (destruct (idx <? n); [|discriminate]); [discriminate|].
  destruct (if stride =? 0 then Some [] else read_n file (foff + idx * stride) stride) as [buf|]; [|discriminate].
  rewrite He. destruct (_ =? target); [discriminate|]. apply IH. exact He.
Qed.

(* the eytzinger descent terminates by itself: the index at least doubles at every step, so with fewer than 2^64
   entries (NumEntries is a uint32) the fuel never decides the answer *)
Lemma search_fuel_suffices fuel : forall file foff stride hl ow n target idx,
  n < (idx + 1) * 2 ^ N.of_nat fuel -> search_c12 fuel file foff stride hl ow n target idx <> LFuel.
Proof.
  induction fuel as [|f IH]; intros file foff stride hl ow n target idx Hn; cbn [search_c12].
  - cbn in Hn. replace (idx <? n) with false by (symmetry; apply N.ltb_ge; lia). discriminate.
  - destruct (idx <? n); [|discriminate].
    destruct (if stride =? 0 then Some [] else read_n file (foff + idx * stride) stride) as [buf|]; [|discriminate].
    destruct (entry_panics stride hl ow); [discriminate|].
    destruct (_ =? target); [discriminate|].
    rewrite Nat2N.inj_succ, N.pow_succ_r' in Hn.
    apply IH. destruct (_ <? target); nia.
Qed.

Theorem lookup_sized_total : forall file h bidx xsum s, lookup_sized_c12 sized_all file h bidx xsum <> LPanic s.
Proof.
  intros file h bidx xsum s. unfold lookup_sized_c12. cbn [g_value_size g_hash_len sized_all andb].
  destruct (h_nb h <=? bidx); [discriminate|].
  destruct ((h_vs h =? 0) || (252 <? h_vs h)) eqn:Ev; [discriminate|].
  apply orb_false_elim in Ev. destruct Ev as [E0 E252]. apply N.eqb_neq in E0. apply N.ltb_ge in E252.
  destruct (read_n file (h_size h + 16 * bidx) 16) as [bh|]; [|discriminate].
  destruct ((3 + h_vs h mod 256) mod 256 <? nth 8 bh 0 + h_vs h mod 256) eqn:Eh; [discriminate|].
  apply N.ltb_ge in Eh. apply search_no_panic_when_entry_ok. apply entry_ok_guarded; lia.
Qed.

Theorem lookup_sized_terminates : forall g file h bidx xsum,
  Forall (fun b => b < 256) file -> lookup_sized_c12 g file h bidx xsum <> LFuel.
Proof.
  intros g file h bidx xsum Hb. unfold lookup_sized_c12.
  destruct (h_nb h <=? bidx); [discriminate|].
  destruct (g_value_size g && _); [discriminate|].
  destruct (read_n file (h_size h + 16 * bidx) 16) as [bh|] eqn:Er; [|discriminate].
  destruct (g_hash_len g && _); [discriminate|].
  apply search_fuel_suffices.
  assert (Hbh : Forall (fun b => b < 256) bh) by (eapply read_n_Forall; eassumption).
  pose proof (le_dec_bound (firstn 4 (skipn 4 bh))) as Hd.
  assert (Hf : Forall (fun b => b < 256) (firstn 4 (skipn 4 bh))) by (apply Forall_firstn_skipn, Hbh).
  specialize (Hd Hf). rewrite firstn_length in Hd.
  assert (256 ^ N.of_nat (Nat.min 4 (length (skipn 4 bh))) <= 256 ^ 4).
  { apply N.pow_le_mono_r; lia. }
  change (2 ^ N.of_nat 64) with 18446744073709551616. change (256 ^ 4) with 4294967296 in *. lia.
Qed.

(* ---------- the pinned reader does panic / does allocate without bound: witnesses ---------- *)
(* magic ++ length 12 ++ 12 header bytes: Load indexes buf[24] of a 24-byte buffer *)
Definition w_hdr12 : list N := sized_Magic ++ [12; 0; 0; 0] ++ [36; 0; 0; 0; 0; 0; 0; 0; 1; 0; 0; 0].
(* length field 2^32-12: 8+4+size wraps to 0 in uint32, Load slices buf[:8] of an empty buffer *)
Definition w_hdr_wrap : list N := sized_Magic ++ [244; 255; 255; 255] ++ [36; 0; 0; 0; 0; 0; 0; 0; 1; 0; 0; 0; 1; 0].
(* length field 2^28 on a 26-byte file *)
Definition w_hdr_big : list N := sized_Magic ++ [0; 0; 0; 16] ++ [36; 0; 0; 0; 0; 0; 0; 0; 1; 0; 0; 0; 1; 0].
(* a complete 46-byte index: value size 1, one bucket with one entry, and a bucket header whose HashLen is 200 *)
Definition w_idx (vs hl : N) : list N :=
  sized_Magic ++ [14; 0; 0; 0] ++ [vs; 0; 0; 0; 0; 0; 0; 0] ++ [1; 0; 0; 0] ++ [1] ++ [0] ++
  ([0; 0; 0; 0] ++ [1; 0; 0; 0] ++ [hl; 0] ++ [42; 0; 0; 0; 0; 0]) ++ [5; 0; 0; 7].

Lemma open_refuted_hdr_len : fst (open_sized_c12 sized_none w_hdr12) = OPanic site_hdr_fixed.
Proof. vm_compute. reflexivity. Qed.
Lemma open_refuted_hdr_wrap : fst (open_sized_c12 sized_none w_hdr_wrap) = OPanic site_hdr_short.
Proof. vm_compute. reflexivity. Qed.
Lemma open_refuted_alloc : snd (open_sized_c12 sized_none w_hdr_big) = 268435468 /\ flen w_hdr_big = 26.
Proof. vm_compute. split; reflexivity. Qed.
Lemma open_witnesses_guarded :
  fst (open_sized_c12 sized_all w_hdr12) = OErr /\ fst (open_sized_c12 sized_all w_hdr_wrap) = OErr /\
  (open_sized_c12 sized_all w_hdr_big = (OErr, 65536)).
Proof. vm_compute. repeat split; reflexivity. Qed.
Lemma lookup_refuted_hash_len :
  fst (open_sized_c12 sized_none (w_idx 1 200)) = OOk (mk_hdr 1 1 26) /\
  lookup_sized_c12 sized_none (w_idx 1 200) (mk_hdr 1 1 26) 0 5 = LPanic site_entry_slice.
Proof. vm_compute. split; reflexivity. Qed.
Lemma lookup_refuted_value_size :
  lookup_sized_c12 sized_none (w_idx 253 3) (mk_hdr 253 1 26) 0 5 = LPanic site_entry_slice.
Proof. vm_compute. reflexivity. Qed.
Lemma lookup_witnesses_guarded :
  lookup_sized_c12 sized_all (w_idx 1 200) (mk_hdr 1 1 26) 0 5 = LErr /\
  lookup_sized_c12 sized_all (w_idx 253 3) (mk_hdr 253 1 26) 0 5 = LErr /\
  lookup_sized_c12 sized_all (w_idx 1 3) (mk_hdr 1 1 26) 0 5 = LFound.
Proof. vm_compute. repeat split; reflexivity. Qed.

(* ------------------------------------------------------------------ metadata: 8-byte values *)
(* indexes.getDefaultMetadata on the epoch value (None = key absent); indexmeta.Meta.GetUint64 likewise.
   OOk = the value is decoded and the remaining (abstract: cid.Cast, kind comparison) checks follow. *)
Definition meta_u64 (g : bool) (v : option (list N)) : ores N :=
  match v with
  | None => OErr
  | Some bs =>
    if flen bs <? 8 then (if g then OErr else OPanic site_meta_u64)
    else if g && (8 <? flen bs) then OErr
    else OOk (le_dec (firstn 8 bs))
  end.
Theorem meta_u64_total : forall v s, meta_u64 true v <> OPanic s.
Proof. intros [bs|] s; cbn [meta_u64]; [|discriminate]. destruct (flen bs <? 8); [discriminate|]. destruct (true && _); discriminate. Qed.
Lemma meta_u64_refuted : meta_u64 false (Some [1; 2; 3]) = OPanic site_meta_u64 /\ meta_u64 true (Some [1; 2; 3]) = OErr.
Proof. vm_compute. split; reflexivity. Qed.

(* ------------------------------------------------------------------ CAR sections *)
Definition max_section : N := 33554432.  (* go-car util.MaxAllowedSectionSize, 32 MiB *)

(* carreader.ReadNodeInfoWithData on the bytes [bs] that remain in the stream. [cl] is what go-cid's CidFromReader
   does on the bytes after the length prefix: None = error, Some c = a CID in the first c bytes.
   Returns the outcome (OOk = bytes consumed) and the allocation. *)
Definition car_section (g : bool) (cl : list N -> option nat) (bs : list N) : ores nat * N :=
  match bs with
  | [] => (OErr, 0)                                    (* clean EOF *)
  | _ =>
    match uvarint_dec bs with
    | None => (OErr, 0)
    | Some (l, n) =>
      if max_section <? l then (OErr, 0)
      else
        let rest := skipn n bs in
        match cl rest with
        | None => (OErr, 0)
        | Some c =>
          if l <? N.of_nat c then (if g then (OErr, 0) else (OPanic site_car_makeslice, 0))
          else
            let rem := l - N.of_nat c in
            if N.of_nat (length rest - c) <? rem then (OErr, rem)
            else (OOk (n + c + N.to_nat rem)%nat, rem)
        end
    end
  end.

Inductive wres := WDone (sections : nat) | WErr (sections : nat) | WPanic (site : N) | WFuel.
(* the NextNode loop of every CAR consumer: read sections until EOF or error *)
Fixpoint car_walk (fuel : nat) (g : bool) (cl : list N -> option nat) (bs : list N) (k : nat) : wres :=
  match bs with
  | [] => WDone k
  | _ =>
    match fuel with
    | O => WFuel
    | S f =>
      match fst (car_section g cl bs) with
      | OOk used => car_walk f g cl (skipn used bs) (S k)
      | OErr => WErr k
      | OPanic s => WPanic s
      end
    end
  end.

Theorem car_section_total : forall cl bs,
  (forall s, fst (car_section true cl bs) <> OPanic s) /\ snd (car_section true cl bs) <= max_section.
Proof.
  intros cl bs. unfold car_section. destruct bs as [|b r]; [split; [discriminate|cbn; lia]|].
  destruct (uvarint_dec (b :: r)) as [[l n]|]; [|split; [discriminate|cbn; lia]].
  destruct (max_section <? l) eqn:El; [split; [discriminate|cbn; lia]|]. apply N.ltb_ge in El.
  destruct (cl (skipn n (b :: r))) as [c|]; [|split; [discriminate|cbn; lia]].
  destruct (l <? N.of_nat c); [split; [discriminate|cbn; lia]|].
  destruct (_ <? l - N.of_nat c); cbn [fst snd]; (split; [discriminate|lia]).
Qed.

Lemma uv_dec_consumes bs : forall i acc sh v n, uv_dec i acc sh bs = Some (v, n) -> (i < n)%nat.
Proof.
  induction bs as [|b r IH]; intros i acc sh v n; cbn [uv_dec]; [discriminate|].
  destruct (Nat.eqb i 10); [discriminate|]. destruct (b <? 128).
  - destruct (Nat.eqb i 9 && (1 <? b)); [discriminate|]. intros H; inversion H; subst. lia.
  - intros H. apply IH in H. lia.
Qed.

(* a successful section consumes at least one byte: the loop terminates on every finite stream *)
Theorem car_walk_total : forall cl bs k,
  (forall s, car_walk (S (length bs)) true cl bs k <> WPanic s) /\ car_walk (S (length bs)) true cl bs k <> WFuel.
Proof.
  intros cl bs. remember (S (length bs)) as fuel eqn:Hf.
  assert (Hlen : (length bs < fuel)%nat) by lia. clear Hf. revert bs Hlen.
  induction fuel as [|f IH]; intros bs Hlen k; [lia|].
  cbn [car_walk]. destruct bs as [|b r] eqn:Eb; [split; discriminate|]. rewrite <- Eb in *.
  pose proof (car_section_total cl bs) as [Hp _].
  destruct (fst (car_section true cl bs)) as [used| |s] eqn:Es.
  - assert (Hu : (0 < used)%nat).
    { unfold car_section in Es. rewrite Eb in Es. rewrite <- Eb in Es.
      destruct (uvarint_dec bs) as [[l n]|] eqn:Eu; [|discriminate].
      unfold uvarint_dec in Eu. apply uv_dec_consumes in Eu.
      destruct (max_section <? l); [discriminate|].
      destruct (cl (skipn n bs)) as [c|]; [|discriminate].
      destruct (l <? N.of_nat c); [discriminate|].
      destruct (_ <? l - N.of_nat c); [discriminate|]. cbn [fst] in Es. inversion Es. lia. }
    apply IH. rewrite skipn_length. rewrite Eb in *. cbn [length] in *. lia.
  - split; discriminate.
  - exfalso. exact (Hp s eq_refl).
Qed.

(* section length 2 followed by a 36-byte CIDv1 (cid length given by the reader: 36) *)
Lemma car_refuted : fst (car_section false (fun _ => Some 36%nat) (2 :: repeat 0 36)) = OPanic site_car_makeslice /\
                    fst (car_section true (fun _ => Some 36%nat) (2 :: repeat 0 36)) = OErr.
Proof. vm_compute. split; reflexivity. Qed.

(* ------------------------------------------------------------------ block-time index *)
Record bt_guards := mk_bt_guards {
  g_bt_capacity : bool;  (* capacity <= remaining bytes / 4 before make *)
  g_bt_readfull : bool;  (* io.ReadFull instead of Read *)
  g_bt_get : bool        (* Get/Set check slot-start < len(values) *)
}.
Definition bt_all := mk_bt_guards true true true.
Definition bt_none := mk_bt_guards false false false.

Definition bt_magic : list N := [98; 108; 111; 99; 107; 116; 105; 109; 101; 105; 110; 100; 101; 120]. (* "blocktimeindex" *)
Definition epoch_len : N := 432000.
Definition max_alloc : N := 281474976710656.   (* runtime.maxAlloc on linux/amd64: 2^48 *)

(* bytes.Reader.Read(buf of n bytes): io.ReadFull fails on a short read; a bare Read fails only at EOF and
   otherwise leaves the rest of the buffer zero *)
Definition bt_field (full : bool) (n : nat) (bs : list N) : option (N * list N) :=
  if full then (if (length bs <? n)%nat then None else Some (le_dec (firstn n bs), skipn n bs))
  else match bs with [] => None | _ => Some (le_dec (firstn n bs), skipn n bs) end.

Record bt_index := mk_bt { bt_start : N; bt_end : N; bt_epoch : N; bt_capacity : N }.

Definition bt_unmarshal_c12 (g : bt_guards) (bs : list N) : ores bt_index * N :=
  let full := g_bt_readfull g in
  if (if full then (length bs <? 14)%nat else match bs with [] => true | _ => false end) then (OErr, 0)
  else if negb (bytes_eqb (firstn 14 bs) bt_magic) then (OErr, 0)
  else
    match bt_field full 8 (skipn 14 bs) with None => (OErr, 0) | Some (st, r1) =>
    match bt_field full 8 r1 with None => (OErr, 0) | Some (en, r2) =>
    match bt_field full 8 r2 with None => (OErr, 0) | Some (ep, r3) =>
    if negb (st / epoch_len =? en / epoch_len) then (OErr, 0)
    else if negb (st / epoch_len =? ep) then (OErr, 0)
    else
    match bt_field full 8 r3 with None => (OErr, 0) | Some (cap, r4) =>
      let remaining := flen r4 in
      if g_bt_capacity g && (remaining / 4 <? cap) then (OErr, 0)
      else if (two64 / 2 <=? cap) || (max_alloc <? 8 * cap) then (OPanic site_bt_makeslice, 0)
      else
        (* the loop reads [cap] 4-byte values *)
        if (if full then remaining <? 4 * cap else (remaining + 3) / 4 <? cap) then (OErr, 8 * cap)
        else (OOk (mk_bt st en ep cap), 8 * cap)
    end end end end.

Definition bt_get (g : bt_guards) (i : bt_index) (slot : N) : ores unit :=
  if (slot <? bt_start i) || (bt_end i <? slot) then OErr
  else if bt_capacity i <=? slot - bt_start i then (if g_bt_get g then OErr else OPanic site_bt_index)
  else OOk tt.

(* Forced hypothesis: the input is a Go byte slice held in memory, hence shorter than 2^47 bytes (the user address
   space; runtime.maxAlloc is 2^48). Without it 8*capacity <= 2*len could itself exceed maxAlloc. *)
Definition mem_limit : N := 140737488355328.

Theorem bt_unmarshal_total : forall bs, flen bs < mem_limit ->
  (forall s, fst (bt_unmarshal_c12 bt_all bs) <> OPanic s) /\ snd (bt_unmarshal_c12 bt_all bs) <= 2 * flen bs.
Proof.
  intros bs Hmem. unfold bt_unmarshal_c12. cbn [g_bt_readfull g_bt_capacity bt_all andb].
  destruct (length bs <? 14)%nat eqn:E14; [split; [discriminate|cbn; lia]|].
  destruct (negb _); [split; [discriminate|cbn; lia]|].
  unfold bt_field.
  repeat match goal with
         | |- context [if (length ?l <? 8)%nat then _ else _] => destruct (length l <? 8)%nat eqn:?; [split; [discriminate|cbn; lia]|]
         end.
  destruct (negb _); [split; [discriminate|cbn; lia]|].
  destruct (negb _); [split; [discriminate|cbn; lia]|].
  destruct (length (skipn 8 (skipn 8 (skipn 8 (skipn 14 bs)))) <? 8)%nat; [split; [discriminate|cbn; lia]|].
  set (r4 := skipn 8 (skipn 8 (skipn 8 (skipn 8 (skipn 14 bs))))).
  set (cap := le_dec (firstn 8 (skipn 8 (skipn 8 (skipn 8 (skipn 14 bs)))))).
  assert (Hr : flen r4 <= flen bs). { unfold r4, flen. rewrite !skipn_length. lia. }
  destruct (flen r4 / 4 <? cap) eqn:Ec; [split; [discriminate|cbn; lia]|]. apply N.ltb_ge in Ec.
  assert (Hcap : 4 * cap <= flen r4) by (pose proof (N.div_mod (flen r4) 4); lia).
  unfold mem_limit in Hmem.
  replace ((two64 / 2 <=? cap) || (max_alloc <? 8 * cap)) with false.
  2:{ symmetry. apply orb_false_intro; [apply N.leb_gt|apply N.ltb_ge]; unfold two64, max_alloc;
      [change (18446744073709551616 / 2) with 9223372036854775808|]; lia. }
  destruct (flen r4 <? 4 * cap); cbn [fst snd]; (split; [discriminate|lia]).
Qed.

Theorem bt_get_total : forall i slot s, bt_get bt_all i slot <> OPanic s.
Proof.
  intros i slot s. unfold bt_get. cbn [g_bt_get bt_all].
  destruct (_ || _); [discriminate|]. destruct (_ <=? _); discriminate.
Qed.

(* magic, slots 0..431999 of epoch 0, capacity 2^62 (panic) / 2^40 (8 TiB requested) / 1 with a Get of slot 5 *)
Definition w_bt (cap : N) : list N :=
  bt_magic ++ le_enc 8 0 ++ le_enc 8 431999 ++ le_enc 8 0 ++ le_enc 8 cap ++ [1; 0; 0; 0].
Lemma bt_refuted_makeslice : fst (bt_unmarshal_c12 bt_none (w_bt 4611686018427387904)) = OPanic site_bt_makeslice.
Proof. vm_compute. reflexivity. Qed.
Lemma bt_refuted_alloc : snd (bt_unmarshal_c12 bt_none (w_bt 1099511627776)) = 8796093022208 /\ flen (w_bt 1099511627776) = 50.
Proof. vm_compute. split; reflexivity. Qed.
Lemma bt_refuted_get :
  fst (bt_unmarshal_c12 bt_none (w_bt 1)) = OOk (mk_bt 0 431999 0 1) /\
  bt_get bt_none (mk_bt 0 431999 0 1) 5 = OPanic site_bt_index /\ bt_get bt_all (mk_bt 0 431999 0 1) 5 = OErr.
Proof. vm_compute. repeat split; reflexivity. Qed.
Lemma bt_witnesses_guarded :
  fst (bt_unmarshal_c12 bt_all (w_bt 4611686018427387904)) = OErr /\ (bt_unmarshal_c12 bt_all (w_bt 1099511627776) = (OErr, 0)) /\
  (bt_unmarshal_c12 bt_all (w_bt 1) = (OOk (mk_bt 0 431999 0 1), 8)).
Proof. vm_compute. repeat split; reflexivity. Qed.

(* ------------------------------------------------------------------ bucketteer header *)
Definition bkt_magic : list N := [98; 117; 99; 107; 101; 116; 116; 101].   (* "buckette" *)
Definition bkt_version : N := 2.
Definition bkt_chunk : N := 1048576.

(* numPrefixes iterations of (2-byte prefix, uint64 offset): each needs 10 bytes of the header *)
Fixpoint bkt_prefixes (fuel : nat) (cnt : N) (bs : list N) : bool :=
  if cnt =? 0 then true
  else match fuel with
       | O => false
       | S f => if (length bs <? 10)%nat then false else bkt_prefixes f (cnt - 1) (skipn 10 bs)
       end.

(* the decoded part of readHeader, on the header bytes *)
Definition bkt_decode (hb : list N) : bool :=
  if (length hb <? 8)%nat then false
  else if negb (bytes_eqb (firstn 8 hb) bkt_magic) then false
  else
    let r1 := skipn 8 hb in
    if (length r1 <? 8)%nat then false
    else if negb (le_dec (firstn 8 r1) =? bkt_version) then false
    else
      match skipn 8 r1 with
      | [] => false                                             (* the metadata count byte is missing *)
      | c :: r2 =>
        match YF.C10_Load.dec_kvs (N.to_nat c) r2 with
        | None => false
        | Some (_, r3) =>
          if (length r3 <? 8)%nat then false
          else bkt_prefixes (length r3) (le_dec (firstn 8 r3)) (skipn 8 r3)
        end
      end.

(* bucketteer.NewReader: outcome class and the largest allocation *)
Definition bkt_open (g : bool) (file : list N) : ores unit * N :=
  match file with
  | [] => (OErr, 1)
  | _ =>
    if flen file <? 4 then (OErr, 4)
    else
      let hs := le_dec (firstn 4 file) in
      let '(okread, a) := if g then read_incr bkt_chunk (flen file - 4) hs else (4 + hs <=? flen file, hs) in
      if negb okread then (OErr, a)
      else if bkt_decode (firstn (N.to_nat hs) (skipn 4 file)) then (OOk tt, a) else (OErr, a)
  end.

Theorem bkt_open_total : forall file,
  (forall s, fst (bkt_open true file) <> OPanic s) /\ snd (bkt_open true file) <= 2 * flen file + 1048576.
Proof.
  intros file. unfold bkt_open. destruct file as [|b r] eqn:Ef; [split; [discriminate|cbn; lia]|]. rewrite <- Ef.
  destruct (flen file <? 4) eqn:E4; [split; [discriminate|cbn; lia]|]. apply N.ltb_ge in E4.
  pose proof (read_incr_alloc bkt_chunk (flen file - 4) (le_dec (firstn 4 file))) as Ha.
  destruct (read_incr bkt_chunk (flen file - 4) (le_dec (firstn 4 file))) as [okr a]. cbn [snd] in Ha. unfold bkt_chunk in Ha.
  destruct okr; cbn [negb]; [destruct (bkt_decode _)|]; cbn [fst snd]; (split; [discriminate|lia]).
Qed.
Lemma bkt_refuted_alloc : snd (bkt_open false ([255; 255; 255; 255] ++ bkt_magic)) = 4294967295 /\
                          (bkt_open true ([255; 255; 255; 255] ++ bkt_magic) = (OErr, 1048576)).
Proof. vm_compute. split; reflexivity. Qed.

(* ------------------------------------------------------------------ linked log: ReadWithSize *)
Definition ll_max : N := 268435456.   (* 256 MiB *)
Definition uvlen (x : N) : N := flen (uvarint x).

(* [g] = the record is read whole, its length prefix parsed from the record and checked against [size]
   (fixes/C06-prefix-width.diff); [gb] = the record must lie inside the file before anything is allocated
   (fixes/C12-linkedlog-size.diff). [dec] = whether the zstd payload decodes (abstract). *)
Definition ll_read (g gb : bool) (file : list N) (offset size : N) (dec : list N -> bool) : ores unit * N :=
  if ll_max <? size then (OErr, 0)
  else if g then
    if gb && ((flen file <? offset) || (flen file - offset <? size)) then (OErr, 0)
    else
    match read_n file offset size with
    | None => (OErr, size)
    | Some record =>
      match uvarint_dec record with
      | None => (OErr, size)
      | Some (plen, w) =>
        if negb (plen =? size - N.of_nat w) then (OErr, size)
        else if plen <? 9 then (OErr, size)
        else if dec (firstn (N.to_nat (plen - 9)) (skipn w record)) then (OOk tt, size) else (OErr, size)
      end
    end
  else
    let w := uvlen size in
    if size <? w then (OPanic site_ll_makeslice, 0)          (* uint64 wrap-around: 2^64 - 1 bytes requested *)
    else
      let dl := size - w in
      match (if dl =? 0 then Some [] else read_n file (offset + w) dl) with
      | None => (OErr, dl)
      | Some data =>
        if dl <? 9 then (OPanic site_ll_slice, dl)
        else if dec (firstn (N.to_nat (dl - 9)) data) then (OOk tt, dl) else (OErr, dl)
      end.

Theorem ll_read_total : forall file offset size dec,
  (forall s, fst (ll_read true true file offset size dec) <> OPanic s) /\
  snd (ll_read true true file offset size dec) <= N.min ll_max (flen file).
Proof.
  intros file offset size dec. unfold ll_read. destruct (ll_max <? size) eqn:E; [split; [discriminate|cbn; lia]|].
  apply N.ltb_ge in E. cbn [andb].
  destruct ((flen file <? offset) || (flen file - offset <? size)) eqn:Eb; [split; [discriminate|cbn; lia]|].
  apply orb_false_elim in Eb. destruct Eb as [E1 E2]. apply N.ltb_ge in E1. apply N.ltb_ge in E2.
  destruct (read_n file offset size); [|split; [discriminate|cbn [snd]; lia]].
  destruct (uvarint_dec l) as [[plen w]|]; [|split; [discriminate|cbn [snd]; lia]].
  destruct (negb _); [split; [discriminate|cbn [snd]; lia]|].
  destruct (plen <? 9); [split; [discriminate|cbn [snd]; lia]|].
  destruct (dec _); cbn [fst snd]; (split; [discriminate|lia]).
Qed.
Lemma ll_refuted : forall dec,
  fst (ll_read false false [5; 1; 2; 3; 4; 5] 0 0 dec) = OPanic site_ll_makeslice /\
  fst (ll_read false false [5; 1; 2; 3; 4; 5] 0 6 dec) = OPanic site_ll_slice /\
  fst (ll_read true true [5; 1; 2; 3; 4; 5] 0 0 dec) = OErr /\ fst (ll_read true true [5; 1; 2; 3; 4; 5] 0 6 dec) = OErr /\
  snd (ll_read true false [5; 1; 2; 3; 4; 5] 0 ll_max dec) = ll_max /\ snd (ll_read true true [5; 1; 2; 3; 4; 5] 0 ll_max dec) = 0.
Proof. intros dec. vm_compute. repeat split; reflexivity. Qed.

(* ------------------------------------------------------------------ kind dispatch and the GetBlock transaction loop *)
Definition kind_of (g : bool) (data : list N) : ores N :=
  if (length data <? 2)%nat then (if g then OErr else OPanic site_kind_index) else OOk (nth 1 data 0).
Theorem kind_of_total : forall data s, kind_of true data <> OPanic s.
Proof. intros data s. unfold kind_of. destruct (_ <? _)%nat; discriminate. Qed.
Lemma kind_of_refuted : kind_of false [130] = OPanic site_kind_index /\ kind_of false [] = OPanic site_kind_index /\
                        kind_of true [130] = OErr.
Proof. vm_compute. repeat split; reflexivity. Qed.

(* GetBlock (JSON-RPC and gRPC): [fetched] = for every transaction link of the block, whether the fetch + decode
   succeeded. Pinned: a failure is logged and the slot stays nil, the loop then calls a method on it. *)
Definition assemble_block (g : bool) (fetched : list bool) : ores nat :=
  if forallb (fun b => b) fetched then OOk (length fetched)
  else if g then OErr else OPanic site_nil_tx.
Theorem assemble_block_total : forall fetched s, assemble_block true fetched <> OPanic s.
Proof. intros f s. unfold assemble_block. destruct (forallb _ f); discriminate. Qed.
Lemma assemble_block_refuted : assemble_block false [true; false; true] = OPanic site_nil_tx /\
                               assemble_block true [true; false; true] = OErr.
Proof. vm_compute. split; reflexivity. Qed.
