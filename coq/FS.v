From Coq Require Import List Arith Lia Bool PeanoNat NArith Permutation.
Import ListNotations.

(* Model of first-success.go:FirstSuccess with a live context.
   jobs = list of outcomes (what fn(ctx) returns for job i).  A schedule is a list of choices. *)
Inductive outcome := Succ (v : N) | Fail (e : N).
Inductive result := ROk (v : N) | RErr (es : list N).

Inductive choice :=
| Launch            (* main: wg.Go for the next job; blocks while `limit` jobs are running *)
| Finish (i : nat)  (* worker i: val,err := fn(ctx); results <- ...; return (frees a slot) *)
| CloseCh           (* closer goroutine: wg.Wait(); close(results) *)
| Recv.             (* main: one iteration of `for res := range results` *)

Record state := {
  next : nat;               (* jobs launched so far (launch order = index order) *)
  running : list nat;       (* launched, not yet finished *)
  chan : list outcome;      (* buffered channel, FIFO, capacity = n (never full) *)
  closed : bool;
  errs : list N;            (* errors collected by main, in receive order *)
  ret : option result       (* Some r once FirstSuccess returned *)
}.

Definition init : state := {| next := 0; running := []; chan := []; closed := false; errs := []; ret := None |}.

Section FS.
Variable jobs : list outcome.
Variable limit : nat.      (* 0 = no limit (concurrency <= 0) *)
Let n := length jobs.

Definition slot_free (s : state) : bool :=
  match limit with 0 => true | _ => length (running s) <? limit end.

Fixpoint remove_nat (x : nat) (l : list nat) : list nat :=
  match l with [] => [] | y :: t => if Nat.eqb x y then t else y :: remove_nat x t end.

Definition step (s : state) (c : choice) : option state :=
  match ret s with Some _ => None | None =>
  match c with
  | Launch =>
      if (next s <? n) && slot_free s
      then Some {| next := S (next s); running := running s ++ [next s]; chan := chan s;
                   closed := closed s; errs := errs s; ret := None |}
      else None
  | Finish i =>
      if existsb (Nat.eqb i) (running s)
      then match nth_error jobs i with
           | Some o => Some {| next := next s; running := remove_nat i (running s); chan := chan s ++ [o];
                               closed := closed s; errs := errs s; ret := None |}
           | None => None end
      else None
  | CloseCh =>
      (* the closer is spawned after the launch loop; wg.Wait returns when nothing is running *)
      if (next s =? n) && (match running s with [] => true | _ => false end) && negb (closed s)
      then Some {| next := next s; running := running s; chan := chan s; closed := true; errs := errs s; ret := None |}
      else None
  | Recv =>
      if next s =? n then   (* main reaches the receive loop only after launching everything *)
        match chan s with
        | Succ v :: rest => Some {| next := next s; running := running s; chan := rest; closed := closed s;
                                   errs := errs s; ret := Some (ROk v) |}
        | Fail e :: rest =>
            let errs' := errs s ++ [e] in
            Some {| next := next s; running := running s; chan := rest; closed := closed s; errs := errs';
                    ret := if length errs' =? n then Some (RErr errs') else None |}
        | [] => if closed s
                then Some {| next := next s; running := running s; chan := []; closed := true; errs := errs s;
                             ret := Some (RErr (errs s)) |}
                else None
        end
      else None
  end end.

Fixpoint run (s : state) (cs : list choice) : option state :=
  match cs with [] => Some s | c :: cs' => match step s c with Some s' => run s' cs' | None => None end end.

(* ---- invariant ---- *)
Definition fails (l : list outcome) : list N :=
  flat_map (fun o => match o with Fail e => [e] | Succ _ => [] end) l.
Definition outs (l : list nat) : list outcome :=
  flat_map (fun i => match nth_error jobs i with Some o => [o] | None => [] end) l.

(* `fin` = finished job indices in finish order *)
Definition Inv (s : state) : Prop :=
  exists fin consumed,
    next s <= n /\
    Permutation (fin ++ running s) (seq 0 (next s)) /\
    outs fin = consumed ++ chan s /\
    errs s = fails consumed /\
    (ret s = None -> Forall (fun o => exists e, o = Fail e) consumed) /\
    (forall v, ret s = Some (ROk v) -> In (Succ v) jobs) /\
    (forall es, ret s = Some (RErr es) ->
        es = errs s /\ chan s = [] /\ running s = [] /\ next s = n /\
        Forall (fun o => exists e, o = Fail e) consumed) /\
    (closed s = true -> running s = [] /\ next s = n).

Lemma Inv_init : Inv init.
Proof.
  exists [], []. cbn. repeat split; auto using Nat.le_0_l; try discriminate; intros; try discriminate.
Qed.

End FS.
