(* C16 — (MultiReaderAt).ReadAt of split-car-fetcher/fetcher.go, translated from the Go source on every check
   (Generated/GoLiteC16.v), is the model's segment walk [C16_MR.loop] / [read_at_multi]: same byte count, same error
   class, the bytes of the model in the first n positions of the buffer — for every segment list, every offset >= 0
   and every buffer, with the per-segment readers as an oracle that behaves like bytes.Reader / io.SectionReader
   ([seg_read]).  Composed with C16_MR.read_at_multi_concat this ties the Go function to the concatenation spec. *)
From Coq Require Import List ZArith NArith String Bool Lia Arith.
Import ListNotations.
Require Import YF.GoLite YF.GoLiteLemmas YF.Generated.GoLiteC16 YF.C16_MR.
Local Open Scope string_scope.
Local Open Scope Z_scope.
Local Open Scope list_scope.

(* ------------------------------------------------------------------ list facts about blit / slice_z *)
Lemma blit_spec : forall (l : list Z) lo s, (lo + List.length s <= List.length l)%nat ->
  blit l lo s = firstn lo l ++ s ++ skipn (lo + List.length s) l.
Proof.
  induction l as [|h t IH]; intros lo s H.
  - destruct lo, s; cbn in *; try lia; reflexivity.
  - destruct lo as [|lo].
    + destruct s as [|x xs]; cbn [blit firstn app List.length Nat.add skipn]; [reflexivity|].
      cbn [List.length] in H. rewrite (IH O xs) by (cbn; lia). cbn [firstn app Nat.add]. reflexivity.
    + cbn [blit firstn app Nat.add skipn]. cbn [List.length] in H. rewrite IH by lia. reflexivity.
Qed.

Lemma zlen_slice_z (l : list Z) a b : 0 <= a -> a <= b -> b <= zlen l -> zlen (slice_z l a b) = b - a.
Proof.
  intros Ha Hab Hb. unfold zlen, slice_z in *. rewrite firstn_length, skipn_length. lia.
Qed.

Lemma blit_window_prefix (p bs : list Z) (a k : nat) :
  (a + k <= List.length p)%nat -> (List.length bs <= k)%nat ->
  let p' := blit p a (blit (firstn k (skipn a p)) O bs) in
  List.length p' = List.length p /\ firstn (a + List.length bs) p' = firstn a p ++ bs.
Proof.
  intros Hak Hbs. cbn zeta.
  assert (Hw : List.length (firstn k (skipn a p)) = k) by (rewrite firstn_length, skipn_length; lia).
  split; [apply blit_length|].
  rewrite (blit_spec (firstn k (skipn a p)) O bs) by (rewrite Hw; cbn; lia).
  cbn [firstn app Nat.add].
  set (w' := bs ++ skipn (List.length bs) (firstn k (skipn a p))).
  assert (Hw' : List.length w' = k).
  { unfold w'. rewrite app_length, skipn_length, Hw. lia. }
  rewrite (blit_spec p a w') by (rewrite Hw'; lia).
  unfold w'. rewrite <- !app_assoc.
  rewrite firstn_app. rewrite firstn_length. replace (Nat.min a (List.length p)) with a by lia.
  rewrite firstn_firstn. replace (Nat.min (a + List.length bs) a) with a by lia.
  replace (a + List.length bs - a)%nat with (List.length bs) by lia.
  rewrite firstn_app. rewrite firstn_all. replace (List.length bs - List.length bs)%nat with O by lia.
  cbn [firstn]. rewrite app_nil_r. reflexivity.
Qed.

Lemma skipn_nth_cons {A} (d : A) : forall (l : list A) i, (i < List.length l)%nat -> skipn i l = nth i l d :: skipn (S i) l.
Proof.
  induction l as [|h t IH]; intros i H; cbn [List.length] in H; [lia|].
  destruct i as [|i]; [reflexivity|]. cbn [skipn nth]. apply IH. lia.
Qed.

Lemma offsets_of_bounds : forall (sz : list Z) t j, 0 <= t -> Forall (fun x => 0 <= x) sz ->
  0 <= nth j (offsets_of t sz) 0 <= t + fold_right Z.add 0 sz.
Proof.
  induction sz as [|x r IH]; intros t j Ht Hsz; cbn [offsets_of fold_right].
  - destruct j; cbn; lia.
  - inversion Hsz as [|? ? Hx Hr]; subst. destruct j as [|j]; cbn [nth].
    + pose proof (IH (t + x) O ltac:(lia) Hr). assert (0 <= fold_right Z.add 0 r).
      { clear - Hr. induction Hr; cbn; lia. } lia.
    + pose proof (IH (t + x) j ltac:(lia) Hr). lia.
Qed.

Definition enc_rerr (e : rerr) : val := match e with ENil => VNil | EEOF => VErr "io.EOF" | EOther => VErr "other" end.

(* the per-segment readers: segment i read at offset o into a window of len(w) bytes *)
Definition ext_rd (segs : list (list Z)) : string -> list val -> option val := fun f args =>
  match f, args with
  | "io.ReaderAt.ReadAt", [VInt i; VInts w; VInt o] =>
      let '(bs, e) := seg_read (nth (Z.to_nat i) segs []) (zlen w) o in
      Some (VTuple [VInt (zlen bs); enc_rerr e; VInts (blit w O bs)])
  | _, _ => None
  end.

Definition rd_cond : expr := ECmp CLt (EVar "i") (ELen (EVar "tmp1")).
Definition rd_post : stmt := SAssign (LVar "i") (EBin OAdd I64 (EVar "i") (EInt 1)).
Definition rd_body : stmt :=
SSeq (SAssign (LVar "offset") (EIndex (EVar "tmp1") (EVar "i")))
       (SSeq (SIf (ECmp CLt (EVar "off") (EVar "offset"))
       (SContinue)
       (SSkip))
       (SSeq (SAssign (LVar "nextOffset") (EInt 9223372036854775807))
       (SSeq (SIf (ECmp CLt (EVar "i") (EBin OSub I64 (ELen (EField (EVar "m") "offsets")) (EInt 1)))
       (SAssign (LVar "nextOffset") (EIndex (EField (EVar "m") "offsets") (EBin OAdd I64 (EVar "i") (EInt 1))))
       (SSkip))
       (SSeq (SAssign (LVar "toRead") (EConv I64 (EBuiltin "min" [EBuiltin "max" [EInt 0; EBin OSub I64 (EVar "nextOffset") (EVar "off")]; EConv I64 (EVar "remaining")])))
       (SSeq (SCallExt [LVar "n"; LVar "err#2"; LSlice "p" (Some (EVar "bufOffset")) (Some (EBin OAdd I64 (EVar "bufOffset") (EVar "toRead")))] "io.ReaderAt.ReadAt" [EVar "i"; ESlice (EVar "p") (Some (EVar "bufOffset")) (Some (EBin OAdd I64 (EVar "bufOffset") (EVar "toRead"))); EBin OSub I64 (EVar "off") (EVar "offset")])
       (SSeq (SAssign (LVar "totalN") (EBin OAdd I64 (EVar "totalN") (EVar "n")))
       (SSeq (SAssign (LVar "bufOffset") (EBin OAdd I64 (EVar "bufOffset") (EVar "n")))
       (SSeq (SAssign (LVar "remaining") (EBin OSub I64 (EVar "remaining") (EVar "n")))
       (SSeq (SIf (ENot (EIsNil (EVar "err#2")))
       (SIf (EAndAlso (EErrIs (EVar "err#2") "io.EOF") (ECmp CEq (EVar "i") (EBin OSub I64 (ELen (EField (EVar "m") "readers")) (EInt 1))))
       (SAssign (LVar "reachedEnd") (EBool true))
       (SIf (ENot (EErrIs (EVar "err#2") "io.EOF"))
       (SReturn [EVar "totalN"; EVar "err#2"; EVar "p"])
       (SSkip)))
       (SSkip))
       (SSeq (SIf (ECmp CEq (EVar "n") (EVar "toRead"))
       (SAssign (LVar "off") (EBin OAdd I64 (EVar "off") (EConv I64 (EVar "n"))))
       (SSkip))
       (SIf (ECmp CEq (EVar "remaining") (EInt 0))
       (SBreak)
       (SSkip)))))))))))).
Definition rd_loop : stmt := SFor rd_cond rd_post rd_body.


Section ReadAt.
Variable prog : program.
Hypothesis prog_ReadAt : plookup "MultiReaderAt.ReadAt" prog = Some fn_MultiReaderAt_ReadAt.
Variable segs : list (list Z).                         (* the contents of the readers *)
Notation nseg := (List.length segs).
Notation offs := (offsets segs).                       (* m.offsets, as NewMultiReaderAt computes them *)
Definition mval : val := VStruct [("readers", VInts (repeat 0 nseg)); ("offsets", VInts offs)].

(* the environment at the head of the loop *)
Definition rd_env (p : list Z) (off totalN remaining bufOffset : Z) (reached : bool)
                  (offset nextOffset toRead n : Z) (err2 : val) (i : Z) : env :=
  [("m", mval); ("p", VInts p); ("off", VInt off); ("totalN", VInt totalN); ("err", VNil);
   ("remaining", VInt remaining); ("bufOffset", VInt bufOffset); ("reachedEnd", VBool reached);
   ("tmp1", VInts offs); ("offset", VInt offset); ("nextOffset", VInt nextOffset); ("toRead", VInt toRead);
   ("n", VInt n); ("err#2", err2); ("i", VInt i)].

Lemma offsets_of_length t (sz : list Z) : List.length (offsets_of t sz) = List.length sz.
Proof. revert t; induction sz as [|s r IH]; intros t; cbn; [reflexivity|]. rewrite IH. reflexivity. Qed.
Lemma offs_length : List.length offs = nseg.
Proof. unfold offsets, sizes_of. rewrite offsets_of_length, map_length. reflexivity. Qed.
Lemma zlen_offs : zlen offs = Z.of_nat nseg.
Proof. unfold zlen. rewrite offs_length. reflexivity. Qed.

Lemma nth_z_offs i : nth_z offs (Z.of_nat i) = nth i offs 0.
Proof. unfold nth_z. rewrite Nat2Z.id. reflexivity. Qed.

(* an iteration that skips the segment (off < offset): continue *)
Lemma rd_iter_skip f p off totalN remaining bufOffset reached o0 no0 tr0 n0 e0 i :
  (i < nseg)%nat -> off < nth i offs 0 ->
  exec prog (ext_rd segs) f rd_body (rd_env p off totalN remaining bufOffset reached o0 no0 tr0 n0 e0 (Z.of_nat i)) =
  RCont (rd_env p off totalN remaining bufOffset reached (nth i offs 0) no0 tr0 n0 e0 (Z.of_nat i)).
Proof.
  intros Hi Hlt. unfold rd_body, rd_env. go_run.
  rewrite zlen_offs. rewrite nth_z_offs.
  assert (Hb : (0 <=? Z.of_nat i) && (Z.of_nat i <? Z.of_nat nseg) = true).
  { rewrite andb_true_iff. split; [apply Z.leb_le|apply Z.ltb_lt]; lia. }
  rewrite Hb. go_run.
  destruct (Z.ltb_spec off (nth i offs 0)) as [_|Hc]; [|lia].
  go_run. reflexivity.
Qed.

Lemma seg_read_len (seg : list Z) len o bs e : 0 <= len -> seg_read seg len o = (bs, e) -> 0 <= zlen bs <= len.
Proof.
  intros Hl H. unfold seg_read in H.
  destruct (o <? 0) eqn:Ho; [injection H as <- _; cbn; lia|].
  destruct (Z.of_nat (List.length seg) <=? o) eqn:Hs; [injection H as <- _; cbn; lia|].
  injection H as <- _. apply Z.ltb_ge in Ho. apply Z.leb_gt in Hs.
  unfold zlen. rewrite firstn_length, skipn_length. lia.
Qed.

Definition next_off (i : nat) : Z := if (S i <? nseg)%nat then nth (S i) offs 0 else MaxInt64.

(* what one reading iteration (off >= offset) does, as a function of the state *)
Definition rd_iter_res (p : list Z) (off totalN remaining bufOffset : Z) (reached : bool) (i : nat) : res :=
  let offset := nth i offs 0 in
  let nextOffset := next_off i in
  let toRead := Z.min (Z.max 0 (nextOffset - off)) remaining in
  let '(bs, e) := seg_read (nth i segs []) toRead (off - offset) in
  let n := zlen bs in
  let p' := blit p (Z.to_nat bufOffset) (blit (slice_z p bufOffset (bufOffset + toRead)) O bs) in
  match e with
  | EOther => RRet (VTuple [VInt (totalN + n); VErr "other"; VInts p'])
  | _ =>
      let reached' := match e with EEOF => if Nat.eqb i (nseg - 1) then true else reached | _ => reached end in
      let off' := if n =? toRead then off + n else off in
      let env' := rd_env p' off' (totalN + n) (remaining - n) (bufOffset + n) reached' offset nextOffset toRead n (enc_rerr e) (Z.of_nat i) in
      if remaining - n =? 0 then RBrk env' else RNorm env'
  end.

Lemma rd_iter_read f p off totalN remaining bufOffset reached o0 no0 tr0 n0 e0 i :
  (i < nseg)%nat -> nth i offs 0 <= off -> 0 <= nth i offs 0 -> off < 4611686018427387904 ->
  (forall j, 0 <= nth j offs 0 < 4611686018427387904) ->
  0 <= bufOffset -> 0 <= remaining -> bufOffset + remaining = zlen p -> zlen p < 4611686018427387904 ->
  0 <= totalN < 4611686018427387904 -> Z.of_nat nseg < 4611686018427387904 ->
  exec prog (ext_rd segs) f rd_body (rd_env p off totalN remaining bufOffset reached o0 no0 tr0 n0 e0 (Z.of_nat i)) =
  rd_iter_res p off totalN remaining bufOffset reached i.
Proof.
  intros Hi Hge Ho0 Hoff Hoffs Hb0 Hr0 Hsum Hp Ht Hnz. unfold rd_body, rd_env, mval. go_run.
  rewrite zlen_offs. rewrite nth_z_offs.
  assert (Hbi : (0 <=? Z.of_nat i) && (Z.of_nat i <? Z.of_nat nseg) = true).
  { rewrite andb_true_iff. split; [apply Z.leb_le|apply Z.ltb_lt]; lia. }
  rewrite Hbi. go_run.
  destruct (Z.ltb_spec off (nth i offs 0)) as [Hc|_]; [lia|].
  go_run. rewrite zlen_offs.
  rewrite (wrap_i64_small (Z.of_nat nseg - 1)) by lia.
  match goal with |- match ?X with RNorm _ => _ | _ => _ end = _ =>
    assert (HX : X = RNorm (rd_env p off totalN remaining bufOffset reached (nth i offs 0) (next_off i) tr0 n0 e0 (Z.of_nat i)))
  end.
  { unfold next_off, rd_env, mval. destruct (Nat.ltb_spec (S i) nseg) as [Hs|Hs].
    - destruct (Z.ltb_spec (Z.of_nat i) (Z.of_nat nseg - 1)) as [_|Hc]; [|lia].
      rewrite (wrap_i64_small (Z.of_nat i + 1)) by lia.
      assert (Hb2 : (0 <=? Z.of_nat i + 1) && (Z.of_nat i + 1 <? Z.of_nat nseg) = true).
      { rewrite andb_true_iff. split; [apply Z.leb_le|apply Z.ltb_lt]; lia. }
      rewrite Hb2. cbn [of_eres]. unfold nth_z. replace (Z.to_nat (Z.of_nat i + 1)) with (S i) by lia. reflexivity.
    - destruct (Z.ltb_spec (Z.of_nat i) (Z.of_nat nseg - 1)) as [Hc|_]; [lia|]. reflexivity. }
  rewrite HX. clear HX. unfold rd_env, mval. go_run.
  assert (Hno : 0 <= next_off i <= 9223372036854775807).
  { unfold next_off. destruct (S i <? nseg)%nat; [pose proof (Hoffs (S i)); lia|unfold MaxInt64; lia]. }
  rewrite (wrap_i64_small (next_off i - off)) by lia.
  rewrite (wrap_i64_small remaining) by lia.
  set (tr := Z.min (Z.max 0 (next_off i - off)) remaining).
  assert (Htr : 0 <= tr <= remaining) by (unfold tr; lia).
  rewrite (wrap_i64_small tr) by lia.
  rewrite (wrap_i64_small (bufOffset + tr)) by lia.
  rewrite (wrap_i64_small (off - nth i offs 0)) by lia.
  assert (Hbw : (0 <=? bufOffset) && (bufOffset <=? bufOffset + tr) && (bufOffset + tr <=? zlen p) = true).
  { rewrite !andb_true_iff. repeat split; apply Z.leb_le; lia. }
  rewrite Hbw. go_cbn.
  unfold ext_rd at 1. rewrite Nat2Z.id.
  rewrite (zlen_slice_z p bufOffset (bufOffset + tr)) by lia.
  replace (bufOffset + tr - bufOffset) with tr by lia.
  unfold rd_iter_res. fold tr.
  destruct (seg_read (nth i segs []) tr (off - nth i offs 0)) as [bs e] eqn:Hsr.
  pose proof (seg_read_len _ _ _ _ _ (proj1 Htr) Hsr) as Hn.
  go_cbn. rewrite zlen_blit.
  rewrite (zlen_slice_z p bufOffset (bufOffset + tr)) by lia.
  replace (bufOffset + tr - bufOffset) with tr by lia.
  rewrite Z.eqb_refl. go_run.
  rewrite (wrap_i64_small (totalN + zlen bs)) by lia.
  rewrite (wrap_i64_small (bufOffset + zlen bs)) by lia.
  rewrite (wrap_i64_small (remaining - zlen bs)) by lia.
  assert (Hzr : zlen (repeat 0 nseg) = Z.of_nat nseg) by (unfold zlen; rewrite repeat_length; reflexivity).
  rewrite ?Hzr. rewrite ?(wrap_i64_small (Z.of_nat nseg - 1)) by lia.
  assert (Heqb : (Z.of_nat i =? Z.of_nat nseg - 1) = Nat.eqb i (nseg - 1)).
  { destruct (Nat.eqb_spec i (nseg - 1)) as [E|E]; [apply Z.eqb_eq|apply Z.eqb_neq]; lia. }
  unfold rd_env, mval.
  destruct e; cbn [enc_rerr]; go_run.
  - (* no error *)
    rewrite (wrap_i64_small (zlen bs)) by lia. rewrite (wrap_i64_small (off + zlen bs)) by lia.
    destruct (zlen bs =? tr); go_run; destruct (remaining - zlen bs =? 0); go_run; reflexivity.
  - (* io.EOF *)
    rewrite Heqb.
    destruct (Nat.eqb i (nseg - 1)); go_run;
      rewrite (wrap_i64_small (zlen bs)) by lia; rewrite (wrap_i64_small (off + zlen bs)) by lia;
      (destruct (zlen bs =? tr); go_run; destruct (remaining - zlen bs =? 0); go_run; reflexivity).
  - (* another error: returned at once *)
    reflexivity.
Qed.

(* ------------------------------------------------------------------ the loop *)
Hypothesis offs_small : forall j, 0 <= nth j offs 0 < 4611686018427387904.
Hypothesis nseg_small : Z.of_nat nseg < 4611686018427387904.

Lemma next_off_model i : next_off i = match skipn (S i) offs with nx :: _ => nx | [] => MaxInt64 end.
Proof.
  unfold next_off. destruct (Nat.ltb_spec (S i) nseg) as [H|H].
  - rewrite (skipn_nth_cons 0 offs (S i)) by (rewrite offs_length; exact H). reflexivity.
  - rewrite skipn_all2 by (rewrite offs_length; exact H). reflexivity.
Qed.

Lemma rd_post_step f p off totalN remaining bufOffset reached o no tr n e2 i :
  Z.of_nat i < 4611686018427387904 ->
  exec prog (ext_rd segs) f rd_post (rd_env p off totalN remaining bufOffset reached o no tr n e2 (Z.of_nat i)) =
  RNorm (rd_env p off totalN remaining bufOffset reached o no tr n e2 (Z.of_nat (S i))).
Proof.
  intros Hi. unfold rd_post, rd_env. go_run. rewrite wrap_i64_small by lia.
  replace (Z.of_nat i + 1) with (Z.of_nat (S i)) by lia. reflexivity.
Qed.

Definition loop_result (p : list Z) (out : res) (r : list Z * Z * bool * bool) : Prop :=
  let '(acc', rem', reached', hard) := r in
  exists p', List.length p' = List.length p /\ firstn (List.length acc') p' = acc' /\ zlen acc' + rem' = zlen p /\
    if hard then out = RRet (VTuple [VInt (zlen acc'); VErr "other"; VInts p'])
    else exists off' o' no' tr' n' e' i',
           out = RNorm (rd_env p' off' (zlen acc') rem' (zlen acc') reached' o' no' tr' n' e' i').

Lemma rd_loop_spec f : forall i p off remaining bufOffset reached o no tr n e2,
  (nseg - i < f)%nat -> (i <= nseg)%nat -> 0 <= off -> off + remaining < 4611686018427387904 ->
  0 <= bufOffset -> 0 <= remaining -> bufOffset + remaining = zlen p -> zlen p < 4611686018427387904 ->
  loop_result p
    (exec prog (ext_rd segs) f rd_loop (rd_env p off bufOffset remaining bufOffset reached o no tr n e2 (Z.of_nat i)))
    (loop i nseg (skipn i segs) (skipn i offs) off remaining (firstn (Z.to_nat bufOffset) p) reached).
Proof.
  induction f as [|f IH]; intros i p off remaining bufOffset reached o no tr n e2 Hf Hi Hoff Hsum Hb Hr Hlen Hp; [lia|].
  assert (Hacc : List.length (firstn (Z.to_nat bufOffset) p) = Z.to_nat bufOffset).
  { rewrite firstn_length. unfold zlen in Hlen. lia. }
  unfold rd_loop. rewrite exec_for_S. fold rd_loop.
  assert (Hc : eval (rd_env p off bufOffset remaining bufOffset reached o no tr n e2 (Z.of_nat i)) rd_cond
               = EV (VBool (Z.of_nat i <? Z.of_nat nseg))).
  { unfold rd_cond, rd_env. go_cbn. rewrite zlen_offs. reflexivity. }
  rewrite Hc. cbn [of_eres].
  destruct (Nat.eq_dec i nseg) as [->|Hne].
  - (* past the last segment *)
    rewrite Z.ltb_irrefl. rewrite !skipn_all2 by (rewrite ?offs_length; lia).
    cbn [loop loop_result]. exists p. split; [reflexivity|]. split; [rewrite Hacc; reflexivity|].
    split; [unfold zlen in *; rewrite Hacc; lia|].
    eexists off, o, no, tr, n, e2, _. unfold zlen. rewrite Hacc. rewrite Z2Nat.id by lia. reflexivity.
  - assert (Hlt : (i < nseg)%nat) by lia.
    destruct (Z.ltb_spec (Z.of_nat i) (Z.of_nat nseg)) as [_|Hx]; [|lia].
    rewrite (skipn_nth_cons [] segs i) by lia.
    rewrite (skipn_nth_cons 0 offs i) by (rewrite offs_length; lia).
    cbn [loop].
    destruct (Z.ltb_spec off (nth i offs 0)) as [Hskip|Hread].
    + (* skipped *)
      rewrite (rd_iter_skip (S f)) by assumption.
      rewrite rd_post_step by lia.
      apply IH; try assumption; lia.
    + (* read *)
      rewrite (rd_iter_read (S f)); try assumption; try lia; [|pose proof (offs_small i); lia].
      unfold rd_iter_res. rewrite next_off_model.
      set (nextOffset := match skipn (S i) offs with nx :: _ => nx | [] => MaxInt64 end).
      set (toRead := Z.min (Z.max 0 (nextOffset - off)) remaining).
      destruct (seg_read (nth i segs []) toRead (off - nth i offs 0)) as [bs e] eqn:Hsr.
      assert (Htr : 0 <= toRead <= remaining).
      { unfold toRead. lia. }
      pose proof (seg_read_len _ _ _ _ _ (proj1 Htr) Hsr) as Hn.
      (* the buffer after the read *)
      set (p' := blit p (Z.to_nat bufOffset) (blit (slice_z p bufOffset (bufOffset + toRead)) 0 bs)).
      assert (Hp' : List.length p' = List.length p /\
                    firstn (Z.to_nat bufOffset + List.length bs) p' = firstn (Z.to_nat bufOffset) p ++ bs).
      { unfold p', slice_z. replace (Z.to_nat (bufOffset + toRead - bufOffset)) with (Z.to_nat toRead) by lia.
        apply blit_window_prefix; unfold zlen in *; lia. }
      destruct Hp' as [Hp'l Hp'f].
      assert (Hzl : zlen (firstn (Z.to_nat bufOffset) p ++ bs) = bufOffset + zlen bs).
      { unfold zlen. rewrite app_length, Hacc. lia. }
      replace (Z.of_nat (List.length bs)) with (zlen bs) by reflexivity.
      destruct e.
      * (* ENil *)
        destruct (remaining - zlen bs =? 0) eqn:Hz.
        -- cbn [loop_result]. exists p'. split; [exact Hp'l|]. split.
           { rewrite app_length, Hacc. exact Hp'f. }
           split; [rewrite Hzl; lia|].
           rewrite Hzl. do 7 eexists. reflexivity.
        -- rewrite rd_post_step by lia.
           replace (firstn (Z.to_nat bufOffset) p ++ bs) with (firstn (Z.to_nat (bufOffset + zlen bs)) p').
           2:{ rewrite <- Hp'f. f_equal. unfold zlen. lia. }
           assert (Hres : loop_result p'
             (exec prog (ext_rd segs) f rd_loop
                (rd_env p' (if zlen bs =? toRead then off + zlen bs else off) (bufOffset + zlen bs) (remaining - zlen bs) (bufOffset + zlen bs) reached
                   (nth i offs 0) nextOffset toRead (zlen bs) (enc_rerr ENil) (Z.of_nat (S i))))
             (loop (S i) nseg (skipn (S i) segs) (skipn (S i) offs) (if zlen bs =? toRead then off + zlen bs else off)
                (remaining - zlen bs) (firstn (Z.to_nat (bufOffset + zlen bs)) p') reached)).
           { apply IH; try lia.
             - destruct (zlen bs =? toRead); lia.
             - destruct (zlen bs =? toRead); lia.
             - unfold zlen in *. rewrite Hp'l. lia.
             - unfold zlen in *. rewrite Hp'l. lia. }
           revert Hres. unfold loop_result.
           destruct (loop (S i) nseg (skipn (S i) segs) (skipn (S i) offs) (if zlen bs =? toRead then off + zlen bs else off)
                (remaining - zlen bs) (firstn (Z.to_nat (bufOffset + zlen bs)) p') reached) as [[[a' r'] rc'] h'].
           intros [p'' [H1 [H2 [H3 H4]]]]. exists p''. split; [rewrite H1; exact Hp'l|]. split; [exact H2|].
           split; [unfold zlen in *; rewrite <- Hp'l; exact H3|exact H4].
      * (* EEOF *)
        set (reached' := if Nat.eqb i (nseg - 1) then true else reached).
        destruct (remaining - zlen bs =? 0) eqn:Hz.
        -- cbn [loop_result]. exists p'. split; [exact Hp'l|]. split.
           { rewrite app_length, Hacc. exact Hp'f. }
           split; [rewrite Hzl; lia|].
           rewrite Hzl. do 7 eexists. reflexivity.
        -- rewrite rd_post_step by lia.
           replace (firstn (Z.to_nat bufOffset) p ++ bs) with (firstn (Z.to_nat (bufOffset + zlen bs)) p').
           2:{ rewrite <- Hp'f. f_equal. unfold zlen. lia. }
           assert (Hres : loop_result p'
             (exec prog (ext_rd segs) f rd_loop
                (rd_env p' (if zlen bs =? toRead then off + zlen bs else off) (bufOffset + zlen bs) (remaining - zlen bs) (bufOffset + zlen bs) reached'
                   (nth i offs 0) nextOffset toRead (zlen bs) (enc_rerr EEOF) (Z.of_nat (S i))))
             (loop (S i) nseg (skipn (S i) segs) (skipn (S i) offs) (if zlen bs =? toRead then off + zlen bs else off)
                (remaining - zlen bs) (firstn (Z.to_nat (bufOffset + zlen bs)) p') reached')).
           { apply IH; try lia.
             - destruct (zlen bs =? toRead); lia.
             - destruct (zlen bs =? toRead); lia.
             - unfold zlen in *. rewrite Hp'l. lia.
             - unfold zlen in *. rewrite Hp'l. lia. }
           revert Hres. unfold loop_result.
           destruct (loop (S i) nseg (skipn (S i) segs) (skipn (S i) offs) (if zlen bs =? toRead then off + zlen bs else off)
                (remaining - zlen bs) (firstn (Z.to_nat (bufOffset + zlen bs)) p') reached') as [[[a' r'] rc'] h'].
           intros [p'' [H1 [H2 [H3 H4]]]]. exists p''. split; [rewrite H1; exact Hp'l|]. split; [exact H2|].
           split; [unfold zlen in *; rewrite <- Hp'l; exact H3|exact H4].
      * (* EOther: returned at once *)
        cbn [loop_result]. exists p'. split; [exact Hp'l|]. split.
        { rewrite app_length, Hacc. exact Hp'f. }
        split; [rewrite Hzl; lia|].
        rewrite Hzl. reflexivity.
Qed.

(* the whole function *)
Theorem ReadAt_is_read_at_multi f (p : list Z) off :
  0 <= off -> off + zlen p < 4611686018427387904 -> (nseg < f)%nat ->
  let '(bs, e) := read_at_multi segs off (zlen p) in
  exists p', call prog (ext_rd segs) f "MultiReaderAt.ReadAt" [mval; VInts p; VInt off]
             = RRet (VTuple [VInt (zlen bs); enc_rerr e; VInts p']) /\
             List.length p' = List.length p /\ firstn (List.length bs) p' = bs.
Proof.
  intros Hoff Hsum Hf.
  unfold call. rewrite prog_ReadAt. unfold fn_MultiReaderAt_ReadAt. cbn [f_params f_body bind_params].
  unfold mval. go_run. fold mval.
  fold rd_cond. fold rd_post. fold rd_body. fold rd_loop.
  pose proof (zlen_nonneg p) as Hp0.
  pose proof (rd_loop_spec f 0 p off (zlen p) 0 false 0 0 0 0 VNil ltac:(lia) ltac:(lia) Hoff Hsum ltac:(lia) Hp0 ltac:(lia) ltac:(lia)) as H.
  unfold rd_env in H. change (Z.of_nat 0) with 0 in H. cbn [Z.to_nat firstn skipn] in H.
  unfold read_at_multi.
  destruct (loop 0 nseg segs offs off (zlen p) [] false) as [[[acc' rem'] reached'] hard].
  cbn [loop_result] in H. destruct H as [p' [Hl [Hfst [Hz Hres]]]].
  destruct hard.
  - rewrite Hres. exists p'. repeat split; assumption.
  - destruct Hres as [off' [o' [no' [tr' [n' [e' [i' Hres]]]]]]]. rewrite Hres. unfold rd_env. go_run.
    destruct (0 <? rem') eqn:Hr; cbn [andb].
    + assert (Hg : (rem' >? 0) = true) by (apply Z.gtb_lt; apply Z.ltb_lt; exact Hr).
      unfold Z.gtb in Hg. destruct (Z.ltb_spec 0 rem') as [Hpos|]; [|discriminate].
      destruct reached'; go_run.
      * destruct (Z.ltb_spec 0 rem') as [_|Hc]; [|lia]. go_run. exists p'. repeat split; assumption.
      * destruct (Z.ltb_spec 0 rem') as [_|Hc]; [|lia]. go_run. exists p'. repeat split; assumption.
    + apply Z.ltb_ge in Hr. destruct (Z.ltb_spec 0 rem') as [Hc|_]; [lia|]. go_run.
      exists p'. repeat split; assumption.
Qed.
End ReadAt.

(* ------------------------------------------------------------------ end to end: the concatenation *)
Lemma sizes_sum (segs : list (list Z)) : fold_right Z.add 0 (sizes_of segs) = total segs.
Proof.
  unfold total, sizes_of. induction segs as [|s r IH]; [reflexivity|].
  cbn [map fold_right List.concat]. rewrite IH. rewrite (app_length s (List.concat r)). lia.
Qed.

Lemma offs_bounds (segs : list (list Z)) j : 0 <= nth j (offsets segs) 0 <= total segs.
Proof.
  unfold offsets. rewrite <- sizes_sum.
  pose proof (offsets_of_bounds (sizes_of segs) 0 j ltac:(lia)) as H.
  assert (Hf : Forall (fun x => 0 <= x) (sizes_of segs)).
  { unfold sizes_of. apply Forall_forall. intros x Hx. apply in_map_iff in Hx. destruct Hx as [s [<- _]]. lia. }
  specialize (H Hf). lia.
Qed.

(* (MultiReaderAt).ReadAt over segments whose total size is below 2^62, for every offset >= 0 and every buffer:
   it returns n = the number of bytes of the concatenation available at [off, off+len(p)), those bytes in p[0:n],
   and io.EOF exactly when the read is short — never another error, never a panic. *)
Theorem ReadAt_is_the_concatenation (prog : program)
  (Hprog : plookup "MultiReaderAt.ReadAt" prog = Some fn_MultiReaderAt_ReadAt)
  (segs : list (list Z)) f (p : list Z) off :
  segs <> [] -> total segs < 4611686018427387904 -> Z.of_nat (List.length segs) < 4611686018427387904 ->
  0 <= off -> off + zlen p < 4611686018427387904 -> (List.length segs < f)%nat ->
  let bs := slice segs off (zlen p) in
  exists p', call prog (ext_rd segs) f "MultiReaderAt.ReadAt" [mval segs; VInts p; VInt off]
             = RRet (VTuple [VInt (zlen bs); (if zlen bs <? zlen p then VErr "io.EOF" else VNil); VInts p']) /\
             List.length p' = List.length p /\ firstn (List.length bs) p' = bs.
Proof.
  intros Hne Htot Hns Hoff Hsum Hf bs.
  assert (Hsmall : forall j, 0 <= nth j (offsets segs) 0 < 4611686018427387904).
  { intros j. pose proof (offs_bounds segs j). lia. }
  pose proof (ReadAt_is_read_at_multi prog Hprog segs Hsmall Hns f p off Hoff Hsum Hf) as H.
  rewrite (read_at_multi_concat segs off (zlen p) Hne Hoff (zlen_nonneg p)) in H by (unfold MaxInt64; lia).
  fold bs in H. change (Z.of_nat (List.length bs)) with (zlen bs) in H.
  destruct (zlen bs <? zlen p); destruct H as [p' [H1 [H2 H3]]]; exists p'; (split; [exact H1|split; assumption]).
Qed.
