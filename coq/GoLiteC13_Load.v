(* C13 / C04 — the entry loader of the compact index ((Bucket).loadEntry, (BucketDescriptor).unmarshalEntry of
   compactindexsized), translated from the Go source on every check (Generated/GoLiteC13.v), over an ORACLE for the
   positioned read of the bucket's entries (io.SectionReader.ReadAt):
     - a complete read yields exactly the entry the model decodes from those bytes (CI.load_entry's decoding:
       little-endian hash of HashLen bytes, then OffsetWidth value bytes);
     - a read that delivers fewer bytes than the entry's stride yields the reader's error — never an entry.
   This is the "short reads propagate the reader's error" mechanism of C13, stated for the code itself. *)
From Coq Require Import List ZArith NArith String Bool Lia.
Import ListNotations.
Require Import YF.GoLite YF.GoLiteLemmas YF.Generated.GoLiteC13 YF.Generated.GoLiteC04 YF.GoLiteC04_Proofs YF.GoLiteC04_Codec.
Local Open Scope string_scope.
Local Open Scope Z_scope.
Local Open Scope list_scope.

Lemma uintLe_same : GoLiteC13.fn_uintLe = GoLiteC04.fn_uintLe.
Proof. reflexivity. Qed.

(* a bucket descriptor as the Go struct nest: BucketDescriptor{BucketHeader{..., HashLen, ...}, Stride, OffsetWidth} *)
Definition desc_val (hl stride ow : Z) (hdr_rest : list (string * val)) : val :=
  VStruct [("BucketHeader", VStruct (("HashLen", VInt hl) :: hdr_rest)); ("Stride", VInt stride); ("OffsetWidth", VInt ow)].
Definition bucket_val (hl stride ow : Z) (hdr_rest : list (string * val)) (entries : val) : val :=
  VStruct [("BucketDescriptor", desc_val hl stride ow hdr_rest); ("Entries", entries)].
Definition entry_val (hash : Z) (value : list Z) : val := VStruct [("Hash", VInt hash); ("Value", VInts value)].

Section Load.
Variable prog : program.
Hypothesis prog_uintLe : plookup "uintLe" prog = Some GoLiteC13.fn_uintLe.
Hypothesis prog_unmarshalEntry : plookup "BucketDescriptor.unmarshalEntry" prog = Some fn_BucketDescriptor_unmarshalEntry.
Hypothesis prog_loadEntry : plookup "Bucket.loadEntry" prog = Some fn_Bucket_loadEntry.

Lemma uintLe_call ext fuel buf :
  call prog ext fuel "uintLe" [VInts buf] = RRet (VInt (le_value (firstn 8 buf))).
Proof.
  apply (GoLiteC04_Codec.uintLe_is_le_value prog). rewrite prog_uintLe. rewrite uintLe_same. reflexivity.
Qed.

Lemma uintLe_body ext fuel buf :
  exec prog ext fuel (f_body GoLiteC13.fn_uintLe) [("buf", VInts buf)] = RRet (VInt (le_value (firstn 8 buf))).
Proof.
  pose proof (uintLe_call ext fuel buf) as H. unfold call in H. rewrite prog_uintLe in H.
  change (bind_params (f_params GoLiteC13.fn_uintLe) [VInts buf]) with (Some [("buf", VInts buf)]) in H.
  cbv beta iota in H.
  destruct (exec prog ext fuel (f_body GoLiteC13.fn_uintLe) [("buf", VInts buf)]); try discriminate; exact H.
Qed.

(* unmarshalEntry: hash = little-endian value of the first HashLen bytes (at most 8 count), value = the next
   OffsetWidth bytes; needs HashLen + OffsetWidth <= len(buf) (GetBucket checks it against the stride) *)
Theorem unmarshalEntry_spec ext fuel hl stride ow rest (buf : list Z) :
  0 <= hl -> 0 <= ow -> hl + ow <= 255 -> hl + ow <= zlen buf -> (1 <= fuel)%nat ->
  call prog ext fuel "BucketDescriptor.unmarshalEntry" [desc_val hl stride ow rest; VInts buf] =
  RRet (entry_val (le_value (firstn 8 (slice_z buf 0 hl))) (slice_z buf hl (hl + ow))).
Proof.
  intros Hhl How Hsum Hlen Hfuel. destruct fuel as [|fuel]; [lia|].
  unfold call. rewrite prog_unmarshalEntry. unfold fn_BucketDescriptor_unmarshalEntry, desc_val.
  cbn [f_params f_body bind_params]. go_run.
  assert (Hb1 : (0 <=? 0) && (0 <=? hl) && (hl <=? zlen buf) = true).
  { rewrite !andb_true_iff. repeat split; apply Z.leb_le; lia. }
  rewrite exec_call_S. go_cbn. rewrite Hb1. go_cbn. rewrite prog_uintLe.
  change (bind_params (f_params GoLiteC13.fn_uintLe) [VInts (slice_z buf 0 hl)]) with (Some [("buf", VInts (slice_z buf 0 hl))]).
  cbv beta iota. rewrite uintLe_body. go_run.
  destruct (Z.ltb_spec ow 0) as [Hc|_]; [lia|]. go_run.
  rewrite (wrap_unsigned_id U8 (hl + ow)) by (try reflexivity; cbn; lia).
  assert (Hb2 : (0 <=? hl) && (hl <=? hl + ow) && (hl + ow <=? zlen buf) = true).
  { rewrite !andb_true_iff. repeat split; apply Z.leb_le; lia. }
  rewrite Hb2. go_cbn.
  assert (Hzr : zlen (repeat 0 (Z.to_nat ow)) = ow) by (unfold zlen; rewrite repeat_length; lia).
  rewrite Hzr. go_consts.
  assert (Hb3 : (0 <=? ow) && (ow <=? ow) = true).
  { rewrite !andb_true_iff. split; apply Z.leb_le; lia. }
  rewrite Hb3. go_cbn.
  assert (Hsl : slice_z (repeat 0 (Z.to_nat ow)) 0 ow = repeat 0 (Z.to_nat ow)).
  { rewrite <- Hzr at 2. apply slice_z_all. }
  rewrite ?Hsl.
  assert (Hlen2 : List.length (slice_z buf hl (hl + ow)) = Z.to_nat ow).
  { unfold slice_z. rewrite firstn_length, skipn_length. unfold zlen in Hlen. lia. }
  rewrite (blit_full (repeat 0 (Z.to_nat ow)) (slice_z buf hl (hl + ow))) by (rewrite repeat_length; exact Hlen2).
  assert (Hz2 : zlen (slice_z buf hl (hl + ow)) = ow) by (unfold zlen; rewrite Hlen2; lia).
  rewrite Hz2. replace (ow - 0) with ow by lia. rewrite Z.eqb_refl.
  rewrite (blit_full (repeat 0 (Z.to_nat ow)) (slice_z buf hl (hl + ow))) by (rewrite repeat_length; exact Hlen2).
  go_run. reflexivity.
Qed.

(* the body of unmarshalEntry as a callee *)
Lemma unmarshalEntry_body ext fuel hl stride ow rest (buf : list Z) :
  0 <= hl -> 0 <= ow -> hl + ow <= 255 -> hl + ow <= zlen buf -> (1 <= fuel)%nat ->
  exec prog ext fuel (f_body fn_BucketDescriptor_unmarshalEntry) [("b", desc_val hl stride ow rest); ("buf", VInts buf)] =
  RRet (entry_val (le_value (firstn 8 (slice_z buf 0 hl))) (slice_z buf hl (hl + ow))).
Proof.
  intros H1 H2 H3 H4 H5. pose proof (unmarshalEntry_spec ext fuel hl stride ow rest buf H1 H2 H3 H4 H5) as H.
  unfold call in H. rewrite prog_unmarshalEntry in H.
  change (bind_params (f_params fn_BucketDescriptor_unmarshalEntry) [desc_val hl stride ow rest; VInts buf])
    with (Some [("b", desc_val hl stride ow rest); ("buf", VInts buf)]) in H.
  cbv beta iota in H.
  destruct (exec prog ext fuel (f_body fn_BucketDescriptor_unmarshalEntry) [("b", desc_val hl stride ow rest); ("buf", VInts buf)]);
    try discriminate; exact H.
Qed.

(* the positioned reader of the bucket's entries: what a read of len bytes at off delivers *)
Variable rd : Z -> Z -> list Z * val.        (* bytes delivered (at most len), error value *)
Hypothesis rd_len : forall off len, 0 <= len -> zlen (fst (rd off len)) <= len.
Definition ext_sr : string -> list val -> option val := fun f args =>
  match f, args with
  | "io.SectionReader.ReadAt", [VInts buf; VInt off] =>
      let '(bs, e) := rd off (zlen buf) in Some (VTuple [VInt (zlen bs); e; VInts (blit buf O bs)])
  | _, _ => None
  end.

(* loadEntry(i): the stride bytes at i*stride, decoded — or, when fewer bytes arrive, the reader's error and no
   entry.  (With a conforming reader a short read always carries a non-nil error: io.ReaderAt.) *)
Theorem loadEntry_spec fuel hl stride ow rest entries (i : Z) :
  0 <= hl -> 0 <= ow -> hl + ow <= stride -> stride <= 255 -> 0 <= i < 36028797018963968 -> (2 <= fuel)%nat ->
  call prog ext_sr fuel "Bucket.loadEntry" [bucket_val hl stride ow rest entries; VInt i] =
  let '(bs, e) := rd (i * stride) stride in
  if zlen bs =? stride
  then RRet (VTuple [entry_val (le_value (firstn 8 (slice_z bs 0 hl))) (slice_z bs hl (hl + ow)); VNil])
  else RRet (VTuple [entry_val 0 []; e]).
Proof.
  intros Hhl How Hsum Hst Hi Hfuel. destruct fuel as [|[|fuel]]; try lia.
  unfold call. rewrite prog_loadEntry. unfold fn_Bucket_loadEntry, bucket_val, desc_val.
  cbn [f_params f_body bind_params]. go_run.
  rewrite (wrap_i64_small i) by lia. rewrite (wrap_i64_small stride) by lia.
  rewrite (wrap_i64_small (i * stride)) by nia.
  destruct (Z.ltb_spec stride 0) as [Hc|_]; [lia|]. go_run.
  unfold ext_sr at 1.
  assert (Hzr : zlen (repeat 0 (Z.to_nat stride)) = stride) by (unfold zlen; rewrite repeat_length; lia).
  rewrite Hzr.
  pose proof (rd_len (i * stride) stride ltac:(lia)) as Hn.
  destruct (rd (i * stride) stride) as [bs e] eqn:Hrd. cbn [fst] in Hn.
  go_cbn. go_run. rewrite zlen_blit. rewrite Hzr.
  destruct (Z.eqb_spec (zlen bs) stride) as [Heq|Hne].
  - cbn [negb]. go_run.
    assert (Hfull : blit (repeat 0 (Z.to_nat stride)) O bs = bs).
    { apply blit_full. rewrite repeat_length. unfold zlen in Heq. lia. }
    rewrite Hfull.
    rewrite exec_call_S. go_cbn. rewrite prog_unmarshalEntry. fold (desc_val hl stride ow rest).
    change (bind_params (f_params fn_BucketDescriptor_unmarshalEntry) [desc_val hl stride ow rest; VInts bs])
      with (Some [("b", desc_val hl stride ow rest); ("buf", VInts bs)]).
    cbv beta iota.
    rewrite (unmarshalEntry_body ext_sr (S fuel)) by lia.
    go_run. reflexivity.
  - cbn [negb]. go_run. reflexivity.
Qed.
End Load.
