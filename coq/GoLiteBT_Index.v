(* C01 / C12 — the block-time table's accessors (Index.Get, Index.Set, blocktimeToBytes of blocktimeindex/writer.go),
   translated from the Go source on every check (Generated/GoLiteBT.v):
     - Get / Set never index outside the value slice, whatever start, end and the slice's length are (they come from
       the file and need not agree): every call returns — a value or the out-of-range error — never a panic (C12);
     - on a slot the table covers, Get returns the stored time and Set stores it at slot - start and changes nothing
       else (the bt_get / bt_set of the C01 model);
     - blocktimeToBytes is the 4-byte little-endian image of a time that fits 32 bits and an error otherwise. *)
From Coq Require Import List ZArith NArith String Bool Lia.
Import ListNotations.
Require Import YF.GoLite YF.GoLiteLemmas YF.Generated.GoLiteBT.
Local Open Scope string_scope.
Local Open Scope Z_scope.
Local Open Scope list_scope.

Definition two64 : Z := 18446744073709551616.

(* an Index value: the Go struct {start, end, epoch, capacity, values} *)
Definition index_val (start end_ epoch capacity : Z) (values : list Z) : val :=
  VStruct [("start", VInt start); ("end", VInt end_); ("epoch", VInt epoch); ("capacity", VInt capacity); ("values", VInts values)].

(* NewErrSlotOutOfRange(start, end, slot): an error value; its text is not modelled *)
Definition oor : val := VErr "ErrSlotOutOfRange".
Definition ext_bt : string -> list val -> option val := fun f args =>
  match f, args with
  | "NewErrSlotOutOfRange", [VInt _; VInt _; VInt _] => Some oor
  | _, _ => None
  end.

(* the guard of Get and Set, over mathematical integers *)
Definition covered (start end_ : Z) (values : list Z) (slot : Z) : bool :=
  (start <=? slot) && (slot <=? end_) && (slot - start <? zlen values).

Section BT.
Variable prog : program.
Hypothesis prog_Get : plookup "Index.Get" prog = Some fn_Index_Get.
Hypothesis prog_Set : plookup "Index.Set" prog = Some fn_Index_Set.
Hypothesis prog_b2b : plookup "blocktimeToBytes" prog = Some fn_blocktimeToBytes.

Lemma wrap_u64_sub a b : 0 <= b <= a -> a < two64 -> wrap U64 (a - b) = a - b.
Proof. intros H1 H2. apply wrap_unsigned_id; [reflexivity|]. unfold two64 in H2. cbn. lia. Qed.

Lemma wrap_u64_zlen (l : list Z) : zlen l < two64 -> wrap U64 (zlen l) = zlen l.
Proof. intros H. apply wrap_unsigned_id; [reflexivity|]. pose proof (zlen_nonneg l). unfold two64 in H. cbn. lia. Qed.

(* Get: total — a value exactly on the covered slots, the out-of-range error on all others, never a panic *)
Theorem Get_spec fuel start end_ epoch capacity values slot :
  0 <= start < two64 -> 0 <= end_ < two64 -> 0 <= slot < two64 -> zlen values < two64 ->
  call prog ext_bt fuel "Index.Get" [index_val start end_ epoch capacity values; VInt slot] =
  if covered start end_ values slot
  then RRet (VTuple [VInt (nth_z values (slot - start)); VNil])
  else RRet (VTuple [VInt 0; oor]).
Proof.
  intros Hs He Hsl Hlen.
  unfold call. rewrite prog_Get. unfold fn_Index_Get, index_val, covered.
  cbn [f_params f_body bind_params]. go_run.
  destruct (Z.ltb_spec slot start) as [Hlt|Hge].
  { go_run. change (ext_bt "NewErrSlotOutOfRange" [VInt start; VInt end_; VInt slot]) with (Some (VErr "ErrSlotOutOfRange")). go_run. destruct (Z.leb_spec start slot); [lia|]. reflexivity. }
  destruct (Z.leb_spec start slot) as [_|]; [|lia].
  go_run. 
  destruct (Z.ltb_spec end_ slot) as [Hgt|Hle].
  { go_run. change (ext_bt "NewErrSlotOutOfRange" [VInt start; VInt end_; VInt slot]) with (Some (VErr "ErrSlotOutOfRange")). go_run. destruct (Z.leb_spec slot end_); [lia|]. reflexivity. }
  destruct (Z.leb_spec slot end_) as [_|]; [|lia].
  go_run. rewrite (wrap_u64_sub slot start) by lia. rewrite (wrap_u64_zlen values Hlen).
  destruct (Z.leb_spec (zlen values) (slot - start)) as [Hoob|Hin].
  { go_run. change (ext_bt "NewErrSlotOutOfRange" [VInt start; VInt end_; VInt slot]) with (Some (VErr "ErrSlotOutOfRange")). go_run. destruct (Z.ltb_spec (slot - start) (zlen values)); [lia|]. reflexivity. }
  destruct (Z.ltb_spec (slot - start) (zlen values)) as [_|]; [|lia].
  go_run. rewrite (wrap_u64_sub slot start) by lia.
  destruct (Z.leb_spec 0 (slot - start)) as [_|]; [|lia].
  destruct (Z.ltb_spec (slot - start) (zlen values)) as [_|]; [|lia].
  go_run. reflexivity.
Qed.

(* Set: total — stores at slot - start on the covered slots and returns the table unchanged with the error otherwise *)
Theorem Set_spec fuel start end_ epoch capacity values slot time :
  0 <= start < two64 -> 0 <= end_ < two64 -> 0 <= slot < two64 -> zlen values < two64 ->
  call prog ext_bt fuel "Index.Set" [index_val start end_ epoch capacity values; VInt slot; VInt time] =
  if covered start end_ values slot
  then RRet (VTuple [VNil; index_val start end_ epoch capacity (set_nth values (Z.to_nat (slot - start)) time)])
  else RRet (VTuple [oor; index_val start end_ epoch capacity values]).
Proof.
  intros Hs He Hsl Hlen.
  unfold call. rewrite prog_Set. unfold fn_Index_Set, index_val, covered.
  cbn [f_params f_body bind_params]. go_run.
  destruct (Z.ltb_spec slot start) as [Hlt|Hge].
  { go_run. change (ext_bt "NewErrSlotOutOfRange" [VInt start; VInt end_; VInt slot]) with (Some (VErr "ErrSlotOutOfRange")). go_run. destruct (Z.leb_spec start slot); [lia|]. reflexivity. }
  destruct (Z.leb_spec start slot) as [_|]; [|lia].
  go_run.
  destruct (Z.ltb_spec end_ slot) as [Hgt|Hle].
  { go_run. change (ext_bt "NewErrSlotOutOfRange" [VInt start; VInt end_; VInt slot]) with (Some (VErr "ErrSlotOutOfRange")). go_run. destruct (Z.leb_spec slot end_); [lia|]. reflexivity. }
  destruct (Z.leb_spec slot end_) as [_|]; [|lia].
  go_run. rewrite (wrap_u64_sub slot start) by lia. rewrite (wrap_u64_zlen values Hlen).
  destruct (Z.leb_spec (zlen values) (slot - start)) as [Hoob|Hin].
  { go_run. change (ext_bt "NewErrSlotOutOfRange" [VInt start; VInt end_; VInt slot]) with (Some (VErr "ErrSlotOutOfRange")). go_run. destruct (Z.ltb_spec (slot - start) (zlen values)); [lia|]. reflexivity. }
  destruct (Z.ltb_spec (slot - start) (zlen values)) as [_|]; [|lia].
  go_run. rewrite ?(wrap_u64_sub slot start) by lia.
  destruct (Z.leb_spec 0 (slot - start)) as [_|]; [|lia].
  destruct (Z.ltb_spec (slot - start) (zlen values)) as [_|]; [|lia].
  go_run. reflexivity.
Qed.

(* blocktimeToBytes *)
Theorem blocktimeToBytes_spec fuel (t : Z) :
  call prog ext_bt fuel "blocktimeToBytes" [VInt t] =
  if (0 <=? t) && (t <=? 4294967295)
  then RRet (VTuple [VInts (le_bytes 4 t); VNil])
  else RRet (VTuple [VInts []; VErr "fmt.Errorf"]).
Proof.
  unfold call. rewrite prog_b2b. unfold fn_blocktimeToBytes.
  cbn [f_params f_body bind_params]. go_run.
  destruct (Z.ltb_spec t 0) as [Hneg|Hnn].
  { go_run. destruct (Z.leb_spec 0 t); [lia|]. reflexivity. }
  destruct (Z.leb_spec 0 t) as [_|]; [|lia].
  go_run.
  destruct (Z.ltb_spec 4294967295 t) as [Hbig|Hfit].
  { go_run. destruct (Z.leb_spec t 4294967295); [lia|]. reflexivity. }
  destruct (Z.leb_spec t 4294967295) as [_|]; [|lia].
  go_run.
  rewrite (wrap_unsigned_id U32 t) by (try reflexivity; cbn; lia).
  reflexivity.
Qed.

End BT.

(* the table's values as naturals: what Get returns on a covered slot is the element the C01 model reads *)
Lemma nth_z_map_N (vs : list N) (k : N) :
  (k < N.of_nat (List.length vs))%N ->
  nth_error vs (N.to_nat k) = Some (Z.to_N (nth_z (map Z.of_N vs) (Z.of_N k))).
Proof.
  intros Hk. unfold nth_z. replace (Z.to_nat (Z.of_N k)) with (N.to_nat k) by lia.
  assert (Hlt : (N.to_nat k < List.length vs)%nat) by lia.
  revert Hlt. generalize (N.to_nat k) as n. clear Hk.
  induction vs as [|v vs IH]; intros [|n] Hn; cbn in *; try lia.
  - rewrite N2Z.id. reflexivity.
  - apply IH. lia.
Qed.

Lemma nth_z_map_N_nonneg (vs : list N) (i : Z) : 0 <= nth_z (map Z.of_N vs) i.
Proof.
  unfold nth_z. generalize (Z.to_nat i) as n.
  induction vs as [|v vs IH]; intros [|n]; cbn [map nth]; try lia. apply IH.
Qed.

(* ---------- the bridge to the models: C01_IndexAll.bt_get / bt_set (values) and C12_Parsers.bt_get (outcome class) ---------- *)
Require YF.C01_IndexAll YF.C12_Parsers.

Definition index_of (t : C01_IndexAll.bt) (epoch capacity : Z) : val :=
  index_val (Z.of_N (C01_IndexAll.bt_start t)) (Z.of_N (C01_IndexAll.bt_end t)) epoch capacity (map Z.of_N (C01_IndexAll.bt_vals t)).

Lemma zlen_map_N (vs : list N) : zlen (map Z.of_N vs) = Z.of_nat (List.length vs).
Proof. unfold zlen. rewrite map_length. reflexivity. Qed.

Lemma set_nth_map_N (vs : list N) (i : nat) (x : N) :
  set_nth (map Z.of_N vs) i (Z.of_N x) = map Z.of_N (C01_IndexAll.upd vs i x).
Proof. revert i; induction vs as [|v vs IH]; intros [|i]; cbn; try reflexivity. rewrite IH. reflexivity. Qed.

Lemma covered_N (s e : N) (vs : list N) (slot : N) :
  covered (Z.of_N s) (Z.of_N e) (map Z.of_N vs) (Z.of_N slot) =
  negb (N.ltb slot s || N.ltb e slot) && (N.ltb (slot - s) (N.of_nat (List.length vs))).
Proof.
  unfold covered. rewrite zlen_map_N.
  destruct (N.ltb_spec slot s) as [H1|H1]; destruct (N.ltb_spec e slot) as [H2|H2];
  destruct (N.ltb_spec (slot - s) (N.of_nat (List.length vs))) as [H3|H3];
  destruct (Z.leb_spec (Z.of_N s) (Z.of_N slot)); destruct (Z.leb_spec (Z.of_N slot) (Z.of_N e));
  destruct (Z.ltb_spec (Z.of_N slot - Z.of_N s) (Z.of_nat (List.length vs))); cbn; try reflexivity; lia.
Qed.

Section Bridge.
Variable prog : program.
Hypothesis prog_Get : plookup "Index.Get" prog = Some fn_Index_Get.
Hypothesis prog_Set : plookup "Index.Set" prog = Some fn_Index_Set.

Definition u64N (n : N) : Prop := (n < 18446744073709551616)%N.

(* Get is the model's bt_get: the stored time on a slot the table covers, the error everywhere else *)
Theorem Get_is_bt_get fuel (t : C01_IndexAll.bt) epoch capacity (slot : N) :
  u64N (C01_IndexAll.bt_start t) -> u64N (C01_IndexAll.bt_end t) -> u64N slot ->
  u64N (N.of_nat (List.length (C01_IndexAll.bt_vals t))) ->
  call prog ext_bt fuel "Index.Get" [index_of t epoch capacity; VInt (Z.of_N slot)] =
  match C01_IndexAll.bt_get t slot with
  | Some v => RRet (VTuple [VInt (Z.of_N v); VNil])
  | None => RRet (VTuple [VInt 0; oor])
  end.
Proof.
  unfold u64N. intros Hs He Hsl Hl. unfold index_of.
  rewrite (Get_spec prog prog_Get) by (unfold two64; rewrite ?zlen_map_N; lia).
  rewrite covered_N. unfold C01_IndexAll.bt_get.
  destruct (N.ltb slot (C01_IndexAll.bt_start t) || N.ltb (C01_IndexAll.bt_end t) slot) eqn:Hout; cbn [negb andb].
  - reflexivity.
  - destruct (N.ltb_spec (slot - C01_IndexAll.bt_start t) (N.of_nat (List.length (C01_IndexAll.bt_vals t)))) as [Hin|Hoob].
    + rewrite (nth_z_map_N _ _ Hin).
      assert (Hge : (C01_IndexAll.bt_start t <= slot)%N).
      { apply orb_false_iff in Hout. destruct Hout as [Ha _]. apply N.ltb_ge in Ha. exact Ha. }
      replace (Z.of_N (slot - C01_IndexAll.bt_start t)) with (Z.of_N slot - Z.of_N (C01_IndexAll.bt_start t)) by lia.
      assert (Hnn : 0 <= nth_z (map Z.of_N (C01_IndexAll.bt_vals t)) (Z.of_N slot - Z.of_N (C01_IndexAll.bt_start t))).
      { apply nth_z_map_N_nonneg. }
      rewrite Z2N.id by exact Hnn. reflexivity.
    + assert (Hnone : nth_error (C01_IndexAll.bt_vals t) (N.to_nat (slot - C01_IndexAll.bt_start t)) = None).
      { apply nth_error_None. lia. }
      rewrite Hnone. reflexivity.
Qed.

(* Set is the model's bt_set wherever the value slice reaches; beyond it (start, end and the slice's length come from
   a file and need not agree) the code returns the error and leaves the table as it was — the model's upd is the
   identity there *)
Theorem Set_is_bt_set fuel (t : C01_IndexAll.bt) epoch capacity (slot time : N) :
  u64N (C01_IndexAll.bt_start t) -> u64N (C01_IndexAll.bt_end t) -> u64N slot ->
  u64N (N.of_nat (List.length (C01_IndexAll.bt_vals t))) ->
  (slot - C01_IndexAll.bt_start t < N.of_nat (List.length (C01_IndexAll.bt_vals t)))%N ->
  call prog ext_bt fuel "Index.Set" [index_of t epoch capacity; VInt (Z.of_N slot); VInt (Z.of_N time)] =
  match C01_IndexAll.bt_set t slot time with
  | Some t' => RRet (VTuple [VNil; index_of t' epoch capacity])
  | None => RRet (VTuple [oor; index_of t epoch capacity])
  end.
Proof.
  unfold u64N. intros Hs He Hsl Hl Hin. unfold index_of.
  rewrite (Set_spec prog prog_Set) by (unfold two64; rewrite ?zlen_map_N; lia).
  rewrite covered_N. unfold C01_IndexAll.bt_set.
  destruct (N.ltb slot (C01_IndexAll.bt_start t) || N.ltb (C01_IndexAll.bt_end t) slot) eqn:Hout; cbn [negb andb].
  - reflexivity.
  - destruct (N.ltb_spec (slot - C01_IndexAll.bt_start t) (N.of_nat (List.length (C01_IndexAll.bt_vals t)))) as [_|Hoob]; [|lia].
    cbn [C01_IndexAll.bt_start C01_IndexAll.bt_end C01_IndexAll.bt_vals].
    assert (Hge : (C01_IndexAll.bt_start t <= slot)%N).
    { apply orb_false_iff in Hout. destruct Hout as [Ha _]. apply N.ltb_ge in Ha. exact Ha. }
    replace (Z.to_nat (Z.of_N slot - Z.of_N (C01_IndexAll.bt_start t))) with (N.to_nat (slot - C01_IndexAll.bt_start t)) by lia.
    rewrite set_nth_map_N. reflexivity.
Qed.

(* the outcome class of Get is the C12 parser model's: a value or the error, never a panic *)
Theorem Get_class_is_c12 fuel start end_ epoch (values : list N) (slot : N) ep cap :
  u64N start -> u64N end_ -> u64N slot -> u64N (N.of_nat (List.length values)) ->
  match C12_Parsers.bt_get C12_Parsers.bt_all (C12_Parsers.mk_bt start end_ epoch (N.of_nat (List.length values))) slot with
  | C12_Parsers.OOk _ => exists v, call prog ext_bt fuel "Index.Get"
        [index_val (Z.of_N start) (Z.of_N end_) ep cap (map Z.of_N values); VInt (Z.of_N slot)] = RRet (VTuple [VInt v; VNil])
  | C12_Parsers.OErr => call prog ext_bt fuel "Index.Get"
        [index_val (Z.of_N start) (Z.of_N end_) ep cap (map Z.of_N values); VInt (Z.of_N slot)] = RRet (VTuple [VInt 0; oor])
  | C12_Parsers.OPanic _ => False
  end.
Proof.
  unfold u64N. intros Hs He Hsl Hl.
  rewrite (Get_spec prog prog_Get) by (unfold two64; rewrite ?zlen_map_N; lia).
  rewrite covered_N. unfold C12_Parsers.bt_get.
  cbn [C12_Parsers.bt_start C12_Parsers.bt_end C12_Parsers.bt_capacity C12_Parsers.g_bt_get C12_Parsers.bt_all].
  destruct (N.ltb slot start || N.ltb end_ slot); cbn [negb andb]; [reflexivity|].
  rewrite N.leb_antisym.
  destruct (N.ltb (slot - start) (N.of_nat (List.length values))); cbn [negb]; [eexists; reflexivity | reflexivity].
Qed.

End Bridge.
