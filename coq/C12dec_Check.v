(* C12 (decoder part): checker for harness/iplddecoders/c12dec_test.go — the outcome class (ok | error | panic)
   of iplddecoders.Decode<Kind> on mutated node bytes against the model of C11_Nodes.v, run under the site
   flags measured on the implementation (flag true = the site returns an error, false = it panics). *)
From Coq Require Import List Arith Bool NArith ZArith.
Import ListNotations.
Require Import YF.Cbor YF.C11_Nodes YF.C11_Check.

(* flags are listed by site number, position 0 unused *)
Definition guarded_of (flags : list bool) : N -> bool := fun s => nth (N.to_nat s) flags true.

(* kind asked for, bytes, observed class *)
Definition case := (Z * list N * N)%type.

Definition case_ok (flags : list bool) (c : case) : bool :=
  let '(k, bs, cls) := c in
  N.eqb (class_of (fast_decode_bytes cid_len_impl (guarded_of flags) k bs)) cls.

Fixpoint bad_from (flags : list bool) (i : nat) (cs : list case) : list nat :=
  match cs with
  | [] => []
  | c :: t => if case_ok flags c then bad_from flags (S i) t else i :: bad_from flags (S i) t
  end.
Definition check_with (flags : list bool) (cs : list case) : list nat := bad_from flags 0 cs.
