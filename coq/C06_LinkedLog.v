(* C06 — byte-level model of gsfa/linkedlog/linked-log.go (Put / ReadWithSize) and
   gsfa/linkedlog/offset-size-slot.go (entry codec), over an abstract compressor.

   record  =  uvarint(len(z) + 9)  ||  z  ||  6-byte LE offset || 3-byte LE size   of the previous record
   z       =  compress( entries newest first, each  uvarint offset, uvarint size, uvarint slot, flags byte )

   [read_with_size] follows the REPAIRED ReadWithSize (fixes/C06-prefix-width.diff): the width of the length
   prefix is taken from the record itself.  [read_with_size_pinned] is the rule of the pinned tree (width of
   the uvarint of the TOTAL size), refuted at total length 128 (and 16384/16385) below. *)
From Coq Require Import List NArith Lia Arith Bool PeanoNat.
From Coq Require Import ZifyN ZifyNat ZifyBool.
Import ListNotations.
Require Import Codec ReadAt.
Local Open Scope N_scope.

(* ---------- entries (OffsetAndSizeAndSlot) ---------- *)
Definition entry := (N * N * N * N)%type.      (* offset, size, slot, flags *)

Definition entry_wf (e : entry) : Prop :=
  let '(o, s, sl, fl) := e in o < 2 ^ 64 /\ s < 2 ^ 64 /\ sl < 2 ^ 64 /\ fl < 256.

(* OffsetAndSizeAndSlot.Bytes *)
Definition entry_enc (e : entry) : list N :=
  let '(o, s, sl, fl) := e in uvarint o ++ uvarint s ++ uvarint sl ++ [fl].
(* createIndexesPayload before compression *)
Definition entries_enc (es : list entry) : list N := flat_map entry_enc es.

(* uvarintReader.ReadUvarint:  Some None = io.EOF (position at the end), None = "failed to parse uvarint" *)
Definition rd_uv (bs : list N) : option (option (N * list N)) :=
  match bs with
  | [] => Some None
  | _ => match uvarint_dec bs with
         | None => None
         | Some (v, n) => Some (Some (v, skipn n bs))
         end
  end.

(* OffsetAndSizeAndSlotSliceFromBytes: entries are read until io.EOF; an EOF in the middle of an entry also
   ends the loop silently (errors.Is(err, io.EOF) holds for the wrapped error) *)
Fixpoint entries_dec (fuel : nat) (bs : list N) : option (list entry) :=
  match fuel with
  | O => match bs with [] => Some [] | _ => None end
  | S f =>
    match rd_uv bs with
    | None => None
    | Some None => Some []
    | Some (Some (o, b1)) =>
      match rd_uv b1 with
      | None => None
      | Some None => Some []
      | Some (Some (s, b2)) =>
        match rd_uv b2 with
        | None => None
        | Some None => Some []
        | Some (Some (sl, b3)) =>
          match b3 with
          | [] => Some []
          | fl :: rest =>
            match entries_dec f rest with
            | Some es => Some ((o, s, sl, fl) :: es)
            | None => None
            end
          end
        end
      end
    end
  end.

Lemma uv_enc_nonempty f x : uv_enc f x <> [].
Proof. destruct f; cbn; [discriminate|]. destruct (x <? 128); discriminate. Qed.

Lemma uvarint_length_pos x : (0 < length (uvarint x))%nat.
Proof.
  unfold uvarint. pose proof (uv_enc_nonempty 9 x) as H. destruct (uv_enc 9 x); [congruence|cbn; lia].
Qed.

Lemma uv_enc_length_le f x : (length (uv_enc f x) <= S f)%nat.
Proof.
  revert x; induction f as [|f IH]; intros x; cbn; [lia|].
  destruct (x <? 128); cbn; [lia|]. specialize (IH (x / 128)). lia.
Qed.

Lemma uvarint_length_le x : (length (uvarint x) <= 10)%nat.
Proof. unfold uvarint. apply uv_enc_length_le. Qed.

Lemma skipn_app_exact {A} (a b : list A) : skipn (length a) (a ++ b) = b.
Proof. rewrite skipn_app, skipn_all, Nat.sub_diag. reflexivity. Qed.

Lemma firstn_app_exact {A} (a b : list A) : firstn (length a) (a ++ b) = a.
Proof. rewrite firstn_app, firstn_all, Nat.sub_diag. cbn. apply app_nil_r. Qed.

Lemma firstn_app_len {A} (a b : list A) n : length a = n -> firstn n (a ++ b) = a.
Proof. intros <-. apply firstn_app_exact. Qed.
Lemma skipn_app_len {A} (a b : list A) n : length a = n -> skipn n (a ++ b) = b.
Proof. intros <-. apply skipn_app_exact. Qed.

Lemma rd_uv_app x rest : x < 2 ^ 64 -> rd_uv (uvarint x ++ rest) = Some (Some (x, rest)).
Proof.
  intros Hx. unfold rd_uv. pose proof (uvarint_roundtrip x rest Hx) as R.
  destruct (uvarint x ++ rest) as [|b t] eqn:E.
  - exfalso. pose proof (uvarint_length_pos x) as Hp. apply app_eq_nil in E. destruct E as [E _].
    rewrite E in Hp. cbn in Hp. lia.
  - rewrite R. rewrite <- E. rewrite skipn_app_exact. reflexivity.
Qed.

Lemma entries_dec_enc es : forall fuel, (length es <= fuel)%nat -> Forall entry_wf es ->
  entries_dec fuel (entries_enc es) = Some es.
Proof.
  induction es as [|e es IH]; intros fuel Hf Hw.
  - cbn. destruct fuel; reflexivity.
  - destruct fuel as [|fuel]; [cbn in Hf; lia|].
    inversion Hw as [|? ? He Hw']; subst. destruct e as [[[o s] sl] fl]. destruct He as (Ho & Hs & Hsl & _).
    cbn [entries_enc flat_map entry_enc]. rewrite <- !app_assoc. cbn [entries_dec].
    rewrite rd_uv_app by exact Ho. rewrite rd_uv_app by exact Hs. rewrite rd_uv_app by exact Hsl.
    cbn [app]. fold (entries_enc es). rewrite IH; [reflexivity| cbn in Hf; lia | exact Hw'].
Qed.

Lemma entry_enc_length_pos e : (0 < length (entry_enc e))%nat.
Proof. destruct e as [[[o s] sl] fl]. cbn. rewrite !app_length. cbn. lia. Qed.

Lemma entries_enc_length es : (length es <= length (entries_enc es))%nat.
Proof.
  induction es as [|e es IH]; [cbn; lia|]. cbn [entries_enc flat_map length]. fold (entries_enc es).
  rewrite app_length. pose proof (entry_enc_length_pos e). lia.
Qed.

(* ---------- previous-record pointer: indexes.OffsetAndSize.Bytes / FromBytes (6 + 3 bytes LE) ---------- *)
Definition ptr := (N * N)%type.                  (* offset, size *)
Definition ptr_zero : ptr := (0, 0).
Definition ptr_is_zero (p : ptr) : bool := (fst p =? 0) && (snd p =? 0).
(* Uint48tob / Uint24tob panic beyond their range; the model keeps the low bytes there and every theorem
   about reading is stated under [ptr_fits] *)
Definition ptr_enc (p : ptr) : list N := le_enc 6 (fst p) ++ le_enc 3 (snd p).
Definition ptr_dec (bs : list N) : ptr := (le_dec (firstn 6 bs), le_dec (skipn 6 bs)).
Definition ptr_fits (p : ptr) : Prop := fst p < 2 ^ 48 /\ snd p < 2 ^ 24.

Lemma ptr_enc_length p : length (ptr_enc p) = 9%nat.
Proof. unfold ptr_enc. rewrite app_length, !le_enc_length. reflexivity. Qed.

Lemma ptr_roundtrip p : ptr_fits p -> ptr_dec (ptr_enc p) = p.
Proof.
  intros [H1 H2]. destruct p as [o s]. cbn [fst snd] in *. unfold ptr_dec, ptr_enc. cbn [fst snd].
  rewrite (firstn_app_len _ _ 6%nat (le_enc_length 6 o)), (skipn_app_len _ _ 6%nat (le_enc_length 6 o)).
  rewrite !le_roundtrip; [reflexivity| |].
  - change (256 ^ N.of_nat 3) with (2 ^ 24). exact H2.
  - change (256 ^ N.of_nat 6) with (2 ^ 48). exact H1.
Qed.

(* ---------- records ---------- *)
Definition max_read : N := 268435456.           (* ReadWithSize refuses sizes above 256 MiB *)

Section LL.
Variable compress : list N -> list N.            (* tooling.CompressZstd *)
Variable decompress : list N -> option (list N). (* tooling.DecompressZstd *)

(* entries are given NEWEST FIRST here (Put reverses the values before encoding them) *)
Definition payload (es : list entry) : list N := compress (entries_enc es).
Definition record (es : list entry) (prev : ptr) : list N :=
  let z := payload es in uvarint (N.of_nat (length z) + 9) ++ z ++ ptr_enc prev.

(* LinkedLog.Put for one key with a non-empty value list (oldest first); returns the new file and the
   (offset, number of bytes written) handed to callbackAfter *)
Definition put (file : list N) (prev : ptr) (values : list entry) : list N * ptr :=
  let r := record (rev values) prev in
  (file ++ r, (N.of_nat (length file), N.of_nat (length r))).

Definition decode_body (body : list N) : option (list entry * ptr) :=
  let zl := (length body - 9)%nat in
  match decompress (firstn zl body) with
  | None => None
  | Some raw =>
    match entries_dec (length raw) raw with
    | None => None
    | Some es => Some (es, ptr_dec (skipn zl body))
    end
  end.

(* ReadWithSize, repaired: read [size] bytes at [off]; the record's own uvarint prefix says how wide it is
   and must agree with the size *)
Definition read_with_size (file : list N) (off size : N) : option (list entry * ptr) :=
  if max_read <? size then None else
  match read_at file (N.to_nat off) (N.to_nat size) with
  | None => None
  | Some rec =>
    match uvarint_dec rec with
    | None => None
    | Some (p, n) =>
      if (p =? size - N.of_nat n) && (9 <=? p) then decode_body (skipn n rec) else None
    end
  end.

(* ReadWithSize of the pinned tree: skips sizeOfUvarint(size) bytes, size being the TOTAL record size *)
Definition read_with_size_pinned (file : list N) (off size : N) : option (list entry * ptr) :=
  if max_read <? size then None else
  let w := length (uvarint size) in
  match read_at file (N.to_nat off + w) (N.to_nat size - w) with
  | None => None
  | Some data => decode_body data
  end.

Hypothesis decompress_compress : forall x, decompress (compress x) = Some x.

Lemma record_length es prev :
  length (record es prev) = (length (uvarint (N.of_nat (length (payload es)) + 9)) + length (payload es) + 9)%nat.
Proof. unfold record. cbv zeta. rewrite !app_length, ptr_enc_length. lia. Qed.

Lemma decode_body_ok es prev : Forall entry_wf es -> ptr_fits prev ->
  decode_body (payload es ++ ptr_enc prev) = Some (es, prev).
Proof.
  intros Hw Hp. unfold decode_body. rewrite app_length, ptr_enc_length.
  replace (length (payload es) + 9 - 9)%nat with (length (payload es)) by lia.
  rewrite firstn_app_exact, skipn_app_exact. unfold payload at 1. rewrite decompress_compress.
  rewrite entries_dec_enc; [|apply entries_enc_length|exact Hw]. now rewrite ptr_roundtrip.
Qed.

(* a record lying anywhere in a file is read back from its (offset, total size) *)
Theorem read_record_mid pre post es prev :
  Forall entry_wf es -> ptr_fits prev -> N.of_nat (length (record es prev)) <= max_read ->
  read_with_size (pre ++ record es prev ++ post) (N.of_nat (length pre)) (N.of_nat (length (record es prev)))
  = Some (es, prev).
Proof.
  intros Hw Hp Hsz. unfold read_with_size.
  replace (max_read <? N.of_nat (length (record es prev))) with false by (symmetry; apply N.ltb_ge; exact Hsz).
  rewrite !Nat2N.id, read_at_mid.
  pose proof (record_length es prev) as HL. set (z := payload es) in *.
  set (P := N.of_nat (length z) + 9) in *.
  assert (HP : P < 2 ^ 64).
  { unfold max_read in Hsz. assert (2 ^ 64 = 18446744073709551616) by reflexivity. lia. }
  assert (E : record es prev = uvarint P ++ z ++ ptr_enc prev) by reflexivity.
  rewrite E in HL |- *.
  rewrite (uvarint_roundtrip P (z ++ ptr_enc prev) HP).
  replace (P =? N.of_nat (length (uvarint P ++ z ++ ptr_enc prev)) - N.of_nat (length (uvarint P))) with true
    by (symmetry; apply N.eqb_eq; rewrite HL; unfold P; lia).
  replace (9 <=? P) with true by (symmetry; apply N.leb_le; unfold P; lia).
  cbn [andb]. rewrite skipn_app_exact. apply decode_body_ok; assumption.
Qed.

(* C06, codec half: Put then ReadWithSize with what Put reported — for EVERY record length *)
Theorem put_read_roundtrip file prev values post :
  Forall entry_wf values -> ptr_fits prev ->
  N.of_nat (length (record (rev values) prev)) <= max_read ->
  read_with_size (fst (put file prev values) ++ post) (fst (snd (put file prev values))) (snd (snd (put file prev values)))
  = Some (rev values, prev).
Proof.
  intros Hw Hp Hsz. unfold put. cbn [fst snd]. rewrite <- app_assoc.
  apply read_record_mid; auto. apply Forall_rev. exact Hw.
Qed.

End LL.

(* ---------- the identity compressor: an executable instance (satisfies the round-trip hypothesis) ---------- *)
Definition id_compress (x : list N) : list N := x.
Definition id_decompress (x : list N) : option (list N) := Some x.
Lemma id_roundtrip x : id_decompress (id_compress x) = Some x.
Proof. reflexivity. Qed.

(* a table compressor: the (compressed, raw) pairs observed on the real zstd; used to run the model's reader
   on files written by the implementation *)
Fixpoint list_N_eqb (a b : list N) : bool :=
  match a, b with
  | [], [] => true
  | x :: a', y :: b' => (x =? y) && list_N_eqb a' b'
  | _, _ => false
  end.
Fixpoint tab_decompress (tab : list (list N * list N)) (z : list N) : option (list N) :=
  match tab with
  | [] => None
  | (z', raw) :: t => if list_N_eqb z z' then Some raw else tab_decompress t z
  end.

(* ---------- the pinned prefix rule is wrong exactly at the uvarint width boundaries ---------- *)
(* 28 entries of 4 bytes + 1 entry of 6 bytes = 118 payload bytes; 118 + 9 = 127 has a 1-byte prefix; total 128 *)
Definition witness128 : list entry := (128, 128, 0, 0) :: repeat (0, 0, 0, 0) 28.

Lemma witness128_length : length (record id_compress witness128 ptr_zero) = 128%nat.
Proof. vm_compute. reflexivity. Qed.

Lemma witness128_fixed_ok :
  read_with_size id_decompress (record id_compress witness128 ptr_zero) 0 128 = Some (witness128, ptr_zero).
Proof. vm_compute. reflexivity. Qed.

Lemma prefix_width_refuted :
  exists es prev, Forall entry_wf es /\ ptr_fits prev /\
    length (record id_compress es prev) = 128%nat /\
    read_with_size_pinned id_decompress (record id_compress es prev) 0 128 <> Some (es, prev).
Proof.
  exists witness128, ptr_zero. split; [|split; [|split]].
  - unfold witness128. constructor; [cbn; lia|]. apply Forall_forall. intros x Hx.
    apply repeat_spec in Hx. subst x. cbn. lia.
  - split; cbn; lia.
  - exact witness128_length.
  - vm_compute. intros H. discriminate H.
Qed.

(* second boundary: payload+9 = 16382 or 16383 has a 2-byte prefix, the totals 16384 and 16385 take 3 bytes *)
Definition witness16385 : list entry := (1, 0, 0, 0) :: (0, 0, 0, 0) :: repeat (128, 128, 128, 0) 2338.
Definition witness16384 : list entry := repeat (128, 128, 128, 0) 2339.

Lemma witness16k_lengths :
  N.of_nat (length (record id_compress witness16384 ptr_zero)) = 16384 /\
  N.of_nat (length (record id_compress witness16385 ptr_zero)) = 16385.
Proof. split; vm_compute; reflexivity. Qed.

Lemma witness16k_fixed_ok :
  read_with_size id_decompress (record id_compress witness16384 ptr_zero) 0 16384 = Some (witness16384, ptr_zero) /\
  read_with_size id_decompress (record id_compress witness16385 ptr_zero) 0 16385 = Some (witness16385, ptr_zero).
Proof. split; vm_compute; reflexivity. Qed.

Definition res_eqb (a b : option (list entry * ptr)) : bool :=
  match a, b with
  | None, None => true
  | Some (es, p), Some (es', p') =>
      list_N_eqb (entries_enc es) (entries_enc es') && (length es =? length es')%nat &&
      (fst p =? fst p') && (snd p =? snd p')
  | _, _ => false
  end.

Lemma prefix_width_refuted_16k :
  res_eqb (read_with_size_pinned id_decompress (record id_compress witness16384 ptr_zero) 0 16384)
          (Some (witness16384, ptr_zero)) = false /\
  res_eqb (read_with_size_pinned id_decompress (record id_compress witness16385 ptr_zero) 0 16385)
          (Some (witness16385, ptr_zero)) = false.
Proof. split; vm_compute; reflexivity. Qed.
