(* C16, part 2 — cmd-car-split.go: newCmd_SplitCar as a fold over the block families delivered by
   accum.ObjectAccumulator (accum/block.go), as the code is on the pinned tree.

   accum.Run (net effect; C15 is about its schedule independence): walk the sections in file order;
     kind == flushOnKind (Block)            -> callback(parent = element, children); children := []
     kind in ignoreKinds (Epoch, Subset)    -> dropped            (checked AFTER the flush kind)
     otherwise                              -> children := children ++ [element]
     end of file                            -> callback(nil, children)      (trailing objects)
   split-car's callback:
     if parent == nil { return nil }                        // trailing objects are not written
     family := append(children, *parent)
     dagSize := sum of member.RawSectionSize()
     if currentFile == nil || currentFileSize+uint64(dagSize) > maxFileSize
        || len(currentSubsetInfo.blockLinks) > maxLinks { createNewFile() }
     blockLinks = append(blockLinks, parent link)
     writeBlockDag(family)        // for each member: write RawSection; currentFileSize += len(section)
   createNewFile: when a piece is open: append the Subset node (NOT counted in currentFileSize), record
     CarFile{ContentSize: currentFileSize - hdrSize, HeaderSize: hdrSize}, close it; then open the next
     piece: write the placeholder header, currentFileSize = hdrSize, blockLinks = [].
   after the walk: append Subset + Epoch node (not counted), record the last piece the same way.
   (With no block at all there is no open piece and writeSubsetNode dereferences a nil *bufio.Writer:
    the command crashes; [split] answers None there.)

   Sizes are N; the uint64 additions cannot wrap for sizes of real files (not modelled). *)
From Coq Require Import List Arith Lia Bool PeanoNat NArith.
Import ListNotations.

Section Split.
Context {A : Type}.

Record obj := { okind : N; osec : list A }.       (* kind byte, raw section (varint ++ cid ++ data) *)

Record cfg := {
  flush_kind : N;            (* iplddecoders.KindBlock *)
  ignore_kinds : list N;     (* KindEpoch, KindSubset *)
  hdr : N;                   (* hdrSize: size of the placeholder header of every piece *)
  target : N;                (* maxFileSize (--size) *)
  max_links : nat            (* maxLinks *)
}.

Definition family := (list obj * obj)%type.        (* children, parent block *)
Definition family_objs (f : family) : list obj := fst f ++ [snd f].     (* append(children, *parent) *)

Definition is_flush (c : cfg) (o : obj) : bool := N.eqb (okind o) (flush_kind c).
Definition is_ignored (c : cfg) (o : obj) : bool := existsb (N.eqb (okind o)) (ignore_kinds c).

(* accum.Run: families in file order + the trailing children handed over with parent == nil *)
Fixpoint groups (c : cfg) (objs : list obj) (children : list obj) : list family * list obj :=
  match objs with
  | [] => ([], children)
  | o :: r =>
    if is_flush c o then let '(fs, orph) := groups c r [] in ((children, o) :: fs, orph)
    else if is_ignored c o then groups c r children
    else groups c r (children ++ [o])
  end.

Definition families (c : cfg) (objs : list obj) : list family := fst (groups c objs []).
Definition orphans (c : cfg) (objs : list obj) : list obj := snd (groups c objs []).

(* the sections that take part: everything except ignored non-block objects *)
Definition non_ignored (c : cfg) (objs : list obj) : list obj :=
  filter (fun o => is_flush c o || negb (is_ignored c o)) objs.

Definition sec_len (o : obj) : N := N.of_nat (length (osec o)).
(* dagSize: for _, member := range family { dagSize += member.RawSectionSize() } *)
Definition dag_size (f : family) : N := fold_left (fun a m => a + sec_len m)%N (family_objs f) 0%N.
(* writeBlockDag: currentFileSize += len(section) for each member *)
Definition write_family (sz : N) (f : family) : N := fold_left (fun a m => a + sec_len m)%N (family_objs f) sz.

Record piece := { pfams : list family; psize : N }.       (* families written, currentFileSize at close *)

(* currentFile (families so far, currentFileSize, len(blockLinks)) + the pieces already closed *)
Record st := { cur : option (list family * N * nat); closed : list piece }.
Definition init : st := {| cur := None; closed := [] |}.

Definition need_new (c : cfg) (s : st) (f : family) : bool :=
  match cur s with
  | None => true
  | Some (_, sz, links) => (target c <? sz + dag_size f)%N || (max_links c <? links)%nat
  end.

Definition close_cur (s : st) : list piece :=
  match cur s with
  | Some (fs, sz, _) => closed s ++ [{| pfams := fs; psize := sz |}]
  | None => closed s
  end.

Definition step (c : cfg) (s : st) (f : family) : st :=
  let s1 := if need_new c s f then {| cur := Some ([], hdr c, 0%nat); closed := close_cur s |} else s in
  match cur s1 with
  | Some (fs, sz, links) => {| cur := Some (fs ++ [f], write_family sz f, S links); closed := closed s1 |}
  | None => s1
  end.

Definition split_fams (c : cfg) (fams : list family) : option (list piece) :=
  let s := fold_left (step c) fams init in
  match cur s with
  | Some _ => Some (close_cur s)
  | None => None                      (* no block at all: the command crashes on a nil writer *)
  end.

Definition split (c : cfg) (objs : list obj) : option (list piece) := split_fams c (families c objs).

(* what the metadata records, and what the piece holds between its header and the appended nodes *)
Definition content_size (c : cfg) (p : piece) : N := (psize p - hdr c)%N.      (* currentFileSize - hdrSize *)
Definition piece_objs (p : piece) : list obj := flat_map family_objs (pfams p).
Definition dag_content (p : piece) : list A := concat (map osec (piece_objs p)).

(* ================= proofs ================= *)

(* ---- grouping ---- *)
Lemma groups_flatten c objs : forall children,
  children ++ non_ignored c objs =
    flat_map family_objs (fst (groups c objs children)) ++ snd (groups c objs children).
Proof.
  induction objs as [|o r IH]; intros children; cbn [groups non_ignored filter].
  - cbn. now rewrite app_nil_r.
  - fold (non_ignored c r). destruct (is_flush c o) eqn:Ef.
    + cbn [orb]. specialize (IH []). destruct (groups c r []) as [fs orph]. cbn [fst snd] in *.
      cbn [flat_map]. unfold family_objs at 1. cbn [fst snd]. rewrite <- !app_assoc. cbn [app].
      f_equal. f_equal. exact IH.
    + cbn [orb]. destruct (is_ignored c o) eqn:Ei; cbn [negb].
      * apply IH.
      * rewrite <- IH. rewrite <- app_assoc. reflexivity.
Qed.

Lemma non_ignored_families c objs :
  non_ignored c objs = flat_map family_objs (families c objs) ++ orphans c objs.
Proof. exact (groups_flatten c objs []). Qed.

Lemma groups_parents_flush c objs : forall children,
  Forall (fun f => is_flush c (snd f) = true) (fst (groups c objs children)).
Proof.
  induction objs as [|o r IH]; intros children; cbn [groups]; [constructor|].
  destruct (is_flush c o) eqn:Ef.
  - specialize (IH []). destruct (groups c r []) as [fs orph]. cbn [fst] in *. constructor; auto.
  - destruct (is_ignored c o); apply IH.
Qed.

Lemma groups_children_not_flush c objs : forall children,
  Forall (fun o => is_flush c o = false) children ->
  Forall (fun f => Forall (fun o => is_flush c o = false) (fst f)) (fst (groups c objs children)).
Proof.
  induction objs as [|o r IH]; intros children Hc; cbn [groups]; [constructor|].
  destruct (is_flush c o) eqn:Ef.
  - specialize (IH [] (Forall_nil _)). destruct (groups c r []) as [fs orph]. cbn [fst] in *. constructor; auto.
  - destruct (is_ignored c o); apply IH; auto. apply Forall_app; split; auto.
Qed.

Lemma families_shape c objs :
  Forall (fun f => is_flush c (snd f) = true /\ Forall (fun o => is_flush c o = false) (fst f)) (families c objs).
Proof.
  unfold families. pose proof (groups_parents_flush c objs []) as H1.
  pose proof (groups_children_not_flush c objs [] (Forall_nil _)) as H2.
  induction (fst (groups c objs [])) as [|f fs IH]; [constructor|].
  inversion H1; inversion H2; subst. constructor; auto.
Qed.

(* ---- size accounting ---- *)
Lemma fold_add_len (l : list obj) : forall a,
  fold_left (fun a m => a + sec_len m)%N l a = (a + N.of_nat (length (concat (map osec l))))%N.
Proof.
  induction l as [|m l IH]; intros a; cbn [fold_left map concat].
  - cbn. lia.
  - rewrite IH, app_length. unfold sec_len. lia.
Qed.

Definition fam_content (f : family) : list A := concat (map osec (family_objs f)).
Definition fams_content (fs : list family) : list A := concat (map osec (flat_map family_objs fs)).

Lemma fams_content_app a b : fams_content (a ++ b) = fams_content a ++ fams_content b.
Proof. unfold fams_content. now rewrite flat_map_app, map_app, concat_app. Qed.
Lemma fams_content_one f : fams_content [f] = fam_content f.
Proof. unfold fams_content, fam_content. cbn [flat_map]. now rewrite app_nil_r. Qed.

Lemma dag_size_len f : dag_size f = N.of_nat (length (fam_content f)).
Proof. unfold dag_size, fam_content. rewrite fold_add_len. lia. Qed.
Lemma write_family_len sz f : write_family sz f = (sz + N.of_nat (length (fam_content f)))%N.
Proof. unfold write_family, fam_content. apply fold_add_len. Qed.

(* ---- the fold invariant ---- *)
(* all families consumed so far = closed pieces ++ current one; every closed piece is non-empty and
   its recorded size is hdr + the length of its content; same for the open piece; the link counter is
   the number of families in the open piece; pieces with more than one family respect the target and
   no piece holds more than max_links + 1 blocks. *)
Definition piece_ok (c : cfg) (p : piece) : Prop :=
  pfams p <> [] /\
  psize p = (hdr c + N.of_nat (length (fams_content (pfams p))))%N /\
  ((1 < length (pfams p))%nat -> (psize p <= target c)%N) /\
  (length (pfams p) <= S (max_links c))%nat.

Definition cur_fams (s : st) : list family := match cur s with Some (fs, _, _) => fs | None => [] end.

Definition inv (c : cfg) (seen : list family) (s : st) : Prop :=
  concat (map pfams (closed s)) ++ cur_fams s = seen /\
  Forall (piece_ok c) (closed s) /\
  match cur s with
  | None => seen = []
  | Some (fs, sz, links) => piece_ok c {| pfams := fs; psize := sz |} /\ links = length fs
  end.

Lemma inv_init c : inv c [] init.
Proof. repeat split; constructor. Qed.

Lemma step_inv c seen s f : inv c seen s -> inv c (seen ++ [f]) (step c s f).
Proof.
  intros [Hcat [Hcl Hcur]]. unfold step.
  destruct (need_new c s f) eqn:En.
  - (* a new piece is opened; the current one (if any) is closed *)
    cbn [cur closed]. unfold inv. cbn [cur closed cur_fams app]. repeat split.
    + unfold close_cur. destruct (cur s) as [[[fs sz] links]|] eqn:Ec.
      * rewrite map_app, concat_app. cbn [map concat pfams]. rewrite app_nil_r.
        unfold cur_fams in Hcat. rewrite Ec in Hcat. now rewrite Hcat.
      * unfold cur_fams in Hcat. rewrite Ec, app_nil_r in Hcat. now rewrite Hcat.
    + unfold close_cur. destruct (cur s) as [[[fs sz] links]|] eqn:Ec; [|exact Hcl].
      apply Forall_app; split; [exact Hcl|]. constructor; [|constructor]. apply Hcur.
    + cbn [pfams]. discriminate.
    + cbn [pfams psize]. rewrite fams_content_one, write_family_len. reflexivity.
    + cbn [pfams length]. lia.
    + cbn [pfams length]. lia.
  - (* the family is appended to the open piece *)
    unfold need_new in En. destruct (cur s) as [[[fs sz] links]|] eqn:Ec; [|discriminate].
    apply orb_false_iff in En. destruct En as [Esz Elk].
    apply N.ltb_ge in Esz. apply Nat.ltb_ge in Elk.
    destruct Hcur as [[Hne [Hsz [Htg Hln]]] Hlinks]. cbn [pfams psize] in *.
    unfold inv. cbn [cur closed]. unfold cur_fams. cbn [cur]. repeat split.
    + unfold cur_fams in Hcat. rewrite Ec in Hcat. rewrite app_assoc. now rewrite Hcat.
    + exact Hcl.
    + cbn [pfams]. destruct fs; discriminate.
    + cbn [pfams psize]. rewrite write_family_len, fams_content_app, fams_content_one, app_length, Hsz. lia.
    + cbn [pfams psize]. intros _. rewrite write_family_len. rewrite dag_size_len in Esz. exact Esz.
    + cbn [pfams]. rewrite app_length. cbn [length]. lia.
    + rewrite app_length. cbn [length]. lia.
Qed.

Lemma fold_inv c fams : forall seen s, inv c seen s -> inv c (seen ++ fams) (fold_left (step c) fams s).
Proof.
  induction fams as [|f fams IH]; intros seen s H; cbn [fold_left].
  - now rewrite app_nil_r.
  - replace (seen ++ f :: fams) with ((seen ++ [f]) ++ fams) by (rewrite <- app_assoc; reflexivity).
    apply IH. now apply step_inv.
Qed.

Lemma split_fams_spec c fams ps : split_fams c fams = Some ps ->
  concat (map pfams ps) = fams /\ Forall (piece_ok c) ps.
Proof.
  unfold split_fams. pose proof (fold_inv c fams [] init (inv_init c)) as H. cbn [app] in H.
  destruct H as [Hcat [Hcl Hcur]]. unfold close_cur.
  destruct (cur (fold_left (step c) fams init)) as [[[fs sz] links]|] eqn:Ec; [|discriminate].
  intros E; inversion E; subst ps; clear E. split.
  - rewrite map_app, concat_app. cbn [map concat pfams]. rewrite app_nil_r.
    unfold cur_fams in Hcat. rewrite Ec in Hcat. exact Hcat.
  - apply Forall_app; split; [exact Hcl|]. constructor; [apply Hcur|constructor].
Qed.

Lemma split_fams_some c fams : fams <> [] -> exists ps, split_fams c fams = Some ps.
Proof.
  intros Hne. unfold split_fams.
  pose proof (fold_inv c fams [] init (inv_init c)) as H. cbn [app] in H. destruct H as [_ [_ Hcur]].
  destruct (cur (fold_left (step c) fams init)); [eauto|congruence].
Qed.

(* ---- content ---- *)
Lemma dag_content_fams p : dag_content p = fams_content (pfams p).
Proof. reflexivity. Qed.

Lemma concat_dag_content ps :
  concat (map dag_content ps) = fams_content (concat (map pfams ps)).
Proof.
  induction ps as [|p ps IH]; [reflexivity|]. cbn [map concat]. rewrite fams_content_app, IH. reflexivity.
Qed.

(* ---- positions inside a concatenation: "exactly one piece" ---- *)
Section Locate.
Context {B : Type}.
Definition before (ls : list (list B)) (i : nat) : nat := length (concat (firstn i ls)).

Lemma before_S ls i l : nth_error ls i = Some l -> before ls (S i) = before ls i + length l.
Proof.
  unfold before. revert i; induction ls as [|x ls IH]; intros i H; [destruct i; discriminate|].
  destruct i as [|i]; cbn [nth_error] in H.
  - inversion H; subst. cbn. rewrite app_nil_r. reflexivity.
  - rewrite !firstn_cons. cbn [concat]. rewrite !app_length. rewrite (IH i H). lia.
Qed.

Lemma before_mono ls i j : i <= j -> before ls i <= before ls j.
Proof.
  unfold before. revert i j; induction ls as [|x ls IH]; intros i j H.
  - now rewrite !firstn_nil.
  - destruct i as [|i]; [cbn; lia|]. destruct j as [|j]; [lia|].
    rewrite !firstn_cons. cbn [concat]. rewrite !app_length. specialize (IH i j). lia.
Qed.

Lemma locate_exists ls : forall j x, nth_error (concat ls) j = Some x ->
  exists i k l, nth_error ls i = Some l /\ nth_error l k = Some x /\ j = before ls i + k.
Proof.
  induction ls as [|l0 ls IH]; intros j x H; [destruct j; discriminate|]. cbn [concat] in H.
  destruct (Nat.lt_ge_cases j (length l0)) as [Hlt|Hge].
  - rewrite nth_error_app1 in H by exact Hlt. exists 0, j, l0. repeat split; auto.
  - rewrite nth_error_app2 in H by exact Hge. destruct (IH _ _ H) as [i [k [l [H1 [H2 H3]]]]].
    exists (S i), k, l. repeat split; auto. unfold before in *. rewrite firstn_cons. cbn [concat]. rewrite app_length. lia.
Qed.

Lemma locate_unique ls i k l i' k' l' :
  nth_error ls i = Some l -> k < length l -> nth_error ls i' = Some l' -> k' < length l' ->
  before ls i + k = before ls i' + k' -> i = i' /\ k = k'.
Proof.
  intros H1 H2 H3 H4 H5.
  assert (i = i').
  { destruct (Nat.lt_trichotomy i i') as [Hlt|[Heq|Hgt]]; [|exact Heq|]; exfalso.
    - pose proof (before_mono ls (S i) i' Hlt). rewrite (before_S ls i l H1) in H. lia.
    - pose proof (before_mono ls (S i') i Hgt). rewrite (before_S ls i' l' H3) in H. lia. }
  subst i'. split; [reflexivity|lia].
Qed.
End Locate.

(* ================= the theorems ================= *)

(* (1) the pieces partition the block families: contiguous runs, original order, none lost or repeated,
       no empty piece; (2) the DAG contents concatenate to the sections of the families in file order;
       (3) recorded content size = length of the DAG content; (4) greedy bounds. *)
Theorem split_pieces c objs ps : split c objs = Some ps ->
  concat (map pfams ps) = families c objs /\
  Forall (fun p => pfams p <> []) ps /\
  concat (map dag_content ps) = concat (map osec (flat_map family_objs (families c objs))) /\
  Forall (fun p => content_size c p = N.of_nat (length (dag_content p))) ps /\
  Forall (fun p => ((1 < length (pfams p))%nat -> (hdr c + content_size c p <= target c)%N) /\
                   (length (pfams p) <= S (max_links c))%nat) ps.
Proof.
  intros H. destruct (split_fams_spec c _ ps H) as [Hcat Hok]. split; [exact Hcat|].
  split; [|split; [|split]].
  - eapply Forall_impl; [|exact Hok]. intros p Hp. apply Hp.
  - rewrite concat_dag_content, Hcat. reflexivity.
  - eapply Forall_impl; [|exact Hok]. intros p [_ [Hsz _]]. unfold content_size. rewrite Hsz, dag_content_fams. lia.
  - eapply Forall_impl; [|exact Hok]. intros p [_ [Hsz [Htg Hln]]]. split; [|exact Hln].
    intros H1. specialize (Htg H1). unfold content_size. lia.
Qed.

(* the families' sections are all non-ignored sections of the CAR in order, up to the objects that
   follow the last block (which split-car does not write) *)
Theorem split_content_non_ignored c objs ps : split c objs = Some ps ->
  concat (map dag_content ps) ++ concat (map osec (orphans c objs)) = concat (map osec (non_ignored c objs)).
Proof.
  intros H. destruct (split_pieces c objs ps H) as [_ [_ [Hc _]]]. rewrite Hc.
  rewrite non_ignored_families, map_app, concat_app. reflexivity.
Qed.

(* every block family lies in exactly one piece *)
Theorem split_family_once c objs ps : split c objs = Some ps ->
  forall j f, nth_error (families c objs) j = Some f ->
  exists i k p, nth_error ps i = Some p /\ nth_error (pfams p) k = Some f /\
    j = before (map pfams ps) i + k /\
    (forall i' k' p', nth_error ps i' = Some p' -> (k' < length (pfams p'))%nat ->
        j = before (map pfams ps) i' + k' -> i' = i /\ k' = k).
Proof.
  intros H j f Hj. destruct (split_pieces c objs ps H) as [Hcat _]. rewrite <- Hcat in Hj.
  destruct (locate_exists _ _ _ Hj) as [i [k [l [H1 [H2 H3]]]]].
  rewrite nth_error_map in H1. destruct (nth_error ps i) as [p|] eqn:Ep; [|discriminate].
  cbn in H1. inversion H1; subst l. exists i, k, p.
  split; [exact Ep|]. split; [exact H2|]. split; [exact H3|].
  intros i' k' p' Hp' Hk' Hj'.
  assert (Hk : (k < length (pfams p))%nat) by (apply nth_error_Some; congruence).
  eapply (locate_unique (map pfams ps) i' k' (pfams p') i k (pfams p)); auto.
  - rewrite nth_error_map, Hp'. reflexivity.
  - rewrite nth_error_map, Ep. reflexivity.
  - lia.
Qed.

(* the command produces pieces as soon as the CAR holds a block *)
Theorem split_total c objs : families c objs <> [] -> exists ps, split c objs = Some ps.
Proof. apply split_fams_some. Qed.

End Split.

Arguments obj : clear implicits.
Arguments family : clear implicits.
Arguments piece : clear implicits.
Arguments st : clear implicits.
