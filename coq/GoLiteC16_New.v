(* C16 — NewMultiReaderAt (split-car-fetcher/fetcher.go), translated from the Go source on every check: the offset
   table it builds from the pieces' sizes IS the model's offsets_of 0 sizes (C16_MR.v) — the table the ReadAt theorem
   (GoLiteC16_ReadAt.v) assumes. *)
From Coq Require Import List ZArith NArith String Bool Lia.
Import ListNotations.
Require Import YF.GoLite YF.GoLiteLemmas YF.Generated.GoLiteC16 YF.C16_MR.
Local Open Scope string_scope.
Local Open Scope Z_scope.
Local Open Scope list_scope.

Section New.
Variable prog : program.
Hypothesis prog_New : plookup "NewMultiReaderAt" prog = Some fn_NewMultiReaderAt.

Definition sum (l : list Z) : Z := fold_right Z.add 0 l.

Definition new_env (rv : val) (sizes offs : list Z) (t sz i : Z) : env :=
  [("readers", rv); ("sizes", VInts sizes); ("offsets", VInts offs); ("total", VInt t); ("size", VInt sz); ("i", VInt i)].

Definition new_loop : stmt :=
  SFor (ECmp CLt (EVar "i") (ELen (EVar "sizes")))
       (SAssign (LVar "i") (EBin OAdd I64 (EVar "i") (EInt 1)))
       (SSeq (SAssign (LVar "size") (EIndex (EVar "sizes") (EVar "i")))
       (SSeq (SAssign (LIndex "offsets" (EVar "i")) (EVar "total"))
       (SAssign (LVar "total") (EBin OAdd I64 (EVar "total") (EVar "size"))))).

Lemma set_nth_app (pre : list Z) (x : Z) (rest : list Z) (v : Z) :
  set_nth (pre ++ x :: rest) (List.length pre) v = pre ++ v :: rest.
Proof. induction pre as [|p pre IH]; cbn; [reflexivity|]. rewrite IH. reflexivity. Qed.

Lemma nth_z_app (done : list Z) (x : Z) (r : list Z) : nth_z (done ++ x :: r) (Z.of_nat (List.length done)) = x.
Proof. unfold nth_z. rewrite Nat2Z.id. rewrite app_nth2 by lia. rewrite Nat.sub_diag. reflexivity. Qed.

Lemma new_loop_spec ext rv : forall (r done pre : list Z) (t sz : Z) fuel,
  List.length pre = List.length done ->
  Forall (fun x => 0 <= x) r -> 0 <= t -> t + sum r < 9223372036854775808 ->
  Z.of_nat (List.length (done ++ r)) < 4611686018427387904 ->
  (List.length r < fuel)%nat ->
  exists t' sz',
  exec prog ext fuel new_loop
    (new_env rv (done ++ r) (pre ++ repeat 0 (List.length r)) t sz (Z.of_nat (List.length done))) =
  RNorm (new_env rv (done ++ r) (pre ++ offsets_of t r) t' sz' (Z.of_nat (List.length (done ++ r)))).
Proof.
  induction r as [|x r IH]; intros done pre t sz fuel Hpre Hnn Ht Hsum Hlen Hfuel.
  - destruct fuel as [|fuel]; [cbn in Hfuel; lia|].
    exists t, sz. unfold new_loop. rewrite exec_for_S. unfold new_env. go_cbn.
    rewrite app_nil_r. unfold zlen.
    destruct (Z.ltb_spec (Z.of_nat (List.length done)) (Z.of_nat (List.length done))) as [Hc|_]; [lia|].
    cbn [of_eres repeat offsets_of]. reflexivity.
  - destruct fuel as [|fuel]; [cbn in Hfuel; lia|].
    inversion Hnn as [|? ? Hx Hnn']; subst. cbn [sum fold_right] in Hsum. fold (sum r) in Hsum.
    assert (Hsr : 0 <= sum r).
    { clear - Hnn'. induction Hnn' as [|y l Hy _ IHl]; cbn; [lia|]. unfold sum in IHl. lia. }
    assert (H1 : List.length (pre ++ [t]) = List.length (done ++ [x])) by (rewrite !app_length; cbn [List.length]; lia).
    assert (H5 : Z.of_nat (List.length ((done ++ [x]) ++ r)) < 4611686018427387904)
      by (rewrite <- app_assoc; exact Hlen).
    assert (H6 : (List.length r < fuel)%nat) by (cbn [List.length] in Hfuel; lia).
    destruct (IH (done ++ [x]) (pre ++ [t]) (t + x) x fuel H1 Hnn' ltac:(lia) ltac:(lia) H5 H6) as (t' & sz' & IHe).
    clear IH. rename IHe into IH.
    rewrite <- !app_assoc in IH. cbn [app] in IH. rewrite app_length in IH. cbn [List.length] in IH.
    exists t', sz'.
    unfold new_loop. rewrite exec_for_S. fold new_loop. unfold new_env. go_cbn.
    unfold zlen at 1. rewrite app_length. cbn [List.length].
    destruct (Z.ltb_spec (Z.of_nat (List.length done)) (Z.of_nat (List.length done + S (List.length r)))) as [_|Hc]; [|lia].
    cbn [of_eres]. go_run.
    (* sizes[i] *)
    unfold zlen. rewrite app_length. cbn [List.length].
    assert (Hb : (0 <=? Z.of_nat (List.length done)) && (Z.of_nat (List.length done) <? Z.of_nat (List.length done + S (List.length r))) = true).
    { rewrite andb_true_iff. split; [apply Z.leb_le|apply Z.ltb_lt]; lia. }
    rewrite Hb. go_cbn. rewrite nth_z_app. go_run.
    (* offsets[i] = total *)
    assert (Hlo : zlen (pre ++ 0 :: repeat 0 (List.length r)) = Z.of_nat (List.length done + S (List.length r))).
    { unfold zlen. rewrite app_length. cbn [List.length]. rewrite repeat_length. rewrite Hpre. reflexivity. }
    rewrite Hlo.
    assert (Hb2 : (0 <=? Z.of_nat (List.length done)) && (Z.of_nat (List.length done) <? Z.of_nat (List.length done + S (List.length r))) = true) by exact Hb.
    rewrite Hb2. go_cbn. rewrite Nat2Z.id. rewrite <- Hpre. rewrite set_nth_app. go_run.
    rewrite (wrap_i64_small (t + x)) by lia.
    assert (Hd : Z.of_nat (List.length pre) < 4611686018427387904) by (rewrite Hpre; rewrite app_length in Hlen; lia).
    rewrite (wrap_i64_small (Z.of_nat (List.length pre) + 1)) by lia.
    replace (Z.of_nat (List.length pre) + 1) with (Z.of_nat (List.length done + 1)) by lia.
    unfold new_env in IH. rewrite IH. cbn [offsets_of].
    rewrite app_length. cbn [List.length]. rewrite Hpre. reflexivity.
Qed.

Theorem NewMultiReaderAt_offsets ext fuel rv (sizes : list Z) :
  Forall (fun x => 0 <= x) sizes -> sum sizes < 9223372036854775808 ->
  Z.of_nat (List.length sizes) < 4611686018427387904 -> (List.length sizes < fuel)%nat ->
  call prog ext fuel "NewMultiReaderAt" [rv; VInts sizes] =
  RRet (VStruct [("readers", rv); ("offsets", VInts (offsets_of 0 sizes))]).
Proof.
  intros Hnn Hsum Hlen Hfuel.
  unfold call. rewrite prog_New. unfold fn_NewMultiReaderAt. cbn [f_params f_body bind_params]. go_run.
  fold new_loop.
  destruct (Z.ltb_spec (zlen sizes) 0) as [Hc|_]; [pose proof (zlen_nonneg sizes); lia|].
  replace (Z.to_nat (zlen sizes)) with (List.length sizes) by (unfold zlen; lia).
  go_run.
  destruct (new_loop_spec ext rv sizes [] [] 0 0 fuel eq_refl Hnn ltac:(lia) ltac:(lia) Hlen Hfuel) as (t' & sz' & H).
  cbn [app List.length] in H. unfold new_env in H. change (Z.of_nat 0) with 0 in H.
  rewrite H. go_run. reflexivity.
Qed.
End New.

(* the value NewMultiReaderAt returns for the pieces' sizes IS the reader value the ReadAt theorem is stated for *)
Require YF.GoLiteC16_ReadAt.
Lemma sum_sizes_of (segs : list (list Z)) : sum (sizes_of segs) = Z.of_nat (List.length (List.concat segs)).
Proof.
  induction segs as [|s r IH]; [reflexivity|].
  cbn [sizes_of map List.concat sum fold_right]. rewrite app_length. unfold sum, sizes_of in IH. rewrite IH. lia.
Qed.
Lemma sizes_of_nonneg (segs : list (list Z)) : Forall (fun x => 0 <= x) (sizes_of segs).
Proof. induction segs as [|s r IH]; constructor; [lia|exact IH]. Qed.

Theorem NewMultiReaderAt_is_mval prog (Hp : plookup "NewMultiReaderAt" prog = Some fn_NewMultiReaderAt)
  ext fuel (segs : list (list Z)) :
  Z.of_nat (List.length (List.concat segs)) < 9223372036854775808 ->
  Z.of_nat (List.length segs) < 4611686018427387904 -> (List.length segs < fuel)%nat ->
  call prog ext fuel "NewMultiReaderAt" [VInts (repeat 0 (List.length segs)); VInts (sizes_of segs)] =
  RRet (GoLiteC16_ReadAt.mval segs).
Proof.
  intros Htot Hn Hf.
  rewrite (NewMultiReaderAt_offsets prog Hp ext fuel).
  - reflexivity.
  - apply sizes_of_nonneg.
  - rewrite sum_sizes_of. exact Htot.
  - unfold sizes_of. rewrite map_length. exact Hn.
  - unfold sizes_of. rewrite map_length. exact Hf.
Qed.
