From Coq Require Import List Arith Lia Bool PeanoNat Sorting.Sorted Sorting.Permutation Sorting.Mergesort Orders.
Import ListNotations.

(* tooling/data-frames.go: frames linked by `next`, collected recursively, sorted by index at every
   level, count-checked against `total`, concatenated and checksum-checked. *)
Record frame := { f_index : nat; f_data : list nat }.

(* the `next` links form a tree once the getter has resolved them *)
Inductive tree := Node (f : frame) (children : list tree).

Module FOrder <: TotalLeBool.
  Definition t := frame.
  Definition leb (x y : t) := Nat.leb (f_index x) (f_index y).
  Theorem leb_total : forall x y, leb x y = true \/ leb y x = true.
  Proof. intros x y. unfold leb. destruct (Nat.leb_spec (f_index x) (f_index y)); auto. right. apply Nat.leb_le. lia. Qed.
End FOrder.
Module FSort := Sort FOrder.

(* getAllFramesFromDataFrame: no children => [first] (not sorted); otherwise first ++ all children's
   frames, then sort.Slice by index *)
Fixpoint collect (t : tree) : list frame :=
  match t with
  | Node f [] => [f]
  | Node f cs => FSort.sort (f :: flat_map collect cs)
  end.

Fixpoint flatten (t : tree) : list frame :=
  match t with Node f cs => f :: flat_map flatten cs end.

Lemma flat_map_perm {A B} (f g : A -> list B) l :
  (forall x, In x l -> Permutation (f x) (g x)) -> Permutation (flat_map f l) (flat_map g l).
Proof.
  induction l as [|x l IH]; intros H; cbn; auto. apply Permutation_app.
  - apply H. now left.
  - apply IH. intros y Hy. apply H. now right.
Qed.

Fixpoint tree_size (t : tree) : nat := match t with Node _ cs => S (fold_right (fun c a => tree_size c + a) 0 cs) end.

Lemma collect_perm : forall n t, tree_size t <= n -> Permutation (collect t) (flatten t).
Proof.
  induction n as [|n IH]; intros [f cs] Hs; cbn in Hs; [lia|].
  destruct cs as [|c cs'] eqn:E; [cbn; auto|]. rewrite <- E in *.
  assert (Hc : forall x, In x cs -> Permutation (collect x) (flatten x)).
  { intros x Hx. apply IH. clear - Hx Hs. induction cs as [|y ys IHy]; [destruct Hx|].
    cbn in Hs. destruct Hx as [->|Hx]; [lia|]. apply IHy; auto. lia. }
  replace (collect (Node f cs)) with (FSort.sort (f :: flat_map collect cs)) by (subst cs; reflexivity).
  cbn [flatten]. eapply Permutation_trans; [apply Permutation_sym, FSort.Permuted_sort|].
  apply perm_skip. apply flat_map_perm. exact Hc.
Qed.

(* two lists sorted by index, with pairwise distinct indices, that are permutations of each other are equal *)
Lemma sorted_perm_unique (l1 l2 : list frame) :
  StronglySorted (fun x y => f_index x <= f_index y) l1 ->
  StronglySorted (fun x y => f_index x <= f_index y) l2 ->
  NoDup (map f_index l1) -> Permutation l1 l2 -> l1 = l2.
Proof.
  revert l2; induction l1 as [|a l1 IH]; intros l2 S1 S2 ND P.
  - apply Permutation_nil in P. now subst.
  - destruct l2 as [|b l2]; [apply Permutation_sym, Permutation_nil in P; discriminate|].
    inversion S1 as [|? ? S1' F1]; inversion S2 as [|? ? S2' F2]; subst.
    cbn in ND. inversion ND as [|? ? Hni ND']; subst.
    assert (Hab : a = b).
    { assert (Ha : In a (b :: l2)) by (eapply Permutation_in; [exact P|now left]).
      assert (Hb : In b (a :: l1)) by (eapply Permutation_in; [apply Permutation_sym; exact P|now left]).
      destruct Ha as [->|Ha]; auto. destruct Hb as [->|Hb]; auto.
      rewrite Forall_forall in F1, F2. pose proof (F1 _ Hb). pose proof (F2 _ Ha).
      exfalso. apply Hni. replace (f_index a) with (f_index b) by lia. now apply in_map. }
    subst b. f_equal. apply IH; auto. eapply Permutation_cons_inv; eauto.
Qed.

Lemma sort_sorted l : StronglySorted (fun x y => f_index x <= f_index y) (FSort.sort l).
Proof.
  pose proof (FSort.StronglySorted_sort l) as H.
  assert (T : Relations_1.Transitive (fun x y : frame => is_true (FOrder.leb x y))).
  { intros x y z. unfold FOrder.leb, is_true. rewrite !Nat.leb_le. lia. }
  specialize (H T). induction H; constructor; auto.
  eapply Forall_impl; [|eassumption]. intros y Hy. unfold FOrder.leb, is_true in Hy. now apply Nat.leb_le.
Qed.

Definition payload (fs : list frame) : list nat := flat_map f_data fs.

(* C14 (reassembly): if the frames of the tree are exactly the chunks 0..n-1 of the payload - whatever
   the shape of the tree, the fan-out and the order of the children - collecting and concatenating
   returns the payload *)
Theorem reassemble t (chunks : list (list nat)) :
  Permutation (flatten t) (map (fun ic => {| f_index := fst ic; f_data := snd ic |}) (combine (seq 0 (length chunks)) chunks)) ->
  payload (collect t) = concat chunks /\ length (collect t) = length chunks.
Proof.
  intros Hp.
  set (ideal := map (fun ic => {| f_index := fst ic; f_data := snd ic |}) (combine (seq 0 (length chunks)) chunks)) in *.
  assert (Hidx : map f_index ideal = seq 0 (length chunks)).
  { unfold ideal. rewrite map_map. cbn [f_index]. 
    clear. generalize 0. induction chunks as [|c cs IH]; intros k; cbn; auto. now rewrite IH. }
  assert (Hsorted_ideal : StronglySorted (fun x y => f_index x <= f_index y) ideal).
  { assert (G : forall l : list frame, StronglySorted lt (map f_index l) -> StronglySorted (fun x y => f_index x <= f_index y) l).
    { induction l as [|a l IHl]; intros H; constructor; inversion H; subst; auto.
      rewrite Forall_forall in *. intros y Hy. assert (f_index a < f_index y) by (apply H3; now apply in_map). lia. }
    apply G. rewrite Hidx. clear. generalize 0. induction (length chunks) as [|n IH]; intros k; cbn; constructor; auto.
    apply Forall_forall. intros y Hy. apply in_seq in Hy. lia. }
  assert (Hcol : collect t = ideal).
  { destruct t as [f cs]. destruct cs as [|c cs'] eqn:E.
    - (* single frame: the payload has exactly one chunk *)
      cbn in Hp. cbn. apply Permutation_length in Hp as Hl. cbn in Hl.
      destruct ideal as [|x [|y r]]; cbn in Hl; try discriminate.
      apply Permutation_length_1 in Hp. now subst.
    - rewrite <- E in *.
      replace (collect (Node f cs)) with (FSort.sort (f :: flat_map collect cs)) by (subst cs; reflexivity).
      apply sorted_perm_unique; auto using sort_sorted.
      + eapply Permutation_NoDup; [apply Permutation_map, Permutation_sym|].
        * eapply Permutation_trans; [|exact Hp]. 
          replace (FSort.sort (f :: flat_map collect cs)) with (collect (Node f cs)) by (subst cs; reflexivity).
          apply (collect_perm (tree_size (Node f cs))). lia.
        * rewrite Hidx. apply seq_NoDup.
      + eapply Permutation_trans; [|exact Hp].
        replace (FSort.sort (f :: flat_map collect cs)) with (collect (Node f cs)) by (subst cs; reflexivity).
        apply (collect_perm (tree_size (Node f cs))). lia. }
  rewrite Hcol. split.
  - unfold payload, ideal. clear. generalize 0. induction chunks as [|c cs IH]; intros k; cbn; auto. now rewrite IH.
  - unfold ideal. rewrite map_length, combine_length, seq_length. lia.
Qed.
Print Assumptions reassemble.
