(* C18: executable acceptance predicate for FirstSuccess results + a deterministic scheduler,
   used by the correspondence check; soundness of the predicate w.r.t. every schedule. *)
From Coq Require Import List Arith Lia Bool PeanoNat NArith Permutation.
Import ListNotations.
Require Import FS FS2 FS3.

(* ---------- decidable permutation on list N ---------- *)
Fixpoint remove_one (x : N) (l : list N) : option (list N) :=
  match l with
  | [] => None
  | y :: t => if N.eqb x y then Some t
              else match remove_one x t with Some t' => Some (y :: t') | None => None end
  end.
Fixpoint permb (l1 l2 : list N) : bool :=
  match l1 with
  | [] => match l2 with [] => true | _ => false end
  | x :: t => match remove_one x l2 with Some l2' => permb t l2' | None => false end
  end.

Lemma remove_one_perm x l l' : remove_one x l = Some l' -> Permutation l (x :: l').
Proof.
  revert l'; induction l as [|y t IH]; cbn; intros l' H; [discriminate|].
  destruct (N.eqb_spec x y) as [->|Hne].
  - inversion H; subst; reflexivity.
  - destruct (remove_one x t) as [t'|]; [|discriminate]. inversion H; subst.
    rewrite (IH t' eq_refl). apply perm_swap.
Qed.
Lemma remove_one_in x l : In x l -> exists l', remove_one x l = Some l'.
Proof.
  induction l as [|y t IH]; cbn; [tauto|]. intros [->|Hin].
  - rewrite N.eqb_refl; eauto.
  - destruct (N.eqb x y); eauto. destruct (IH Hin) as [t' ->]; eauto.
Qed.
Lemma permb_complete l1 : forall l2, Permutation l1 l2 -> permb l1 l2 = true.
Proof.
  induction l1 as [|x t IH]; intros l2 H; cbn.
  - apply Permutation_nil in H; subst; reflexivity.
  - assert (Hin : In x l2) by (eapply Permutation_in; [exact H|left; reflexivity]).
    destruct (remove_one_in x l2 Hin) as [l2' E]. rewrite E. apply IH.
    apply remove_one_perm in E. apply Permutation_cons_inv with (a := x).
    eapply Permutation_trans; eauto.
Qed.
Lemma permb_sound l1 : forall l2, permb l1 l2 = true -> Permutation l1 l2.
Proof.
  induction l1 as [|x t IH]; intros l2 H; cbn in H.
  - destruct l2; [constructor|discriminate].
  - destruct (remove_one x l2) as [l2'|] eqn:E; [|discriminate].
    apply remove_one_perm in E. rewrite E. constructor. auto.
Qed.

(* ---------- the acceptance predicate: what C18 allows FirstSuccess to return ---------- *)
Definition is_succ (o : outcome) : bool := match o with Succ _ => true | Fail _ => false end.
Definition succ_vals (jobs : list outcome) : list N :=
  flat_map (fun o => match o with Succ v => [v] | Fail _ => [] end) jobs.
Definition fails (jobs : list outcome) : list N :=
  flat_map (fun o => match o with Fail e => [e] | Succ _ => [] end) jobs.

Definition allowedb (jobs : list outcome) (r : result) : bool :=
  match r with
  | ROk v => existsb (N.eqb v) (succ_vals jobs)
  | RErr es => negb (existsb is_succ jobs) && permb es (fails jobs)
  end.

Lemma succ_vals_in jobs v : In (Succ v) jobs -> existsb (N.eqb v) (succ_vals jobs) = true.
Proof.
  intros H. apply existsb_exists. exists v. split; [|apply N.eqb_refl].
  unfold succ_vals. apply in_flat_map. exists (Succ v); split; [exact H|left; reflexivity].
Qed.
Lemma fails_eq jobs : fails jobs = FS3.fails jobs.
Proof. reflexivity. Qed.

Theorem allowedb_sound jobs limit cs s r :
  run jobs limit init cs = Some s -> ret s = Some r -> allowedb jobs r = true.
Proof.
  intros Hrun Hret. destruct r as [v|es]; cbn.
  - apply succ_vals_in. eapply result_is_a_job_success; eauto.
  - destruct (error_result_complete jobs limit cs s es Hrun Hret) as [Hall Hperm].
    apply andb_true_intro; split.
    + apply negb_true_iff. apply not_true_is_false. intros Hex.
      apply existsb_exists in Hex. destruct Hex as [o [Hin Ho]].
      rewrite Forall_forall in Hall. destruct (Hall o Hin) as [e ->]. discriminate.
    + apply permb_complete. exact Hperm.
Qed.

(* the predicate says exactly what the property says *)
Theorem allowedb_spec jobs r : allowedb jobs r = true <->
  match r with
  | ROk v => In (Succ v) jobs
  | RErr es => (forall o, In o jobs -> exists e, o = Fail e) /\ Permutation es (fails jobs)
  end.
Proof.
  destruct r as [v|es]; cbn.
  - rewrite existsb_exists. split.
    + intros [x [Hin Hx]]. apply N.eqb_eq in Hx; subst x. unfold succ_vals in Hin.
      apply in_flat_map in Hin. destruct Hin as [o [Ho Hv]]. destruct o; cbn in Hv; [|tauto].
      destruct Hv as [->|[]]; exact Ho.
    + intros H. exists v; split; [|apply N.eqb_refl]. unfold succ_vals. apply in_flat_map.
      exists (Succ v); split; [exact H|left; reflexivity].
  - rewrite andb_true_iff, negb_true_iff. split.
    + intros [H1 H2]. split; [|apply permb_sound; exact H2].
      intros o Hin. destruct o as [v|e]; [|eauto]. exfalso.
      assert (existsb is_succ jobs = true) by (apply existsb_exists; exists (Succ v); auto). congruence.
    + intros [H1 H2]. split; [|apply permb_complete; exact H2].
      apply not_true_is_false. intros Hex. apply existsb_exists in Hex. destruct Hex as [o [Hin Ho]].
      destruct (H1 o Hin) as [e ->]. discriminate.
Qed.

(* ---------- reachability versions of progress / termination ---------- *)
Lemma run_running_ok jobs limit cs : forall s s', running_ok jobs s -> run jobs limit s cs = Some s' -> running_ok jobs s'.
Proof.
  induction cs as [|c cs IH]; intros s s' H E; cbn in E; [inversion E; subst; auto|].
  destruct (step jobs limit s c) as [s1|] eqn:Es; [|discriminate].
  eapply IH; [|exact E]. eapply step_running_ok; eauto.
Qed.
Lemma init_running_ok jobs : running_ok jobs init.
Proof. split; cbn; [constructor|lia]. Qed.

Theorem reachable_progress jobs limit cs s :
  run jobs limit init cs = Some s -> ret s = None -> exists c s', step jobs limit s c = Some s'.
Proof.
  intros Hrun Hret. apply progress; [|exact Hret].
  eapply run_running_ok; [apply init_running_ok|exact Hrun].
Qed.

Lemma run_measure jobs limit cs : forall s s', running_ok jobs s ->
  run jobs limit s cs = Some s' -> measure jobs s' + length cs <= measure jobs s.
Proof.
  induction cs as [|c cs IH]; intros s s' Hok E; cbn in E; [inversion E; subst; cbn; lia|].
  destruct (step jobs limit s c) as [s1|] eqn:Es; [|discriminate].
  pose proof (step_decreases jobs limit s c s1 (proj2 Hok) Es) as Hd.
  assert (Hok1 : running_ok jobs s1) by (eapply step_running_ok; eauto).
  pose proof (IH s1 s' Hok1 E) as H1. cbn [length]. lia.
Qed.

(* every schedule is finite: at most 3n+2 steps, whatever the limit and the order *)
Theorem schedule_bounded jobs limit cs s :
  run jobs limit init cs = Some s -> length cs <= 3 * length jobs + 2.
Proof.
  intros E. pose proof (run_measure jobs limit cs init s (init_running_ok jobs) E) as H.
  unfold measure at 2 in H. cbn in H. lia.
Qed.

(* ---------- a deterministic scheduler used to run the model on a given completion order ---------- *)
(* launch whenever possible; otherwise finish the running job that comes first in [order];
   otherwise close; otherwise receive. *)
Definition pick_finish (order running : list nat) : option nat :=
  find (fun i => existsb (Nat.eqb i) running) order.

Definition next_choice (jobs : list outcome) (limit : nat) (order : list nat) (s : state) : choice :=
  if (next s <? length jobs) && slot_free limit s then Launch
  else match pick_finish order (running s) with
       | Some i => Finish i
       | None => match chan s with
                 | _ :: _ => if next s =? length jobs then Recv else CloseCh
                 | [] => if closed s then Recv else CloseCh
                 end
       end.

Fixpoint exec (jobs : list outcome) (limit : nat) (order : list nat) (fuel : nat) (s : state) (tr : list choice)
  : state * list choice :=
  match fuel with
  | 0 => (s, rev tr)
  | S f => match ret s with
           | Some _ => (s, rev tr)
           | None => let c := next_choice jobs limit order s in
                     match step jobs limit s c with
                     | Some s' => exec jobs limit order f s' (c :: tr)
                     | None => (s, rev tr)
                     end
           end
  end.

Definition exec_result (jobs : list outcome) (limit : nat) (order : list nat) : option result :=
  ret (fst (exec jobs limit order (3 * length jobs + 3) init [])).

(* the executed trace is a genuine schedule of the model *)
Lemma exec_is_run jobs limit order fuel : forall s tr s0,
  run jobs limit s0 (rev tr) = Some s ->
  run jobs limit s0 (snd (exec jobs limit order fuel s tr)) = Some (fst (exec jobs limit order fuel s tr)).
Proof.
  induction fuel as [|f IH]; intros s tr s0 H; cbn; [exact H|].
  destruct (ret s); [exact H|].
  destruct (step jobs limit s (next_choice jobs limit order s)) as [s'|] eqn:Es; [|exact H].
  apply IH. cbn [rev].
  clear IH. revert s0 H. generalize (rev tr) as l. induction l as [|c l IHl]; intros s0 H; cbn in *.
  - inversion H; subst. rewrite Es. reflexivity.
  - destruct (step jobs limit s0 c); [auto|discriminate].
Qed.

Theorem exec_result_allowed jobs limit order r :
  exec_result jobs limit order = Some r -> allowedb jobs r = true.
Proof.
  unfold exec_result. intros H.
  eapply allowedb_sound; [|exact H].
  apply (exec_is_run jobs limit order _ init [] init). reflexivity.
Qed.

(* ---------- checker used on the harness's observations ---------- *)
(* one case: jobs, limit (0 = unlimited), completion order asked for, exact? flag, observed result *)
Definition case := (list outcome * nat * list nat * bool * result)%type.

Definition result_eqb (a b : result) : bool :=
  match a, b with
  | ROk x, ROk y => N.eqb x y
  | RErr x, RErr y => (length x =? length y) && forallb (fun p => N.eqb (fst p) (snd p)) (combine x y)
  | _, _ => false
  end.

Definition case_ok (c : case) : bool :=
  let '(jobs, limit, order, exact, r) := c in
  allowedb jobs r &&
  (if exact then match exec_result jobs limit order with Some r' => result_eqb r r' | None => false end
   else true).

Fixpoint bad_from (i : nat) (cs : list case) : list nat :=
  match cs with [] => [] | c :: t => if case_ok c then bad_from (S i) t else i :: bad_from (S i) t end.
Definition check (cs : list case) : list nat := bad_from 0 cs.

(* find_epoch error mapping (multiepoch-getTransaction.go:findEpochNumberFromSignature) *)
Inductive find_result := Found (epoch : N) | NotFoundR | InternalR.
Definition not_found_code : N := 0.   (* error code 0 stands for ErrNotFound *)
Definition map_find (r : result) : find_result :=
  match r with
  | ROk v => Found v
  | RErr es => if forallb (N.eqb not_found_code) es then NotFoundR else InternalR
  end.
