(* C13 — truncated index or CAR files fail loudly instead of answering "not found".
   A reader is modelled as a PROGRAM over an abstract read oracle: it can only return, fail, or issue a
   positioned read and continue with the bytes read; a failed (short) read aborts with a read error. Every
   reader that only PROPAGATES read errors has this shape. The theorem is proved once for all such programs:
   a program is monotone in the oracle, hence on a truncated file it answers what it answers on the complete
   file, or a read error. The concrete readers of the repository are then given as programs. *)
From Coq Require Import List Arith Lia Bool PeanoNat NArith.
Import ListNotations.
Require Import Codec ReadAt CI Car.
Close Scope N_scope.

(* ---------- reader programs ---------- *)
Inductive prog (A : Type) :=
| Ret (a : A)                                  (* an answer: found value / not found / false / ... *)
| Abort                                        (* a non-read error (bad magic, mismatch, ...) *)
| Read (off len : nat) (k : list N -> prog A). (* ReadAt(off,len); a short read is a read error *)
Arguments Ret {A} a. Arguments Abort {A}. Arguments Read {A} off len k.

Inductive result (A : Type) := Answer (a : A) | Error | ReadError.
Arguments Answer {A} a. Arguments Error {A}. Arguments ReadError {A}.

Definition oracle := nat -> nat -> option (list N).

Fixpoint run {A} (rd : oracle) (p : prog A) : result A :=
  match p with
  | Ret a => Answer a
  | Abort => Error
  | Read off len k => match rd off len with Some bs => run rd (k bs) | None => ReadError end
  end.

(* rd' knows at least what rd knows *)
Definition refines (rd rd' : oracle) : Prop := forall off len bs, rd off len = Some bs -> rd' off len = Some bs.

Lemma trunc_refines (f : list N) n : refines (read_at (firstn n f)) (read_at f).
Proof. intros off len bs H. eapply read_at_trunc; eauto. Qed.

(* monotonicity: whatever a program concludes without hitting a read error, it concludes on every richer oracle *)
Theorem run_mono {A} (p : prog A) : forall rd rd' r, refines rd rd' -> run rd p = r -> r <> ReadError -> run rd' p = r.
Proof.
  induction p as [a| |off len k IH]; intros rd rd' r Hr H Hne; cbn in *; auto.
  destruct (rd off len) as [bs|] eqn:E; [|congruence].
  rewrite (Hr _ _ _ E). eapply IH; eauto.
Qed.

(* C13 for every reader program: the truncated copy gives the same result as the complete file, or a read error *)
Theorem truncated_same_or_read_error {A} (p : prog A) (f : list N) n :
  run (read_at (firstn n f)) p = run (read_at f) p \/ run (read_at (firstn n f)) p = ReadError.
Proof.
  destruct (run (read_at (firstn n f)) p) eqn:E.
  - left. symmetry. eapply run_mono; [apply trunc_refines|exact E|discriminate].
  - left. symmetry. eapply run_mono; [apply trunc_refines|exact E|discriminate].
  - right; reflexivity.
Qed.

(* in particular: an answer of the complete file is never turned into a different answer *)
Corollary truncated_never_other_answer {A} (p : prog A) (f : list N) n a b :
  run (read_at f) p = Answer a -> run (read_at (firstn n f)) p = Answer b -> a = b.
Proof.
  intros Ha Hb. destruct (truncated_same_or_read_error p f n) as [E|E]; rewrite Hb in E; [|discriminate].
  rewrite Ha in E. congruence.
Qed.

(* the trace property used on the implementation's recorded reads: if some read failed, the result is a read error *)
Fixpoint trace {A} (rd : oracle) (p : prog A) : list (nat * nat * bool) :=
  match p with
  | Read off len k => match rd off len with Some bs => (off, len, true) :: trace rd (k bs) | None => [(off, len, false)] end
  | _ => []
  end.
Theorem failed_read_means_read_error {A} (p : prog A) rd :
  existsb (fun t => negb (snd t)) (trace rd p) = true <-> run rd p = ReadError.
Proof.
  induction p as [a| |off len k IH]; cbn; try (split; discriminate).
  destruct (rd off len) as [bs|]; cbn; [apply IH|tauto].
Qed.

(* ---------- the repository's readers as programs ---------- *)
Section Readers.
(* (1) compact index lookup: compactindexsized/query.go (all four index kinds share it) *)
Variable hash : N -> list N -> N.
Variable bucket_of : nat -> list N -> nat.
Variable vs : nat.
Variable hdrlen : nat.
Variable nb : nat.

Fixpoint ci_search (fuel : nat) (off n : nat) (x : N) (idx : nat) : prog (option (list N)) :=
  match fuel with
  | O => Ret None
  | S f =>
      if idx <? n then
        Read (off + idx * (3 + vs)) (3 + vs) (fun bs =>
          let h := le_dec (firstn 3 bs) in
          if N.eqb h x then Ret (Some (skipn 3 bs))
          else ci_search f off n x (if N.ltb h x then 2 * idx + 2 else 2 * idx + 1))
      else Ret None
  end.
Definition ci_lookup (k : list N) : prog (option (list N)) :=
  Read (hdrlen + 16 * bucket_of nb k) 16 (fun bh =>
    let '(d, n, hl, off) := parse_bucket_hdr bh in
    ci_search (S n) off n (h24 hash (N.of_nat d) k) 0).

(* the program IS the byte-level model of CI.v run against the file *)
Lemma ci_search_agrees (file : list N) fuel : forall off n x idx,
  run (read_at file) (ci_search fuel off n x idx) =
  match search_get fuel (load_entry vs file off) n x idx with
  | Found v => Answer (Some v) | NotFound => Answer None | ReadErr => ReadError end.
Proof.
  induction fuel as [|f IH]; intros off n x idx; cbn [ci_search search_get run]; [reflexivity|].
  destruct (idx <? n); [|reflexivity]. cbn [run]. unfold load_entry, stride.
  destruct (read_at file (off + idx * (3 + vs)) (3 + vs)) as [bs|]; [|reflexivity]. cbn [fst snd].
  destruct (N.eqb (le_dec (firstn 3 bs)) x); [reflexivity|]. apply IH.
Qed.
Theorem ci_lookup_agrees (hdr file : list N) k : length hdr = hdrlen ->
  run (read_at file) (ci_lookup k) =
  match CI.lookup hash bucket_of vs hdr nb file k with
  | Found v => Answer (Some v) | NotFound => Answer None | ReadErr => ReadError end.
Proof.
  intros Hl. unfold ci_lookup, CI.lookup. cbn [run]. rewrite Hl.
  destruct (read_at file (hdrlen + 16 * bucket_of nb k) 16) as [bh|]; [|reflexivity].
  destruct (parse_bucket_hdr bh) as [[[d n] hl] off]. apply ci_search_agrees.
Qed.

(* (2) signature-existence index: bucketteer/read.go:Has over an opened header (prefix -> offset table) *)
Variable sig_hash : list N -> N.
Fixpoint sx_search (fuel : nat) (base n : nat) (x : N) (idx : nat) : prog bool :=
  match fuel with
  | O => Ret false
  | S f =>
      if idx <? n then
        Read (base + idx * 8) 8 (fun bs =>
          let h := le_dec bs in
          if N.eqb h x then Ret true
          else sx_search f base n x (if N.ltb h x then 2 * idx + 2 else 2 * idx + 1))
      else Ret false
  end.
Definition sx_has (table : N -> option nat) (prefix : N) (sg : list N) : prog bool :=
  match table prefix with
  | None => Ret false                    (* prefix without bucket *)
  | Some off => Read off 4 (fun cnt => let n := N.to_nat (le_dec cnt) in sx_search (S n) (off + 4) n (sig_hash sg) 0)
  end.
(* opening: 4-byte header size, then the header bytes, parsed by a pure function (magic, version, metadata,
   prefix table); a parse failure is a non-read error *)
Definition sx_open {T} (parse_header : list N -> option T) : prog T :=
  Read 0 4 (fun sz => Read 4 (N.to_nat (le_dec sz)) (fun hb => match parse_header hb with Some t => Ret t | None => Abort end)).

(* (3) block-time table: epoch.go:ReadAllFromReaderAt (exact-size read) then blocktimeindex.FromBytes *)
Definition bt_load {T} (size : nat) (parse : list N -> option T) : prog T :=
  Read 0 size (fun bs => match parse bs with Some t => Ret t | None => Abort end).

(* (4) CAR section: epoch.go:readNodeFromReaderAtWithOffsetAndSize / readNodeWithKnownSize + parseNodeFromSection *)
Variable cid_parse : list N -> option (list N * nat).
Definition car_get (off len : nat) (wanted : list N) : prog (list N) :=
  Read off len (fun sec => match Car.parse_node cid_parse sec wanted with Some d => Ret d | None => Abort end).
(* fetch by CID = index lookup, then the section read *)
Definition bind {A B} (p : prog A) (f : A -> prog B) : prog B :=
  (fix go (p : prog A) : prog B :=
     match p with Ret a => f a | Abort => Abort | Read off len k => Read off len (fun bs => go (k bs)) end) p.

(* (5) address index: pubkey -> head record, then walk the linked log following previous pointers
   (gsfa/gsfa-read.go:Get, linkedlog.ReadWithSize); [parse_record] is pure (prefix, decompression, entries,
   9-byte previous pointer) *)
Variable parse_record : list N -> option (list N * (nat * nat)).   (* entries, previous (offset,size) *)
Fixpoint ll_walk (fuel : nat) (off size : nat) (acc : list N) : prog (list N) :=
  match fuel with
  | O => Abort
  | S f =>
      if (off =? 0) && (size =? 0) then Ret acc
      else Read off size (fun rec => match parse_record rec with
                                     | Some (es, (poff, psize)) => ll_walk f poff psize (acc ++ es)
                                     | None => Abort end)
  end.
End Readers.

(* ---------- checker for the harness's recorded read traces ---------- *)
(* The harness wraps the ReaderAt handed to the real readers and records every ReadAt (offset, length,
   whether it was satisfied in full) together with the outcome class of the call. A reader that swallows a
   failed read would answer despite a failed read: exactly what failed_read_means_read_error excludes. *)
Inductive outcome_class := OAnswer | OError.
Definition case := (list (N * N * bool) * outcome_class)%type.
Definition case_ok (c : case) : bool :=
  let '(reads, o) := c in
  match o with
  | OAnswer => negb (existsb (fun t => negb (snd t)) reads)    (* an answer requires every read to have succeeded *)
  | OError => true
  end.
Fixpoint bad_from (i : nat) (cs : list case) : list nat :=
  match cs with [] => [] | c :: t => if case_ok c then bad_from (S i) t else i :: bad_from (S i) t end.
Definition check (cs : list case) : list nat := bad_from 0 cs.
