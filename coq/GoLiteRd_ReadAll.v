(* C13 — ReadAllFromReaderAt (epoch.go): the exact-size read with which NewEpochFromConfig loads the block-time table
   from any index storage, translated from the Go source on every check (Generated/GoLiteRdMain.v): over an oracle reader
   that may return any count with any error value, it returns the buffer ONLY when the reader gave no error and
   delivered exactly `size` bytes; every short read and every error (io.EOF together with a complete read included —
   it fails loudly then, it never returns a partly filled buffer) is an error. *)
From Coq Require Import List ZArith NArith String Bool Lia.
Import ListNotations.
Require Import YF.GoLite YF.GoLiteLemmas YF.Generated.GoLiteRdMain YF.GoLiteRd_ReadFull.
Local Open Scope string_scope.
Local Open Scope Z_scope.
Local Open Scope list_scope.

Section ReadAll.
Variable prog : program.
Hypothesis prog_ReadAll : plookup "ReadAllFromReaderAt" prog = Some fn_ReadAllFromReaderAt.
Variable rd : Z -> Z -> list Z * val.
Hypothesis rd_err : forall off len, is_err (snd (rd off len)).
Hypothesis rd_len : forall off len, 0 <= len -> zlen (fst (rd off len)) <= len.

Definition wrapped (e : val) : val := match e with VErr m => VErr (err_wrap m) | _ => e end.

Theorem ReadAll_spec fuel rdv (size : Z) : 0 <= size < 4611686018427387904 ->
  call prog (ext_ra rd) fuel "ReadAllFromReaderAt" [rdv; VInt size] =
  let '(bs, e) := rd 0 size in
  match e with
  | VNil => if zlen bs =? size then RRet (VTuple [VInts (blit (repeat 0 (Z.to_nat size)) O bs); VNil])
            else RRet (VTuple [VInts []; VErr "fmt.Errorf"])
  | _ => RRet (VTuple [VInts []; wrapped e])
  end.
Proof.
  intros Hs. unfold call. rewrite prog_ReadAll. unfold fn_ReadAllFromReaderAt.
  cbn [f_params f_body bind_params]. go_run.
  destruct (Z.ltb_spec size 0) as [Hc|_]; [lia|]. go_run.
  unfold ext_ra at 1.
  assert (Hz : zlen (repeat 0 (Z.to_nat size)) = size) by (unfold zlen; rewrite repeat_length; lia).
  rewrite Hz.
  pose proof (rd_err 0 size) as He. pose proof (rd_len 0 size ltac:(lia)) as Hl.
  destruct (rd 0 size) as [bs e]. cbn [snd fst] in *.
  go_cbn. go_run.
  destruct He as [->|[m ->]]; go_run.
  - pose proof (zlen_nonneg bs).
    rewrite (wrap_unsigned_id U64 (zlen bs)) by (try reflexivity; cbn; lia).
    destruct (Z.eqb_spec (zlen bs) size) as [Heq|Hne]; go_run; reflexivity.
  - reflexivity.
Qed.

(* a buffer is returned only for a complete read without error, and then it holds exactly the bytes read *)
Corollary ReadAll_success fuel rdv size out : 0 <= size < 4611686018427387904 ->
  call prog (ext_ra rd) fuel "ReadAllFromReaderAt" [rdv; VInt size] = RRet (VTuple [VInts out; VNil]) ->
  snd (rd 0 size) = VNil /\ zlen (fst (rd 0 size)) = size /\ out = fst (rd 0 size).
Proof.
  intros Hs. rewrite ReadAll_spec by exact Hs.
  pose proof (rd_err 0 size) as He. destruct (rd 0 size) as [bs e]. cbn [fst snd] in *.
  destruct He as [->|[m ->]]; [|discriminate].
  destruct (Z.eqb_spec (zlen bs) size) as [Heq|Hne]; [|discriminate].
  intros H. injection H as <-. repeat split; try assumption.
  apply blit_full. rewrite repeat_length. unfold zlen in Heq. lia.
Qed.
End ReadAll.
