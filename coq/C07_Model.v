(* C07 — getSignaturesForAddress paging: executable model of
     gsfa/gsfa-read-multiepoch.go : GetBeforeUntil / iterBeforeUntil, GetBeforeUntilSlot / iterBeforeUntilSlot
     multiepoch-getSignaturesForAddress.go : assembly of the JSON-RPC reply from the map keyed by epoch.
   Definitions only; proofs are in C07_Proofs.v.

   An index entry is (signature, slot). The index of one epoch for one address is a chain of linked-log
   records, head (newest record) first, each record holding its entries newest first. The pubkey index of
   an epoch answers Found chain | NotFound (address never appears in that epoch) | Failed (any other error).

   Go's result `EpochToTransactionObjects` (a map epoch -> slice, only ever modified by
   `m[e] = append(m[e], tx)` and only ever measured by `m.Count()`) is represented by its append log:
   the list of (epoch, entry) pairs in append order. The map is recovered by `keys` and `lookup`;
   Count() is the length of the log. *)
From Coq Require Import List Arith Lia Bool PeanoNat NArith ZArith.
Import ListNotations.

Definition entry := (nat * N)%type.                 (* signature (an identifier), slot *)
Definition tagged := (N * entry)%type.              (* epoch number the entry was found in, entry *)
Definition key (t : tagged) : nat := fst (snd t).
Definition slot (t : tagged) : N := snd (snd t).
Definition tag (t : tagged) : N := fst t.

Inductive idx (A : Type) := Found (chain : list (list A)) | NotFound | Failed.
Arguments Found {A} chain. Arguments NotFound {A}. Arguments Failed {A}.

Definition epoch := (N * idx entry)%type.           (* epoch number, what its pubkey index says about the address *)

(* ------------------------------------------------------------------------------------------------ *)
(* signature-bounded variant: iterBeforeUntil *)

Record st := { reached : bool; out : list tagged; stop : bool }.   (* stop = `break epochLoop` was executed *)

Definition is_key (o : option nat) (x : tagged) : bool :=
  match o with Some k => Nat.eqb (key x) k | None => false end.

(* body of `for locIndex, txLoc := range locations` *)
Definition step (limit : nat) (before until : option nat) (s : st) (x : tagged) : st :=
  if negb (reached s) && is_key before x then {| reached := true; out := out s; stop := false |}   (* continue *)
  else if negb (reached s) then s                                                                   (* continue *)
  else if limit <=? length (out s) then {| reached := true; out := out s; stop := true |}          (* break epochLoop *)
  else {| reached := true; out := out s ++ [x]; stop := is_key until x |}.                          (* append; break epochLoop at until *)

(* the same with an absorbing stop flag, for folds *)
Definition visit (limit : nat) (before until : option nat) (s : st) (x : tagged) : st :=
  if stop s then s else step limit before until s x.

Fixpoint entries_loop (limit : nat) (before until : option nat) (s : st) (r : list tagged) : st :=
  match r with
  | [] => s
  | x :: r' => let s' := step limit before until s x in
               if stop s' then s' else entries_loop limit before until s' r'
  end.

Definition set_stop (s : st) : st := {| reached := reached s; out := out s; stop := true |}.

(* the inner `for { ... }` that follows the previous-record pointers of one epoch *)
Fixpoint chain_loop (limit : nat) (before until : option nat) (s : st) (c : list (list tagged)) : st :=
  match c with
  | [] => s                                                   (* next.IsZero(): continue epochLoop *)
  | r :: c' =>
      if limit <=? length (out s) then set_stop s             (* transactions.Count() >= limit: break epochLoop *)
      else match r with
           | [] => s                                          (* len(locations) == 0: continue epochLoop *)
           | _ => let s' := entries_loop limit before until s r in
                  if stop s' then s' else chain_loop limit before until s' c'
           end
  end.

(* epochLoop; None = the function returned an error *)
Fixpoint epochs_loop (limit : nat) (before until : option nat) (s : st) (eps : list (idx tagged)) : option st :=
  match eps with
  | [] => Some s
  | Failed :: _ => None                                       (* "error while getting initial offset" *)
  | NotFound :: r => epochs_loop limit before until s r       (* compactindexsized.IsNotFound: continue epochLoop *)
  | Found c :: r => let s' := chain_loop limit before until s c in
                    if stop s' then Some s' else epochs_loop limit before until s' r
  end.

Definition tag_idx (e : N) (i : idx entry) : idx tagged :=
  match i with Found c => Found (map (map (pair e)) c) | NotFound => NotFound | Failed => Failed end.
Definition tag_epochs (eps : list epoch) : list (idx tagged) := map (fun p => tag_idx (fst p) (snd p)) eps.

Definition init_st (before : option nat) : st :=
  {| reached := match before with None => true | Some _ => false end; out := []; stop := false |}.

(* GetBeforeUntil. [eps] = the readers in the order they were given to NewGsfaReaderMultiepoch.
   Result: None = error, Some log = the map (as its append log). *)
Definition get_before_until (eps : list epoch) (limit : Z) (before until : option nat) : option (list tagged) :=
  if (limit <=? 0)%Z then Some []
  else option_map out (epochs_loop (Z.to_nat limit) before until (init_st before) (tag_epochs eps)).

(* ------------------------------------------------------------------------------------------------ *)
(* specification: slice of the flat newest-first history *)

Fixpoint after (b : nat) (l : list tagged) : list tagged :=
  match l with [] => [] | x :: r => if Nat.eqb (key x) b then r else after b r end.
Fixpoint upto (u : nat) (l : list tagged) : list tagged :=
  match l with [] => [] | x :: r => if Nat.eqb (key x) u then [x] else x :: upto u r end.
Definition slice_spec (limit : nat) (before until : option nat) (hist : list tagged) : list tagged :=
  let a := match before with Some b => after b hist | None => hist end in
  let c := firstn limit a in
  match until with Some u => upto u c | None => c end.

(* what the reader sees of a chain: it stops following the chain at an empty record *)
Fixpoint visible {A} (c : list (list A)) : list (list A) :=
  match c with [] => [] | [] :: _ => [] | r :: c' => r :: visible c' end.

Definition idx_hist {A} (i : idx A) : list A :=
  match i with Found c => concat (visible c) | _ => [] end.
(* the complete history of the address over the loaded epochs, in reader order, entries tagged with their epoch *)
Definition history (eps : list epoch) : list tagged :=
  concat (map (fun p => idx_hist (tag_idx (fst p) (snd p))) eps).

Definition no_empty_record (e : epoch) : Prop :=
  match snd e with Found c => Forall (fun r => r <> []) c | _ => True end.
Definition no_failure (e : epoch) : Prop := snd e <> Failed.
(* all recorded entries, whether or not the reader can reach them *)
Definition full_history (eps : list epoch) : list tagged :=
  concat (map (fun p => match snd p with Found c => map (pair (fst p)) (concat c) | _ => [] end) eps).

(* ------------------------------------------------------------------------------------------------ *)
(* the map view of an append log and the JSON-RPC reply *)

Definition lookup (e : N) (m : list tagged) : list tagged := filter (fun t => N.eqb (tag t) e) m.
Definition keys (m : list tagged) : list N := nodup N.eq_dec (map tag m).

Fixpoint insert_desc (x : N) (l : list N) : list N :=
  match l with [] => [x] | y :: t => if (y <=? x)%N then x :: l else y :: insert_desc x t end.
Fixpoint sort_desc (l : list N) : list N :=
  match l with [] => [] | x :: t => insert_desc x (sort_desc t) end.

Definition flatten_by (order : list N) (m : list tagged) : list tagged :=
  concat (map (fun e => lookup e m) order).
(* the map's content, newest epoch first *)
Definition flatten_desc (m : list tagged) : list tagged := flatten_by (sort_desc (keys m)) m.

(* handleGetSignaturesForAddress: `for ei := range foundTransactions { ... response[numBefore+i] = ... }`.
   [perm] is the order in which Go's map iteration visits the keys (any permutation of them).
   sorted = true: the repaired handler collects the keys and sorts them in descending order first;
   sorted = false: the pinned handler uses the iteration order as it comes. *)
Definition reply (sorted : bool) (perm : list N) (m : list tagged) : list tagged :=
  flatten_by (if sorted then sort_desc perm else perm) m.

(* ------------------------------------------------------------------------------------------------ *)
(* slot-bounded variant: iterBeforeUntilSlot *)

Record sst := { sout : list tagged; sstop : bool }.

(* Go: `tx.Slot < int(until)` — tx.Slot is an int, until a uint64 reinterpreted as int *)
Definition to_int (u : N) : Z :=
  let m := (u mod 2^64)%N in if (m <? 2^63)%N then Z.of_N m else (Z.of_N m - 2^64)%Z.

(* upper = true: the repaired loop skips entries with slot >= before; upper = false: pinned code (no such test) *)
Definition sstep (upper : bool) (limit : nat) (before until : N) (s : sst) (x : tagged) : sst :=
  if (Z.of_N (slot x) <? to_int until)%Z then {| sout := sout s; sstop := true |}                  (* break epochLoop *)
  else if upper && (before <=? slot x)%N then s                                                    (* continue *)
  else if limit <=? length (sout s) then {| sout := sout s; sstop := true |}                       (* break epochLoop *)
  else {| sout := sout s ++ [x]; sstop := false |}.

Definition svisit upper limit before until (s : sst) (x : tagged) : sst :=
  if sstop s then s else sstep upper limit before until s x.

Fixpoint sentries_loop upper (limit : nat) (before until : N) (s : sst) (r : list tagged) : sst :=
  match r with
  | [] => s
  | x :: r' => let s' := sstep upper limit before until s x in
               if sstop s' then s' else sentries_loop upper limit before until s' r'
  end.

Fixpoint schain_loop upper (limit : nat) (before until : N) (s : sst) (c : list (list tagged)) : sst :=
  match c with
  | [] => s
  | r :: c' =>
      if limit <=? length (sout s) then {| sout := sout s; sstop := true |}
      else match r with
           | [] => s
           | _ => let s' := sentries_loop upper limit before until s r in
                  if sstop s' then s' else schain_loop upper limit before until s' c'
           end
  end.

(* epochs newer than the epoch of `before` are skipped before their index is even asked *)
Fixpoint sepochs_loop upper (limit : nat) (before until : N) (before_epoch : N) (s : sst)
         (eps : list (N * idx tagged)) : option sst :=
  match eps with
  | [] => Some s
  | (e, i) :: r =>
      if (before_epoch <? e)%N then sepochs_loop upper limit before until before_epoch s r
      else match i with
           | Failed => None
           | NotFound => sepochs_loop upper limit before until before_epoch s r
           | Found c => let s' := schain_loop upper limit before until s c in
                        if sstop s' then Some s' else sepochs_loop upper limit before until before_epoch s' r
           end
  end.

Definition tag_epochs_n (eps : list epoch) : list (N * idx tagged) :=
  map (fun p => (fst p, tag_idx (fst p) (snd p))) eps.

(* GetBeforeUntilSlot; epoch_len = slottools.EpochLen *)
Definition get_before_until_slot (upper : bool) (epoch_len : N) (eps : list epoch) (limit : Z) (before until : N)
  : option (list tagged) :=
  if ((limit <=? 0)%Z || (before <? until)%N)%bool then Some []
  else option_map sout (sepochs_loop upper (Z.to_nat limit) before until (before / epoch_len)%N
                                     {| sout := []; sstop := false |} (tag_epochs_n eps)).

Definition in_window (before until : N) (x : tagged) : bool := ((until <=? slot x) && (slot x <? before))%N.
Definition slot_spec (limit : nat) (before until : N) (hist : list tagged) : list tagged :=
  firstn limit (filter (in_window before until) hist).
