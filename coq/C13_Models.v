(* C13 on the byte-level reader models that the OTHER properties' correspondence checks run against the Go
   readers: the compact index reader of C04 (C04_Model.lookup_at), the address index's linked log of C06
   (C06_LinkedLog.read_with_size, C06_Store.bwalk). Each is monotone in what the file delivers: on a truncated
   copy it gives the answer of the complete file, or fails. (The signature-existence reader of C05 is in
   C13_SigExists.v.) *)
From Coq Require Import List Arith Lia Bool PeanoNat NArith.
Import ListNotations.
Require Import YF.Codec YF.ReadAt YF.CI YF.Trunc YF.C04_Model YF.C06_LinkedLog YF.C06_Store.

(* ---------- compact index (slot->cid, cid->offset, sig->cid, pubkey->offset: one reader) ---------- *)
Section CI4.
Variable hash : N -> list N -> N.
Variable bucket_of : nat -> list N -> nat.

Theorem c04_lookup_truncated evs hlen nb (file : list N) n k :
  lookup_at hash bucket_of evs hlen nb (firstn n file) k = lookup_at hash bucket_of evs hlen nb file k \/
  lookup_at hash bucket_of evs hlen nb (firstn n file) k = ReadErr.
Proof.
  assert (M : forall r, lookup_at hash bucket_of evs hlen nb (firstn n file) k = r -> r <> ReadErr ->
                        lookup_at hash bucket_of evs hlen nb file k = r).
  { intros r H Hr. unfold lookup_at in *.
    destruct (read_at (firstn n file) (hlen + 16 * bucket_of nb k) 16) as [bh|] eqn:E; [|congruence].
    rewrite (read_at_trunc file n _ _ _ E).
    destruct (parse_bucket_hdr bh) as [[[d cnt] hl] off].
    apply (search_get_mono _ (load_entry8 evs (firstn n file) off) (load_entry8 evs file off)); auto.
    intros i e Hl. unfold load_entry8 in *.
    destruct (read_at (firstn n file) (off + i * stride8 evs) (stride8 evs)) as [bs|] eqn:E2; [|discriminate].
    now rewrite (read_at_trunc file n _ _ _ E2). }
  destruct (lookup_at hash bucket_of evs hlen nb (firstn n file) k) eqn:E.
  - left. symmetry. apply M; [reflexivity|discriminate].
  - left. symmetry. apply M; [reflexivity|discriminate].
  - right; reflexivity.
Qed.
End CI4.

(* ---------- linked log of the address index ---------- *)
Section LL.
Variable decompress : list N -> option (list N).

(* a record read from a truncated log is the record of the complete log; otherwise the read fails *)
Theorem c06_read_with_size_truncated (file : list N) n off size r :
  read_with_size decompress (firstn n file) off size = Some r -> read_with_size decompress file off size = Some r.
Proof.
  unfold read_with_size. destruct (N.ltb max_read size); [discriminate|].
  destruct (read_at (firstn n file) (N.to_nat off) (N.to_nat size)) as [rec|] eqn:E; [|discriminate].
  rewrite (read_at_trunc file n _ _ _ E). auto.
Qed.

(* following the previous pointers (GsfaReader.Get) over a truncated log: the complete log's list, or a failure —
   never a shorter list *)
Theorem c06_walk_truncated fuel : forall (file : list N) n p es,
  bwalk decompress fuel (firstn n file) p = Some es -> bwalk decompress fuel file p = Some es.
Proof.
  induction fuel as [|f IH]; intros file n p es; cbn [bwalk]; destruct (ptr_is_zero p); auto.
  destruct (read_with_size decompress (firstn n file) (fst p) (snd p)) as [[e prev]|] eqn:E; [|discriminate].
  rewrite (c06_read_with_size_truncated _ _ _ _ _ E).
  destruct (bwalk decompress f (firstn n file) prev) as [rest|] eqn:W; [|discriminate].
  rewrite (IH _ _ _ _ W). auto.
Qed.
End LL.
