(* C03 — a request is never answered with an object that belongs to a different key.
   Model of epoch.go: GetBlock / GetTransaction / GetNodeByCid on top of compact indexes whose lookup may
   return a stored value for an ABSENT key (24-bit hash collision inside a bucket, C04_false_positive_char).
   The index is therefore an arbitrary function here: nothing is assumed about what it returns. *)
From Coq Require Import List Arith Lia Bool PeanoNat NArith.
Import ListNotations.
Require Import Codec ReadAt Car.
Close Scope N_scope.

Inductive outcome (A : Type) := Ok (a : A) | NotFound | Failed.
Arguments Ok {A} a. Arguments NotFound {A}. Arguments Failed {A}.

Section C03.
Variable cid_parse : list N -> option (list N * nat).
(* index lookups: ANY function (collisions included) *)
Variable slot_ix : N -> option (list N).            (* slot -> cid *)
Variable sig_ix : list N -> option (list N).        (* signature -> cid *)
Variable cid_ix : list N -> option (nat * nat).     (* cid -> (offset, size) *)
Variable file : list N.                             (* the CAR *)
(* decoders *)
Variable dec_block_slot : list N -> option N.
Variable dec_tx_sig : list N -> option (list N).

Definition get_node_by_cid (c : list N) : outcome (list N) :=
  match cid_ix c with
  | None => NotFound
  | Some (off, len) =>
      match read_at file off len with
      | None => Failed
      | Some sec => match Car.parse_node cid_parse sec c with Some d => Ok d | None => Failed end
      end
  end.

(* checks_key = false is the pinned tree (no comparison of the decoded key with the request) *)
Definition get_block (checks_key : bool) (slot : N) : outcome (N * list N) :=
  match slot_ix slot with
  | None => NotFound
  | Some c =>
      match get_node_by_cid c with
      | Ok d => match dec_block_slot d with
                | None => Failed
                | Some s => if checks_key && negb (N.eqb s slot) then NotFound else Ok (s, d)
                end
      | NotFound => NotFound    (* failed to find offset: wrapped ErrNotFound *)
      | Failed => Failed
      end
  end.

Definition list_N_eqb (a b : list N) : bool := if list_eq_dec N.eq_dec a b then true else false.

Definition get_transaction (checks_key : bool) (sg : list N) : outcome (list N * list N) :=
  match sig_ix sg with
  | None => NotFound
  | Some c =>
      match get_node_by_cid c with
      | Ok d => match dec_tx_sig d with
                | None => Failed
                | Some s => if checks_key && negb (list_N_eqb s sg) then NotFound else Ok (s, d)
                end
      | NotFound => NotFound
      | Failed => Failed
      end
  end.

(* ---------- theorems ---------- *)
Theorem block_key_confirmed slot s d : get_block true slot = Ok (s, d) -> s = slot.
Proof.
  unfold get_block. destruct (slot_ix slot); [|discriminate].
  destruct (get_node_by_cid l); try discriminate.
  destruct (dec_block_slot a) as [s'|]; [|discriminate]. cbn [andb].
  destruct (N.eqb_spec s' slot); cbn [negb]; [|discriminate]. intros H; inversion H; subst. reflexivity.
Qed.

Theorem tx_key_confirmed sg s d : get_transaction true sg = Ok (s, d) -> s = sg.
Proof.
  unfold get_transaction. destruct (sig_ix sg); [|discriminate].
  destruct (get_node_by_cid l); try discriminate.
  destruct (dec_tx_sig a) as [s'|]; [|discriminate]. cbn [andb]. unfold list_N_eqb.
  destruct (list_eq_dec N.eq_dec s' sg); cbn [negb]; [|discriminate]. intros H; inversion H; subst. reflexivity.
Qed.

(* an absent key (no stored block decodes to that slot) is answered NotFound or with an error, never with a block *)
Theorem block_absent_never_answered slot :
  (forall c d, get_node_by_cid c = Ok d -> dec_block_slot d <> Some slot) ->
  forall r, get_block true slot <> Ok r.
Proof.
  intros Habs [s d] H. pose proof (block_key_confirmed slot s d H) as ->.
  unfold get_block in H. destruct (slot_ix slot) as [c|]; [|discriminate].
  destruct (get_node_by_cid c) eqn:E; try discriminate.
  destruct (dec_block_slot a) as [s'|] eqn:Ed; [|discriminate]. cbn [andb] in H.
  destruct (N.eqb_spec s' slot); cbn [negb] in H; [|discriminate]. subst s'.
  exact (Habs c a E Ed).
Qed.

Theorem tx_absent_never_answered sg :
  (forall c d, get_node_by_cid c = Ok d -> dec_tx_sig d <> Some sg) ->
  forall r, get_transaction true sg <> Ok r.
Proof.
  intros Habs [s d] H. pose proof (tx_key_confirmed sg s d H) as ->.
  unfold get_transaction in H. destruct (sig_ix sg) as [c|]; [|discriminate].
  destruct (get_node_by_cid c) eqn:E; try discriminate.
  destruct (dec_tx_sig a) as [s'|] eqn:Ed; [|discriminate]. cbn [andb] in H. unfold list_N_eqb in H.
  destruct (list_eq_dec N.eq_dec s' sg); cbn [negb] in H; [|discriminate]. subst s'.
  exact (Habs c a E Ed).
Qed.

(* fetching by CID returns only bytes stored in a section whose CID field IS the requested CID — whatever
   (offset,size) the index returned, whatever CAR file is configured *)
Theorem cid_fetch_is_stored_under_that_cid c d :
  get_node_by_cid c = Ok d ->
  exists off len sec n clen,
    cid_ix c = Some (off, len) /\ read_at file off len = Some sec /\
    (exists x, uvarint_dec sec = Some (x, n)) /\
    cid_parse (skipn n sec) = Some (c, clen) /\ d = skipn clen (skipn n sec).
Proof.
  unfold get_node_by_cid. destruct (cid_ix c) as [[off len]|] eqn:Ei; [|discriminate].
  destruct (read_at file off len) as [sec|] eqn:Er; [|discriminate].
  unfold Car.parse_node. destruct (uvarint_dec sec) as [[x n]|] eqn:Eu; [|discriminate].
  destruct (cid_parse (skipn n sec)) as [[c' clen]|] eqn:Ec; [|discriminate].
  destruct (list_eq_dec N.eq_dec c' c); [|discriminate]. subst c'.
  intros H; inversion H; subst. exists off, len, sec, n, clen. repeat split; eauto.
Qed.
End C03.

(* the pinned behaviour (no key comparison) is refuted: an index that answers slot 7 with the CID of the
   block of slot 5 makes get_block return the block of slot 5 *)
Lemma block_unchecked_refuted :
  exists cid_parse slot_ix cid_ix file dec slot s d,
    get_block cid_parse slot_ix cid_ix file dec false slot = Ok (s, d) /\ s <> slot.
Proof.
  exists (fun bs => Some (firstn 1 bs, 1)), (fun _ => Some [9%N]), (fun _ => Some (0, 3)),
         [2%N; 9%N; 5%N], (fun d => hd_error d), 7%N, 5%N, [5%N].
  split; [vm_compute; reflexivity|discriminate].
Qed.

(* ---------- checker for the harness's observations ---------- *)
(* The harness searches absent keys for which the index itself answers (collisions), records what the node
   the index points to decodes to, and how the implementation answered. *)
Inductive obs := ONotFound | OAnswered | OError.
Inductive case :=
| CBlock (asked decoded : N) (o : obs)                 (* absent slot whose lookup hit the block of slot [decoded] *)
| CTx (asked decoded : list N) (o : obs)
| CPresentBlock (asked : N) (o : obs).                 (* a present slot must still be answered *)

Definition model_obs {A} (r : outcome A) : obs :=
  match r with Ok _ => OAnswered | NotFound => ONotFound | Failed => OError end.
Definition obs_eqb (a b : obs) : bool :=
  match a, b with ONotFound, ONotFound | OAnswered, OAnswered | OError, OError => true | _, _ => false end.

(* tiny one-object archive: index answers every key with the single stored node *)
Definition one_block (asked decoded : N) : obs :=
  model_obs (get_block (fun bs => Some (firstn 1 bs, 1)) (fun _ => Some [9%N]) (fun _ => Some (0, 3))
                       [2%N; 9%N; 0%N] (fun _ => Some decoded) true asked).
Definition one_tx (asked decoded : list N) : obs :=
  model_obs (get_transaction (fun bs => Some (firstn 1 bs, 1)) (fun _ => Some [9%N]) (fun _ => Some (0, 3))
                       [2%N; 9%N; 0%N] (fun _ => Some decoded) true asked).

Definition case_ok (c : case) : bool :=
  match c with
  | CBlock a d o => obs_eqb (one_block a d) o
  | CTx a d o => obs_eqb (one_tx a d) o
  | CPresentBlock a o => obs_eqb (one_block a a) o
  end.
Fixpoint bad_from (i : nat) (cs : list case) : list nat :=
  match cs with [] => [] | c :: t => if case_ok c then bad_from (S i) t else i :: bad_from (S i) t end.
Definition check (cs : list case) : list nat := bad_from 0 cs.
