From Coq Require Import List Arith Lia Bool PeanoNat NArith ZArith.
From Coq Require Import ZifyN ZifyNat ZifyBool.
Import ListNotations.
Ltac Zify.zify_post_hook ::= Z.div_mod_to_equations.
Local Open Scope N_scope.

Require Import Codec.
(* big-endian fixed width = reversed little-endian *)
Definition be_enc (n : nat) (x : N) : list N := rev (le_enc n x).
Definition be_dec (acc : N) (bs : list N) : N := acc * 256 ^ N.of_nat (length bs) + le_dec (rev bs).

Lemma be_enc_length n x : length (be_enc n x) = n.
Proof. unfold be_enc. rewrite rev_length. apply le_enc_length. Qed.

Lemma be_dec_enc n acc x : x < 256 ^ N.of_nat n -> be_dec acc (be_enc n x) = acc * 256 ^ N.of_nat n + x.
Proof.
  intros H. unfold be_dec. rewrite be_enc_length. unfold be_enc. rewrite rev_involutive, le_roundtrip; auto.
Qed.

Inductive item :=
| CUint (n : N) | CNint (n : N) | CBytes (l : list N) | CText (l : list N)
| CArr (l : list item) | CTag (t : N) (i : item) | CNull | CBool (b : bool).

Definition head (m n : N) : list N :=
  if n <? 24 then [m * 32 + n]
  else if n <? 256 then [m * 32 + 24; n]
  else if n <? 65536 then (m * 32 + 25) :: be_enc 2 n
  else if n <? 4294967296 then (m * 32 + 26) :: be_enc 4 n
  else (m * 32 + 27) :: be_enc 8 n.

Fixpoint encode (i : item) : list N :=
  match i with
  | CUint n => head 0 n
  | CNint n => head 1 n
  | CBytes l => head 2 (N.of_nat (length l)) ++ l
  | CText l => head 3 (N.of_nat (length l)) ++ l
  | CArr l => head 4 (N.of_nat (length l)) ++ concat (map encode l)
  | CTag t i => head 6 t ++ encode i
  | CNull => [246]
  | CBool false => [244]
  | CBool true => [245]
  end.

Definition take (n : nat) (bs : list N) : option (list N * list N) :=
  if (n <=? length bs)%nat then Some (firstn n bs, skipn n bs) else None.

Definition parse_head (bs : list N) : option (N * N * list N) :=
  match bs with
  | [] => None
  | ib :: r =>
    let m := ib / 32 in let ai := ib mod 32 in
    if ai <? 24 then Some (m, ai, r)
    else if ai =? 24 then match take 1 r with Some (a, r') => Some (m, be_dec 0 a, r') | None => None end
    else if ai =? 25 then match take 2 r with Some (a, r') => Some (m, be_dec 0 a, r') | None => None end
    else if ai =? 26 then match take 4 r with Some (a, r') => Some (m, be_dec 0 a, r') | None => None end
    else if ai =? 27 then match take 8 r with Some (a, r') => Some (m, be_dec 0 a, r') | None => None end
    else None
  end.

Lemma take_app (a r : list N) : take (length a) (a ++ r) = Some (a, r).
Proof.
  unfold take. rewrite app_length. replace (length a <=? length a + length r)%nat with true by (symmetry; apply Nat.leb_le; lia).
  rewrite firstn_app, Nat.sub_diag, firstn_all. cbn. rewrite app_nil_r.
  rewrite skipn_app, Nat.sub_diag, skipn_all. reflexivity.
Qed.

Lemma parse_head_ok m n rest : m < 8 -> n < 2 ^ 64 -> parse_head (head m n ++ rest) = Some (m, n, rest).
Proof.
  intros Hm Hn. unfold head.
  destruct (n <? 24) eqn:E1.
  { apply N.ltb_lt in E1. cbn [app parse_head].
    replace ((m * 32 + n) / 32) with m by lia. replace ((m * 32 + n) mod 32) with n by lia.
    replace (n <? 24) with true by (symmetry; apply N.ltb_lt; lia). reflexivity. }
  apply N.ltb_ge in E1.
  destruct (n <? 256) eqn:E2.
  { apply N.ltb_lt in E2. cbn [app parse_head].
    replace ((m * 32 + 24) / 32) with m by lia. replace ((m * 32 + 24) mod 32) with 24 by lia. cbn.
    unfold take. cbn. f_equal. f_equal. f_equal. lia. }
  apply N.ltb_ge in E2.
  destruct (n <? 65536) eqn:E3.
  { apply N.ltb_lt in E3. cbn [app parse_head].
    replace ((m * 32 + 25) / 32) with m by lia. replace ((m * 32 + 25) mod 32) with 25 by lia. cbn [N.ltb N.eqb N.compare Pos.compare Pos.compare_cont].
    change (25 <? 24) with false. change (25 =? 24) with false. change (25 =? 25) with true. cbv iota.
    pose proof (take_app (be_enc 2 n) rest) as T. rewrite be_enc_length in T. rewrite T.
    rewrite (be_dec_enc 2 0 n) by (cbn; lia). rewrite N.mul_0_l, N.add_0_l. reflexivity. }
  apply N.ltb_ge in E3.
  destruct (n <? 4294967296) eqn:E4.
  { apply N.ltb_lt in E4. cbn [app parse_head].
    replace ((m * 32 + 26) / 32) with m by lia. replace ((m * 32 + 26) mod 32) with 26 by lia.
    change (26 <? 24) with false. change (26 =? 24) with false. change (26 =? 25) with false. change (26 =? 26) with true. cbv iota.
    pose proof (take_app (be_enc 4 n) rest) as T. rewrite be_enc_length in T. rewrite T.
    rewrite (be_dec_enc 4 0 n) by (cbn; lia). rewrite N.mul_0_l, N.add_0_l. reflexivity. }
  apply N.ltb_ge in E4. cbn [app parse_head].
  replace ((m * 32 + 27) / 32) with m by lia. replace ((m * 32 + 27) mod 32) with 27 by lia.
  change (27 <? 24) with false. change (27 =? 24) with false. change (27 =? 25) with false. change (27 =? 26) with false. change (27 =? 27) with true. cbv iota.
  pose proof (take_app (be_enc 8 n) rest) as T. rewrite be_enc_length in T. rewrite T.
  rewrite (be_dec_enc 8 0 n) by (change (256 ^ N.of_nat 8) with (2 ^ 64); lia). rewrite N.mul_0_l, N.add_0_l. reflexivity.
Qed.

(* ---------- parser (definite lengths), with fuel ---------- *)
Fixpoint parse (fuel : nat) (bs : list N) : option (item * list N) :=
  match fuel with
  | O => None
  | S f =>
    match bs with
    | 246 :: r => Some (CNull, r)
    | 244 :: r => Some (CBool false, r)
    | 245 :: r => Some (CBool true, r)
    | _ =>
      match parse_head bs with
      | None => None
      | Some (m, n, r) =>
        if m =? 0 then Some (CUint n, r)
        else if m =? 1 then Some (CNint n, r)
        else if m =? 2 then match take (N.to_nat n) r with Some (a, r') => Some (CBytes a, r') | None => None end
        else if m =? 3 then match take (N.to_nat n) r with Some (a, r') => Some (CText a, r') | None => None end
        else if m =? 4 then match parse_seq f n r with Some (l, r') => Some (CArr l, r') | None => None end
        else if m =? 6 then match parse f r with Some (i, r') => Some (CTag n i, r') | None => None end
        else None
      end
    end
  end
with parse_seq (fuel : nat) (n : N) (bs : list N) : option (list item * list N) :=
  match fuel with
  | O => None
  | S f =>
    if n =? 0 then Some ([], bs)
    else match parse f bs with
         | None => None
         | Some (i, r) => match parse_seq f (n - 1) r with
                          | Some (l, r') => Some (i :: l, r')
                          | None => None end
         end
  end.

Fixpoint w (i : item) : nat :=
  match i with
  | CArr l => S ((fix wl (l : list item) : nat := match l with [] => 1%nat | x :: r => S (Nat.max (w x) (wl r)) end) l)
  | CTag _ i => S (w i)
  | _ => 1%nat
  end.
Fixpoint wl (l : list item) : nat := match l with [] => 1%nat | x :: r => S (Nat.max (w x) (wl r)) end.

Fixpoint wf (i : item) : Prop :=
  match i with
  | CUint n | CNint n => n < 2 ^ 64
  | CBytes l | CText l => N.of_nat (length l) < 2 ^ 64
  | CArr l => N.of_nat (length l) < 2 ^ 64 /\ (fix all (l : list item) : Prop := match l with [] => True | x :: r => wf x /\ all r end) l
  | CTag t i => t < 2 ^ 64 /\ wf i
  | _ => True
  end.
Fixpoint wfl (l : list item) : Prop := match l with [] => True | x :: r => wf x /\ wfl r end.

Lemma head_first m n : m < 8 -> exists b r, head m n = b :: r /\ m * 32 <= b < m * 32 + 32.
Proof.
  intros Hm. unfold head.
  destruct (n <? 24) eqn:E1; [apply N.ltb_lt in E1; eexists; eexists; split; [reflexivity|lia]|].
  destruct (n <? 256); [eexists; eexists; split; [reflexivity|lia]|].
  destruct (n <? 65536); [eexists; eexists; split; [reflexivity|lia]|].
  destruct (n <? 4294967296); eexists; eexists; (split; [reflexivity|lia]).
Qed.

(* the special-cased simple values never clash with heads of major types 0..6 *)
Lemma parse_via_head f m n rest : m < 7 ->
  parse (S f) (head m n ++ rest) =
  match parse_head (head m n ++ rest) with
  | None => None
  | Some (m, n, r) =>
        if m =? 0 then Some (CUint n, r)
        else if m =? 1 then Some (CNint n, r)
        else if m =? 2 then match take (N.to_nat n) r with Some (a, r') => Some (CBytes a, r') | None => None end
        else if m =? 3 then match take (N.to_nat n) r with Some (a, r') => Some (CText a, r') | None => None end
        else if m =? 4 then match parse_seq f n r with Some (l, r') => Some (CArr l, r') | None => None end
        else if m =? 6 then match parse f r with Some (i, r') => Some (CTag n i, r') | None => None end
        else None
  end.
Proof.
  intros Hm. destruct (head_first m n ltac:(lia)) as [b [r [E Hb]]]. rewrite E. cbn [app parse].
  assert (b < 224) by lia.
  destruct b as [|p]; [reflexivity|].
  do 8 (destruct p as [p|p|]; try reflexivity; try lia).
Qed.

Theorem roundtrip : forall fuel,
  (forall i rest, (w i <= fuel)%nat -> wf i -> parse fuel (encode i ++ rest) = Some (i, rest)) /\
  (forall l rest, (wl l <= fuel)%nat -> wfl l -> N.of_nat (length l) < 2 ^ 64 ->
      parse_seq fuel (N.of_nat (length l)) (concat (map encode l) ++ rest) = Some (l, rest)).
Proof.
  induction fuel as [|f [IHi IHl]].
  - split.
    + intros i rest H. destruct i; cbn in H; lia.
    + intros l rest H. destruct l; cbn in H; lia.
  - split.
    + intros i rest Hw Hwf. destruct i as [n|n|l|l|l|t i| |b].
      * cbn [encode]. rewrite parse_via_head by lia. rewrite parse_head_ok by (cbn in Hwf; lia). reflexivity.
      * cbn [encode]. rewrite parse_via_head by lia. rewrite parse_head_ok by (cbn in Hwf; lia). reflexivity.
      * cbn [encode]. rewrite <- app_assoc. rewrite parse_via_head by lia. rewrite parse_head_ok by (cbn in Hwf; lia).
        cbn. rewrite Nat2N.id, take_app. reflexivity.
      * cbn [encode]. rewrite <- app_assoc. rewrite parse_via_head by lia. rewrite parse_head_ok by (cbn in Hwf; lia).
        cbn. rewrite Nat2N.id, take_app. reflexivity.
      * cbn [encode]. rewrite <- app_assoc. rewrite parse_via_head by lia.
        destruct Hwf as [Hlen Hall]. rewrite parse_head_ok by lia. cbn.
        rewrite IHl; auto.
        cbn in Hw. change ((fix wl (l : list item) : nat := match l with [] => 1%nat | x :: r => S (Nat.max (w x) (wl r)) end) l) with (wl l) in Hw. lia.
      * cbn [encode]. rewrite <- app_assoc. rewrite parse_via_head by lia.
        destruct Hwf as [Ht Hi]. rewrite parse_head_ok by lia. cbn. rewrite IHi; auto. cbn in Hw. lia.
      * reflexivity.
      * destruct b; reflexivity.
    + intros l rest Hw Hwf Hlen. destruct l as [|x l].
      * reflexivity.
      * cbn [parse_seq length]. replace (N.of_nat (S (length l)) =? 0) with false by (symmetry; apply N.eqb_neq; lia).
        cbn [map concat]. rewrite <- app_assoc. cbn in Hw. destruct Hwf as [Hx Hl].
        rewrite IHi by (auto; lia).
        replace (N.of_nat (S (length l)) - 1) with (N.of_nat (length l)) by lia.
        rewrite IHl by (auto; cbn [length] in Hlen; lia). reflexivity.
Qed.

Corollary parse_encode i : wf i -> parse (w i) (encode i) = Some (i, []).
Proof. intros H. rewrite <- (app_nil_r (encode i)). apply (proj1 (roundtrip (w i))); auto. Qed.
Print Assumptions parse_encode.
