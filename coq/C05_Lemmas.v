(* C05 — supporting lemmas: byte helpers, sorting/dedup facts, the byte-level eytzinger search
   against Eytz3.search, codec round trips (metadata, prefix->offset table). *)
From Coq Require Import List Arith Lia Bool PeanoNat NArith Sorting.Sorted Sorting.Permutation Sorting.Mergesort Orders.
From Coq Require Import ZifyN ZifyNat ZifyBool.
Import ListNotations.
Require Import Eytz Eytz2 Eytz3 Codec ReadAt C05_Model.
Local Open Scope N_scope.

(* ---------- take / list_eqb / file_reader ---------- *)
Lemma take_app a r : take (length a) (a ++ r) = Some (a, r).
Proof. induction a as [|x a IH]; cbn [length take app]; auto. now rewrite IH. Qed.

Lemma list_eqb_refl a : list_eqb a a = true.
Proof. induction a as [|x a IH]; cbn; auto. now rewrite N.eqb_refl, IH. Qed.

Lemma file_reader_spec f off len :
  file_reader f off len = read_at f (N.to_nat off) (N.to_nat len).
Proof.
  unfold file_reader, read_at.
  destruct (off + len <=? N.of_nat (length f)) eqn:E1;
  destruct (N.to_nat off + N.to_nat len <=? length f)%nat eqn:E2; auto; exfalso.
  - apply N.leb_le in E1. apply Nat.leb_gt in E2. lia.
  - apply N.leb_gt in E1. apply Nat.leb_le in E2. lia.
Qed.

Lemma file_reader_mid (a b c : list N) :
  file_reader (a ++ b ++ c) (N.of_nat (length a)) (N.of_nat (length b)) = Some b.
Proof. rewrite file_reader_spec, !Nat2N.id. apply read_at_mid. Qed.

Lemma file_reader_some f off len bs : file_reader f off len = Some bs -> length bs = N.to_nat len.
Proof. rewrite file_reader_spec. apply read_at_length. Qed.

Lemma overwrite_same (a b c : list N) : length a = length b -> overwrite (a ++ c) b = b ++ c.
Proof.
  intros H. unfold overwrite. f_equal. rewrite <- H. rewrite skipn_app, skipn_all, Nat.sub_diag. reflexivity.
Qed.

Lemma flat_map_le8_length (l : list N) : length (flat_map (le_enc 8) l) = (8 * length l)%nat.
Proof. induction l as [|x l IH]; [reflexivity|]. cbn [flat_map]. rewrite app_length, le_enc_length, IH. cbn [length]. lia. Qed.

(* ---------- nseq ---------- *)
Lemma nseq_In n : forall s x, In x (nseq n s) <-> s <= x < s + N.of_nat n.
Proof.
  induction n as [|n IH]; intros s x; cbn [nseq In].
  - lia.
  - rewrite IH. lia.
Qed.
Lemma nseq_NoDup n : forall s, NoDup (nseq n s).
Proof.
  induction n as [|n IH]; intros s; cbn [nseq]; constructor; auto.
  rewrite nseq_In. lia.
Qed.
Lemma nseq_length n s : length (nseq n s) = n.
Proof. revert s; induction n as [|n IH]; intros s; cbn [nseq length]; auto. Qed.

(* ---------- sorting and dedup ---------- *)
Lemma nleb_trans : Relations_1.Transitive (fun x y : N => is_true (NOrd.leb x y)).
Proof. intros x y z. unfold NOrd.leb, is_true. rewrite !N.leb_le. lia. Qed.

Lemma nsort_SS (l : list N) : StronglySorted N.le (NSort.sort l).
Proof.
  pose proof (NSort.StronglySorted_sort l nleb_trans) as H.
  induction H as [|x s HS IH Hall]; constructor; auto.
  eapply Forall_impl; [|exact Hall]. intros y Hy. unfold NOrd.leb, is_true in Hy. now apply N.leb_le in Hy.
Qed.

Lemma nsort_In (l : list N) x : In x (NSort.sort l) <-> In x l.
Proof.
  split; intros H.
  - eapply Permutation_in; [apply Permutation_sym, NSort.Permuted_sort|exact H].
  - eapply Permutation_in; [apply NSort.Permuted_sort|exact H].
Qed.

Lemma dedup_from_SS l : forall prev,
  StronglySorted N.le (prev :: l) -> StronglySorted N.lt (prev :: dedup_from prev l).
Proof.
  induction l as [|x r IH]; intros prev H; cbn [dedup_from].
  - constructor; constructor.
  - inversion H as [|? ? Hr Hall]; subst. inversion Hall as [|? ? Hpx Hall']; subst.
    inversion Hr as [|? ? Hr' Hallx]; subst.
    destruct (N.eqb_spec x prev) as [->|Hne].
    + apply IH. constructor; auto.
    + assert (Hx : StronglySorted N.lt (x :: dedup_from x r)) by (apply IH; constructor; auto).
      constructor; auto. constructor; [lia|].
      inversion Hx as [|? ? _ Hgt]; subst. eapply Forall_impl; [|exact Hgt]. intros y Hy. cbn in Hy. lia.
Qed.

Lemma dedup_from_In l : forall prev x, In x (prev :: dedup_from prev l) <-> In x (prev :: l).
Proof.
  induction l as [|y r IH]; intros prev x; cbn [dedup_from]; [tauto|].
  destruct (N.eqb_spec y prev) as [->|Hne].
  - rewrite IH. cbn [In]. tauto.
  - cbn [In]. specialize (IH y x). cbn [In] in IH. tauto.
Qed.

Lemma SS_lt_NoDup (l : list N) : StronglySorted N.lt l -> NoDup l.
Proof.
  induction 1 as [|x l HS IH Hall]; constructor; auto.
  intros Hin. rewrite Forall_forall in Hall. specialize (Hall _ Hin). lia.
Qed.

Lemma clean_In l x : In x (clean l) <-> In x l.
Proof.
  unfold clean, dedup. rewrite <- (nsort_In l x). destruct (NSort.sort l) as [|y r]; [tauto|]. apply dedup_from_In.
Qed.

Lemma clean_NoDup l : NoDup (clean l).
Proof.
  unfold clean, dedup. pose proof (nsort_SS l) as H. destruct (NSort.sort l) as [|y r]; [constructor|].
  apply SS_lt_NoDup. now apply dedup_from_SS.
Qed.

(* the slice handed to eytzinger: sorted strictly, same elements as the bucket *)
Definition sorted_set (l : list N) : list N := NSort.sort (clean l).

Lemma sorted_set_In l x : In x (sorted_set l) <-> In x l.
Proof. unfold sorted_set. rewrite nsort_In. apply clean_In. Qed.

Lemma sorted_set_length l : length (sorted_set l) = length (clean l).
Proof. unfold sorted_set. symmetry. apply Permutation_length, NSort.Permuted_sort. Qed.

Lemma sorted_set_strict l : forall a b : nat, (a < b < length (sorted_set l))%nat ->
  nth a (sorted_set l) 0 < nth b (sorted_set l) 0.
Proof.
  unfold sorted_set.
  assert (ND : NoDup (NSort.sort (clean l))).
  { eapply Permutation_NoDup; [apply NSort.Permuted_sort|apply clean_NoDup]. }
  pose proof (nsort_SS (clean l)) as HS.
  set (s := NSort.sort (clean l)) in *. clearbody s.
  induction HS as [|x s HS IH Hall]; intros a b Hab; cbn [length] in *; [lia|].
  inversion ND as [|? ? Hnin ND']; subst.
  destruct a as [|a]; destruct b as [|b]; try lia; cbn [nth].
  - assert (Hin : In (nth b s 0) s) by (apply nth_In; lia).
    rewrite Forall_forall in Hall. pose proof (Hall _ Hin) as Hle.
    assert (x <> nth b s 0) by (intros E; apply Hnin; rewrite E; exact Hin). lia.
  - apply IH; auto. lia.
Qed.

(* ---------- the byte-level search against Eytz3.search ---------- *)
Definition idN (x : N) : N := x.

Lemma bsearch_complete (arr : list N) (get : N -> option N) (x : N) :
  (forall i : nat, (i < length arr)%nat -> get (N.of_nat i) = Some (nth i arr 0)) ->
  forall f i e, search N 0 idN f arr x i = Some e ->
  forall F, N.of_nat (length arr) < (N.of_nat i + 1) * 2 ^ N.of_nat F ->
  bsearch F get (N.of_nat (length arr)) x (N.of_nat i) = Ok true.
Proof.
  intros Hget. induction f as [|f IH]; intros i e Hs F HF; cbn [search] in Hs; [discriminate|].
  destruct (i <? length arr)%nat eqn:Hi; [|discriminate]. apply Nat.ltb_lt in Hi.
  destruct F as [|F].
  { exfalso. cbn in HF. lia. }
  cbn [bsearch]. replace (N.of_nat i <? N.of_nat (length arr)) with true by (symmetry; apply N.ltb_lt; lia).
  rewrite (Hget i Hi). unfold idN in Hs.
  destruct (nth i arr 0 =? x) eqn:He; [reflexivity|].
  assert (HF' : forall j : N, N.of_nat i * 2 + 2 <= j + 1 -> N.of_nat (length arr) < (j + 1) * 2 ^ N.of_nat F).
  { intros j Hj. rewrite Nat2N.inj_succ, N.pow_succ_r' in HF.
    eapply N.lt_le_trans; [exact HF|].
    replace ((N.of_nat i + 1) * (2 * 2 ^ N.of_nat F)) with ((N.of_nat i * 2 + 2) * 2 ^ N.of_nat F) by lia.
    apply N.mul_le_mono_r. exact Hj. }
  destruct (nth i arr 0 <? x) eqn:Hlt.
  - replace (2 * N.of_nat i + 1 + 1) with (N.of_nat (2 * i + 2)) by lia.
    eapply IH; [exact Hs|]. apply HF'. lia.
  - replace (2 * N.of_nat i + 1 + 0) with (N.of_nat (2 * i + 1)) by lia.
    eapply IH; [exact Hs|]. apply HF'. lia.
Qed.

Lemma bsearch_sound (get : N -> option N) (n x : N) :
  forall F idx, bsearch F get n x idx = Ok true -> exists j, j < n /\ get j = Some x.
Proof.
  induction F as [|F IH]; intros idx H; cbn [bsearch] in H.
  - destruct (idx <? n); discriminate.
  - destruct (idx <? n) eqn:Hi; [|discriminate]. apply N.ltb_lt in Hi.
    destruct (get idx) as [k|] eqn:Hg; [|discriminate].
    destruct (N.eqb_spec k x) as [->|Hne].
    + exists idx. auto.
    + eapply IH; eauto.
Qed.

Lemma bsearch_total (get : N -> option N) (n x : N) :
  (forall j, j < n -> get j <> None) ->
  forall F idx, n < (idx + 1) * 2 ^ N.of_nat F -> exists b, bsearch F get n x idx = Ok b.
Proof.
  intros Hget. induction F as [|F IH]; intros idx HF; cbn [bsearch].
  - replace (idx <? n) with false by (symmetry; apply N.ltb_ge; cbn in HF; lia). eauto.
  - destruct (idx <? n) eqn:Hi; [|eauto]. apply N.ltb_lt in Hi.
    destruct (get idx) as [k|] eqn:Hg; [|exfalso; eapply Hget; eauto].
    destruct (k =? x); [eauto|]. apply IH.
    rewrite Nat2N.inj_succ, N.pow_succ_r' in HF.
    eapply N.lt_le_trans; [exact HF|].
    replace ((idx + 1) * (2 * 2 ^ N.of_nat F)) with ((idx * 2 + 2) * 2 ^ N.of_nat F) by lia.
    apply N.mul_le_mono_r. destruct (k <? x); lia.
Qed.

(* the model's searches never run out of fuel on counts a uint32 can hold *)
Lemma bsearch_fuel_enough (get : N -> option N) (n x : N) :
  forall F idx, n < (idx + 1) * 2 ^ N.of_nat F -> bsearch F get n x idx <> OutOfFuel.
Proof.
  induction F as [|F IH]; intros idx HF; cbn [bsearch].
  - replace (idx <? n) with false by (symmetry; apply N.ltb_ge; cbn in HF; lia). discriminate.
  - destruct (idx <? n) eqn:Hi; [|discriminate].
    destruct (get idx) as [k|]; [|discriminate].
    destruct (k =? x); [discriminate|]. apply IH.
    rewrite Nat2N.inj_succ, N.pow_succ_r' in HF.
    eapply N.lt_le_trans; [exact HF|].
    replace ((idx + 1) * (2 * 2 ^ N.of_nat F)) with ((idx * 2 + 2) * 2 ^ N.of_nat F) by lia.
    apply N.mul_le_mono_r. destruct (k <? x); lia.
Qed.

(* ---------- metadata round trips ---------- *)
Lemma skip_kvs2_roundtrip (m : meta) rest :
  skip_kvs2 (length m) (flat_map enc_kv2 m ++ rest) = Some rest.
Proof.
  induction m as [|[k v] m IH]; [reflexivity|].
  assert (E : flat_map enc_kv2 ((k, v) :: m) ++ rest =
              N.of_nat (length k) :: k ++ (N.of_nat (length v) :: v ++ (flat_map enc_kv2 m ++ rest))).
  { cbn [flat_map]. unfold enc_kv2 at 1. cbn [fst snd].
    repeat (rewrite <- app_assoc || rewrite <- app_comm_cons). reflexivity. }
  rewrite E. cbn [length skip_kvs2]. rewrite Nat2N.id, take_app, Nat2N.id, take_app. exact IH.
Qed.

Lemma skip_meta2_roundtrip (m : meta) mb rest :
  enc_meta2 m = Some mb -> skip_meta2 (mb ++ rest) = Ok rest.
Proof.
  unfold enc_meta2. destruct (max_kvs <? length m)%nat; [discriminate|].
  destruct (forallb _ m); [|discriminate]. intros H; inversion H; subst.
  cbn [app skip_meta2]. rewrite Nat2N.id, skip_kvs2_roundtrip. reflexivity.
Qed.

Lemma enc_kv2_len_bound (m : meta) :
  forallb (fun kv => (length (fst kv) <=? max_key)%nat && (length (snd kv) <=? max_value)%nat) m = true ->
  (length (flat_map enc_kv2 m) <= 512 * length m)%nat.
Proof.
  induction m as [|[k v] m IH]; cbn [forallb flat_map length]; intros H; [lia|].
  apply andb_prop in H. destruct H as [H1 H2]. apply andb_prop in H1. destruct H1 as [Hk Hv].
  cbn [fst snd] in *. apply Nat.leb_le in Hk, Hv. unfold max_key, max_value in *. specialize (IH H2).
  rewrite app_length. unfold enc_kv2 at 1. cbn [fst snd length]. rewrite app_length. cbn [length]. lia.
Qed.

Lemma enc_meta2_small (m : meta) mb : enc_meta2 m = Some mb -> N.of_nat (length mb) <= 130561.
Proof.
  unfold enc_meta2. destruct (max_kvs <? length m)%nat eqn:E; [discriminate|]. apply Nat.ltb_ge in E. unfold max_kvs in E.
  destruct (forallb _ m) eqn:F; [|discriminate]. intros H; inversion H; subst.
  pose proof (enc_kv2_len_bound m F). cbn [length]. lia.
Qed.

Lemma read_str1_roundtrip (s rest : list N) :
  N.of_nat (length s) <= max_i32 -> read_str1 (enc_str1 s ++ rest) = Some rest.
Proof.
  intros Hs. unfold read_str1, enc_str1. rewrite <- app_assoc.
  rewrite <- (le_enc_length 4 (N.of_nat (length s) mod two32)) at 1. rewrite take_app.
  assert (Hm : N.of_nat (length s) mod two32 = N.of_nat (length s)).
  { apply N.mod_small. unfold max_i32, two32 in *. lia. }
  rewrite Hm. rewrite le_roundtrip by (unfold max_i32 in Hs; cbn; lia).
  replace (max_i32 <? N.of_nat (length s)) with false by (symmetry; apply N.ltb_ge; lia).
  replace (N.of_nat (length s) <=? N.of_nat (length (s ++ rest))) with true
    by (symmetry; apply N.leb_le; rewrite app_length; lia).
  rewrite Nat2N.id, skipn_app, skipn_all, Nat.sub_diag. reflexivity.
Qed.

Lemma enc_str1_length s : length (enc_str1 s) = (4 + length s)%nat.
Proof. unfold enc_str1. now rewrite app_length, le_enc_length. Qed.

Lemma enc_kvs1_length_ge (m : meta) : (length m <= length (flat_map enc_kv1 m))%nat.
Proof.
  induction m as [|kv m IH]; cbn [flat_map length]; [lia|].
  rewrite app_length. unfold enc_kv1 at 1. rewrite app_length, !enc_str1_length. lia.
Qed.

Lemma enc_kvs1_str_bound (m : meta) k v :
  In (k, v) m -> (length k + length v <= length (flat_map enc_kv1 m))%nat.
Proof.
  induction m as [|kv m IH]; cbn [In flat_map]; [tauto|]. intros [->|H]; rewrite app_length.
  - unfold enc_kv1 at 1. cbn [fst snd]. rewrite app_length, !enc_str1_length. lia.
  - specialize (IH H). lia.
Qed.

Lemma skip_kvs1_roundtrip (m : meta) rest :
  Forall (fun kv => N.of_nat (length (fst kv)) <= max_i32 /\ N.of_nat (length (snd kv)) <= max_i32) m ->
  forall fuel, (length m <= fuel)%nat ->
  skip_kvs1 fuel (N.of_nat (length m)) (flat_map enc_kv1 m ++ rest) = Ok rest.
Proof.
  induction 1 as [|[k v] m [Hk Hv] Hm IH]; intros fuel Hf.
  - destruct fuel; reflexivity.
  - destruct fuel as [|fuel]; [cbn in Hf; lia|]. cbn [skip_kvs1 length].
    replace (N.of_nat (S (length m)) =? 0) with false by (symmetry; apply N.eqb_neq; lia).
    cbn [flat_map]. unfold enc_kv1 at 1. cbn [fst snd] in *. rewrite <- !app_assoc.
    rewrite read_str1_roundtrip by exact Hk. rewrite read_str1_roundtrip by exact Hv.
    replace (N.of_nat (S (length m)) - 1) with (N.of_nat (length m)) by lia.
    apply IH. cbn in Hf. lia.
Qed.

Lemma skip_meta1_roundtrip (m : meta) rest :
  N.of_nat (length (enc_meta1 m)) < 2147483648 ->
  skip_meta1 (enc_meta1 m ++ rest) = Ok rest.
Proof.
  intros Hsmall. unfold enc_meta1 in *. rewrite app_length, le_enc_length in Hsmall.
  pose proof (enc_kvs1_length_ge m) as Hlen.
  unfold skip_meta1. rewrite <- app_assoc.
  rewrite <- (le_enc_length 8 (N.of_nat (length m) mod two64)) at 1. rewrite take_app.
  assert (Hm : N.of_nat (length m) mod two64 = N.of_nat (length m)) by (apply N.mod_small; unfold two64; lia).
  rewrite Hm, le_roundtrip by (cbn; lia).
  apply skip_kvs1_roundtrip.
  - apply Forall_forall. intros [k v] Hin. cbn [fst snd].
    pose proof (enc_kvs1_str_bound m k v Hin). unfold max_i32. lia.
  - rewrite app_length. lia.
Qed.

(* ---------- the prefix -> offset table ---------- *)
Lemma enc_entry_length e : length (enc_entry e) = 10%nat.
Proof. unfold enc_entry. now rewrite app_length, !le_enc_length. Qed.

Lemma enc_tab_length tab : length (enc_tab tab) = (10 * length tab)%nat.
Proof.
  induction tab as [|e tab IH]; [reflexivity|]. unfold enc_tab in *. cbn [flat_map].
  rewrite app_length, enc_entry_length, IH. cbn [length]. lia.
Qed.

Lemma parse_tab_roundtrip (tab : list (N * N)) :
  Forall (fun e => fst e < two16 /\ snd e < two64) tab ->
  forall fuel acc, (length tab <= fuel)%nat ->
  parse_tab fuel (N.of_nat (length tab)) (enc_tab tab) acc = Ok (rev tab ++ acc).
Proof.
  induction 1 as [|[p o] tab [Hp Ho] Htab IH]; intros fuel acc Hf.
  - destruct fuel; reflexivity.
  - destruct fuel as [|fuel]; [cbn in Hf; lia|]. cbn [parse_tab length].
    replace (N.of_nat (S (length tab)) =? 0) with false by (symmetry; apply N.eqb_neq; lia).
    unfold enc_tab. cbn [flat_map]. unfold enc_entry at 1. cbn [fst snd] in *.
    cbn [le_enc app].
    change [p mod 256; p / 256 mod 256] with (le_enc 2 p).
    change [o mod 256; o / 256 mod 256; o / 256 / 256 mod 256; o / 256 / 256 / 256 mod 256;
            o / 256 / 256 / 256 / 256 mod 256; o / 256 / 256 / 256 / 256 / 256 mod 256;
            o / 256 / 256 / 256 / 256 / 256 / 256 mod 256;
            o / 256 / 256 / 256 / 256 / 256 / 256 / 256 mod 256] with (le_enc 8 o).
    rewrite !le_roundtrip by (unfold two16, two64 in *; cbn; lia).
    replace (N.of_nat (S (length tab)) - 1) with (N.of_nat (length tab)) by lia.
    fold (enc_tab tab). rewrite IH by (cbn in Hf; lia).
    cbn [rev]. rewrite <- app_assoc. reflexivity.
Qed.

Lemma parse_tab_fuel_enough : forall fuel cnt bs acc,
  (length bs < fuel)%nat -> parse_tab fuel cnt bs acc <> OutOfFuel.
Proof.
  induction fuel as [|fuel IH]; intros cnt bs acc Hf; [lia|]. cbn [parse_tab].
  destruct (cnt =? 0); [discriminate|].
  do 10 (destruct bs as [|? bs]; [discriminate|]). apply IH. cbn [length] in Hf. lia.
Qed.

(* lookup in the parsed (reversed) table when prefixes are pairwise distinct *)
Lemma find_rev_unique (tab : list (N * N)) p o :
  NoDup (map fst tab) -> In (p, o) tab -> find (fun e => fst e =? p) (rev tab) = Some (p, o).
Proof.
  intros ND Hin.
  destruct (find (fun e => fst e =? p) (rev tab)) as [[p' o']|] eqn:E.
  - apply find_some in E. destruct E as [Hin' Hp]. cbn in Hp. apply N.eqb_eq in Hp. subst p'.
    apply in_rev in Hin'. f_equal. f_equal.
    clear - ND Hin Hin'. induction tab as [|[a b] tab IH]; [destruct Hin|].
    cbn [map fst] in ND. inversion ND as [|? ? Hn ND']; subst.
    destruct Hin as [E|Hin]; destruct Hin' as [E'|Hin'].
    + congruence.
    + inversion E; subst. exfalso. apply Hn. change p with (fst (p, o')). now apply in_map.
    + inversion E'; subst. exfalso. apply Hn. change p with (fst (p, o)). now apply in_map.
    + auto.
  - exfalso. assert (Hr : In (p, o) (rev tab)) by (apply -> in_rev; exact Hin).
    pose proof (find_none _ _ E (p, o) Hr) as Hf. cbn in Hf. rewrite N.eqb_refl in Hf. discriminate.
Qed.

Lemma find_rev_absent (tab : list (N * N)) p :
  ~ In p (map fst tab) -> find (fun e => fst e =? p) (rev tab) = None.
Proof.
  intros Hn. destruct (find (fun e => fst e =? p) (rev tab)) as [[p' o']|] eqn:E; auto.
  apply find_some in E. destruct E as [Hin Hp]. cbn in Hp. apply N.eqb_eq in Hp. subst p'.
  exfalso. apply Hn. apply in_rev in Hin. change p with (fst (p, o')). now apply in_map.
Qed.
