(* C16 — header capture/reconstruction, the reader over split pieces, and the executable checkers
   that bin/check runs on the harness's observations (the very model functions the theorems are about). *)
From Coq Require Import List Arith Lia Bool PeanoNat NArith ZArith.
Import ListNotations.
Require Import Codec C16_MR C16_Split.

(* ================= original header: split-car's readHeader and the fetcher's originalCarHeader ========= *)
(* cmd-car-split.go readHeader: Peek(varintSize = 10); hdrLen, viLen := binary.Uvarint(peek);
   error when hdrLen <= 0 || viLen < 0 (viLen == 0, "buffer too small", is NOT rejected: with the 10-byte
   peek it cannot happen for a uint64); discard viLen bytes, copy hdrLen bytes (error when short);
   metadata: OriginalCarHeader = base64(those bytes), OriginalCarHeaderSize = viLen + hdrLen. *)
Definition split_read_header (car : list N) : option (list N * nat) :=
  if (length car <? 10)%nat then None
  else match uvarint_dec (firstn 10 car) with
       | Some (hl, vi) =>
         if (hl =? 0)%N then None
         else let body := firstn (N.to_nat hl) (skipn vi car) in
              if (length body <? N.to_nat hl)%nat then None else Some (body, (vi + length body)%nat)
       | None => None
       end.

(* fetcher.go originalCarHeader: prefix = binary.AppendUvarint(len(headerBytes)); error unless
   len(prefix)+len(headerBytes) == OriginalCarHeaderSize; result prefix ++ headerBytes *)
Definition rebuild_header (body : list N) (size : nat) : option (list N) :=
  let pre := uvarint (N.of_nat (length body)) in
  if (length pre + length body =? size)%nat then Some (pre ++ body) else None.

Lemma uv_enc_length f x : (length (uv_enc f x) <= S f)%nat.
Proof.
  revert x; induction f as [|f IH]; intros x; cbn [uv_enc]; [cbn; lia|].
  destruct (x <? 128)%N; cbn [length]; [lia|]. specialize (IH (x / 128)%N). lia.
Qed.

(* a CAR whose header length is written as a canonical uvarint: the header bytes the reader serves in
   front of the pieces are exactly the first bytes of the original file *)
Theorem header_roundtrip (body rest : list N) :
  body <> [] -> (N.of_nat (length body) < 2 ^ 64)%N ->
  let pre := uvarint (N.of_nat (length body)) in
  let car := pre ++ body ++ rest in
  (10 <= length car)%nat ->
  split_read_header car = Some (body, (length pre + length body)%nat) /\
  rebuild_header body (length pre + length body) = Some (pre ++ body) /\
  firstn (length pre + length body) car = pre ++ body.
Proof.
  intros Hne Hlt pre car Hlen. split; [|split].
  - unfold split_read_header. replace (length car <? 10)%nat with false by (symmetry; apply Nat.ltb_ge; exact Hlen).
    assert (Hpre : (length pre <= 10)%nat) by apply uv_enc_length.
    assert (Hf : firstn 10 car = pre ++ firstn (10 - length pre) (body ++ rest)).
    { unfold car. rewrite firstn_app. rewrite firstn_all2 by lia. reflexivity. }
    rewrite Hf. unfold pre at 1. rewrite uvarint_roundtrip by exact Hlt. fold pre.
    replace (N.of_nat (length body) =? 0)%N with false.
    2:{ symmetry. apply N.eqb_neq. destruct body; [congruence|cbn [length]; lia]. }
    rewrite Nat2N.id. unfold car. rewrite skipn_app, skipn_all, Nat.sub_diag. cbn [skipn app].
    rewrite firstn_app, Nat.sub_diag, firstn_all. cbn [firstn]. rewrite app_nil_r.
    rewrite Nat.ltb_irrefl. reflexivity.
  - unfold rebuild_header. fold pre. now rewrite Nat.eqb_refl.
  - unfold car. rewrite app_assoc. rewrite <- app_length. rewrite firstn_app, Nat.sub_diag, firstn_all.
    cbn [firstn]. now rewrite app_nil_r.
Qed.

(* ================= the reader over the pieces written by split-car ================= *)
(* NewSplitCarReader: readers = [original header] ++ [SectionReader(piece_i, HeaderSize_i, ContentSize_i)].
   By split_pieces the section of piece i is its DAG content; the multi reader therefore serves the
   original header followed by the block families' sections in file order. *)
Theorem reader_over_split (c : cfg) (objs : list (obj N)) ps (h : list N) off len :
  split c objs = Some ps -> (0 <= off)%Z -> (0 <= len)%Z ->
  (total (h :: map dag_content ps) < MaxInt64)%Z ->
  let whole := h ++ concat (map osec (flat_map family_objs (families c objs))) in
  let R := firstn (Z.to_nat len) (skipn (Z.to_nat off) whole) in
  read_at_multi (h :: map dag_content ps) off len = (R, if (Z.of_nat (length R) <? len)%Z then EEOF else ENil).
Proof.
  intros H Ho Hl Hmax whole R.
  rewrite read_at_multi_concat by (auto; discriminate).
  destruct (split_pieces c objs ps H) as [_ [_ [Hc _]]].
  unfold slice. cbn [concat]. rewrite Hc. reflexivity.
Qed.

(* ================= checkers ================= *)
Fixpoint list_eqb (a b : list N) : bool :=
  match a, b with
  | [], [] => true
  | x :: a', y :: b' => N.eqb x y && list_eqb a' b'
  | _, _ => false
  end.

Lemma list_eqb_eq a : forall b, list_eqb a b = true <-> a = b.
Proof.
  induction a as [|x a IH]; intros [|y b]; cbn; split; try congruence; try discriminate.
  - intros H. apply andb_true_iff in H. destruct H as [H1 H2]. apply N.eqb_eq in H1. apply IH in H2. congruence.
  - intros H. inversion H; subst. rewrite N.eqb_refl. cbn. now apply IH.
Qed.

Fixpoint bad_from {C} (ok : C -> bool) (i : nat) (cs : list C) : list nat :=
  match cs with [] => [] | c :: t => if ok c then bad_from ok (S i) t else i :: bad_from ok (S i) t end.

(* ---- (a) multi reader ---- *)
(* one case: the segments; rows (off, bytes returned by the longest read at that offset, (n, error class) for
   len = 0, 1, 2, ... — the harness has checked on the observed buffers that each shorter read returned the
   first n of those bytes, so the row is a lossless encoding of the observations); explicit reads
   (off, len, bytes returned, error class).  Error class: 0 nil / 1 io.EOF / 2 any other error. *)
Definition code_of (e : rerr) : N := match e with ENil => 0 | EEOF => 1 | EOther => 2 end.
Definition case_mr := (list (list N) * list (N * list N * list (N * N)) * list (N * N * list N * N))%type.

Definition read_ok (segs : list (list N)) (r : N * N * list N * N) : bool :=
  let '(off, len, bs, code) := r in
  let '(mb, me) := read_at_multi segs (Z.of_N off) (Z.of_N len) in
  list_eqb mb bs && N.eqb (code_of me) code.

Fixpoint row_from (segs : list (list N)) (off : N) (longest : list N) (len : N) (res : list (N * N)) : bool :=
  match res with
  | [] => true
  | (n, code) :: t =>
    let '(mb, me) := read_at_multi segs (Z.of_N off) (Z.of_N len) in
    list_eqb mb (firstn (N.to_nat n) longest) && N.eqb (N.of_nat (length mb)) n && N.eqb (code_of me) code
    && row_from segs off longest (N.succ len) t
  end.
Definition row_ok (segs : list (list N)) (row : N * list N * list (N * N)) : bool :=
  let '(off, longest, res) := row in row_from segs off longest 0 res.

Definition case_mr_ok (c : case_mr) : bool :=
  let '(segs, rows, reads) := c in forallb (row_ok segs) rows && forallb (read_ok segs) reads.
Definition check_mr (cs : list case_mr) : list nat := bad_from case_mr_ok 0 cs.

(* ---- (b) split-car ---- *)
(* objects of the CAR in file order as (kind, section length); object number j (from 1) is given the
   section [j; j; ...; j] so that the model's contents can be compared run by run.  Observation per piece:
   recorded HeaderSize, recorded ContentSize, and the bytes the section reader exposes
   (file[HeaderSize .. HeaderSize+ContentSize)) as runs (object number, length). *)
Definition case_split :=
  (N * list N * N * N * N * list (N * N) * option (list (N * N * list (N * N))))%type.

Fixpoint mk_objs (j : nat) (l : list (N * N)) : list (obj N) :=
  match l with
  | [] => []
  | (k, len) :: r => {| okind := k; osec := repeat (N.of_nat j) (N.to_nat len) |} :: mk_objs (S j) r
  end.

Definition expand_runs (runs : list (N * N)) : list N :=
  concat (map (fun r => repeat (fst r) (N.to_nat (snd r))) runs).

Definition piece_matches (c : cfg) (p : piece N) (o : N * N * list (N * N)) : bool :=
  let '(hs, cs, runs) := o in
  N.eqb hs (hdr c) && N.eqb cs (content_size c p) && list_eqb (dag_content p) (expand_runs runs).

Fixpoint all2 {X Y} (f : X -> Y -> bool) (a : list X) (b : list Y) : bool :=
  match a, b with
  | [], [] => true
  | x :: a', y :: b' => f x y && all2 f a' b'
  | _, _ => false
  end.

Definition case_split_ok (cs : case_split) : bool :=
  let '(fk, ign, h, tgt, ml, objs, obs) := cs in
  let c := {| flush_kind := fk; ignore_kinds := ign; hdr := h; target := tgt; max_links := N.to_nat ml |} in
  match split c (mk_objs 1 objs), obs with
  | Some ps, Some ops => all2 (piece_matches c) ps ops
  | None, None => true
  | _, _ => false
  end.
Definition check_split (cs : list case_split) : list nat := bad_from case_split_ok 0 cs.
