(* C04 — searchEytzinger of the two LEGACY index packages the server still reads
     deprecated/compactindex36/query.go   (values are [36]byte; `Empty` = 36 zero bytes on not-found / error)
     deprecated/compactindex/query.go     (values are uint64; 0 on not-found / error)
   translated from the Go source on every check (Generated/GoLiteL36C04.v, Generated/GoLiteL8C04.v), is the model's
   search_get (CI.v) for every entry oracle, read errors included — the function lookup_legacy36 / lookup_legacy8
   (C04_Formats.v, through C04_Model.lookup_at) run on the entries of a bucket.

   Both functions differ from compactindexsized's searchEytzinger in the same two places: there is no
   `index < min` exit (the parameter `min` is ignored), and what is returned beside an error is the zero value of
   the result type instead of nil.  They differ from each other only in that zero value and in the type of
   Entry.Value.  The proof is therefore done ONCE, in a Section over
     zero_e : the expression returned beside an error,   zero_v : its value,
     vval   : how the value bytes of a model entry appear in the Go Entry's Value field,
   and instantiated twice.  Each instance is stated for ANY translated program that binds "searchEytzinger" to the
   generated term of that package. *)
From Coq Require Import List ZArith NArith String Bool Lia.
Import ListNotations.
Require Import YF.GoLite YF.GoLiteLemmas YF.CI YF.Codec YF.ReadAt YF.GoLiteC04_Proofs.
Require YF.Generated.GoLiteL36C04 YF.Generated.GoLiteL8C04 YF.GoLiteC04_Search YF.C04_Model YF.C04_Formats.
Local Open Scope string_scope.
Local Open Scope Z_scope.

(* ------------------------------------------------------------------ the common shape of the two functions *)
Definition legacy_body (zero_e : expr) : stmt :=
  SSeq (SCallExt [LVar "k"; LVar "err"] "getter" [EVar "index"])
  (SSeq (SIf (ENot (EIsNil (EVar "err"))) (SReturn [zero_e; EVar "err"]) SSkip)
  (SSeq (SIf (ECmp CEq (EField (EVar "k") "Hash") (EVar "x")) (SReturn [EField (EVar "k") "Value"; ENil]) SSkip)
  (SSeq (SAssign (LVar "index") (EBin OOr I64 (EShl I64 (EVar "index") (EInt 1)) (EInt 1)))
        (SIf (ECmp CLt (EField (EVar "k") "Hash") (EVar "x"))
             (SAssign (LVar "index") (EBin OAdd I64 (EVar "index") (EInt 1))) SSkip)))).
Definition legacy_loop (zero_e : expr) : stmt :=
  SFor (ECmp CLt (EVar "index") (EVar "max")) SSkip (legacy_body zero_e).
Definition legacy_fn (zero_e : expr) : fdecl :=
  {| f_params := ["min"; "max"; "x"];
     f_body := SSeq (SAssign (LVar "index") (EInt 0))
               (SSeq (legacy_loop zero_e) (SReturn [zero_e; EErr "ErrNotFound"])) |}.

(* what the translator produced today IS that shape (re-checked against the source on every run) *)
Lemma legacy36_fn_shape : GoLiteL36C04.fn_searchEytzinger = legacy_fn (EBuiltin "make" [EInt 36]).
Proof. reflexivity. Qed.
Lemma legacy8_fn_shape : GoLiteL8C04.fn_searchEytzinger = legacy_fn (EInt 0).
Proof. reflexivity. Qed.

(* ------------------------------------------------------------------ the proof, once *)
Section Generic.
Variable prog : program.
Variable zero_e : expr.
Variable zero_v : val.
Variable vval : list N -> val.
Hypothesis zero_eval : forall e, eval e zero_e = EV zero_v.
Hypothesis prog_searchEytzinger : plookup "searchEytzinger" prog = Some (legacy_fn zero_e).

Section Search.
  Variable get : nat -> option entry.           (* CI.entry = (hash, value bytes); None = the read failed *)
  Definition entry_valL (e : entry) : val := VStruct [("Hash", VInt (Z.of_N (fst e))); ("Value", vval (snd e))].
  (* the getter: a successful read gives (Entry, nil), a failed one (Entry{}, err) as Bucket.loadEntry does *)
  Definition ext_getL : string -> list val -> option val := fun f args =>
    match f, args with
    | "getter", [VInt i] =>
        match get (Z.to_nat i) with
        | Some e => Some (VTuple [entry_valL e; VNil])
        | None => Some (VTuple [VStruct [("Hash", VInt 0); ("Value", zero_v)]; VErr "read"])
        end
    | _, _ => None
    end.
  Definition encL (r : CI.res) : GoLite.res :=
    match r with
    | Found v => RRet (VTuple [vval v; VNil])
    | NotFound => RRet (VTuple [zero_v; VErr "ErrNotFound"])
    | ReadErr => RRet (VTuple [zero_v; VErr "read"])
    end.

  Definition env6 (mn : Z) (n : nat) (x : N) (idx : nat) (kv ev : val) : env :=
    [("min", VInt mn); ("max", VInt (Z.of_nat n)); ("x", VInt (Z.of_N x)); ("index", VInt (Z.of_nat idx)); ("k", kv); ("err", ev)].
  Definition env4 (mn : Z) (n : nat) (x : N) (idx : nat) : env :=
    [("min", VInt mn); ("max", VInt (Z.of_nat n)); ("x", VInt (Z.of_N x)); ("index", VInt (Z.of_nat idx))].

  (* result of the loop: a return carrying the model's answer, or (not found) a normal exit *)
  Definition loop_res (r : CI.res) (out : GoLite.res) : Prop :=
    match r with
    | NotFound => exists e', out = RNorm e'
    | _ => out = encL r
    end.

  Lemma next_index idx : Z.of_nat idx < 4611686018427387904 ->
    wrap I64 (Z.lor (wrap I64 (Z.of_nat idx * 2 ^ 1)) 1) = Z.of_nat (2 * idx + 1).
  Proof.
    intros Hb. change (2 ^ 1) with 2.
    rewrite (wrap_i64_small (Z.of_nat idx * 2)) by lia.
    replace (Z.of_nat idx * 2) with (2 * Z.of_nat idx) by lia.
    rewrite GoLiteC04_Search.lor_double_1. rewrite wrap_i64_small by lia. lia.
  Qed.

  (* one iteration from either environment shape leads to the six-variable shape *)
  Definition iter_res (mn : Z) (n : nat) (x : N) (idx : nat) : GoLite.res :=
    match get idx with
    | None => encL ReadErr
    | Some e =>
        if N.eqb (fst e) x then encL (Found (snd e))
        else RNorm (env6 mn n x (if N.ltb (fst e) x then 2 * idx + 2 else 2 * idx + 1) (entry_valL e) VNil)
    end.

  Lemma se_iter f mn n x idx (e0 : env) :
    (e0 = env4 mn n x idx \/ exists kv ev, e0 = env6 mn n x idx kv ev) ->
    Z.of_nat n < 4611686018427387904 -> (idx < n)%nat ->
    exec prog ext_getL f (legacy_body zero_e) e0 = iter_res mn n x idx.
  Proof.
    intros Hshape Hn Hidx.
    assert (Hi : Z.of_nat idx < 4611686018427387904) by lia.
    assert (Hnat : Z.to_nat (Z.of_nat idx) = idx) by apply Nat2Z.id.
    unfold iter_res.
    destruct Hshape as [->|[kv [ev ->]]]; unfold legacy_body, env4, env6;
      (go_run; unfold ext_getL at 1; go_cbn; rewrite Hnat;
       destruct (get idx) as [[h v]|]; [|go_run; rewrite zero_eval; go_run; reflexivity];
       unfold entry_valL; go_run; cbn [fst snd]; rewrite of_N_eqb;
       destruct (N.eqb h x); [reflexivity|];
       go_run; rewrite (next_index idx Hi); rewrite of_N_ltb;
       destruct (N.ltb h x); go_run;
       [ rewrite wrap_i64_small by lia;
         replace (Z.of_nat (2 * idx + 1) + 1) with (Z.of_nat (2 * idx + 2)) by lia; reflexivity
       | reflexivity ]).
  Qed.

  Lemma se_loop_spec f : forall mn n x idx e0,
    (e0 = env4 mn n x idx \/ exists kv ev, e0 = env6 mn n x idx kv ev) ->
    Z.of_nat n < 4611686018427387904 -> (n - idx < f)%nat ->
    loop_res (search_get f get n x idx) (exec prog ext_getL f (legacy_loop zero_e) e0).
  Proof.
    induction f as [|f IH]; intros mn n x idx e0 Hshape Hn Hf; [lia|].
    unfold legacy_loop. rewrite exec_for_S. fold (legacy_loop zero_e). cbn [search_get].
    assert (Hc : eval e0 (ECmp CLt (EVar "index") (EVar "max")) = EV (VBool (Z.of_nat idx <? Z.of_nat n))).
    { destruct Hshape as [->|[kv [ev ->]]]; reflexivity. }
    rewrite Hc. cbn [of_eres]. rewrite of_nat_ltb.
    destruct (Nat.ltb idx n) eqn:Hlt.
    - apply Nat.ltb_lt in Hlt.
      rewrite (se_iter (S f) mn n x idx e0 Hshape Hn Hlt). unfold iter_res.
      destruct (get idx) as [e|]; [|reflexivity].
      destruct (N.eqb (fst e) x) eqn:Heq; [reflexivity|].
      rewrite exec_skip.
      apply (IH mn); [right; eexists; eexists; reflexivity|exact Hn|].
      destruct (N.ltb (fst e) x); lia.
    - eexists. reflexivity.
  Qed.

  (* the legacy searchEytzinger (whatever `min` is: it is ignored) IS the model's search, for every entry oracle *)
  Theorem legacy_search_is_search_get f mn n x :
    Z.of_nat n < 4611686018427387904 -> (n < f)%nat ->
    call prog ext_getL f "searchEytzinger" [VInt mn; VInt (Z.of_nat n); VInt (Z.of_N x)] = encL (search_get f get n x 0).
  Proof.
    intros Hn Hf. unfold call. rewrite prog_searchEytzinger. unfold legacy_fn.
    cbn [f_params f_body bind_params]. go_run.
    pose proof (se_loop_spec f mn n x 0 (env4 mn n x 0) (or_introl eq_refl) Hn ltac:(lia)) as H.
    unfold env4 in H. change (Z.of_nat 0) with 0 in H.
    destruct (search_get f get n x 0) eqn:Hs; cbn [loop_res] in H.
    - rewrite H. reflexivity.
    - destruct H as [e' ->]. go_run. rewrite zero_eval. go_run. reflexivity.
    - rewrite H. reflexivity.
  Qed.
End Search.
End Generic.

(* a hit of the model's search returns the value bytes of one of the entries the oracle delivered *)
Lemma search_get_found f : forall get n x i v, search_get f get n x i = Found v ->
  exists j e, get j = Some e /\ snd e = v.
Proof.
  induction f as [|f IH]; intros get n x i v H; cbn [search_get] in H; [discriminate|].
  destruct (Nat.ltb i n); [|discriminate].
  destruct (get i) as [e|] eqn:Hg; [|discriminate].
  destruct (N.eqb (fst e) x).
  - injection H as <-. exists i, e. split; [exact Hg|reflexivity].
  - exact (IH _ _ _ _ _ H).
Qed.

(* ================================================================== deprecated/compactindex36 *)
(* Entry.Value is a [36]byte filled by  copy(e.Value[:], bytes)  (unmarshalEntry): the value bytes cut / zero-padded
   to 36 — [C04_Model.fit 36]; entries of a 36-byte-value file hold exactly 36 bytes and fit is the identity. *)
Definition vval36 (v : list N) : val := VInts (zs (C04_Model.fit 36 v)).
Definition empty36 : val := VInts (repeat 0 36).                       (* var Empty [36]byte *)
Definition entry_val36 (e : entry) : val := VStruct [("Hash", VInt (Z.of_N (fst e))); ("Value", vval36 (snd e))].
Definition ext_get36 (get : nat -> option entry) : string -> list val -> option val := fun f args =>
  match f, args with
  | "getter", [VInt i] =>
      match get (Z.to_nat i) with
      | Some e => Some (VTuple [entry_val36 e; VNil])
      | None => Some (VTuple [VStruct [("Hash", VInt 0); ("Value", empty36)]; VErr "read"])
      end
  | _, _ => None
  end.
Definition enc36 (r : CI.res) : GoLite.res :=
  match r with
  | Found v => RRet (VTuple [vval36 v; VNil])
  | NotFound => RRet (VTuple [empty36; VErr "ErrNotFound"])
  | ReadErr => RRet (VTuple [empty36; VErr "read"])
  end.
(* the same with the value bytes as they are (for oracles that deliver 36-byte values) *)
Definition enc36_bytes (r : CI.res) : GoLite.res :=
  match r with
  | Found v => RRet (VTuple [VInts (zs v); VNil])
  | NotFound => RRet (VTuple [empty36; VErr "ErrNotFound"])
  | ReadErr => RRet (VTuple [empty36; VErr "read"])
  end.

Lemma empty36_eval e : eval e (EBuiltin "make" [EInt 36]) = EV empty36.
Proof. reflexivity. Qed.

(* the entries lookup_legacy36 reads (C04_Model.load_entry8 with 36 value bytes) carry exactly 36 value bytes *)
Lemma load_entry8_36_length file off i e : C04_Model.load_entry8 36 file off i = Some e -> List.length (snd e) = 36%nat.
Proof.
  unfold C04_Model.load_entry8. change (C04_Model.stride8 36) with 39%nat. change (C04_Model.u8 36) with 36%nat.
  destruct (read_at file (off + i * 39) 39) as [bs|] eqn:E; [|discriminate].
  destruct (Nat.ltb 39 3); [discriminate|]. intros H.
  assert (Hs : snd e = firstn 36 (skipn 3 bs)) by (injection H as <-; reflexivity). rewrite Hs.
  apply read_at_length in E. rewrite firstn_length, skipn_length. lia.
Qed.

Section Legacy36.
Variable prog : program.
Hypothesis prog_searchEytzinger : plookup "searchEytzinger" prog = Some GoLiteL36C04.fn_searchEytzinger.

(* for EVERY entry oracle (None = the read failed), every `min`, every bucket size below 2^62, every target *)
Theorem searchEytzinger36_is_search_get (get : nat -> option entry) f mn n x :
  Z.of_nat n < 4611686018427387904 -> (n < f)%nat ->
  call prog (ext_get36 get) f "searchEytzinger" [VInt mn; VInt (Z.of_nat n); VInt (Z.of_N x)]
  = enc36 (search_get f get n x 0).
Proof.
  exact (legacy_search_is_search_get prog (EBuiltin "make" [EInt 36]) empty36 vval36 empty36_eval
           prog_searchEytzinger get f mn n x).
Qed.

(* exactly the search lookup_legacy36 runs (C04_Model.lookup_at 36: fuel S n, entries read from the file at the
   bucket's offset, min = 0): a hit returns the 36 value bytes of the entry as they are in the file *)
Theorem searchEytzinger36_on_file file off n x : Z.of_nat n < 4611686018427387904 ->
  call prog (ext_get36 (C04_Model.load_entry8 36 file off)) (S n) "searchEytzinger"
    [VInt 0; VInt (Z.of_nat n); VInt (Z.of_N x)]
  = enc36_bytes (search_get (S n) (C04_Model.load_entry8 36 file off) n x 0).
Proof.
  intros Hn. rewrite searchEytzinger36_is_search_get by (try exact Hn; lia).
  destruct (search_get (S n) (C04_Model.load_entry8 36 file off) n x 0) as [v| |] eqn:Hs; try reflexivity.
  destruct (search_get_found _ _ _ _ _ _ Hs) as [j [e [Hg <-]]].
  unfold enc36, enc36_bytes, vval36. rewrite C04_Model.fit_id by exact (load_entry8_36_length _ _ _ _ Hg). reflexivity.
Qed.

(* ... so what the model's reader returns for a key (lookup_at 36 32 nb = lookup_legacy36 after Open) IS what the
   translated search returns, run with the arguments Bucket.Lookup passes it: on the bucket whose header the reader
   located (d = hash domain, n = entry count, off = offset of the entries), the target h24 hash d key. *)
Theorem lookup_at36_is_translated_search hash bucket_of nb file k bh d n hl off :
  read_at file (32 + 16 * bucket_of nb k) 16 = Some bh -> parse_bucket_hdr bh = (d, n, hl, off) ->
  Z.of_nat n < 4611686018427387904 ->
  call prog (ext_get36 (C04_Model.load_entry8 36 file off)) (S n) "searchEytzinger"
    [VInt 0; VInt (Z.of_nat n); VInt (Z.of_N (h24 hash (N.of_nat d) k))]
  = enc36_bytes (C04_Model.lookup_at hash bucket_of 36 32 nb file k).
Proof.
  intros Hr Hp Hn. unfold C04_Model.lookup_at. rewrite Hr, Hp. apply searchEytzinger36_on_file. exact Hn.
Qed.
End Legacy36.

(* ================================================================== deprecated/compactindex (uint64 values) *)
(* Entry.Value is  uintLe(value bytes)  (unmarshalEntry) = Codec.le_dec of them; lookup_legacy8 turns a hit
   [Found bs] of the search into [Found8 (le_dec bs)] in the same way: [res8_of]. *)
Definition res8_of (r : CI.res) : C04_Formats.res8 :=
  match r with
  | Found bs => C04_Formats.Found8 (le_dec bs)
  | NotFound => C04_Formats.NotFound8
  | ReadErr => C04_Formats.ReadErr8
  end.

Lemma lookup_legacy8_res8_of hash bucket_of file k :
  C04_Formats.lookup_legacy8 hash bucket_of file k =
  match C04_Formats.open_legacy file with
  | None => C04_Formats.ReadErr8
  | Some (fs, nb) =>
      if Nat.eqb nb 0 then C04_Formats.ReadErr8
      else res8_of (C04_Model.lookup_at hash bucket_of (C04_Formats.int_width fs) 32 nb file k)
  end.
Proof. reflexivity. Qed.

Definition vval8 (v : list N) : val := VInt (Z.of_N (le_dec v)).
Definition entry_val8 (e : entry) : val := VStruct [("Hash", VInt (Z.of_N (fst e))); ("Value", vval8 (snd e))].
Definition ext_get8 (get : nat -> option entry) : string -> list val -> option val := fun f args =>
  match f, args with
  | "getter", [VInt i] =>
      match get (Z.to_nat i) with
      | Some e => Some (VTuple [entry_val8 e; VNil])
      | None => Some (VTuple [VStruct [("Hash", VInt 0); ("Value", VInt 0)]; VErr "read"])
      end
  | _, _ => None
  end.
Definition enc_res8 (r : C04_Formats.res8) : GoLite.res :=
  match r with
  | C04_Formats.Found8 v => RRet (VTuple [VInt (Z.of_N v); VNil])
  | C04_Formats.NotFound8 => RRet (VTuple [VInt 0; VErr "ErrNotFound"])
  | C04_Formats.ReadErr8 => RRet (VTuple [VInt 0; VErr "read"])
  end.
Definition enc8 (r : CI.res) : GoLite.res := enc_res8 (res8_of r).

Lemma zero8_eval e : eval e (EInt 0) = EV (VInt 0).
Proof. reflexivity. Qed.

Section Legacy8.
Variable prog : program.
Hypothesis prog_searchEytzinger : plookup "searchEytzinger" prog = Some GoLiteL8C04.fn_searchEytzinger.

(* for EVERY entry oracle (None = the read failed), every `min`, every bucket size below 2^62, every target *)
Theorem searchEytzinger8_is_search_get (get : nat -> option entry) f mn n x :
  Z.of_nat n < 4611686018427387904 -> (n < f)%nat ->
  call prog (ext_get8 get) f "searchEytzinger" [VInt mn; VInt (Z.of_nat n); VInt (Z.of_N x)]
  = enc8 (search_get f get n x 0).
Proof.
  intros Hn Hf.
  etransitivity;
    [exact (legacy_search_is_search_get prog (EInt 0) (VInt 0) vval8 zero8_eval prog_searchEytzinger get f mn n x Hn Hf)|].
  destruct (search_get f get n x 0); reflexivity.
Qed.

(* exactly the search lookup_legacy8 runs (C04_Model.lookup_at (int_width FileSize): fuel S n, entries read from
   the file at the bucket's offset, min = 0), with the uint64 result lookup_legacy8 makes of it *)
Theorem searchEytzinger8_on_file w file off n x : Z.of_nat n < 4611686018427387904 ->
  call prog (ext_get8 (C04_Model.load_entry8 w file off)) (S n) "searchEytzinger"
    [VInt 0; VInt (Z.of_nat n); VInt (Z.of_N x)]
  = enc_res8 (res8_of (search_get (S n) (C04_Model.load_entry8 w file off) n x 0)).
Proof. intros Hn. apply searchEytzinger8_is_search_get; [exact Hn|lia]. Qed.

(* ... so what lookup_legacy8 makes of the model's reader (res8_of (lookup_at (int_width FileSize) 32 nb ...), see
   lookup_legacy8_res8_of) IS what the translated search returns, run with the arguments Bucket.Lookup passes it *)
Theorem lookup_at8_is_translated_search hash bucket_of w nb file k bh d n hl off :
  read_at file (32 + 16 * bucket_of nb k) 16 = Some bh -> parse_bucket_hdr bh = (d, n, hl, off) ->
  Z.of_nat n < 4611686018427387904 ->
  call prog (ext_get8 (C04_Model.load_entry8 w file off)) (S n) "searchEytzinger"
    [VInt 0; VInt (Z.of_nat n); VInt (Z.of_N (h24 hash (N.of_nat d) k))]
  = enc_res8 (res8_of (C04_Model.lookup_at hash bucket_of w 32 nb file k)).
Proof.
  intros Hr Hp Hn. unfold C04_Model.lookup_at. rewrite Hr, Hp. apply searchEytzinger8_on_file. exact Hn.
Qed.
End Legacy8.
