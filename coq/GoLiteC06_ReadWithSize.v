(* C06 — LinkedLog.ReadWithSize (gsfa/linkedlog/linked-log.go): the record reader of the address index's linked log — the
   function every getSignaturesForAddress walks the chain with, and the one whose length-prefix handling was repaired on
   the pinned tree — translated from the Go source on every check (Generated/GoLiteLLC06.v) and proved equal to the
   model's read_with_size (C06_LinkedLog.v — the reader the C06 theorems are about) for EVERY file, offset and size:
   the size limit, the bounds check against the file, the record's own uvarint prefix, the 9-byte pointer to the
   previous record, decompression and the entry decoder. *)
From Coq Require Import List ZArith NArith String Bool Lia.
Import ListNotations.
Require Import YF.GoLite YF.GoLiteLemmas YF.Codec YF.ReadAt YF.C06_LinkedLog YF.GoLiteC06_Codec YF.GoLiteC06_Decode.
Require Import YF.Generated.GoLiteLLC06.
Require YF.Generated.GoLiteC06.
Local Open Scope string_scope.
Local Open Scope Z_scope.
Local Open Scope list_scope.

Lemma same_terms :
  GoLiteLLC06.fn_uvarintReader_ReadUvarint = GoLiteC06.fn_uvarintReader_ReadUvarint /\
  GoLiteLLC06.fn_uvarintReader_ReadByte = GoLiteC06.fn_uvarintReader_ReadByte /\
  GoLiteLLC06.fn_OffsetAndSizeAndSlot_FromReader = GoLiteC06.fn_OffsetAndSizeAndSlot_FromReader /\
  GoLiteLLC06.fn_OffsetAndSizeAndSlotSliceFromBytes = GoLiteC06.fn_OffsetAndSizeAndSlotSliceFromBytes.
Proof. repeat split; reflexivity. Qed.

(* ------------------------------------------------------------------ the model's decoder does not depend on surplus fuel *)
Lemma rd_uv_shorter bs v r : rd_uv bs = Some (Some (v, r)) -> (List.length r < List.length bs)%nat.
Proof.
  unfold rd_uv. destruct bs as [|b t]; [discriminate|].
  destruct (uvarint_dec (b :: t)) as [[v' n]|] eqn:Hd; [|discriminate].
  intros H. injection H as _ <-. unfold uvarint_dec in Hd.
  pose proof (uv_dec_bounds _ _ _ _ _ _ Hd) as [H1 H2]. rewrite skipn_length. cbn [List.length] in *. lia.
Qed.

Lemma entries_dec_fuel : forall f bs, (List.length bs <= f)%nat -> entries_dec f bs = entries_dec (S f) bs.
Proof.
  induction f as [|f IH]; intros bs Hl.
  - destruct bs; [reflexivity|cbn in Hl; lia].
  - cbn [entries_dec].
    destruct (rd_uv bs) as [[[o b1]|]|] eqn:H1; try reflexivity.
    destruct (rd_uv b1) as [[[s b2]|]|] eqn:H2; try reflexivity.
    destruct (rd_uv b2) as [[[sl b3]|]|] eqn:H3; try reflexivity.
    destruct b3 as [|fl rest] eqn:Hb3; [reflexivity|].
    apply rd_uv_shorter in H1. apply rd_uv_shorter in H2. apply rd_uv_shorter in H3.
    rewrite (IH rest) by (cbn [List.length] in H3; lia).
    reflexivity.
Qed.

Lemma entries_dec_any_fuel f bs : (List.length bs <= f)%nat -> entries_dec f bs = entries_dec (List.length bs) bs.
Proof.
  intros H. induction H as [|m Hm IH]; [reflexivity|].
  rewrite <- IH. symmetry. apply entries_dec_fuel. exact Hm.
Qed.

(* ------------------------------------------------------------------ ReadWithSize *)
Section RWS.
Variable decompress : list N -> option (list N).             (* tooling.DecompressZstd *)
Variable maxraw : nat.
Hypothesis decompress_ok : forall d raw, decompress d = Some raw ->
  Forall (fun b => (b < 256)%N) raw /\ (List.length raw <= maxraw)%nat.
Hypothesis maxraw_small : Z.of_nat maxraw < 4611686018427387904.
Variable file : list N.                                       (* the linked-log file *)
Hypothesis file_small : Z.of_nat (List.length file) < 4611686018427387904.

Definition os_val (p : ptr) : val := VStruct [("Offset", VInt (Z.of_N (fst p))); ("Size", VInt (Z.of_N (snd p)))].

Definition ext_ll : string -> list val -> option val := fun f args =>
  match f, args with
  | "LinkedLog.getCurrentOffset", [] => Some (VTuple [VInt (Z.of_nat (List.length file)); VNil])
  | "os.File.ReadAt", [VInts buf; VInt off] =>
      let bs := firstn (List.length buf) (skipn (Z.to_nat off) file) in
      Some (VTuple [VInt (Z.of_nat (List.length bs));
                    (if (List.length bs =? List.length buf)%nat then VNil else VErr "io.EOF");
                    VInts (blit buf O (zs bs))])
  | "github.com/rpcpool/yellowstone-faithful/indexes.OffsetAndSize.FromBytes", [recv; VInts b] =>
      if (List.length b =? 9)%nat then Some (VTuple [VNil; os_val (ptr_dec (ns b))])
      else Some (VTuple [VErr "errors.New"; recv])
  | "tooling.DecompressZstd", [VInts d] =>
      match decompress (ns d) with
      | Some raw => Some (VTuple [VInts (zs raw); VNil])
      | None => Some (VTuple [VInts []; VErr "zstd"])
      end
  | _, _ => std_ext f args
  end.

Definition prog := GoLiteLLC06.prog.

Definition is_fail3 (r : res) : Prop := exists e, r = RRet (VTuple [VInts []; os_val ptr_zero; VErr e]).

(* decompressIndexes: decompression, then the entry decoder *)
Lemma decompressIndexes_body fuel (d : list N) : (maxraw + 4 <= fuel)%nat ->
  exec prog ext_ll fuel (f_body fn_decompressIndexes) [("data", VInts (zs d))] =
  match decompress d with
  | None => RRet (VTuple [VInts []; VErr "%w zstd"])
  | Some raw =>
      match entries_dec (List.length raw) raw with
      | Some es => RRet (VTuple [VTuple (map oas_val es); VNil])
      | None => RRet (VTuple [VInts []; VErr "%w %w errors.New"])
      end
  end.
Proof.
  intros Hf. destruct fuel as [|fuel]; [lia|].
  unfold fn_decompressIndexes. cbn [f_body]. go_run.
  change (ext_ll "tooling.DecompressZstd" [VInts (zs d)])
    with (match decompress (ns (zs d)) with
          | Some raw => Some (VTuple [VInts (zs raw); VNil])
          | None => Some (VTuple [VInts []; VErr "zstd"]) end).
  rewrite ns_zs.
  destruct (decompress d) as [raw|] eqn:Hd; [|go_run; reflexivity].
  destruct (decompress_ok _ _ Hd) as [Hby Hlr].
  go_run. rewrite exec_call_S. go_cbn.
  change (plookup "OffsetAndSizeAndSlotSliceFromBytes" prog) with (Some fn_OffsetAndSizeAndSlotSliceFromBytes).
  cbn [bind_params f_params fn_OffsetAndSizeAndSlotSliceFromBytes]. cbv beta iota.
  pose proof (SliceFromBytes_is_entries_dec prog eq_refl eq_refl eq_refl eq_refl ext_ll (fun _ => eq_refl)
                raw ltac:(lia) Hby fuel (S (List.length raw)) ltac:(lia) ltac:(lia)) as HS.
  rewrite <- (entries_dec_fuel (List.length raw) raw (le_n _)) in HS.
  unfold call in HS. change (plookup "OffsetAndSizeAndSlotSliceFromBytes" prog) with (Some fn_OffsetAndSizeAndSlotSliceFromBytes) in HS.
  cbn [bind_params f_params fn_OffsetAndSizeAndSlotSliceFromBytes] in HS.
  change GoLiteC06_Codec.zs with zs in HS.
  destruct (exec prog ext_ll fuel (f_body fn_OffsetAndSizeAndSlotSliceFromBytes) [("buf", VInts (zs raw))]) eqn:Hx;
    destruct (entries_dec (List.length raw) raw) as [es|]; try discriminate HS; injection HS as ->; go_run; reflexivity.
Qed.

Definition fail3 (e : string) : res := RRet (VTuple [VInts []; os_val ptr_zero; VErr e]).

(* what the translated function returns, case by case *)
Definition rws_res (off size : N) : res :=
  if (268435456 <? size)%N then fail3 "fmt.Errorf" else
  match read_at file (N.to_nat off) (N.to_nat size) with
  | None => fail3 "fmt.Errorf"
  | Some rec =>
    match uvarint_dec rec with
    | None => fail3 "fmt.Errorf"
    | Some (p, n) =>
      if ((p =? size - N.of_nat n)%N && (9 <=? p)%N)%bool then
        let body := skipn n rec in
        let zl := (List.length body - 9)%nat in
        match decompress (firstn zl body) with
        | None => fail3 "%w %w zstd"
        | Some raw =>
          match entries_dec (List.length raw) raw with
          | None => fail3 "%w %w %w errors.New"
          | Some es => RRet (VTuple [VTuple (map oas_val es); os_val (ptr_dec (skipn zl body)); VNil])
          end
        end
      else fail3 "fmt.Errorf"
    end
  end.

Lemma rws_run fuel sv (off size : N) :
  (off < 18446744073709551616)%N -> (size < 18446744073709551616)%N -> (maxraw + 5 <= fuel)%nat ->
  call prog ext_ll fuel "LinkedLog.ReadWithSize" [sv; VInt (Z.of_N off); VInt (Z.of_N size)] = rws_res off size.
Proof.
  intros Hoff Hsize Hfuel. destruct fuel as [|fuel]; [lia|].
  unfold rws_res, fail3.
  unfold call. change (plookup "LinkedLog.ReadWithSize" prog) with (Some fn_LinkedLog_ReadWithSize).
  unfold fn_LinkedLog_ReadWithSize. cbn [f_params f_body bind_params]. go_run.
  change 268435456 with (Z.of_N 268435456). rewrite of_N_ltb.
  destruct (N.ltb_spec 268435456 size) as [Hbig|Hsm]; [go_run; reflexivity|].
  go_run.
  change (ext_ll "LinkedLog.getCurrentOffset" []) with (Some (VTuple [VInt (Z.of_nat (List.length file)); VNil])).
  go_run.
  set (L := List.length file) in *.
  unfold read_at. fold L.
  destruct (Z.ltb_spec (Z.of_nat L) (Z.of_N off)) as [Hout|Hin].
  { go_run. destruct (Nat.leb_spec (N.to_nat off + N.to_nat size) L) as [Hc|_]; [lia|]. reflexivity. }
  rewrite (wrap_u64_small (Z.of_nat L - Z.of_N off)) by lia.
  destruct (Z.ltb_spec (Z.of_nat L - Z.of_N off) (Z.of_N size)) as [Hout|Hfit].
  { go_run. destruct (Nat.leb_spec (N.to_nat off + N.to_nat size) L) as [Hc|_]; [lia|]. reflexivity. }
  destruct (Nat.leb_spec (N.to_nat off + N.to_nat size) L) as [_|Hc]; [|lia].
  go_run.
  destruct (Z.ltb_spec (Z.of_N size) 0) as [Hc|_]; [lia|]. go_run.
  rewrite (wrap_i64_small (Z.of_N off)) by lia.
  unfold ext_ll at 1. rewrite repeat_length.
  replace (Z.to_nat (Z.of_N size)) with (N.to_nat size) by lia.
  replace (Z.to_nat (Z.of_N off)) with (N.to_nat off) by lia.
  set (rec := firstn (N.to_nat size) (skipn (N.to_nat off) file)).
  assert (Hrl : List.length rec = N.to_nat size).
  { unfold rec. rewrite firstn_length, skipn_length. fold L. lia. }
  rewrite Hrl. rewrite Nat.eqb_refl. go_cbn. go_run.
  rewrite (blit_full (repeat 0 (N.to_nat size)) (zs rec))
    by (unfold zs; rewrite map_length, repeat_length; exact Hrl).
  change (ext_ll "binary.Uvarint" [VInts (zs rec)]) with (std_ext "binary.Uvarint" [VInts (zs rec)]).
  unfold std_ext at 1. rewrite ns_zs.
  destruct (uvarint_dec rec) as [[p n]|] eqn:Hd; [|go_run; reflexivity].
  pose proof (uv_dec_bounds _ _ _ _ _ _ Hd) as [Hn1 Hn2]. cbn [Nat.add] in Hn2. rewrite Hrl in Hn2.
  go_run.
  destruct (Z.leb_spec (Z.of_nat n) 0) as [Hc|_]; [lia|]. go_run.
  rewrite (wrap_u64_small (Z.of_nat n)) by lia.
  rewrite (wrap_u64_small (Z.of_N size - Z.of_nat n)) by lia.
  replace (Z.of_N size - Z.of_nat n) with (Z.of_N (size - N.of_nat n)) by lia.
  rewrite of_N_eqb.
  destruct (N.eqb_spec p (size - N.of_nat n)) as [Hp|Hp]; cbn [negb andb]; [|go_run; reflexivity].
  go_run. change 9 with (Z.of_N 9) at 1. rewrite of_N_ltb.
  destruct (N.ltb_spec p 9) as [Hp9|Hp9].
  { go_run. destruct (N.leb_spec 9 p) as [Hc|_]; [lia|]. reflexivity. }
  destruct (N.leb_spec 9 p) as [_|Hc]; [|lia].
  go_run.
  rewrite zlen_zs, Hrl.
  assert (Hb1 : (0 <=? Z.of_nat n) && (Z.of_nat n <=? Z.of_nat (N.to_nat size)) && (Z.of_nat (N.to_nat size) <=? Z.of_nat (N.to_nat size)) = true).
  { rewrite !andb_true_iff. repeat split; apply Z.leb_le; lia. }
  rewrite Hb1. go_cbn.
  set (body := skipn n rec).
  assert (Hbl : List.length body = (N.to_nat size - n)%nat) by (unfold body; rewrite skipn_length, Hrl; reflexivity).
  assert (Hsl1 : slice_z (zs rec) (Z.of_nat n) (Z.of_nat (N.to_nat size)) = zs body).
  { unfold slice_z, body. rewrite Nat2Z.id. rewrite skipn_zs. apply firstn_all2.
    unfold zs. rewrite map_length, skipn_length, Hrl. lia. }
  rewrite Hsl1. go_run. rewrite !zlen_zs, Hbl.
  set (zl := (List.length body - 9)%nat).
  assert (Hzl : Z.of_nat (N.to_nat size - n) - 9 = Z.of_nat zl) by (unfold zl; rewrite Hbl; lia).
  rewrite (wrap_i64_small (Z.of_nat (N.to_nat size - n) - 9)) by lia.
  rewrite Hzl.
  assert (Hb2 : (0 <=? Z.of_nat zl) && (Z.of_nat zl <=? Z.of_nat (N.to_nat size - n)) = true).
  { rewrite !andb_true_iff. repeat split; apply Z.leb_le; lia. }
  rewrite Hb2. go_cbn.
  assert (Hsl2 : slice_z (zs body) 0 (Z.of_nat zl) = zs (firstn zl body)).
  { unfold slice_z. cbn [Z.to_nat skipn]. rewrite Z.sub_0_r, Nat2Z.id. unfold zs. apply firstn_map. }
  rewrite Hsl2. go_run. rewrite !zlen_zs, Hbl.
  rewrite (wrap_i64_small (Z.of_nat (N.to_nat size - n) - 9)) by lia. rewrite Hzl.
  assert (Hb3 : (0 <=? Z.of_nat zl) && (Z.of_nat zl <=? Z.of_nat (N.to_nat size - n)) &&
                (Z.of_nat (N.to_nat size - n) <=? Z.of_nat (N.to_nat size - n)) = true).
  { rewrite !andb_true_iff. repeat split; apply Z.leb_le; lia. }
  rewrite Hb3. go_cbn.
  assert (Hsl3 : slice_z (zs body) (Z.of_nat zl) (Z.of_nat (N.to_nat size - n)) = zs (skipn zl body)).
  { unfold slice_z. rewrite Nat2Z.id. rewrite skipn_zs. apply firstn_all2.
    unfold zs. rewrite map_length, skipn_length, Hbl. lia. }
  rewrite Hsl3.
  assert (Hl9 : List.length (zs (skipn zl body)) = 9%nat).
  { unfold zs. rewrite map_length, skipn_length, Hbl. unfold zl. rewrite Hbl. lia. }
  change (ext_ll "github.com/rpcpool/yellowstone-faithful/indexes.OffsetAndSize.FromBytes"
            [VStruct [("Offset", VInt 0); ("Size", VInt 0)]; VInts (zs (skipn zl body))])
    with (if (List.length (zs (skipn zl body)) =? 9)%nat
          then Some (VTuple [VNil; os_val (ptr_dec (ns (zs (skipn zl body))))])
          else Some (VTuple [VErr "errors.New"; VStruct [("Offset", VInt 0); ("Size", VInt 0)]])).
  rewrite Hl9. cbn [Nat.eqb]. rewrite ns_zs. go_run.
  (* decompression and the entry decoder *)
  rewrite exec_call_S. go_cbn.
  change (plookup "decompressIndexes" prog) with (Some fn_decompressIndexes).
  cbn [bind_params f_params fn_decompressIndexes]. cbv beta iota.
  rewrite (decompressIndexes_body fuel (firstn zl body)) by lia.
  unfold zl. rewrite ?Hbl.
  destruct (decompress (firstn (N.to_nat size - n - 9) body)) as [raw|]; [|go_run; reflexivity].
  destruct (entries_dec (List.length raw) raw) as [es|]; go_run; reflexivity.
Qed.

Theorem ReadWithSize_is_read_with_size fuel sv (off size : N) :
  (off < 18446744073709551616)%N -> (size < 18446744073709551616)%N -> (maxraw + 5 <= fuel)%nat ->
  match read_with_size decompress file off size with
  | Some (es, p) => call prog ext_ll fuel "LinkedLog.ReadWithSize" [sv; VInt (Z.of_N off); VInt (Z.of_N size)]
                    = RRet (VTuple [VTuple (map oas_val es); os_val p; VNil])
  | None => is_fail3 (call prog ext_ll fuel "LinkedLog.ReadWithSize" [sv; VInt (Z.of_N off); VInt (Z.of_N size)])
  end.
Proof.
  intros Hoff Hsize Hfuel. rewrite rws_run by assumption.
  unfold rws_res, read_with_size, max_read, decode_body, fail3, is_fail3.
  destruct (268435456 <? size)%N; [eexists; reflexivity|].
  destruct (read_at file (N.to_nat off) (N.to_nat size)) as [rec|]; [|eexists; reflexivity].
  destruct (uvarint_dec rec) as [[p n]|]; [|eexists; reflexivity].
  destruct ((p =? size - N.of_nat n)%N && (9 <=? p)%N)%bool; [|eexists; reflexivity].
  cbv zeta.
  destruct (decompress (firstn (List.length (skipn n rec) - 9) (skipn n rec))) as [raw|]; [|eexists; reflexivity].
  destruct (entries_dec (List.length raw) raw) as [es|]; [reflexivity|eexists; reflexivity].
Qed.


End RWS.
