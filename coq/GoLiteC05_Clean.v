(* C05 — getCleanSet of bucketteer/write.go (and of deprecated/bucketteer/write.go: the same term), translated from the
   Go source on every check, is the model's [clean] = [dedup] after sorting (C05_Model.v).

   sort.Slice is an oracle of the interpreter ([SCallExt] named "sort.Slice: entries[i] < entries[j]").  Two results:
     - whatever list s the oracle hands back, the loop after it computes [dedup s] (no panic, len s + 1 units of fuel);
     - if s is an ascending (N.le) permutation of the argument — all the comparison function promises — then s is
       [NSort.sort entries] (an ascending permutation is unique), so the function returns [clean entries]. *)
From Coq Require Import List ZArith NArith String Bool Lia Sorting.Sorted Sorting.Permutation.
Import ListNotations.
Require Import YF.GoLite YF.GoLiteLemmas YF.Generated.GoLiteC05 YF.C05_Model YF.C05_Lemmas YF.GoLiteC04_Proofs.
Local Open Scope string_scope.
Local Open Scope Z_scope.
Local Open Scope list_scope.

(* ------------------------------------------------------------------ an ascending permutation is unique *)
Lemma SS_le_perm_unique (l1 : list N) : forall l2,
  StronglySorted N.le l1 -> StronglySorted N.le l2 -> Permutation l1 l2 -> l1 = l2.
Proof.
  induction l1 as [|x t1 IH]; intros l2 H1 H2 Hp.
  - apply Permutation_nil in Hp. now subst.
  - destruct l2 as [|y t2]; [apply Permutation_sym, Permutation_nil in Hp; discriminate|].
    apply StronglySorted_inv in H1. destruct H1 as [H1 F1].
    apply StronglySorted_inv in H2. destruct H2 as [H2 F2].
    rewrite Forall_forall in F1, F2.
    assert (x = y).
    { assert (Hx : In x (y :: t2)) by (eapply Permutation_in; [exact Hp|left; reflexivity]).
      assert (Hy : In y (x :: t1)) by (eapply Permutation_in; [apply Permutation_sym; exact Hp|left; reflexivity]).
      destruct Hx as [->|Hx]; [reflexivity|]. destruct Hy as [->|Hy]; [reflexivity|].
      specialize (F1 y Hy). specialize (F2 x Hx). lia. }
    subst y. f_equal. apply IH; auto. eapply Permutation_cons_inv; exact Hp.
Qed.

Lemma sorted_perm_is_nsort (entries s : list N) :
  Sorted N.le s -> Permutation s entries -> s = NSort.sort entries.
Proof.
  intros Hs Hp. apply SS_le_perm_unique.
  - apply Sorted_StronglySorted; [|exact Hs]. intros a b c. apply N.le_trans.
  - apply nsort_SS.
  - eapply Permutation_trans; [exact Hp|apply NSort.Permuted_sort].
Qed.

(* ------------------------------------------------------------------ the dedup loop, functionally *)
(* what is still to be appended when the loop is at index i *)
Definition rest (s : list N) (i : nat) : list N :=
  match i with
  | O => dedup s
  | S j => dedup_from (nth j s 0%N) (skipn i s)
  end.

Lemma skipn_nth_cons (s : list N) : forall i, (i < List.length s)%nat -> skipn i s = nth i s 0%N :: skipn (S i) s.
Proof.
  induction s as [|a s IH]; intros i Hi; [cbn in Hi; lia|].
  destruct i as [|i]; [reflexivity|]. cbn [List.length] in Hi.
  change (skipn (S i) (a :: s)) with (skipn i s). change (skipn (S (S i)) (a :: s)) with (skipn (S i) s).
  cbn [nth]. apply IH. lia.
Qed.

Lemma rest_step (s : list N) i : (i < List.length s)%nat ->
  rest s i =
  if ((0 <? Z.of_nat i) && (Z.of_N (nth i s 0%N) =? Z.of_N (nth (i - 1) s 0%N)))%bool
  then rest s (S i) else nth i s 0%N :: rest s (S i).
Proof.
  intros Hi. destruct i as [|j].
  - cbn [Z.of_nat Z.ltb Z.compare andb]. unfold rest.
    destruct s as [|a s]; [cbn in Hi; lia|]. reflexivity.
  - replace (0 <? Z.of_nat (S j)) with true by (symmetry; apply Z.ltb_lt; lia). cbn [andb].
    replace (S j - 1)%nat with j by lia. rewrite of_N_eqb.
    unfold rest. rewrite (skipn_nth_cons s (S j) Hi). cbn [dedup_from].
    destruct (N.eqb (nth (S j) s 0%N) (nth j s 0%N)) eqn:E; [|reflexivity].
    apply N.eqb_eq in E. rewrite E. reflexivity.
Qed.

Lemma rest_end (s : list N) i : (List.length s <= i)%nat -> rest s i = [].
Proof.
  intros Hi. destruct i as [|j]; unfold rest.
  - destruct s; [reflexivity|cbn in Hi; lia].
  - rewrite skipn_all2 by exact Hi. reflexivity.
Qed.

Lemma zs_app a b : zs (a ++ b) = zs a ++ zs b.
Proof. apply map_app. Qed.
Lemma zlen_zs l : zlen (zs l) = Z.of_nat (List.length l).
Proof. unfold zlen, zs. rewrite map_length. reflexivity. Qed.
Lemma nth_z_zs l i : nth_z (zs l) (Z.of_nat i) = Z.of_N (nth i l 0%N).
Proof. unfold nth_z, zs. rewrite Nat2Z.id. change 0 with (Z.of_N 0). apply map_nth. Qed.

(* Everything below holds for ANY translated program that binds the name to this function term: bucketteer and
   deprecated/bucketteer. *)
Section Generic.
Variable prog : program.
Hypothesis prog_getCleanSet : plookup "getCleanSet" prog = Some fn_getCleanSet.

Definition sort_name : string := "sort.Slice: entries[i] < entries[j]".

Definition gc_body : stmt :=
  SSeq (SIf (EAndAlso (ECmp CGt (EVar "i") (EInt 0))
                      (ECmp CEq (EIndex (EVar "entries") (EVar "i"))
                                (EIndex (EVar "entries") (EBin OSub I64 (EVar "i") (EInt 1)))))
            SContinue SSkip)
       (SAssign (LVar "out") (EBuiltin "append1" [EVar "out"; EIndex (EVar "entries") (EVar "i")])).
Definition gc_post : stmt := SAssign (LVar "i") (EBin OAdd I64 (EVar "i") (EInt 1)).
Definition gc_loop : stmt := SFor (ECmp CLt (EVar "i") (ELen (EVar "entries"))) gc_post gc_body.

Definition gc_env (s o : list N) (i : nat) : env :=
  [("entries", VInts (zs s)); ("out", VInts (zs o)); ("i", VInt (Z.of_nat i))].

(* loop invariant: at index i with o appended so far, the loop ends normally with o ++ rest s i *)
Lemma gc_loop_spec ext (s : list N) : Z.of_nat (List.length s) < 9223372036854775807 ->
  forall f i o, (i <= List.length s)%nat -> (List.length s - i < f)%nat ->
  exec prog ext f gc_loop (gc_env s o i) = RNorm (gc_env s (o ++ rest s i) (Nat.max i (List.length s))).
Proof.
  intros Hlen. induction f as [|f IH]; intros i o Hi Hf; [lia|].
  unfold gc_loop. rewrite exec_for_S. fold gc_loop.
  unfold gc_env at 1. go_cbn. rewrite zlen_zs. unfold compare. rewrite of_nat_ltb.
  destruct (Nat.ltb_spec i (List.length s)) as [Hlt|Hge]; cbn [of_eres].
  - (* one iteration *)
    rewrite (rest_step s i Hlt).
    unfold gc_body, gc_env. go_run. unfold compare.
    destruct (0 <? Z.of_nat i) eqn:Hpos; go_cbn.
    + (* i > 0: compare with the previous element *)
      apply Z.ltb_lt in Hpos.
      rewrite zlen_zs.
      rewrite (wrap_i64_small (Z.of_nat i - 1)) by lia.
      replace ((0 <=? Z.of_nat i) && (Z.of_nat i <? Z.of_nat (List.length s)))%bool with true
        by (symmetry; apply andb_true_iff; split; [apply Z.leb_le|apply Z.ltb_lt]; lia).
      replace ((0 <=? Z.of_nat i - 1) && (Z.of_nat i - 1 <? Z.of_nat (List.length s)))%bool with true
        by (symmetry; apply andb_true_iff; split; [apply Z.leb_le|apply Z.ltb_lt]; lia).
      go_cbn.
      replace (Z.of_nat i - 1) with (Z.of_nat (i - 1)) by lia.
      rewrite !nth_z_zs. cbn [andb].
      destruct (Z.of_N (nth i s 0%N) =? Z.of_N (nth (i - 1) s 0%N)); go_run.
      * (* duplicate: continue *)
        unfold gc_post. go_run. rewrite (wrap_i64_small (Z.of_nat i + 1)) by lia.
        replace (Z.of_nat i + 1) with (Z.of_nat (S i)) by lia.
        fold (gc_env s o (S i)). rewrite IH by lia.
        replace (Nat.max (S i) (List.length s)) with (Nat.max i (List.length s)) by lia. reflexivity.
      * (* append *)
        rewrite zlen_zs.
        replace ((0 <=? Z.of_nat i) && (Z.of_nat i <? Z.of_nat (List.length s)))%bool with true
          by (symmetry; apply andb_true_iff; split; [apply Z.leb_le|apply Z.ltb_lt]; lia).
        go_cbn. rewrite nth_z_zs.
        unfold gc_post. go_run. rewrite (wrap_i64_small (Z.of_nat i + 1)) by lia.
        replace (Z.of_nat i + 1) with (Z.of_nat (S i)) by lia.
        change [Z.of_N (nth i s 0%N)] with (zs [nth i s 0%N]). rewrite <- zs_app.
        fold (gc_env s (o ++ [nth i s 0%N]) (S i)). rewrite IH by lia.
        rewrite <- app_assoc. cbn [app].
        replace (Nat.max (S i) (List.length s)) with (Nat.max i (List.length s)) by lia. reflexivity.
    + (* i = 0: append *)
      cbn [andb]. go_run.
      rewrite zlen_zs.
      replace ((0 <=? Z.of_nat i) && (Z.of_nat i <? Z.of_nat (List.length s)))%bool with true
        by (symmetry; apply andb_true_iff; split; [apply Z.leb_le|apply Z.ltb_lt]; lia).
      go_cbn. rewrite nth_z_zs.
      unfold gc_post. go_run. rewrite (wrap_i64_small (Z.of_nat i + 1)) by lia.
      replace (Z.of_nat i + 1) with (Z.of_nat (S i)) by lia.
      change [Z.of_N (nth i s 0%N)] with (zs [nth i s 0%N]). rewrite <- zs_app.
      fold (gc_env s (o ++ [nth i s 0%N]) (S i)). rewrite IH by lia.
      rewrite <- app_assoc. cbn [app].
      replace (Nat.max (S i) (List.length s)) with (Nat.max i (List.length s)) by lia. reflexivity.
  - (* the loop is over *)
    rewrite rest_end by exact Hge. rewrite app_nil_r.
    replace (Nat.max i (List.length s)) with i by lia. reflexivity.
Qed.

(* whatever the sort oracle returns (s), the function returns the model's dedup of it *)
Theorem getCleanSet_is_dedup ext f (entries s : list N) :
  ext sort_name [VInts (zs entries)] = Some (VInts (zs s)) ->
  Z.of_nat (List.length s) < 9223372036854775807 -> (List.length s < f)%nat ->
  call prog ext f "getCleanSet" [VInts (zs entries)] = RRet (VInts (zs (dedup s))).
Proof.
  intros Hext Hlen Hf. unfold call. rewrite prog_getCleanSet. unfold fn_getCleanSet.
  cbn [f_params f_body bind_params]. go_run.
  fold sort_name. rewrite Hext. go_run.
  fold gc_body. fold gc_post. fold gc_loop.
  change [("entries", VInts (zs s)); ("out", VInts []); ("i", VInt 0)] with (gc_env s [] 0).
  rewrite (gc_loop_spec ext s Hlen f 0 []) by lia.
  unfold gc_env. go_run. reflexivity.
Qed.

(* for every sort oracle that returns an ascending permutation of its argument: getCleanSet = clean *)
Theorem getCleanSet_is_clean ext f (entries s : list N) :
  ext sort_name [VInts (zs entries)] = Some (VInts (zs s)) ->
  Sorted N.le s -> Permutation s entries ->
  Z.of_nat (List.length entries) < 9223372036854775807 -> (List.length entries < f)%nat ->
  call prog ext f "getCleanSet" [VInts (zs entries)] = RRet (VInts (zs (clean entries))).
Proof.
  intros Hext Hs Hp Hlen Hf.
  pose proof (Permutation_length Hp) as Hl.
  rewrite (getCleanSet_is_dedup ext f entries s Hext) by (rewrite Hl; assumption).
  unfold clean. rewrite (sorted_perm_is_nsort entries s Hs Hp). reflexivity.
Qed.

(* the executable instance: the oracle that sorts with the model's merge sort *)
Definition ext_nsort : string -> list val -> option val := fun f args =>
  match args with
  | [VInts l] => if String.eqb f sort_name then Some (VInts (zs (NSort.sort (map Z.to_N l)))) else None
  | _ => None
  end.
End Generic.
