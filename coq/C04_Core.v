(* C04 — compact hash index, core lemmas on top of the prototype model CI.v (builder [seal], reader [lookup]).
   New facts proved here (the prototype CIP.v only has C04_found):
     - lookup_sealed      : on a sealed file the reader's answer for ANY key is the eytzinger search of the
                            key's bucket (gives found / false-positive characterisation / absence / no read error)
     - seal_perm          : sealing is invariant under permutation of the inserted pairs (byte-identical files)
     - seal_fails_*       : duplicate keys and buckets that collide in every domain make sealing fail. *)
From Coq Require Import List Arith Lia Bool PeanoNat NArith Sorting.Sorted Sorting.Permutation.
Import ListNotations.
Require Import YF.Eytz YF.Eytz2 YF.Eytz3 YF.Codec YF.ReadAt YF.CI YF.CIP.
Close Scope N_scope.
Arguments Nat.mul : simpl never.

(* ------------------------------------------------------------------ generic list facts *)
Lemma nodupb_iff l : nodupb l = true <-> NoDup l.
Proof.
  split.
  - induction l as [|x r IH]; cbn; intros H; constructor.
    + apply andb_prop in H. destruct H as [H _]. apply negb_true_iff in H. intros Hin.
      assert (existsb (N.eqb x) r = true) by (apply existsb_exists; exists x; split; auto; apply N.eqb_refl). congruence.
    + apply IH. apply andb_prop in H. tauto.
  - induction 1 as [|x r Hn Hnd IH]; cbn; auto. rewrite IH, andb_true_r. apply negb_true_iff.
    destruct (existsb (N.eqb x) r) eqn:E; auto. apply existsb_exists in E. destruct E as [y [Hy E]].
    apply N.eqb_eq in E. subst y. contradiction.
Qed.

Lemma nodupb_perm l l' : Permutation l l' -> nodupb l = nodupb l'.
Proof.
  intros P. destruct (nodupb l) eqn:E; destruct (nodupb l') eqn:E'; auto.
  - apply nodupb_iff in E. assert (NoDup l') by (eapply Permutation_NoDup; eauto). apply nodupb_iff in H. congruence.
  - apply nodupb_iff in E'. assert (NoDup l) by (eapply Permutation_NoDup; [apply Permutation_sym|]; eauto).
    apply nodupb_iff in H. congruence.
Qed.

Lemma filter_perm {T} (f : T -> bool) l l' : Permutation l l' -> Permutation (filter f l) (filter f l').
Proof.
  induction 1 as [|x l l' P IH|x y l|l l' l'' P1 IH1 P2 IH2]; cbn; auto.
  - destruct (f x); auto.
  - destruct (f x), (f y); auto. apply perm_swap.
  - eapply perm_trans; eauto.
Qed.

(* a list sorted by a key with pairwise distinct keys is determined by its set of elements *)
Lemma sorted_unique (l1 : list entry) : forall l2,
  StronglySorted (fun x y => is_true (HOrder.leb x y)) l1 ->
  StronglySorted (fun x y => is_true (HOrder.leb x y)) l2 ->
  Permutation l1 l2 -> NoDup (map fst l1) -> l1 = l2.
Proof.
  induction l1 as [|a l1 IH]; intros l2 S1 S2 P ND.
  - apply Permutation_nil in P. now subst.
  - destruct l2 as [|b l2]; [apply Permutation_sym, Permutation_nil in P; discriminate|].
    inversion S1 as [|? ? S1' F1]; subst. inversion S2 as [|? ? S2' F2]; subst.
    assert (Hab : a = b).
    { assert (Ha : In a (b :: l2)) by (eapply Permutation_in; [exact P|left; auto]).
      assert (Hb : In b (a :: l1)) by (eapply Permutation_in; [apply Permutation_sym; exact P|left; auto]).
      destruct Ha as [Ha|Ha]; [auto|]. destruct Hb as [Hb|Hb]; [auto|].
      rewrite Forall_forall in F1, F2. pose proof (F1 _ Hb) as L1. pose proof (F2 _ Ha) as L2.
      unfold HOrder.leb, is_true in L1, L2. apply N.leb_le in L1. apply N.leb_le in L2.
      assert (E : fst a = fst b) by lia.
      (* a and b both occur in a :: l1 whose keys are distinct *)
      cbn [map] in ND. inversion ND as [|? ? Hnin _]; subst. exfalso. apply Hnin. rewrite E. now apply in_map. }
    subst b. f_equal. apply IH; auto.
    + eapply Permutation_cons_inv; eauto.
    + cbn [map] in ND. now inversion ND.
Qed.

Lemma hsort_perm_eq (l l' : list entry) : Permutation l l' -> NoDup (map fst l) -> HSort.sort l = HSort.sort l'.
Proof.
  intros P ND.
  assert (Htrans : Relations_1.Transitive (fun x y : entry => is_true (HOrder.leb x y))).
  { intros x y z. unfold HOrder.leb, is_true. rewrite !N.leb_le. lia. }
  apply sorted_unique.
  - apply HSort.StronglySorted_sort, Htrans.
  - apply HSort.StronglySorted_sort, Htrans.
  - eapply perm_trans; [apply Permutation_sym, HSort.Permuted_sort|].
    eapply perm_trans; [exact P|apply HSort.Permuted_sort].
  - eapply Permutation_NoDup; [|exact ND]. apply Permutation_map, HSort.Permuted_sort.
Qed.

(* clean re-statements of small prototype lemmas (CIP.v states them inside a section with spurious arguments) *)
Lemma table_len lay : length (table lay) = 16 * length lay.
Proof.
  unfold table. induction lay as [|[[d off] l] lay IH]; cbn [map concat length]; auto.
  rewrite app_length, bucket_hdr_length, IH. lia.
Qed.
Lemma skipn_plus {T} (a b : nat) (l : list T) : skipn (a + b) l = skipn b (skipn a l).
Proof. revert l; induction a as [|a IH]; intros l; cbn; auto. destruct l; auto. now destruct b. Qed.
Lemma firstn_le_enc_app n x rest : firstn n (le_enc n x ++ rest) = le_enc n x.
Proof. rewrite firstn_app, le_enc_length, Nat.sub_diag. cbn. rewrite app_nil_r. apply firstn_all2. rewrite le_enc_length; lia. Qed.
Lemma skipn_le_enc_app n x rest : skipn n (le_enc n x ++ rest) = rest.
Proof. rewrite skipn_app, le_enc_length, Nat.sub_diag. cbn. rewrite skipn_all2; auto. rewrite le_enc_length; lia. Qed.

Lemma mine_sound (hash : N -> list N -> N) fuel : forall d0 l d, mine hash fuel d0 l = Some d ->
  NoDup (map (fun x => h24 hash (N.of_nat d) (fst x)) l) /\ d0 <= d < d0 + fuel.
Proof.
  induction fuel as [|f IH]; intros d0 l d H; cbn [CI.mine] in H; [discriminate|].
  destruct (nodupb _) eqn:E.
  - inversion H; subst. split; [now apply nodupb_iff|lia].
  - apply IH in H. destruct H; split; auto; lia.
Qed.

(* ------------------------------------------------------------------ the model, for any hash / bucket function *)
Section Core.
Variable hash : N -> list N -> N.
Variable bucket_of : nat -> list N -> nat.
Hypothesis bucket_of_lt : forall nb k, 0 < nb -> bucket_of nb k < nb.
Variable attempts vs : nat.
Variable hdr : list N.
Variable nb : nat.

Notation h24 := (h24 hash).
Notation entries := (entries hash).
Notation bucket_body := (bucket_body hash).
Notation layout := (layout hash).
Notation body := (body hash).
Notation stride := (stride vs).
Notation mine_all := (mine_all hash bucket_of attempts nb).
Notation bucket_kvs := (bucket_kvs bucket_of nb).
Notation seal := (seal hash bucket_of attempts hdr nb).
Notation lookup := (CI.lookup hash bucket_of vs hdr nb).
Notation mine := (mine hash).

Definition esearch (d : nat) (l : list kv) (k : list N) : res :=
  match Eytz3.lookup entry dflt fst (eytz entry dflt (entries d l)) (h24 (N.of_nat d) k) with
  | Some e => Found (snd e)
  | None => NotFound
  end.

(* The reader on a sealed file, for ANY key (present or not). *)
Lemma lookup_sealed kvs file k :
  0 < nb -> (N.of_nat attempts <= 256 ^ 4)%N ->
  Forall (fun x => length (snd x) = vs) kvs ->
  seal kvs = Some file ->
  (N.of_nat (length file) < 256 ^ 6)%N -> (N.of_nat (length kvs) < 256 ^ 4)%N ->
  exists d, mine attempts 0 (bucket_kvs (bucket_of nb k) kvs) = Some d /\
            lookup file k = esearch d (bucket_kvs (bucket_of nb k) kvs) k.
Proof.
  intros Hnb Hatt Hvs Hseal Hsize Hcount.
  unfold CI.seal in Hseal. destruct (mine_all 0 nb kvs) as [bs|] eqn:Emine; [|discriminate].
  injection Hseal as Hfile.
  set (b := bucket_of nb k). assert (Hb : b < nb) by (apply bucket_of_lt; auto).
  destruct (mine_all_nth hash bucket_of bucket_of_lt attempts hdr nb nb 0 kvs bs Emine) as [Hlen Hnth].
  destruct (Hnth b Hb) as [d [Hbs Hmine]]. cbn [Nat.add] in Hbs, Hmine.
  exists d. split; [exact Hmine|].
  set (lb := bucket_kvs b kvs) in *.
  destruct (mine_sound hash attempts 0 lb d Hmine) as [Hnd Hd].
  set (base := length hdr + 16 * nb) in *.
  destruct (layout_nth hash bucket_of bucket_of_lt bs base b d lb Hbs) as [pre [post [Hlay Hbody]]].
  set (lay := layout base bs) in *.
  assert (Hlaylen : length lay = nb) by (unfold lay; rewrite layout_length; auto).
  assert (Hlb_le : length lb <= length kvs).
  { unfold lb, CI.bucket_kvs. clear. induction kvs as [|x r IH]; cbn; auto. destruct (_ =? _); cbn; lia. }
  assert (Hfilelen : length file = length hdr + 16 * nb + (length pre + length (bucket_body d lb) + length post)).
  { rewrite <- Hfile, !app_length, table_len, Hlaylen, Hbody, !app_length. lia. }
  unfold CI.lookup. fold b.
  assert (Hrd : read_at file (length hdr + 16 * b) 16 = Some (bucket_hdr d (length lb) (base + length pre))).
  { rewrite <- Hfile. rewrite read_at_shift. apply read_at_prefix.
    replace (16 * b) with (b * 16) by lia. apply (table_read lay b d (base + length pre) lb Hlay). }
  rewrite Hrd. cbv iota beta.
  rewrite (parse_bucket_hdr_ok hash bucket_of bucket_of_lt hdr); try lia.
  set (inp := entries d lb). set (arr := eytz entry dflt inp).
  assert (Harrlen : length arr = length lb) by (unfold arr; rewrite eytz_length; apply entries_length).
  rewrite <- Harrlen.
  assert (Hentry_vs : forall e, In e inp -> length (snd e) = vs /\ (fst e < 256 ^ 3)%N).
  { intros e He. apply entries_in in He. apply in_map_iff in He. destruct He as [x [E Hx]]. subst e. cbn [fst snd].
    split; [|apply h24_lt]. rewrite Forall_forall in Hvs. apply Hvs. unfold lb, CI.bucket_kvs in Hx. apply filter_In in Hx. tauto. }
  assert (Hget : forall i, i < length arr -> load_entry vs file (base + length pre) i = Some (nth i arr dflt)).
  { intros i Hi. unfold CI.load_entry.
    assert (Hin_i : In (nth i arr dflt) inp) by (apply (eytz_incl entry dflt inp); apply nth_In; auto).
    destruct (Hentry_vs _ Hin_i) as [Hv Hh].
    assert (Hr : read_at file (base + length pre + i * stride) stride = Some (enc_entry (nth i arr dflt))).
    { rewrite <- Hfile, Hbody.
      replace (hdr ++ table lay ++ pre ++ bucket_body d lb ++ post)
        with ((hdr ++ table lay ++ pre) ++ bucket_body d lb ++ post) by (now rewrite <- !app_assoc).
      replace (base + length pre) with (length (hdr ++ table lay ++ pre))
        by (rewrite !app_length, table_len, Hlaylen; unfold base; lia).
      rewrite read_at_shift. apply read_at_prefix. unfold CI.bucket_body. fold inp. fold arr.
      apply read_at_concat_uniform.
      - apply Forall_forall. intros x Hx. apply in_map_iff in Hx. destruct Hx as [e [E He]]. subst x.
        unfold CI.enc_entry, CI.stride. rewrite app_length, le_enc_length.
        destruct (Hentry_vs e (eytz_incl _ _ _ _ He)) as [Hv' _]. lia.
      - rewrite (map_nth_error _ _ _ (nth_error_nth' arr dflt Hi)). reflexivity. }
    rewrite Hr. unfold CI.enc_entry. rewrite firstn_le_enc_app, skipn_le_enc_app, (le_roundtrip 3) by exact Hh.
    now destruct (nth i arr dflt). }
  rewrite (search_get_list arr _ _ _ _ Hget). reflexivity.
Qed.

(* the search in a mined bucket *)
Lemma esearch_found d l k v :
  NoDup (map (fun x => h24 (N.of_nat d) (fst x)) l) -> In (k, v) l -> esearch d l k = Found v.
Proof.
  intros Hnd Hin. unfold esearch. set (inp := entries d l).
  assert (Hine : In (h24 (N.of_nat d) k, v) inp).
  { apply entries_in. apply in_map_iff. exists (k, v). split; auto. }
  destruct (In_nth _ _ dflt Hine) as [r [Hr Hnr]].
  assert (Hsorted : forall a c, a < c < length inp -> (fst (nth a inp dflt) < fst (nth c inp dflt))%N).
  { unfold inp, CI.entries. apply sorted_strict. rewrite map_map. cbn [fst]. exact Hnd. }
  pose proof (eytz_lookup_complete entry dflt fst inp Hsorted r Hr) as Hfound.
  rewrite Hnr in Hfound. cbn [fst] in Hfound. rewrite Hfound. reflexivity.
Qed.

Lemma esearch_sound d l k v : esearch d l k = Found v ->
  exists k0, In (k0, v) l /\ h24 (N.of_nat d) k0 = h24 (N.of_nat d) k.
Proof.
  unfold esearch. destruct (Eytz3.lookup _ _ _ _ _) as [e|] eqn:E; [|discriminate]. intros H. inversion H; subst.
  apply eytz_lookup_sound in E. destruct E as [E1 E2]. apply entries_in in E2. apply in_map_iff in E2.
  destruct E2 as [[k0 v0] [E2 Hin]]. subst e. cbn [fst snd] in *. exists k0. split; auto.
Qed.

Lemma esearch_total d l k : esearch d l k <> ReadErr.
Proof. unfold esearch. destruct (Eytz3.lookup _ _ _ _ _); discriminate. Qed.

Lemma in_bucket_kvs b kvs x : In x (bucket_kvs b kvs) <-> In x kvs /\ bucket_of nb (fst x) = b.
Proof. unfold CI.bucket_kvs. rewrite filter_In. rewrite Nat.eqb_eq. tauto. Qed.

(* every inserted key is found with its value (same statement as CIP.C04_found, re-derived from lookup_sealed) *)
Theorem found kvs file k v :
  0 < nb -> (N.of_nat attempts <= 256 ^ 4)%N ->
  Forall (fun x => length (snd x) = vs) kvs ->
  seal kvs = Some file ->
  (N.of_nat (length file) < 256 ^ 6)%N -> (N.of_nat (length kvs) < 256 ^ 4)%N ->
  In (k, v) kvs -> lookup file k = Found v.
Proof.
  intros Hnb Hatt Hvs Hseal Hsize Hcount Hin.
  destruct (lookup_sealed kvs file k Hnb Hatt Hvs Hseal Hsize Hcount) as [d [Hm E]]. rewrite E.
  apply mine_sound in Hm. apply esearch_found; [tauto|]. apply in_bucket_kvs. split; auto.
Qed.

(* a value returned for ANY key is the value of a stored key with the same bucket and the same 24-bit hash
   under the bucket's mined domain: the exact false-positive set (used by C03) *)
Theorem false_positive_char kvs file k' v' :
  0 < nb -> (N.of_nat attempts <= 256 ^ 4)%N ->
  Forall (fun x => length (snd x) = vs) kvs ->
  seal kvs = Some file ->
  (N.of_nat (length file) < 256 ^ 6)%N -> (N.of_nat (length kvs) < 256 ^ 4)%N ->
  lookup file k' = Found v' ->
  exists k d, In (k, v') kvs /\ bucket_of nb k = bucket_of nb k' /\
              mine attempts 0 (bucket_kvs (bucket_of nb k') kvs) = Some d /\
              h24 (N.of_nat d) k = h24 (N.of_nat d) k'.
Proof.
  intros Hnb Hatt Hvs Hseal Hsize Hcount Hl.
  destruct (lookup_sealed kvs file k' Hnb Hatt Hvs Hseal Hsize Hcount) as [d [Hm E]]. rewrite E in Hl.
  apply esearch_sound in Hl. destruct Hl as [k0 [Hin Hh]]. apply in_bucket_kvs in Hin. cbn [fst] in Hin.
  exists k0, d. tauto.
Qed.

(* a key that shares (bucket, 24-bit hash) with no stored key is reported absent; no lookup on a sealed file
   ends in a read error *)
Theorem absent kvs file k :
  0 < nb -> (N.of_nat attempts <= 256 ^ 4)%N ->
  Forall (fun x => length (snd x) = vs) kvs ->
  seal kvs = Some file ->
  (N.of_nat (length file) < 256 ^ 6)%N -> (N.of_nat (length kvs) < 256 ^ 4)%N ->
  (forall d k0 v0, mine attempts 0 (bucket_kvs (bucket_of nb k) kvs) = Some d -> In (k0, v0) kvs ->
                   bucket_of nb k0 = bucket_of nb k -> h24 (N.of_nat d) k0 <> h24 (N.of_nat d) k) ->
  lookup file k = NotFound.
Proof.
  intros Hnb Hatt Hvs Hseal Hsize Hcount Hno.
  destruct (lookup_sealed kvs file k Hnb Hatt Hvs Hseal Hsize Hcount) as [d [Hm E]]. rewrite E.
  destruct (esearch d _ k) as [v| |] eqn:Es; auto.
  - apply esearch_sound in Es. destruct Es as [k0 [Hin Hh]]. apply in_bucket_kvs in Hin. cbn [fst] in Hin.
    destruct Hin as [Hin Hb]. exfalso. exact (Hno d k0 v Hm Hin Hb Hh).
  - exfalso. eapply esearch_total; eauto.
Qed.

Theorem no_read_error kvs file k :
  0 < nb -> (N.of_nat attempts <= 256 ^ 4)%N ->
  Forall (fun x => length (snd x) = vs) kvs ->
  seal kvs = Some file ->
  (N.of_nat (length file) < 256 ^ 6)%N -> (N.of_nat (length kvs) < 256 ^ 4)%N ->
  lookup file k <> ReadErr.
Proof.
  intros Hnb Hatt Hvs Hseal Hsize Hcount.
  destruct (lookup_sealed kvs file k Hnb Hatt Hvs Hseal Hsize Hcount) as [d [Hm E]]. rewrite E. apply esearch_total.
Qed.

(* ------------------------------------------------------------------ order independence *)
Lemma mine_perm fuel : forall d0 l l', Permutation l l' -> mine fuel d0 l = mine fuel d0 l'.
Proof.
  induction fuel as [|f IH]; intros d0 l l' P; cbn [CI.mine]; auto.
  rewrite (nodupb_perm _ (map (fun x => h24 (N.of_nat d0) (fst x)) l')) by (apply Permutation_map; exact P).
  destruct (nodupb _); auto.
Qed.

Lemma entries_perm d l l' : Permutation l l' -> NoDup (map (fun x => h24 (N.of_nat d) (fst x)) l) ->
  entries d l = entries d l'.
Proof.
  intros P ND. unfold CI.entries. apply hsort_perm_eq.
  - apply Permutation_map. exact P.
  - rewrite map_map. cbn [fst]. exact ND.
Qed.

Lemma bucket_body_perm d l l' : Permutation l l' -> NoDup (map (fun x => h24 (N.of_nat d) (fst x)) l) ->
  bucket_body d l = bucket_body d l'.
Proof. intros P ND. unfold CI.bucket_body. now rewrite (entries_perm d l l' P ND). Qed.

(* layouts of bucket lists that agree bucket by bucket on (domain, body bytes, entry count) give the same bytes *)
Definition bucket_equiv (x y : nat * list kv) : Prop :=
  fst x = fst y /\ length (snd x) = length (snd y) /\ bucket_body (fst x) (snd x) = bucket_body (fst y) (snd y).

Lemma layout_equiv bs : forall bs' base, Forall2 bucket_equiv bs bs' ->
  table (layout base bs) = table (layout base bs') /\ body (layout base bs) = body (layout base bs').
Proof.
  induction bs as [|[d l] bs IH]; intros bs' base F; inversion F as [|? [d' l'] ? ? E F']; subst; [split; reflexivity|].
  destruct E as [E1 [E2 E3]]. cbn [fst snd] in *. subst d'.
  cbn [CI.layout]. unfold CI.table, CI.body in *. cbn [map concat]. rewrite E3.
  destruct (IH _ (base + length (bucket_body d l')) F') as [T B]. rewrite T, B, E2. split; reflexivity.
Qed.

Lemma mine_all_perm n : forall b kvs kvs', Permutation kvs kvs' ->
  match mine_all b n kvs, mine_all b n kvs' with
  | Some bs, Some bs' => Forall2 bucket_equiv bs bs'
  | None, None => True
  | _, _ => False
  end.
Proof.
  induction n as [|n IH]; intros b kvs kvs' P; cbn [CI.mine_all]; [constructor|].
  assert (Pb : Permutation (bucket_kvs b kvs) (bucket_kvs b kvs')) by (apply filter_perm; exact P).
  rewrite (mine_perm attempts 0 _ _ Pb).
  destruct (mine attempts 0 (bucket_kvs b kvs')) as [d|] eqn:Em; auto.
  specialize (IH (S b) kvs kvs' P).
  destruct (mine_all (S b) n kvs), (mine_all (S b) n kvs'); auto.
  constructor; auto. unfold bucket_equiv. cbn [fst snd]. split; auto. split.
  - apply Permutation_length. exact Pb.
  - apply bucket_body_perm; auto. rewrite <- (mine_perm attempts 0 _ _ Pb) in Em.
    apply mine_sound in Em. tauto.
Qed.

Theorem seal_perm kvs kvs' : Permutation kvs kvs' -> seal kvs = seal kvs'.
Proof.
  intros P. unfold CI.seal. pose proof (mine_all_perm nb 0 kvs kvs' P) as H.
  destruct (mine_all 0 nb kvs) as [bs|], (mine_all 0 nb kvs') as [bs'|]; try contradiction; auto.
  destruct (layout_equiv bs bs' (length hdr + 16 * nb) H) as [T B]. now rewrite T, B.
Qed.

(* ------------------------------------------------------------------ failure cases *)
Definition collides (d : nat) (l : list kv) : Prop := ~ NoDup (map (fun x => h24 (N.of_nat d) (fst x)) l).

Lemma mine_none fuel : forall d0 l, (forall d, d0 <= d < d0 + fuel -> collides d l) -> mine fuel d0 l = None.
Proof.
  induction fuel as [|f IH]; intros d0 l H; cbn [CI.mine]; auto.
  destruct (nodupb _) eqn:E.
  - apply nodupb_iff in E. exfalso. apply (H d0); [lia|exact E].
  - apply IH. intros d Hd. apply H. lia.
Qed.

Lemma mine_all_none n : forall b0 kvs b, b0 <= b < b0 + n -> mine attempts 0 (bucket_kvs b kvs) = None ->
  mine_all b0 n kvs = None.
Proof.
  induction n as [|n IH]; intros b0 kvs b Hb Hm; [lia|]. cbn [CI.mine_all].
  destruct (Nat.eq_dec b b0) as [->|Hne]; [now rewrite Hm|].
  destruct (mine attempts 0 (bucket_kvs b0 kvs)); auto.
  rewrite (IH (S b0) kvs b); auto. lia.
Qed.

(* a bucket whose keys collide under every domain tried makes sealing fail (Go: ErrCollision) *)
Theorem seal_fails_overfull kvs b : b < nb ->
  (forall d, d < attempts -> collides d (bucket_kvs b kvs)) -> seal kvs = None.
Proof.
  intros Hb H. unfold CI.seal. rewrite (mine_all_none nb 0 kvs b); auto; [lia|].
  apply mine_none. intros d Hd. apply H. lia.
Qed.

Lemma dup_collides (l : list kv) d : ~ NoDup (map fst l) -> collides d l.
Proof.
  intros H ND. apply H. clear H.
  rewrite <- (map_map fst (fun k => h24 (N.of_nat d) k)) in ND. now apply NoDup_map_inv in ND.
Qed.

Lemma dup_in_some_bucket kvs : 0 < nb -> ~ NoDup (map fst kvs) ->
  exists b, b < nb /\ ~ NoDup (map fst (bucket_kvs b kvs)).
Proof.
  intros Hnb. induction kvs as [|[k v] r IH]; intros H; [exfalso; apply H; constructor|].
  destruct (in_dec (list_eq_dec N.eq_dec) k (map fst r)) as [Hin|Hnin].
  - exists (bucket_of nb k). split; [apply bucket_of_lt; auto|]. unfold CI.bucket_kvs. cbn [filter fst].
    rewrite Nat.eqb_refl. cbn [map fst]. intros ND. inversion ND as [|? ? Hn _]; subst. apply Hn.
    apply in_map_iff in Hin. destruct Hin as [[k0 v0] [E Hin]]. cbn in E. subst k0.
    apply in_map_iff. exists (k, v0). split; auto. apply filter_In. split; auto. cbn. apply Nat.eqb_refl.
  - destruct IH as [b [Hb Hd]].
    + intros ND. apply H. cbn [map fst]. constructor; auto.
    + exists b. split; auto. unfold CI.bucket_kvs in *. cbn [filter fst].
      destruct (Nat.eqb (bucket_of nb k) b); auto. cbn [map fst]. intros ND. inversion ND; subst. contradiction.
Qed.

(* inserting the same key twice makes sealing fail, whatever the values and wherever they are in the order *)
Theorem seal_fails_duplicate kvs : 0 < nb -> ~ NoDup (map fst kvs) -> seal kvs = None.
Proof.
  intros Hnb H. destruct (dup_in_some_bucket kvs Hnb H) as [b [Hb Hd]].
  apply (seal_fails_overfull kvs b Hb). intros d _. now apply dup_collides.
Qed.

(* sealing succeeds exactly when every bucket has a collision-free domain among those tried *)
Theorem seal_some_iff kvs : (exists f, seal kvs = Some f) <->
  forall b, b < nb -> exists d, d < attempts /\ ~ collides d (bucket_kvs b kvs).
Proof.
  split.
  - intros [f Hs] b Hb. unfold CI.seal in Hs. destruct (mine_all 0 nb kvs) as [bs|] eqn:E; [|discriminate].
    destruct (mine_all_nth hash bucket_of bucket_of_lt attempts hdr nb nb 0 kvs bs E) as [_ Hn].
    destruct (Hn b Hb) as [d [_ Hm]]. cbn [Nat.add] in Hm. apply mine_sound in Hm. exists d. split; [lia|].
    intros C. apply C. tauto.
  - intros H. destruct (seal kvs) as [f|] eqn:E; [eauto|]. exfalso.
    unfold CI.seal in E. destruct (mine_all 0 nb kvs) as [bs|] eqn:Em; [discriminate|].
    assert (Hgen : forall n b0, b0 + n <= nb -> mine_all b0 n kvs <> None).
    { clear Em. induction n as [|n IH]; intros b0 Hle; cbn [CI.mine_all]; [discriminate|].
      destruct (H b0 ltac:(lia)) as [d [Hd Hc]].
      destruct (mine attempts 0 (bucket_kvs b0 kvs)) eqn:Em.
      - specialize (IH (S b0) ltac:(lia)). destruct (mine_all (S b0) n kvs); [discriminate|contradiction].
      - exfalso. clear IH. (* mine cannot fail: domain d works *)
        assert (Hm : forall fuel d0, d0 <= d < d0 + fuel -> mine fuel d0 (bucket_kvs b0 kvs) <> None).
        { induction fuel as [|f IHf]; intros d0 Hd0; [lia|]. cbn [CI.mine].
          destruct (nodupb _) eqn:En; [discriminate|].
          destruct (Nat.eq_dec d d0) as [->|Hne].
          - exfalso. apply Hc. intros ND. apply nodupb_iff in ND. congruence.
          - apply IHf. lia. }
        apply (Hm attempts 0); [lia|exact Em]. }
    apply (Hgen nb 0); [lia|exact Em].
Qed.

End Core.
