From Coq Require Import List Arith Lia Bool PeanoNat NArith Sorting.Sorted Sorting.Permutation Sorting.Mergesort Orders.
Import ListNotations.
Require Import Eytz Eytz2 Eytz3 Codec ReadAt.
Close Scope N_scope.

(* ---------- sorting entries by hash ---------- *)
Module HOrder <: TotalLeBool.
  Definition t := (N * list N)%type.
  Definition leb (x y : t) := N.leb (fst x) (fst y).
  Theorem leb_total : forall x y, leb x y = true \/ leb y x = true.
  Proof. intros x y. unfold leb. destruct (N.leb_spec (fst x) (fst y)); auto. right. apply N.leb_le. lia. Qed.
End HOrder.
Module HSort := Sort HOrder.

Definition entry := (N * list N)%type.
Definition dflt : entry := (0%N, []).

Lemma sorted_strict (l : list entry) :
  NoDup (map fst l) ->
  forall a b : nat, a < b < length (HSort.sort l) ->
  (fst (nth a (HSort.sort l) dflt) < fst (nth b (HSort.sort l) dflt))%N.
Proof.
  intros ND.
  pose proof (HSort.StronglySorted_sort l) as HS.
  assert (Htrans : Relations_1.Transitive (fun x y : entry => is_true (HOrder.leb x y))).
  { intros x y z. unfold HOrder.leb, is_true. rewrite !N.leb_le. lia. }
  specialize (HS Htrans).
  assert (ND' : NoDup (map fst (HSort.sort l))).
  { eapply Permutation_NoDup; [|exact ND]. apply Permutation_map. apply HSort.Permuted_sort. }
  set (s := HSort.sort l) in *. clearbody s. clear ND Htrans l.
  induction HS as [|x s HS IH Hall]; intros a b Hab; cbn [length] in *; [lia|].
  cbn [map] in ND'. inversion ND' as [|? ? Hnin ND'']; subst.
  destruct a as [|a]; destruct b as [|b]; try lia; cbn [nth].
  - assert (Hin : In (nth b s dflt) s) by (apply nth_In; lia).
    rewrite Forall_forall in Hall. pose proof (Hall _ Hin) as Hle. unfold HOrder.leb, is_true in Hle. apply N.leb_le in Hle.
    assert (fst x <> fst (nth b s dflt)).
    { intros E. apply Hnin. rewrite E. apply in_map. exact Hin. }
    lia.
  - apply IH; auto. lia.
Qed.

(* ---------- the file format (compactindexsized) ---------- *)
Section CI.
Variable hash : N -> list N -> N.          (* EntryHash64(domain, key) *)
Variable bucket_of : nat -> list N -> nat. (* Header.BucketHash *)
Hypothesis bucket_of_lt : forall nb k, 0 < nb -> bucket_of nb k < nb.
Variable attempts : nat.
Variable vs : nat.                         (* value size *)
Variable hdr : list N.                     (* file header bytes (magic, length, sizes, version, metadata) *)
Variable nb : nat.                         (* number of buckets *)

Definition h24 (d : N) (k : list N) : N := (hash d k mod 16777216)%N.
Definition kv := (list N * list N)%type.

Definition bucket_kvs (b : nat) (kvs : list kv) : list kv := filter (fun x => Nat.eqb (bucket_of nb (fst x)) b) kvs.

Fixpoint nodupb (l : list N) : bool :=
  match l with [] => true | x :: r => negb (existsb (N.eqb x) r) && nodupb r end.

Lemma nodupb_NoDup l : nodupb l = true -> NoDup l.
Proof.
  induction l as [|x r IH]; cbn; intros H; constructor.
  - apply andb_prop in H. destruct H as [H _]. apply negb_true_iff in H. intros Hin.
    assert (existsb (N.eqb x) r = true) by (apply existsb_exists; exists x; split; auto; apply N.eqb_refl). congruence.
  - apply IH. apply andb_prop in H. tauto.
Qed.

Fixpoint mine (fuel : nat) (d : nat) (l : list kv) : option nat :=
  match fuel with
  | O => None
  | S f => if nodupb (map (fun x => h24 (N.of_nat d) (fst x)) l) then Some d else mine f (S d) l
  end.

Lemma mine_ok fuel : forall d0 l d, mine fuel d0 l = Some d ->
  NoDup (map (fun x => h24 (N.of_nat d) (fst x)) l) /\ d < d0 + fuel.
Proof.
  induction fuel as [|f IH]; intros d0 l d H; cbn in H; [discriminate|].
  destruct (nodupb _) eqn:E.
  - inversion H; subst. split; [now apply nodupb_NoDup|lia].
  - apply IH in H. destruct H; split; auto; lia.
Qed.

Definition entries (d : nat) (l : list kv) : list entry :=
  HSort.sort (map (fun x => (h24 (N.of_nat d) (fst x), snd x)) l).

Definition enc_entry (e : entry) : list N := le_enc 3 (fst e) ++ snd e.
Definition stride := 3 + vs.

Definition bucket_body (d : nat) (l : list kv) : list N := concat (map enc_entry (eytz entry dflt (entries d l))).

Definition bucket_hdr (d n off : nat) : list N :=
  le_enc 4 (N.of_nat d) ++ le_enc 4 (N.of_nat n) ++ [3%N] ++ [0%N] ++ le_enc 6 (N.of_nat off).

(* per bucket: (domain, kvs) ; layout assigns offsets *)
Fixpoint layout (base : nat) (bs : list (nat * list kv)) : list (nat * nat * list kv) :=
  match bs with
  | [] => []
  | (d, l) :: r => (d, base, l) :: layout (base + length (bucket_body d l)) r
  end.

Fixpoint mine_all (b : nat) (n : nat) (kvs : list kv) : option (list (nat * list kv)) :=
  match n with
  | O => Some []
  | S m => match mine attempts 0 (bucket_kvs b kvs) with
           | None => None          (* ErrCollision *)
           | Some d => match mine_all (S b) m kvs with
                       | None => None
                       | Some r => Some ((d, bucket_kvs b kvs) :: r) end
           end
  end.

Definition table (lay : list (nat * nat * list kv)) : list N :=
  concat (map (fun x => let '(d, off, l) := x in bucket_hdr d (length l) off) lay).
Definition body (lay : list (nat * nat * list kv)) : list N :=
  concat (map (fun x => let '(d, off, l) := x in bucket_body d l) lay).

Definition seal (kvs : list kv) : option (list N) :=
  match mine_all 0 nb kvs with
  | None => None
  | Some bs => let lay := layout (length hdr + 16 * nb) bs in
               Some (hdr ++ table lay ++ body lay)
  end.

(* ---------- reader ---------- *)
Inductive res := Found (v : list N) | NotFound | ReadErr.

Fixpoint search_get (fuel : nat) (get : nat -> option entry) (n : nat) (x : N) (idx : nat) : res :=
  match fuel with
  | O => NotFound
  | S f =>
    if idx <? n then
      match get idx with
      | None => ReadErr
      | Some e => if N.eqb (fst e) x then Found (snd e)
                  else search_get f get n x (if N.ltb (fst e) x then 2 * idx + 2 else 2 * idx + 1)
      end
    else NotFound
  end.

Definition parse_bucket_hdr (bs : list N) : nat * nat * nat * nat :=
  (N.to_nat (le_dec (firstn 4 bs)), N.to_nat (le_dec (firstn 4 (skipn 4 bs))),
   N.to_nat (nth 8 bs 0%N), N.to_nat (le_dec (firstn 6 (skipn 10 bs)))).

Definition load_entry (file : list N) (off : nat) (i : nat) : option entry :=
  match read_at file (off + i * stride) stride with
  | Some bs => Some (le_dec (firstn 3 bs), skipn 3 bs)
  | None => None
  end.

Definition lookup (file : list N) (k : list N) : res :=
  match read_at file (length hdr + 16 * bucket_of nb k) 16 with
  | None => ReadErr
  | Some bh =>
      let '(d, n, hl, off) := parse_bucket_hdr bh in
      search_get (S n) (load_entry file off) n (h24 (N.of_nat d) k) 0
  end.

End CI.
