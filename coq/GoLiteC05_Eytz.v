(* C05 — eytzinger of bucketteer/bucketteer.go and deprecated/bucketteer/bucketteer.go, translated from the Go source
   on every check.  Both translate to the very term of compactindexsized/build.go:eytzinger (checked by
   [reflexivity] below, on every check), so GoLiteC04_Eytz.eytzinger_is_go applies to both programs; on top of it:
   on a fresh output array (sortWithCompare: make([]T, len(a)); eytzinger(a, sorted, 0, 1)) the translated function
   returns the model's layout [Eytz3.eytz N 0] — the function [entries_of] of C05_Model.v applies. *)
From Coq Require Import List ZArith NArith String Bool Lia Arith.
Import ListNotations.
Require Import YF.GoLite YF.GoLiteLemmas YF.Eytz YF.Eytz2 YF.Eytz3 YF.GoLiteC04_Proofs YF.GoLiteC04_Eytz.
Require YF.Generated.GoLiteC04 YF.Generated.GoLiteC05 YF.Generated.GoLiteLC05.
Local Open Scope string_scope.
Local Open Scope Z_scope.
Local Open Scope list_scope.

(* ------------------------------------------------------------------ the translated terms are the same terms *)
Lemma eytzinger_same : GoLiteC05.fn_eytzinger = GoLiteC04.fn_eytzinger.
Proof. reflexivity. Qed.
Lemma eytzinger_same_legacy : GoLiteLC05.fn_eytzinger = GoLiteC04.fn_eytzinger.
Proof. reflexivity. Qed.

Lemma prog_eytzinger_c05 : plookup "eytzinger" GoLiteC05.prog = Some GoLiteC04.fn_eytzinger.
Proof. exact (eq_trans GoLiteC05.prog_eytzinger (f_equal Some eytzinger_same)). Qed.
Lemma prog_eytzinger_legacy : plookup "eytzinger" GoLiteLC05.prog = Some GoLiteC04.fn_eytzinger.
Proof. exact (eq_trans GoLiteLC05.prog_eytzinger (f_equal Some eytzinger_same_legacy)). Qed.

(* ------------------------------------------------------------------ Eytz.go: fuel beyond the depth changes nothing *)
Lemma inorder_fuel_S n : forall f k, (n < k * 2 ^ f)%nat -> inorder n (S f) k = inorder n f k.
Proof.
  induction f as [|f IH]; intros k Hk.
  - cbn [inorder]. destruct (Nat.leb_spec k n) as [Hle|_]; [cbn in Hk; lia|reflexivity].
  - rewrite (inorder_S n (S f) k), (inorder_S n f k).
    assert (Hp : (2 ^ S f = 2 * 2 ^ f)%nat) by (cbn; lia).
    rewrite (IH (2 * k)%nat) by lia. rewrite (IH (2 * k + 1)%nat) by lia. reflexivity.
Qed.

Lemma inorder_fuel_ge n f0 : (n < 2 ^ f0)%nat -> forall f, (f0 <= f)%nat -> inorder n f 1 = inorder n f0 1.
Proof.
  intros H0. induction 1 as [|f Hle IH]; [reflexivity|].
  rewrite inorder_fuel_S; [exact IH|].
  assert (2 ^ f0 <= 2 ^ f)%nat by (apply Nat.pow_le_mono_r; lia). lia.
Qed.

Lemma go_fuel_irrelevant {A} (d : A) inp out f f' :
  (List.length inp < 2 ^ f)%nat -> (List.length inp < 2 ^ f')%nat ->
  go A d f inp out 0 1 = go A d f' inp out 0 1.
Proof.
  intros Hf Hf'. rewrite !go_spec.
  assert (E : inorder (List.length inp) f 1 = inorder (List.length inp) f' 1).
  { destruct (Nat.le_ge_cases f f') as [H|H].
    - symmetry. apply inorder_fuel_ge; assumption.
    - apply inorder_fuel_ge; assumption. }
  rewrite E. reflexivity.
Qed.

(* ------------------------------------------------------------------ Eytz.go on machine integers vs on N *)
Lemma upd_zs : forall (l : list N) i x, upd Z (zs l) i (Z.of_N x) = zs (upd N l i x).
Proof.
  induction l as [|h t IH]; intros [|i] x; cbn [zs map upd]; try reflexivity.
  fold (zs t). rewrite IH. reflexivity.
Qed.

Lemma go_zs : forall f (inp out : list N) i k,
  go Z 0 f (zs inp) (zs out) i k = (fst (go N 0%N f inp out i k), zs (snd (go N 0%N f inp out i k))).
Proof.
  induction f as [|f IH]; intros inp out i k; [reflexivity|].
  cbn [go]. replace (List.length (zs inp)) with (List.length inp) by (unfold zs; rewrite map_length; reflexivity).
  destruct (k <=? List.length inp)%nat; [|reflexivity].
  rewrite IH. destruct (go N 0%N f inp out i (2 * k)) as [i1 o1]. cbn [fst snd].
  replace (nth i1 (zs inp) 0) with (Z.of_N (nth i1 inp 0%N)) by (unfold zs; change 0 with (Z.of_N 0); symmetry; apply map_nth).
  rewrite upd_zs. rewrite IH. reflexivity.
Qed.

Lemma zs_repeat0 n : zs (repeat 0%N n) = repeat 0 n.
Proof. induction n as [|n IH]; [reflexivity|]. cbn [repeat zs map]. fold (zs (repeat 0%N n)). rewrite IH. reflexivity. Qed.

Lemma lt_pow2_self n : (n < 2 ^ n)%nat.
Proof. apply Nat.pow_gt_lin_r. lia. Qed.

(* Everything below holds for ANY translated program that binds the name to the common term *)
Section Generic.
Variable prog : program.
Hypothesis prog_eytzinger : plookup "eytzinger" prog = Some GoLiteC04.fn_eytzinger.

(* sortWithCompare's call: a fresh output array, i = 0, k = 1 — the result is the model's layout of the input *)
Theorem eytzinger_is_eytz ext f (l : list N) :
  Z.of_nat (List.length l) < 2305843009213693952 -> (List.length l < 2 ^ f)%nat ->
  call prog ext f "eytzinger" [VInts (zs l); VInts (repeat 0 (List.length l)); VInt 0; VInt 1]
  = RRet (VTuple [VInt (Z.of_nat (List.length l)); VInts (zs (eytz N 0%N l))]).
Proof.
  intros Hn Hf.
  assert (Hlz : List.length (zs l) = List.length l) by (unfold zs; apply map_length).
  rewrite (eytzinger_is_go prog prog_eytzinger ext f (zs l) (repeat 0 (List.length l)))
    by (rewrite ?repeat_length, ?Hlz; auto).
  rewrite (go_fuel_irrelevant 0 (zs l) (repeat 0 (List.length l)) (S f) (S (List.length l))).
  - rewrite <- zs_repeat0, go_zs. unfold ey_ret. cbn [fst snd]. unfold eytz.
    rewrite go_spec. cbn [fst snd]. rewrite inorder_root_length by (cbn [Nat.pow]; pose proof (lt_pow2_self (List.length l)); lia).
    reflexivity.
  - rewrite Hlz. cbn [Nat.pow]. lia.
  - rewrite Hlz. cbn [Nat.pow]. pose proof (lt_pow2_self (List.length l)). lia.
Qed.
End Generic.
