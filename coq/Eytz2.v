From Coq Require Import List Arith Lia Bool PeanoNat NArith.
Import ListNotations.
Require Import Eytz.

(* ---------- arithmetic on ancestors ---------- *)
Lemma div_pow_add p j m : p / 2 ^ (j + m) = p / 2 ^ j / 2 ^ m.
Proof. rewrite Nat.pow_add_r, Nat.div_div; auto; apply Nat.pow_nonzero; lia. Qed.

Lemma div_le_self a b : b <> 0 -> a / b <= a.
Proof. intros Hb. apply Nat.div_le_upper_bound; auto. nia. Qed.

Lemma div_pow_le_half a m : 1 <= m -> a / 2 ^ m <= a / 2.
Proof.
  intros Hm. replace m with (1 + (m - 1)) by lia. rewrite div_pow_add. cbn [Nat.pow]. rewrite Nat.mul_1_r.
  apply div_le_self. apply Nat.pow_nonzero; lia.
Qed.

Lemma double_div2 k : (2 * k) / 2 = k.
Proof. rewrite Nat.mul_comm. apply Nat.div_mul; lia. Qed.
Lemma double1_div2 k : (2 * k + 1) / 2 = k.
Proof. symmetry. apply (Nat.div_unique (2*k+1) 2 k 1); lia. Qed.

Lemma NoDup_app_mid {T} (l1 l2 : list T) x :
  NoDup l1 -> NoDup l2 -> ~ In x l1 -> ~ In x l2 -> (forall y, In y l1 -> In y l2 -> False) ->
  NoDup (l1 ++ x :: l2).
Proof.
  intros H1 H2 Hx1 Hx2 Hd. induction l1 as [|a l1 IH]; cbn.
  - constructor; auto.
  - inversion H1; subst. constructor.
    + intros Hin. apply in_app_or in Hin. destruct Hin as [Hin|[E|Hin]]; auto.
      * subst. apply Hx1. now left.
      * apply (Hd a); auto. now left.
    + apply IH; auto.
      * intros Hin. apply Hx1. now right.
      * intros y Hy1 Hy2. apply (Hd y); auto. now right.
Qed.

(* ---------- inorder facts ---------- *)
Lemma in_inorder_anc n f k p :
  In p (inorder n f k) -> p <= n /\ exists j, p / 2 ^ j = k.
Proof.
  revert k p; induction f as [|f IH]; intros k p H; cbn [inorder] in H; [destruct H|].
  destruct (k <=? n) eqn:Hk; [|destruct H]. apply Nat.leb_le in Hk.
  apply in_app_or in H. destruct H as [H|[H|H]].
  - apply IH in H. destruct H as [Hp [j Hj]]. split; auto. exists (S j).
    replace (S j) with (j + 1) by lia. rewrite div_pow_add, Hj. change (2^1) with 2. apply double_div2.
  - subst. split; auto. exists 0. cbn. apply Nat.div_1_r.
  - apply IH in H. destruct H as [Hp [j Hj]]. split; auto. exists (S j).
    replace (S j) with (j + 1) by lia. rewrite div_pow_add, Hj. change (2^1) with 2. apply double1_div2.
Qed.

Lemma in_inorder_ge n f k p : In p (inorder n f k) -> k <= p.
Proof.
  intros H. apply in_inorder_anc in H. destruct H as [_ [j Hj]]. subst k.
  apply div_le_self. apply Nat.pow_nonzero; lia.
Qed.

Lemma anc_disjoint k p j j' : 1 <= k -> p / 2 ^ j = 2 * k -> p / 2 ^ j' = 2 * k + 1 -> False.
Proof.
  intros Hk H1 H2.
  destruct (Nat.lt_trichotomy j j') as [Hlt|[Heq|Hgt]].
  - replace j' with (j + (j' - j)) in H2 by lia. rewrite div_pow_add, H1 in H2.
    pose proof (div_pow_le_half (2*k) (j' - j) ltac:(lia)) as Hle. rewrite double_div2 in Hle. lia.
  - subst. lia.
  - replace j with (j' + (j - j')) in H1 by lia. rewrite div_pow_add, H2 in H1.
    pose proof (div_pow_le_half (2*k+1) (j - j') ltac:(lia)) as Hle. rewrite double1_div2 in Hle. lia.
Qed.

Lemma inorder_NoDup n f k : 1 <= k -> NoDup (inorder n f k).
Proof.
  revert k; induction f as [|f IH]; intros k Hk; cbn [inorder]; [constructor|].
  destruct (k <=? n); [|constructor].
  apply NoDup_app_mid.
  - apply IH; lia.
  - apply IH; lia.
  - intros H. apply in_inorder_ge in H. lia.
  - intros H. apply in_inorder_ge in H. lia.
  - intros p HL HR. apply in_inorder_anc in HL, HR. destruct HL as [_ [j Hj]], HR as [_ [j' Hj']].
    eapply anc_disjoint; eauto.
Qed.
