(* C09: executable checker run (vm_compute) on the harness's observations of the real MultiEpoch.
   It runs the very model functions the theorems are about:
   - CTrace  : the lock operations observed (counting wrapper around MultiEpoch.mu) while ONE call of the named
               function ran must be one of the programs the translator generated for that name;
   - CReplay : the model decides with find_deadlock (C09_Lock) whether the observed program can deadlock against
               one writer; the harness replayed exactly that schedule (writer announced between the program's
               acquisitions) and reports whether the call stalled. forced = the replay was deterministic;
   - CSeq    : a sequential history of writers and readers on one MultiEpoch with every answer observed; the map
               model (C09_EpochSet: apply, lookup, epoch_numbers, most_recent, oldest) must allow every answer. *)
From Coq Require Import List NArith Bool String Arith.
Import ListNotations.
Require Import RW RW2 C09_Lock C09_EpochSet.
Require Import YF.Generated.LockProgramsC09.

Definition op_eqb (a b : op) : bool :=
  match a, b with
  | RLock, RLock | RUnlock, RUnlock | WLock, WLock | WUnlock, WUnlock | Work, Work => true
  | _, _ => false
  end.
Fixpoint ops_eqb (a b : list op) : bool :=
  match a, b with
  | [], [] => true
  | x :: a', y :: b' => op_eqb x y && ops_eqb a' b'
  | _, _ => false
  end.

(* Loop normal form. The translator unrolls a loop 0, 1 and 2 times; a real run may iterate more often. For a
   flat trace made of whole sections ([RLock; RUnlock] or [WLock; WUnlock]) a run of more than two identical
   consecutive sections is cut to two; any other trace is left as it is. *)
Fixpoint sections (p : list op) : option (list bool) :=      (* true = read section, false = write section *)
  match p with
  | [] => Some []
  | RLock :: RUnlock :: r => option_map (cons true) (sections r)
  | WLock :: WUnlock :: r => option_map (cons false) (sections r)
  | _ => None
  end.
Fixpoint cap2 (prev : option bool) (count : nat) (l : list bool) : list bool :=
  match l with
  | [] => []
  | b :: r =>
    match prev with
    | Some a => if Bool.eqb a b
                then (if Nat.leb 2 count then cap2 prev count r else b :: cap2 prev (S count) r)
                else b :: cap2 (Some b) 1 r
    | None => b :: cap2 (Some b) 1 r
    end
  end.
Definition unsections (l : list bool) : list op :=
  flat_map (fun b : bool => if b then [RLock; RUnlock] else [WLock; WUnlock]) l.
Definition norm (p : list op) : list op :=
  match sections p with
  | Some l => unsections (cap2 None 0 l)
  | None => p
  end.

Definition programs_of (name : string) : list (list op) :=
  map snd (filter (fun np => String.eqb (fst np) name) named_programs).

Definition model_deadlocks (p : list op) : bool :=
  match find_deadlock p with Some _ => true | None => false end.

(* ---------- sequential histories ---------- *)
Inductive mop :=
| OAdd (k : N) (e : epoch) | OReplaceOrAdd (k : N) (e : epoch) | OReplace (k : N) (e : epoch)
| ORemove (k : N) | ORemoveByPath (p : N)
| OGet (k : N) | OHas (k : N) | OCount | ONumbers | OMostRecent | OOldest.
Inductive mobs :=
| BOk | BErr | BRemoved (k : N) | BEpoch (id : N) | BBool (b : bool) | BCount (n : N) | BList (l : list N).

Fixpoint listN_eqb (a b : list N) : bool :=
  match a, b with
  | [], [] => true
  | x :: a', y :: b' => N.eqb x y && listN_eqb a' b'
  | _, _ => false
  end.

Definition guard (b : bool) (m : emap) : option emap := if b then Some m else None.

Definition mstep (m : emap) (o : mop) (b : mobs) : option emap :=
  match o, b with
  | OAdd k e, BOk => guard (negb (has m k)) (apply m (Add k e))
  | OAdd k e, BErr => guard (has m k) (apply m (Add k e))
  | OReplaceOrAdd k e, BOk => Some (apply m (ReplaceOrAdd k e))
  | OReplace k e, BOk => guard (has m k) (apply m (Replace k e))
  | OReplace k e, BErr => guard (negb (has m k)) (apply m (Replace k e))
  | ORemove k, BOk => guard (has m k) (apply m (Remove k))
  | ORemove k, BErr => guard (negb (has m k)) (apply m (Remove k))
  | ORemoveByPath p, BRemoved k =>
      match lookup m k with
      | Some e => guard (N.eqb (epath e) p) (apply m (RemoveByPathAt p k))
      | None => None
      end
  | ORemoveByPath p, BErr => guard (negb (existsb (fun kv => N.eqb (epath (snd kv)) p) m)) m
  | OGet k, BEpoch id => match lookup m k with Some e => guard (N.eqb (eid e) id) m | None => None end
  | OGet k, BErr => guard (negb (has m k)) m
  | OHas k, BBool x => guard (Bool.eqb (has m k) x) m
  | OCount, BCount n => guard (N.eqb (N.of_nat (List.length m)) n) m
  | ONumbers, BList l => guard (listN_eqb l (epoch_numbers m)) m
  | OMostRecent, BEpoch id => match most_recent m with Some e => guard (N.eqb (eid e) id) m | None => None end
  | OMostRecent, BErr => match most_recent m with Some _ => None | None => Some m end
  | OOldest, BEpoch id => match oldest m with Some e => guard (N.eqb (eid e) id) m | None => None end
  | OOldest, BErr => match oldest m with Some _ => None | None => Some m end
  | _, _ => None
  end.

Fixpoint seq_ok (m : emap) (steps : list (mop * mobs)) : bool :=
  match steps with
  | [] => true
  | (o, b) :: r => match mstep m o b with Some m' => seq_ok m' r | None => false end
  end.

Inductive case :=
| CTrace (name : string) (observed : list op)
| CReplay (name : string) (observed : list op) (forced stalled : bool)
| CSeq (steps : list (mop * mobs)).

Definition case_ok (c : case) : bool :=
  match c with
  | CTrace name obs => existsb (ops_eqb (norm obs)) (map norm (programs_of name))
  | CReplay _ obs forced stalled =>
      if forced then Bool.eqb stalled (model_deadlocks obs) else implb stalled (model_deadlocks obs)
  | CSeq steps => seq_ok [] steps
  end.

Fixpoint check_from (i : nat) (cs : list case) : list nat :=
  match cs with
  | [] => []
  | c :: r => if case_ok c then check_from (S i) r else i :: check_from (S i) r
  end.
Definition check (cs : list case) : list nat := check_from 0 cs.

(* ---------- the checker is tied to the theorems ---------- *)
Lemma ops_eqb_eq a : forall b, ops_eqb a b = true -> a = b.
Proof.
  induction a as [|x a IH]; intros [|y b] H; cbn in H; try discriminate; [reflexivity|].
  apply andb_true_iff in H. destruct H as [Hx Hr]. rewrite (IH b Hr).
  destruct x, y; cbn in Hx; try discriminate; reflexivity.
Qed.

(* an accepted trace is, up to the loop normal form, one of the generated programs *)
Lemma accepted_in (l : list (string * list op)) name obs :
  existsb (ops_eqb (norm obs)) (map norm (map snd (filter (fun np => String.eqb (fst np) name) l))) = true ->
  exists p, In p (map snd l) /\ norm p = norm obs.
Proof.
  intros H. apply existsb_exists in H. destruct H as [q [Hin Heq]]. apply ops_eqb_eq in Heq. subst q.
  apply in_map_iff in Hin. destruct Hin as [p [Hp Hin]]. exists p. split; [|exact Hp].
  apply in_map_iff in Hin. destruct Hin as [[n q] [Hq Hf]]. cbn [snd] in Hq. subst q.
  apply filter_In in Hf. destruct Hf as [Hf _]. apply in_map_iff. exists (n, p). split; [reflexivity|exact Hf].
Qed.
Lemma ctrace_ok_in name obs : case_ok (CTrace name obs) = true -> exists p, In p programs /\ norm p = norm obs.
Proof. exact (accepted_in named_programs name obs). Qed.

Example norm_examples :
  norm [RLock; RUnlock; RLock; RUnlock; RLock; RUnlock; RLock; RUnlock; WLock; WUnlock; RLock; RUnlock]
    = [RLock; RUnlock; RLock; RUnlock; WLock; WUnlock; RLock; RUnlock]
  /\ norm [RLock; RLock; RUnlock; RUnlock] = [RLock; RLock; RUnlock; RUnlock]
  /\ norm [RLock; RUnlock] = [RLock; RUnlock].
Proof. repeat split; vm_compute; reflexivity. Qed.

(* when the model says "deadlocks", a deadlocking schedule exists in the transition system *)
Lemma model_deadlocks_sound p : model_deadlocks p = true ->
  exists sched s, run (init [p; writer]) sched = Some s /\ (forall t, step s t = None) /\ ~ done s.
Proof.
  unfold model_deadlocks. destruct (find_deadlock p) as [sched|] eqn:E; [|discriminate]. intros _.
  exists sched. apply find_deadlock_sound, E.
Qed.

Lemma model_deadlocks_flat p : flat p = true -> model_deadlocks p = false.
Proof. intros H. unfold model_deadlocks. rewrite (flat_find_deadlock_none p H). reflexivity. Qed.

(* every accepted history keeps the model map well formed, so the listing theorems apply to it *)
Lemma guard_some c m m' : guard c m = Some m' -> m' = m.
Proof. unfold guard. destruct c; intros E; inversion E; reflexivity. Qed.

Lemma mstep_shape m o b m' : mstep m o b = Some m' -> m' = m \/ exists w, m' = apply m w.
Proof.
  destruct o as [k e|k e|k e|k|p|k|k| | | |]; destruct b as [| |k'|id|x|n|l]; cbn [mstep]; try discriminate; intros H.
  all: try (apply guard_some in H; subst; first [left; reflexivity | right; eexists; reflexivity]).
  - injection H as <-. right; exists (ReplaceOrAdd k e); reflexivity.
  - destruct (lookup m k'); [|discriminate]. apply guard_some in H. subst. right; eexists; reflexivity.
  - destruct (lookup m k); [|discriminate]. apply guard_some in H. left; exact H.
  - destruct (most_recent m); [discriminate|]. injection H as <-; left; reflexivity.
  - destruct (most_recent m); [|discriminate]. apply guard_some in H. left; exact H.
  - destruct (oldest m); [discriminate|]. injection H as <-; left; reflexivity.
  - destruct (oldest m); [|discriminate]. apply guard_some in H. left; exact H.
Qed.

Lemma mstep_wf m o b m' : wf m -> mstep m o b = Some m' -> wf m'.
Proof.
  intros Hwf H. destruct (mstep_shape _ _ _ _ H) as [->|[w ->]]; [exact Hwf|apply apply_wf, Hwf].
Qed.
