(* C06 — the orders of the pinned tree refuted on the model (vm_compute witnesses). They are the shapes
   observed on the real code (notes/probes/c06_*.txt, and the replays of bin/check C06 on the pinned tree):
   batch size 2 stands for 1000. Entries are numbered in push order, so the right answer is descending. *)
From Coq Require Import List NArith Arith.
Import ListNotations.
Require Import Gsfa C06_Machine C06_Store C06_Front C06_Gsfa.
Local Close Scope N_scope.
Local Open Scope nat_scope.

Definition rprm (via : bool) (R : nat) : params := Prm 2 2 2 2%N 1%N 100%N R via.
Definition rone (ids : list nat) : list (push nat) := map (fun i => Push nat 1%N [7] i) ids.
Definition r_eager (n : nat) : sched := repeat [BWrite; BWrite; BRecv; BWrite; BWrite] n.

(* Close of the pinned tree: accumulators first, then the channel is drained, parked batches are dropped *)
Definition close_as_pinned := close_pinned nat (astore nat) (aflush nat) 2.
(* the same with the parked batches written at exit (only fixes/C06-parked-batches.diff applied) *)
Definition close_accum_1st := close_accum_first nat (astore nat) (aflush nat) 2.

(* (1) a full batch parked in tmpBuf is lost: 2 pushes -> nothing, 3 pushes -> only the last
       (real code: 1000 -> "pubkey not found", 1001 -> 1) *)
Example parked_batch_lost :
  pos_get nat (gsfa_pos_with nat close_as_pinned (rprm true 100) (rone [1; 2]) []) 7 = [] /\
  pos_get nat (gsfa_pos_with nat close_as_pinned (rprm true 100) (rone [1; 2; 3]) []) 7 = [3].
Proof. split; vm_compute; reflexivity. Qed.

(* (2) accumulators flushed before the older batches: wrong order, and which wrong order depends on how far
       the background goroutine got (real code: 2001 pushes -> batch 1, then entry 2001, under GOMAXPROCS=1) *)
Example close_order_wrong :
  pos_get nat (gsfa_pos_with nat close_accum_1st (rprm true 100) (rone [1; 2; 3]) []) 7 = [2; 1; 3] /\
  pos_get nat (gsfa_pos_with nat close_as_pinned (rprm true 100) (rone [1; 2; 3; 4; 5]) []) 7 = [2; 1; 5] /\
  pos_get nat (gsfa_pos_with nat close_as_pinned (rprm true 100) (rone [1; 2; 3; 4; 5]) (r_eager 10)) 7 = [5; 2; 1].
Proof. repeat split; vm_compute; reflexivity. Qed.

(* the repaired Close on the same histories and schedules *)
Example repaired_close_right :
  pos_get nat (gsfa_pos nat (rprm true 100) (rone [1; 2; 3]) []) 7 = [3; 2; 1] /\
  pos_get nat (gsfa_pos nat (rprm true 100) (rone [1; 2; 3; 4; 5]) []) 7 = [5; 4; 3; 2; 1] /\
  pos_get nat (gsfa_pos nat (rprm true 100) (rone [1; 2; 3; 4; 5]) (r_eager 10)) 7 = [5; 4; 3; 2; 1].
Proof. repeat split; vm_compute; reflexivity. Qed.

(* (3) the synchronous periodic flush relies on the pop rank to skip keys that have a batch on its way.
       Rank list of size 1: address 1 has two full batches, address 2 one; purge() drops address 2 while its
       batch [5;6] is still in the channel; push 9 (slot 0, 2 > 1 keys accumulated) flushes address 2's
       accumulator [7] synchronously, ahead of [5;6]. (Real constants: needs more than 10 000 distinct
       flush counts, i.e. > 5*10^10 pushes.) *)
Definition rank_hist : list (push nat) :=
  [Push nat 1%N [1] 1; Push nat 1%N [1] 2; Push nat 1%N [1] 3; Push nat 1%N [1] 4;
   Push nat 1%N [2] 5; Push nat 1%N [2] 6; Push nat 1%N [2] 7; Push nat 1%N [3] 8;
   Push nat 0%N [4] 9; Push nat 1%N [2] 10].

Example sync_flush_overtakes_pending_batch :
  pos_get nat (gsfa_pos nat (rprm false 1) rank_hist []) 2 = [10; 6; 5; 7] /\
  pos_get nat (gsfa_pos nat (rprm false 1) rank_hist (r_eager 30)) 2 = [10; 6; 5; 7].
Proof. split; vm_compute; reflexivity. Qed.

(* ... the hypothesis of the theorem for the synchronous flush fails on it ... *)
Example sync_flush_hypothesis_fails :
  ~ purge_is_noop nat (astore nat) (aflush nat) (rprm false 1) rank_hist [] (pos_init nat).
Proof.
  intros H. vm_compute in H. do 8 (destruct H as [_ H]). destruct H as [H _].
  specialize (H eq_refl). discriminate H.
Qed.

(* ... a rank list large enough, or the periodic flush through the channel (repaired), are right *)
Example sync_flush_fine_with_large_rank :
  pos_get nat (gsfa_pos nat (rprm false 100) rank_hist []) 2 = [10; 7; 6; 5].
Proof. vm_compute. reflexivity. Qed.
Example flush_via_channel_right :
  pos_get nat (gsfa_pos nat (rprm true 1) rank_hist []) 2 = [10; 7; 6; 5] /\
  pos_get nat (gsfa_pos nat (rprm true 1) rank_hist (r_eager 30)) 2 = [10; 7; 6; 5].
Proof. split; vm_compute; reflexivity. Qed.
