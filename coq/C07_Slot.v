(* C07 — part D: the slot-window variant (iterBeforeUntilSlot). *)
From Coq Require Import List Arith Lia Bool PeanoNat NArith ZArith Permutation Sorting.Sorted.
From Coq Require Import ZifyN ZifyNat ZifyBool.
Import ListNotations.
Require Import YF.C07_Model YF.C07_Proofs YF.C07_Reply.

Definition SF upper (limit : nat) (before until : N) (l : list tagged) (s : sst) : sst :=
  fold_left (svisit upper limit before until) l s.

Lemma SF_cons upper limit before until x l s :
  SF upper limit before until (x :: l) s = SF upper limit before until l (svisit upper limit before until s x).
Proof. reflexivity. Qed.
Lemma SF_app upper limit before until l1 l2 s :
  SF upper limit before until (l1 ++ l2) s = SF upper limit before until l2 (SF upper limit before until l1 s).
Proof. unfold SF. apply fold_left_app. Qed.
Lemma SF_stopped upper limit before until l : forall s, sstop s = true -> SF upper limit before until l s = s.
Proof.
  induction l as [|x l IH]; intros s H; [reflexivity|].
  rewrite SF_cons. unfold svisit. rewrite H. apply IH; exact H.
Qed.

Lemma ssaturated upper limit before until l : forall s,
  limit <= length (sout s) -> sout (SF upper limit before until l s) = sout s.
Proof.
  induction l as [|x l IH]; intros s Hle; [reflexivity|].
  rewrite SF_cons. unfold svisit. destruct (sstop s) eqn:Es; [now apply IH|].
  unfold sstep. destruct (Z.of_N (slot x) <? to_int until)%Z.
  - rewrite SF_stopped by reflexivity. reflexivity.
  - destruct (upper && (before <=? slot x)%N); [now apply IH|].
    replace (limit <=? length (sout s)) with true by (symmetry; apply Nat.leb_le; lia).
    rewrite SF_stopped by reflexivity. reflexivity.
Qed.

Definition sequiv upper limit before until (s1 s2 : sst) : Prop :=
  forall l, sout (SF upper limit before until l s1) = sout (SF upper limit before until l s2).

Lemma sentries_loop_SF upper limit before until r : forall s, sstop s = false ->
  sentries_loop upper limit before until s r = SF upper limit before until r s.
Proof.
  induction r as [|x r IH]; intros s Hs; [reflexivity|].
  cbn [sentries_loop]. rewrite SF_cons. unfold svisit. rewrite Hs.
  destruct (sstop (sstep upper limit before until s x)) eqn:E.
  - now rewrite SF_stopped.
  - apply IH; exact E.
Qed.

Lemma schain_fusion upper limit before until : forall c s, sstop s = false ->
  sequiv upper limit before until (schain_loop upper limit before until s c)
                                  (SF upper limit before until (concat (visible c)) s).
Proof.
  induction c as [|r c IH]; intros s Hs.
  - intros l; reflexivity.
  - cbn [schain_loop]. destruct (limit <=? length (sout s)) eqn:E.
    + apply Nat.leb_le in E. intros l. rewrite SF_stopped by reflexivity. cbn [sout].
      rewrite <- SF_app. now rewrite ssaturated.
    + destruct r as [|x r]; [intros l; reflexivity|].
      rewrite visible_cons_nonempty. cbn [concat]. rewrite sentries_loop_SF by exact Hs.
      set (s' := SF upper limit before until (x :: r) s).
      destruct (sstop s') eqn:Es'.
      * intros l. rewrite SF_app. fold s'. now rewrite (SF_stopped _ _ _ _ (concat (visible c)) s' Es').
      * intros l. rewrite SF_app. fold s'. now apply IH.
Qed.

(* entries at or above `before` are passed over without any effect (repaired loop, and until <= before) *)
Lemma SF_above limit before until l : (until <= before)%N -> (until < 2^63)%N ->
  (forall x, In x l -> (before <= slot x)%N) ->
  forall s, SF true limit before until l s = s.
Proof.
  intros Hub Hu. induction l as [|x l IH]; intros Hl s; [reflexivity|].
  rewrite SF_cons. rewrite IH by (intros; apply Hl; cbn; auto).
  unfold svisit. destruct (sstop s); [reflexivity|]. unfold sstep, to_int.
  specialize (Hl x (or_introl eq_refl)).
  rewrite N.mod_small by lia.
  replace (until <? 2^63)%N with true by (symmetry; apply N.ltb_lt; exact Hu).
  replace (Z.of_N (slot x) <? Z.of_N until)%Z with false by (symmetry; apply Z.ltb_ge; lia).
  cbn [andb]. replace (before <=? slot x)%N with true by (symmetry; apply N.leb_le; exact Hl). reflexivity.
Qed.

Definition snd_hist (p : N * idx tagged) : list tagged := idx_hist (snd p).

Lemma sepochs_fusion limit before until be : (until <= before)%N -> (until < 2^63)%N ->
  forall eps s, sstop s = false ->
  Forall (fun p => snd p <> Failed) eps ->
  (forall p x, In p eps -> (be < fst p)%N -> In x (snd_hist p) -> (before <= slot x)%N) ->
  exists s', sepochs_loop true limit before until be s eps = Some s' /\
             sequiv true limit before until s' (SF true limit before until (concat (map snd_hist eps)) s).
Proof.
  intros Hub Hu. induction eps as [|[e i] eps IH]; intros s Hs Hnf Hskip.
  - exists s. split; [reflexivity|intros l; reflexivity].
  - inversion Hnf as [|? ? Hi Hnf']; subst. cbn [sepochs_loop map concat].
    assert (Hskip' : forall p x, In p eps -> (be < fst p)%N -> In x (snd_hist p) -> (before <= slot x)%N)
      by (intros; eapply Hskip; eauto; cbn; auto).
    destruct (N.ltb_spec be e) as [Hlt|Hge].
    + destruct (IH s Hs Hnf' Hskip') as [s' [E1 E2]]. exists s'. split; [exact E1|].
      intros l. rewrite E2. rewrite (SF_app _ _ _ _ (snd_hist (e, i))).
      rewrite (SF_above limit before until (snd_hist (e, i)) Hub Hu); [reflexivity|].
      intros x Hx. apply (Hskip (e, i) x); cbn; auto.
    + cbn in Hi. destruct i as [c| |]; [| |congruence].
      * pose proof (schain_fusion true limit before until c s Hs) as He.
        set (s1 := schain_loop true limit before until s c) in *.
        unfold snd_hist at 1. cbn [snd idx_hist].
        destruct (sstop s1) eqn:Es1.
        -- exists s1. split; [reflexivity|]. intros l.
           rewrite SF_stopped by exact Es1. rewrite SF_app, <- SF_app.
           rewrite <- (He (concat (map snd_hist eps) ++ l)). now rewrite SF_stopped.
        -- destruct (IH s1 Es1 Hnf' Hskip') as [s' [E1 E2]]. exists s'. split; [exact E1|].
           intros l. rewrite E2. rewrite (SF_app _ _ _ _ (concat (visible c))).
           set (t := SF true limit before until (concat (visible c)) s).
           rewrite <- (SF_app true limit before until (concat (map snd_hist eps)) l s1).
           rewrite <- (SF_app true limit before until (concat (map snd_hist eps)) l t).
           apply He.
      * apply IH; auto.
Qed.

(* flat machine = first `limit` entries of the window, when slots do not increase along the history *)
Definition slots_desc : list tagged -> Prop := StronglySorted (fun a b => (slot b <= slot a)%N).

Lemma to_int_small u : (u < 2^63)%N -> to_int u = Z.of_N u.
Proof.
  intros H. unfold to_int. rewrite N.mod_small by lia.
  replace (u <? 2^63)%N with true by (symmetry; apply N.ltb_lt; exact H). reflexivity.
Qed.

Lemma filter_none {A} (f : A -> bool) l : (forall x, In x l -> f x = false) -> filter f l = [].
Proof.
  induction l as [|x l IH]; intros H; [reflexivity|]. cbn. rewrite H by (cbn; auto).
  apply IH. intros; apply H; cbn; auto.
Qed.

Lemma sflat_spec limit before until : (until < 2^63)%N -> forall l o, slots_desc l ->
  sout (SF true limit before until l {| sout := o; sstop := false |}) =
  o ++ firstn (limit - length o) (filter (in_window before until) l).
Proof.
  intros Hu. unfold slots_desc. induction l as [|x l IH]; intros o Hsorted.
  - cbn. rewrite firstn_nil. now rewrite app_nil_r.
  - apply StronglySorted_inv in Hsorted. destruct Hsorted as [Hs Hf]. rewrite Forall_forall in Hf.
    rewrite SF_cons. unfold svisit. cbn [sstop]. unfold sstep. rewrite to_int_small by exact Hu. cbn [sout filter].
    destruct (Z.ltb_spec (Z.of_N (slot x)) (Z.of_N until)) as [Hlt|Hge].
    + rewrite SF_stopped by reflexivity. cbn [sout].
      assert (W : in_window before until x = false).
      { unfold in_window. replace (until <=? slot x)%N with false by (symmetry; apply N.leb_gt; lia). reflexivity. }
      rewrite W. rewrite filter_none; [rewrite firstn_nil; now rewrite app_nil_r|].
      intros y Hy. specialize (Hf y Hy). unfold in_window.
      replace (until <=? slot y)%N with false by (symmetry; apply N.leb_gt; lia). reflexivity.
    + cbn [andb]. destruct (N.leb_spec before (slot x)) as [Hb|Hb].
      * assert (W : in_window before until x = false).
        { unfold in_window. replace (slot x <? before)%N with false by (symmetry; apply N.ltb_ge; exact Hb).
          now rewrite andb_false_r. }
        rewrite W. now apply IH.
      * assert (W : in_window before until x = true).
        { unfold in_window. replace (slot x <? before)%N with true by (symmetry; apply N.ltb_lt; exact Hb).
          replace (until <=? slot x)%N with true by (symmetry; apply N.leb_le; lia). reflexivity. }
        rewrite W. destruct (Nat.leb_spec limit (length o)) as [Hl|Hl].
        -- rewrite SF_stopped by reflexivity. cbn [sout]. replace (limit - length o) with 0 by lia.
           cbn. now rewrite app_nil_r.
        -- rewrite IH by exact Hs. rewrite app_length. cbn [length].
           destruct (limit - length o) as [|k] eqn:Ek; [lia|].
           replace (limit - (length o + 1)) with k by lia. cbn [firstn]. now rewrite <- app_assoc.
Qed.

Lemma tag_epochs_n_hist eps : concat (map snd_hist (tag_epochs_n eps)) = history eps.
Proof. unfold history, tag_epochs_n. now rewrite map_map. Qed.

(* every entry of epoch e lies at or after the first slot of e *)
Definition slots_in_epoch (epoch_len : N) (eps : list epoch) : Prop :=
  forall t, In t (history eps) -> (tag t * epoch_len <= slot t)%N.

Lemma before_epoch_lt epoch_len before e : (0 < epoch_len)%N -> (before / epoch_len < e)%N ->
  (before < e * epoch_len)%N.
Proof.
  intros Hpos Hlt.
  pose proof (N.mul_succ_div_gt before epoch_len ltac:(lia)) as H.
  assert ((N.succ (before / epoch_len)) * epoch_len <= e * epoch_len)%N by (apply N.mul_le_mono_r; lia).
  lia.
Qed.

(* the repaired GetBeforeUntilSlot returns exactly the first `limit` entries of the window *)
Theorem get_before_until_slot_spec epoch_len eps limit before until :
  (0 < epoch_len)%N -> (until < 2^63)%N ->
  Forall no_failure eps -> slots_desc (history eps) -> slots_in_epoch epoch_len eps ->
  get_before_until_slot true epoch_len eps limit before until =
  Some (slot_spec (Z.to_nat limit) before until (history eps)).
Proof.
  intros Hpos Hu Hnf Hsd Hie. unfold get_before_until_slot, slot_spec.
  destruct (Z.leb_spec limit 0) as [Hle|Hgt]; cbn [orb].
  - replace (Z.to_nat limit) with 0 by lia. reflexivity.
  - destruct (N.ltb_spec before until) as [Hbu|Hbu].
    + rewrite filter_none; [now rewrite firstn_nil|]. intros x _. unfold in_window.
      destruct (N.leb_spec until (slot x)); cbn [andb]; [|reflexivity]. apply N.ltb_ge. lia.
    + destruct (sepochs_fusion (Z.to_nat limit) before until (before / epoch_len)%N Hbu Hu
                  (tag_epochs_n eps) {| sout := []; sstop := false |} eq_refl) as [s' [E1 E2]].
      * unfold tag_epochs_n. apply Forall_map. eapply Forall_impl; [|exact Hnf].
        intros [e i] Hi. unfold no_failure in Hi. cbn in *. destruct i; cbn; congruence.
      * intros p x Hp Hlt Hx. unfold tag_epochs_n in Hp. apply in_map_iff in Hp.
        destruct Hp as [[e i] [<- Hp]]. cbn [fst snd] in *. unfold snd_hist in Hx. cbn [snd] in Hx.
        assert (Hh : In x (history eps)).
        { unfold history. apply in_concat. eexists. split; [|exact Hx].
          apply in_map_iff. exists (e, i). split; [reflexivity|exact Hp]. }
        pose proof (Hie x Hh) as H1. apply idx_hist_tag in Hx. rewrite Hx in H1.
        pose proof (before_epoch_lt epoch_len before e Hpos Hlt). lia.
      * rewrite E1. cbn [option_map]. f_equal. specialize (E2 []). cbn [SF fold_left] in E2. rewrite E2.
        rewrite tag_epochs_n_hist. rewrite sflat_spec by assumption. cbn [app length]. now rewrite Nat.sub_0_r.
Qed.

(* ---------- soundness of the window without any assumption on the index content ---------- *)
Definition all_in_window before until (s : sst) : Prop :=
  Forall (fun x => (until <= slot x < before)%N) (sout s).

Lemma sstep_window limit before until s x : (until < 2^63)%N ->
  all_in_window before until s -> all_in_window before until (sstep true limit before until s x).
Proof.
  intros Hu H. unfold sstep. rewrite to_int_small by exact Hu.
  destruct (Z.ltb_spec (Z.of_N (slot x)) (Z.of_N until)); [exact H|]. cbn [andb].
  destruct (N.leb_spec before (slot x)); [exact H|].
  destruct (limit <=? length (sout s)); [exact H|].
  unfold all_in_window. cbn [sout]. apply Forall_app. split; [exact H|]. constructor; [lia|constructor].
Qed.
Lemma sentries_window limit before until r : (until < 2^63)%N -> forall s,
  all_in_window before until s -> all_in_window before until (sentries_loop true limit before until s r).
Proof.
  intros Hu. induction r as [|x r IH]; intros s H; [exact H|]. cbn [sentries_loop].
  pose proof (sstep_window limit before until s x Hu H) as H'.
  destruct (sstop _); [exact H'|]. now apply IH.
Qed.
Lemma schain_window limit before until c : (until < 2^63)%N -> forall s,
  all_in_window before until s -> all_in_window before until (schain_loop true limit before until s c).
Proof.
  intros Hu. induction c as [|r c IH]; intros s H; [exact H|]. cbn [schain_loop].
  destruct (limit <=? length (sout s)); [exact H|]. destruct r as [|x r]; [exact H|].
  pose proof (sentries_window limit before until (x :: r) Hu s H) as H'.
  destruct (sstop _); [exact H'|]. now apply IH.
Qed.
Lemma sepochs_window limit before until be eps : (until < 2^63)%N -> forall s s',
  all_in_window before until s -> sepochs_loop true limit before until be s eps = Some s' ->
  all_in_window before until s'.
Proof.
  intros Hu. induction eps as [|[e i] eps IH]; intros s s' H E; cbn [sepochs_loop] in E.
  - inversion E; subst; exact H.
  - destruct (be <? e)%N; [eapply IH; eauto|]. destruct i as [c| |]; [|eapply IH; eauto|discriminate].
    pose proof (schain_window limit before until c Hu s H) as H'.
    destruct (sstop _); [inversion E; subst; exact H'|]. eapply IH; eauto.
Qed.

Theorem slot_window_sound epoch_len eps limit before until m :
  (until < 2^63)%N -> get_before_until_slot true epoch_len eps limit before until = Some m ->
  forall t, In t m -> (until <= slot t < before)%N.
Proof.
  intros Hu E t Ht. unfold get_before_until_slot in E.
  destruct ((limit <=? 0)%Z || (before <? until)%N)%bool; [inversion E; subst; destruct Ht|].
  destruct (sepochs_loop _ _ _ _ _ _ _) as [s'|] eqn:Es; [|discriminate]. cbn in E. inversion E; subst m.
  assert (H : all_in_window before until s').
  { eapply sepochs_window; [exact Hu| |exact Es]. constructor. }
  unfold all_in_window in H. rewrite Forall_forall in H. now apply H.
Qed.

(* pinned loop (no upper test): entries above the window are returned *)
Lemma slot_window_unchecked_refuted :
  exists eps limit before until m t,
    get_before_until_slot false 432000 eps limit before until = Some m /\ In t m /\ (before <= slot t)%N.
Proof.
  exists [(2%N, Found [[(3, 864009%N); (2, 864005%N); (1, 864002%N)]])], 1000%Z, 864006%N, 864002%N.
  eexists. exists (2%N, (3, 864009%N)). split; [vm_compute; reflexivity|]. split; [cbn; auto|]. vm_compute. discriminate.
Qed.

(* absent epochs *)
Lemma sepochs_loop_absent upper limit before until be eps1 e eps2 : forall s,
  sepochs_loop upper limit before until be s (eps1 ++ (e, NotFound) :: eps2) =
  sepochs_loop upper limit before until be s (eps1 ++ eps2).
Proof.
  induction eps1 as [|[e1 i] eps1 IH]; intros s.
  - cbn [app sepochs_loop]. destruct (be <? e)%N; reflexivity.
  - cbn [app sepochs_loop]. destruct (be <? e1)%N; auto. destruct i; auto. destruct (sstop _); auto.
Qed.
Theorem slot_absent_skipped upper epoch_len eps1 e eps2 limit before until :
  get_before_until_slot upper epoch_len (eps1 ++ (e, NotFound) :: eps2) limit before until =
  get_before_until_slot upper epoch_len (eps1 ++ eps2) limit before until.
Proof.
  unfold get_before_until_slot. destruct (_ || _)%bool; [reflexivity|].
  unfold tag_epochs_n. rewrite !map_app. cbn [map fst snd tag_idx]. now rewrite sepochs_loop_absent.
Qed.

(* boolean versions of the two hypotheses on the index content (used for the non-vacuity examples and by the harness's
   case selection) *)
Fixpoint slots_descb (l : list tagged) : bool :=
  match l with [] => true | x :: t => forallb (fun y => (slot y <=? slot x)%N) t && slots_descb t end.
Lemma slots_descb_sound l : slots_descb l = true -> slots_desc l.
Proof.
  unfold slots_desc. induction l as [|x t IH]; intros H; [constructor|]. cbn in H.
  apply andb_true_iff in H. destruct H as [H1 H2]. constructor; [auto|].
  rewrite forallb_forall in H1. rewrite Forall_forall. intros y Hy. apply N.leb_le. auto.
Qed.
Definition slots_in_epochb (epoch_len : N) (l : list tagged) : bool :=
  forallb (fun t => (tag t * epoch_len <=? slot t)%N) l.
Lemma slots_in_epochb_sound epoch_len eps :
  slots_in_epochb epoch_len (history eps) = true -> slots_in_epoch epoch_len eps.
Proof.
  unfold slots_in_epochb, slots_in_epoch. intros H t Ht. rewrite forallb_forall in H. apply N.leb_le. auto.
Qed.
