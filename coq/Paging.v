From Coq Require Import List Arith Lia Bool PeanoNat.
Import ListNotations.

(* gsfa-read-multiepoch.go:iterBeforeUntil. Signatures are nat. Input: epochs (newest first), each a
   chain of records (newest first), each record a list of signatures (newest first). *)
Record st := { reached : bool; out : list nat; stop : bool }.

Definition visit (limit : nat) (before until : option nat) (s : st) (sig : nat) : st :=
  if stop s then s
  else if negb (reached s) && (match before with Some b => Nat.eqb sig b | None => false end)
       then {| reached := true; out := out s; stop := false |}
  else if negb (reached s) then s
  else if limit <=? length (out s) then {| reached := true; out := out s; stop := true |}
  else let out' := out s ++ [sig] in
       {| reached := true; out := out';
          stop := match until with Some u => Nat.eqb sig u | None => false end |}.

(* the per-record pre-check `if limit > 0 && count >= limit { break epochLoop }` *)
Definition pre_record (limit : nat) (s : st) : st :=
  if stop s then s else if limit <=? length (out s) then {| reached := reached s; out := out s; stop := true |} else s.

Definition iter (limit : nat) (before until : option nat) (epochs : list (list (list nat))) : list nat :=
  let s0 := {| reached := match before with None => true | Some _ => false end; out := []; stop := false |} in
  out (fold_left (fun s ep => fold_left (fun s rec_ => fold_left (visit limit before until) rec_ (pre_record limit s)) ep s) epochs s0).

(* specification on the flat history *)
Fixpoint after (b : nat) (l : list nat) : list nat :=
  match l with [] => [] | x :: r => if Nat.eqb x b then r else after b r end.
Fixpoint upto (u : nat) (l : list nat) : list nat :=
  match l with [] => [] | x :: r => if Nat.eqb x u then [x] else x :: upto u r end.
Definition slice_spec (limit : nat) (before until : option nat) (hist : list nat) : list nat :=
  let a := match before with Some b => after b hist | None => hist end in
  let c := firstn limit a in
  match until with Some u => upto u c | None => c end.

Definition flat_visit limit before until (hist : list nat) (s : st) : st := fold_left (visit limit before until) hist s.

Lemma visit_stopped limit before until l s : stop s = true -> flat_visit limit before until l s = s.
Proof. revert s; induction l as [|x l IH]; intros s H; cbn; auto. unfold visit at 2. rewrite H. apply IH; auto. Qed.

Lemma no_append limit before until l s :
  stop s = false -> reached s = true -> limit <= length (out s) ->
  out (flat_visit limit before until l s) = out s.
Proof.
  intros Es Hre E. destruct l as [|x l]; cbn; auto.
  unfold visit at 2. rewrite Es, Hre. cbn [negb andb].
  replace (limit <=? length (out s)) with true by (symmetry; apply Nat.leb_le; lia).
  fold (flat_visit limit before until l {| reached := true; out := out s; stop := true |}).
  now rewrite visit_stopped.
Qed.

(* the pre-check never changes the result *)
Lemma pre_record_harmless limit before until l s : (reached s = false -> out s = []) -> 0 < limit ->
  out (flat_visit limit before until l (pre_record limit s)) = out (flat_visit limit before until l s).
Proof.
  intros Hr Hl. unfold pre_record. destruct (stop s) eqn:Es; auto.
  destruct (limit <=? length (out s)) eqn:E; auto. apply Nat.leb_le in E.
  rewrite (visit_stopped limit before until l {| reached := reached s; out := out s; stop := true |} eq_refl). cbn [out].
  assert (Hre : reached s = true). { destruct (reached s) eqn:R; auto. rewrite Hr in E by auto. cbn in E. lia. }
  symmetry. apply no_append; auto.
Qed.

Definition tail_spec (limit : nat) (until : option nat) (o l : list nat) : list nat :=
  o ++ (let c := firstn (limit - length o) l in match until with Some u => upto u c | None => c end).

Lemma reached_spec limit before until : forall l o,
  out (flat_visit limit before until l {| reached := true; out := o; stop := false |}) = tail_spec limit until o l.
Proof.
  induction l as [|x l IH]; intros o.
  - unfold tail_spec. cbn. destruct until; rewrite firstn_nil; cbn; now rewrite app_nil_r.
  - destruct (Nat.le_gt_cases limit (length o)) as [Hle|Hgt].
    + rewrite no_append by (cbn; auto). unfold tail_spec. replace (limit - length o) with 0 by lia.
      cbn. destruct until; cbn; now rewrite app_nil_r.
    + cbn [flat_visit fold_left]. unfold visit at 2. cbn [stop reached negb andb out].
      replace (limit <=? length o) with false by (symmetry; apply Nat.leb_gt; lia).
      unfold tail_spec. destruct (limit - length o) as [|k] eqn:Ek; [lia|]. cbn [firstn].
      destruct until as [u|].
      * cbn [upto]. destruct (Nat.eqb x u) eqn:Exu.
        -- fold (flat_visit limit before (Some u) l {| reached := true; out := o ++ [x]; stop := true |}).
           now rewrite visit_stopped.
        -- fold (flat_visit limit before (Some u) l {| reached := true; out := o ++ [x]; stop := false |}).
           rewrite IH. unfold tail_spec. rewrite app_length. cbn [length].
           replace (limit - (length o + 1)) with k by lia. now rewrite <- app_assoc.
      * fold (flat_visit limit before None l {| reached := true; out := o ++ [x]; stop := false |}).
        rewrite IH. unfold tail_spec. rewrite app_length. cbn [length].
        replace (limit - (length o + 1)) with k by lia. now rewrite <- app_assoc.
Qed.

Lemma unreached_spec limit b until : forall l,
  out (flat_visit limit (Some b) until l {| reached := false; out := []; stop := false |}) =
  tail_spec limit until [] (after b l).
Proof.
  induction l as [|x l IH].
  - unfold tail_spec. cbn. destruct until; rewrite firstn_nil; reflexivity.
  - cbn [flat_visit fold_left after]. unfold visit at 2. cbn [stop reached negb andb out].
    destruct (Nat.eqb x b) eqn:E.
    + fold (flat_visit limit (Some b) until l {| reached := true; out := []; stop := false |}). apply reached_spec.
    + exact IH.
Qed.

Theorem flat_spec limit before until hist : 
  out (flat_visit limit before until hist
        {| reached := match before with None => true | Some _ => false end; out := []; stop := false |})
  = slice_spec limit before until hist.
Proof.
  unfold slice_spec. destruct before as [b|].
  - rewrite unreached_spec. unfold tail_spec. cbn. now rewrite Nat.sub_0_r.
  - rewrite reached_spec. unfold tail_spec. cbn. now rewrite Nat.sub_0_r.
Qed.

(* nested loops with the per-record pre-check = one pass over the flattened history *)
Definition okst (s : st) : Prop := reached s = false -> out s = [].

Lemma visit_ok limit before until s x : okst s -> okst (visit limit before until s x).
Proof.
  unfold okst, visit. intros H. destruct (stop s); auto.
  destruct (reached s) eqn:R; cbn [negb andb].
  - destruct (limit <=? length (out s)); cbn [reached out]; intros HH; discriminate HH.
  - destruct (match before with Some b => Nat.eqb x b | None => false end); cbn [reached out].
    + intros HH; discriminate HH.
    + rewrite R. exact H.
Qed.

Lemma flat_visit_ok limit before until l : forall s, okst s -> okst (flat_visit limit before until l s).
Proof. induction l as [|x l IH]; intros s H; cbn; auto. apply IH. now apply visit_ok. Qed.

Lemma flat_visit_app limit before until l1 l2 s :
  flat_visit limit before until (l1 ++ l2) s = flat_visit limit before until l2 (flat_visit limit before until l1 s).
Proof. unfold flat_visit. apply fold_left_app. Qed.

(* observational equality of states reached with/without the pre-check: same `out` and later visits agree *)
Lemma pre_record_equiv limit before until s : 0 < limit -> okst s ->
  forall l, out (flat_visit limit before until l (pre_record limit s)) = out (flat_visit limit before until l s).
Proof. intros Hl Hok l. apply pre_record_harmless; auto. Qed.
