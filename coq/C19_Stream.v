(* C19 — streaming a slot range returns exactly the archived items matching the filter.
   Model of grpc-server.go: StreamBlocks, StreamTransactions / processSlotTransactions (scan path and
   index-accelerated path with the ordered buffer). *)
From Coq Require Import List Arith Lia Bool PeanoNat NArith Sorting.Sorted Sorting.Permutation.
Import ListNotations.

(* ---------- archive and filter ---------- *)
Record tx := {
  x_slot : N; x_pos : N; x_vote : bool; x_failed : bool;
  x_static : list N;      (* static account keys *)
  x_loaded : list N;      (* address-table loaded accounts (from the metadata) *)
  x_id : N                (* stands for the payload bytes *)
}.
Definition mentions (t : tx) (a : N) : bool := existsb (N.eqb a) (x_static t) || existsb (N.eqb a) (x_loaded t).

Record flt := {
  f_vote : option bool; f_failed : option bool;
  f_include : list N; f_exclude : list N; f_required : list N
}.

(* THE SPECIFICATION of "satisfies the filter": vote/failed flags (absent = no restriction; false = drop
   vote / failed transactions), any-of included (when the list is not empty), none-of excluded, all-of required *)
Definition keep_flt (f : flt) (t : tx) : bool :=
  negb (match f_vote f with Some false => x_vote t | _ => false end) &&
  negb (match f_failed f with Some false => x_failed t | _ => false end) &&
  (match f_include f with [] => true | inc => existsb (mentions t) inc end) &&
  negb (existsb (mentions t) (f_exclude f)) &&
  forallb (mentions t) (f_required f).
Definition keep (f : option flt) (t : tx) : bool := match f with None => true | Some f => keep_flt f t end.

(* the archive seen through getBlock: slot -> transactions of that block in position order, None = no block *)
Definition archive := N -> option (list tx).

Fixpoint slots_from (lo : N) (n : nat) : list N := match n with O => [] | S m => lo :: slots_from (lo + 1)%N m end.
Definition range (lo hi : N) : list N := if N.ltb hi lo then [] else slots_from lo (S (N.to_nat (hi - lo))).

Definition archived_txs (ar : archive) (lo hi : N) : list tx :=
  flat_map (fun s => match ar s with Some l => l | None => [] end) (range lo hi).

(* ---------- scan path ---------- *)
(* skip_continues = true: a slot without block is skipped (repaired); false: streaming stops there (pinned)
   polarity_ok = true: a transaction is sent iff the predicate says keep (repaired); false: inverted (pinned) *)
Fixpoint scan_slots (skip_continues polarity_ok : bool) (ar : archive) (f : option flt) (ss : list N) : list tx :=
  match ss with
  | [] => []
  | s :: r => match ar s with
              | None => if skip_continues then scan_slots skip_continues polarity_ok ar f r else []
              | Some l => filter (fun t => if polarity_ok then keep f t else negb (keep f t)) l
                          ++ scan_slots skip_continues polarity_ok ar f r
              end
  end.
Definition stream_txs_scan (sk pol : bool) (ar : archive) (lo hi : N) (f : option flt) : list tx :=
  scan_slots sk pol ar f (range lo hi).

Lemma scan_good ar f ss :
  scan_slots true true ar f ss = filter (keep f) (flat_map (fun s => match ar s with Some l => l | None => [] end) ss).
Proof.
  induction ss as [|s r IH]; [reflexivity|]. cbn [scan_slots flat_map]. rewrite filter_app.
  destruct (ar s); [rewrite IH; reflexivity|exact IH].
Qed.

Theorem scan_is_filter ar lo hi f :
  stream_txs_scan true true ar lo hi f = filter (keep f) (archived_txs ar lo hi).
Proof. apply scan_good. Qed.

(* ---------- StreamBlocks ---------- *)
Definition block_keep (inc : list N) (l : list tx) : bool :=
  match inc with [] => true | _ => existsb (fun t => existsb (mentions t) inc) l end.
Fixpoint stream_blocks_slots (ar : archive) (inc : list N) (ss : list N) : list (N * list tx) :=
  match ss with
  | [] => []
  | s :: r => match ar s with
              | None => stream_blocks_slots ar inc r          (* NotFound: continue *)
              | Some l => if block_keep inc l then (s, l) :: stream_blocks_slots ar inc r else stream_blocks_slots ar inc r
              end
  end.
Definition archived_blocks (ar : archive) (lo hi : N) : list (N * list tx) :=
  flat_map (fun s => match ar s with Some l => [(s, l)] | None => [] end) (range lo hi).

Theorem blocks_is_filter ar lo hi inc :
  stream_blocks_slots ar inc (range lo hi) = filter (fun b => block_keep inc (snd b)) (archived_blocks ar lo hi).
Proof.
  unfold archived_blocks. induction (range lo hi) as [|s r IH]; [reflexivity|].
  cbn [stream_blocks_slots flat_map]. destruct (ar s) as [l|]; [|exact IH].
  cbn [app filter snd]. destruct (block_keep inc l); rewrite IH; reflexivity.
Qed.

Lemma slots_from_sorted n : forall lo, StronglySorted N.lt (slots_from lo n).
Proof.
  induction n as [|n IH]; intros lo; cbn; constructor; [apply IH|].
  assert (G : forall m l x, In x (slots_from l m) -> (l <= x)%N).
  { clear. induction m as [|m IHm]; intros l x H; cbn in H; [tauto|]. destruct H as [<-|H]; [lia|]. apply IHm in H. lia. }
  apply Forall_forall. intros x Hx. apply G in Hx. lia.
Qed.
Lemma range_sorted lo hi : StronglySorted N.lt (range lo hi).
Proof. unfold range. destruct (N.ltb hi lo); [constructor|apply slots_from_sorted]. Qed.
Lemma slots_from_in n : forall lo x, In x (slots_from lo n) <-> (lo <= x < lo + N.of_nat n)%N.
Proof.
  induction n as [|n IH]; intros lo x; cbn [slots_from In]; [lia|]. rewrite IH. lia.
Qed.
Lemma range_in lo hi x : In x (range lo hi) <-> (lo <= x <= hi)%N.
Proof.
  unfold range. destruct (N.ltb_spec hi lo); [cbn; lia|]. rewrite slots_from_in. lia.
Qed.

(* ascending slot order, only slots inside the range, each archived block once *)
Theorem blocks_in_range_ascending ar lo hi inc :
  StronglySorted N.lt (map fst (stream_blocks_slots ar inc (range lo hi))) /\
  Forall (fun b => (lo <= fst b <= hi)%N /\ ar (fst b) = Some (snd b)) (stream_blocks_slots ar inc (range lo hi)).
Proof.
  pose proof (range_sorted lo hi) as S. assert (R : forall x, In x (range lo hi) -> (lo <= x <= hi)%N) by (intros; apply range_in; auto).
  induction (range lo hi) as [|s r IH]; cbn [stream_blocks_slots]; [split; constructor|].
  inversion S as [|? ? S' F]; subst.
  destruct (IH S' (fun x H => R x (or_intror H))) as [A B].
  assert (G : Forall (fun b => (s < fst b)%N) (stream_blocks_slots ar inc r)).
  { clear - F. induction r as [|y r IHr]; cbn; [constructor|]. inversion F; subst.
    destruct (ar y); [destruct (block_keep inc l); [constructor; auto|auto]|auto]. }
  destruct (ar s) as [l|] eqn:E; [|split; assumption].
  destruct (block_keep inc l); [|split; assumption]. cbn [map fst]. split.
  - constructor; [exact A|]. rewrite Forall_forall in *. intros x Hx. apply in_map_iff in Hx. destruct Hx as [b [<- Hb]]. auto.
  - constructor; [|exact B]. cbn. split; [apply R; left; reflexivity|exact E].
Qed.

(* ---------- index-accelerated path ---------- *)
(* key of a transaction in the ordered buffer: (slot, position) *)
Definition key_ltb (a b : tx) : bool :=
  N.ltb (x_slot a) (x_slot b) || (N.eqb (x_slot a) (x_slot b) && N.ltb (x_pos a) (x_pos b)).
Definition key_eqb (a b : tx) : bool := N.eqb (x_slot a) (x_slot b) && N.eqb (x_pos a) (x_pos b).

(* buffer.add: items[slot][idx] = tx  (a later add with the same key replaces) ; flush: ascending *)
Fixpoint buf_add (t : tx) (buf : list tx) : list tx :=
  match buf with
  | [] => [t]
  | h :: r => if key_ltb t h then t :: h :: r
              else if key_eqb t h then t :: r
              else h :: buf_add t r
  end.
Definition buf_flush (lo hi : N) (buf : list tx) : list tx :=
  filter (fun t => N.leb lo (x_slot t) && N.leb (x_slot t) hi) buf.

(* per-account index query: the transactions that mention the account with until <= slot < before, newest
   first, cut to [limit] (GetBeforeUntilSlot); the address index is complete: it lists exactly the archived
   transactions that mention the account *)
Definition gsfa_query (all : list tx) (a : N) (limit : nat) (before until : N) : list tx :=
  firstn limit (rev (filter (fun t => mentions t a && N.leb until (x_slot t) && N.ltb (x_slot t) before) all)).

Definition stream_txs_indexed (pol : bool) (limit : nat) (all : list tx) (lo hi : N) (f : flt) : list tx :=
  let found := flat_map (fun a => gsfa_query all a limit (hi + 1) lo) (f_include f) in
  let kept := filter (fun t => if pol then keep (Some (Build_flt (f_vote f) (f_failed f) [] (f_exclude f) (f_required f))) t
                               else negb (keep (Some (Build_flt (f_vote f) (f_failed f) [] (f_exclude f) (f_required f))) t)) found in
  buf_flush lo hi (fold_right buf_add [] kept).

(* sortedness by key *)
Definition key_lt (a b : tx) : Prop := key_ltb a b = true.
Lemma key_lt_trans a b c : key_lt a b -> key_lt b c -> key_lt a c.
Proof.
  unfold key_lt, key_ltb. rewrite !orb_true_iff, !andb_true_iff, !N.ltb_lt, !N.eqb_eq. lia.
Qed.
Lemma key_trichotomy a b : key_ltb a b = false -> key_eqb a b = false -> key_lt b a.
Proof.
  unfold key_lt, key_ltb, key_eqb. rewrite !orb_false_iff, !andb_false_iff, orb_true_iff, andb_true_iff, !N.ltb_ge, !N.ltb_lt, !N.eqb_neq, N.eqb_eq. lia.
Qed.

Lemma buf_add_in t buf x : In x (buf_add t buf) -> x = t \/ In x buf.
Proof.
  induction buf as [|h r IH]; cbn; [intros [->|[]]; auto|].
  destruct (key_ltb t h); [cbn; intros [->|H]; auto|].
  destruct (key_eqb t h); cbn; [intros [->|H]; auto|]. intros [->|H]; auto. apply IH in H. tauto.
Qed.
Lemma buf_add_sorted t buf : StronglySorted key_lt buf -> StronglySorted key_lt (buf_add t buf).
Proof.
  induction 1 as [|h r S IH F]; cbn; [repeat constructor|].
  destruct (key_ltb t h) eqn:E1.
  - constructor; [constructor; auto|]. constructor; [exact E1|].
    rewrite Forall_forall in *. intros x Hx. eapply key_lt_trans; [exact E1|auto].
  - destruct (key_eqb t h) eqn:E2.
    + constructor; [exact S|]. rewrite Forall_forall in *. intros x Hx. specialize (F x Hx).
      unfold key_lt, key_ltb, key_eqb in *. apply andb_true_iff in E2. destruct E2 as [A B]. apply N.eqb_eq in A, B.
      rewrite A, B. exact F.
    + constructor; [exact IH|]. apply Forall_forall. intros x Hx. apply buf_add_in in Hx. destruct Hx as [->|Hx].
      * apply key_trichotomy; assumption.
      * rewrite Forall_forall in F. auto.
Qed.
Lemma fold_add_sorted l : StronglySorted key_lt (fold_right buf_add [] l).
Proof. induction l; cbn; [constructor|apply buf_add_sorted; assumption]. Qed.

(* membership of the buffer, when equal keys mean equal transactions (positions identify a transaction in a slot) *)
Definition keys_identify (l : list tx) : Prop := forall a b, In a l -> In b l -> key_eqb a b = true -> a = b.

Lemma buf_add_mem t buf : keys_identify (t :: buf) -> forall x, In x (buf_add t buf) <-> x = t \/ In x buf.
Proof.
  induction buf as [|h r IH]; intros K x; cbn; [intuition congruence|].
  destruct (key_ltb t h); [cbn; intuition congruence|].
  destruct (key_eqb t h) eqn:E.
  - assert (t = h) by (apply K; [left; reflexivity|right; left; reflexivity|exact E]). subst. cbn. intuition congruence.
  - cbn. rewrite IH; [intuition congruence|]. intros a b Ha Hb. apply K; cbn in *; tauto.
Qed.
Lemma fold_add_mem l : keys_identify l -> forall x, In x (fold_right buf_add [] l) <-> In x l.
Proof.
  induction l as [|t l IH]; intros K x; cbn; [tauto|].
  assert (Kl : keys_identify l) by (intros a b Ha Hb; apply K; right; assumption).
  rewrite buf_add_mem.
  - rewrite IH by exact Kl. intuition congruence.
  - intros a b Ha Hb E. apply K; [| |exact E].
    + destruct Ha as [<-|Ha]; [left; reflexivity|right; apply IH; auto].
    + destruct Hb as [<-|Hb]; [left; reflexivity|right; apply IH; auto].
Qed.

(* two key-sorted lists with the same members are equal *)
Lemma sorted_same_members (l1 : list tx) : forall l2,
  StronglySorted key_lt l1 -> StronglySorted key_lt l2 -> (forall x, In x l1 <-> In x l2) -> l1 = l2.
Proof.
  assert (irr : forall a, ~ key_lt a a).
  { intros a. unfold key_lt, key_ltb. rewrite orb_true_iff, andb_true_iff, !N.ltb_lt. lia. }
  induction l1 as [|a l1 IH]; intros l2 S1 S2 M.
  - destruct l2 as [|b l2]; [reflexivity|]. exfalso. apply (M b). left; reflexivity.
  - destruct l2 as [|b l2]; [exfalso; apply (M a); left; reflexivity|].
    inversion S1 as [|? ? S1' F1]; inversion S2 as [|? ? S2' F2]; subst.
    rewrite Forall_forall in F1, F2.
    assert (a = b).
    { destruct (proj1 (M a) (or_introl eq_refl)) as [E|Ia]; [auto|].
      destruct (proj2 (M b) (or_introl eq_refl)) as [E|Ib]; [auto|].
      exfalso. apply (irr a). eapply key_lt_trans; [apply F1; exact Ib|apply F2; exact Ia]. }
    subst b. f_equal. apply IH; auto. intros x. split; intros Hx.
    + destruct (proj1 (M x) (or_intror Hx)) as [E|H]; [|exact H]. subst x. exfalso. exact (irr a (F1 a Hx)).
    + destruct (proj2 (M x) (or_intror Hx)) as [E|H]; [|exact H]. subst x. exfalso. exact (irr a (F2 a Hx)).
Qed.

Lemma filter_sorted (p : tx -> bool) l : StronglySorted key_lt l -> StronglySorted key_lt (filter p l).
Proof.
  induction 1 as [|h r S IH F]; cbn; [constructor|]. destruct (p h); [|exact IH].
  constructor; [exact IH|]. rewrite Forall_forall in *. intros x Hx. apply filter_In in Hx. apply F. tauto.
Qed.

(* main agreement theorem: with a complete address index and no cap reached, the indexed path streams exactly
   what the scan path streams *)
Theorem indexed_agrees_with_scan ar lo hi f limit :
  let all := archived_txs ar lo hi in
  StronglySorted key_lt all -> keys_identify all ->
  Forall (fun t => (lo <= x_slot t <= hi)%N) all ->
  f_include f <> [] ->
  (forall a, In a (f_include f) -> length (filter (fun t => mentions t a) all) <= limit) ->
  stream_txs_indexed true limit all lo hi f = stream_txs_scan true true ar lo hi (Some f).
Proof.
  intros all S K R Hinc Hlim. rewrite scan_is_filter. fold all.
  unfold stream_txs_indexed.
  set (f' := Build_flt (f_vote f) (f_failed f) [] (f_exclude f) (f_required f)).
  set (found := flat_map (fun a => gsfa_query all a limit (hi + 1) lo) (f_include f)).
  assert (Hq : forall a, In a (f_include f) -> forall x, In x (gsfa_query all a limit (hi + 1) lo) <-> In x all /\ mentions x a = true).
  { intros a Ha x. unfold gsfa_query.
    assert (E : filter (fun t => mentions t a && N.leb lo (x_slot t) && N.ltb (x_slot t) (hi + 1)) all = filter (fun t => mentions t a) all).
    { apply filter_ext_in. intros t Ht. rewrite Forall_forall in R. specialize (R t Ht).
      replace (N.leb lo (x_slot t)) with true by (symmetry; apply N.leb_le; lia).
      replace (N.ltb (x_slot t) (hi + 1)) with true by (symmetry; apply N.ltb_lt; lia). rewrite !andb_true_r. reflexivity. }
    rewrite E. rewrite firstn_all2 by (rewrite rev_length; apply Hlim; exact Ha).
    rewrite <- in_rev, filter_In. tauto. }
  assert (Hfound : forall x, In x found <-> In x all /\ existsb (mentions x) (f_include f) = true).
  { intros x. unfold found. rewrite in_flat_map. split.
    - intros [a [Ha Hx]]. apply (Hq a Ha) in Hx. destruct Hx as [A B]. split; [exact A|]. apply existsb_exists. eauto.
    - intros [A B]. apply existsb_exists in B. destruct B as [a [Ha Hm]]. exists a. split; [exact Ha|]. apply (Hq a Ha). auto. }
  assert (Kk : keys_identify (filter (keep (Some f')) found)).
  { intros a b Ha Hb. apply filter_In in Ha, Hb. apply K; apply Hfound; tauto. }
  apply sorted_same_members.
  - unfold buf_flush. apply filter_sorted, fold_add_sorted.
  - apply filter_sorted. exact S.
  - intros x. unfold buf_flush. rewrite filter_In, (fold_add_mem _ Kk), !filter_In, Hfound.
    assert (Hk : keep (Some f) x = (existsb (mentions x) (f_include f) && keep (Some f') x)%bool).
    { cbn [keep]. unfold keep_flt. cbn [f_vote f_failed f_include f_exclude f_required f'].
      destruct (f_include f) as [|i0 inc]; [congruence|].
      generalize (existsb (mentions x) (i0 :: inc)) as e.
      generalize (negb match f_vote f with Some false => x_vote x | _ => false end) as a.
      generalize (negb match f_failed f with Some false => x_failed x | _ => false end) as b.
      generalize (negb (existsb (mentions x) (f_exclude f))) as c.
      generalize (forallb (mentions x) (f_required f)) as d.
      intros d c b a e. destruct a, b, c, d, e; reflexivity. }
    rewrite Hk. split.
    + intros [[[A B] C] _]. split; [exact A|]. rewrite B, C. reflexivity.
    + intros [A B]. apply andb_true_iff in B. destruct B as [B C]. repeat split; auto.
      rewrite Forall_forall in R. specialize (R x A). apply andb_true_iff. split; apply N.leb_le; lia.
Qed.

(* the pinned polarity is refuted: with no filter at all nothing is streamed although a transaction is archived *)
Lemma polarity_refuted :
  exists ar lo hi, archived_txs ar lo hi <> [] /\ stream_txs_scan true false ar lo hi None = [].
Proof.
  exists (fun s => if N.eqb s 5 then Some [Build_tx 5 0 false false [1%N] [] 9%N] else None), 5%N, 5%N.
  split; vm_compute; [discriminate|reflexivity].
Qed.
(* stopping at the first slot without block is refuted *)
Lemma skip_refuted :
  exists ar lo hi, stream_txs_scan false true ar lo hi None <> filter (keep None) (archived_txs ar lo hi).
Proof.
  exists (fun s => if N.eqb s 6 then Some [Build_tx 6 0 false false [1%N] [] 9%N] else None), 5%N, 6%N.
  vm_compute. discriminate.
Qed.
(* the per-account cap is refuted: with limit 1 and two matching transactions one is lost *)
Lemma cap_refuted :
  exists ar lo hi f, f_include f <> [] /\
    stream_txs_indexed true 1 (archived_txs ar lo hi) lo hi f <> stream_txs_scan true true ar lo hi (Some f).
Proof.
  exists (fun s => if N.eqb s 5 then Some [Build_tx 5 0 false false [1%N] [] 9%N; Build_tx 5 1 false false [1%N] [] 10%N] else None),
         5%N, 5%N, (Build_flt None None [1%N] [] []).
  split; [discriminate|]. vm_compute. discriminate.
Qed.

(* ---------- checker for the harness's observations ---------- *)
(* a streaming case: the archived transactions of the range (ascending), the filter, the ids streamed *)
Inductive case :=
| CTxs (txs : list tx) (f : option flt) (observed : list N)
| CBlocks (blocks : list (N * list tx)) (inc : list N) (observed : list N).  (* observed slots *)

Fixpoint ids_eqb (a b : list N) : bool :=
  match a, b with [], [] => true | x :: r, y :: s => N.eqb x y && ids_eqb r s | _, _ => false end.
Definition case_ok (c : case) : bool :=
  match c with
  | CTxs txs f obs => ids_eqb (map x_id (filter (keep f) txs)) obs
  | CBlocks bs inc obs => ids_eqb (map fst (filter (fun b => block_keep inc (snd b)) bs)) obs
  end.
Fixpoint bad_from (i : nat) (cs : list case) : list nat :=
  match cs with [] => [] | c :: t => if case_ok c then bad_from (S i) t else i :: bad_from (S i) t end.
Definition check (cs : list case) : list nat := bad_from 0 cs.
