(* C08 — classification of the potential panic sites that the translator gen/c08.go finds in the request-handling
   files (coq/Generated/PanicSitesC08.v, regenerated from the repository on every check): the JSON-RPC parameter
   parsers, the HTTP front and dispatch, the REST front, the gRPC methods, and the response adapters they call.
   Kinds: index a[i] (map lookups by a string constant are not listed), slice a[i:j], assert x.(T) without `, ok`,
   deref *p, make with a non-constant size, division by a non-constant, panic(...) / Must*(...).
     Guarded lemma   protected by a check that the model has: the named theorem of C08_Requests.v covers it, and the
                     harness runs the requests that would reach it unguarded on every check;
     Trusted reason  cannot fail for a reason visible next to it (stated per site).
   [unclassified] must be empty: Properties/C08.v proves it by computation over the generated list, so a new index,
   slice, unchecked assertion, dereference, input-sized make or Must* call in these files stops the build until it is
   classified here (a site is identified by file | function | kind | expression text | number of occurrences, never
   by position). The table was produced from per-pattern rules and reviewed site by site against the source. *)
From Coq Require Import List String Bool.
Import ListNotations.
Require Import YF.C08_Requests.
Local Open Scope string_scope.

Inductive site_class := Guarded (lemma : string) | Trusted (reason : string).

(* the theorems the Guarded entries name (the tuple does not type-check when one of them disappears) *)
Definition guard_theorems :=
  (handle_never_panics, grpc_never_panics, grpc_range_never_panics, api_never_panics,
   grpc_position_index_checked, reward_commission_checked).
Definition guard_names : list string :=
  ["handle_never_panics"; "grpc_never_panics"; "grpc_range_never_panics"; "api_never_panics";
   "grpc_position_index_checked"; "reward_commission_checked"].

Definition site_table : list (string * site_class) := [
  ("adapters.go|adaptTransactionMetaToExpectedOutput|assert|meta[""innerInstructions""].([]any)|1",
     Trusted "same value as innerInstructions, whose `.([]any)` was checked with `ok` above");
  ("adapters.go|adaptTransactionMetaToExpectedOutput|assert|meta[""loadedAddresses""].(map[string]any)|2",
     Trusted "the key is set to a map just above when absent; when present it is the JSON object of the LoadedAddresses struct");
  ("adapters.go|adaptTransactionMetaToExpectedOutput|index|loadedReadonlyAddresses[i]|1",
     Trusted "index of the enclosing range / counting loop over the same slice (response has one slot per found transaction)");
  ("adapters.go|adaptTransactionMetaToExpectedOutput|index|loadedWritableAddresses[i]|1",
     Trusted "index of the enclosing range / counting loop over the same slice (response has one slot per found transaction)");
  ("adapters.go|adaptTransactionMetaToExpectedOutput|index|meta[""innerInstructions""].([]any)[i]|1",
     Trusted "i ranges over this very slice (innerInstructions is the same value, asserted with `ok` above)");
  ("adapters.go|byteSliceAsIntegerSlice|index|b[i]|1",
     Trusted "index of the enclosing range / counting loop over the same slice (response has one slot per found transaction)");
  ("api.go|(*MultiEpoch).apiHandler|slice|string(reqCtx.Path())[len(""/api/v1/sig-to-cid/""):]|1",
     Trusted "inside strings.HasPrefix(path, the same literal): the path is at least that long");
  ("api.go|(*MultiEpoch).apiHandler|slice|string(reqCtx.Path())[len(""/api/v1/slot-to-cid/""):]|1",
     Trusted "inside strings.HasPrefix(path, the same literal): the path is at least that long");
  ("getSignaturesForAddress.go|parseGetSignaturesForAddressParams|deref|*raw|1",
     Guarded "handle_never_panics: `if raw == nil` returns an error first (the pinned dereference is C08_missing_params_refuted)");
  ("getSignaturesForAddress.go|parseGetSignaturesForAddressParams|index|params[0]|1",
     Guarded "handle_never_panics: `len(params) < 1` is rejected first (model: the empty list is InvalidParams)");
  ("getSignaturesForAddress.go|parseGetSignaturesForAddressParams|index|params[1]|1",
     Guarded "handle_never_panics: inside `if len(params) > 1`");
  ("grpc-server.go|(*MultiEpoch).GetBlock|assert|block.Rewards.(cidlink.Link)|2",
     Trusted "links of decoded nodes: the fast decoders construct every datamodel.Link as cidlink.Link (C11 / C12 cover the decoders)");
  ("grpc-server.go|(*MultiEpoch).GetBlock|assert|entry.(cidlink.Link)|1",
     Trusted "links of decoded nodes: the fast decoders construct every datamodel.Link as cidlink.Link (C11 / C12 cover the decoders)");
  ("grpc-server.go|(*MultiEpoch).GetBlock|assert|lastEntryCidOfParent.(cidlink.Link)|1",
     Trusted "links of decoded nodes: the fast decoders construct every datamodel.Link as cidlink.Link (C11 / C12 cover the decoders)");
  ("grpc-server.go|(*MultiEpoch).GetBlock|assert|tx.(cidlink.Link)|1",
     Trusted "links of decoded nodes: the fast decoders construct every datamodel.Link as cidlink.Link (C11 / C12 cover the decoders)");
  ("grpc-server.go|(*MultiEpoch).GetBlock|deref|*allTransactions[i].Index|1",
     Trusted "both Index pointers are compared with nil on the line above");
  ("grpc-server.go|(*MultiEpoch).GetBlock|deref|*allTransactions[j].Index|1",
     Trusted "both Index pointers are compared with nil on the line above");
  ("grpc-server.go|(*MultiEpoch).GetBlock|index|allTransactionNodes[entryIndex][txI]|1",
     Trusted "allTransactionNodes has len(block.Entries) rows and row entryIndex is made with len(entryNode.Transactions) just above; both indexes come from range loops over those lists");
  ("grpc-server.go|(*MultiEpoch).GetBlock|index|allTransactionNodes[entryIndex]|2",
     Trusted "allTransactionNodes has len(block.Entries) rows and row entryIndex is made with len(entryNode.Transactions) just above; both indexes come from range loops over those lists");
  ("grpc-server.go|(*MultiEpoch).GetBlock|index|allTransactions[i]|2",
     Trusted "index handed out by sort.Slice for this very slice, or the index of the enclosing loop over it");
  ("grpc-server.go|(*MultiEpoch).GetBlock|index|allTransactions[j]|2",
     Trusted "index handed out by sort.Slice for this very slice, or the index of the enclosing loop over it");
  ("grpc-server.go|(*MultiEpoch).GetBlock|index|entryNode.Transactions[txI]|1",
     Trusted "txI ranges over entryNode.Transactions");
  ("grpc-server.go|(*MultiEpoch).GetBlock|index|parentBlock.Entries[len(parentBlock.Entries)-1]|1",
     Trusted "inside `if len(parentBlock.Entries) > 0`");
  ("grpc-server.go|(*MultiEpoch).GetBlock|make|make([]*ipldbindcode.Transaction, len(entryNode.Transactions))|1",
     Trusted "sized by an existing in-memory list");
  ("grpc-server.go|(*MultiEpoch).GetBlock|make|make([][]*ipldbindcode.Transaction, len(block.Entries))|1",
     Trusted "sized by the entries of a decoded block");
  ("grpc-server.go|(*MultiEpoch).StreamBlocks|deref|*params.EndSlot|1",
     Trusted "inside `if params.EndSlot != nil`");
  ("grpc-server.go|(*MultiEpoch).StreamTransactions|deref|*params.EndSlot|1",
     Trusted "inside `if params.EndSlot != nil`");
  ("grpc-server.go|(*MultiEpoch).processSlotTransactions|deref|*filter.Failed|1",
     Guarded "grpc_never_panics: `filter.X != nil &&` precedes the dereference in the same condition (pinned: C08_absent_flag_refuted)");
  ("grpc-server.go|(*MultiEpoch).processSlotTransactions|deref|*filter.Vote|1",
     Guarded "grpc_never_panics: `filter.X != nil &&` precedes the dereference in the same condition (pinned: C08_absent_flag_refuted)");
  ("grpc-server.go|(*MultiEpoch).processSlotTransactions|deref|*txResp.Index|1",
     Guarded "grpc_position_index_checked: a transaction node without the optional position index is answered with an Internal error before the buffer is touched (pinned: nil dereference in a goroutine, fixes/C08-no-position-index.diff)");
  ("grpc-server.go|(*MultiEpoch).processSlotTransactions|deref|*txn|1",
     Trusted "txn is the non-nil result of solana.TransactionFromDecoder whose error is returned just above");
  ("grpc-server.go|(*MultiEpoch).processSlotTransactions|make|make(chan error, len(filter.AccountInclude))|1",
     Trusted "channel capacity: a constant or the length of an in-memory list of the request (bounded by the gRPC message size limit)");
  ("grpc-server.go|(*MultiEpoch).processSlotTransactions|make|make(chan struct{}, maxConcurrentAccounts)|1",
     Trusted "channel capacity: a constant or the length of an in-memory list of the request (bounded by the gRPC message size limit)");
  ("grpc-server.go|(*MultiEpoch).processSlotTransactions|panic|solana.MustPublicKeyFromBase58(acc)|4",
     Guarded "grpc_never_panics: every account string of the filter is parsed with the error-returning parser up front (InvalidArgument) before any Must* call (pinned: C08_malformed_account_refuted)");
  ("grpc-server.go|(*txBuffer).add|index|b.items[slot][idx]|1",
     Trusted "map lookup / store");
  ("grpc-server.go|(*txBuffer).add|index|b.items[slot]|3",
     Trusted "map lookup / store");
  ("grpc-server.go|(*txBuffer).flush|index|b.items[b.currentSlot]|1",
     Trusted "map lookup / store");
  ("grpc-server.go|(*txBuffer).flush|index|indices[i]|1",
     Trusted "index handed out by sort.Slice for this very slice, or the index of the enclosing loop over it");
  ("grpc-server.go|(*txBuffer).flush|index|indices[j]|1",
     Trusted "index handed out by sort.Slice for this very slice, or the index of the enclosing loop over it");
  ("grpc-server.go|(*txBuffer).flush|index|slots[i]|1",
     Trusted "index handed out by sort.Slice for this very slice, or the index of the enclosing loop over it");
  ("grpc-server.go|(*txBuffer).flush|index|slots[j]|1",
     Trusted "index handed out by sort.Slice for this very slice, or the index of the enclosing loop over it");
  ("grpc-server.go|(*txBuffer).flush|index|txMap[idx]|1",
     Trusted "map lookup / store");
  ("grpc-server.go|(*txBuffer).flush|make|make([]uint64, 0, len(b.items))|1",
     Trusted "sized by the number of buffered entries");
  ("grpc-server.go|(*txBuffer).flush|make|make([]uint64, 0, len(txMap))|1",
     Trusted "sized by the number of buffered entries");
  ("grpc-server.go|blockContainsAccounts|index|accountSet[acc.String()]|1",
     Trusted "map lookup / store");
  ("grpc-server.go|blockContainsAccounts|index|accountSet[acc]|1",
     Trusted "map lookup / store");
  ("grpc-server.go|blockContainsAccounts|index|accountSet[key.String()]|1",
     Trusted "map lookup / store");
  ("grpc-server.go|blockContainsAccounts|make|make(map[string]struct{}, len(accounts))|1",
     Trusted "sized by the request's account list");
  ("multiepoch-getBlock.go|(*MultiEpoch).handleGetBlock|assert|block.Rewards.(cidlink.Link)|2",
     Trusted "links of decoded nodes: the fast decoders construct every datamodel.Link as cidlink.Link (C11 / C12 cover the decoders)");
  ("multiepoch-getBlock.go|(*MultiEpoch).handleGetBlock|assert|blockResp.Rewards.([]any)|1",
     Trusted "blockResp.Rewards is nil (checked first) or the []any built above");
  ("multiepoch-getBlock.go|(*MultiEpoch).handleGetBlock|assert|entry.(cidlink.Link)|1",
     Trusted "links of decoded nodes: the fast decoders construct every datamodel.Link as cidlink.Link (C11 / C12 cover the decoders)");
  ("multiepoch-getBlock.go|(*MultiEpoch).handleGetBlock|assert|lastEntryCidOfParent.(cidlink.Link)|1",
     Trusted "links of decoded nodes: the fast decoders construct every datamodel.Link as cidlink.Link (C11 / C12 cover the decoders)");
  ("multiepoch-getBlock.go|(*MultiEpoch).handleGetBlock|assert|m[""rewards""].([]any)|1",
     Trusted "m is the JSON image of the decoded Rewards protobuf: the key exists only for a non-empty list (omitempty), which is a JSON array");
  ("multiepoch-getBlock.go|(*MultiEpoch).handleGetBlock|assert|reward.(map[string]any)|1",
     Trusted "element of the JSON array of reward objects produced two lines above");
  ("multiepoch-getBlock.go|(*MultiEpoch).handleGetBlock|assert|tx.(cidlink.Link)|1",
     Trusted "links of decoded nodes: the fast decoders construct every datamodel.Link as cidlink.Link (C11 / C12 cover the decoders)");
  ("multiepoch-getBlock.go|(*MultiEpoch).handleGetBlock|deref|*params.Options.Encoding|1",
     Guarded "handle_never_panics: the parser sets Options.Encoding / Options.Rewards on every path that proceeds (defaults, then overrides); the option sweep of the harness reaches every handler with every option shape");
  ("multiepoch-getBlock.go|(*MultiEpoch).handleGetBlock|deref|*params.Options.Rewards|1",
     Guarded "handle_never_panics: the parser sets Options.Encoding / Options.Rewards on every path that proceeds (defaults, then overrides); the option sweep of the harness reaches every handler with every option shape");
  ("multiepoch-getBlock.go|(*MultiEpoch).handleGetBlock|index|allTransactionNodes[entryIndex][txI]|1",
     Trusted "allTransactionNodes has len(block.Entries) rows and row entryIndex is made with len(entryNode.Transactions) just above; both indexes come from range loops over those lists");
  ("multiepoch-getBlock.go|(*MultiEpoch).handleGetBlock|index|allTransactionNodes[entryIndex]|2",
     Trusted "allTransactionNodes has len(block.Entries) rows and row entryIndex is made with len(entryNode.Transactions) just above; both indexes come from range loops over those lists");
  ("multiepoch-getBlock.go|(*MultiEpoch).handleGetBlock|index|allTransactions[i]|1",
     Trusted "index handed out by sort.Slice for this very slice, or the index of the enclosing loop over it");
  ("multiepoch-getBlock.go|(*MultiEpoch).handleGetBlock|index|allTransactions[j]|1",
     Trusted "index handed out by sort.Slice for this very slice, or the index of the enclosing loop over it");
  ("multiepoch-getBlock.go|(*MultiEpoch).handleGetBlock|index|entryNode.Transactions[txI]|1",
     Trusted "txI ranges over entryNode.Transactions");
  ("multiepoch-getBlock.go|(*MultiEpoch).handleGetBlock|index|parentBlock.Entries[len(parentBlock.Entries)-1]|1",
     Trusted "inside `if len(parentBlock.Entries) > 0`");
  ("multiepoch-getBlock.go|(*MultiEpoch).handleGetBlock|index|transactions[i]|2",
     Trusted "index of the enclosing range / counting loop over the same slice (response has one slot per found transaction)");
  ("multiepoch-getBlock.go|(*MultiEpoch).handleGetBlock|make|make([]*ipldbindcode.Transaction, len(entryNode.Transactions))|1",
     Trusted "sized by an existing in-memory list");
  ("multiepoch-getBlock.go|(*MultiEpoch).handleGetBlock|make|make([][]*ipldbindcode.Transaction, len(block.Entries))|1",
     Trusted "sized by the entries of a decoded block");
  ("multiepoch-getSignaturesForAddress.go|(*MultiEpoch).getGsfaReadersInEpochDescendingOrderForSlotRange|index|epochs[i]|1",
     Trusted "index handed out by sort.Slice for this very slice, or the index of the enclosing loop over it");
  ("multiepoch-getSignaturesForAddress.go|(*MultiEpoch).getGsfaReadersInEpochDescendingOrderForSlotRange|index|epochs[j]|1",
     Trusted "index handed out by sort.Slice for this very slice, or the index of the enclosing loop over it");
  ("multiepoch-getSignaturesForAddress.go|(*MultiEpoch).getGsfaReadersInEpochDescendingOrderForSlotRange|make|make([]*Epoch, 0, len(ser.epochs))|1",
     Guarded "grpc_range_never_panics: sized by the number of loaded epochs, not by the request's slot range (pinned: C08_slot_range_refuted)");
  ("multiepoch-getSignaturesForAddress.go|(*MultiEpoch).getGsfaReadersInEpochDescendingOrderForSlotRange|make|make([]*gsfa.GsfaReader, 0, len(epochs))|1",
     Guarded "grpc_range_never_panics: sized by the number of loaded epochs, not by the request's slot range (pinned: C08_slot_range_refuted)");
  ("multiepoch-getSignaturesForAddress.go|(*MultiEpoch).getGsfaReadersInEpochDescendingOrderForSlotRange|make|make([]uint64, 0, len(epochs))|1",
     Guarded "grpc_range_never_panics: sized by the number of loaded epochs, not by the request's slot range (pinned: C08_slot_range_refuted)");
  ("multiepoch-getSignaturesForAddress.go|(*MultiEpoch).getGsfaReadersInEpochDescendingOrder|index|epochs[i]|1",
     Trusted "index handed out by sort.Slice for this very slice, or the index of the enclosing loop over it");
  ("multiepoch-getSignaturesForAddress.go|(*MultiEpoch).getGsfaReadersInEpochDescendingOrder|index|epochs[j]|1",
     Trusted "index handed out by sort.Slice for this very slice, or the index of the enclosing loop over it");
  ("multiepoch-getSignaturesForAddress.go|(*MultiEpoch).getGsfaReadersInEpochDescendingOrder|make|make([]*Epoch, 0, len(ser.epochs))|1",
     Guarded "grpc_range_never_panics: sized by the number of loaded epochs, not by the request's slot range (pinned: C08_slot_range_refuted)");
  ("multiepoch-getSignaturesForAddress.go|(*MultiEpoch).getGsfaReadersInEpochDescendingOrder|make|make([]*gsfa.GsfaReader, 0, len(epochs))|1",
     Guarded "grpc_range_never_panics: sized by the number of loaded epochs, not by the request's slot range (pinned: C08_slot_range_refuted)");
  ("multiepoch-getSignaturesForAddress.go|(*MultiEpoch).getGsfaReadersInEpochDescendingOrder|make|make([]uint64, 0, len(epochs))|1",
     Guarded "grpc_range_never_panics: sized by the number of loaded epochs, not by the request's slot range (pinned: C08_slot_range_refuted)");
  ("multiepoch-getSignaturesForAddress.go|(*MultiEpoch).handleGetSignaturesForAddress|index|blockTimeCache.m[slot]|2",
     Trusted "map lookup / store");
  ("multiepoch-getSignaturesForAddress.go|(*MultiEpoch).handleGetSignaturesForAddress|index|foundEpochs[i]|1",
     Trusted "index handed out by sort.Slice for this very slice, or the index of the enclosing loop over it");
  ("multiepoch-getSignaturesForAddress.go|(*MultiEpoch).handleGetSignaturesForAddress|index|foundEpochs[j]|1",
     Trusted "index handed out by sort.Slice for this very slice, or the index of the enclosing loop over it");
  ("multiepoch-getSignaturesForAddress.go|(*MultiEpoch).handleGetSignaturesForAddress|index|foundTransactions[ei]|1",
     Trusted "map lookup");
  ("multiepoch-getSignaturesForAddress.go|(*MultiEpoch).handleGetSignaturesForAddress|index|response[ii]|11",
     Trusted "index of the enclosing range / counting loop over the same slice (response has one slot per found transaction)");
  ("multiepoch-getSignaturesForAddress.go|(*MultiEpoch).handleGetSignaturesForAddress|index|sigs[i]|1",
     Trusted "index of the enclosing range / counting loop over the same slice (response has one slot per found transaction)");
  ("multiepoch-getSignaturesForAddress.go|(*MultiEpoch).handleGetSignaturesForAddress|make|make([]map[string]any, countTransactions(foundTransactions))|1",
     Trusted "sized by the number of transactions found (bounded by the limit, at most 1000)");
  ("multiepoch-getSignaturesForAddress.go|(*MultiEpoch).handleGetSignaturesForAddress|make|make([]uint64, 0, len(foundTransactions))|1",
     Trusted "sized by an existing in-memory list");
  ("multiepoch-getTransaction.go|(*MultiEpoch).findEpochNumberFromSignature|index|NewJobGroup[uint64]|1",
     Trusted "generic instantiation, not an index");
  ("multiepoch-getTransaction.go|(*MultiEpoch).findEpochNumberFromSignature|index|buckets[epochNumber]|1",
     Trusted "map lookup / store");
  ("multiepoch-getTransaction.go|(*MultiEpoch).findEpochNumberFromSignature|index|epochs[0]|1",
     Guarded "api_never_panics: inside `len(epochs) == 1` (with no epoch loaded the search answers not found; the unguarded variant is C08_api_unguarded_search_refuted)");
  ("multiepoch-getTransaction.go|(*MultiEpoch).findEpochNumberFromSignature|index|numbers[i]|2",
     Trusted "index handed out by sort.Slice for this very slice, or the index of the enclosing loop over it");
  ("multiepoch-getTransaction.go|(*MultiEpoch).findEpochNumberFromSignature|index|numbers[j]|1",
     Trusted "index handed out by sort.Slice for this very slice, or the index of the enclosing loop over it");
  ("multiepoch-getTransaction.go|(*MultiEpoch).getAllBucketteers|index|bucketteers[epoch.Epoch()]|1",
     Trusted "map lookup / store");
  ("multiepoch-getTransaction.go|(*MultiEpoch).handleGetTransaction|deref|*params.Options.Encoding|1",
     Guarded "handle_never_panics: the parser sets Options.Encoding / Options.Rewards on every path that proceeds (defaults, then overrides); the option sweep of the harness reaches every handler with every option shape");
  ("multiepoch-getVersion.go|(*MultiEpoch).tryEnrichGetVersion|deref|*decodedRemote.Result|1",
     Trusted "`decodedRemote.Result == nil` returns first; the value is the upstream's reply, not the request");
  ("multiepoch.go|(*MultiEpoch).GetEpoch|index|m.epochs[epoch]|1",
     Trusted "map lookup / store");
  ("multiepoch.go|(*MultiEpoch).GetMostRecentAvailableEpochNumber|index|numbers[0]|1",
     Trusted "inside `if len(numbers) > 0`");
  ("multiepoch.go|(*MultiEpoch).GetMostRecentAvailableEpoch|index|m.epochs[numbers[0]]|1",
     Trusted "map lookup; numbers[0] inside `if len(numbers) > 0`");
  ("multiepoch.go|(*MultiEpoch).GetMostRecentAvailableEpoch|index|numbers[0]|1",
     Trusted "inside `if len(numbers) > 0`");
  ("multiepoch.go|(*MultiEpoch).GetOldestAvailableEpoch|index|m.epochs[numbers[len(numbers)-1]]|1",
     Trusted "inside `if len(numbers) > 0`; map lookup");
  ("multiepoch.go|(*MultiEpoch).GetOldestAvailableEpoch|index|numbers[len(numbers)-1]|1",
     Trusted "inside `if len(numbers) > 0`; map lookup");
  ("multiepoch.go|(*MultiEpoch).HasEpoch|index|m.epochs[epoch]|1",
     Trusted "map lookup / store");
  ("multiepoch.go|(*MultiEpoch).getEpochNumbersLocked|index|epochNumbers[i]|1",
     Trusted "index handed out by sort.Slice for this very slice, or the index of the enclosing loop over it");
  ("multiepoch.go|(*MultiEpoch).getEpochNumbersLocked|index|epochNumbers[j]|1",
     Trusted "index handed out by sort.Slice for this very slice, or the index of the enclosing loop over it");
  ("multiepoch.go|newMultiEpochHandler|index|versionInfo[k]|1",
     Trusted "map lookup / store");
  ("multiepoch.go|newMultiEpochHandler|panic|panic(fmt.Errorf(""invalid proxy target URL %q: %w"", target, err))|1",
     Trusted "start-up configuration (proxy target URL), before any request is served");
  ("request-response.go|(*GetBlockRequest).Validate|deref|*req.Options.Encoding|2",
     Guarded "handle_never_panics: the parser sets Options.Encoding / Options.Rewards on every path that proceeds (defaults, then overrides); the option sweep of the harness reaches every handler with every option shape");
  ("request-response.go|(*GetTransactionRequest).Validate|deref|*req.Options.Encoding|2",
     Guarded "handle_never_panics: the parser sets Options.Encoding / Options.Rewards on every path that proceeds (defaults, then overrides); the option sweep of the harness reaches every handler with every option shape");
  ("request-response.go|MapToCamelCaseAny|index|m[i]|1",
     Trusted "index of the enclosing range / counting loop over the same slice (response has one slot per found transaction)");
  ("request-response.go|MapToCamelCase|index|newMap[toLowerCamelCase(k)]|1",
     Trusted "map lookup / store");
  ("request-response.go|byeSliceToUint16Slice|index|out[i]|1",
     Trusted "index handed out by sort.Slice for this very slice, or the index of the enclosing loop over it");
  ("request-response.go|byeSliceToUint16Slice|make|make([]uint16, len(in))|1",
     Trusted "sized by an existing in-memory list");
  ("request-response.go|clone|make|make([]T, len(in))|1",
     Trusted "sized by an existing in-memory list");
  ("request-response.go|compiledInstructionsToJsonParsed|index|out[i]|2",
     Trusted "index handed out by sort.Slice for this very slice, or the index of the enclosing loop over it");
  ("request-response.go|compiledInstructionsToJsonParsed|index|tx.Message.AccountKeys[v]|1",
     Trusted "jsonParsed encoding only: behind txstatus.IsEnabled(), which is false without the `ffi` build tag (the Rust library is not part of this build; the parsers reject nothing else before it)");
  ("request-response.go|compiledInstructionsToJsonParsed|make|make([]string, len(inst.Accounts))|1",
     Trusted "sized by an existing in-memory list");
  ("request-response.go|compiledInstructionsToJsonParsed|make|make([]uint8, len(inst.Accounts))|1",
     Trusted "sized by an existing in-memory list");
  ("request-response.go|encodeTransactionResponseBasedOnWantedEncoding|assert|innerInstructions[innerIndex].(map[string]any)|1",
     Trusted "jsonParsed encoding only: behind txstatus.IsEnabled(), which is false without the `ffi` build tag (the Rust library is not part of this build; the parsers reject nothing else before it)");
  ("request-response.go|encodeTransactionResponseBasedOnWantedEncoding|assert|metaJSON[""inner_instructions""].([]any)[innerIndex].(map[string]any)[""instructions""].([]any)|1",
     Trusted "jsonParsed encoding only: behind txstatus.IsEnabled(), which is false without the `ffi` build tag (the Rust library is not part of this build; the parsers reject nothing else before it)");
  ("request-response.go|encodeTransactionResponseBasedOnWantedEncoding|assert|metaJSON[""inner_instructions""].([]any)[innerIndex].(map[string]any)|1",
     Trusted "jsonParsed encoding only: behind txstatus.IsEnabled(), which is false without the `ffi` build tag (the Rust library is not part of this build; the parsers reject nothing else before it)");
  ("request-response.go|encodeTransactionResponseBasedOnWantedEncoding|assert|metaJSON[""inner_instructions""].([]any)|1",
     Trusted "jsonParsed encoding only: behind txstatus.IsEnabled(), which is false without the `ffi` build tag (the Rust library is not part of this build; the parsers reject nothing else before it)");
  ("request-response.go|encodeTransactionResponseBasedOnWantedEncoding|index|innerInstructions[innerIndex]|1",
     Trusted "jsonParsed encoding only: behind txstatus.IsEnabled(), which is false without the `ffi` build tag (the Rust library is not part of this build; the parsers reject nothing else before it)");
  ("request-response.go|encodeTransactionResponseBasedOnWantedEncoding|index|inner[j]|1",
     Trusted "index of the enclosing range / counting loop over the same slice (response has one slot per found transaction)");
  ("request-response.go|encodeTransactionResponseBasedOnWantedEncoding|index|metaJSON[""inner_instructions""].([]any)[innerIndex].(map[string]any)[""instructions""].([]any)[instIndex]|1",
     Trusted "jsonParsed encoding only: behind txstatus.IsEnabled(), which is false without the `ffi` build tag (the Rust library is not part of this build; the parsers reject nothing else before it)");
  ("request-response.go|encodeTransactionResponseBasedOnWantedEncoding|index|metaJSON[""inner_instructions""].([]any)[innerIndex]|1",
     Trusted "jsonParsed encoding only: behind txstatus.IsEnabled(), which is false without the `ffi` build tag (the Rust library is not part of this build; the parsers reject nothing else before it)");
  ("request-response.go|encodeTransactionResponseBasedOnWantedEncoding|index|readableForTable[i]|1",
     Trusted "jsonParsed encoding only: behind txstatus.IsEnabled(), which is false without the `ffi` build tag (the Rust library is not part of this build; the parsers reject nothing else before it)");
  ("request-response.go|encodeTransactionResponseBasedOnWantedEncoding|index|tables[tableKey][index]|2",
     Trusted "jsonParsed encoding only: behind txstatus.IsEnabled(), which is false without the `ffi` build tag (the Rust library is not part of this build; the parsers reject nothing else before it)");
  ("request-response.go|encodeTransactionResponseBasedOnWantedEncoding|index|tables[tableKey]|3",
     Trusted "map lookup / store");
  ("request-response.go|encodeTransactionResponseBasedOnWantedEncoding|index|writableForTable[i]|1",
     Trusted "jsonParsed encoding only: behind txstatus.IsEnabled(), which is false without the `ffi` build tag (the Rust library is not part of this build; the parsers reject nothing else before it)");
  ("request-response.go|encodeTransactionResponseBasedOnWantedEncoding|make|make([]solana.CompiledInstruction, len(insts.Instructions))|1",
     Trusted "sized by an existing in-memory list");
  ("request-response.go|encodeTransactionResponseBasedOnWantedEncoding|make|make([]solana.PublicKey, maxIndex+1)|1",
     Trusted "jsonParsed encoding only: behind txstatus.IsEnabled(), which is false without the `ffi` build tag (the Rust library is not part of this build; the parsers reject nothing else before it)");
  ("request-response.go|encodeTransactionResponseBasedOnWantedEncoding|panic|panic(err)|1",
     Trusted "jsonParsed encoding only: behind txstatus.IsEnabled(), which is false without the `ffi` build tag (the Rust library is not part of this build; the parsers reject nothing else before it)");
  ("request-response.go|encodeTransactionResponseBasedOnWantedEncoding|slice|readonly[:numTakeReadonly]|1",
     Trusted "jsonParsed encoding only: behind txstatus.IsEnabled(), which is false without the `ffi` build tag (the Rust library is not part of this build; the parsers reject nothing else before it)");
  ("request-response.go|encodeTransactionResponseBasedOnWantedEncoding|slice|readonly[numTakeReadonly:]|1",
     Trusted "jsonParsed encoding only: behind txstatus.IsEnabled(), which is false without the `ffi` build tag (the Rust library is not part of this build; the parsers reject nothing else before it)");
  ("request-response.go|encodeTransactionResponseBasedOnWantedEncoding|slice|writable[:numTakeWritable]|1",
     Trusted "jsonParsed encoding only: behind txstatus.IsEnabled(), which is false without the `ffi` build tag (the Rust library is not part of this build; the parsers reject nothing else before it)");
  ("request-response.go|encodeTransactionResponseBasedOnWantedEncoding|slice|writable[numTakeWritable:]|1",
     Trusted "jsonParsed encoding only: behind txstatus.IsEnabled(), which is false without the `ffi` build tag (the Rust library is not part of this build; the parsers reject nothing else before it)");
  ("request-response.go|parseGetBlockRequest|deref|*raw|1",
     Guarded "handle_never_panics: `if raw == nil` returns an error first (the pinned dereference is C08_missing_params_refuted)");
  ("request-response.go|parseGetBlockRequest|index|params[0]|2",
     Guarded "handle_never_panics: `len(params) < 1` is rejected first (model: the empty list is InvalidParams)");
  ("request-response.go|parseGetBlockRequest|index|params[1]|2",
     Guarded "handle_never_panics: inside `if len(params) > 1`");
  ("request-response.go|parseGetBlockTimeRequest|deref|*raw|1",
     Guarded "handle_never_panics: `if raw == nil` returns an error first (the pinned dereference is C08_missing_params_refuted)");
  ("request-response.go|parseGetBlockTimeRequest|index|params[0]|2",
     Guarded "handle_never_panics: `len(params) < 1` is rejected first (model: the empty list is InvalidParams)");
  ("request-response.go|parseGetTransactionRequest|deref|*raw|1",
     Guarded "handle_never_panics: `if raw == nil` returns an error first (the pinned dereference is C08_missing_params_refuted)");
  ("request-response.go|parseGetTransactionRequest|index|params[0]|2",
     Guarded "handle_never_panics: `len(params) < 1` is rejected first (model: the empty list is InvalidParams)");
  ("request-response.go|parseGetTransactionRequest|index|params[1]|2",
     Guarded "handle_never_panics: inside `if len(params) > 1`");
  ("request-response.go|toLowerCamelCase|slice|pascal[1:]|1",
     Trusted "len(pascal) is 0 or 1 in the two returns above");
  ("request-response.go|toLowerCamelCase|slice|pascal[:1]|1",
     Trusted "len(pascal) is 0 or 1 in the two returns above");
  ("request-response.go|toUniqueSorted|index|out[i]|1",
     Trusted "index handed out by sort.Slice for this very slice, or the index of the enclosing loop over it");
  ("request-response.go|toUniqueSorted|index|out[j]|1",
     Trusted "index handed out by sort.Slice for this very slice, or the index of the enclosing loop over it");
  ("request-response.go|toUniqueSorted|index|seen[v]|2",
     Trusted "map lookup / store")
].

Fixpoint lookup_site (s : string) (t : list (string * site_class)) : option site_class :=
  match t with
  | [] => None
  | (k, c) :: r => if String.eqb k s then Some c else lookup_site s r
  end.

(* the generated sites that the table does not classify *)
Definition unclassified (sites : list string) : list string :=
  filter (fun s => match lookup_site s site_table with None => true | Some _ => false end) sites.

(* table entries that no longer correspond to a site of the source (kept honest: stale entries are reported too) *)
Definition stale (sites : list string) : list string :=
  map fst (filter (fun e => negb (existsb (String.eqb (fst e)) sites)) site_table).

(* every Guarded entry starts with the name of one of the guard theorems, followed by ':' *)
Definition names_guard (l : string) : bool :=
  existsb (fun n => String.prefix (n ++ ":") l) guard_names.
Definition bad_guards : list string :=
  map fst (filter (fun e => match snd e with Guarded l => negb (names_guard l) | Trusted _ => false end) site_table).

Definition count_class (p : site_class -> bool) : nat := List.length (filter (fun x => p (snd x)) site_table).
Definition n_guarded : nat := count_class (fun c => match c with Guarded _ => true | _ => false end).
Definition n_trusted : nat := count_class (fun c => match c with Trusted _ => true | _ => false end).
