(* C17 — the range predicates translated from range-cache/range-cache.go (Generated/RangePredsC17.v, regenerated on
   every check) are the predicates of the cache model C17_RC. *)
From Coq Require Import List Bool ZArith Lia PeanoNat.
Require Import YF.C17_RC YF.Generated.RangePredsC17.

(* (Range).contains: r contains r2 *)
Theorem contains_is_model (r r2 : range) :
  contains_c17 (Z.of_nat (fst r)) (Z.of_nat (snd r)) (Z.of_nat (fst r2)) (Z.of_nat (snd r2)) = contains r r2.
Proof.
  unfold contains_c17, contains.
  destruct (Nat.leb_spec (fst r) (fst r2)), (Nat.leb_spec (snd r2) (snd r));
  repeat match goal with |- context [Z.leb ?a ?b] => destruct (Z.leb_spec a b) end; cbn; try reflexivity; lia.
Qed.

(* the argument check of getRange and of setRange rejects exactly: start < 0, end beyond the file, end before start *)
Theorem invalid_range_is_model start stop size :
  invalid_range_get_c17 start stop size = ((start <? 0) || (size <? stop) || (stop <? start))%Z /\
  invalid_range_set_c17 start stop size = ((start <? 0) || (size <? stop) || (stop <? start))%Z.
Proof.
  unfold invalid_range_get_c17, invalid_range_set_c17.
  split; repeat match goal with |- context [Z.ltb ?a ?b] => destruct (Z.ltb_spec a b) end; cbn; try reflexivity; lia.
Qed.

(* (Range).isValidFor (not called by the cache itself) is the complement of that check *)
Theorem is_valid_for_is_complement r0 r1 size :
  is_valid_for_c17 r0 r1 size = negb (invalid_range_get_c17 r0 r1 size).
Proof.
  unfold is_valid_for_c17, invalid_range_get_c17.
  repeat match goal with
         | |- context [Z.ltb ?a ?b] => destruct (Z.ltb_spec a b)
         | |- context [Z.leb ?a ?b] => destruct (Z.leb_spec a b)
         end; cbn; try reflexivity; lia.
Qed.
