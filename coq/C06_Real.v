(* C06 — the theorems instantiated at the constants that gen/c06.go reads from gsfa/gsfa-write.go on every check. *)
From Coq Require Import List NArith Lia Arith Bool.
Import ListNotations.
Require Import Gsfa C06_LinkedLog C06_Machine C06_Store C06_Front C06_Gsfa.
Require Import YF.Generated.ConstsC06.
Local Close Scope N_scope.
Local Open Scope nat_scope.

(* the writer of the repaired tree: periodic flush through the channel *)
Definition real_params : params :=
  Prm (N.to_nat items_per_batch) (N.to_nat parked_capacity) (N.to_nat chan_capacity)
      flush_every_slots flush_min_keys flush_small (N.to_nat rank_list_size) true.

Theorem real_pos_get_all (h : list (push entry)) (sc : sched) (a : nat) :
  pos_get entry (gsfa_pos entry real_params h sc) a = rev (entries_for entry a h).
Proof. apply pos_get_all. reflexivity. Qed.

Theorem real_byte_get_all (compress : list N -> list N) (decompress : list N -> option (list N)) :
  (forall x, decompress (compress x) = Some x) ->
  forall (h : list (push entry)) (sc : sched),
  Forall (fun p => entry_wf (ps_entry entry p)) h ->
  fits compress (log entry (m_store _ _ (gsfa_pos entry real_params h sc))) ->
  forall a, In a (addresses entry h) ->
  forall fuel, length (log entry (m_store _ _ (gsfa_pos entry real_params h sc))) <= fuel ->
  byte_get decompress fuel (gsfa_bytes compress real_params h sc) a = Some (rev (entries_for entry a h)).
Proof. intros H h sc. apply byte_get_all; auto. Qed.

(* sanity of the constants: they are positive, and the uncompressed payload of the largest batch (every entry
   at most 3 * 10 + 1 bytes) plus prefix and pointer stays far below the 2^24 limit of the 3-byte size field *)
Lemma real_constants_sane :
  (0 < items_per_batch /\ 0 < parked_capacity /\ 0 < chan_capacity /\ 0 < flush_every_slots /\ 0 < rank_list_size /\
   31 * (items_per_batch + 1) + 19 < 2 ^ 24)%N.
Proof. vm_compute. repeat split. Qed.
