From Coq Require Import List Arith Lia Bool PeanoNat.
Import ListNotations.
Require Import Gsfa GsfaP.

Section T.
Variable entry : Type.
Variable B P : nat.
Notation st := (st entry).

Lemma wf_bg_step s : wf entry s -> wf entry (bg_step entry P s).
Proof.
  intros H. unfold bg_step. destruct (chan entry s) as [|[k0 b] rest]; auto.
  destruct ((length (parked entry s) =? P) || has_key entry k0 (parked entry s)).
  - set (s0 := {| accum := accum entry s; chan := rest; parked := parked entry s; log := log entry s; heads := heads entry s |}).
    assert (H0 : wf entry s0) by exact H.
    pose proof (wf_flush_all entry (parked entry s0) s0 H0) as Hf. exact Hf.
  - exact H.
Qed.

Lemma chan_bg_step s k b rest : chan entry s = (k, b) :: rest -> chan entry (bg_step entry P s) = rest.
Proof.
  intros E. unfold bg_step. rewrite E.
  destruct ((length (parked entry s) =? P) || has_key entry k (parked entry s)); cbn [chan]; auto.
  set (s0 := {| accum := accum entry s; chan := rest; parked := parked entry s; log := log entry s; heads := heads entry s |}).
  destruct (flush_all_frame entry (parked entry s0) s0) as [_ [C _]]. exact C.
Qed.

Lemma accum_bg_step s : accum entry (bg_step entry P s) = accum entry s.
Proof.
  unfold bg_step. destruct (chan entry s) as [|[k0 b] rest]; auto.
  destruct ((length (parked entry s) =? P) || has_key entry k0 (parked entry s)); cbn [accum]; auto.
  set (s0 := {| accum := accum entry s; chan := rest; parked := parked entry s; log := log entry s; heads := heads entry s |}).
  destruct (flush_all_frame entry (parked entry s0) s0) as [A _]. rewrite A. reflexivity.
Qed.

Lemma accum_bg_drain f : forall s, accum entry (bg_drain entry P f s) = accum entry s.
Proof.
  induction f as [|f IH]; intros s; cbn [bg_drain]; auto.
  destruct (chan entry s); auto. rewrite IH. apply accum_bg_step.
Qed.

Lemma bg_drain_spec f : forall s, wf entry s -> length (chan entry s) <= f ->
  let s' := bg_drain entry P f s in
  wf entry s' /\ chan entry s' = [] /\ forall k, view entry s' k = view entry s k.
Proof.
  induction f as [|f IH]; intros s H Hl; cbn [bg_drain]; cbv zeta.
  - destruct (chan entry s) eqn:E; cbn in Hl; [|lia]. split; [exact H|split; [reflexivity|reflexivity]].
  - destruct (chan entry s) as [|[k b] rest] eqn:E.
    + split; [exact H|split; [exact E|reflexivity]].
    + pose proof (chan_bg_step s k b rest E) as Hc.
      assert (Hl' : length (chan entry (bg_step entry P s)) <= f) by (rewrite Hc; cbn in Hl; lia).
      destruct (IH (bg_step entry P s) (wf_bg_step s H) Hl') as [W [C V]].
      split; [exact W|split; [exact C|]]. intros k0. rewrite V. apply view_bg_step; auto.
Qed.

Lemma pend_accum_keys (acc : nat -> list entry) keys k :
  NoDup keys ->
  pend entry k (map (fun k0 => (k0, acc k0)) keys) = if existsb (Nat.eqb k) keys then acc k else [].
Proof.
  induction keys as [|k0 keys IH]; intros ND; cbn [map pend flat_map fst snd existsb]; auto.
  inversion ND as [|? ? Hni ND']; subst. fold (pend entry k (map (fun k1 => (k1, acc k1)) keys)).
  rewrite IH by auto. destruct (Nat.eqb_spec k0 k) as [E|E].
  - subst k0. rewrite Nat.eqb_refl. cbn [orb].
    replace (existsb (Nat.eqb k) keys) with false; [now rewrite app_nil_r|].
    symmetry. apply not_true_is_false. intros Hx. apply existsb_exists in Hx. destruct Hx as [x [Hx1 Hx2]].
    apply Nat.eqb_eq in Hx2. subst x. contradiction.
  - replace (k =? k0) with false by (symmetry; apply Nat.eqb_neq; auto). reflexivity.
Qed.

(* After Close, reading an address returns everything in its view, newest first *)
Theorem close_get s keys k :
  wf entry s -> NoDup keys -> (In k keys \/ accum entry s k = []) ->
  get entry (close entry P keys s) k = rev (view entry s k).
Proof.
  intros H ND Hk. unfold close.
  destruct (bg_drain_spec (length (chan entry s)) s H (le_n _)) as [W1 [C1 V1]].
  set (s1 := bg_drain entry P (length (chan entry s)) s) in *.
  destruct (flush_all_frame entry (parked entry s1) s1) as [A2 [C2 P2]].
  set (s2 := flush_all entry s1 (parked entry s1)) in *.
  assert (W2 : wf entry s2) by (apply wf_flush_all; auto).
  set (s3 := {| accum := accum entry s2; chan := chan entry s2; parked := []; log := log entry s2; heads := heads entry s2 |}).
  assert (W3 : wf entry s3) by exact W2.
  rewrite <- (rev_involutive (get entry (flush_all entry s3 _) k)). f_equal.
  rewrite get_flush_all by auto.
  change (get entry s3 k) with (get entry s2 k).
  unfold s2 at 1. rewrite get_flush_all by auto.
  rewrite pend_accum_keys by auto. cbn [accum].
  change (accum entry s3 k) with (accum entry s2 k). rewrite A2.
  rewrite <- V1. unfold view. rewrite C1. cbn [pend flat_map app].
  destruct (existsb (Nat.eqb k) keys) eqn:Ex.
  - now rewrite <- app_assoc.
  - assert (Hnk : ~ In k keys).
    { intros Hin. apply not_true_iff_false in Ex. apply Ex. apply existsb_exists. exists k. split; auto. apply Nat.eqb_refl. }
    destruct Hk as [Hk|Hk]; [contradiction|].
    (* accum of k is empty in s, and draining does not touch accum *)
    assert (Hacc : accum entry s1 k = accum entry s k) by (unfold s1; now rewrite accum_bg_drain).
    rewrite Hacc, Hk. now rewrite !app_nil_r.
Qed.

(* Histories: any interleaving of pushes and background steps *)
Inductive op := Push (k : nat) (e : entry) | Bg.
Definition apply_op (s : st) (o : op) : st :=
  match o with Push k e => push1 entry B s k e | Bg => bg_step entry P s end.
Definition hist (ops : list op) (k : nat) : list entry :=
  flat_map (fun o => match o with Push k' e => if Nat.eqb k' k then [e] else [] | Bg => [] end) ops.

Definition init : st := {| accum := fun _ => []; chan := []; parked := []; log := []; heads := fun _ => None |}.

Lemma run_view ops : forall s, wf entry s ->
  wf entry (fold_left apply_op ops s) /\
  forall k, view entry (fold_left apply_op ops s) k = view entry s k ++ hist ops k.
Proof.
  induction ops as [|o ops IH]; intros s H; cbn [fold_left hist flat_map].
  - split; auto. intros k. now rewrite app_nil_r.
  - destruct o as [k0 e|]; cbn [apply_op].
    + destruct (IH (push1 entry B s k0 e) (wf_push1 entry B s k0 e H)) as [W V]. split; auto.
      intros k. rewrite V. fold (hist ops k). destruct (Nat.eqb_spec k0 k) as [E|E].
      * subst. rewrite view_push1_same. now rewrite <- app_assoc.
      * rewrite view_push1_other by auto. reflexivity.
    + destruct (IH (bg_step entry P s) (wf_bg_step s H)) as [W V]. split; auto.
      intros k. rewrite V. fold (hist ops k). rewrite view_bg_step by auto. reflexivity.
Qed.

Lemma wf_init : wf entry init.
Proof. split; cbn. - intros i r Hn. destruct i; discriminate. - intros; discriminate. Qed.

Lemma accum_untouched ops k : forall s,
  (forall e, ~ In (Push k e) ops) -> wf entry s -> accum entry (fold_left apply_op ops s) k = accum entry s k.
Proof.
  induction ops as [|o ops IH]; intros s Hn H; cbn [fold_left]; auto.
  rewrite IH.
  - destruct o as [k0 e|]; cbn [apply_op].
    + assert (k0 <> k) by (intros E; subst; apply (Hn e); now left).
      unfold push1. destruct (accum entry s k0); cbn [accum]; unfold upd.
      * replace (k =? k0) with false by (symmetry; apply Nat.eqb_neq; auto). reflexivity.
      * destruct (B <=? _); cbn [accum]; unfold upd; replace (k =? k0) with false by (symmetry; apply Nat.eqb_neq; auto); reflexivity.
    + now rewrite accum_bg_step.
  - intros e Hin. apply (Hn e). now right.
  - destruct o; cbn [apply_op]; [apply wf_push1|apply wf_bg_step]; auto.
Qed.

(* C06 (fixed variant): for every history and every timing of the background flusher,
   after Close every address returns exactly its entries, each once, newest first. *)
Theorem gsfa_get_all ops keys k :
  NoDup keys -> (forall k' e, In (Push k' e) ops -> In k' keys) ->
  get entry (close entry P keys (fold_left apply_op ops init)) k = rev (hist ops k).
Proof.
  intros ND Hkeys. destruct (run_view ops init wf_init) as [W V].
  rewrite close_get; auto.
  - rewrite V. f_equal.
  - destruct (in_dec Nat.eq_dec k keys) as [Hin|Hnin]; [now left|right].
    rewrite accum_untouched; auto using wf_init.
    intros e Hin. apply Hnin. eapply Hkeys; eauto.
Qed.

End T.
Print Assumptions gsfa_get_all.
