From Coq Require Import List Arith Lia Bool PeanoNat.
Import ListNotations.

(* Abstract model of gsfa/gsfa-write.go (fixed variant) + gsfa-read.go:Get.
   Keys are nat, entries are an abstract type. The log is a list of records; a record's
   position in the list stands for its (offset,size) pointer. *)
Section Gsfa.
Variable entry : Type.
Definition key := nat.

Record rec := { r_entries : list entry;      (* newest first, as written by LinkedLog.Put *)
                r_prev : option nat }.        (* previous record of the same key *)

Record st := {
  accum  : key -> list entry;                 (* oldest first *)
  chan   : list (key * list entry);           (* fullBufferWriterChan, FIFO *)
  parked : list (key * list entry);           (* tmpBuf of the background goroutine *)
  log    : list rec;
  heads  : key -> option nat                  (* a.offsets *)
}.

Variable B : nat.      (* itemsPerBatch *)
Variable P : nat.      (* howManyBuffersToFlushConcurrently *)

Definition upd {V} (f : key -> V) (k : key) (v : V) : key -> V :=
  fun k' => if Nat.eqb k' k then v else f k'.

(* flushKVs for one key: append a record pointing to the previous head *)
Definition flush1 (s : st) (kb : key * list entry) : st :=
  let '(k, b) := kb in
  match b with
  | [] => s                                    (* Put skips empty value lists *)
  | _ => {| accum := accum s; chan := chan s; parked := parked s;
            log := log s ++ [{| r_entries := rev b; r_prev := heads s k |}];
            heads := upd (heads s) k (Some (length (log s))) |}
  end.

Definition flush_all (s : st) (kbs : list (key * list entry)) : st := fold_left flush1 kbs s.

(* Push of one entry for one key (Push loops over the deduped key list) *)
Definition push1 (s : st) (k : key) (e : entry) : st :=
  match accum s k with
  | [] => {| accum := upd (accum s) k [e]; chan := chan s; parked := parked s; log := log s; heads := heads s |}
  | cur =>
      let cur' := cur ++ [e] in
      if B <=? length cur'
      then {| accum := upd (accum s) k []; chan := chan s ++ [(k, cur')]; parked := parked s; log := log s; heads := heads s |}
      else {| accum := upd (accum s) k cur'; chan := chan s; parked := parked s; log := log s; heads := heads s |}
  end.

Definition has_key (k : key) (l : list (key * list entry)) : bool := existsb (fun kb => Nat.eqb (fst kb) k) l.

(* one iteration of fullBufferWriter's receive branch *)
Definition bg_step (s : st) : st :=
  match chan s with
  | [] => s
  | (k, b) :: rest =>
      let s0 := {| accum := accum s; chan := rest; parked := parked s; log := log s; heads := heads s |} in
      let s1 := if (length (parked s) =? P) || has_key k (parked s)
                then let f := flush_all s0 (parked s0) in
                     {| accum := accum f; chan := chan f; parked := []; log := log f; heads := heads f |}
                else s0 in
      {| accum := accum s1; chan := chan s1; parked := parked s1 ++ [(k, b)]; log := log s1; heads := heads s1 |}
  end.

Fixpoint bg_drain (fuel : nat) (s : st) : st :=
  match fuel with O => s | S f => match chan s with [] => s | _ => bg_drain f (bg_step s) end end.

(* Close (fixed order): drain the channel, flush parked batches, then flush the accumulators *)
Definition close (keys : list key) (s : st) : st :=
  let s1 := bg_drain (length (chan s)) s in
  let s2 := flush_all s1 (parked s1) in
  let s3 := {| accum := accum s2; chan := chan s2; parked := []; log := log s2; heads := heads s2 |} in
  flush_all s3 (map (fun k => (k, accum s3 k)) keys).

(* gsfa-read.go:Get with no limit: walk the chain from the head *)
Fixpoint walk (fuel : nat) (lg : list rec) (p : option nat) : list entry :=
  match fuel, p with
  | S f, Some i => match nth_error lg i with
                   | Some r => r_entries r ++ walk f lg (r_prev r)
                   | None => [] end
  | _, _ => []
  end.
Definition get (s : st) (k : key) : list entry := walk (S (length (log s))) (log s) (heads s k).

(* ---- invariant ---- *)
Definition pend (k : key) (l : list (key * list entry)) : list entry :=
  flat_map (fun kb => if Nat.eqb (fst kb) k then snd kb else []) l.

(* all entries ever pushed for k, oldest first *)
Definition view (s : st) (k : key) : list entry :=
  rev (get s k) ++ pend k (parked s) ++ pend k (chan s) ++ accum s k.

(* heads point strictly backwards: needed for walk's fuel *)
Definition wf_log (s : st) : Prop :=
  (forall k i, heads s k = Some i -> i < length (log s)) /\
  (forall i r, nth_error (log s) i = Some r -> forall j, r_prev r = Some j -> j < i).

End Gsfa.
