(* C14: the two checksums of ipld/ipldbindcode/methods.go, executable.
   checksumCrc64 = hash/crc64.Checksum(buf, MakeTable(crc64.ISO)); checksumFnv = hash/fnv.New64a.
   Both are differential-tested against the Go library on every run (hash cases of the case file). *)
From Coq Require Import NArith List Bool String.
Import ListNotations.
Require Import YF.Generated.ConstsC14.   (* re-read from ipld/ipldbindcode/methods.go on every check *)
Local Open Scope N_scope.

Definition M64 : N := 18446744073709551616.            (* 2^64 *)
Definition MASK64 : N := 18446744073709551615.

(* the polynomial the repository hands to crc64.MakeTable (generated fact); hash/crc64: const ISO = 0xD800000000000000 *)
Definition crc_poly : N := go_crc64_poly.
Example crc_poly_is_ISO : crc_poly = 15564440312192434176.
Proof. reflexivity. Qed.
(* the legacy checksum is hash/fnv New64a (FNV-1a, 64 bit), and VerifyHash tries CRC64 first, then FNV *)
Example go_fnv_is_1a_64 : go_fnv_variant = "New64a"%string.
Proof. reflexivity. Qed.
Example go_verify_order_is_crc_then_fnv : go_verify_order = ["checksumCrc64"%string; "checksumFnv"%string].
Proof. reflexivity. Qed.

(* makeTable: for i in 0..255 { crc := i; 8 times: if crc&1 == 1 { crc = crc>>1 ^ poly } else { crc >>= 1 } } *)
Fixpoint tab_entry (j : nat) (crc : N) : N :=
  match j with
  | O => crc
  | S j' => tab_entry j' (if N.testbit crc 0 then N.lxor (N.shiftr crc 1) crc_poly else N.shiftr crc 1)
  end.
Definition crc_table : list N := Eval vm_compute in map (fun i => tab_entry 8 (N.of_nat i)) (seq 0 256).
Definition tab (i : N) : N := nth (N.to_nat i) crc_table 0.

(* update: crc = ^crc; for each byte v: crc = tab[byte(crc)^v] ^ (crc >> 8); return ^crc.
   (Go processes blocks of 64 bytes with slicing-by-8 tables, an optimisation computing the same value;
    the differential test includes inputs longer than 64 bytes.) *)
Definition crc_step (crc v : N) : N := N.lxor (tab (N.lxor (crc mod 256) (v mod 256))) (N.shiftr crc 8).
Definition compl64 (x : N) : N := N.lxor x MASK64.
Definition crc64_update (crc : N) (d : list N) : N := compl64 (fold_left crc_step d (compl64 crc)).
Definition crc64 (d : list N) : N := crc64_update 0 d.

(* hash/fnv New64a: offset64 = 14695981039346656037, prime64 = 1099511628211; hash ^= b; hash *= prime *)
Definition fnv_offset : N := 14695981039346656037.
Definition fnv_prime : N := 1099511628211.
Definition fnv_step (h b : N) : N := (N.lxor h (b mod 256) * fnv_prime) mod M64.
Definition fnv1a (d : list N) : N := fold_left fnv_step d fnv_offset.

(* VerifyHash: CRC64 first, then the legacy FNV-1a *)
Definition verify_hash (d : list N) (h : N) : bool := (crc64 d =? h) || (fnv1a d =? h).

Lemma verify_hash_spec d h : verify_hash d h = true <-> crc64 d = h \/ fnv1a d = h.
Proof.
  unfold verify_hash. rewrite orb_true_iff, !N.eqb_eq. tauto.
Qed.

(* published check values: CRC-64/GO-ISO("123456789") = 0xB90956C775A41001, FNV-1a64("a") = 0xaf63dc4c8601ec8c,
   FNV-1a64("") = offset basis *)
Example crc64_check_value : crc64 [49;50;51;52;53;54;55;56;57] = 13333283586479230977.
Proof. vm_compute. reflexivity. Qed.
Example crc64_empty : crc64 [] = 0.
Proof. vm_compute. reflexivity. Qed.
Example fnv1a_a : fnv1a [97] = 12638187200555641996.
Proof. vm_compute. reflexivity. Qed.
Example fnv1a_empty : fnv1a [] = 14695981039346656037.
Proof. vm_compute. reflexivity. Qed.
