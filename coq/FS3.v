From Coq Require Import List Arith Lia Bool PeanoNat NArith Permutation.
Import ListNotations.
Require Import FS FS2.

Section Q.
Variable jobs : list outcome.
Variable limit : nat.
Notation n := (length jobs).
Notation step := (step jobs limit).

Definition isFail (o : outcome) : Prop := exists e, o = Fail e.
Definition out_of (i : nat) : list outcome := match nth_error jobs i with Some o => [o] | None => [] end.
Definition outs (l : list nat) : list outcome := flat_map out_of l.
Definition fails (l : list outcome) : list N := flat_map (fun o => match o with Fail e => [e] | Succ _ => [] end) l.

Lemma fails_app a b : fails (a ++ b) = fails a ++ fails b.
Proof. apply flat_map_app. Qed.
Lemma outs_app a b : outs (a ++ b) = outs a ++ outs b.
Proof. apply flat_map_app. Qed.

Lemma fails_length l : Forall isFail l -> length (fails l) = length l.
Proof. induction 1 as [|o l [e He] _ IH]; cbn; auto. subst. cbn. fold (fails l). now rewrite IH. Qed.

Lemma outs_length l : Forall (fun i => i < n) l -> length (outs l) = length l.
Proof.
  induction 1 as [|i l Hi _ IH]; cbn; auto. fold (outs l). rewrite app_length, IH. unfold out_of.
  destruct (nth_error jobs i) eqn:E; cbn; auto. apply nth_error_None in E. lia.
Qed.

Lemma flat_map_nth_all {T} (l : list T) :
  flat_map (fun i => match nth_error l i with Some o => [o] | None => [] end) (seq 0 (length l)) = l.
Proof.
  induction l as [|x l IH]; cbn [length seq flat_map nth_error]; auto.
  cbn [app]. f_equal. rewrite <- seq_shift. rewrite flat_map_concat_map, map_map. cbn [nth_error].
  rewrite <- flat_map_concat_map. exact IH.
Qed.

Lemma outs_seq_all : outs (seq 0 n) = jobs.
Proof. unfold outs, out_of. apply flat_map_nth_all. Qed.

Lemma outs_perm a b : Permutation a b -> Permutation (outs a) (outs b).
Proof.
  induction 1; cbn; auto.
  - apply Permutation_app_head; auto.
  - rewrite !app_assoc. apply Permutation_app_tail. apply Permutation_app_comm.
  - eapply Permutation_trans; eauto.
Qed.
Lemma fails_perm a b : Permutation a b -> Permutation (fails a) (fails b).
Proof.
  induction 1; cbn; auto.
  - apply Permutation_app_head; auto.
  - rewrite !app_assoc. apply Permutation_app_tail. apply Permutation_app_comm.
  - eapply Permutation_trans; eauto.
Qed.

Record JJ (s : state) (j_fin : list nat) (j_consumed : list outcome) : Prop := {
  j_next : next s <= n;
  j_perm : Permutation (j_fin ++ running s) (seq 0 (next s));
  j_outs : outs j_fin = j_consumed ++ chan s;
  j_errs : errs s = fails j_consumed;
  j_open : ret s = None -> Forall isFail j_consumed;
  j_err : forall es, ret s = Some (RErr es) ->
            es = errs s /\ Forall isFail j_consumed /\ chan s = [] /\ running s = [] /\ next s = n;
  j_closed : closed s = true -> running s = [] /\ next s = n
}.
Definition J (s : state) : Prop := exists fin cons, JJ s fin cons.

Lemma J_init : J init.
Proof. exists [], []. constructor; cbn [next running chan closed errs ret]; auto using Nat.le_0_l; try discriminate. Qed.

Lemma perm_remove i l : existsb (Nat.eqb i) l = true -> Permutation l (i :: remove_nat i l).
Proof.
  induction l as [|y l IH]; cbn; [discriminate|]. destruct (Nat.eqb_spec i y) as [E|E]; cbn.
  - subst; auto.
  - intros H. eapply Permutation_trans; [apply perm_skip, IH, H|apply perm_swap].
Qed.

Lemma idx_lt s fin : next s <= n -> Permutation (fin ++ running s) (seq 0 (next s)) ->
  Forall (fun i => i < n) fin /\ Forall (fun i => i < n) (running s).
Proof.
  intros Hn Hp. assert (Hall : Forall (fun i => i < n) (fin ++ running s)).
  { apply Forall_forall. intros x Hx. eapply Permutation_in in Hx; [|exact Hp]. apply in_seq in Hx. lia. }
  apply Forall_app in Hall. exact Hall.
Qed.

Lemma step_J s c s' : J s -> step s c = Some s' -> J s'.
Proof.
  intros [fin [cons [Hn Hp Ho He Hop Her Hcl]]]. unfold FS.step.
  destruct (ret s) eqn:Hret; [discriminate|]. specialize (Hop eq_refl).
  destruct c as [|i| |].
  - (* Launch *)
    destruct (next s <? n) eqn:E1; cbn [andb]; [|discriminate]. apply Nat.ltb_lt in E1.
    destruct (slot_free limit s); [|discriminate]. intros E; inversion E; subst; clear E.
    exists (fin), (cons). constructor; cbn [next running chan closed errs ret]; auto; try lia; try discriminate.
    + rewrite app_assoc. replace (S (next s)) with (next s + 1) by lia. rewrite seq_app. cbn.
      apply Permutation_app_tail. exact Hp.
    + intros Hc. destruct (Hcl Hc). lia.
  - (* Finish i *)
    destruct (existsb (Nat.eqb i) (running s)) eqn:Ex; [|discriminate].
    destruct (nth_error jobs i) as [o|] eqn:En; [|discriminate]. intros E; inversion E; subst; clear E.
    exists (fin ++ [i]), (cons). constructor; cbn [next running chan closed errs ret]; auto; try discriminate.
    + rewrite <- app_assoc. cbn. eapply Permutation_trans; [|exact Hp].
      apply Permutation_app_head. apply Permutation_sym. apply perm_remove; auto.
    + rewrite outs_app, Ho. cbn. unfold out_of. rewrite En. cbn. now rewrite <- app_assoc.
    + intros Hc. destruct (Hcl Hc) as [Hr _]. rewrite Hr in Ex. discriminate.
  - (* CloseCh *)
    destruct (next s =? n) eqn:E1; cbn [andb]; [|discriminate]. apply Nat.eqb_eq in E1.
    destruct (running s) eqn:Er; cbn [andb]; [|discriminate].
    destruct (closed s); [discriminate|]. cbn. intros E; inversion E; subst; clear E.
    exists (fin), (cons). constructor; cbn [next running chan closed errs ret]; auto; try discriminate.
  - (* Recv *)
    destruct (next s =? n) eqn:E1; [|discriminate]. apply Nat.eqb_eq in E1.
    destruct (chan s) as [|[v|e] rest] eqn:Ec.
    + destruct (closed s) eqn:Ecl; [|discriminate]. intros E; inversion E; subst; clear E.
      destruct (Hcl eq_refl) as [Hr Hnn].
      exists (fin), (cons). constructor; cbn [next running chan closed errs ret]; auto; try discriminate.
      intros es Hes. inversion Hes; subst. repeat split; auto.
    + intros E; inversion E; subst; clear E.
      exists (fin), (cons ++ [Succ v]). constructor; cbn [next running chan closed errs ret]; auto; try discriminate.
      * rewrite Ho, <- app_assoc. reflexivity.
      * rewrite fails_app. cbn. now rewrite app_nil_r.
    + intros E; inversion E; subst; clear E.
      assert (Hcons' : Forall isFail (cons ++ [Fail e])).
      { apply Forall_app; split; auto. constructor; [eexists; reflexivity|constructor]. }
      exists (fin), (cons ++ [Fail e]). constructor; cbn [next running chan closed errs ret]; auto.
      * rewrite Ho, <- app_assoc. reflexivity.
      * rewrite fails_app, He. reflexivity.
      * intros es Hes. destruct (length (errs s ++ [e]) =? n) eqn:El; [|discriminate].
        apply Nat.eqb_eq in El. inversion Hes; subst es. split; auto. split; auto.
        destruct (idx_lt s fin Hn Hp) as [Hf Hrun].
        pose proof (outs_length fin Hf) as L1. rewrite Ho, app_length in L1. cbn [length] in L1.
        pose proof (Permutation_length Hp) as L2. rewrite app_length, seq_length in L2.
        rewrite He, app_length in El. rewrite (fails_length _ Hop) in El. cbn [length] in El.
        assert (length rest = 0 /\ length (running s) = 0) by lia.
        destruct H as [Hr0 Hrun0]. split; [destruct rest; [auto|discriminate]|]. split; [destruct (running s); [auto|discriminate]|auto].
Qed.

Lemma run_J cs : forall s s', J s -> run jobs limit s cs = Some s' -> J s'.
Proof.
  induction cs as [|c cs IH]; intros s s' H E; cbn in E; [inversion E; subst; auto|].
  destruct (step s c) as [s1|] eqn:Es; [|discriminate]. apply (IH s1 s'); auto. apply (step_J s c s1); auto.
Qed.

(* C18: an error result means every job failed, and the result lists exactly their errors *)
Theorem error_result_complete cs s es :
  run jobs limit init cs = Some s -> ret s = Some (RErr es) ->
  Forall isFail jobs /\ Permutation es (fails jobs).
Proof.
  intros Hrun Hret. pose proof (run_J cs init s J_init Hrun) as [fin [cons [Hn Hp Ho He Hop Her Hcl]]].
  destruct (Her es Hret) as [E1 [Hf [Hc [Hr Hnn]]]]. subst es.
  rewrite Hc, app_nil_r in Ho. rewrite Hr, app_nil_r, Hnn in Hp.
  pose proof (outs_perm _ _ Hp) as Hpo. rewrite outs_seq_all, Ho in Hpo.
  split.
  - apply Forall_forall. intros o Hin. apply Permutation_sym in Hpo. eapply Permutation_in in Hin; [|exact Hpo].
    rewrite Forall_forall in Hf. auto.
  - rewrite He. apply fails_perm. exact Hpo.
Qed.

(* hence: if some job succeeds, FirstSuccess cannot return an error *)
Corollary success_wins cs s v :
  In (Succ v) jobs -> run jobs limit init cs = Some s -> forall es, ret s <> Some (RErr es).
Proof.
  intros Hin Hrun es Hret. destruct (error_result_complete cs s es Hrun Hret) as [Hall _].
  rewrite Forall_forall in Hall. destruct (Hall _ Hin) as [e He]. discriminate.
Qed.
End Q.
Print Assumptions error_result_complete.
Print Assumptions success_wins.
