From Coq Require Import List Arith Lia Bool PeanoNat NArith.
Import ListNotations.
Require Import Eytz Eytz2.

Lemma inorder_cover n f k p j :
  1 <= k -> p <= n -> p / 2 ^ j = k -> j < f -> In p (inorder n f k).
Proof.
  revert k p j; induction f as [|f IH]; intros k p j Hk Hp Hj Hjf; [lia|].
  cbn [inorder].
  assert (Hkp : k <= p). { subst k. apply div_le_self. apply Nat.pow_nonzero; lia. }
  replace (k <=? n) with true by (symmetry; apply Nat.leb_le; lia).
  destruct j as [|j].
  - change (2 ^ 0) with 1 in Hj. rewrite Nat.div_1_r in Hj. subst. apply in_or_app. right. now left.
  - set (c := p / 2 ^ j).
    assert (Hc : c / 2 = k).
    { unfold c. rewrite <- Hj. replace (S j) with (j + 1) by lia. rewrite div_pow_add. reflexivity. }
    assert (Hc2 : c = 2 * k \/ c = 2 * k + 1).
    { pose proof (Nat.div_mod c 2 ltac:(lia)) as Hdm. pose proof (Nat.mod_upper_bound c 2 ltac:(lia)). lia. }
    apply in_or_app. destruct Hc2 as [E|E].
    + left. apply (IH (2*k) p j); try lia.
    + right. right. apply (IH (2*k+1) p j); try lia.
Qed.

Lemma root_anc p : 1 <= p -> p / 2 ^ (Nat.log2 p) = 1.
Proof.
  intros Hp. pose proof (Nat.log2_spec p ltac:(lia)) as [H1 H2].
  symmetry. apply (Nat.div_unique p (2 ^ Nat.log2 p) 1 (p - 2 ^ Nat.log2 p)).
  - cbn [Nat.pow] in H2. lia.
  - lia.
Qed.

Lemma inorder_root_cover n f p : n < 2 ^ f -> 1 <= p <= n -> In p (inorder n f 1).
Proof.
  intros Hf Hp. apply (inorder_cover n f 1 p (Nat.log2 p)); try lia.
  - apply root_anc; lia.
  - pose proof (Nat.log2_spec p ltac:(lia)) as [H1 _].
    apply (Nat.pow_lt_mono_r_iff 2); lia.
Qed.

Lemma inorder_root_length n f : n < 2 ^ f -> length (inorder n f 1) = n.
Proof.
  intros Hf.
  assert (H1 : length (inorder n f 1) <= length (seq 1 n)).
  { apply NoDup_incl_length.
    - apply inorder_NoDup; lia.
    - intros p Hp. apply in_seq. pose proof (in_inorder_ge _ _ _ _ Hp).
      apply in_inorder_anc in Hp. destruct Hp as [Hp _]. lia. }
  assert (H2 : length (seq 1 n) <= length (inorder n f 1)).
  { apply NoDup_incl_length.
    - apply seq_NoDup.
    - intros p Hp. apply in_seq in Hp. apply inorder_root_cover; lia. }
  rewrite seq_length in *. lia.
Qed.

Section Search.
Variable A : Type.
Variable d : A.
Variable key : A -> N.

Definition eytz (inp : list A) : list A :=
  snd (go A d (S (length inp)) inp (repeat d (length inp)) 0 1).

Fixpoint search (fuel : nat) (arr : list A) (x : N) (idx : nat) : option A :=
  match fuel with
  | O => None
  | S f =>
    if idx <? length arr then
      let e := nth idx arr d in
      if N.eqb (key e) x then Some e
      else search f arr x (if N.ltb (key e) x then 2 * idx + 2 else 2 * idx + 1)
    else None
  end.

Definition lookup (arr : list A) (x : N) : option A := search (S (length arr)) arr x 0.

Lemma pow_gt n : n < 2 ^ S n.
Proof. pose proof (Nat.pow_gt_lin_r 2 (S n) ltac:(lia)). lia. Qed.

Lemma eytz_length inp : length (eytz inp) = length inp.
Proof.
  unfold eytz. rewrite go_spec. cbn [snd]. rewrite apply_updates_length. apply repeat_length.
Qed.

Lemma in_combine_seq {T} (l : list T) m (x : T) s :
  nth_error l m = Some x -> In (x, s + m) (combine l (seq s (length l))).
Proof.
  revert m s; induction l as [|a l IH]; intros [|m] s H; cbn in *; try discriminate.
  - inversion H; subst. left. f_equal. lia.
  - right. replace (s + S m) with (S s + m) by lia. apply IH; auto.
Qed.

Lemma map_fst_combine_seq {T} (l : list T) s : map fst (combine l (seq s (length l))) = l.
Proof. revert s; induction l as [|a l IH]; intros s; cbn; auto. now rewrite IH. Qed.

Lemma eytz_nth inp p m :
  nth_error (inorder (length inp) (S (length inp)) 1) m = Some p ->
  nth (p - 1) (eytz inp) d = nth m inp d.
Proof.
  intros H. unfold eytz. rewrite go_spec. cbn [snd].
  set (L := inorder (length inp) (S (length inp)) 1) in *.
  assert (HLlen : length L = length inp) by (apply inorder_root_length, pow_gt).
  assert (Hin : In p L) by (eapply nth_error_In; eauto).
  apply apply_updates_in.
  - apply Forall_forall. intros [q j] Hq. cbn. apply in_combine_l in Hq. apply in_inorder_ge in Hq. exact Hq.
  - rewrite map_fst_combine_seq. apply inorder_NoDup; lia.
  - change m with (0 + m). apply in_combine_seq; auto.
  - rewrite repeat_length. apply in_inorder_anc in Hin. lia.
Qed.

Hypothesis key_sorted_dummy : True.

Lemma search_found inp :
  (forall a b, a < b < length inp -> (key (nth a inp d) < key (nth b inp d))%N) ->
  forall f k pre post,
    1 <= k ->
    inorder (length inp) (S (length inp)) 1 = pre ++ inorder (length inp) f k ++ post ->
    forall r, length pre <= r < length pre + length (inorder (length inp) f k) ->
    search f (eytz inp) (key (nth r inp d)) (k - 1) = Some (nth r inp d).
Proof.
  intros Hsorted. set (n := length inp). set (L := inorder n (S n) 1).
  assert (HLlen : length L = n) by (apply inorder_root_length, pow_gt).
  induction f as [|f IH]; intros k pre post Hk HL r Hr; cbn [inorder] in *; [cbn in Hr; lia|].
  destruct (k <=? n) eqn:Hkn; [|cbn in Hr; lia]. apply Nat.leb_le in Hkn.
  set (Lk := inorder n f (2 * k)) in *. set (Rk := inorder n f (2 * k + 1)) in *.
  cbn [search]. rewrite eytz_length. fold n.
  replace (k - 1 <? n) with true by (symmetry; apply Nat.ltb_lt; lia).
  set (m := length pre + length Lk).
  assert (Hm : nth_error L m = Some k).
  { rewrite HL. rewrite nth_error_app2 by lia. rewrite <- app_assoc. rewrite nth_error_app2 by (unfold m; lia).
    replace (m - length pre - length Lk) with 0 by (unfold m; lia). reflexivity. }
  assert (Hmn : m < n).
  { rewrite <- HLlen. apply nth_error_Some. rewrite Hm. discriminate. }
  rewrite (eytz_nth inp k m Hm).
  rewrite app_length in Hr. cbn [length] in Hr.
  assert (Hlen : length pre + (length Lk + S (length Rk)) + length post = n).
  { rewrite <- HLlen. rewrite HL. rewrite !app_length. cbn [length]. lia. }
  destruct (Nat.lt_trichotomy r m) as [Hlt|[Heq|Hgt]].
  - (* go left *)
    pose proof (Hsorted r m ltac:(fold n; lia)) as Hkey.
    replace (N.eqb (key (nth m inp d)) (key (nth r inp d))) with false
      by (symmetry; apply N.eqb_neq; lia).
    replace (N.ltb (key (nth m inp d)) (key (nth r inp d))) with false
      by (symmetry; apply N.ltb_ge; lia).
    replace (2 * (k - 1) + 1) with (2 * k - 1) by lia.
    apply (IH (2 * k) pre (k :: Rk ++ post)); try lia.
    + rewrite HL. fold Lk. rewrite <- app_assoc. reflexivity.
    + fold Lk. unfold m in *. lia.
  - subst r. rewrite N.eqb_refl. reflexivity.
  - pose proof (Hsorted m r ltac:(fold n; lia)) as Hkey.
    replace (N.eqb (key (nth m inp d)) (key (nth r inp d))) with false
      by (symmetry; apply N.eqb_neq; lia).
    replace (N.ltb (key (nth m inp d)) (key (nth r inp d))) with true
      by (symmetry; apply N.ltb_lt; lia).
    replace (2 * (k - 1) + 2) with (2 * k + 1 - 1) by lia.
    apply (IH (2 * k + 1) (pre ++ Lk ++ [k]) post); try lia.
    + rewrite HL. fold Rk. rewrite <- !app_assoc. reflexivity.
    + fold Rk. rewrite !app_length. cbn [length]. unfold m in *. lia.
Qed.

Theorem eytz_lookup_complete inp :
  (forall a b, a < b < length inp -> (key (nth a inp d) < key (nth b inp d))%N) ->
  forall r, r < length inp -> lookup (eytz inp) (key (nth r inp d)) = Some (nth r inp d).
Proof.
  intros Hs r Hr. unfold lookup. rewrite eytz_length.
  apply (search_found inp Hs (S (length inp)) 1 [] []); try lia.
  - cbn [app]. now rewrite app_nil_r.
  - cbn [length]. rewrite inorder_root_length by apply pow_gt. lia.
Qed.

Lemma search_sound f arr x idx e : search f arr x idx = Some e -> key e = x /\ In e arr.
Proof.
  revert idx; induction f as [|f IH]; intros idx H; cbn [search] in H; [discriminate|].
  destruct (idx <? length arr) eqn:Hi; [|discriminate]. apply Nat.ltb_lt in Hi.
  destruct (N.eqb (key (nth idx arr d)) x) eqn:He.
  - inversion H; subst. split; [now apply N.eqb_eq|]. apply nth_In; auto.
  - eapply IH; eauto.
Qed.

Lemma eytz_incl inp e : In e (eytz inp) -> In e inp.
Proof.
  intros H. apply (In_nth _ _ d) in H. destruct H as [q [Hq He]]. rewrite eytz_length in Hq.
  set (n := length inp) in *. set (L := inorder n (S n) 1).
  assert (Hin : In (S q) L) by (apply inorder_root_cover; [apply pow_gt|lia]).
  apply In_nth_error in Hin. destruct Hin as [m Hm].
  pose proof (eytz_nth inp (S q) m Hm) as E. cbn in E. rewrite Nat.sub_0_r in E. rewrite E in He. subst e.
  apply nth_In. fold n. rewrite <- (inorder_root_length n (S n) (pow_gt n)). apply nth_error_Some. fold L. rewrite Hm. discriminate.
Qed.

Theorem eytz_lookup_sound inp x e : lookup (eytz inp) x = Some e -> key e = x /\ In e inp.
Proof. intros H. apply search_sound in H. destruct H as [H1 H2]. split; auto. now apply eytz_incl. Qed.

Theorem eytz_lookup_absent inp x : ~ In x (map key inp) -> lookup (eytz inp) x = None.
Proof.
  intros H. destruct (lookup (eytz inp) x) as [e|] eqn:E; auto.
  apply eytz_lookup_sound in E. destruct E as [E1 E2]. exfalso. apply H. subst x. now apply in_map.
Qed.

End Search.
Print Assumptions eytz_lookup_complete.
Print Assumptions eytz_lookup_absent.
