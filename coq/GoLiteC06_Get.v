(* C06 — GsfaReader.Get (gsfa/gsfa-read.go): the walk along an address's chain of records — the head from the pubkey
   index, then the record at each "previous" pointer until the zero pointer or the limit — translated from the Go
   source on every check (Generated/GoLiteGetC06.v).  The record reader is an oracle here: the model's read_with_size,
   which the translated LinkedLog.ReadWithSize is proved equal to (GoLiteC06_ReadWithSize.v).  For every linked-log file,
   head pointer and limit, Get returns the entries the model's walk collects, newest first, cut at the limit; with a
   limit that the history does not reach it is the model's bwalk (C06_Store.v), the function the C06 theorems are
   about. *)
From Coq Require Import List ZArith NArith String Bool Lia.
Import ListNotations.
Require Import YF.GoLite YF.GoLiteLemmas YF.Codec YF.C06_LinkedLog YF.C06_Store YF.GoLiteC06_Codec.
Require Import YF.Generated.GoLiteGetC06.
Local Open Scope string_scope.
Local Open Scope Z_scope.
Local Open Scope list_scope.

Definition os_val (p : ptr) : val := VStruct [("Offset", VInt (Z.of_N (fst p))); ("Size", VInt (Z.of_N (snd p)))].

Section Get.
Variable decompress : list N -> option (list N).
Variable file : list N.
Variable head : option ptr.                    (* what the pubkey index holds for the address *)

(* the walk with a limit: None = out of (model) fuel, Some None = a record could not be read *)
Fixpoint gwalk (fuel : nat) (p : ptr) (acc : list entry) (limit : nat) : option (option (list entry)) :=
  if ptr_is_zero p then Some (Some acc)
  else if (limit <=? List.length acc)%nat then Some (Some acc)
  else match fuel with
       | O => None
       | S f =>
         match read_with_size decompress file (fst p) (snd p) with
         | None => Some None
         | Some (es, prev) => gwalk f prev (acc ++ firstn (limit - List.length acc) es) limit
         end
       end.

(* without reaching the limit it is the model's bwalk *)
Lemma gwalk_is_bwalk : forall fuel p acc limit l,
  bwalk decompress fuel file p = Some l -> (List.length acc + List.length l < limit)%nat ->
  gwalk fuel p acc limit = Some (Some (acc ++ l)).
Proof.
  induction fuel as [|f IH]; intros p acc limit l Hb Hl; cbn [bwalk gwalk] in *.
  - destruct (ptr_is_zero p); [|discriminate]. injection Hb as <-. rewrite app_nil_r. reflexivity.
  - destruct (ptr_is_zero p); [injection Hb as <-; rewrite app_nil_r; reflexivity|].
    destruct (Nat.leb_spec limit (List.length acc)) as [Hc|_]; [lia|].
    destruct (read_with_size decompress file (fst p) (snd p)) as [[es prev]|]; [|discriminate].
    destruct (bwalk decompress f file prev) as [rest|] eqn:Hr; [|discriminate]. injection Hb as <-.
    rewrite app_length in Hl.
    rewrite firstn_all2 by lia.
    rewrite (IH prev (acc ++ es) limit rest Hr) by (rewrite app_length; lia).
    rewrite app_assoc. reflexivity.
Qed.

Definition ext_get : string -> list val -> option val := fun f args =>
  match f, args with
  | "github.com/rpcpool/yellowstone-faithful/indexes.PubkeyToOffsetAndSize_Reader.Get", [_; _] =>
      match head with
      | Some p => Some (VTuple [os_val p; VNil])
      | None => Some (VTuple [VNil; VErr "notfound"])
      end
  | "compactindexsized.IsNotFound", [VErr e] => Some (VBool (String.eqb e "notfound"))
  | "github.com/rpcpool/yellowstone-faithful/indexes.OffsetAndSize.IsZero", [VStruct [("Offset", VInt o); ("Size", VInt s)]] =>
      Some (VBool ((o =? 0) && (s =? 0)))
  | "github.com/rpcpool/yellowstone-faithful/gsfa/linkedlog.LinkedLog.ReadWithSize", [_; VInt o; VInt s] =>
      match read_with_size decompress file (Z.to_N o) (Z.to_N s) with
      | Some (es, prev) => Some (VTuple [VTuple (map oas_val es); os_val prev; VNil])
      | None => Some (VTuple [VInts []; os_val ptr_zero; VErr "read"])
      end
  | _, _ => None
  end.

Definition prog := GoLiteGetC06.prog.

Variable maxent : nat.                          (* no record holds more entries than this *)
Hypothesis rec_small : forall o sz es prev, read_with_size decompress file o sz = Some (es, prev) -> (List.length es <= maxent)%nat.
Hypothesis maxent_small : Z.of_nat maxent < 4611686018427387904.

Definition lv (l : list entry) : val := VTuple (map oas_val l).
Definition idx_val (ov llv : val) : val := VStruct [("offsets", ov); ("ll", llv)].
Definition zero_oas : val := VStruct [("Offset", VInt 0); ("Size", VInt 0); ("Slot", VInt 0); ("Flags", VInt 0)].

Definition env12 (iv cv pkv : val) (lim : Z) (lo : val) (acc : list entry) (nx loc nn e2 sg : val) : env :=
  [("index", iv); ("ctx", cv); ("pk", pkv); ("limit", VInt lim); ("lastOffset", lo); ("err", VNil);
   ("allTransactionLocations", lv acc); ("next", nx); ("locations", loc); ("newNext", nn); ("err#2", e2); ("sigIndex", sg)].

Definition inner_body : stmt :=
  SSeq (SAssign (LVar "sigIndex") (EIndexV (EVar "locations") (EVar "tmp3")))
  (SSeq (SIf (EAndAlso (ECmp CGt (EVar "limit") (EInt 0)) (ECmp CGe (ELenV (EVar "allTransactionLocations")) (EVar "limit")))
  (SBreak)
  (SSkip))
  (SAssign (LVar "allTransactionLocations") (EBuiltin "appendv" [EVar "allTransactionLocations"; EVar "sigIndex"]))).
Definition inner_loop : stmt :=
  SFor (ECmp CLt (EVar "tmp3") (ELenV (EVar "locations")))
       (SAssign (LVar "tmp3") (EBin OAdd I64 (EVar "tmp3") (EInt 1))) inner_body.

Lemma nth_map_oas (l : list entry) k : (k < List.length l)%nat -> nth k (map oas_val l) VNil = oas_val (nth k l (0, 0, 0, 0)%N).
Proof. intros H. rewrite (nth_indep _ VNil (oas_val (0, 0, 0, 0)%N)) by (rewrite map_length; exact H). apply map_nth. Qed.

(* the inner loop appends the entries of the record until the limit is reached *)
Lemma inner_spec iv cv pkv lim lo nx nn e2 t2 (limit : nat) : lim = Z.of_nat limit -> 0 < lim ->
  forall (rest done acc : list entry) sg g,
  (List.length rest < g)%nat -> Z.of_nat (List.length (done ++ rest)) < 4611686018427387904 ->
  exists sg' k',
  exec prog ext_get g inner_loop
    (env12 iv cv pkv lim lo acc nx (lv (done ++ rest)) nn e2 sg ++ [("tmp2", t2); ("tmp3", VInt (Z.of_nat (List.length done)))]) =
  RNorm (env12 iv cv pkv lim lo (acc ++ firstn (limit - List.length acc) rest) nx (lv (done ++ rest)) nn e2 sg'
         ++ [("tmp2", t2); ("tmp3", VInt k')]).
Proof.
  intros Hlim Hpos. induction rest as [|x r IH]; intros done acc sg g Hg Hlen.
  - destruct g as [|g]; [cbn in Hg; lia|]. exists sg, (Z.of_nat (List.length done)).
    unfold inner_loop. rewrite exec_for_S. unfold env12, lv. cbn [app]. go_cbn.
    rewrite app_nil_r. rewrite map_length.
    destruct (Z.ltb_spec (Z.of_nat (List.length done)) (Z.of_nat (List.length done))) as [Hc|_]; [lia|].
    cbn [of_eres]. rewrite firstn_nil, app_nil_r. reflexivity.
  - destruct g as [|g]; [cbn in Hg; lia|].
    unfold inner_loop. rewrite exec_for_S. fold inner_loop. unfold env12, lv. cbn [app]. go_cbn.
    rewrite !map_length. rewrite app_length. cbn [List.length].
    destruct (Z.ltb_spec (Z.of_nat (List.length done)) (Z.of_nat (List.length done + S (List.length r)))) as [_|Hc]; [|lia].
    cbn [of_eres]. unfold inner_body. go_run.
    rewrite !map_length. rewrite app_length. cbn [List.length].
    assert (Hb : (0 <=? Z.of_nat (List.length done)) && (Z.of_nat (List.length done) <? Z.of_nat (List.length done + S (List.length r))) = true).
    { rewrite andb_true_iff. split; [apply Z.leb_le|apply Z.ltb_lt]; lia. }
    rewrite Hb. go_cbn. rewrite Nat2Z.id.
    rewrite (nth_map_oas (done ++ x :: r) (List.length done)) by (rewrite app_length; cbn [List.length]; lia).
    rewrite app_nth2 by lia. rewrite Nat.sub_diag. cbn [nth].
    go_run. destruct (Z.ltb_spec 0 lim) as [_|Hc]; [|lia]. go_cbn. rewrite map_length.
    destruct (Z.leb_spec lim (Z.of_nat (List.length acc))) as [Hfull|Hroom].
    + (* the limit is reached: break *)
      go_run. exists (oas_val x), (Z.of_nat (List.length done)).
      replace (limit - List.length acc)%nat with 0%nat by lia. cbn [firstn]. rewrite app_nil_r. reflexivity.
    + go_run.
      rewrite (wrap_i64_small (Z.of_nat (List.length done) + 1)) by (rewrite app_length in Hlen; lia).
      specialize (IH (done ++ [x]) (acc ++ [x]) (oas_val x) g).
      rewrite <- !app_assoc in IH. cbn [app] in IH.
      destruct IH as (sg' & k' & IH); [cbn [List.length] in Hg; lia|exact Hlen|].
      exists sg', k'.
      unfold env12, lv in IH. cbn [app] in IH. rewrite map_app in IH. cbn [map] in IH.
      rewrite app_length in IH. cbn [List.length] in IH.
      replace (Z.of_nat (List.length done) + 1) with (Z.of_nat (List.length done + 1)) by lia.
      rewrite IH.
      replace (limit - List.length acc)%nat with (S (limit - (List.length acc + 1)))%nat by lia.
      cbn [firstn]. rewrite app_length. cbn [List.length]. reflexivity.
Qed.

Definition outer_loop : stmt :=
  Eval cbv in
  match f_body fn_GsfaReader_Get with
  | SSeq _ (SSeq _ (SSeq _ (SSeq _ (SSeq _ (SSeq (SSeq _ (SSeq _ (SSeq _ (SSeq _ l)))) _))))) => l
  | _ => SSkip
  end.
Definition outer_body : stmt := match outer_loop with SFor _ _ b => b | _ => SSkip end.

Lemma outer_loop_eq : outer_loop = SFor (EBool true) SSkip outer_body.
Proof. reflexivity. Qed.

Lemma is_zero_Z (p : ptr) : ((Z.of_N (fst p) =? 0) && (Z.of_N (snd p) =? 0)) = ptr_is_zero p.
Proof.
  unfold ptr_is_zero. destruct p as [o sz]. cbn [fst snd].
  destruct (N.eqb_spec o 0) as [->|Ho]; destruct (N.eqb_spec sz 0) as [->|Hs]; cbn;
    repeat match goal with |- context [Z.of_N ?x =? 0] => destruct (Z.eqb_spec (Z.of_N x) 0); try lia end; reflexivity.
Qed.

(* the tail of the environment: empty before the first iteration, the two temporaries afterwards *)
Definition tail_ok (tl : env) : Prop := tl = [] \/ exists t2 t3, tl = [("tmp2", t2); ("tmp3", t3)].

Lemma outer_spec ov llv cv pkv lim lo (limit : nat) (iv := idx_val ov llv) : lim = Z.of_nat limit -> 0 < lim ->
  Z.of_nat limit < 4611686018427387904 ->
  forall F (p : ptr) (acc : list entry) loc nn e2 sg tl g,
  tail_ok tl -> (F + maxent + 2 <= g)%nat ->
  match gwalk F p acc limit with
  | None => True
  | Some None =>
      exec prog ext_get g outer_loop (env12 iv cv pkv lim lo acc (os_val p) loc nn e2 sg ++ tl) =
      RRet (VTuple [VInts []; VErr "%w read"])
  | Some (Some l) =>
      exists nx' loc' nn' e2' sg' tl',
      exec prog ext_get g outer_loop (env12 iv cv pkv lim lo acc (os_val p) loc nn e2 sg ++ tl) =
      RNorm (env12 iv cv pkv lim lo l nx' loc' nn' e2' sg' ++ tl')
  end.
Proof.
  intros Hlim Hpos Hlimsmall.
  induction F as [|F IH]; intros p acc loc nn e2 sg tl g Htl Hg.
  - (* no model fuel: only the two exits that need no read *)
    cbn [gwalk].
    destruct (ptr_is_zero p) eqn:Hz.
    + destruct g as [|g]; [lia|].
      rewrite outer_loop_eq. rewrite exec_for_S. go_cbn. unfold outer_body. cbn [outer_loop].
      destruct Htl as [->|(t2 & t3 & ->)]; unfold env12, os_val; cbn [app]; go_run;
        (match goal with |- context [ext_get ?f ?a] =>
           change (ext_get f a) with (Some (VBool ((Z.of_N (fst p) =? 0) && (Z.of_N (snd p) =? 0)))) end);
        rewrite is_zero_Z, Hz; go_run; repeat eexists; unfold env12, os_val; cbn [app]; reflexivity.
    + destruct (Nat.leb_spec limit (List.length acc)) as [Hfull|Hroom]; [|exact I].
      destruct g as [|g]; [lia|].
      rewrite outer_loop_eq. rewrite exec_for_S. go_cbn. unfold outer_body. cbn [outer_loop].
      destruct Htl as [->|(t2 & t3 & ->)]; unfold env12, os_val, lv; cbn [app]; go_run;
        (match goal with |- context [ext_get ?f ?a] =>
           change (ext_get f a) with (Some (VBool ((Z.of_N (fst p) =? 0) && (Z.of_N (snd p) =? 0)))) end);
        rewrite is_zero_Z, Hz; go_run;
        (destruct (Z.ltb_spec 0 lim) as [_|Hc]; [|lia]); go_cbn; rewrite map_length;
        (destruct (Z.leb_spec lim (Z.of_nat (List.length acc))) as [_|Hc]; [|lia]); go_run;
        repeat eexists; unfold env12, os_val, lv; cbn [app]; reflexivity.
  - cbn [gwalk].
    destruct (ptr_is_zero p) eqn:Hz.
    { destruct g as [|g]; [lia|].
      rewrite outer_loop_eq. rewrite exec_for_S. go_cbn. unfold outer_body. cbn [outer_loop].
      destruct Htl as [->|(t2 & t3 & ->)]; unfold env12, os_val; cbn [app]; go_run;
        (match goal with |- context [ext_get ?f ?a] =>
           change (ext_get f a) with (Some (VBool ((Z.of_N (fst p) =? 0) && (Z.of_N (snd p) =? 0)))) end);
        rewrite is_zero_Z, Hz; go_run; repeat eexists; unfold env12, os_val; cbn [app]; reflexivity. }
    destruct (Nat.leb_spec limit (List.length acc)) as [Hfull|Hroom].
    { destruct g as [|g]; [lia|].
      rewrite outer_loop_eq. rewrite exec_for_S. go_cbn. unfold outer_body. cbn [outer_loop].
      destruct Htl as [->|(t2 & t3 & ->)]; unfold env12, os_val, lv; cbn [app]; go_run;
        (match goal with |- context [ext_get ?f ?a] =>
           change (ext_get f a) with (Some (VBool ((Z.of_N (fst p) =? 0) && (Z.of_N (snd p) =? 0)))) end);
        rewrite is_zero_Z, Hz; go_run;
        (destruct (Z.ltb_spec 0 lim) as [_|Hc]; [|lia]); go_cbn; rewrite map_length;
        (destruct (Z.leb_spec lim (Z.of_nat (List.length acc))) as [_|Hc]; [|lia]); go_run;
        repeat eexists; unfold env12, os_val, lv; cbn [app]; reflexivity. }
    destruct g as [|g]; [lia|].
    destruct (read_with_size decompress file (fst p) (snd p)) as [[es prev]|] eqn:Hr.
    + (* a record: append its entries (up to the limit) and go on from its previous pointer *)
      pose proof (rec_small _ _ _ _ Hr) as Hes.
      specialize (IH prev (acc ++ firstn (limit - List.length acc) es)).
      assert (Hstep : exists sg' k',
                exec prog ext_get (S g) outer_body (env12 iv cv pkv lim lo acc (os_val p) loc nn e2 sg ++ tl) =
                RNorm (env12 iv cv pkv lim lo (acc ++ firstn (limit - List.length acc) es) (os_val prev) (lv es) (os_val prev) VNil sg'
                       ++ [("tmp2", VBool false); ("tmp3", VInt k')])).
      { unfold outer_body. cbn [outer_loop].
        destruct (inner_spec iv cv pkv lim lo (os_val prev) (os_val prev) VNil (VBool false) limit Hlim Hpos
                    es [] acc zero_oas (S g) ltac:(lia) ltac:(cbn [app]; lia)) as (sg' & k' & Hin).
        exists sg', k'.
        destruct Htl as [->|(t2 & t3 & ->)]; unfold env12, os_val, lv, iv, idx_val; cbn [app]; go_run;
          (match goal with |- context [ext_get ?f [VStruct ?a]] =>
             change (ext_get f [VStruct a]) with (Some (VBool ((Z.of_N (fst p) =? 0) && (Z.of_N (snd p) =? 0)))) end);
          rewrite is_zero_Z, Hz; go_run;
          (destruct (Z.ltb_spec 0 lim) as [_|Hc]; [|lia]); go_cbn; rewrite map_length;
          (destruct (Z.leb_spec lim (Z.of_nat (List.length acc))) as [Hc|_]; [lia|]); go_run;
          (match goal with |- context [ext_get ?f [?l; VInt ?o; VInt ?z]] =>
             change (ext_get f [l; VInt o; VInt z])
               with (match read_with_size decompress file (Z.to_N o) (Z.to_N z) with
                     | Some (es, prev) => Some (VTuple [VTuple (map oas_val es); os_val prev; VNil])
                     | None => Some (VTuple [VInts []; os_val ptr_zero; VErr "read"]) end) end);
          rewrite !N2Z.id, Hr; go_run;
          fold inner_body; fold inner_loop;
          unfold env12, os_val, lv, iv, idx_val, zero_oas in Hin; cbn [app List.length] in Hin;
          change (Z.of_nat 0) with 0 in Hin; unfold os_val; rewrite Hin; reflexivity. }
      destruct Hstep as (sg' & k' & Hbody).
      specialize (IH (lv es) (os_val prev) VNil sg' [("tmp2", VBool false); ("tmp3", VInt k')] g
                     (or_intror (ex_intro _ _ (ex_intro _ _ eq_refl))) ltac:(lia)).
      rewrite outer_loop_eq. rewrite exec_for_S. go_cbn. rewrite Hbody. rewrite exec_skip. rewrite <- outer_loop_eq.
      exact IH.
    + (* the record cannot be read: the error *)
      rewrite outer_loop_eq. rewrite exec_for_S. go_cbn. unfold outer_body. cbn [outer_loop].
      destruct Htl as [->|(t2 & t3 & ->)]; unfold env12, os_val, lv, iv, idx_val; cbn [app]; go_run;
        (match goal with |- context [ext_get ?f [VStruct ?a]] =>
           change (ext_get f [VStruct a]) with (Some (VBool ((Z.of_N (fst p) =? 0) && (Z.of_N (snd p) =? 0)))) end);
        rewrite is_zero_Z, Hz; go_run;
        (destruct (Z.ltb_spec 0 lim) as [_|Hc]; [|lia]); go_cbn; rewrite map_length;
        (destruct (Z.leb_spec lim (Z.of_nat (List.length acc))) as [Hc|_]; [lia|]); go_run;
        (match goal with |- context [ext_get ?f [?l; VInt ?o; VInt ?z]] =>
           change (ext_get f [l; VInt o; VInt z])
             with (match read_with_size decompress file (Z.to_N o) (Z.to_N z) with
                   | Some (es, prev) => Some (VTuple [VTuple (map oas_val es); os_val prev; VNil])
                   | None => Some (VTuple [VInts []; os_val ptr_zero; VErr "read"]) end) end);
        rewrite !N2Z.id, Hr; go_run; reflexivity.
Qed.

(* Get *)
Theorem Get_spec ov llv cv pkv (limit : nat) F g :
  (0 < limit)%nat -> Z.of_nat limit < 4611686018427387904 -> (F + maxent + 2 <= g)%nat ->
  call prog ext_get g "GsfaReader.Get" [idx_val ov llv; cv; pkv; VInt (Z.of_nat limit)] =
  match head with
  | None => RRet (VTuple [VInts []; VErr "%w notfound"])
  | Some p =>
      match gwalk F p [] limit with
      | Some (Some l) => RRet (VTuple [lv l; VNil])
      | Some None => RRet (VTuple [VInts []; VErr "%w read"])
      | None => call prog ext_get g "GsfaReader.Get" [idx_val ov llv; cv; pkv; VInt (Z.of_nat limit)]
      end
  end.
Proof.
  intros Hpos Hsmall Hg.
  destruct head as [p|] eqn:Hh.
  2:{ unfold call. change (plookup "GsfaReader.Get" prog) with (Some fn_GsfaReader_Get).
      unfold fn_GsfaReader_Get, idx_val. cbn [f_params f_body bind_params]. go_run.
      destruct (Z.leb_spec (Z.of_nat limit) 0) as [Hc|_]; [lia|]. go_run.
      unfold ext_get at 1. rewrite Hh. go_run. unfold ext_get at 1. go_cbn. go_run. reflexivity. }
  pose proof (outer_spec ov llv cv pkv (Z.of_nat limit) (os_val p) limit eq_refl ltac:(lia) Hsmall F p []
                (VTuple []) (VStruct [("Offset", VInt 0); ("Size", VInt 0)]) VNil zero_oas [] g (or_introl eq_refl) Hg) as HL.
  destruct (gwalk F p [] limit) as [[l|]|]; [| |reflexivity].
  - destruct HL as (nx' & loc' & nn' & e2' & sg' & tl' & HL).
    unfold call. change (plookup "GsfaReader.Get" prog) with (Some fn_GsfaReader_Get).
    unfold fn_GsfaReader_Get, idx_val. cbn [f_params f_body bind_params]. go_run.
    destruct (Z.leb_spec (Z.of_nat limit) 0) as [Hc|_]; [lia|]. go_run.
    unfold ext_get at 1. rewrite Hh. go_run.
    change (SFor (EBool true) SSkip _) with outer_loop.
    rewrite app_nil_r in HL. unfold env12, lv, idx_val, zero_oas in HL. cbn [map] in HL.
    rewrite HL. unfold env12. cbn [app]. go_run. reflexivity.
  - unfold call. change (plookup "GsfaReader.Get" prog) with (Some fn_GsfaReader_Get).
    unfold fn_GsfaReader_Get, idx_val. cbn [f_params f_body bind_params]. go_run.
    destruct (Z.leb_spec (Z.of_nat limit) 0) as [Hc|_]; [lia|]. go_run.
    unfold ext_get at 1. rewrite Hh. go_run.
    change (SFor (EBool true) SSkip _) with outer_loop.
    rewrite app_nil_r in HL. unfold env12, lv, idx_val, zero_oas in HL. cbn [map] in HL.
    rewrite HL. reflexivity.
Qed.

(* with a limit the history does not reach: the model's bwalk — every entry of the chain, newest first *)
Corollary Get_is_bwalk ov llv cv pkv (limit : nat) F g p l :
  head = Some p -> bwalk decompress F file p = Some l -> (List.length l < limit)%nat ->
  Z.of_nat limit < 4611686018427387904 -> (F + maxent + 2 <= g)%nat ->
  call prog ext_get g "GsfaReader.Get" [idx_val ov llv; cv; pkv; VInt (Z.of_nat limit)] = RRet (VTuple [lv l; VNil]).
Proof.
  intros Hh Hb Hl Hsmall Hg.
  rewrite (Get_spec ov llv cv pkv limit F g) by (try lia; assumption).
  rewrite Hh. rewrite (gwalk_is_bwalk F p [] limit l Hb) by (cbn [List.length]; lia). reflexivity.
Qed.

End Get.
