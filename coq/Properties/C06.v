(* C06 — Address index returns every indexed transaction of an address, newest first.
   Only statements, `exact`, Print Assumptions and non-vacuity examples live here.

   Model (coq/C06_*.v, on top of the prototypes Gsfa*.v and Codec.v):
     C06_LinkedLog  bytes of a linked-log record, LinkedLog.Put / ReadWithSize, entry codec; zstd is the pair
                    compress/decompress with the explicit premise  decompress (compress x) = Some x
     C06_Machine    GsfaWriter as a small-step machine over any lawful store: accumulators, FIFO channel, parked
                    batches (same key or full => all parked batches are written), write queue, pop rank; Close
     C06_Store      position store (prototype) and byte store (offset/size pointers), refinement between them
     C06_Front      Push as a program (periodic partial flush with the pop rank), histories, schedules
     C06_Gsfa       NewGsfaWriter / Push* / Close / NewGsfaReader.Get end to end
   The model follows the REPAIRED code (fixes/C06-*.diff); the orders of the pinned tree are refuted below. *)
From Coq Require Import List NArith Arith Bool.
Import ListNotations.
Require Import YF.Codec YF.Gsfa YF.GsfaP.
Require Import YF.C06_LinkedLog YF.C06_Machine YF.C06_Store YF.C06_Front YF.C06_Gsfa YF.C06_Refute YF.C06_Real YF.C06_Check.
Require Import YF.Generated.ConstsC06.
Local Close Scope N_scope.
Local Open Scope nat_scope.

(* ------------------------------------------------------------------------------------------------------------
   (i) codec: for EVERY batch, previous pointer, position in the file and record length (in particular total
   lengths 127/128 and 16383..16385), Put followed by ReadWithSize with the (offset,size) Put reported returns
   the entries newest first and the previous pointer. [post] = whatever is appended to the file later. *)
Theorem C06_put_read_roundtrip :
  forall (compress : list N -> list N) (decompress : list N -> option (list N)),
  (forall x, decompress (compress x) = Some x) ->
  forall (file : list N) (prev : ptr) (values : list entry) (post : list N),
  Forall entry_wf values -> ptr_fits prev ->
  (N.of_nat (length (record compress (rev values) prev)) <= max_read)%N ->
  read_with_size decompress (fst (put compress file prev values) ++ post)
                 (fst (snd (put compress file prev values))) (snd (snd (put compress file prev values)))
  = Some (rev values, prev).
Proof. exact put_read_roundtrip. Qed.

(* the rule of the pinned tree (prefix width = width of the uvarint of the TOTAL size) is wrong at length 128 *)
Theorem C06_prefix_width_refuted :
  exists (es : list entry) (prev : ptr), Forall entry_wf es /\ ptr_fits prev /\
    length (record id_compress es prev) = 128 /\
    read_with_size_pinned id_decompress (record id_compress es prev) 0%N 128%N <> Some (es, prev).
Proof. exact prefix_width_refuted. Qed.

(* ------------------------------------------------------------------------------------------------------------
   (ii) refinement "record position" -> "(offset,size)": one flushKVs on the byte store is one flush on the
   position store, and the byte-level Get follows the position-level Get while the 6+3-byte pointers can
   address the log. *)
Theorem C06_flush_refines :
  forall (compress : list N -> list N) (bs : bstore) (s : st entry) (k : nat) (b : list entry),
  Rb compress bs s -> Rb compress (bflush compress bs k b) (aflush entry s k b).
Proof. exact Rb_flush. Qed.

Theorem C06_reader_refines :
  forall (compress : list N -> list N) (decompress : list N -> option (list N)),
  (forall x, decompress (compress x) = Some x) ->
  forall (bs : bstore) (s : st entry) (k : nat) (fuel : nat),
  Rb compress bs s -> fits compress (log entry s) -> length (log entry s) <= fuel ->
  Forall entry_wf (get entry s k) ->
  bget decompress fuel bs k = match heads entry s k with None => None | Some _ => Some (get entry s k) end.
Proof. exact bget_refines. Qed.

(* ------------------------------------------------------------------------------------------------------------
   (iii)+(iv) the writer. Most general form: ANY sequence of steps of the pushing goroutine (per-key pushes,
   periodic flushes of arbitrary keys through the channel or synchronously, purges) and of the background
   goroutine (receive, write), over ANY store obeying the three laws, for ANY batch size and parked capacity.
   The only premise on the sequence: a synchronous flush of a key happens when no batch of that key is on its
   way ([ops_ok]). After Close every key reads back exactly what was pushed for it, newest first. *)
Theorem C06_machine_get_all :
  forall (entry store : Type) (sflush : store -> nat -> list entry -> store) (B P : nat)
         (sget : store -> nat -> list entry) (sinv : store -> Prop),
  (forall st k b, sinv st -> sinv (sflush st k b)) ->
  (forall st k b, sinv st -> sget (sflush st k b) k = rev b ++ sget st k) ->
  (forall st k k' b, sinv st -> k' <> k -> sget (sflush st k b) k' = sget st k') ->
  forall (ops : list (op entry)) (s0 : mstate entry store) (k : nat),
  sinv (m_store entry store s0) ->
  ops_ok entry store sflush B P s0 ops ->
  view entry store sget s0 k = [] ->
  sget (m_store entry store (close entry store sflush P (exec entry store sflush B P ops s0))) k
  = rev (hist entry ops k).
Proof. exact machine_get_all. Qed.

(* C06 at the level of record positions: every parameter vector (batch size, parked capacity, flush thresholds,
   rank size; periodic flush through the channel), every history of Push calls (slot, address list with
   repetitions, entry), every schedule of the background goroutine, every address. *)
Theorem C06_get_all_positions :
  forall (entry : Type) (prm : params) (h : list (push entry)) (sc : sched) (a : nat),
  pVia prm = true ->
  pos_get entry (gsfa_pos entry prm h sc) a = rev (entries_for entry a h).
Proof. exact pos_get_all. Qed.

(* C06 end to end on bytes: write -> Close -> Get on the files, for every address that appeared.
   Premises: zstd round trip; entries are uint64 triples + flag byte; the log of this run can be addressed by
   6-byte offsets and 3-byte sizes ([fits]: Go panics in Uint48tob/Uint24tob beyond that); Get's loop is given
   at least as many iterations as there are records. *)
Theorem C06_get_all :
  forall (compress : list N -> list N) (decompress : list N -> option (list N)),
  (forall x, decompress (compress x) = Some x) ->
  forall (prm : params) (h : list (push entry)) (sc : sched),
  pVia prm = true ->
  Forall (fun p => entry_wf (ps_entry entry p)) h ->
  fits compress (log entry (m_store _ _ (gsfa_pos entry prm h sc))) ->
  forall a, In a (addresses entry h) ->
  forall fuel, length (log entry (m_store _ _ (gsfa_pos entry prm h sc))) <= fuel ->
  byte_get decompress fuel (gsfa_bytes compress prm h sc) a = Some (rev (entries_for entry a h)).
Proof. exact byte_get_all. Qed.

(* the same at the constants generated from gsfa/gsfa-write.go (coq/Generated/ConstsC06.v) *)
Theorem C06_get_all_real_constants :
  forall (compress : list N -> list N) (decompress : list N -> option (list N)),
  (forall x, decompress (compress x) = Some x) ->
  forall (h : list (push entry)) (sc : sched),
  Forall (fun p => entry_wf (ps_entry entry p)) h ->
  fits compress (log entry (m_store _ _ (gsfa_pos entry real_params h sc))) ->
  forall a, In a (addresses entry h) ->
  forall fuel, length (log entry (m_store _ _ (gsfa_pos entry real_params h sc))) <= fuel ->
  byte_get decompress fuel (gsfa_bytes compress real_params h sc) a = Some (rev (entries_for entry a h)).
Proof. exact real_byte_get_all. Qed.

Theorem C06_real_constants_sane :
  (0 < items_per_batch /\ 0 < parked_capacity /\ 0 < chan_capacity /\ 0 < flush_every_slots /\ 0 < rank_list_size /\
   31 * (items_per_batch + 1) + 19 < 2 ^ 24)%N.
Proof. exact real_constants_sane. Qed.

(* The periodic flush as the pinned tree does it (victims written synchronously by Push, guarded by the pop
   rank), with the repaired Close. FORCED HYPOTHESIS [purge_is_noop]: whenever the periodic flush runs,
   popRank.purge() drops no key (true as long as there are at most rank-list-size distinct flush counts).
   Without it the statement is false: C06_sync_flush_refuted. *)
Theorem C06_get_all_sync_flush :
  forall (compress : list N -> list N) (decompress : list N -> option (list N)),
  (forall x, decompress (compress x) = Some x) ->
  forall (prm : params) (h : list (push entry)) (sc : sched),
  pVia prm = false ->
  purge_is_noop entry (astore entry) (aflush entry) prm h sc (pos_init entry) ->
  Forall (fun p => entry_wf (ps_entry entry p)) h ->
  fits compress (log entry (m_store _ _ (gsfa_pos entry prm h sc))) ->
  forall a, In a (addresses entry h) ->
  forall fuel, length (log entry (m_store _ _ (gsfa_pos entry prm h sc))) <= fuel ->
  byte_get decompress fuel (gsfa_bytes compress prm h sc) a = Some (rev (entries_for entry a h)).
Proof. exact byte_get_all_sync. Qed.

(* ------------------------------------------------------------------------------------------------------------
   refutations of the pinned orders (batch size 2 stands for 1000; entries numbered in push order) *)
(* parked batches dropped at exit: 2 pushes -> nothing readable, 3 pushes -> only the last *)
Theorem C06_parked_refuted :
  pos_get nat (gsfa_pos_with nat close_as_pinned (rprm true 100) (rone [1; 2]) []) 7 = [] /\
  pos_get nat (gsfa_pos_with nat close_as_pinned (rprm true 100) (rone [1; 2; 3]) []) 7 = [3].
Proof. exact parked_batch_lost. Qed.
(* accumulators flushed before the background goroutine has drained: wrong and schedule-dependent order *)
Theorem C06_order_refuted :
  pos_get nat (gsfa_pos_with nat close_accum_1st (rprm true 100) (rone [1; 2; 3]) []) 7 = [2; 1; 3] /\
  pos_get nat (gsfa_pos_with nat close_as_pinned (rprm true 100) (rone [1; 2; 3; 4; 5]) []) 7 = [2; 1; 5] /\
  pos_get nat (gsfa_pos_with nat close_as_pinned (rprm true 100) (rone [1; 2; 3; 4; 5]) (r_eager 10)) 7 = [5; 2; 1].
Proof. exact close_order_wrong. Qed.
(* synchronous periodic flush of a key that purge() dropped while a batch of it was on its way *)
Theorem C06_sync_flush_refuted :
  pos_get nat (gsfa_pos nat (rprm false 1) rank_hist []) 2 = [10; 6; 5; 7] /\
  pos_get nat (gsfa_pos nat (rprm false 1) rank_hist (r_eager 30)) 2 = [10; 6; 5; 7].
Proof. exact sync_flush_overtakes_pending_batch. Qed.

(* ------------------------------------------------------------------------------------------------------------
   the checker run on the harness's observations accepts only the expected answers *)
Theorem C06_checker_sound :
  forall (prm : params) (h : list (push entry)) (sc : sched) (obs : list (N * option (list entry))),
  pVia prm = true ->
  pos_agrees entry entry_eqb prm h sc obs = true ->
  forall k l, In (k, l) obs -> l = Some (rev (entries_for entry (N.to_nat k) h)).
Proof. exact pos_agrees_sound. Qed.

(* ------------------------------------------------------------------------------------------------------------
   non-vacuity: a concrete history (two addresses, a push naming an address twice, a periodic flush, full
   batches of size 2, parked capacity 2) meets every premise of C06_get_all with the identity compressor, and
   the byte-level reader returns the entries newest first *)
Definition nv_prm : params := Prm 2 2 2 2%N 1%N 100%N 1 true.
Definition nv_hist : list (push entry) :=
  [Push entry 1%N [1] (10, 1, 1, 0)%N; Push entry 1%N [2; 1; 2] (20, 2, 1, 1)%N; Push entry 1%N [1] (30, 3, 1, 2)%N;
   Push entry 0%N [2] (40, 4, 0, 3)%N; Push entry 3%N [1] (50, 5, 3, 4)%N; Push entry 4%N [3; 1] (60, 6, 4, 5)%N].
Definition nv_sched : sched := [[]; [BRecv]; []; [BRecv; BWrite]; [BWrite]].

Example C06_nonvacuous :
  byte_get id_decompress 20 (gsfa_bytes id_compress nv_prm nv_hist nv_sched) 1
    = Some [(60, 6, 4, 5); (50, 5, 3, 4); (30, 3, 1, 2); (20, 2, 1, 1); (10, 1, 1, 0)]%N /\
  byte_get id_decompress 20 (gsfa_bytes id_compress nv_prm nv_hist nv_sched) 2
    = Some [(40, 4, 0, 3); (20, 2, 1, 1)]%N /\
  length (log entry (m_store _ _ (gsfa_pos entry nv_prm nv_hist nv_sched))) = 6 /\
  (N.of_nat (total id_compress (log entry (m_store _ _ (gsfa_pos entry nv_prm nv_hist nv_sched)))) < 2 ^ 48)%N /\
  forallb (fun r => (N.of_nat (rsize id_compress r) <? 2 ^ 24)%N)
          (log entry (m_store _ _ (gsfa_pos entry nv_prm nv_hist nv_sched))) = true.
Proof. repeat split; vm_compute; reflexivity. Qed.

(* records of total length 128, 16384 and 16385 are read back by the repaired rule (identity compressor) *)
Example C06_boundaries_nonvacuous :
  length (record id_compress witness128 ptr_zero) = 128 /\
  read_with_size id_decompress (record id_compress witness128 ptr_zero) 0%N 128%N = Some (witness128, ptr_zero) /\
  N.of_nat (length (record id_compress witness16384 ptr_zero)) = 16384%N /\
  N.of_nat (length (record id_compress witness16385 ptr_zero)) = 16385%N /\
  read_with_size id_decompress (record id_compress witness16384 ptr_zero) 0%N 16384%N = Some (witness16384, ptr_zero) /\
  read_with_size id_decompress (record id_compress witness16385 ptr_zero) 0%N 16385%N = Some (witness16385, ptr_zero).
Proof.
  split; [exact witness128_length|]. split; [exact witness128_fixed_ok|].
  split; [exact (proj1 witness16k_lengths)|]. split; [exact (proj2 witness16k_lengths)|].
  exact witness16k_fixed_ok.
Qed.

Print Assumptions C06_put_read_roundtrip.
Print Assumptions C06_prefix_width_refuted.
Print Assumptions C06_flush_refines.
Print Assumptions C06_reader_refines.
Print Assumptions C06_machine_get_all.
Print Assumptions C06_get_all_positions.
Print Assumptions C06_get_all.
Print Assumptions C06_get_all_real_constants.
Print Assumptions C06_real_constants_sane.
Print Assumptions C06_get_all_sync_flush.
Print Assumptions C06_parked_refuted.
Print Assumptions C06_order_refuted.
Print Assumptions C06_sync_flush_refuted.
Print Assumptions C06_checker_sound.

(* ================================================================ the entry codec itself, TRANSLATED
   On every check gen/golite.go re-translates (OffsetAndSizeAndSlot).Bytes, (uvarintReader).ReadUvarint / ReadByte and
   (Bitmap).Get / Set (gsfa/linkedlog/offset-size-slot.go, bitmap.go) from /repo's working tree into the GoLite
   fragment (Generated/GoLiteC06.v; semantics GoLite.v; DESIGN.md section 10a).  The theorems state that the
   translated functions ARE the codec functions of the model above (entry_enc, rd_uv), with encoding/binary's
   AppendUvarint / Uvarint as the oracle GoLiteC06_Codec.std_ext = Codec.uvarint / Codec.uvarint_dec. *)
Require YF.GoLite YF.Generated.GoLiteC06 YF.GoLiteC06_Codec.
Import ZArith String.

(* Bytes: three uvarints and the flags byte, for every entry whose flags fit a byte *)
Theorem C06_translated_entry_bytes_is_entry_enc : forall fuel (e : entry), (snd e < 256)%N ->
  GoLite.call GoLiteC06.prog GoLiteC06_Codec.std_ext fuel "OffsetAndSizeAndSlot.Bytes"%string [GoLiteC06_Codec.oas_val e]
  = GoLite.RRet (GoLite.VInts (map Z.of_N (entry_enc e))).
Proof. exact (GoLiteC06_Codec.Bytes_is_entry_enc GoLiteC06.prog GoLiteC06.prog_OffsetAndSizeAndSlot_Bytes). Qed.

(* ReadUvarint at any position of any buffer shorter than 2^62: io.EOF at the end, a parse failure, or the value and
   the advanced reader — exactly rd_uv on the rest of the buffer *)
Theorem C06_translated_read_uvarint_is_rd_uv : forall fuel pos (bs : list N),
  (Z.of_nat (List.length bs) < 4611686018427387904)%Z ->
  GoLite.call GoLiteC06.prog GoLiteC06_Codec.std_ext fuel "uvarintReader.ReadUvarint"%string [GoLiteC06_Codec.rdr_val pos bs] =
  match rd_uv (skipn pos bs) with
  | Some None => GoLite.RRet (GoLite.VTuple [GoLite.VInt 0%Z; GoLite.VErr "io.EOF"%string; GoLiteC06_Codec.rdr_val pos bs])
  | None => GoLite.RRet (GoLite.VTuple [GoLite.VInt 0%Z; GoLite.VErr "errors.New"%string; GoLiteC06_Codec.rdr_val pos bs])
  | Some (Some (v, _)) =>
      match uvarint_dec (skipn pos bs) with
      | Some (_, n) => GoLite.RRet (GoLite.VTuple [GoLite.VInt (Z.of_N v); GoLite.VNil; GoLiteC06_Codec.rdr_val (pos + n) bs])
      | None => GoLite.RStuck
      end
  end.
Proof. exact (GoLiteC06_Codec.ReadUvarint_is_rd_uv GoLiteC06.prog GoLiteC06.prog_uvarintReader_ReadUvarint). Qed.

Theorem C06_translated_read_byte : forall fuel pos (bs : list N),
  (Z.of_nat (List.length bs) < 4611686018427387904)%Z ->
  GoLite.call GoLiteC06.prog GoLiteC06_Codec.std_ext fuel "uvarintReader.ReadByte"%string [GoLiteC06_Codec.rdr_val pos bs] =
  match nth_error bs pos with
  | None => GoLite.RRet (GoLite.VTuple [GoLite.VInt 0%Z; GoLite.VErr "io.EOF"%string; GoLiteC06_Codec.rdr_val pos bs])
  | Some b => GoLite.RRet (GoLite.VTuple [GoLite.VInt (Z.of_N b); GoLite.VNil; GoLiteC06_Codec.rdr_val (S pos) bs])
  end.
Proof. exact (GoLiteC06_Codec.ReadByte_spec GoLiteC06.prog GoLiteC06.prog_uvarintReader_ReadByte). Qed.

(* Bitmap.Get / Set on a byte: bit i for 0 <= i < 8, a panic otherwise (as the Go code says) *)
Theorem C06_translated_bitmap_get : forall ext fuel (b : N) (i : Z), (b < 256)%N ->
  GoLite.call GoLiteC06.prog ext fuel "Bitmap.Get"%string [GoLite.VInt (Z.of_N b); GoLite.VInt i] =
  if ((i <? 0) || (8 <=? i))%Z then GoLite.RPanic else GoLite.RRet (GoLite.VBool (N.testbit b (Z.to_N i))).
Proof. exact (GoLiteC06_Codec.Bitmap_Get_is_testbit GoLiteC06.prog GoLiteC06.prog_Bitmap_Get). Qed.

Theorem C06_translated_bitmap_set : forall ext fuel (b : N) (i : Z) (v : bool), (b < 256)%N ->
  GoLite.call GoLiteC06.prog ext fuel "Bitmap.Set"%string [GoLite.VInt (Z.of_N b); GoLite.VInt i; GoLite.VBool v] =
  if ((i <? 0) || (8 <=? i))%Z then GoLite.RPanic
  else GoLite.RRet (GoLite.VInt (Z.of_N (if v then N.setbit b (Z.to_N i) else N.clearbit b (Z.to_N i)))).
Proof. exact (GoLiteC06_Codec.Bitmap_Set_is_setbit GoLiteC06.prog GoLiteC06.prog_Bitmap_Set). Qed.

(* linked-log.go:encodeUvarint (the length prefix of a record) is Codec.uvarint, with binary.PutUvarint as oracle *)
Theorem C06_translated_encodeUvarint_is_uvarint : forall fuel (n : N),
  GoLite.call GoLiteC06.prog GoLiteC06_Codec.std_ext fuel "encodeUvarint"%string [GoLite.VInt (Z.of_N n)]
  = GoLite.RRet (GoLite.VInts (map Z.of_N (uvarint n))).
Proof. exact (GoLiteC06_Codec.encodeUvarint_is_uvarint GoLiteC06.prog GoLiteC06.prog_encodeUvarint). Qed.

(* offset-size-slot.go:OffsetAndSizeAndSlotSliceFromBytes — the decoder ReadWithSize runs on the decompressed payload of
   every record — with its loop, (OffsetAndSizeAndSlot).FromReader and the two reader methods, IS the model's
   entries_dec, for EVERY byte string: entries until io.EOF (an io.EOF inside an entry also ends the loop silently:
   errors.Is sees through the %w wrapping), a malformed uvarint is the error *)
Require YF.GoLiteC06_Decode.
Theorem C06_translated_record_decoder_is_entries_dec : forall (bs : list N),
  (Z.of_nat (List.length bs) < 4611686018427387904)%Z -> Forall (fun b => (b < 256)%N) bs ->
  forall g f, List.length bs + 3 <= g -> List.length bs < f ->
  GoLite.call GoLiteC06.prog GoLiteC06_Codec.std_ext g "OffsetAndSizeAndSlotSliceFromBytes"%string
    [GoLite.VInts (map Z.of_N bs)] =
  match entries_dec f bs with
  | Some es => GoLite.RRet (GoLite.VTuple [GoLite.VTuple (map GoLiteC06_Codec.oas_val es); GoLite.VNil])
  | None => GoLite.RRet (GoLite.VTuple [GoLite.VInts []; GoLite.VErr "%w %w errors.New"%string])
  end.
Proof.
  exact (GoLiteC06_Decode.SliceFromBytes_is_entries_dec GoLiteC06.prog GoLiteC06.prog_uvarintReader_ReadUvarint
           GoLiteC06.prog_uvarintReader_ReadByte GoLiteC06.prog_OffsetAndSizeAndSlot_FromReader
           GoLiteC06.prog_OffsetAndSizeAndSlotSliceFromBytes GoLiteC06_Codec.std_ext (fun _ => eq_refl)).
Qed.

(* ... and applied to what the writer concatenates for a record (the Bytes of each entry: entries_enc) it returns
   exactly the entries, in order *)
Theorem C06_translated_record_decoder_roundtrip : forall (es : list entry) g,
  Forall entry_wf es -> (Z.of_nat (List.length (entries_enc es)) < 4611686018427387904)%Z ->
  List.length (entries_enc es) + 3 <= g ->
  GoLite.call GoLiteC06.prog GoLiteC06_Codec.std_ext g "OffsetAndSizeAndSlotSliceFromBytes"%string
    [GoLite.VInts (map Z.of_N (entries_enc es))] =
  GoLite.RRet (GoLite.VTuple [GoLite.VTuple (map GoLiteC06_Codec.oas_val es); GoLite.VNil]).
Proof.
  exact (GoLiteC06_Decode.SliceFromBytes_entries_enc GoLiteC06.prog GoLiteC06.prog_uvarintReader_ReadUvarint
           GoLiteC06.prog_uvarintReader_ReadByte GoLiteC06.prog_OffsetAndSizeAndSlot_FromReader
           GoLiteC06.prog_OffsetAndSizeAndSlotSliceFromBytes).
Qed.

(* the translated decoder RUNS: two entries; the same bytes cut between two fields of the second entry give the first entry only
   (the silent io.EOF); a malformed uvarint (ten continuation bytes) is the error *)
Example C06_translated_record_decoder_runs :
  let e1 : entry := (300, 5, 432001, 6)%N in let e2 : entry := (7, 70000, 432000, 1)%N in
  GoLite.call GoLiteC06.prog GoLiteC06_Codec.std_ext 40 "OffsetAndSizeAndSlotSliceFromBytes"%string
    [GoLite.VInts (map Z.of_N (entries_enc [e1; e2]))]
  = GoLite.RRet (GoLite.VTuple [GoLite.VTuple [GoLiteC06_Codec.oas_val e1; GoLiteC06_Codec.oas_val e2]; GoLite.VNil]) /\
  GoLite.call GoLiteC06.prog GoLiteC06_Codec.std_ext 40 "OffsetAndSizeAndSlotSliceFromBytes"%string
    [GoLite.VInts (map Z.of_N (firstn 8 (entries_enc [e1; e2])))]
  = GoLite.RRet (GoLite.VTuple [GoLite.VTuple [GoLiteC06_Codec.oas_val e1]; GoLite.VNil]) /\
  GoLite.call GoLiteC06.prog GoLiteC06_Codec.std_ext 40 "OffsetAndSizeAndSlotSliceFromBytes"%string
    [GoLite.VInts [255; 255; 255; 255; 255; 255; 255; 255; 255; 255; 255]%Z]
  = GoLite.RRet (GoLite.VTuple [GoLite.VInts []; GoLite.VErr "%w %w errors.New"%string]).
Proof. vm_compute. repeat split; reflexivity. Qed.

(* linked-log.go:(LinkedLog).ReadWithSize — the record reader every getSignaturesForAddress walks the chain with, and the
   function whose length-prefix handling was repaired on the pinned tree (see C06_prefix_width_refuted above) — translated
   on every check (Generated/GoLiteLLC06.v) with its callees decompressIndexes and the entry decoder: for EVERY file,
   offset and size it IS the model's read_with_size: the 256 MiB limit, the bounds check against the file, one
   positioned read, the record's OWN uvarint prefix compared with the size, the 9-byte pointer to the previous record,
   decompression, the entries. Oracles: the file (os.File.ReadAt, the file size), encoding/binary.Uvarint,
   tooling.DecompressZstd (any function whose outputs are byte strings of at most maxraw bytes) and
   indexes.OffsetAndSize.FromBytes as ptr_dec (that function itself is translated and proved in Properties/C01.v). *)
Require YF.Generated.GoLiteLLC06 YF.GoLiteC06_ReadWithSize.
Theorem C06_translated_ReadWithSize_is_read_with_size :
  forall (decompress : list N -> option (list N)) (maxraw : nat),
  (forall d raw, decompress d = Some raw -> Forall (fun b => (b < 256)%N) raw /\ List.length raw <= maxraw) ->
  (Z.of_nat maxraw < 4611686018427387904)%Z ->
  forall (file : list N), (Z.of_nat (List.length file) < 4611686018427387904)%Z ->
  forall fuel sv (off size : N), (off < 18446744073709551616)%N -> (size < 18446744073709551616)%N -> maxraw + 5 <= fuel ->
  match read_with_size decompress file off size with
  | Some (es, p) =>
      GoLite.call GoLiteLLC06.prog (GoLiteC06_ReadWithSize.ext_ll decompress file) fuel "LinkedLog.ReadWithSize"%string
        [sv; GoLite.VInt (Z.of_N off); GoLite.VInt (Z.of_N size)]
      = GoLite.RRet (GoLite.VTuple [GoLite.VTuple (map GoLiteC06_Codec.oas_val es); GoLiteC06_ReadWithSize.os_val p; GoLite.VNil])
  | None => exists e,
      GoLite.call GoLiteLLC06.prog (GoLiteC06_ReadWithSize.ext_ll decompress file) fuel "LinkedLog.ReadWithSize"%string
        [sv; GoLite.VInt (Z.of_N off); GoLite.VInt (Z.of_N size)]
      = GoLite.RRet (GoLite.VTuple [GoLite.VInts []; GoLiteC06_ReadWithSize.os_val ptr_zero; GoLite.VErr e])
  end.
Proof. exact GoLiteC06_ReadWithSize.ReadWithSize_is_read_with_size. Qed.

(* the oracle used above for indexes.OffsetAndSize.FromBytes answers exactly as the TRANSLATED FromBytes of the indexes
   package does (Generated/GoLiteC01.v, proved equal to dec_os in Properties/C01.v): no assumption about that function
   is left in the theorem above *)
Require YF.Generated.GoLiteC01 YF.GoLiteC01_Codec YF.C01_IndexAll.
Lemma C06_FromBytes_oracle_is_the_translated_FromBytes :
  forall (decompress : list N -> option (list N)) (file : list N) (o0 s0 : Z) (bs : list N),
  Forall (fun b => (b < 256)%N) bs ->
  GoLite.call GoLiteC01.prog GoLite.no_ext 2 "OffsetAndSize.FromBytes"%string
    [GoLite.VStruct [("Offset"%string, GoLite.VInt o0); ("Size"%string, GoLite.VInt s0)]; GoLite.VInts (map Z.of_N bs)]
  = match GoLiteC06_ReadWithSize.ext_ll decompress file
            "github.com/rpcpool/yellowstone-faithful/indexes.OffsetAndSize.FromBytes"%string
            [GoLite.VStruct [("Offset"%string, GoLite.VInt o0); ("Size"%string, GoLite.VInt s0)]; GoLite.VInts (map Z.of_N bs)] with
    | Some v => GoLite.RRet v
    | None => GoLite.RStuck
    end.
Proof.
  intros decompress file o0 s0 bs Hb.
  pose proof (GoLiteC01_Codec.FromBytes_is_dec_os GoLiteC01.prog GoLiteC01.prog_BtoUint24 GoLiteC01.prog_BtoUint48
             GoLiteC01.prog_cloneAndPad GoLiteC01.prog_OffsetAndSize_FromBytes GoLite.no_ext 2 (GoLite.VInt o0) (GoLite.VInt s0) bs
             (le_n 2) Hb) as HF.
  unfold YF.GoLiteC04_Proofs.zs in HF. rewrite HF. clear HF.
  unfold GoLiteC06_ReadWithSize.ext_ll, C01_IndexAll.dec_os. rewrite map_length.
  destruct (Nat.eqb (List.length bs) 9); [|reflexivity].
  unfold GoLiteC06_ReadWithSize.os_val, ptr_dec. cbn [fst snd].
  change (GoLiteC06_Codec.ns (map Z.of_N bs)) with (GoLiteC06_Codec.ns (GoLiteC06_Codec.zs bs)).
  rewrite GoLiteC06_Codec.ns_zs. reflexivity.
Qed.

(* the translated reader RUNS: a file of two records written as the model's put writes them (identity compression); the
   second record is read back with its entry and the pointer to the first; a size one byte off is an error *)
Example C06_translated_ReadWithSize_runs :
  let e1 : entry := (300, 5, 432001, 6)%N in let e2 : entry := (7, 70000, 432000, 1)%N in
  let f1 := put id_compress [] ptr_zero [e1] in
  let f2 := put id_compress (fst f1) (snd f1) [e2] in
  let '(off, size) := snd f2 in
  GoLite.call GoLiteLLC06.prog (GoLiteC06_ReadWithSize.ext_ll id_decompress (fst f2)) 40 "LinkedLog.ReadWithSize"%string
    [GoLite.VNil; GoLite.VInt (Z.of_N off); GoLite.VInt (Z.of_N size)]
  = GoLite.RRet (GoLite.VTuple [GoLite.VTuple [GoLiteC06_Codec.oas_val e2]; GoLiteC06_ReadWithSize.os_val (snd f1); GoLite.VNil]) /\
  GoLite.call GoLiteLLC06.prog (GoLiteC06_ReadWithSize.ext_ll id_decompress (fst f2)) 40 "LinkedLog.ReadWithSize"%string
    [GoLite.VNil; GoLite.VInt (Z.of_N off); GoLite.VInt (Z.of_N size - 1)]
  = GoLite.RRet (GoLite.VTuple [GoLite.VInts []; GoLiteC06_ReadWithSize.os_val ptr_zero; GoLite.VErr "fmt.Errorf"%string]).
Proof. vm_compute. split; reflexivity. Qed.

(* gsfa-read.go:(GsfaReader).Get — the walk along an address's chain: the head from the pubkey index, then the record at
   each previous pointer until the zero pointer or the limit — translated on every check (Generated/GoLiteGetC06.v), the
   record reader being an oracle that answers as the model's read_with_size (which the translated ReadWithSize above is
   proved equal to): for every linked-log file and head pointer, with a limit the history does not reach, Get returns
   exactly what the model's bwalk returns (C06_Store.v: the function C06_reader_refines and C06_get_all are about) —
   every entry of the chain, newest first; with a smaller limit, the walk cut at the limit (GoLiteC06_Get.Get_spec) *)
Require YF.Generated.GoLiteGetC06 YF.GoLiteC06_Get YF.C06_Store.
Theorem C06_translated_Get_is_the_models_walk :
  forall (decompress : list N -> option (list N)) (file : list N) (head : option ptr) (maxent : nat),
  (forall o sz es prev, read_with_size decompress file o sz = Some (es, prev) -> List.length es <= maxent) ->
  (Z.of_nat maxent < 4611686018427387904)%Z ->
  forall ov llv cv pkv (limit F g : nat) (p : ptr) (l : list entry),
  head = Some p -> C06_Store.bwalk decompress F file p = Some l -> List.length l < limit ->
  (Z.of_nat limit < 4611686018427387904)%Z -> F + maxent + 2 <= g ->
  GoLite.call GoLiteGetC06.prog (GoLiteC06_Get.ext_get decompress file head) g "GsfaReader.Get"%string
    [GoLiteC06_Get.idx_val ov llv; cv; pkv; GoLite.VInt (Z.of_nat limit)]
  = GoLite.RRet (GoLite.VTuple [GoLite.VTuple (map GoLiteC06_Codec.oas_val l); GoLite.VNil]).
Proof.
  exact (fun decompress file head maxent H H2 => GoLiteC06_Get.Get_is_bwalk decompress file head maxent H H2).
Qed.

(* the translated Get RUNS on the two-record file of the example above: both entries newest first; limit 1: the newest *)
Example C06_translated_Get_runs :
  let e1 : entry := (300, 5, 432001, 6)%N in let e2 : entry := (7, 70000, 432000, 1)%N in
  let f1 := put id_compress [] ptr_zero [e1] in
  let f2 := put id_compress (fst f1) (snd f1) [e2] in
  let run := fun (limit : Z) =>
    GoLite.call GoLiteGetC06.prog (GoLiteC06_Get.ext_get id_decompress (fst f2) (Some (snd f2))) 20 "GsfaReader.Get"%string
      [GoLiteC06_Get.idx_val GoLite.VNil GoLite.VNil; GoLite.VNil; GoLite.VNil; GoLite.VInt limit] in
  run 10%Z = GoLite.RRet (GoLite.VTuple [GoLite.VTuple [GoLiteC06_Codec.oas_val e2; GoLiteC06_Codec.oas_val e1]; GoLite.VNil]) /\
  run 1%Z = GoLite.RRet (GoLite.VTuple [GoLite.VTuple [GoLiteC06_Codec.oas_val e2]; GoLite.VNil]) /\
  run 0%Z = GoLite.RRet (GoLite.VTuple [GoLite.VTuple []; GoLite.VNil]).
Proof. vm_compute. repeat split; reflexivity. Qed.

(* non-vacuity: the translated codec RUNS in the kernel: an entry is encoded, then read back field by field *)
Example C06_translated_codec_runs :
  let e : entry := (300, 5, 432001, 6)%N in
  match GoLite.call GoLiteC06.prog GoLiteC06_Codec.std_ext 5 "OffsetAndSizeAndSlot.Bytes"%string [GoLiteC06_Codec.oas_val e] with
  | GoLite.RRet (GoLite.VInts bytes) =>
      bytes = [172; 2; 5; 129; 175; 26; 6]%Z /\
      GoLite.call GoLiteC06.prog GoLiteC06_Codec.std_ext 5 "OffsetAndSizeAndSlot.FromReader"%string
        [GoLite.VStruct [("Offset"%string, GoLite.VInt 0%Z); ("Size"%string, GoLite.VInt 0%Z); ("Slot"%string, GoLite.VInt 0%Z); ("Flags"%string, GoLite.VInt 0%Z)];
         GoLite.VStruct [("pos"%string, GoLite.VInt 0%Z); ("buf"%string, GoLite.VInts bytes)]]
      = GoLite.RRet (GoLite.VTuple [GoLite.VNil; GoLiteC06_Codec.oas_val e;
                                    GoLite.VStruct [("pos"%string, GoLite.VInt 7%Z); ("buf"%string, GoLite.VInts bytes)]])
  | _ => False
  end.
Proof. vm_compute. split; reflexivity. Qed.

Print Assumptions C06_translated_entry_bytes_is_entry_enc.
Print Assumptions C06_translated_read_uvarint_is_rd_uv.
Print Assumptions C06_translated_read_byte.
Print Assumptions C06_translated_bitmap_get.
Print Assumptions C06_translated_bitmap_set.
Print Assumptions C06_translated_encodeUvarint_is_uvarint.
Print Assumptions C06_translated_record_decoder_is_entries_dec.
Print Assumptions C06_translated_record_decoder_roundtrip.
Print Assumptions C06_translated_ReadWithSize_is_read_with_size.
Print Assumptions C06_translated_Get_is_the_models_walk.
