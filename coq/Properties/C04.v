(* C04 — Compact hash index: every inserted key is found with its value, in every format.
   Only statements, `exact`, non-vacuity examples and Print Assumptions live here.

   Model (coq/C04_Model.v, C04_Formats.v on top of CI.v): byte-level files, the Go builders
   (NewBuilderSized/NewBuilder -> Insert* -> Seal) as [build_sized], [build_legacy36], [build_legacy8] with
   outcome  BOk file | BErr e | BPanic,  and the Go readers (Open -> Lookup) as [lookup_sized], [lookup_legacy36],
   [lookup_legacy8].  The variant [repaired] has the two range checks of fixes/C04-value-size.diff and
   fixes/C04-key-length.diff; [pinned] is the tree as pinned (no such checks).

   Every theorem is for EVERY entry-hash function [hash], EVERY bucket function [bucket_of] that stays below the
   bucket count (so in particular for xxhash64/EntryHash64/BucketHash, C04_Hash.v), every declared item count,
   value size, metadata, key/value list and insertion order.

   Forced hypotheses (limits of the file format itself, not of the proof):
     length file < 2^48 (bucket offsets are 48-bit), fewer than 2^32 pairs (NumEntries is uint32),
     fewer than 2^32 buckets (NumBuckets is uint32), metadata within the indexmeta limits (255 pairs, 255-byte
     keys/values: Meta.Add enforces them, MarshalBinary refuses more). *)
From Coq Require Import List Arith NArith Permutation.
Import ListNotations.
Require Import YF.CI YF.C04_Core YF.C04_Model YF.C04_Formats YF.C04_Hash YF.C04_Refute YF.C04_Check.
Require Import YF.Generated.ConstsC04.

Section AnyHash.
Variable hash : N -> list N -> N.            (* EntryHash64(domain, key) *)
Variable bucket_of : nat -> list N -> nat.   (* Header.BucketHash(key) for NumBuckets = first argument *)
Hypothesis bucket_of_lt : forall nb k, 0 < nb -> bucket_of nb k < nb.

(* ---------------------------------------------------------------- compactindexsized *)

(* (1) FOUND: every inserted key returns exactly the value inserted with it, for every supported input:
       declared count >= 1, value size 1..252, keys of at most 65535 bytes, values of the declared size. *)
Theorem C04_found : forall (items vs : nat) (m : meta) (kvs : list (list N * list N)) (file k v : list N),
  (1 <= items /\ 1 <= vs /\ 3 + vs < 256 /\
   Forall (fun x => (N.of_nat (length (fst x)) <= 65535)%N) kvs /\ Forall (fun x => length (snd x) = vs) kvs) ->
  (length m <= 255 /\ Forall (fun x => length (fst x) <= 255 /\ length (snd x) <= 255) m) ->
  (N.of_nat (num_buckets items) < 2 ^ 32)%N ->
  build_sized hash bucket_of repaired items vs m kvs = BOk file ->
  (N.of_nat (length file) < 256 ^ 6)%N -> (N.of_nat (length kvs) < 256 ^ 4)%N ->
  In (k, v) kvs ->
  lookup_sized hash bucket_of file k = Found v.
Proof. exact (sized_found hash bucket_of bucket_of_lt). Qed.

(* (2) HEADER: Open of a sealed file returns the value size, bucket count (ceil(items/10000)) and metadata
       the builder was given, and the header length. *)
Theorem C04_open_returns_header : forall (items vs : nat) (m : meta) (kvs : list (list N * list N)) (file : list N),
  (length m <= 255 /\ Forall (fun x => length (fst x) <= 255 /\ length (snd x) <= 255) m) ->
  (N.of_nat (num_buckets items) < 2 ^ 32)%N ->
  build_sized hash bucket_of repaired items vs m kvs = BOk file ->
  open_sized file = Some (vs, num_buckets items, m, length (hdr_sized vs (num_buckets items) m)).
Proof. exact (sized_open hash bucket_of bucket_of_lt). Qed.

(* (3) ORDER INDEPENDENCE and DETERMINISM: any permutation of the inserts gives the byte-identical outcome
       (the same file, or the same error) — for ALL inputs, supported or not. *)
Theorem C04_order_independent : forall (items vs : nat) (m : meta) (kvs kvs' : list (list N * list N)),
  Permutation kvs kvs' ->
  build_sized hash bucket_of repaired items vs m kvs = build_sized hash bucket_of repaired items vs m kvs'.
Proof. exact (sized_order_independent hash bucket_of bucket_of_lt). Qed.

(* (4) ERRORS INSTEAD OF CORRUPTION *)
(* a key inserted twice (anywhere in the order, with any values) makes the build fail with an error *)
Theorem C04_fail_duplicate : forall (items vs : nat) (m : meta) (kvs : list (list N * list N)),
  ~ NoDup (map fst kvs) -> exists e, build_sized hash bucket_of repaired items vs m kvs = BErr e.
Proof. exact (sized_fail_duplicate hash bucket_of bucket_of_lt). Qed.

(* a bucket whose keys collide (24-bit hash) under every one of the mining domains makes the build fail *)
Theorem C04_fail_overfull : forall (items vs : nat) (m : meta) (kvs : list (list N * list N)) (b : nat),
  b < num_buckets items ->
  (forall d, d < N.to_nat sized_mineAttempts ->
     ~ NoDup (map (fun x => h24 hash (N.of_nat d) (fst x)) (bucket_kvs bucket_of (num_buckets items) b kvs))) ->
  exists e, build_sized hash bucket_of repaired items vs m kvs = BErr e.
Proof. exact (sized_fail_overfull hash bucket_of bucket_of_lt). Qed.

(* unsupported declared count (0), value size (0 or more than 252) or key length (more than 65535 bytes):
   the REPAIRED builder returns an error *)
Theorem C04_reject_unsupported : forall (items vs : nat) (m : meta) (kvs : list (list N * list N)),
  Forall (fun x => length (snd x) = vs) kvs ->
  ~ (1 <= items /\ 1 <= vs /\ 3 + vs < 256 /\
     Forall (fun x => (N.of_nat (length (fst x)) <= 65535)%N) kvs /\ Forall (fun x => length (snd x) = vs) kvs) ->
  exists e, build_sized hash bucket_of repaired items vs m kvs = BErr e.
Proof. exact (sized_reject_unsupported hash bucket_of). Qed.

(* the repaired builder never panics, and produces a file only for supported input with distinct keys *)
Theorem C04_never_panics : forall (items vs : nat) (m : meta) (kvs : list (list N * list N)),
  build_sized hash bucket_of repaired items vs m kvs <> BPanic.
Proof. exact (sized_never_panics hash bucket_of bucket_of_lt). Qed.

Theorem C04_file_only_if_supported : forall (items vs : nat) (m : meta) (kvs : list (list N * list N)) (file : list N),
  Forall (fun x => length (snd x) = vs) kvs ->
  build_sized hash bucket_of repaired items vs m kvs = BOk file ->
  (1 <= items /\ 1 <= vs /\ 3 + vs < 256 /\
   Forall (fun x => (N.of_nat (length (fst x)) <= 65535)%N) kvs /\ Forall (fun x => length (snd x) = vs) kvs)
  /\ NoDup (map fst kvs).
Proof. exact (sized_ok_only_if_supported hash bucket_of bucket_of_lt). Qed.

(* (5) FALSE POSITIVES, exactly: whatever value a lookup of ANY key k' returns belongs to an inserted key that
       shares k's bucket and its 24-bit hash under a mining domain (needed by C03); a key sharing these with no
       inserted key is reported "not found"; no lookup on a sealed file ends in a read error. *)
Theorem C04_false_positive_char : forall (items vs : nat) (m : meta) (kvs : list (list N * list N)) (file k' w : list N),
  (length m <= 255 /\ Forall (fun x => length (fst x) <= 255 /\ length (snd x) <= 255) m) ->
  (N.of_nat (num_buckets items) < 2 ^ 32)%N ->
  build_sized hash bucket_of repaired items vs m kvs = BOk file ->
  (N.of_nat (length file) < 256 ^ 6)%N -> (N.of_nat (length kvs) < 256 ^ 4)%N ->
  lookup_sized hash bucket_of file k' = Found w ->
  exists k v d, In (k, v) kvs /\ w = fit vs v /\
    bucket_of (num_buckets items) k = bucket_of (num_buckets items) k' /\
    d < N.to_nat sized_mineAttempts /\ h24 hash (N.of_nat d) k = h24 hash (N.of_nat d) k'.
Proof. exact (sized_false_positive_char hash bucket_of bucket_of_lt). Qed.

Theorem C04_absent_not_found : forall (items vs : nat) (m : meta) (kvs : list (list N * list N)) (file k : list N),
  (length m <= 255 /\ Forall (fun x => length (fst x) <= 255 /\ length (snd x) <= 255) m) ->
  (N.of_nat (num_buckets items) < 2 ^ 32)%N ->
  build_sized hash bucket_of repaired items vs m kvs = BOk file ->
  (N.of_nat (length file) < 256 ^ 6)%N -> (N.of_nat (length kvs) < 256 ^ 4)%N ->
  (forall d k0 v0, d < N.to_nat sized_mineAttempts -> In (k0, v0) kvs ->
     bucket_of (num_buckets items) k0 = bucket_of (num_buckets items) k ->
     ~ ~ NoDup (map (fun x => h24 hash (N.of_nat d) (fst x))
                    (bucket_kvs bucket_of (num_buckets items) (bucket_of (num_buckets items) k) kvs)) ->
     h24 hash (N.of_nat d) k0 <> h24 hash (N.of_nat d) k) ->
  lookup_sized hash bucket_of file k = NotFound.
Proof. exact (sized_absent hash bucket_of bucket_of_lt). Qed.

Theorem C04_no_read_error : forall (items vs : nat) (m : meta) (kvs : list (list N * list N)) (file k : list N),
  (length m <= 255 /\ Forall (fun x => length (fst x) <= 255 /\ length (snd x) <= 255) m) ->
  (N.of_nat (num_buckets items) < 2 ^ 32)%N ->
  build_sized hash bucket_of repaired items vs m kvs = BOk file ->
  (N.of_nat (length file) < 256 ^ 6)%N -> (N.of_nat (length kvs) < 256 ^ 4)%N ->
  lookup_sized hash bucket_of file k <> ReadErr.
Proof. exact (sized_no_read_error hash bucket_of bucket_of_lt). Qed.

(* ---------------------------------------------------------------- deprecated/compactindex36 (36-byte values) *)
Theorem C04_legacy36_found : forall (items : nat) (fs : N) (kvs : list (list N * list N)) (file k v : list N),
  0 < items -> (fs < 2 ^ 64)%N -> (N.of_nat (num_buckets items) < 2 ^ 32)%N ->
  Forall (fun x => length (snd x) = 36) kvs ->
  build_legacy36 hash bucket_of repaired items fs kvs = BOk file ->
  (N.of_nat (length file) < 256 ^ 6)%N -> (N.of_nat (length kvs) < 256 ^ 4)%N ->
  In (k, v) kvs -> lookup_legacy36 hash bucket_of file k = Found v.
Proof. exact (legacy36_found hash bucket_of bucket_of_lt). Qed.

Theorem C04_legacy36_order_independent : forall (items : nat) (fs : N) (kvs kvs' : list (list N * list N)),
  Permutation kvs kvs' ->
  build_legacy36 hash bucket_of repaired items fs kvs = build_legacy36 hash bucket_of repaired items fs kvs'.
Proof. exact (legacy36_order_independent hash bucket_of bucket_of_lt). Qed.

Theorem C04_legacy36_fail_duplicate : forall (items : nat) (fs : N) (kvs : list (list N * list N)),
  0 < items -> ~ NoDup (map fst kvs) -> exists e, build_legacy36 hash bucket_of repaired items fs kvs = BErr e.
Proof. exact (legacy36_fail_duplicate hash bucket_of bucket_of_lt). Qed.

Theorem C04_legacy36_reject_long_key : forall (items : nat) (fs : N) (kvs : list (list N * list N)),
  0 < items -> ~ Forall (fun x => (N.of_nat (length (fst x)) <= 65535)%N) kvs ->
  build_legacy36 hash bucket_of repaired items fs kvs = BErr EKeyLen.
Proof. exact (legacy36_reject_long_key hash bucket_of bucket_of_lt). Qed.

(* ---------------------------------------------------------------- deprecated/compactindex (uint64 values cut to
   intWidth(FileSize) bytes): found for every value that fits that width — in particular every value <= FileSize *)
Theorem C04_legacy8_found : forall (items : nat) (fs : N) (kvs : list (list N * N)) (file k : list N) (v : N),
  0 < items -> (fs < 2 ^ 64)%N -> (N.of_nat (num_buckets items) < 2 ^ 32)%N ->
  Forall (fun x => (snd x < 256 ^ N.of_nat (int_width (legacy_fs fs)))%N) kvs ->
  build_legacy8 hash bucket_of repaired items fs kvs = BOk file ->
  (N.of_nat (length file) < 256 ^ 6)%N -> (N.of_nat (length kvs) < 256 ^ 4)%N ->
  In (k, v) kvs -> lookup_legacy8 hash bucket_of file k = Found8 v.
Proof. exact (legacy8_found hash bucket_of bucket_of_lt). Qed.

Theorem C04_legacy8_value_within_filesize_fits : forall fs v : N,
  fs <> 0%N -> (v <= fs)%N -> (v < 256 ^ N.of_nat (int_width (legacy_fs fs)))%N.
Proof. exact legacy8_value_le_filesize_fits. Qed.

Theorem C04_legacy8_order_independent : forall (items : nat) (fs : N) (kvs kvs' : list (list N * N)),
  (fs < 2 ^ 64)%N -> Permutation kvs kvs' ->
  build_legacy8 hash bucket_of repaired items fs kvs = build_legacy8 hash bucket_of repaired items fs kvs'.
Proof. exact (legacy8_order_independent hash bucket_of bucket_of_lt). Qed.

Theorem C04_legacy8_fail_duplicate : forall (items : nat) (fs : N) (kvs : list (list N * N)),
  0 < items -> (fs < 2 ^ 64)%N -> ~ NoDup (map fst kvs) ->
  exists e, build_legacy8 hash bucket_of repaired items fs kvs = BErr e.
Proof. exact (legacy8_fail_duplicate hash bucket_of bucket_of_lt). Qed.

(* ---------------------------------------------------------------- the pinned builder, any hash *)
(* without the key-length check, ONE key of exactly 65536 bytes (recorded as uint16 length 0) yields exactly the
   file that inserting the EMPTY key would yield *)
Theorem C04_pinned_long_key_recorded_as_empty : forall (items vs : nat) (m : meta) (K v : list N),
  cfg_err repaired items vs = None -> num_buckets items = 1 -> N.of_nat (length K) = 65536%N ->
  build_sized hash bucket_of pinned items vs m [(K, v)] = build_sized hash bucket_of repaired items vs m [([], v)].
Proof. exact (sized_pinned_long_key_as_empty hash bucket_of bucket_of_lt). Qed.

End AnyHash.

(* ---------------------------------------------------------------- header / metadata codecs *)
Theorem C04_header_roundtrip : forall (vs nb : nat) (m : meta) (rest : list N),
  0 < vs -> (N.of_nat vs < 2 ^ 64)%N -> 0 < nb -> (N.of_nat nb < 2 ^ 32)%N ->
  (length m <= 255 /\ Forall (fun x => length (fst x) <= 255 /\ length (snd x) <= 255) m) ->
  open_sized (hdr_sized vs nb m ++ rest) = Some (vs, nb, m, length (hdr_sized vs nb m)).
Proof. exact open_sized_hdr. Qed.

Theorem C04_legacy_header_roundtrip : forall (fs : N) (nb : nat) (rest : list N),
  (fs < 2 ^ 64)%N -> (N.of_nat nb < 2 ^ 32)%N -> open_legacy (hdr_legacy fs nb ++ rest) = Some (fs, nb).
Proof. exact open_legacy_hdr. Qed.

Theorem C04_metadata_roundtrip : forall m : meta,
  (length m <= 255 /\ Forall (fun x => length (fst x) <= 255 /\ length (snd x) <= 255) m) ->
  parse_meta (meta_bytes m) = Some m.
Proof. exact parse_meta_roundtrip. Qed.

(* ---------------------------------------------------------------- the property is FALSE of the pinned builder *)
(* value size 253 is accepted, the uint8 entry stride 3+253 wraps to 0 and Seal panics; repaired: error *)
Theorem C04_pinned_value_size_refuted : exists (vs : nat) (kvs : list (list N * list N)),
  1 <= vs <= 255 /\ Forall (fun x => length (snd x) = vs) kvs /\ stride8 vs < 3 /\
  build_sized entry_hash bucket_of_go pinned 1 vs [] kvs = BPanic /\
  build_sized entry_hash bucket_of_go repaired 1 vs [] kvs = BErr EValueSize.
Proof.
  exists w_vs, w_kvs_a. split; [unfold w_vs; split; repeat constructor|]. split; [repeat constructor|].
  split; [vm_compute; repeat constructor|]. split; [exact pinned_value_size_panics|exact repaired_value_size_error].
Qed.

(* a 65536-byte key: Insert and Seal succeed, the key is then "not found" and the empty key is "found" with its
   value; repaired: error *)
Theorem C04_pinned_long_key_refuted : exists (K v file : list N),
  build_sized entry_hash bucket_of_go pinned 1 8 [] [(K, v)] = BOk file /\
  lookup_sized entry_hash bucket_of_go file K = NotFound /\
  lookup_sized entry_hash bucket_of_go file [] = Found v /\
  build_sized entry_hash bucket_of_go repaired 1 8 [] [(K, v)] = BErr EKeyLen.
Proof.
  exists w_long, [40; 0; 0; 0; 0; 0; 0; 0]%N, w_file.
  split; [exact pinned_long_key_file|]. split; [exact (proj1 pinned_long_key_lost)|].
  split; [exact (proj2 pinned_long_key_lost)|exact repaired_long_key_error].
Qed.

(* ---------------------------------------------------------------- the correspondence checker is the model *)
Theorem C04_check_runs_the_model : forall (items vs : nat) (m : meta) (kvs : list (list N * list N)),
  build_sized_fast entry_hash bucket_of_go items vs m kvs = build_sized entry_hash bucket_of_go repaired items vs m kvs.
Proof. exact (build_sized_fast_eq entry_hash bucket_of_go bucket_of_go_lt). Qed.

Theorem C04_real_bucket_function_in_range : forall nb k, 0 < nb -> bucket_of_go nb k < nb.
Proof. exact bucket_of_go_lt. Qed.

(* ---------------------------------------------------------------- non-vacuity *)
(* 3 buckets (declared 20001), 2-byte values, metadata, keys of length 0..3: the build succeeds, the header reads
   back, every key is found, another key is absent; a duplicate and an unsupported value size give errors *)
Example C04_nonvacuous :
  let kvs := [([1; 2; 3]%N, [10; 11]%N); ([], [12; 13]%N); ([255; 0]%N, [14; 15]%N)] in
  let m := [([107; 105; 110; 100]%N, [120; 121]%N)] in
  match build_sized entry_hash bucket_of_go repaired 20001 2 m kvs with
  | BOk f => open_sized f = Some (2, 3, m, length (hdr_sized 2 3 m)) /\
             map (fun x => lookup_sized entry_hash bucket_of_go f (fst x)) kvs = map (fun x => Found (snd x)) kvs /\
             lookup_sized entry_hash bucket_of_go f [9%N] = NotFound /\
             build_sized entry_hash bucket_of_go repaired 20001 2 m (rev kvs) = BOk f
  | _ => False
  end.
Proof. vm_compute. repeat split; reflexivity. Qed.

Example C04_nonvacuous_legacy :
  match build_legacy8 entry_hash bucket_of_go repaired 3 1000 [([1]%N, 999%N); ([2; 2]%N, 0%N)],
        build_legacy36 entry_hash bucket_of_go repaired 3 0 [([1]%N, repeat 5%N 36)] with
  | BOk f8, BOk f36 => lookup_legacy8 entry_hash bucket_of_go f8 [1%N] = Found8 999%N /\
                       lookup_legacy8 entry_hash bucket_of_go f8 [2; 2]%N = Found8 0%N /\
                       lookup_legacy36 entry_hash bucket_of_go f36 [1%N] = Found (repeat 5%N 36)
  | _, _ => False
  end.
Proof. vm_compute. repeat split; reflexivity. Qed.

Print Assumptions C04_found.
Print Assumptions C04_open_returns_header.
Print Assumptions C04_order_independent.
Print Assumptions C04_fail_duplicate.
Print Assumptions C04_fail_overfull.
Print Assumptions C04_reject_unsupported.
Print Assumptions C04_never_panics.
Print Assumptions C04_file_only_if_supported.
Print Assumptions C04_false_positive_char.
Print Assumptions C04_absent_not_found.
Print Assumptions C04_no_read_error.
Print Assumptions C04_legacy36_found.
Print Assumptions C04_legacy8_found.
Print Assumptions C04_pinned_long_key_recorded_as_empty.
Print Assumptions C04_pinned_value_size_refuted.
Print Assumptions C04_pinned_long_key_refuted.
Print Assumptions C04_check_runs_the_model.

(* ================================================================ the Go functions themselves, TRANSLATED
   On every check gen/golite.go re-translates searchEytzinger, hashUint64, Header.BucketHash, BucketHeader.Hash,
   uintLe, putUintLe (compactindex.go / query.go) and eytzinger (build.go) from /repo's working tree into the GoLite
   fragment (Generated/GoLiteC04.v; semantics: GoLite.v — fixed-width wrap-around, panics on bad indexes, fuel for
   loops and calls).  The theorems below state that each translated function IS the corresponding function of the
   hand-written model the theorems above are about; they are re-proved against what the source says now. *)
Require YF.GoLite YF.Generated.GoLiteC04 YF.GoLiteC04_Proofs YF.GoLiteC04_Search YF.GoLiteC04_Codec YF.GoLiteC04_Eytz YF.Eytz.
Import ZArith String.

(* query.go:searchEytzinger (min = 0 as every caller passes it) is CI.search_get for EVERY entry oracle [get]
   (None = the read of that entry failed), every bucket size below 2^62 and every target hash; the loop needs at
   most n+1 rounds. *)
Theorem C04_translated_search_is_the_model : forall (get : nat -> option CI.entry) (f n : nat) (x : N),
  (Z.of_nat n < 4611686018427387904)%Z -> n < f ->
  GoLite.call GoLiteC04.prog (GoLiteC04_Search.ext_get get) f "searchEytzinger"%string
    [GoLite.VInt 0%Z; GoLite.VInt (Z.of_nat n); GoLite.VInt (Z.of_N x)]
  = GoLiteC04_Search.enc (CI.search_get f get n x 0).
Proof. exact (GoLiteC04_Search.searchEytzinger_is_search_get GoLiteC04.prog GoLiteC04.prog_searchEytzinger). Qed.

(* compactindex.go:hashUint64 is C04_Hash.murmur on every 64-bit value *)
Theorem C04_translated_hashUint64_is_murmur : forall ext fuel (x : N), (x < 18446744073709551616)%N ->
  GoLite.call GoLiteC04.prog ext fuel "hashUint64"%string [GoLite.VInt (Z.of_N x)]
  = GoLite.RRet (GoLite.VInt (Z.of_N (murmur x))).
Proof. exact (GoLiteC04_Proofs.hashUint64_is_murmur GoLiteC04.prog GoLiteC04.prog_hashUint64). Qed.

(* compactindex.go:(Header).BucketHash, for every Sum64 oracle with 64-bit results and every bucket count
   1..2^32-1: whenever the call returns, the result is  rounds k (Sum64 key) mod NumBuckets  for the first k whose
   value is not rejected, hence < NumBuckets, and equal to the model's 64-round [reject] whenever k <= 64. *)
Theorem C04_translated_bucket_hash_is_the_model :
  forall (sum64 : list Z -> N), (forall k, (sum64 k < 18446744073709551616)%N) ->
  forall f key (nb : N) mx, (0 < nb)%N -> (nb < 4294967296)%N ->
  let h := GoLite.VStruct [("NumBuckets"%string, GoLite.VInt (Z.of_N nb)); ("X"%string, mx)] in
  let r := ((18446744073709551616 - nb) mod nb)%N in
  forall v, GoLite.call GoLiteC04.prog (GoLiteC04_Proofs.ext_sum sum64) f "Header.BucketHash"%string [h; GoLite.VInts key] = GoLite.RRet v ->
  exists k, (r <= GoLiteC04_Proofs.rounds k (sum64 key))%N /\
            v = GoLite.VInt (Z.of_N (GoLiteC04_Proofs.rounds k (sum64 key) mod nb)) /\
            (k <= 64 -> v = GoLite.VInt (Z.of_N (reject 64 (sum64 key) r mod nb))).
Proof. exact (GoLiteC04_Proofs.BucketHash_is_model_reject GoLiteC04.prog GoLiteC04.prog_hashUint64 GoLiteC04.prog_Header_BucketHash). Qed.

(* compactindex.go:(BucketHeader).Hash, for every EntryHash64 oracle with 64-bit results: hash lengths 1..8 keep
   exactly the low HashLen bytes (HashLen = 3 is CI.h24) *)
Theorem C04_translated_entry_hash_mask :
  forall (eh : Z -> list Z -> N), (forall d k, (eh d k < 18446744073709551616)%N) ->
  forall f d (hl : N) key rest, (0 <= d)%Z -> (1 <= hl <= 8)%N ->
  GoLite.call GoLiteC04.prog (GoLiteC04_Codec.ext_eh eh) f "BucketHeader.Hash"%string
    [GoLite.VStruct (("HashDomain"%string, GoLite.VInt d) :: ("NumEntries"%string, GoLite.VInt 0%Z) ::
                     ("HashLen"%string, GoLite.VInt (Z.of_N hl)) :: rest); GoLite.VInts key]
  = GoLite.RRet (GoLite.VInt (Z.of_N (eh d key mod 256 ^ hl))).
Proof. exact (GoLiteC04_Codec.BucketHeader_Hash_is_mod GoLiteC04.prog GoLiteC04.prog_BucketHeader_Hash). Qed.

(* compactindex.go:uintLe / putUintLe are Codec.le_dec / Codec.le_enc on at most 8 bytes *)
Theorem C04_translated_uintLe_is_le_dec : forall ext fuel (bs : list N), List.length bs <= 8 ->
  GoLite.call GoLiteC04.prog ext fuel "uintLe"%string [GoLite.VInts (map Z.of_N bs)]
  = GoLite.RRet (GoLite.VInt (Z.of_N (Codec.le_dec bs))).
Proof. exact (GoLiteC04_Codec.uintLe_is_le_dec GoLiteC04.prog GoLiteC04.prog_uintLe). Qed.

Theorem C04_translated_putUintLe_is_le_enc : forall ext fuel (buf : list Z) (x : N), List.length buf <= 8 ->
  GoLite.call GoLiteC04.prog ext fuel "putUintLe"%string [GoLite.VInts buf; GoLite.VInt (Z.of_N x)]
  = GoLite.RRet (GoLite.VInts (map Z.of_N (Codec.le_enc (List.length buf) x))).
Proof. exact (GoLiteC04_Codec.putUintLe_is_le_enc GoLiteC04.prog GoLiteC04.prog_putUintLe). Qed.

(* build.go:eytzinger(in, out, 0, 1) is Eytz.go — the layout function of the eytzinger theorems (Eytz*.v, used by
   C04 and C05) — on every input of fewer than 2^61 elements and every output array of the same length: same
   final index, same array, no panic; recursion depth f suffices when len < 2^f. *)
Theorem C04_translated_eytzinger_is_the_model : forall ext f (inp out : list Z),
  List.length out = List.length inp -> (Z.of_nat (List.length inp) < 2305843009213693952)%Z -> List.length inp < 2 ^ f ->
  GoLite.call GoLiteC04.prog ext f "eytzinger"%string [GoLite.VInts inp; GoLite.VInts out; GoLite.VInt 0%Z; GoLite.VInt 1%Z]
  = GoLiteC04_Eytz.ey_ret (Eytz.go Z 0%Z (S f) inp out 0 1).
Proof. exact (GoLiteC04_Eytz.eytzinger_is_go GoLiteC04.prog GoLiteC04.prog_eytzinger). Qed.

(* non-vacuity: the translated layout and search RUN (vm_compute inside the kernel): ten keys laid out by the
   translated eytzinger, then every key found and an absent one not found by the translated searchEytzinger *)
Example C04_translated_functions_run :
  let keys := [10; 20; 30; 40; 50; 60; 70; 80; 90; 100]%Z in
  match GoLite.call GoLiteC04.prog GoLite.no_ext 10 "eytzinger"%string
          [GoLite.VInts keys; GoLite.VInts (repeat 0%Z 10); GoLite.VInt 0%Z; GoLite.VInt 1%Z] with
  | GoLite.RRet (GoLite.VTuple [GoLite.VInt 10%Z; GoLite.VInts arr]) =>
      let get := fun i => match nth_error arr i with Some h => Some (Z.to_N h, [Z.to_N h]) | None => None end in
      forallb (fun k => match GoLite.call GoLiteC04.prog (GoLiteC04_Search.ext_get get) 20 "searchEytzinger"%string
                                [GoLite.VInt 0%Z; GoLite.VInt 10%Z; GoLite.VInt k] with
                        | GoLite.RRet (GoLite.VTuple [GoLite.VInts [v]; GoLite.VNil]) => Z.eqb v k
                        | _ => false end) keys = true /\
      GoLite.call GoLiteC04.prog (GoLiteC04_Search.ext_get get) 20 "searchEytzinger"%string
        [GoLite.VInt 0%Z; GoLite.VInt 10%Z; GoLite.VInt 55%Z]
      = GoLite.RRet (GoLite.VTuple [GoLite.VInts []; GoLite.VErr "ErrNotFound"%string])
  | _ => False
  end.
Proof. vm_compute. split; reflexivity. Qed.

Print Assumptions C04_translated_search_is_the_model.
Print Assumptions C04_translated_hashUint64_is_murmur.
Print Assumptions C04_translated_bucket_hash_is_the_model.
Print Assumptions C04_translated_entry_hash_mask.
Print Assumptions C04_translated_uintLe_is_le_dec.
Print Assumptions C04_translated_putUintLe_is_le_enc.
Print Assumptions C04_translated_eytzinger_is_the_model.

(* ================================================================ the LEGACY packages' Go functions, TRANSLATED
   "The same holds for the two legacy formats the server still reads": gen/golite.go also re-translates, on every
   check, searchEytzinger, hashUint64, Header.BucketHash, BucketHeader.Hash, uintLe (query.go / compactindex.go) and
   eytzinger (build.go) of deprecated/compactindex36 (Generated/GoLiteL36C04.v) and deprecated/compactindex
   (Generated/GoLiteL8C04.v).  Five of the six are today the same GoLite terms as compactindexsized's (checked by
   reflexivity in GoLiteC04_Legacy.v on every run) and inherit its theorems, each run inside its OWN package's
   program; the two searchEytzinger are different functions (no `index < min` exit; the result beside an error is
   Empty = 36 zero bytes, resp. 0; Entry.Value is a [36]byte, resp. a uint64) and are proved equal to CI.search_get
   — the search lookup_legacy36 / lookup_legacy8 run — in GoLiteC04_LegacySearch.v. *)
Require YF.Generated.GoLiteL36C04 YF.Generated.GoLiteL8C04 YF.GoLiteC04_Legacy YF.GoLiteC04_LegacySearch YF.ReadAt.

(* ---------------------------------------------------------------- deprecated/compactindex36 *)
(* how the search's inputs and outputs are written as Go values: the getter hands out Entry{Hash, Value} with Value
   the entry's value bytes copied into a [36]byte (cut / zero-padded: C04_Model.fit 36), or (Entry{}, err) when the
   read fails; the result is (value, nil), (Empty, ErrNotFound) or (Empty, err) *)
Example C04_legacy36_translated_search_encoding : forall (get : nat -> option CI.entry) (i : nat) (e : CI.entry) (v : list N),
  (get i = Some e ->
   GoLiteC04_LegacySearch.ext_get36 get "getter"%string [GoLite.VInt (Z.of_nat i)] =
   Some (GoLite.VTuple [GoLite.VStruct [("Hash"%string, GoLite.VInt (Z.of_N (fst e)));
                                        ("Value"%string, GoLite.VInts (map Z.of_N (C04_Model.fit 36 (snd e))))]; GoLite.VNil])) /\
  (get i = None ->
   GoLiteC04_LegacySearch.ext_get36 get "getter"%string [GoLite.VInt (Z.of_nat i)] =
   Some (GoLite.VTuple [GoLite.VStruct [("Hash"%string, GoLite.VInt 0%Z); ("Value"%string, GoLite.VInts (repeat 0%Z 36))];
                        GoLite.VErr "read"%string])) /\
  GoLiteC04_LegacySearch.enc36 (CI.Found v) = GoLite.RRet (GoLite.VTuple [GoLite.VInts (map Z.of_N (C04_Model.fit 36 v)); GoLite.VNil]) /\
  GoLiteC04_LegacySearch.enc36 CI.NotFound = GoLite.RRet (GoLite.VTuple [GoLite.VInts (repeat 0%Z 36); GoLite.VErr "ErrNotFound"%string]) /\
  GoLiteC04_LegacySearch.enc36 CI.ReadErr = GoLite.RRet (GoLite.VTuple [GoLite.VInts (repeat 0%Z 36); GoLite.VErr "read"%string]) /\
  GoLiteC04_LegacySearch.enc36_bytes (CI.Found v) = GoLite.RRet (GoLite.VTuple [GoLite.VInts (map Z.of_N v); GoLite.VNil]) /\
  GoLiteC04_LegacySearch.enc36_bytes CI.NotFound = GoLiteC04_LegacySearch.enc36 CI.NotFound /\
  GoLiteC04_LegacySearch.enc36_bytes CI.ReadErr = GoLiteC04_LegacySearch.enc36 CI.ReadErr.
Proof.
  intros get i e v. unfold GoLiteC04_LegacySearch.ext_get36. rewrite Nat2Z.id.
  split; [intros ->; reflexivity|]. split; [intros ->; reflexivity|]. repeat split; reflexivity.
Qed.

(* deprecated/compactindex36/query.go:searchEytzinger is CI.search_get for EVERY entry oracle [get] (None = the read
   of that entry failed), every value of the ignored parameter `min`, every bucket size below 2^62 and every target
   hash; the loop needs at most n+1 rounds. *)
Theorem C04_legacy36_translated_search_is_the_model : forall (get : nat -> option CI.entry) (f : nat) (mn : Z) (n : nat) (x : N),
  (Z.of_nat n < 4611686018427387904)%Z -> n < f ->
  GoLite.call GoLiteL36C04.prog (GoLiteC04_LegacySearch.ext_get36 get) f "searchEytzinger"%string
    [GoLite.VInt mn; GoLite.VInt (Z.of_nat n); GoLite.VInt (Z.of_N x)]
  = GoLiteC04_LegacySearch.enc36 (CI.search_get f get n x 0).
Proof. exact (GoLiteC04_LegacySearch.searchEytzinger36_is_search_get GoLiteL36C04.prog GoLiteL36C04.prog_searchEytzinger). Qed.

(* ... and on the bucket the model's reader locates for a key (header at 32 + 16*bucket, domain d, n entries at off)
   the translated search, called as Bucket.Lookup calls it (min 0, max n, target h24 d key, entries read from the
   file), returns exactly what lookup_legacy36 returns after Open (lookup_at 36 32 nb): a hit gives the 36 value
   bytes as they are in the file, a miss / failed read gives Empty with ErrNotFound / the read error. *)
Theorem C04_legacy36_translated_search_is_the_lookup :
  forall (hash : N -> list N -> N) (bucket_of : nat -> list N -> nat) (nb : nat) (file k bh : list N) (d n hl off : nat),
  ReadAt.read_at file (32 + 16 * bucket_of nb k) 16 = Some bh -> CI.parse_bucket_hdr bh = (d, n, hl, off) ->
  (Z.of_nat n < 4611686018427387904)%Z ->
  GoLite.call GoLiteL36C04.prog (GoLiteC04_LegacySearch.ext_get36 (C04_Model.load_entry8 36 file off)) (S n) "searchEytzinger"%string
    [GoLite.VInt 0%Z; GoLite.VInt (Z.of_nat n); GoLite.VInt (Z.of_N (CI.h24 hash (N.of_nat d) k))]
  = GoLiteC04_LegacySearch.enc36_bytes (C04_Model.lookup_at hash bucket_of 36 32 nb file k).
Proof. exact (GoLiteC04_LegacySearch.lookup_at36_is_translated_search GoLiteL36C04.prog GoLiteL36C04.prog_searchEytzinger). Qed.

(* the other five functions of deprecated/compactindex36: same statements as for compactindexsized *)
Theorem C04_legacy36_translated_hashUint64_is_murmur : forall ext fuel (x : N), (x < 18446744073709551616)%N ->
  GoLite.call GoLiteL36C04.prog ext fuel "hashUint64"%string [GoLite.VInt (Z.of_N x)]
  = GoLite.RRet (GoLite.VInt (Z.of_N (murmur x))).
Proof. exact GoLiteC04_Legacy.legacy36_hashUint64_is_murmur. Qed.

Theorem C04_legacy36_translated_bucket_hash_is_the_model :
  forall (sum64 : list Z -> N), (forall k, (sum64 k < 18446744073709551616)%N) ->
  forall f key (nb : N) mx, (0 < nb)%N -> (nb < 4294967296)%N ->
  let h := GoLite.VStruct [("NumBuckets"%string, GoLite.VInt (Z.of_N nb)); ("X"%string, mx)] in
  let r := ((18446744073709551616 - nb) mod nb)%N in
  forall v, GoLite.call GoLiteL36C04.prog (GoLiteC04_Proofs.ext_sum sum64) f "Header.BucketHash"%string [h; GoLite.VInts key] = GoLite.RRet v ->
  exists k, (r <= GoLiteC04_Proofs.rounds k (sum64 key))%N /\
            v = GoLite.VInt (Z.of_N (GoLiteC04_Proofs.rounds k (sum64 key) mod nb)) /\
            (k <= 64 -> v = GoLite.VInt (Z.of_N (reject 64 (sum64 key) r mod nb))).
Proof. exact GoLiteC04_Legacy.legacy36_BucketHash_is_model_reject. Qed.

Theorem C04_legacy36_translated_entry_hash_mask :
  forall (eh : Z -> list Z -> N), (forall d k, (eh d k < 18446744073709551616)%N) ->
  forall f d (hl : N) key rest, (0 <= d)%Z -> (1 <= hl <= 8)%N ->
  GoLite.call GoLiteL36C04.prog (GoLiteC04_Codec.ext_eh eh) f "BucketHeader.Hash"%string
    [GoLite.VStruct (("HashDomain"%string, GoLite.VInt d) :: ("NumEntries"%string, GoLite.VInt 0%Z) ::
                     ("HashLen"%string, GoLite.VInt (Z.of_N hl)) :: rest); GoLite.VInts key]
  = GoLite.RRet (GoLite.VInt (Z.of_N (eh d key mod 256 ^ hl))).
Proof. exact GoLiteC04_Legacy.legacy36_BucketHeader_Hash_is_mod. Qed.

Theorem C04_legacy36_translated_uintLe_is_le_dec : forall ext fuel (bs : list N), List.length bs <= 8 ->
  GoLite.call GoLiteL36C04.prog ext fuel "uintLe"%string [GoLite.VInts (map Z.of_N bs)]
  = GoLite.RRet (GoLite.VInt (Z.of_N (Codec.le_dec bs))).
Proof. exact GoLiteC04_Legacy.legacy36_uintLe_is_le_dec. Qed.

Theorem C04_legacy36_translated_eytzinger_is_the_model : forall ext f (inp out : list Z),
  List.length out = List.length inp -> (Z.of_nat (List.length inp) < 2305843009213693952)%Z -> List.length inp < 2 ^ f ->
  GoLite.call GoLiteL36C04.prog ext f "eytzinger"%string [GoLite.VInts inp; GoLite.VInts out; GoLite.VInt 0%Z; GoLite.VInt 1%Z]
  = GoLiteC04_Eytz.ey_ret (Eytz.go Z 0%Z (S f) inp out 0 1).
Proof. exact GoLiteC04_Legacy.legacy36_eytzinger_is_go. Qed.

(* non-vacuity: the translated layout and search of deprecated/compactindex36 RUN (vm_compute inside the kernel): ten
   keys laid out by the translated eytzinger, then every key found with its 36-byte value and an absent one answered
   by (Empty, ErrNotFound), a failing read by (Empty, err) — by the translated searchEytzinger *)
Example C04_legacy36_translated_functions_run :
  let keys := [10; 20; 30; 40; 50; 60; 70; 80; 90; 100]%Z in
  match GoLite.call GoLiteL36C04.prog GoLite.no_ext 10 "eytzinger"%string
          [GoLite.VInts keys; GoLite.VInts (repeat 0%Z 10); GoLite.VInt 0%Z; GoLite.VInt 1%Z] with
  | GoLite.RRet (GoLite.VTuple [GoLite.VInt 10%Z; GoLite.VInts arr]) =>
      let get := fun i => match nth_error arr i with Some h => Some (Z.to_N h, repeat (Z.to_N h) 36) | None => None end in
      forallb (fun k => match GoLite.call GoLiteL36C04.prog (GoLiteC04_LegacySearch.ext_get36 get) 20 "searchEytzinger"%string
                                [GoLite.VInt 0%Z; GoLite.VInt 10%Z; GoLite.VInt k] with
                        | GoLite.RRet (GoLite.VTuple [GoLite.VInts v; GoLite.VNil]) =>
                            andb (Nat.eqb (List.length v) 36) (forallb (Z.eqb k) v)
                        | _ => false end) keys = true /\
      GoLite.call GoLiteL36C04.prog (GoLiteC04_LegacySearch.ext_get36 get) 20 "searchEytzinger"%string
        [GoLite.VInt 0%Z; GoLite.VInt 10%Z; GoLite.VInt 55%Z]
      = GoLite.RRet (GoLite.VTuple [GoLite.VInts (repeat 0%Z 36); GoLite.VErr "ErrNotFound"%string]) /\
      GoLite.call GoLiteL36C04.prog (GoLiteC04_LegacySearch.ext_get36 (fun i => if Nat.eqb i 1 then None else get i)) 20
        "searchEytzinger"%string [GoLite.VInt 0%Z; GoLite.VInt 10%Z; GoLite.VInt 20%Z]
      = GoLite.RRet (GoLite.VTuple [GoLite.VInts (repeat 0%Z 36); GoLite.VErr "read"%string])
  | _ => False
  end.
Proof. vm_compute. repeat split; reflexivity. Qed.

(* ---------------------------------------------------------------- deprecated/compactindex (uint64 values) *)
(* the getter hands out Entry{Hash, Value} with Value = uintLe(value bytes) = Codec.le_dec of them, or (Entry{}, err);
   the result is (value, nil), (0, ErrNotFound) or (0, err) — the [res8] of lookup_legacy8, which turns a hit
   [Found bs] of the search into [Found8 (le_dec bs)] in the same way *)
Example C04_legacy8_translated_search_encoding : forall (get : nat -> option CI.entry) (i : nat) (e : CI.entry) (v : N) (bs : list N),
  (get i = Some e ->
   GoLiteC04_LegacySearch.ext_get8 get "getter"%string [GoLite.VInt (Z.of_nat i)] =
   Some (GoLite.VTuple [GoLite.VStruct [("Hash"%string, GoLite.VInt (Z.of_N (fst e)));
                                        ("Value"%string, GoLite.VInt (Z.of_N (Codec.le_dec (snd e))))]; GoLite.VNil])) /\
  (get i = None ->
   GoLiteC04_LegacySearch.ext_get8 get "getter"%string [GoLite.VInt (Z.of_nat i)] =
   Some (GoLite.VTuple [GoLite.VStruct [("Hash"%string, GoLite.VInt 0%Z); ("Value"%string, GoLite.VInt 0%Z)];
                        GoLite.VErr "read"%string])) /\
  GoLiteC04_LegacySearch.enc_res8 (Found8 v) = GoLite.RRet (GoLite.VTuple [GoLite.VInt (Z.of_N v); GoLite.VNil]) /\
  GoLiteC04_LegacySearch.enc_res8 NotFound8 = GoLite.RRet (GoLite.VTuple [GoLite.VInt 0%Z; GoLite.VErr "ErrNotFound"%string]) /\
  GoLiteC04_LegacySearch.enc_res8 ReadErr8 = GoLite.RRet (GoLite.VTuple [GoLite.VInt 0%Z; GoLite.VErr "read"%string]) /\
  GoLiteC04_LegacySearch.res8_of (CI.Found bs) = Found8 (Codec.le_dec bs) /\
  GoLiteC04_LegacySearch.res8_of CI.NotFound = NotFound8 /\
  GoLiteC04_LegacySearch.res8_of CI.ReadErr = ReadErr8.
Proof.
  intros get i e v bs. unfold GoLiteC04_LegacySearch.ext_get8. rewrite Nat2Z.id.
  split; [intros ->; reflexivity|]. split; [intros ->; reflexivity|]. repeat split; reflexivity.
Qed.

(* lookup_legacy8 is [res8_of] applied to the model's reader (restated: this is how it uses the search's result) *)
Theorem C04_legacy8_lookup_is_res8_of_the_search : forall (hash : N -> list N -> N) (bucket_of : nat -> list N -> nat) (file k : list N),
  lookup_legacy8 hash bucket_of file k =
  match open_legacy file with
  | None => ReadErr8
  | Some (fs, nb) =>
      if Nat.eqb nb 0 then ReadErr8
      else GoLiteC04_LegacySearch.res8_of (C04_Model.lookup_at hash bucket_of (int_width fs) 32 nb file k)
  end.
Proof. exact GoLiteC04_LegacySearch.lookup_legacy8_res8_of. Qed.

(* deprecated/compactindex/query.go:searchEytzinger is CI.search_get for EVERY entry oracle, every value of the
   ignored parameter `min`, every bucket size below 2^62 and every target hash; at most n+1 rounds. *)
Theorem C04_legacy8_translated_search_is_the_model : forall (get : nat -> option CI.entry) (f : nat) (mn : Z) (n : nat) (x : N),
  (Z.of_nat n < 4611686018427387904)%Z -> n < f ->
  GoLite.call GoLiteL8C04.prog (GoLiteC04_LegacySearch.ext_get8 get) f "searchEytzinger"%string
    [GoLite.VInt mn; GoLite.VInt (Z.of_nat n); GoLite.VInt (Z.of_N x)]
  = GoLiteC04_LegacySearch.enc_res8 (GoLiteC04_LegacySearch.res8_of (CI.search_get f get n x 0)).
Proof. exact (GoLiteC04_LegacySearch.searchEytzinger8_is_search_get GoLiteL8C04.prog GoLiteL8C04.prog_searchEytzinger). Qed.

(* ... and on the bucket the model's reader locates for a key the translated search, called as Bucket.Lookup calls
   it, returns exactly the uint64 answer lookup_legacy8 gives after Open (w = intWidth(FileSize) value bytes) *)
Theorem C04_legacy8_translated_search_is_the_lookup :
  forall (hash : N -> list N -> N) (bucket_of : nat -> list N -> nat) (w nb : nat) (file k bh : list N) (d n hl off : nat),
  ReadAt.read_at file (32 + 16 * bucket_of nb k) 16 = Some bh -> CI.parse_bucket_hdr bh = (d, n, hl, off) ->
  (Z.of_nat n < 4611686018427387904)%Z ->
  GoLite.call GoLiteL8C04.prog (GoLiteC04_LegacySearch.ext_get8 (C04_Model.load_entry8 w file off)) (S n) "searchEytzinger"%string
    [GoLite.VInt 0%Z; GoLite.VInt (Z.of_nat n); GoLite.VInt (Z.of_N (CI.h24 hash (N.of_nat d) k))]
  = GoLiteC04_LegacySearch.enc_res8 (GoLiteC04_LegacySearch.res8_of (C04_Model.lookup_at hash bucket_of w 32 nb file k)).
Proof. exact (GoLiteC04_LegacySearch.lookup_at8_is_translated_search GoLiteL8C04.prog GoLiteL8C04.prog_searchEytzinger). Qed.

(* the other five functions of deprecated/compactindex: same statements as for compactindexsized *)
Theorem C04_legacy8_translated_hashUint64_is_murmur : forall ext fuel (x : N), (x < 18446744073709551616)%N ->
  GoLite.call GoLiteL8C04.prog ext fuel "hashUint64"%string [GoLite.VInt (Z.of_N x)]
  = GoLite.RRet (GoLite.VInt (Z.of_N (murmur x))).
Proof. exact GoLiteC04_Legacy.legacy8_hashUint64_is_murmur. Qed.

Theorem C04_legacy8_translated_bucket_hash_is_the_model :
  forall (sum64 : list Z -> N), (forall k, (sum64 k < 18446744073709551616)%N) ->
  forall f key (nb : N) mx, (0 < nb)%N -> (nb < 4294967296)%N ->
  let h := GoLite.VStruct [("NumBuckets"%string, GoLite.VInt (Z.of_N nb)); ("X"%string, mx)] in
  let r := ((18446744073709551616 - nb) mod nb)%N in
  forall v, GoLite.call GoLiteL8C04.prog (GoLiteC04_Proofs.ext_sum sum64) f "Header.BucketHash"%string [h; GoLite.VInts key] = GoLite.RRet v ->
  exists k, (r <= GoLiteC04_Proofs.rounds k (sum64 key))%N /\
            v = GoLite.VInt (Z.of_N (GoLiteC04_Proofs.rounds k (sum64 key) mod nb)) /\
            (k <= 64 -> v = GoLite.VInt (Z.of_N (reject 64 (sum64 key) r mod nb))).
Proof. exact GoLiteC04_Legacy.legacy8_BucketHash_is_model_reject. Qed.

Theorem C04_legacy8_translated_entry_hash_mask :
  forall (eh : Z -> list Z -> N), (forall d k, (eh d k < 18446744073709551616)%N) ->
  forall f d (hl : N) key rest, (0 <= d)%Z -> (1 <= hl <= 8)%N ->
  GoLite.call GoLiteL8C04.prog (GoLiteC04_Codec.ext_eh eh) f "BucketHeader.Hash"%string
    [GoLite.VStruct (("HashDomain"%string, GoLite.VInt d) :: ("NumEntries"%string, GoLite.VInt 0%Z) ::
                     ("HashLen"%string, GoLite.VInt (Z.of_N hl)) :: rest); GoLite.VInts key]
  = GoLite.RRet (GoLite.VInt (Z.of_N (eh d key mod 256 ^ hl))).
Proof. exact GoLiteC04_Legacy.legacy8_BucketHeader_Hash_is_mod. Qed.

Theorem C04_legacy8_translated_uintLe_is_le_dec : forall ext fuel (bs : list N), List.length bs <= 8 ->
  GoLite.call GoLiteL8C04.prog ext fuel "uintLe"%string [GoLite.VInts (map Z.of_N bs)]
  = GoLite.RRet (GoLite.VInt (Z.of_N (Codec.le_dec bs))).
Proof. exact GoLiteC04_Legacy.legacy8_uintLe_is_le_dec. Qed.

Theorem C04_legacy8_translated_eytzinger_is_the_model : forall ext f (inp out : list Z),
  List.length out = List.length inp -> (Z.of_nat (List.length inp) < 2305843009213693952)%Z -> List.length inp < 2 ^ f ->
  GoLite.call GoLiteL8C04.prog ext f "eytzinger"%string [GoLite.VInts inp; GoLite.VInts out; GoLite.VInt 0%Z; GoLite.VInt 1%Z]
  = GoLiteC04_Eytz.ey_ret (Eytz.go Z 0%Z (S f) inp out 0 1).
Proof. exact GoLiteC04_Legacy.legacy8_eytzinger_is_go. Qed.

(* non-vacuity: the translated layout and search of deprecated/compactindex RUN: ten keys laid out by the translated
   eytzinger, then every key found with its uint64 value (here 1000 + key, stored in 2 value bytes), an absent one
   answered by (0, ErrNotFound), a failing read by (0, err) — by the translated searchEytzinger *)
Example C04_legacy8_translated_functions_run :
  let keys := [10; 20; 30; 40; 50; 60; 70; 80; 90; 100]%Z in
  match GoLite.call GoLiteL8C04.prog GoLite.no_ext 10 "eytzinger"%string
          [GoLite.VInts keys; GoLite.VInts (repeat 0%Z 10); GoLite.VInt 0%Z; GoLite.VInt 1%Z] with
  | GoLite.RRet (GoLite.VTuple [GoLite.VInt 10%Z; GoLite.VInts arr]) =>
      let get := fun i => match nth_error arr i with
                          | Some h => Some (Z.to_N h, Codec.le_enc 2 (1000 + Z.to_N h)%N) | None => None end in
      forallb (fun k => match GoLite.call GoLiteL8C04.prog (GoLiteC04_LegacySearch.ext_get8 get) 20 "searchEytzinger"%string
                                [GoLite.VInt 0%Z; GoLite.VInt 10%Z; GoLite.VInt k] with
                        | GoLite.RRet (GoLite.VTuple [GoLite.VInt v; GoLite.VNil]) => Z.eqb v (1000 + k)
                        | _ => false end) keys = true /\
      GoLite.call GoLiteL8C04.prog (GoLiteC04_LegacySearch.ext_get8 get) 20 "searchEytzinger"%string
        [GoLite.VInt 0%Z; GoLite.VInt 10%Z; GoLite.VInt 55%Z]
      = GoLite.RRet (GoLite.VTuple [GoLite.VInt 0%Z; GoLite.VErr "ErrNotFound"%string]) /\
      GoLite.call GoLiteL8C04.prog (GoLiteC04_LegacySearch.ext_get8 (fun i => if Nat.eqb i 1 then None else get i)) 20
        "searchEytzinger"%string [GoLite.VInt 0%Z; GoLite.VInt 10%Z; GoLite.VInt 20%Z]
      = GoLite.RRet (GoLite.VTuple [GoLite.VInt 0%Z; GoLite.VErr "read"%string])
  | _ => False
  end.
Proof. vm_compute. repeat split; reflexivity. Qed.

Print Assumptions C04_legacy36_translated_search_is_the_model.
Print Assumptions C04_legacy36_translated_search_is_the_lookup.
Print Assumptions C04_legacy36_translated_hashUint64_is_murmur.
Print Assumptions C04_legacy36_translated_bucket_hash_is_the_model.
Print Assumptions C04_legacy36_translated_entry_hash_mask.
Print Assumptions C04_legacy36_translated_uintLe_is_le_dec.
Print Assumptions C04_legacy36_translated_eytzinger_is_the_model.
Print Assumptions C04_legacy8_lookup_is_res8_of_the_search.
Print Assumptions C04_legacy8_translated_search_is_the_model.
Print Assumptions C04_legacy8_translated_search_is_the_lookup.
Print Assumptions C04_legacy8_translated_hashUint64_is_murmur.
Print Assumptions C04_legacy8_translated_bucket_hash_is_the_model.
Print Assumptions C04_legacy8_translated_entry_hash_mask.
Print Assumptions C04_legacy8_translated_uintLe_is_le_dec.
Print Assumptions C04_legacy8_translated_eytzinger_is_the_model.

(* ---------- (Bucket).Lookup — the whole lookup of a key inside a bucket (query.go) — translated on every check
   (Generated/GoLiteLkC04.v): hash of the key (BucketHeader.Hash over EntryHash64), then searchEytzinger whose getter
   is b.loadEntry. The translator records what is passed for the getter (first lemma); the theorem interprets the
   getter oracle as exactly that: the translated loadEntry run over the bucket's section reader on the index file.
   For EVERY file (complete or cut anywhere), bucket position, entry count, value size, hash domain and key, Lookup
   returns what the model's search over the model's entry loader returns (CI.search_get over CI.load_entry: the core
   of CI.lookup, which the C04 theorems are about): the value, ErrNotFound, or the read error. ---------- *)
Require YF.Generated.GoLiteLkC04 YF.GoLiteC04_Lookup YF.GoLiteC13_Load.

Lemma C04_translated_Lookup_passes_loadEntry_as_getter :
  GoLiteLkC04.binding_Bucket_Lookup_getter = ("searchEytzinger"%string, "getter"%string, "Bucket.loadEntry(b)"%string).
Proof. reflexivity. Qed.

Theorem C04_translated_bucket_Lookup_is_the_models_search :
  forall (hash : N -> list N -> N), (forall d k, (hash d k < 18446744073709551616)%N) ->
  forall (file : list N) (off n vs : nat) (d : N), 1 <= vs <= 252 -> (Z.of_nat n < 4294967296)%Z ->
  forall (rest : list (string * GoLite.val)) (entries : GoLite.val) (key : list N) f, n + 1 < f ->
  GoLite.call GoLiteLkC04.prog (GoLiteC04_Lookup.ext_lk hash file off n vs d rest entries) f "Bucket.Lookup"%string
    [GoLiteC04_Lookup.bv n vs d rest entries; GoLite.VInts (map Z.of_N key)] =
  GoLiteC04_Search.enc (CI.search_get (f - 1) (CI.load_entry vs file off) n (hash d key mod 16777216)%N 0).
Proof. exact GoLiteC04_Lookup.Lookup_is_search. Qed.

(* the translated Lookup RUNS: a 3-entry bucket in search-tree order (hashes 5 | 2 9, one value byte each), the key's
   hash fixed by the oracle: found; on the file cut inside the last entry the same key is a read error, not "not found" *)
Example C04_translated_bucket_Lookup_runs :
  let file := ([5; 0; 0; 50] ++ [2; 0; 0; 20] ++ [9; 0; 0; 90])%N in
  let run := fun (h : N) (fl : list N) =>
    GoLite.call GoLiteLkC04.prog (GoLiteC04_Lookup.ext_lk (fun _ _ => h) fl 0 3 1 7%N [] GoLite.VNil) 10 "Bucket.Lookup"%string
      [GoLiteC04_Lookup.bv 3 1 7%N [] GoLite.VNil; GoLite.VInts [1; 2; 3]%Z] in
  run 9%N file = GoLite.RRet (GoLite.VTuple [GoLite.VInts [90%Z]; GoLite.VNil]) /\
  run 2%N file = GoLite.RRet (GoLite.VTuple [GoLite.VInts [20%Z]; GoLite.VNil]) /\
  run 4%N file = GoLite.RRet (GoLite.VTuple [GoLite.VInts []; GoLite.VErr "ErrNotFound"%string]) /\
  run 9%N (firstn 10 file) = GoLite.RRet (GoLite.VTuple [GoLite.VInts []; GoLite.VErr "read"%string]) /\
  run 2%N (firstn 10 file) = GoLite.RRet (GoLite.VTuple [GoLite.VInts [20%Z]; GoLite.VNil]).
Proof. vm_compute. repeat split; reflexivity. Qed.

Print Assumptions C04_translated_bucket_Lookup_is_the_models_search.
