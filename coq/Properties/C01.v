(* C01 — Every archived object, slot and signature resolves through the generated indexes.
   Only statements, `exact`, non-vacuity examples and Print Assumptions live here.

   Reading guide. [objs] is the list of CAR objects (cid bytes, payload bytes); the CAR file is
   [Car.car hdr objs] = header ++ sections, section = uvarint(|cid|+|data|) ++ cid ++ data.
   [index_all] is the model of createAllIndexes (running offset, 6+3-byte value codec, kind dispatch,
   four key/value sets + block-time table, "any failing seal fails the whole run").
   The compact index (C04) and the sig-exists index (C05) enter through their proved interface:
     ix_found   : build kvs = Some i -> In (k,v) kvs -> get i k = Some v          (this is C04_found)
     sx_complete: build sigs = Some s -> In x sigs -> has s x = true               (this is C05_no_false_negative)
   go-cid's CID parser enters through its contract on the CIDs that occur ([good_cid]).
   The payload decoders (kind byte, slot/blocktime, first signature) are parameters: what they extract
   is by definition the object's slot / time / signature (their agreement with the schema is C11). *)
From Coq Require Import List Arith NArith.
Import ListNotations.
Require Import YF.Codec YF.ReadAt YF.CI YF.Car YF.C04_Model YF.C04_Formats YF.C01_IndexAll YF.C01_Check YF.C01_Instance YF.C01_Instance2.
Require YF.C05_Model.

Section Statements.
Variable cid_parse : list N -> option (list N * nat).
Variable good_cid : list N -> Prop.
Hypothesis cid_parse_ok : forall c rest, good_cid c -> cid_parse (c ++ rest) = Some (c, length c).
Variable kind_of : list N -> kind.
Variable dec_block : list N -> option (N * N).
Variable dec_sig : list N -> option (list N).
Variable ix : Type.
Variable ix_build : list (list N * list N) -> option ix.
Variable ix_get : ix -> list N -> option (list N).
Hypothesis ix_found : forall kvs i k v, ix_build kvs = Some i -> In (k, v) kvs -> ix_get i k = Some v.
Variable sx : Type.
Variable sx_build : list (list N) -> option sx.
Variable sx_has : sx -> list N -> bool.
Hypothesis sx_complete : forall sigs s x, sx_build sigs = Some s -> In x sigs -> sx_has s x = true.

Let index_all := index_all kind_of dec_block dec_sig ix ix_build sx sx_build.
Let wf_car := wf_car good_cid kind_of dec_block.   (* distinct CIDs, parsable CIDs, distinct block slots *)

(* Whenever index generation reports success on a well-formed CAR, for ANY header, ANY number and
   shape of objects, ANY epoch: *)

(* (1) every object is fetched by its CID and the bytes returned are exactly that object's bytes *)
Theorem C01_every_object_resolves : forall epoch hdr objs ixs o,
  wf_car objs -> index_all epoch hdr objs = Some ixs -> In o objs ->
  get_node_by_cid cid_parse ix ix_get sx ixs (Car.car hdr objs) (Car.cid o) = Some (Car.data o).
Proof. exact (C01_objects cid_parse good_cid cid_parse_ok kind_of dec_block dec_sig ix ix_build ix_get ix_found sx sx_build sx_has sx_complete). Qed.

(* (2) every block's slot resolves to that block's CID and to its recorded block time *)
Theorem C01_every_slot_resolves : forall epoch hdr objs ixs o slot time,
  (epoch * epoch_len + epoch_len < 2 ^ 64)%N ->
  wf_car objs -> index_all epoch hdr objs = Some ixs -> In o objs ->
  is_block kind_of dec_block o slot time ->
  find_cid_from_slot ix ix_get sx ixs slot = Some (Car.cid o) /\ blocktime ix sx ixs slot = Some time.
Proof. exact (C01_slots cid_parse good_cid cid_parse_ok kind_of dec_block dec_sig ix ix_build ix_get ix_found sx sx_build sx_has sx_complete). Qed.

(* (3) every transaction's first signature resolves to that transaction's CID and is reported as existing *)
Theorem C01_every_signature_resolves : forall epoch hdr objs ixs o sg,
  index_all epoch hdr objs = Some ixs -> In o objs -> is_tx kind_of dec_sig o sg ->
  find_cid_from_sig ix ix_get sx ixs sg = Some (Car.cid o) /\ sig_exists ix sx sx_has ixs sg = true.
Proof. exact (C01_sigs kind_of dec_block dec_sig ix ix_build ix_get ix_found sx sx_build sx_has sx_complete). Qed.

(* (4) the (offset,size) recorded for the i-th object is where its section really sits in the file *)
Theorem C01_recorded_offsets_are_true : forall epoch hdr objs ixs idx o,
  index_all epoch hdr objs = Some ixs -> nth_error objs idx = Some o ->
  exists off v, nth_error (Car.index_all hdr objs) idx = Some (Car.cid o, off, Car.seclen o) /\
                enc_os (N.of_nat off) (N.of_nat (Car.seclen o)) = Some v /\
                ix_get (i_cid ix sx ixs) (Car.cid o) = Some v /\
                read_at (Car.car hdr objs) off (Car.seclen o) = Some (Car.section o).
Proof. exact (C01_recorded_offsets kind_of dec_block dec_sig ix ix_build ix_get ix_found sx sx_build). Qed.
End Statements.

(* ---- composed with C04: the abstract index replaced by the byte-level compact-index model (builder created
   with the number of items and the value size of what is inserted, reader = Open + Lookup). The premise about
   the index is GONE: it is discharged by C04's theorem for every entry-hash function and every bucket function
   that stays below the bucket count (xxhash64 / EntryHash64 / BucketHash in particular), and every metadata
   within the format bounds. (One metadata value stands for the per-kind metadata; the lookups do not depend on it.) *)
Theorem C01_every_object_resolves_compact_index :
  forall (cid_parse : list N -> option (list N * nat)) (good_cid : list N -> Prop), (forall c rest, good_cid c -> cid_parse (c ++ rest) = Some (c, length c)) ->
  forall (kind_of : list N -> kind) (dec_block : list N -> option (N * N)) (dec_sig : list N -> option (list N)) (hash : N -> list N -> N) (bucket_of : nat -> list N -> nat), (forall nb k, 0 < nb -> bucket_of nb k < nb) ->
  forall m, meta_ok m ->
  forall (sx : Type) (sx_build : list (list N) -> option sx) (sx_has : sx -> list N -> bool), (forall sigs s x, sx_build sigs = Some s -> In x sigs -> sx_has s x = true) ->
  forall epoch hdr objs ixs o,
  wf_car good_cid kind_of dec_block objs ->
  index_all kind_of dec_block dec_sig (list N) (ci_build hash bucket_of m) sx sx_build epoch hdr objs = Some ixs -> In o objs ->
  get_node_by_cid cid_parse (list N) (ci_get hash bucket_of) sx ixs (Car.car hdr objs) (Car.cid o) = Some (Car.data o).
Proof. exact C01_objects_with_compact_index. Qed.

Theorem C01_every_slot_resolves_compact_index :
  forall (cid_parse : list N -> option (list N * nat)) (good_cid : list N -> Prop), (forall c rest, good_cid c -> cid_parse (c ++ rest) = Some (c, length c)) ->
  forall (kind_of : list N -> kind) (dec_block : list N -> option (N * N)) (dec_sig : list N -> option (list N)) (hash : N -> list N -> N) (bucket_of : nat -> list N -> nat), (forall nb k, 0 < nb -> bucket_of nb k < nb) ->
  forall m, meta_ok m ->
  forall (sx : Type) (sx_build : list (list N) -> option sx) (sx_has : sx -> list N -> bool), (forall sigs s x, sx_build sigs = Some s -> In x sigs -> sx_has s x = true) ->
  forall epoch hdr objs ixs o slot time,
  (epoch * epoch_len + epoch_len < 2 ^ 64)%N ->
  wf_car good_cid kind_of dec_block objs ->
  index_all kind_of dec_block dec_sig (list N) (ci_build hash bucket_of m) sx sx_build epoch hdr objs = Some ixs -> In o objs ->
  is_block kind_of dec_block o slot time ->
  find_cid_from_slot (list N) (ci_get hash bucket_of) sx ixs slot = Some (Car.cid o) /\ blocktime (list N) sx ixs slot = Some time.
Proof. exact C01_slots_with_compact_index. Qed.

Theorem C01_every_signature_resolves_compact_index :
  forall (kind_of : list N -> kind) (dec_block : list N -> option (N * N)) (dec_sig : list N -> option (list N)) (hash : N -> list N -> N) (bucket_of : nat -> list N -> nat), (forall nb k, 0 < nb -> bucket_of nb k < nb) ->
  forall m, meta_ok m ->
  forall (sx : Type) (sx_build : list (list N) -> option sx) (sx_has : sx -> list N -> bool), (forall sigs s x, sx_build sigs = Some s -> In x sigs -> sx_has s x = true) ->
  forall epoch hdr objs ixs o sg,
  index_all kind_of dec_block dec_sig (list N) (ci_build hash bucket_of m) sx sx_build epoch hdr objs = Some ixs -> In o objs ->
  is_tx kind_of dec_sig o sg ->
  find_cid_from_sig (list N) (ci_get hash bucket_of) sx ixs sg = Some (Car.cid o) /\ sig_exists (list N) sx sx_has ixs sg = true.
Proof. exact C01_sigs_with_compact_index. Qed.

(* ---- composed with C04 AND C05: both abstract indexes replaced by their byte-level models (compact index; current
   sig-exists file format). NO premise about any index is left: for every entry-hash function, in-range bucket
   function, signature hash function and metadata within the format bounds. What remains as premises is the go-cid
   contract on the CIDs that occur, well-formedness of the CAR, and the epoch bound. *)
Theorem C01_every_object_resolves_concrete :
  forall (cid_parse : list N -> option (list N * nat)) (good_cid : list N -> Prop), (forall c rest, good_cid c -> cid_parse (c ++ rest) = Some (c, length c)) ->
  forall (kind_of : list N -> kind) (dec_block : list N -> option (N * N)) (dec_sig : list N -> option (list N)) (hash : N -> list N -> N) (bucket_of : nat -> list N -> nat),
  (forall nb k, 0 < nb -> bucket_of nb k < nb) ->
  forall m, meta_ok m ->
  forall (sig_hash : list N -> N) (sx_meta : C05_Model.meta) epoch hdr objs ixs o,
  wf_car good_cid kind_of dec_block objs ->
  index_all kind_of dec_block dec_sig (list N) (ci_build hash bucket_of m) (list N) (sx_build sig_hash sx_meta) epoch hdr objs = Some ixs -> In o objs ->
  get_node_by_cid cid_parse (list N) (ci_get hash bucket_of) (list N) ixs (Car.car hdr objs) (Car.cid o) = Some (Car.data o).
Proof. exact C01_objects_concrete. Qed.

Theorem C01_every_slot_resolves_concrete :
  forall (cid_parse : list N -> option (list N * nat)) (good_cid : list N -> Prop), (forall c rest, good_cid c -> cid_parse (c ++ rest) = Some (c, length c)) ->
  forall (kind_of : list N -> kind) (dec_block : list N -> option (N * N)) (dec_sig : list N -> option (list N)) (hash : N -> list N -> N) (bucket_of : nat -> list N -> nat),
  (forall nb k, 0 < nb -> bucket_of nb k < nb) ->
  forall m, meta_ok m ->
  forall (sig_hash : list N -> N) (sx_meta : C05_Model.meta) epoch hdr objs ixs o slot time,
  (epoch * epoch_len + epoch_len < 2 ^ 64)%N ->
  wf_car good_cid kind_of dec_block objs ->
  index_all kind_of dec_block dec_sig (list N) (ci_build hash bucket_of m) (list N) (sx_build sig_hash sx_meta) epoch hdr objs = Some ixs -> In o objs ->
  is_block kind_of dec_block o slot time ->
  find_cid_from_slot (list N) (ci_get hash bucket_of) (list N) ixs slot = Some (Car.cid o) /\ blocktime (list N) (list N) ixs slot = Some time.
Proof. exact C01_slots_concrete. Qed.

Theorem C01_every_signature_resolves_concrete :
  forall (kind_of : list N -> kind) (dec_block : list N -> option (N * N)) (dec_sig : list N -> option (list N)) (hash : N -> list N -> N) (bucket_of : nat -> list N -> nat),
  (forall nb k, 0 < nb -> bucket_of nb k < nb) ->
  forall m, meta_ok m ->
  forall (sig_hash : list N -> N) (sx_meta : C05_Model.meta) epoch hdr objs ixs o sg,
  index_all kind_of dec_block dec_sig (list N) (ci_build hash bucket_of m) (list N) (sx_build sig_hash sx_meta) epoch hdr objs = Some ixs -> In o objs ->
  is_tx kind_of dec_sig o sg ->
  find_cid_from_sig (list N) (ci_get hash bucket_of) (list N) ixs sg = Some (Car.cid o) /\ sig_exists (list N) (list N) (sx_has sig_hash) ixs sg = true.
Proof. exact C01_sigs_concrete. Qed.

(* value codec and block-time file round trips (all values) *)
Theorem C01_offset_size_codec_roundtrip : forall off len v, enc_os off len = Some v -> dec_os v = Some (off, len).
Proof. exact dec_enc_os. Qed.
Theorem C01_blocktime_file_roundtrip : forall epoch t b,
  (bt_start t < 2 ^ 64)%N -> (bt_end t < 2 ^ 64)%N -> (N.of_nat (length (bt_vals t)) < 2 ^ 64)%N ->
  bt_marshal epoch t = Some b -> bt_unmarshal b = Some t.
Proof. exact bt_unmarshal_marshal. Qed.

(* the executable offset table used by the correspondence check is the model's index_from *)
Theorem C01_checker_offsets_are_model_offsets : forall objs off,
  map (fun e => (N.of_nat (snd (fst e)), N.of_nat (snd e))) (Car.index_from off objs) =
  offsets (N.of_nat off) (map (fun o => (N.of_nat (length (Car.cid o)), N.of_nat (length (Car.data o)))) objs).
Proof. exact offsets_ok. Qed.

(* non-vacuity: a concrete three-object layout with a 1-byte and a 2-byte section varint *)
Example C01_nonvacuous_offsets :
  offsets 59 [(36, 50); (36, 200); (36, 9)]%N = [(59, 87); (146, 238); (384, 46)]%N.
Proof. vm_compute. reflexivity. Qed.

Print Assumptions C01_every_object_resolves.
Print Assumptions C01_every_slot_resolves.
Print Assumptions C01_every_signature_resolves.
Print Assumptions C01_recorded_offsets_are_true.
Print Assumptions C01_every_object_resolves_compact_index.
Print Assumptions C01_every_slot_resolves_compact_index.
Print Assumptions C01_every_signature_resolves_compact_index.
Print Assumptions C01_every_object_resolves_concrete.
Print Assumptions C01_every_slot_resolves_concrete.
Print Assumptions C01_every_signature_resolves_concrete.
Print Assumptions C01_offset_size_codec_roundtrip.
Print Assumptions C01_blocktime_file_roundtrip.
Print Assumptions C01_checker_offsets_are_model_offsets.
