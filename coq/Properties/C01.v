(* C01 — Every archived object, slot and signature resolves through the generated indexes.
   Only statements, `exact`, non-vacuity examples and Print Assumptions live here.

   Reading guide. [objs] is the list of CAR objects (cid bytes, payload bytes); the CAR file is
   [Car.car hdr objs] = header ++ sections, section = uvarint(|cid|+|data|) ++ cid ++ data.
   [index_all] is the model of createAllIndexes (running offset, 6+3-byte value codec, kind dispatch,
   four key/value sets + block-time table, "any failing seal fails the whole run").
   The compact index (C04) and the sig-exists index (C05) enter through their proved interface:
     ix_found   : build kvs = Some i -> In (k,v) kvs -> get i k = Some v          (this is C04_found)
     sx_complete: build sigs = Some s -> In x sigs -> has s x = true               (this is C05_no_false_negative)
   go-cid's CID parser enters through its contract on the CIDs that occur ([good_cid]).
   The payload decoders (kind byte, slot/blocktime, first signature) are parameters: what they extract
   is by definition the object's slot / time / signature (their agreement with the schema is C11). *)
From Coq Require Import List Arith NArith.
Import ListNotations.
Require Import YF.Codec YF.ReadAt YF.CI YF.Car YF.C04_Model YF.C04_Formats YF.C01_IndexAll YF.C01_Check YF.C01_Instance YF.C01_Instance2.
Require YF.C05_Model.

Section Statements.
Variable cid_parse : list N -> option (list N * nat).
Variable good_cid : list N -> Prop.
Hypothesis cid_parse_ok : forall c rest, good_cid c -> cid_parse (c ++ rest) = Some (c, length c).
Variable kind_of : list N -> kind.
Variable dec_block : list N -> option (N * N).
Variable dec_sig : list N -> option (list N).
Variable ix : Type.
Variable ix_build : list (list N * list N) -> option ix.
Variable ix_get : ix -> list N -> option (list N).
Hypothesis ix_found : forall kvs i k v, ix_build kvs = Some i -> In (k, v) kvs -> ix_get i k = Some v.
Variable sx : Type.
Variable sx_build : list (list N) -> option sx.
Variable sx_has : sx -> list N -> bool.
Hypothesis sx_complete : forall sigs s x, sx_build sigs = Some s -> In x sigs -> sx_has s x = true.

Let index_all := index_all kind_of dec_block dec_sig ix ix_build sx sx_build.
Let wf_car := wf_car good_cid kind_of dec_block.   (* distinct CIDs, parsable CIDs, distinct block slots *)

(* Whenever index generation reports success on a well-formed CAR, for ANY header, ANY number and
   shape of objects, ANY epoch: *)

(* (1) every object is fetched by its CID and the bytes returned are exactly that object's bytes *)
Theorem C01_every_object_resolves : forall epoch hdr objs ixs o,
  wf_car objs -> index_all epoch hdr objs = Some ixs -> In o objs ->
  get_node_by_cid cid_parse ix ix_get sx ixs (Car.car hdr objs) (Car.cid o) = Some (Car.data o).
Proof. exact (C01_objects cid_parse good_cid cid_parse_ok kind_of dec_block dec_sig ix ix_build ix_get ix_found sx sx_build sx_has sx_complete). Qed.

(* (2) every block's slot resolves to that block's CID and to its recorded block time *)
Theorem C01_every_slot_resolves : forall epoch hdr objs ixs o slot time,
  (epoch * epoch_len + epoch_len < 2 ^ 64)%N ->
  wf_car objs -> index_all epoch hdr objs = Some ixs -> In o objs ->
  is_block kind_of dec_block o slot time ->
  find_cid_from_slot ix ix_get sx ixs slot = Some (Car.cid o) /\ blocktime ix sx ixs slot = Some time.
Proof. exact (C01_slots cid_parse good_cid cid_parse_ok kind_of dec_block dec_sig ix ix_build ix_get ix_found sx sx_build sx_has sx_complete). Qed.

(* (3) every transaction's first signature resolves to that transaction's CID and is reported as existing *)
Theorem C01_every_signature_resolves : forall epoch hdr objs ixs o sg,
  index_all epoch hdr objs = Some ixs -> In o objs -> is_tx kind_of dec_sig o sg ->
  find_cid_from_sig ix ix_get sx ixs sg = Some (Car.cid o) /\ sig_exists ix sx sx_has ixs sg = true.
Proof. exact (C01_sigs kind_of dec_block dec_sig ix ix_build ix_get ix_found sx sx_build sx_has sx_complete). Qed.

(* (4) the (offset,size) recorded for the i-th object is where its section really sits in the file *)
Theorem C01_recorded_offsets_are_true : forall epoch hdr objs ixs idx o,
  index_all epoch hdr objs = Some ixs -> nth_error objs idx = Some o ->
  exists off v, nth_error (Car.index_all hdr objs) idx = Some (Car.cid o, off, Car.seclen o) /\
                enc_os (N.of_nat off) (N.of_nat (Car.seclen o)) = Some v /\
                ix_get (i_cid ix sx ixs) (Car.cid o) = Some v /\
                read_at (Car.car hdr objs) off (Car.seclen o) = Some (Car.section o).
Proof. exact (C01_recorded_offsets kind_of dec_block dec_sig ix ix_build ix_get ix_found sx sx_build). Qed.
End Statements.

(* ---- composed with C04: the abstract index replaced by the byte-level compact-index model (builder created
   with the number of items and the value size of what is inserted, reader = Open + Lookup). The premise about
   the index is GONE: it is discharged by C04's theorem for every entry-hash function and every bucket function
   that stays below the bucket count (xxhash64 / EntryHash64 / BucketHash in particular), and every metadata
   within the format bounds. (One metadata value stands for the per-kind metadata; the lookups do not depend on it.) *)
Theorem C01_every_object_resolves_compact_index :
  forall (cid_parse : list N -> option (list N * nat)) (good_cid : list N -> Prop), (forall c rest, good_cid c -> cid_parse (c ++ rest) = Some (c, length c)) ->
  forall (kind_of : list N -> kind) (dec_block : list N -> option (N * N)) (dec_sig : list N -> option (list N)) (hash : N -> list N -> N) (bucket_of : nat -> list N -> nat), (forall nb k, 0 < nb -> bucket_of nb k < nb) ->
  forall m, meta_ok m ->
  forall (sx : Type) (sx_build : list (list N) -> option sx) (sx_has : sx -> list N -> bool), (forall sigs s x, sx_build sigs = Some s -> In x sigs -> sx_has s x = true) ->
  forall epoch hdr objs ixs o,
  wf_car good_cid kind_of dec_block objs ->
  index_all kind_of dec_block dec_sig (list N) (ci_build hash bucket_of m) sx sx_build epoch hdr objs = Some ixs -> In o objs ->
  get_node_by_cid cid_parse (list N) (ci_get hash bucket_of) sx ixs (Car.car hdr objs) (Car.cid o) = Some (Car.data o).
Proof. exact C01_objects_with_compact_index. Qed.

Theorem C01_every_slot_resolves_compact_index :
  forall (cid_parse : list N -> option (list N * nat)) (good_cid : list N -> Prop), (forall c rest, good_cid c -> cid_parse (c ++ rest) = Some (c, length c)) ->
  forall (kind_of : list N -> kind) (dec_block : list N -> option (N * N)) (dec_sig : list N -> option (list N)) (hash : N -> list N -> N) (bucket_of : nat -> list N -> nat), (forall nb k, 0 < nb -> bucket_of nb k < nb) ->
  forall m, meta_ok m ->
  forall (sx : Type) (sx_build : list (list N) -> option sx) (sx_has : sx -> list N -> bool), (forall sigs s x, sx_build sigs = Some s -> In x sigs -> sx_has s x = true) ->
  forall epoch hdr objs ixs o slot time,
  (epoch * epoch_len + epoch_len < 2 ^ 64)%N ->
  wf_car good_cid kind_of dec_block objs ->
  index_all kind_of dec_block dec_sig (list N) (ci_build hash bucket_of m) sx sx_build epoch hdr objs = Some ixs -> In o objs ->
  is_block kind_of dec_block o slot time ->
  find_cid_from_slot (list N) (ci_get hash bucket_of) sx ixs slot = Some (Car.cid o) /\ blocktime (list N) sx ixs slot = Some time.
Proof. exact C01_slots_with_compact_index. Qed.

Theorem C01_every_signature_resolves_compact_index :
  forall (kind_of : list N -> kind) (dec_block : list N -> option (N * N)) (dec_sig : list N -> option (list N)) (hash : N -> list N -> N) (bucket_of : nat -> list N -> nat), (forall nb k, 0 < nb -> bucket_of nb k < nb) ->
  forall m, meta_ok m ->
  forall (sx : Type) (sx_build : list (list N) -> option sx) (sx_has : sx -> list N -> bool), (forall sigs s x, sx_build sigs = Some s -> In x sigs -> sx_has s x = true) ->
  forall epoch hdr objs ixs o sg,
  index_all kind_of dec_block dec_sig (list N) (ci_build hash bucket_of m) sx sx_build epoch hdr objs = Some ixs -> In o objs ->
  is_tx kind_of dec_sig o sg ->
  find_cid_from_sig (list N) (ci_get hash bucket_of) sx ixs sg = Some (Car.cid o) /\ sig_exists (list N) sx sx_has ixs sg = true.
Proof. exact C01_sigs_with_compact_index. Qed.

(* ---- composed with C04 AND C05: both abstract indexes replaced by their byte-level models (compact index; current
   sig-exists file format). NO premise about any index is left: for every entry-hash function, in-range bucket
   function, signature hash function and metadata within the format bounds. What remains as premises is the go-cid
   contract on the CIDs that occur, well-formedness of the CAR, and the epoch bound. *)
Theorem C01_every_object_resolves_concrete :
  forall (cid_parse : list N -> option (list N * nat)) (good_cid : list N -> Prop), (forall c rest, good_cid c -> cid_parse (c ++ rest) = Some (c, length c)) ->
  forall (kind_of : list N -> kind) (dec_block : list N -> option (N * N)) (dec_sig : list N -> option (list N)) (hash : N -> list N -> N) (bucket_of : nat -> list N -> nat),
  (forall nb k, 0 < nb -> bucket_of nb k < nb) ->
  forall m, meta_ok m ->
  forall (sig_hash : list N -> N) (sx_meta : C05_Model.meta) epoch hdr objs ixs o,
  wf_car good_cid kind_of dec_block objs ->
  index_all kind_of dec_block dec_sig (list N) (ci_build hash bucket_of m) (list N) (sx_build sig_hash sx_meta) epoch hdr objs = Some ixs -> In o objs ->
  get_node_by_cid cid_parse (list N) (ci_get hash bucket_of) (list N) ixs (Car.car hdr objs) (Car.cid o) = Some (Car.data o).
Proof. exact C01_objects_concrete. Qed.

Theorem C01_every_slot_resolves_concrete :
  forall (cid_parse : list N -> option (list N * nat)) (good_cid : list N -> Prop), (forall c rest, good_cid c -> cid_parse (c ++ rest) = Some (c, length c)) ->
  forall (kind_of : list N -> kind) (dec_block : list N -> option (N * N)) (dec_sig : list N -> option (list N)) (hash : N -> list N -> N) (bucket_of : nat -> list N -> nat),
  (forall nb k, 0 < nb -> bucket_of nb k < nb) ->
  forall m, meta_ok m ->
  forall (sig_hash : list N -> N) (sx_meta : C05_Model.meta) epoch hdr objs ixs o slot time,
  (epoch * epoch_len + epoch_len < 2 ^ 64)%N ->
  wf_car good_cid kind_of dec_block objs ->
  index_all kind_of dec_block dec_sig (list N) (ci_build hash bucket_of m) (list N) (sx_build sig_hash sx_meta) epoch hdr objs = Some ixs -> In o objs ->
  is_block kind_of dec_block o slot time ->
  find_cid_from_slot (list N) (ci_get hash bucket_of) (list N) ixs slot = Some (Car.cid o) /\ blocktime (list N) (list N) ixs slot = Some time.
Proof. exact C01_slots_concrete. Qed.

Theorem C01_every_signature_resolves_concrete :
  forall (kind_of : list N -> kind) (dec_block : list N -> option (N * N)) (dec_sig : list N -> option (list N)) (hash : N -> list N -> N) (bucket_of : nat -> list N -> nat),
  (forall nb k, 0 < nb -> bucket_of nb k < nb) ->
  forall m, meta_ok m ->
  forall (sig_hash : list N -> N) (sx_meta : C05_Model.meta) epoch hdr objs ixs o sg,
  index_all kind_of dec_block dec_sig (list N) (ci_build hash bucket_of m) (list N) (sx_build sig_hash sx_meta) epoch hdr objs = Some ixs -> In o objs ->
  is_tx kind_of dec_sig o sg ->
  find_cid_from_sig (list N) (ci_get hash bucket_of) (list N) ixs sg = Some (Car.cid o) /\ sig_exists (list N) (list N) (sx_has sig_hash) ixs sg = true.
Proof. exact C01_sigs_concrete. Qed.

(* value codec and block-time file round trips (all values) *)
Theorem C01_offset_size_codec_roundtrip : forall off len v, enc_os off len = Some v -> dec_os v = Some (off, len).
Proof. exact dec_enc_os. Qed.
Theorem C01_blocktime_file_roundtrip : forall epoch t b,
  (bt_start t < 2 ^ 64)%N -> (bt_end t < 2 ^ 64)%N -> (N.of_nat (length (bt_vals t)) < 2 ^ 64)%N ->
  bt_marshal epoch t = Some b -> bt_unmarshal b = Some t.
Proof. exact bt_unmarshal_marshal. Qed.

(* the executable offset table used by the correspondence check is the model's index_from *)
Theorem C01_checker_offsets_are_model_offsets : forall objs off,
  map (fun e => (N.of_nat (snd (fst e)), N.of_nat (snd e))) (Car.index_from off objs) =
  offsets (N.of_nat off) (map (fun o => (N.of_nat (length (Car.cid o)), N.of_nat (length (Car.data o)))) objs).
Proof. exact offsets_ok. Qed.

(* non-vacuity: a concrete three-object layout with a 1-byte and a 2-byte section varint *)
Example C01_nonvacuous_offsets :
  offsets 59 [(36, 50); (36, 200); (36, 9)]%N = [(59, 87); (146, 238); (384, 46)]%N.
Proof. vm_compute. reflexivity. Qed.

Print Assumptions C01_every_object_resolves.
Print Assumptions C01_every_slot_resolves.
Print Assumptions C01_every_signature_resolves.
Print Assumptions C01_recorded_offsets_are_true.
Print Assumptions C01_every_object_resolves_compact_index.
Print Assumptions C01_every_slot_resolves_compact_index.
Print Assumptions C01_every_signature_resolves_compact_index.
Print Assumptions C01_every_object_resolves_concrete.
Print Assumptions C01_every_slot_resolves_concrete.
Print Assumptions C01_every_signature_resolves_concrete.
Print Assumptions C01_offset_size_codec_roundtrip.
Print Assumptions C01_blocktime_file_roundtrip.
Print Assumptions C01_checker_offsets_are_model_offsets.

(* ================================================================ the Go functions themselves, TRANSLATED
   On every check gen/golite.go re-translates indexes/uints.go (Uint24tob, BtoUint24, Uint40tob, BtoUint40, Uint48tob,
   BtoUint48, Uint64tob, BtoUint64, cloneAndPad) and indexes/offset-and-size.go ((OffsetAndSize).Bytes, FromBytes,
   IsValid) from /repo's working tree into the GoLite fragment (Generated/GoLiteC01.v; semantics: GoLite.v —
   fixed-width wrap-around, panics on bad indexes / explicit panic(), fuel for calls).  The theorems below state that
   the translated functions ARE the value codec of the model above (enc_os / dec_os, built from Codec.le_enc /
   Codec.le_dec; C01_offset_size_codec_roundtrip, C01_recorded_offsets_are_true are about them); they are re-proved
   against what the source says now.  Byte lists of the model (list N) appear as [map Z.of_N]; a struct value is
   written out with its two fields; [fuel] bounds the call depth (Bytes, BtoUintN: 1; FromBytes: 2). *)
Require YF.GoLite YF.Generated.GoLiteC01 YF.GoLiteC01_Codec.
Import ZArith String.

(* uints.go:UintNtob v is the first N/8 little-endian bytes of v (Codec.le_enc) for every v below 2^N ... *)
Theorem C01_translated_uint_encoders_are_le_enc : forall ext fuel (v : N),
  ((v < 2 ^ 24)%N -> GoLite.call GoLiteC01.prog ext fuel "Uint24tob"%string [GoLite.VInt (Z.of_N v)]
                     = GoLite.RRet (GoLite.VInts (map Z.of_N (Codec.le_enc 3 v)))) /\
  ((v < 2 ^ 40)%N -> GoLite.call GoLiteC01.prog ext fuel "Uint40tob"%string [GoLite.VInt (Z.of_N v)]
                     = GoLite.RRet (GoLite.VInts (map Z.of_N (Codec.le_enc 5 v)))) /\
  ((v < 2 ^ 48)%N -> GoLite.call GoLiteC01.prog ext fuel "Uint48tob"%string [GoLite.VInt (Z.of_N v)]
                     = GoLite.RRet (GoLite.VInts (map Z.of_N (Codec.le_enc 6 v)))) /\
  GoLite.call GoLiteC01.prog ext fuel "Uint64tob"%string [GoLite.VInt (Z.of_N v)]
                     = GoLite.RRet (GoLite.VInts (map Z.of_N (Codec.le_enc 8 v))).
Proof.
  exact (fun ext fuel v =>
    conj (GoLiteC01_Codec.Uint24tob_is_le_enc GoLiteC01.prog GoLiteC01.prog_Uint24tob ext fuel v)
   (conj (GoLiteC01_Codec.Uint40tob_is_le_enc GoLiteC01.prog GoLiteC01.prog_Uint40tob ext fuel v)
   (conj (GoLiteC01_Codec.Uint48tob_is_le_enc GoLiteC01.prog GoLiteC01.prog_Uint48tob ext fuel v)
         (GoLiteC01_Codec.Uint64tob_is_le_enc GoLiteC01.prog GoLiteC01.prog_Uint64tob ext fuel v)))).
Qed.

(* ... and PANICS for every v at or above 2^N (Uint64tob has no check and never panics) *)
Theorem C01_translated_uint_encoders_panic_out_of_range : forall ext fuel (v : N),
  ((2 ^ 24 <= v)%N -> GoLite.call GoLiteC01.prog ext fuel "Uint24tob"%string [GoLite.VInt (Z.of_N v)] = GoLite.RPanic) /\
  ((2 ^ 40 <= v)%N -> GoLite.call GoLiteC01.prog ext fuel "Uint40tob"%string [GoLite.VInt (Z.of_N v)] = GoLite.RPanic) /\
  ((2 ^ 48 <= v)%N -> GoLite.call GoLiteC01.prog ext fuel "Uint48tob"%string [GoLite.VInt (Z.of_N v)] = GoLite.RPanic).
Proof.
  exact (fun ext fuel v =>
    conj (GoLiteC01_Codec.Uint24tob_panics GoLiteC01.prog GoLiteC01.prog_Uint24tob ext fuel v)
   (conj (GoLiteC01_Codec.Uint40tob_panics GoLiteC01.prog GoLiteC01.prog_Uint40tob ext fuel v)
         (GoLiteC01_Codec.Uint48tob_panics GoLiteC01.prog GoLiteC01.prog_Uint48tob ext fuel v))).
Qed.

(* uints.go:BtoUintN on a buffer of exactly N/8 bytes is Codec.le_dec of the buffer (BtoUint64: of the first 8 bytes
   of any buffer of at least 8 bytes) ... *)
Theorem C01_translated_uint_decoders_are_le_dec : forall ext fuel (bs : list N), 1 <= fuel ->
  (List.length bs = 3 -> GoLite.call GoLiteC01.prog ext fuel "BtoUint24"%string [GoLite.VInts (map Z.of_N bs)]
                    = GoLite.RRet (GoLite.VInt (Z.of_N (Codec.le_dec bs)))) /\
  (List.length bs = 5 -> GoLite.call GoLiteC01.prog ext fuel "BtoUint40"%string [GoLite.VInts (map Z.of_N bs)]
                    = GoLite.RRet (GoLite.VInt (Z.of_N (Codec.le_dec bs)))) /\
  (List.length bs = 6 -> GoLite.call GoLiteC01.prog ext fuel "BtoUint48"%string [GoLite.VInts (map Z.of_N bs)]
                    = GoLite.RRet (GoLite.VInt (Z.of_N (Codec.le_dec bs)))) /\
  (8 <= List.length bs -> GoLite.call GoLiteC01.prog ext fuel "BtoUint64"%string [GoLite.VInts (map Z.of_N bs)]
                    = GoLite.RRet (GoLite.VInt (Z.of_N (Codec.le_dec (firstn 8 bs))))).
Proof.
  exact (fun ext fuel bs Hf =>
    conj (GoLiteC01_Codec.BtoUint24_is_le_dec GoLiteC01.prog GoLiteC01.prog_BtoUint24 GoLiteC01.prog_cloneAndPad ext fuel bs Hf)
   (conj (GoLiteC01_Codec.BtoUint40_is_le_dec GoLiteC01.prog GoLiteC01.prog_BtoUint40 GoLiteC01.prog_cloneAndPad ext fuel bs Hf)
   (conj (GoLiteC01_Codec.BtoUint48_is_le_dec GoLiteC01.prog GoLiteC01.prog_BtoUint48 GoLiteC01.prog_cloneAndPad ext fuel bs Hf)
         (GoLiteC01_Codec.BtoUint64_is_le_dec GoLiteC01.prog GoLiteC01.prog_BtoUint64 ext fuel bs)))).
Qed.

(* ... on a LONGER buffer BtoUint24 / BtoUint40 / BtoUint48 do NOT decode "the first 3 / 5 / 6 bytes": cloneAndPad
   keeps the whole buffer, so Uint32 / Uint64 read its first 4 / 8 bytes (the callers in the repository pass slices of
   exactly 3 / 5 / 6 bytes).  Exact value for every buffer that is long enough (fewer than 2^62 elements, so that
   len(buf)+pad does not wrap): *)
Theorem C01_translated_uint_decoders_read_whole_words : forall ext fuel (buf : list Z), 1 <= fuel ->
  (Z.of_nat (List.length buf) < 4611686018427387904)%Z ->
  (3 <= List.length buf -> GoLite.call GoLiteC01.prog ext fuel "BtoUint24"%string [GoLite.VInts buf]
                      = GoLite.RRet (GoLite.VInt (GoLite.le_value (firstn 4 buf)))) /\
  (5 <= List.length buf -> GoLite.call GoLiteC01.prog ext fuel "BtoUint40"%string [GoLite.VInts buf]
                      = GoLite.RRet (GoLite.VInt (GoLite.le_value (firstn 8 buf)))) /\
  (6 <= List.length buf -> GoLite.call GoLiteC01.prog ext fuel "BtoUint48"%string [GoLite.VInts buf]
                      = GoLite.RRet (GoLite.VInt (GoLite.le_value (firstn 8 buf)))).
Proof.
  exact (fun ext fuel buf Hf Hl =>
    conj (fun Hk => GoLiteC01_Codec.BtoUint24_value GoLiteC01.prog GoLiteC01.prog_BtoUint24 GoLiteC01.prog_cloneAndPad ext fuel buf Hf Hk Hl)
   (conj (fun Hk => GoLiteC01_Codec.BtoUint40_value GoLiteC01.prog GoLiteC01.prog_BtoUint40 GoLiteC01.prog_cloneAndPad ext fuel buf Hf Hk Hl)
         (fun Hk => GoLiteC01_Codec.BtoUint48_value GoLiteC01.prog GoLiteC01.prog_BtoUint48 GoLiteC01.prog_cloneAndPad ext fuel buf Hf Hk Hl))).
Qed.
Example C01_translated_BtoUint48_reads_byte_six :
  GoLite.call GoLiteC01.prog GoLite.no_ext 1 "BtoUint48"%string [GoLite.VInts [0; 0; 0; 0; 0; 0; 1]%Z]
  = GoLite.RRet (GoLite.VInt 281474976710656%Z).
Proof. vm_compute. reflexivity. Qed.

(* ... and on a buffer shorter than N/8 bytes the bounds hint `_ = buf[N/8-1]` PANICS (for every fuel) *)
Theorem C01_translated_uint_decoders_panic_on_short_buffers : forall ext fuel (buf : list Z),
  (List.length buf < 3 -> GoLite.call GoLiteC01.prog ext fuel "BtoUint24"%string [GoLite.VInts buf] = GoLite.RPanic) /\
  (List.length buf < 5 -> GoLite.call GoLiteC01.prog ext fuel "BtoUint40"%string [GoLite.VInts buf] = GoLite.RPanic) /\
  (List.length buf < 6 -> GoLite.call GoLiteC01.prog ext fuel "BtoUint48"%string [GoLite.VInts buf] = GoLite.RPanic) /\
  (List.length buf < 8 -> GoLite.call GoLiteC01.prog ext fuel "BtoUint64"%string [GoLite.VInts buf] = GoLite.RPanic).
Proof.
  exact (fun ext fuel buf =>
    conj (GoLiteC01_Codec.BtoUint24_short_panics GoLiteC01.prog GoLiteC01.prog_BtoUint24 ext fuel buf)
   (conj (GoLiteC01_Codec.BtoUint40_short_panics GoLiteC01.prog GoLiteC01.prog_BtoUint40 ext fuel buf)
   (conj (GoLiteC01_Codec.BtoUint48_short_panics GoLiteC01.prog GoLiteC01.prog_BtoUint48 ext fuel buf)
         (GoLiteC01_Codec.BtoUint64_short_panics GoLiteC01.prog GoLiteC01.prog_BtoUint64 ext fuel buf)))).
Qed.

(* offset-and-size.go:(OffsetAndSize).Bytes IS the model's encoder enc_os (6-byte offset ++ 3-byte size) wherever
   enc_os is defined, i.e. for Offset <= max_u48 and Size <= max_u24 ... *)
Theorem C01_translated_Bytes_is_enc_os : forall ext fuel (off size : N) v, 1 <= fuel ->
  enc_os off size = Some v ->
  GoLite.call GoLiteC01.prog ext fuel "OffsetAndSize.Bytes"%string
    [GoLite.VStruct [("Offset"%string, GoLite.VInt (Z.of_N off)); ("Size"%string, GoLite.VInt (Z.of_N size))]]
  = GoLite.RRet (GoLite.VInts (map Z.of_N v)).
Proof. exact (GoLiteC01_Codec.Bytes_is_enc_os GoLiteC01.prog GoLiteC01.prog_Uint24tob GoLiteC01.prog_Uint48tob GoLiteC01.prog_OffsetAndSize_Bytes). Qed.

(* ... it PANICS wherever enc_os is undefined, as long as Size fits 32 bits ... *)
Theorem C01_translated_Bytes_panics_outside_enc_os : forall ext fuel (off size : N), 1 <= fuel -> (size < 2 ^ 32)%N ->
  enc_os off size = None ->
  GoLite.call GoLiteC01.prog ext fuel "OffsetAndSize.Bytes"%string
    [GoLite.VStruct [("Offset"%string, GoLite.VInt (Z.of_N off)); ("Size"%string, GoLite.VInt (Z.of_N size))]]
  = GoLite.RPanic.
Proof. exact (GoLiteC01_Codec.Bytes_panics_outside_enc_os GoLiteC01.prog GoLiteC01.prog_Uint24tob GoLiteC01.prog_Uint48tob GoLiteC01.prog_OffsetAndSize_Bytes). Qed.

(* ... and the exact result for EVERY struct: `uint32(oas.Size)` truncates Size to its low 32 bits BEFORE Uint24tob
   checks the range, so a Size >= 2^32 whose low 32 bits are <= max_u24 is encoded, truncated, WITHOUT a panic (the
   index writer checks IsValid-like bounds before calling Bytes; enc_os models that checked path) *)
Theorem C01_translated_Bytes_exact : forall ext fuel (off size : N), 1 <= fuel ->
  GoLite.call GoLiteC01.prog ext fuel "OffsetAndSize.Bytes"%string
    [GoLite.VStruct [("Offset"%string, GoLite.VInt (Z.of_N off)); ("Size"%string, GoLite.VInt (Z.of_N size))]]
  = if (N.leb off max_u48 && N.leb (size mod 2 ^ 32) max_u24)%bool
    then GoLite.RRet (GoLite.VInts (map Z.of_N (Codec.le_enc 6 off ++ Codec.le_enc 3 (size mod 2 ^ 32))))
    else GoLite.RPanic.
Proof. exact (GoLiteC01_Codec.Bytes_exact GoLiteC01.prog GoLiteC01.prog_Uint24tob GoLiteC01.prog_Uint48tob GoLiteC01.prog_OffsetAndSize_Bytes). Qed.
Example C01_translated_Bytes_truncates_size :
  enc_os 1000000 (2 ^ 32 + 5) = None /\
  GoLite.call GoLiteC01.prog GoLite.no_ext 1 "OffsetAndSize.Bytes"%string
    [GoLite.VStruct [("Offset"%string, GoLite.VInt 1000000%Z); ("Size"%string, GoLite.VInt 4294967301%Z)]]
  = GoLite.RRet (GoLite.VInts [64; 66; 15; 0; 0; 0; 5; 0; 0]%Z).
Proof. vm_compute. split; reflexivity. Qed.

(* offset-and-size.go:(OffsetAndSize).FromBytes IS the model's decoder dec_os: the error (receiver unchanged)
   exactly when the length is not 9, else nil and Offset, Size = what dec_os decodes.  For every receiver and every
   buffer of bytes; result = (error, receiver after the call). *)
Theorem C01_translated_FromBytes_is_dec_os : forall ext fuel (o0 s0 : GoLite.val) (bs : list N), 2 <= fuel ->
  Forall (fun b => (b < 256)%N) bs ->
  GoLite.call GoLiteC01.prog ext fuel "OffsetAndSize.FromBytes"%string
    [GoLite.VStruct [("Offset"%string, o0); ("Size"%string, s0)]; GoLite.VInts (map Z.of_N bs)]
  = GoLite.RRet
      match dec_os bs with
      | Some (off, len) =>
          GoLite.VTuple [GoLite.VNil;
            GoLite.VStruct [("Offset"%string, GoLite.VInt (Z.of_N off)); ("Size"%string, GoLite.VInt (Z.of_N len))]]
      | None =>
          GoLite.VTuple [GoLite.VErr "errors.New"%string;
            GoLite.VStruct [("Offset"%string, o0); ("Size"%string, s0)]]
      end.
Proof. exact (GoLiteC01_Codec.FromBytes_is_dec_os GoLiteC01.prog GoLiteC01.prog_BtoUint24 GoLiteC01.prog_BtoUint48 GoLiteC01.prog_cloneAndPad GoLiteC01.prog_OffsetAndSize_FromBytes). Qed.

(* round trip through the TRANSLATED functions: FromBytes (Bytes x) = x for every valid x (the translated counterpart
   of C01_offset_size_codec_roundtrip) *)
Theorem C01_translated_codec_roundtrip : forall ext f1 f2 (o0 s0 : GoLite.val) (off size : N), 1 <= f1 -> 2 <= f2 ->
  (off <= max_u48)%N -> (size <= max_u24)%N ->
  exists bytes,
    GoLite.call GoLiteC01.prog ext f1 "OffsetAndSize.Bytes"%string
      [GoLite.VStruct [("Offset"%string, GoLite.VInt (Z.of_N off)); ("Size"%string, GoLite.VInt (Z.of_N size))]]
    = GoLite.RRet (GoLite.VInts bytes) /\
    GoLite.call GoLiteC01.prog ext f2 "OffsetAndSize.FromBytes"%string
      [GoLite.VStruct [("Offset"%string, o0); ("Size"%string, s0)]; GoLite.VInts bytes]
    = GoLite.RRet (GoLite.VTuple [GoLite.VNil;
        GoLite.VStruct [("Offset"%string, GoLite.VInt (Z.of_N off)); ("Size"%string, GoLite.VInt (Z.of_N size))]]).
Proof.
  exact (GoLiteC01_Codec.FromBytes_Bytes_roundtrip GoLiteC01.prog GoLiteC01.prog_Uint24tob GoLiteC01.prog_BtoUint24
           GoLiteC01.prog_Uint48tob GoLiteC01.prog_BtoUint48 GoLiteC01.prog_cloneAndPad
           GoLiteC01.prog_OffsetAndSize_Bytes GoLiteC01.prog_OffsetAndSize_FromBytes).
Qed.

(* offset-and-size.go:(OffsetAndSize).IsValid is the range predicate that guards enc_os: true exactly when enc_os
   is defined *)
Theorem C01_translated_IsValid_is_the_enc_os_guard : forall ext fuel (off size : N),
  GoLite.call GoLiteC01.prog ext fuel "OffsetAndSize.IsValid"%string
    [GoLite.VStruct [("Offset"%string, GoLite.VInt (Z.of_N off)); ("Size"%string, GoLite.VInt (Z.of_N size))]]
  = GoLite.RRet (GoLite.VBool (N.leb off max_u48 && N.leb size max_u24)) /\
  (N.leb off max_u48 && N.leb size max_u24)%bool = match enc_os off size with Some _ => true | None => false end.
Proof.
  exact (fun ext fuel off size =>
    conj (GoLiteC01_Codec.IsValid_is_guard GoLiteC01.prog GoLiteC01.prog_OffsetAndSize_IsValid ext fuel off size)
         (GoLiteC01_Codec.guard_is_enc_os_defined off size)).
Qed.

(* non-vacuity: the translated codec RUNS (vm_compute inside the kernel): Bytes of a concrete valid value gives the
   model's nine bytes, FromBytes on them gives the value back, a wrong length gives the error, the bounds are exact *)
Example C01_translated_functions_run :
  let x := GoLite.VStruct [("Offset"%string, GoLite.VInt 123456789012%Z); ("Size"%string, GoLite.VInt 70000%Z)] in
  let z := GoLite.VStruct [("Offset"%string, GoLite.VInt 0%Z); ("Size"%string, GoLite.VInt 0%Z)] in
  enc_os 123456789012 70000 = Some [20; 26; 153; 190; 28; 0; 112; 17; 1]%N /\
  GoLite.call GoLiteC01.prog GoLite.no_ext 1 "OffsetAndSize.Bytes"%string [x]
    = GoLite.RRet (GoLite.VInts [20; 26; 153; 190; 28; 0; 112; 17; 1]%Z) /\
  GoLite.call GoLiteC01.prog GoLite.no_ext 2 "OffsetAndSize.FromBytes"%string
      [z; GoLite.VInts [20; 26; 153; 190; 28; 0; 112; 17; 1]%Z]
    = GoLite.RRet (GoLite.VTuple [GoLite.VNil; x]) /\
  GoLite.call GoLiteC01.prog GoLite.no_ext 2 "OffsetAndSize.FromBytes"%string
      [z; GoLite.VInts [20; 26; 153; 190; 28; 0; 112; 17]%Z]
    = GoLite.RRet (GoLite.VTuple [GoLite.VErr "errors.New"%string; z]) /\
  GoLite.call GoLiteC01.prog GoLite.no_ext 0 "Uint48tob"%string [GoLite.VInt 281474976710655%Z]
    = GoLite.RRet (GoLite.VInts [255; 255; 255; 255; 255; 255]%Z) /\
  GoLite.call GoLiteC01.prog GoLite.no_ext 0 "Uint48tob"%string [GoLite.VInt 281474976710656%Z] = GoLite.RPanic /\
  GoLite.call GoLiteC01.prog GoLite.no_ext 1 "OffsetAndSize.IsValid"%string [x] = GoLite.RRet (GoLite.VBool true).
Proof. vm_compute. repeat split; reflexivity. Qed.

(* ---------- the block-time table's accessors, translated (blocktimeindex/writer.go: Index.Get, Index.Set,
   blocktimeToBytes; Generated/GoLiteBT.v): they ARE the model's bt_get / bt_set (C01_IndexAll), for every table whose
   bounds and length are uint64 values and every slot ---------- *)
Require YF.Generated.GoLiteBT YF.GoLiteBT_Index.

Theorem C01_translated_blocktime_Get_is_bt_get : forall fuel (t : bt) (epoch capacity : Z) (slot : N),
  (bt_start t < 18446744073709551616)%N -> (bt_end t < 18446744073709551616)%N -> (slot < 18446744073709551616)%N ->
  (N.of_nat (List.length (bt_vals t)) < 18446744073709551616)%N ->
  GoLite.call GoLiteBT.prog GoLiteBT_Index.ext_bt fuel "Index.Get"%string
    [GoLiteBT_Index.index_of t epoch capacity; GoLite.VInt (Z.of_N slot)] =
  match bt_get t slot with
  | Some v => GoLite.RRet (GoLite.VTuple [GoLite.VInt (Z.of_N v); GoLite.VNil])
  | None => GoLite.RRet (GoLite.VTuple [GoLite.VInt 0%Z; GoLiteBT_Index.oor])
  end.
Proof. exact (GoLiteBT_Index.Get_is_bt_get GoLiteBT.prog GoLiteBT.prog_Index_Get). Qed.

(* Set stores at slot - start and changes nothing else wherever the value slice reaches (beyond it the code returns the
   out-of-range error and leaves the table unchanged: GoLiteBT_Index.Set_spec) *)
Theorem C01_translated_blocktime_Set_is_bt_set : forall fuel (t : bt) (epoch capacity : Z) (slot time : N),
  (bt_start t < 18446744073709551616)%N -> (bt_end t < 18446744073709551616)%N -> (slot < 18446744073709551616)%N ->
  (N.of_nat (List.length (bt_vals t)) < 18446744073709551616)%N ->
  (slot - bt_start t < N.of_nat (List.length (bt_vals t)))%N ->
  GoLite.call GoLiteBT.prog GoLiteBT_Index.ext_bt fuel "Index.Set"%string
    [GoLiteBT_Index.index_of t epoch capacity; GoLite.VInt (Z.of_N slot); GoLite.VInt (Z.of_N time)] =
  match bt_set t slot time with
  | Some t' => GoLite.RRet (GoLite.VTuple [GoLite.VNil; GoLiteBT_Index.index_of t' epoch capacity])
  | None => GoLite.RRet (GoLite.VTuple [GoLiteBT_Index.oor; GoLiteBT_Index.index_of t epoch capacity])
  end.
Proof. exact (GoLiteBT_Index.Set_is_bt_set GoLiteBT.prog GoLiteBT.prog_Index_Set). Qed.

(* blocktimeToBytes: the 4-byte little-endian image of a time that fits 32 bits, an error otherwise (bt_marshal's guard) *)
Theorem C01_translated_blocktimeToBytes : forall fuel (t : Z),
  GoLite.call GoLiteBT.prog GoLiteBT_Index.ext_bt fuel "blocktimeToBytes"%string [GoLite.VInt t] =
  if ((0 <=? t)%Z && (t <=? 4294967295)%Z)%bool
  then GoLite.RRet (GoLite.VTuple [GoLite.VInts (GoLite.le_bytes 4 t); GoLite.VNil])
  else GoLite.RRet (GoLite.VTuple [GoLite.VInts []; GoLite.VErr "fmt.Errorf"%string]).
Proof. exact (GoLiteBT_Index.blocktimeToBytes_spec GoLiteBT.prog GoLiteBT.prog_blocktimeToBytes). Qed.

(* non-vacuity: the translated accessors RUN: a stored time is read back, a slot past the slice is the error (no panic) *)
Example C01_translated_blocktime_runs :
  let t := {| bt_start := 432000; bt_end := 863999; bt_vals := [0; 0; 0]%N |} in
  let i0 := GoLiteBT_Index.index_of t 1 3 in
  let i1 := GoLiteBT_Index.index_of {| bt_start := 432000; bt_end := 863999; bt_vals := [0; 1700000000; 0]%N |} 1 3 in
  GoLite.call GoLiteBT.prog GoLiteBT_Index.ext_bt 0 "Index.Set"%string [i0; GoLite.VInt 432001%Z; GoLite.VInt 1700000000%Z]
    = GoLite.RRet (GoLite.VTuple [GoLite.VNil; i1]) /\
  GoLite.call GoLiteBT.prog GoLiteBT_Index.ext_bt 0 "Index.Get"%string [i1; GoLite.VInt 432001%Z]
    = GoLite.RRet (GoLite.VTuple [GoLite.VInt 1700000000%Z; GoLite.VNil]) /\
  GoLite.call GoLiteBT.prog GoLiteBT_Index.ext_bt 0 "Index.Get"%string [i1; GoLite.VInt 432003%Z]
    = GoLite.RRet (GoLite.VTuple [GoLite.VInt 0%Z; GoLiteBT_Index.oor]) /\
  GoLite.call GoLiteBT.prog GoLiteBT_Index.ext_bt 0 "blocktimeToBytes"%string [GoLite.VInt 1700000000%Z]
    = GoLite.RRet (GoLite.VTuple [GoLite.VInts [0; 241; 83; 101]%Z; GoLite.VNil]).
Proof. vm_compute. repeat split; reflexivity. Qed.

Print Assumptions C01_translated_uint_encoders_are_le_enc.
Print Assumptions C01_translated_uint_encoders_panic_out_of_range.
Print Assumptions C01_translated_uint_decoders_are_le_dec.
Print Assumptions C01_translated_uint_decoders_read_whole_words.
Print Assumptions C01_translated_uint_decoders_panic_on_short_buffers.
Print Assumptions C01_translated_Bytes_is_enc_os.
Print Assumptions C01_translated_Bytes_panics_outside_enc_os.
Print Assumptions C01_translated_Bytes_exact.
Print Assumptions C01_translated_FromBytes_is_dec_os.
Print Assumptions C01_translated_codec_roundtrip.
Print Assumptions C01_translated_IsValid_is_the_enc_os_guard.
Print Assumptions C01_translated_blocktime_Get_is_bt_get.
Print Assumptions C01_translated_blocktime_Set_is_bt_set.
Print Assumptions C01_translated_blocktimeToBytes.
