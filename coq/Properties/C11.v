(* C11 — Fast IPLD node decoders agree with the schema-driven reference decoder.
   Only statements, `exact`, non-vacuity examples and Print Assumptions live here.

   Reading guide (definitions in C11_Nodes.v):
     item, encode, parse            CBOR data items and their canonical encoding / parser (Cbor.v)
     repr_K : K -> item             the schema's tuple representation of a typed value (what bindnode + dag-cbor
                                    writes): ints, `nullable optional` fields (Absent | Null | Present; a trailing
                                    Absent field is omitted), links as tag 42 around 0x00 ++ CID bytes
     fast_decode_K cid_len guarded  iplddecoders._Decode<K>Fast = K.UnmarshalCBOR of ipld/ipldbindcode/cbor.go
                                    followed by the kind check, transcribed with Ok | Err | Panic outcomes;
                                    fast_decode_bytes_K = the same on bytes (first data item of the input)
     cid_len                        go-cid's CidFromBytes (None = error, Some n = a CID in the first n bytes);
                                    every theorem holds for an arbitrary cid_len
     guarded                        which assertion sites return an error instead of panicking (C12); the C11
                                    theorems hold for every setting (pinned and repaired code alike)
     observe_K                      the exported fields seen through the Get.. / Has.. accessors (present-null and
                                    omitted are the same observation)
     conforming_K                   schema-conforming values; spelled out in full by the C11_conforming_*_means
                                    theorems below. It contains ONE hypothesis that the schema does not have and
                                    that the CBOR library forces: every list has at most [max_array_elements]
                                    elements (generated from the repository / the pinned fxamacker/cbor version).
                                    C11_list_bound_is_forced shows the fast decoder does reject longer lists. *)
From Coq Require Import List Arith NArith ZArith.
Import ListNotations.
Require Import YF.Cbor YF.C11_Nodes YF.C11_Proofs YF.Generated.ConstsC11.
(* the checker evaluated on the harness's case files (kept in this file's dependency closure so that it is rebuilt
   together with the theorems whenever a generated constant changes) *)
Require YF.C11_Check.

(* ---------- what "conforming" means, in full ---------- *)
Theorem C11_conforming_dataframe_means : forall (cid_len : list N -> option nat) (d : DataFrame),
  conforming_dataframe cid_len d <->
  df_kind d = kind_dataframe /\
  match df_hash d with Present z => (-9223372036854775808 <= z < 9223372036854775808)%Z | _ => True end /\
  match df_index d with Present z => (-9223372036854775808 <= z < 9223372036854775808)%Z | _ => True end /\
  match df_total d with Present z => (-9223372036854775808 <= z < 9223372036854775808)%Z | _ => True end /\
  (N.of_nat (length (df_data d)) < 9223372036854775808)%N /\
  match df_next d with
  | Present l => (N.of_nat (length l) <= max_array_elements)%N /\
                 Forall (fun c => cid_len c = Some (length c) /\ (N.of_nat (length c) < 9223372036854775808 - 1)%N) l
  | _ => True
  end.
Proof. exact (fun _ _ => conj (fun H => H) (fun H => H)). Qed.

Theorem C11_conforming_transaction_means : forall (cid_len : list N -> option nat) (t : Transaction),
  conforming_transaction cid_len t <->
  tx_kind t = kind_transaction /\ conforming_dataframe cid_len (tx_data t) /\ conforming_dataframe cid_len (tx_metadata t) /\
  (-9223372036854775808 <= tx_slot t < 9223372036854775808)%Z /\
  match tx_index t with Present z => (-9223372036854775808 <= z < 9223372036854775808)%Z | _ => True end.
Proof. exact (fun _ _ => conj (fun H => H) (fun H => H)). Qed.

Theorem C11_conforming_entry_means : forall (cid_len : list N -> option nat) (e : Entry),
  conforming_entry cid_len e <->
  en_kind e = kind_entry /\ (-9223372036854775808 <= en_num_hashes e < 9223372036854775808)%Z /\
  (N.of_nat (length (en_hash e)) < 9223372036854775808)%N /\
  ((N.of_nat (length (en_transactions e)) <= max_array_elements)%N /\
   Forall (fun c => cid_len c = Some (length c) /\ (N.of_nat (length c) < 9223372036854775808 - 1)%N) (en_transactions e)).
Proof. exact (fun _ _ => conj (fun H => H) (fun H => H)). Qed.

Theorem C11_conforming_block_means : forall (cid_len : list N -> option nat) (b : Block),
  conforming_block cid_len b <->
  bl_kind b = kind_block /\ (-9223372036854775808 <= bl_slot b < 9223372036854775808)%Z /\
  (N.of_nat (length (bl_shredding b)) <= max_array_elements)%N /\
  Forall (fun s => (-9223372036854775808 <= sh_entry_end_idx s < 9223372036854775808)%Z /\
                   (-9223372036854775808 <= sh_shred_end_idx s < 9223372036854775808)%Z) (bl_shredding b) /\
  ((N.of_nat (length (bl_entries b)) <= max_array_elements)%N /\
   Forall (fun c => cid_len c = Some (length c) /\ (N.of_nat (length c) < 9223372036854775808 - 1)%N) (bl_entries b)) /\
  ((-9223372036854775808 <= sm_parent_slot (bl_meta b) < 9223372036854775808)%Z /\
   (-9223372036854775808 <= sm_blocktime (bl_meta b) < 9223372036854775808)%Z /\
   match sm_block_height (bl_meta b) with Present z => (-9223372036854775808 <= z < 9223372036854775808)%Z | _ => True end) /\
  (cid_len (bl_rewards b) = Some (length (bl_rewards b)) /\ (N.of_nat (length (bl_rewards b)) < 9223372036854775808 - 1)%N).
Proof. exact (fun _ _ => conj (fun H => H) (fun H => H)). Qed.

Theorem C11_conforming_subset_means : forall (cid_len : list N -> option nat) (s : Subset),
  conforming_subset cid_len s <->
  su_kind s = kind_subset /\ (-9223372036854775808 <= su_first s < 9223372036854775808)%Z /\
  (-9223372036854775808 <= su_last s < 9223372036854775808)%Z /\
  ((N.of_nat (length (su_blocks s)) <= max_array_elements)%N /\
   Forall (fun c => cid_len c = Some (length c) /\ (N.of_nat (length c) < 9223372036854775808 - 1)%N) (su_blocks s)).
Proof. exact (fun _ _ => conj (fun H => H) (fun H => H)). Qed.

Theorem C11_conforming_epoch_means : forall (cid_len : list N -> option nat) (e : Epoch),
  conforming_epoch cid_len e <->
  ep_kind e = kind_epoch /\ (-9223372036854775808 <= ep_epoch e < 9223372036854775808)%Z /\
  ((N.of_nat (length (ep_subsets e)) <= max_array_elements)%N /\
   Forall (fun c => cid_len c = Some (length c) /\ (N.of_nat (length c) < 9223372036854775808 - 1)%N) (ep_subsets e)).
Proof. exact (fun _ _ => conj (fun H => H) (fun H => H)). Qed.

Theorem C11_conforming_rewards_means : forall (cid_len : list N -> option nat) (r : Rewards),
  conforming_rewards cid_len r <->
  rw_kind r = kind_rewards /\ (-9223372036854775808 <= rw_slot r < 9223372036854775808)%Z /\
  conforming_dataframe cid_len (rw_data r).
Proof. exact (fun _ _ => conj (fun H => H) (fun H => H)). Qed.

(* the kind numbers: the check after decode (iplddecoders) and the check inside UnmarshalCBOR agree, and the seven differ *)
Theorem C11_kind_numbers : 
  kind_transaction = ukind_transaction /\ kind_entry = ukind_entry /\ kind_block = ukind_block /\ kind_subset = ukind_subset /\
  kind_epoch = ukind_epoch /\ kind_rewards = ukind_rewards /\ kind_dataframe = ukind_dataframe /\
  NoDup [kind_transaction; kind_entry; kind_block; kind_subset; kind_epoch; kind_rewards; kind_dataframe].
Proof. exact kind_numbers_ok. Qed.

(* ---------- (a) agreement on conforming values: the fast decoder accepts the schema representation and what it
   stores is observed, through fields and accessors, exactly as the typed value ---------- *)
Theorem C11_agree_transaction : forall (cid_len : list N -> option nat) (guarded : N -> bool) (v : Transaction),
  conforming_transaction cid_len v ->
  exists v', fast_decode_transaction cid_len guarded (repr_transaction v) = Ok v' /\ observe_transaction v' = observe_transaction v.
Proof. exact agree_obs_transaction. Qed.
Theorem C11_agree_entry : forall (cid_len : list N -> option nat) (guarded : N -> bool) (v : Entry),
  conforming_entry cid_len v ->
  exists v', fast_decode_entry cid_len guarded (repr_entry v) = Ok v' /\ observe_entry v' = observe_entry v.
Proof. exact agree_obs_entry. Qed.
Theorem C11_agree_block : forall (cid_len : list N -> option nat) (guarded : N -> bool) (v : Block),
  conforming_block cid_len v ->
  exists v', fast_decode_block cid_len guarded (repr_block v) = Ok v' /\ observe_block v' = observe_block v.
Proof. exact agree_obs_block. Qed.
Theorem C11_agree_subset : forall (cid_len : list N -> option nat) (guarded : N -> bool) (v : Subset),
  conforming_subset cid_len v ->
  exists v', fast_decode_subset cid_len guarded (repr_subset v) = Ok v' /\ observe_subset v' = observe_subset v.
Proof. exact agree_obs_subset. Qed.
Theorem C11_agree_epoch : forall (cid_len : list N -> option nat) (guarded : N -> bool) (v : Epoch),
  conforming_epoch cid_len v ->
  exists v', fast_decode_epoch cid_len guarded (repr_epoch v) = Ok v' /\ observe_epoch v' = observe_epoch v.
Proof. exact agree_obs_epoch. Qed.
Theorem C11_agree_rewards : forall (cid_len : list N -> option nat) (guarded : N -> bool) (v : Rewards),
  conforming_rewards cid_len v ->
  exists v', fast_decode_rewards cid_len guarded (repr_rewards v) = Ok v' /\ observe_rewards v' = observe_rewards v.
Proof. exact agree_obs_rewards. Qed.
Theorem C11_agree_dataframe : forall (cid_len : list N -> option nat) (guarded : N -> bool) (v : DataFrame),
  conforming_dataframe cid_len v ->
  exists v', fast_decode_dataframe cid_len guarded (repr_dataframe v) = Ok v' /\ observe_dataframe v' = observe_dataframe v.
Proof. exact agree_obs_dataframe. Qed.

(* ---------- (b) the same through bytes: encode the representation canonically (whatever follows it), decode ---------- *)
Theorem C11_bytes_transaction : forall (cid_len : list N -> option nat) (guarded : N -> bool) (v : Transaction) (tail : list N),
  conforming_transaction cid_len v ->
  exists v', fast_decode_bytes_transaction cid_len guarded (encode (repr_transaction v) ++ tail) = Ok v' /\ observe_transaction v' = observe_transaction v.
Proof. exact bytes_obs_transaction. Qed.
Theorem C11_bytes_entry : forall (cid_len : list N -> option nat) (guarded : N -> bool) (v : Entry) (tail : list N),
  conforming_entry cid_len v ->
  exists v', fast_decode_bytes_entry cid_len guarded (encode (repr_entry v) ++ tail) = Ok v' /\ observe_entry v' = observe_entry v.
Proof. exact bytes_obs_entry. Qed.
Theorem C11_bytes_block : forall (cid_len : list N -> option nat) (guarded : N -> bool) (v : Block) (tail : list N),
  conforming_block cid_len v ->
  exists v', fast_decode_bytes_block cid_len guarded (encode (repr_block v) ++ tail) = Ok v' /\ observe_block v' = observe_block v.
Proof. exact bytes_obs_block. Qed.
Theorem C11_bytes_subset : forall (cid_len : list N -> option nat) (guarded : N -> bool) (v : Subset) (tail : list N),
  conforming_subset cid_len v ->
  exists v', fast_decode_bytes_subset cid_len guarded (encode (repr_subset v) ++ tail) = Ok v' /\ observe_subset v' = observe_subset v.
Proof. exact bytes_obs_subset. Qed.
Theorem C11_bytes_epoch : forall (cid_len : list N -> option nat) (guarded : N -> bool) (v : Epoch) (tail : list N),
  conforming_epoch cid_len v ->
  exists v', fast_decode_bytes_epoch cid_len guarded (encode (repr_epoch v) ++ tail) = Ok v' /\ observe_epoch v' = observe_epoch v.
Proof. exact bytes_obs_epoch. Qed.
Theorem C11_bytes_rewards : forall (cid_len : list N -> option nat) (guarded : N -> bool) (v : Rewards) (tail : list N),
  conforming_rewards cid_len v ->
  exists v', fast_decode_bytes_rewards cid_len guarded (encode (repr_rewards v) ++ tail) = Ok v' /\ observe_rewards v' = observe_rewards v.
Proof. exact bytes_obs_rewards. Qed.
Theorem C11_bytes_dataframe : forall (cid_len : list N -> option nat) (guarded : N -> bool) (v : DataFrame) (tail : list N),
  conforming_dataframe cid_len v ->
  exists v', fast_decode_bytes_dataframe cid_len guarded (encode (repr_dataframe v) ++ tail) = Ok v' /\ observe_dataframe v' = observe_dataframe v.
Proof. exact bytes_obs_dataframe. Qed.

(* all seven behind iplddecoders.Decode<Kind>, asked for the node's own kind *)
Theorem C11_bytes_node : forall (cid_len : list N -> option nat) (guarded : N -> bool) (n : node) (tail : list N),
  conforming_node cid_len n ->
  exists n', fast_decode_bytes cid_len guarded (kind_of n) (encode (repr_node n) ++ tail) = Ok n' /\ observe_node n' = observe_node n.
Proof. exact bytes_obs_node. Qed.

(* ---------- (c) a node of one kind is never accepted as another kind ---------- *)
Theorem C11_kind_exclusive : forall (cid_len : list N -> option nat) (guarded : N -> bool) (n : node) (k : Z),
  conforming_node cid_len n -> k <> kind_of n ->
  exists e, fast_decode cid_len guarded k (repr_node n) = Err e.
Proof. exact kind_exclusive. Qed.

Theorem C11_kind_exclusive_bytes : forall (cid_len : list N -> option nat) (guarded : N -> bool) (n : node) (k : Z) (tail : list N),
  conforming_node cid_len n -> k <> kind_of n ->
  exists e, fast_decode_bytes cid_len guarded k (encode (repr_node n) ++ tail) = Err e.
Proof. exact kind_exclusive_bytes. Qed.

(* and for ARBITRARY items (conforming or not): whatever a decoder accepts carries the kind number asked for *)
Theorem C11_accepted_kind_transaction : forall (cid_len : list N -> option nat) (guarded : N -> bool) (i : item) (v : Transaction),
  fast_decode_transaction cid_len guarded i = Ok v -> tx_kind v = kind_transaction.
Proof. exact accepted_kind_transaction. Qed.
Theorem C11_accepted_kind_entry : forall (cid_len : list N -> option nat) (guarded : N -> bool) (i : item) (v : Entry),
  fast_decode_entry cid_len guarded i = Ok v -> en_kind v = kind_entry.
Proof. exact accepted_kind_entry. Qed.
Theorem C11_accepted_kind_block : forall (cid_len : list N -> option nat) (guarded : N -> bool) (i : item) (v : Block),
  fast_decode_block cid_len guarded i = Ok v -> bl_kind v = kind_block.
Proof. exact accepted_kind_block. Qed.
Theorem C11_accepted_kind_subset : forall (cid_len : list N -> option nat) (guarded : N -> bool) (i : item) (v : Subset),
  fast_decode_subset cid_len guarded i = Ok v -> su_kind v = kind_subset.
Proof. exact accepted_kind_subset. Qed.
Theorem C11_accepted_kind_epoch : forall (cid_len : list N -> option nat) (guarded : N -> bool) (i : item) (v : Epoch),
  fast_decode_epoch cid_len guarded i = Ok v -> ep_kind v = kind_epoch.
Proof. exact accepted_kind_epoch. Qed.
Theorem C11_accepted_kind_rewards : forall (cid_len : list N -> option nat) (guarded : N -> bool) (i : item) (v : Rewards),
  fast_decode_rewards cid_len guarded i = Ok v -> rw_kind v = kind_rewards.
Proof. exact accepted_kind_rewards. Qed.
Theorem C11_accepted_kind_dataframe : forall (cid_len : list N -> option nat) (guarded : N -> bool) (i : item) (v : DataFrame),
  fast_decode_dataframe cid_len guarded i = Ok v -> df_kind v = kind_dataframe.
Proof. exact accepted_kind_dataframe. Qed.

(* ---------- (d) the CBOR layer: parse inverts encode for every well-formed nested item, with the fuel the
   byte-level decoders use ---------- *)
Theorem C11_parse_encode : forall (i : item) (tail : list N), wf i -> parse_bytes (encode i ++ tail) = Some (i, tail).
Proof. exact parse_bytes_encode. Qed.

(* ---------- the forced hypothesis is really forced: an Entry with more than max_array_elements transaction
   links is schema-conforming, yet the fast decoder answers with a library error ---------- *)
Theorem C11_list_bound_is_forced : forall (cid_len : list N -> option nat) (guarded : N -> bool) (e : Entry),
  (max_array_elements < N.of_nat (length (en_transactions e)))%N ->
  fast_decode_entry cid_len guarded (repr_entry e) = Err ELib.
Proof. exact long_list_rejected. Qed.

(* conformance is decidable: the checker run on the harness's cases evaluates this on every generated value *)
Theorem C11_conformance_decidable : forall (cid_len : list N -> option nat) (n : node),
  conformingb_node cid_len n = true -> conforming_node cid_len n.
Proof. exact conformingb_node_sound. Qed.

(* ---------- non-vacuity: concrete values (negative and large integers, present / null / omitted optional
   fields, multi-frame links, an empty byte string) meet the hypotheses with the executable CID parser, and the
   pinned-model decoder (no site guarded) returns them from their canonical bytes ---------- *)
Definition ex_cid (b : N) : link := [1; 113; 18; 32]%N ++ repeat b 32.
Definition ex_frame1 : DataFrame :=
  mkDataFrame 6 (Present (-1)%Z) Null (Present 9223372036854775807%Z) [1; 2; 3]%N (Present [ex_cid 7; ex_cid 9]).
Definition ex_frame2 : DataFrame := mkDataFrame 6 Null Null Null [] Absent.
Definition ex_tx : Transaction := mkTransaction 0 ex_frame1 ex_frame2 (-12)%Z Null.
Definition ex_block : Block :=
  mkBlock 2 4242 [mkShredding (-1) 5; mkShredding 3 (-9223372036854775808)] [ex_cid 1; ex_cid 2; ex_cid 3]
          (mkSlotMeta 4241 (-4) Absent) (ex_cid 8).

Example C11_nonvacuous_transaction :
  conforming_transaction cid_len_impl ex_tx /\
  fast_decode_bytes_transaction cid_len_impl none_guarded (encode (repr_transaction ex_tx)) = Ok (canon_transaction ex_tx) /\
  canon_transaction ex_tx <> ex_tx /\ observe_transaction (canon_transaction ex_tx) = observe_transaction ex_tx.
Proof.
  split; [apply conformingb_transaction_sound; vm_compute; reflexivity|].
  split; [vm_compute; reflexivity|]. split; [discriminate|vm_compute; reflexivity].
Qed.
Example C11_nonvacuous_block :
  conforming_block cid_len_impl ex_block /\
  fast_decode_bytes_block cid_len_impl none_guarded (encode (repr_block ex_block)) = Ok (canon_block ex_block) /\
  (exists e, fast_decode_bytes cid_len_impl none_guarded kind_entry (encode (repr_block ex_block)) = Err e).
Proof.
  split; [apply conformingb_block_sound; vm_compute; reflexivity|].
  split; [vm_compute; reflexivity|]. eexists. vm_compute. reflexivity.
Qed.

Print Assumptions C11_conforming_dataframe_means.
Print Assumptions C11_conforming_block_means.
Print Assumptions C11_kind_numbers.
Print Assumptions C11_agree_transaction.
Print Assumptions C11_agree_entry.
Print Assumptions C11_agree_block.
Print Assumptions C11_agree_subset.
Print Assumptions C11_agree_epoch.
Print Assumptions C11_agree_rewards.
Print Assumptions C11_agree_dataframe.
Print Assumptions C11_bytes_transaction.
Print Assumptions C11_bytes_entry.
Print Assumptions C11_bytes_block.
Print Assumptions C11_bytes_subset.
Print Assumptions C11_bytes_epoch.
Print Assumptions C11_bytes_rewards.
Print Assumptions C11_bytes_dataframe.
Print Assumptions C11_bytes_node.
Print Assumptions C11_kind_exclusive.
Print Assumptions C11_kind_exclusive_bytes.
Print Assumptions C11_accepted_kind_transaction.
Print Assumptions C11_accepted_kind_entry.
Print Assumptions C11_accepted_kind_block.
Print Assumptions C11_accepted_kind_subset.
Print Assumptions C11_accepted_kind_epoch.
Print Assumptions C11_accepted_kind_rewards.
Print Assumptions C11_accepted_kind_dataframe.
Print Assumptions C11_parse_encode.
Print Assumptions C11_list_bound_is_forced.
Print Assumptions C11_conformance_decidable.
Print Assumptions C11_nonvacuous_transaction.
Print Assumptions C11_nonvacuous_block.
