(* C03 — A request is never answered with an object that belongs to a different key.
   Only statements, `exact`, examples and Print Assumptions.

   The compact indexes may answer an ABSENT key with a stored value (24-bit in-bucket hash collision), so in
   these statements the three index lookups [slot_ix], [sig_ix], [cid_ix] are ARBITRARY functions, the CAR
   [file] is an arbitrary byte string and the decoders are arbitrary: nothing is assumed about them. *)
From Coq Require Import List NArith.
Import ListNotations.
Require Import YF.Codec YF.ReadAt YF.Car YF.C03_Lookup.

(* getBlock: whatever the indexes return, an answer carries the requested slot *)
Theorem C03_block_answer_has_requested_slot :
  forall cid_parse slot_ix cid_ix file dec_block_slot slot s d,
  get_block cid_parse slot_ix cid_ix file dec_block_slot true slot = Ok (s, d) -> s = slot.
Proof. exact block_key_confirmed. Qed.

(* ... hence a slot with no block in the archive (no fetchable block decodes to it) is never answered with a block *)
Theorem C03_absent_slot_never_answered :
  forall cid_parse slot_ix cid_ix file dec_block_slot slot,
  (forall c d, get_node_by_cid cid_parse cid_ix file c = Ok d -> dec_block_slot d <> Some slot) ->
  forall r, get_block cid_parse slot_ix cid_ix file dec_block_slot true slot <> Ok r.
Proof. exact block_absent_never_answered. Qed.

(* getTransaction: an answer carries the requested signature as its first signature *)
Theorem C03_transaction_answer_has_requested_signature :
  forall cid_parse sig_ix cid_ix file dec_tx_sig sg s d,
  get_transaction cid_parse sig_ix cid_ix file dec_tx_sig true sg = Ok (s, d) -> s = sg.
Proof. exact tx_key_confirmed. Qed.

Theorem C03_absent_signature_never_answered :
  forall cid_parse sig_ix cid_ix file dec_tx_sig sg,
  (forall c d, get_node_by_cid cid_parse cid_ix file c = Ok d -> dec_tx_sig d <> Some sg) ->
  forall r, get_transaction cid_parse sig_ix cid_ix file dec_tx_sig true sg <> Ok r.
Proof. exact tx_absent_never_answered. Qed.

(* fetching by CID never returns bytes stored under a different CID: the bytes returned are the payload of a
   section (read at whatever offset the index gave, from whatever CAR is configured) whose CID field parses to
   exactly the requested CID *)
Theorem C03_cid_fetch_returns_only_that_cids_bytes :
  forall cid_parse cid_ix file c d,
  get_node_by_cid cid_parse cid_ix file c = Ok d ->
  exists off len sec n clen,
    cid_ix c = Some (off, len) /\ read_at file off len = Some sec /\
    (exists x, uvarint_dec sec = Some (x, n)) /\
    cid_parse (skipn n sec) = Some (c, clen) /\ d = skipn clen (skipn n sec).
Proof. exact cid_fetch_is_stored_under_that_cid. Qed.

(* the comparison is necessary: without it (the pinned tree before the repair) a collision answers slot 7 with
   the block of slot 5 *)
Theorem C03_without_key_confirmation_refuted :
  exists cid_parse slot_ix cid_ix file dec slot s d,
    get_block cid_parse slot_ix cid_ix file dec false slot = Ok (s, d) /\ s <> slot.
Proof. exact block_unchecked_refuted. Qed.

(* non-vacuity: the model does answer a present key, and answers NotFound on a collision *)
Example C03_nonvacuous : one_block 5 5 = OAnswered /\ one_block 7 5 = ONotFound.
Proof. split; vm_compute; reflexivity. Qed.

(* Not proved here (stated openly): getSignaturesForAddress cannot confirm the address — the address index
   stores no key and the records carry no address — see known-findings.txt (gsfa-address-collision). *)
Definition C03_gsfa_full_statement : Prop :=
  forall (head_ix : list N -> option N) (mentions : N -> list N -> bool) (addr : list N) (rec : N),
    head_ix addr = Some rec -> mentions rec addr = true.

Print Assumptions C03_block_answer_has_requested_slot.
Print Assumptions C03_absent_slot_never_answered.
Print Assumptions C03_transaction_answer_has_requested_signature.
Print Assumptions C03_absent_signature_never_answered.
Print Assumptions C03_cid_fetch_returns_only_that_cids_bytes.
Print Assumptions C03_without_key_confirmation_refuted.
