(* C03 — A request is never answered with an object that belongs to a different key.
   Only statements, `exact`, examples and Print Assumptions.

   The compact indexes may answer an ABSENT key with a stored value (24-bit in-bucket hash collision), so in
   these statements the three index lookups [slot_ix], [sig_ix], [cid_ix] are ARBITRARY functions, the CAR
   [file] is an arbitrary byte string and the decoders are arbitrary: nothing is assumed about them. *)
From Coq Require Import List NArith.
Import ListNotations.
Require Import YF.Codec YF.ReadAt YF.Car YF.C03_Lookup.

(* getBlock: whatever the indexes return, an answer carries the requested slot *)
Theorem C03_block_answer_has_requested_slot :
  forall cid_parse slot_ix cid_ix file dec_block_slot slot s d,
  get_block cid_parse slot_ix cid_ix file dec_block_slot true slot = Ok (s, d) -> s = slot.
Proof. exact block_key_confirmed. Qed.

(* ... hence a slot with no block in the archive (no fetchable block decodes to it) is never answered with a block *)
Theorem C03_absent_slot_never_answered :
  forall cid_parse slot_ix cid_ix file dec_block_slot slot,
  (forall c d, get_node_by_cid cid_parse cid_ix file c = Ok d -> dec_block_slot d <> Some slot) ->
  forall r, get_block cid_parse slot_ix cid_ix file dec_block_slot true slot <> Ok r.
Proof. exact block_absent_never_answered. Qed.

(* getTransaction: an answer carries the requested signature as its first signature *)
Theorem C03_transaction_answer_has_requested_signature :
  forall cid_parse sig_ix cid_ix file dec_tx_sig sg s d,
  get_transaction cid_parse sig_ix cid_ix file dec_tx_sig true sg = Ok (s, d) -> s = sg.
Proof. exact tx_key_confirmed. Qed.

Theorem C03_absent_signature_never_answered :
  forall cid_parse sig_ix cid_ix file dec_tx_sig sg,
  (forall c d, get_node_by_cid cid_parse cid_ix file c = Ok d -> dec_tx_sig d <> Some sg) ->
  forall r, get_transaction cid_parse sig_ix cid_ix file dec_tx_sig true sg <> Ok r.
Proof. exact tx_absent_never_answered. Qed.

(* fetching by CID never returns bytes stored under a different CID: the bytes returned are the payload of a
   section (read at whatever offset the index gave, from whatever CAR is configured) whose CID field parses to
   exactly the requested CID *)
Theorem C03_cid_fetch_returns_only_that_cids_bytes :
  forall cid_parse cid_ix file c d,
  get_node_by_cid cid_parse cid_ix file c = Ok d ->
  exists off len sec n clen,
    cid_ix c = Some (off, len) /\ read_at file off len = Some sec /\
    (exists x, uvarint_dec sec = Some (x, n)) /\
    cid_parse (skipn n sec) = Some (c, clen) /\ d = skipn clen (skipn n sec).
Proof. exact cid_fetch_is_stored_under_that_cid. Qed.

(* the comparison is necessary: without it (the pinned tree before the repair) a collision answers slot 7 with
   the block of slot 5 *)
Theorem C03_without_key_confirmation_refuted :
  exists cid_parse slot_ix cid_ix file dec slot s d,
    get_block cid_parse slot_ix cid_ix file dec false slot = Ok (s, d) /\ s <> slot.
Proof. exact block_unchecked_refuted. Qed.

(* non-vacuity: the model does answer a present key, and answers NotFound on a collision *)
Example C03_nonvacuous : one_block 5 5 = OAnswered /\ one_block 7 5 = ONotFound.
Proof. split; vm_compute; reflexivity. Qed.

(* Not proved here (stated openly): getSignaturesForAddress cannot confirm the address — the address index
   stores no key and the records carry no address — see known-findings.txt (gsfa-address-collision). *)
Definition C03_gsfa_full_statement : Prop :=
  forall (head_ix : list N -> option N) (mentions : N -> list N -> bool) (addr : list N) (rec : N),
    head_ix addr = Some rec -> mentions rec addr = true.

Print Assumptions C03_block_answer_has_requested_slot.
Print Assumptions C03_absent_slot_never_answered.
Print Assumptions C03_transaction_answer_has_requested_signature.
Print Assumptions C03_absent_signature_never_answered.
Print Assumptions C03_cid_fetch_returns_only_that_cids_bytes.
Print Assumptions C03_without_key_confirmation_refuted.

(* ================= THE CODE ITSELF: parseNodeFromSection (epoch.go) — the CID-checked extraction of an object from
   a CAR section, the last step of every fetch by CID on the local-file and on the ReaderAt path — translated from the
   Go source on every check (Generated/GoLiteC03.v; DESIGN.md section 10a) with encoding/binary.Uvarint, go-cid's
   CidFromReader and Cid.Equals as oracles (Codec.uvarint_dec, cid_parse, byte equality):
   - under go-car's section-size limit it IS Car.parse_node — the function get_node_by_cid above is made of;
   - a success means the CID stored in the section is the wanted one (never the bytes of another CID);
   - with a nil CID (the address-index fetcher) nothing is compared: the bytes after whatever CID is there. *)
Require YF.GoLite YF.Generated.GoLiteC03 YF.GoLiteC03_Parse.
Import ZArith String.

Theorem C03_translated_parseNodeFromSection_is_parse_node :
  forall (cid_parse : list N -> option (list N * nat)),
  (forall r c k, cid_parse r = Some (c, k) -> k <= List.length r) ->
  forall fuel (sec wanted : list N),
  (Z.of_nat (List.length sec) < 4611686018427387904)%Z ->
  (forall l n, uvarint_dec sec = Some (l, n) -> (l <= 33554432)%N) ->
  match parse_node cid_parse sec wanted with
  | Some d => GoLite.call GoLiteC03.prog (GoLiteC03_Parse.ext_car cid_parse) fuel "parseNodeFromSection"%string
                [GoLite.VInts (map Z.of_N sec); GoLiteC03_Parse.cidv wanted]
              = GoLite.RRet (GoLite.VTuple [GoLite.VInts (map Z.of_N d); GoLite.VNil])
  | None => exists e, GoLite.call GoLiteC03.prog (GoLiteC03_Parse.ext_car cid_parse) fuel "parseNodeFromSection"%string
                [GoLite.VInts (map Z.of_N sec); GoLiteC03_Parse.cidv wanted]
              = GoLite.RRet (GoLite.VTuple [GoLite.VInts []; GoLite.VErr e])
  end.
Proof. exact (fun cp H => GoLiteC03_Parse.parse_is_parse_node_car GoLiteC03.prog GoLiteC03.prog_parseNodeFromSection cp H). Qed.

Theorem C03_translated_parseNodeFromSection_success_means_same_cid :
  forall (cid_parse : list N -> option (list N * nat)),
  (forall r c k, cid_parse r = Some (c, k) -> k <= List.length r) ->
  forall fuel (sec wanted : list N) out,
  (Z.of_nat (List.length sec) < 4611686018427387904)%Z ->
  GoLite.call GoLiteC03.prog (GoLiteC03_Parse.ext_car cid_parse) fuel "parseNodeFromSection"%string
    [GoLite.VInts (map Z.of_N sec); GoLiteC03_Parse.cidv wanted] = GoLite.RRet (GoLite.VTuple [GoLite.VInts out; GoLite.VNil]) ->
  exists l n k, uvarint_dec sec = Some (l, n) /\ cid_parse (skipn n sec) = Some (wanted, k) /\
                out = map Z.of_N (skipn k (skipn n sec)).
Proof. exact (fun cp H => GoLiteC03_Parse.parse_success_means_same_cid_car GoLiteC03.prog GoLiteC03.prog_parseNodeFromSection cp H). Qed.

Theorem C03_translated_parseNodeFromSection_nil_cid_compares_nothing :
  forall (cid_parse : list N -> option (list N * nat)),
  (forall r c k, cid_parse r = Some (c, k) -> k <= List.length r) ->
  forall fuel (sec : list N),
  (Z.of_nat (List.length sec) < 4611686018427387904)%Z ->
  GoLite.call GoLiteC03.prog (GoLiteC03_Parse.ext_car cid_parse) fuel "parseNodeFromSection"%string
    [GoLite.VInts (map Z.of_N sec); GoLite.VNil] =
  match uvarint_dec sec with
  | None => GoLite.RRet (GoLite.VTuple [GoLite.VInts []; GoLite.VErr "fmt.Errorf"%string])
  | Some (l, n) =>
      if (33554432 <? l)%N then GoLite.RRet (GoLite.VTuple [GoLite.VInts []; GoLite.VErr "errors.New"%string])
      else match cid_parse (skipn n sec) with
           | None => GoLite.RRet (GoLite.VTuple [GoLite.VInts []; GoLite.VErr "%w cid"%string])
           | Some (c, k) => GoLite.RRet (GoLite.VTuple [GoLite.VInts (map Z.of_N (skipn k (skipn n sec))); GoLite.VNil])
           end
  end.
Proof. exact (fun cp H => GoLiteC03_Parse.parse_without_wanted_car GoLiteC03.prog GoLiteC03.prog_parseNodeFromSection cp H). Qed.

(* the translated function RUNS (CIDs of 2 bytes for the example): right CID -> the data; another CID -> an error *)
Example C03_translated_parseNodeFromSection_runs :
  let cp := fun (r : list N) => match r with a :: b :: _ => Some ([a; b], 2) | _ => None end in
  let sec := [5; 1; 113; 10; 20; 30]%N in
  GoLite.call GoLiteC03.prog (GoLiteC03_Parse.ext_car cp) 0 "parseNodeFromSection"%string
    [GoLite.VInts (map Z.of_N sec); GoLiteC03_Parse.cidv [1; 113]%N]
  = GoLite.RRet (GoLite.VTuple [GoLite.VInts [10; 20; 30]%Z; GoLite.VNil]) /\
  GoLite.call GoLiteC03.prog (GoLiteC03_Parse.ext_car cp) 0 "parseNodeFromSection"%string
    [GoLite.VInts (map Z.of_N sec); GoLiteC03_Parse.cidv [1; 85]%N]
  = GoLite.RRet (GoLite.VTuple [GoLite.VInts []; GoLite.VErr "fmt.Errorf"%string]).
Proof. vm_compute. split; reflexivity. Qed.

(* one level up: readNodeFromReaderAtWithOffsetAndSize (storage.go) — what Epoch.GetNodeByOffsetAndSize runs on the ReaderAt
   path with the (offset, size) found in the index — translated likewise, composed of readFullAt and parseNodeFromSection:
   for EVERY CAR file behind the reader (complete or cut anywhere), offset, size >= 1 and wanted CID it is the read
   and the CID-checked parse of the model's Car.get_node: the object's bytes only when the section is completely there
   and carries the wanted CID; a short read is an error *)
Theorem C03_translated_readNode_is_the_models_read_and_parse :
  forall (cid_parse : list N -> option (list N * nat)),
  (forall r c k, cid_parse r = Some (c, k) -> k <= List.length r) ->
  forall (file : list N) fuel rv (wanted : list N) (off len : nat),
  (Z.of_nat off < 4611686018427387904)%Z -> (Z.of_nat len < 4611686018427387904)%Z -> 1 <= len -> 2 <= fuel ->
  (forall sec l n, read_at file off len = Some sec -> uvarint_dec sec = Some (l, n) -> (l <= 33554432)%N) ->
  match read_at file off len with
  | Some sec =>
      match parse_node cid_parse sec wanted with
      | Some d => GoLite.call GoLiteC03.prog (GoLiteC03_Parse.ext_file cid_parse file) fuel "readNodeFromReaderAtWithOffsetAndSize"%string
                    [rv; GoLiteC03_Parse.cidv wanted; GoLite.VInt (Z.of_nat off); GoLite.VInt (Z.of_nat len)]
                  = GoLite.RRet (GoLite.VTuple [GoLite.VInts (map Z.of_N d); GoLite.VNil])
      | None => exists e, GoLite.call GoLiteC03.prog (GoLiteC03_Parse.ext_file cid_parse file) fuel "readNodeFromReaderAtWithOffsetAndSize"%string
                    [rv; GoLiteC03_Parse.cidv wanted; GoLite.VInt (Z.of_nat off); GoLite.VInt (Z.of_nat len)]
                  = GoLite.RRet (GoLite.VTuple [GoLite.VInts []; GoLite.VErr e])
      end
  | None => exists e, GoLite.call GoLiteC03.prog (GoLiteC03_Parse.ext_file cid_parse file) fuel "readNodeFromReaderAtWithOffsetAndSize"%string
                    [rv; GoLiteC03_Parse.cidv wanted; GoLite.VInt (Z.of_nat off); GoLite.VInt (Z.of_nat len)]
                  = GoLite.RRet (GoLite.VTuple [GoLite.VInts []; GoLite.VErr e])
  end.
Proof.
  exact (fun cp H file => GoLiteC03_Parse.readNode_is_the_models_read_and_parse GoLiteC03.prog
           GoLiteC03.prog_parseNodeFromSection GoLiteC03.prog_readFullAt GoLiteC03.prog_readNodeFromReaderAtWithOffsetAndSize cp H file).
Qed.

Print Assumptions C03_translated_parseNodeFromSection_is_parse_node.
Print Assumptions C03_translated_parseNodeFromSection_success_means_same_cid.
Print Assumptions C03_translated_parseNodeFromSection_nil_cid_compares_nothing.
Print Assumptions C03_translated_readNode_is_the_models_read_and_parse.
