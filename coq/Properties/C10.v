(* C10 — An epoch is served only from indexes built for that epoch and CAR.
   Only statements, `exact`, examples and Print Assumptions. Model: YF.C10_Load (index metadata codec and the
   identity checks of NewEpochFromConfig); the CAR-mismatch clause is C03_cid_fetch_returns_only_that_cids_bytes. *)
From Coq Require Import List NArith.
Import ListNotations.
Require Import YF.C10_Load YF.C03_Lookup YF.Codec YF.ReadAt YF.Car.

(* Loading succeeds only if EVERY index file is of the kind its role requires, records the configured epoch,
   and — for every file that records a root CID — records one and the same root CID *)
Theorem C10_load_sound : forall c, load true c = true ->
  exists root,
    Forall (fun p => i_kind (snd p) = fst p /\ i_epoch (snd p) = Some (c_epoch c) /\
                     (fst p <> KBlocktime -> i_root (snd p) = Some root)) (files c).
Proof. exact load_sound. Qed.

(* the epoch, root CID, network and kind written at build time are read back unchanged: metadata codec round
   trip for every metadata list within the format's bounds, followed by arbitrary bytes *)
Theorem C10_metadata_roundtrip : forall m bs tail, encode_meta m = Some bs -> m <> [] ->
  decode_meta (bs ++ tail) = Some (m, tail).
Proof. exact meta_roundtrip. Qed.
Theorem C10_metadata_too_large_rejected : forall m, ~ wf_meta m -> encode_meta m = None.
Proof. exact meta_reject. Qed.

(* if the CAR is not the one the indexes were built from, a CID-addressed fetch either fails or returns the
   payload of a section of THAT file whose CID field is the requested CID (never another object's bytes) *)
Theorem C10_wrong_car_fetch : forall cid_parse cid_ix file c d,
  get_node_by_cid cid_parse cid_ix file c = Ok d ->
  exists off len sec n clen,
    cid_ix c = Some (off, len) /\ read_at file off len = Some sec /\
    (exists x, uvarint_dec sec = Some (x, n)) /\
    cid_parse (skipn n sec) = Some (c, clen) /\ d = skipn clen (skipn n sec).
Proof. exact cid_fetch_is_stored_under_that_cid. Qed.

(* comparing only the manifest of the address index is not enough (pinned behaviour refuted) *)
Theorem C10_gsfa_pubkey_index_unchecked_refuted :
  exists c m o, c_gsfa c = Some (m, o) /\ load false c = true /\ i_epoch o <> Some (c_epoch c).
Proof. exact gsfa_offsets_unchecked_refuted. Qed.

Example C10_nonvacuous :
  let good k := {| i_kind := k; i_epoch := Some 2%N; i_root := Some 7%N |} in
  load true {| c_epoch := 2; c_c2o := good KCidToOffsetAndSize; c_s2c := good KSlotToCid; c_g2c := good KSigToCid;
               c_gsfa := Some (good KGsfaManifest, good KPubkeyToOffsetAndSize); c_sx := good KSigExists;
               c_bt := {| i_kind := KBlocktime; i_epoch := Some 2%N; i_root := None |} |} = true /\
  encode_meta [([1%N], [2%N; 3%N])] = Some [1; 1; 1; 2; 2; 3]%N.
Proof. split; vm_compute; reflexivity. Qed.

Print Assumptions C10_load_sound.
Print Assumptions C10_metadata_roundtrip.
Print Assumptions C10_metadata_too_large_rejected.
Print Assumptions C10_wrong_car_fetch.
Print Assumptions C10_gsfa_pubkey_index_unchecked_refuted.
