(* C08 — No request can crash the server.
   Only statements, `exact`, examples and Print Assumptions. Model: YF.C08_Requests (parameter parsers,
   dispatch, gRPC stream-filter handling; every dereference of a possibly-nil value and every Must* parser is
   an explicit Panic site). *)
From Coq Require Import List ZArith NArith.
Import ListNotations.
Require Import YF.C08_Requests YF.C08_Sites YF.Generated.PanicSitesC08.

(* JSON-RPC: for EVERY method and EVERY "params" member (missing, null, not an array, an array of any JSON
   values with any option object), with or without epochs loaded, the handler never panics *)
Theorem C08_http_never_panics : forall epochs_loaded m p s, handle true epochs_loaded m p <> RPanic s.
Proof. exact handle_never_panics. Qed.

(* gRPC StreamTransactions: for every filter (absent, absent optional flags, malformed account strings) the
   call streams or returns InvalidArgument — never panics *)
Theorem C08_grpc_never_panics : forall has_txs f s, grpc_stream_txs true true has_txs f <> GPanic s.
Proof. exact grpc_never_panics. Qed.

(* gRPC StreamTransactions: for EVERY start_slot and EVERY end_slot (absent, before the start, 2^64-1) the slice
   of candidate epochs is sized without panicking (any number of loaded epochs up to 2^32) *)
Theorem C08_grpc_slot_range_never_panics : forall loaded start e, (loaded <= 4294967296)%N ->
  forall s, grpc_stream_range true loaded start e <> GPanic s.
Proof. exact grpc_range_never_panics. Qed.

(* ... and the whole call returns: with the candidate epochs sized by what is loaded and the buffered
   transactions flushed by the slots that hold them, every (start_slot, end_slot) streams *)
Theorem C08_grpc_window_always_returns : forall loaded held indexed start e, (loaded <= 4294967296)%N -> (held <= spin_budget)%N ->
  grpc_stream_window true true loaded held indexed start e = GStreams.
Proof. exact grpc_window_always_returns. Qed.

(* REST front: every request to /api/v1/ gets a status code *)
Theorem C08_api_never_panics : forall r s, api_handle true r <> ApiPanic s.
Proof. exact api_never_panics. Qed.

(* index-accelerated StreamTransactions: a transaction without the optional position index is answered with a
   status, not dereferenced; getBlock: a reward commission that is not a number does not panic *)
Theorem C08_grpc_position_index_checked : forall position s, grpc_buffer_add true position <> GPanic s.
Proof. exact grpc_position_index_checked. Qed.
Theorem C08_reward_commission_checked : forall is_number s, reward_commission true is_number <> RPanic s.
Proof. exact reward_commission_checked. Qed.

(* THE TIE TO THE SOURCE: coq/Generated/PanicSitesC08.v is regenerated from the repository on every check and lists
   every expression of the request-handling files that can make the Go runtime panic (index, slice, unchecked type
   assertion, pointer dereference, input-sized make, division, panic / Must* call). Every one of them is classified in
   C08_Sites.site_table as guarded by one of the theorems above or as unable to fail for a stated local reason, and
   every Guarded entry names an existing theorem. A new site makes this theorem fail to build: "new crash site, no proof". *)
Theorem C08_every_listed_site_is_classified : unclassified panic_sites_c08 = [] /\ bad_guards = [].
Proof. vm_compute. split; reflexivity. Qed.

(* the guards are necessary (pinned behaviour refuted by witnesses) *)
Theorem C08_missing_params_refuted :
  handle false true MGetBlock PMissing = RPanic 1 /\ handle false true MGetTransaction PMissing = RPanic 2 /\
  handle false true MGetBlockTime PMissing = RPanic 3 /\ handle false true MGsfa PMissing = RPanic 4.
Proof. exact missing_params_panics_when_unchecked. Qed.
Theorem C08_absent_flag_refuted :
  grpc_stream_txs false false true (Some {| g_vote := None; g_failed := Some true; g_accounts_wellformed := true |}) = GPanic 11.
Proof. exact grpc_absent_flag_panics_when_unchecked. Qed.
Theorem C08_malformed_account_refuted :
  grpc_stream_txs true false true (Some {| g_vote := Some true; g_failed := Some true; g_accounts_wellformed := false |}) = GPanic 12.
Proof. exact grpc_malformed_account_panics_when_unchecked. Qed.

Theorem C08_slot_range_refuted :
  grpc_stream_range false 1 (432000 * 5) (Some 0%N) = GPanic 13 /\
  grpc_stream_range false 1 0 (Some 18446744073709551615%N) = GPanic 13 /\
  grpc_stream_range false 1 18446744073709551615 None = GPanic 13.
Proof. exact (conj grpc_range_end_before_start_panics_when_unbounded (conj grpc_range_far_end_panics_when_unbounded grpc_range_default_end_wraps_when_unbounded)). Qed.
Theorem C08_flush_walk_refuted : grpc_stream_window true false 1 0 true 0 (Some 36028797018963968%N) = GSpins.
Proof. exact grpc_window_spins_when_walking_every_slot. Qed.
Theorem C08_absent_position_index_refuted : grpc_buffer_add false None = GPanic 15.
Proof. exact grpc_absent_position_index_panics_when_unchecked. Qed.
Theorem C08_reward_commission_refuted : reward_commission false false = RPanic 16.
Proof. exact reward_commission_panics_when_unchecked. Qed.
Theorem C08_api_unguarded_search_refuted : api_handle false (ApiSig true 0 false) = ApiPanic 14.
Proof. exact api_unguarded_search_panics. Qed.

(* non-vacuity: a well-formed getBlock request proceeds, an ill-typed option is rejected *)
Example C08_nonvacuous :
  handle true true MGetBlock (PRaw (Some [JNum 5; JObj [(k_encoding, JStr (SEncoding true)); (k_rewards, JBool false)]])) = RProceeds /\
  handle true true MGetBlock (PRaw (Some [JNum 5; JObj [(k_rewards, JStr SOther)]])) = RInvalidParams.
Proof. split; reflexivity. Qed.

Print Assumptions C08_http_never_panics.
Print Assumptions C08_grpc_never_panics.
Print Assumptions C08_grpc_slot_range_never_panics.
Print Assumptions C08_grpc_window_always_returns.
Print Assumptions C08_flush_walk_refuted.
Print Assumptions C08_api_never_panics.
Print Assumptions C08_grpc_position_index_checked.
Print Assumptions C08_reward_commission_checked.
Print Assumptions C08_every_listed_site_is_classified.
Print Assumptions C08_absent_position_index_refuted.
Print Assumptions C08_reward_commission_refuted.
Print Assumptions C08_slot_range_refuted.
Print Assumptions C08_api_unguarded_search_refuted.
Print Assumptions C08_missing_params_refuted.
Print Assumptions C08_absent_flag_refuted.
Print Assumptions C08_malformed_account_refuted.
