(* C16 — Split CARs read back as the exact concatenation of their pieces.
   Only statements, `exact`, Print Assumptions and non-vacuity examples live here. *)
From Coq Require Import List Arith NArith ZArith Bool.
Import ListNotations.
Require Import YF.Codec YF.ReadAt YF.C16_MR YF.C16_Split YF.C16_Check.

(* ---------- reading through MultiReaderAt (split-car-fetcher/fetcher.go) ---------- *)

(* For EVERY non-empty list of segments (any sizes, zero-length segments included), every offset >= 0 and
   every buffer length: ReadAt returns exactly the bytes [off, off+len) of the concatenation (clipped at
   the end), never a non-EOF error, and io.EOF exactly when it returned fewer bytes than asked for
   (the io.ReaderAt contract: n < len(p) comes with a non-nil error; a full read at the very end returns nil).
   Forced hypothesis: the total size is below MaxInt64 (offsets are int64; for a total of exactly
   MaxInt64 the sentinel nextOffset = MaxInt64 of the last segment would hide the end of file). *)
Theorem C16_concat : forall (A : Type) (segs : list (list A)) (off len : Z),
  segs <> [] -> (0 <= off)%Z -> (0 <= len)%Z -> (Z.of_nat (length (concat segs)) < MaxInt64)%Z ->
  read_at_multi segs off len =
    (firstn (Z.to_nat len) (skipn (Z.to_nat off) (concat segs)),
     if (Z.of_nat (length (firstn (Z.to_nat len) (skipn (Z.to_nat off) (concat segs)))) <? len)%Z
     then EEOF else ENil).
Proof. exact (@read_at_multi_concat). Qed.

(* "end-of-file reported only at the true end": the read is short (hence EOF) iff a non-empty request
   reaches past the total size *)
Theorem C16_eof_iff : forall (A : Type) (segs : list (list A)) (off len : Z),
  (0 <= off)%Z -> (0 <= len)%Z ->
  ((Z.of_nat (length (firstn (Z.to_nat len) (skipn (Z.to_nat off) (concat segs)))) <? len)%Z = true
   <-> (0 < len /\ Z.of_nat (length (concat segs)) < off + len)%Z).
Proof. exact (@short_iff). Qed.

(* number of bytes returned *)
Theorem C16_count : forall (A : Type) (segs : list (list A)) (off len : Z),
  (0 <= off)%Z -> (0 <= len)%Z ->
  Z.of_nat (length (firstn (Z.to_nat len) (skipn (Z.to_nat off) (concat segs))))
  = Z.max 0 (Z.min len (Z.of_nat (length (concat segs)) - off)).
Proof. exact (@slice_length). Qed.

(* ---------- the original header (cmd-car-split.go readHeader -> metadata -> fetcher originalCarHeader) ---------- *)
Theorem C16_header_roundtrip : forall (body rest : list N),
  body <> [] -> (N.of_nat (length body) < 2 ^ 64)%N ->
  (10 <= length (uvarint (N.of_nat (length body)) ++ body ++ rest))%nat ->
  split_read_header (uvarint (N.of_nat (length body)) ++ body ++ rest)
    = Some (body, (length (uvarint (N.of_nat (length body))) + length body)%nat) /\
  rebuild_header body (length (uvarint (N.of_nat (length body))) + length body)
    = Some (uvarint (N.of_nat (length body)) ++ body) /\
  firstn (length (uvarint (N.of_nat (length body))) + length body)
         (uvarint (N.of_nat (length body)) ++ body ++ rest) = uvarint (N.of_nat (length body)) ++ body.
Proof. exact header_roundtrip. Qed.

(* ---------- split-car (cmd-car-split.go over accum/block.go) ---------- *)

(* For EVERY CAR (list of objects: kind + raw section), every target size, header size and link limit,
   when the command produces pieces [ps] (it does as soon as there is one block: C16_split_total):
   - the pieces' family lists, concatenated, are exactly the block families of the CAR in file order
     (so each piece is a contiguous run, in original order, nothing lost, nothing repeated) and no piece is empty;
   - the pieces' DAG contents, concatenated, are exactly the sections of all family members in file order
     (children first, then their block), byte for byte;
   - the ContentSize recorded for a piece (currentFileSize - hdrSize) is the length of its DAG content
     — NOT the file length minus the header: the Subset/Epoch nodes appended to the file are not counted
     (known finding metadata-content-size-excludes-appended-nodes);
   - a piece exceeds the target only if it holds a single family; no piece holds more than maxLinks+1 blocks. *)
Theorem C16_split_pieces : forall (A : Type) (c : cfg) (objs : list (obj A)) (ps : list (piece A)),
  split c objs = Some ps ->
  concat (map pfams ps) = families c objs /\
  Forall (fun p => pfams p <> []) ps /\
  concat (map dag_content ps) = concat (map osec (flat_map family_objs (families c objs))) /\
  Forall (fun p => content_size c p = N.of_nat (length (dag_content p))) ps /\
  Forall (fun p => ((1 < length (pfams p))%nat -> (hdr c + content_size c p <= target c)%N) /\
                   (length (pfams p) <= S (max_links c))%nat) ps.
Proof. exact (@split_pieces). Qed.

(* the written sections are all the non-ignored sections of the original, in order — except the objects
   after the last block (handed to the callback with parent == nil, which split-car returns on) *)
Theorem C16_split_non_ignored : forall (A : Type) (c : cfg) (objs : list (obj A)) (ps : list (piece A)),
  split c objs = Some ps ->
  concat (map dag_content ps) ++ concat (map osec (orphans c objs)) = concat (map osec (non_ignored c objs)).
Proof. exact (@split_content_non_ignored). Qed.

(* every block family lies in exactly one piece: family number j is found at one position (piece i, place k)
   and at no other *)
Theorem C16_split_family_once : forall (A : Type) (c : cfg) (objs : list (obj A)) (ps : list (piece A)),
  split c objs = Some ps ->
  forall j f, nth_error (families c objs) j = Some f ->
  exists i k p, nth_error ps i = Some p /\ nth_error (pfams p) k = Some f /\
    j = (before (map pfams ps) i + k)%nat /\
    (forall i' k' p', nth_error ps i' = Some p' -> (k' < length (pfams p'))%nat ->
        j = (before (map pfams ps) i' + k')%nat -> i' = i /\ k' = k).
Proof. exact (@split_family_once). Qed.

Theorem C16_split_total : forall (A : Type) (c : cfg) (objs : list (obj A)),
  families c objs <> [] -> exists ps, split c objs = Some ps.
Proof. exact (@split_total). Qed.

(* families: every parent is a block, no child is; all non-ignored objects are accounted for *)
Theorem C16_families_shape : forall (A : Type) (c : cfg) (objs : list (obj A)),
  Forall (fun f => is_flush c (snd f) = true /\ Forall (fun o => is_flush c o = false) (fst f)) (families c objs).
Proof. exact (@families_shape). Qed.
Theorem C16_families_cover : forall (A : Type) (c : cfg) (objs : list (obj A)),
  non_ignored c objs = flat_map family_objs (families c objs) ++ orphans c objs.
Proof. exact (@non_ignored_families). Qed.

(* ---------- both together: the split-CAR reader over the pieces split-car wrote ---------- *)
(* header ++ the block families' sections in file order, i.e. the original CAR up to its last block when the
   original holds no ignored (Subset/Epoch) node before that point — which is how epoch CARs are laid out *)
Theorem C16_reader_over_split : forall (c : cfg) (objs : list (obj N)) (ps : list (piece N)) (h : list N) (off len : Z),
  split c objs = Some ps -> (0 <= off)%Z -> (0 <= len)%Z ->
  (total (h :: map dag_content ps) < MaxInt64)%Z ->
  read_at_multi (h :: map dag_content ps) off len =
    (firstn (Z.to_nat len) (skipn (Z.to_nat off) (h ++ concat (map osec (flat_map family_objs (families c objs))))),
     if (Z.of_nat (length (firstn (Z.to_nat len) (skipn (Z.to_nat off)
            (h ++ concat (map osec (flat_map family_objs (families c objs))))))) <? len)%Z
     then EEOF else ENil).
Proof. exact reader_over_split. Qed.

(* ---------- non-vacuity ---------- *)
(* a read spanning a zero-length segment and two boundaries; a read ending exactly at the end (no EOF);
   a read past the end (EOF, short); a read starting beyond the end (EOF, nothing) *)
Example C16_concat_nonvacuous :
  read_at_multi [[1;2;3]; []; [4]; [5;6]]%N 2 3 = ([3;4;5]%N, ENil) /\
  read_at_multi [[1;2;3]; []; [4]; [5;6]]%N 4 2 = ([5;6]%N, ENil) /\
  read_at_multi [[1;2;3]; []; [4]; [5;6]]%N 4 3 = ([5;6]%N, EEOF) /\
  read_at_multi [[1;2;3]; []; [4]; [5;6]]%N 9 1 = ([], EEOF) /\
  read_at_multi [[1;2;3]; []; [4]; [5;6]]%N 9 0 = ([], ENil).
Proof. repeat split; vm_compute; reflexivity. Qed.

(* a CAR with three blocks (kind 2), children, an ignored Subset node (kind 3) in the middle, an Epoch node
   (kind 4) and a trailing orphan, split with header 5 and target 12 into two pieces *)
Definition ex_cfg : cfg := {| flush_kind := 2; ignore_kinds := [4; 3]%N; hdr := 5; target := 12; max_links := 10 |}.
Definition ex_objs : list (obj N) :=
  [ {| okind := 0; osec := [10;11]%N |}; {| okind := 2; osec := [20]%N |};
    {| okind := 3; osec := [30;31;32]%N |};
    {| okind := 1; osec := [40]%N |}; {| okind := 0; osec := [41;42]%N |}; {| okind := 2; osec := [50]%N |};
    {| okind := 2; osec := [60;61]%N |}; {| okind := 4; osec := [70]%N |}; {| okind := 0; osec := [80]%N |} ].
Example C16_split_nonvacuous :
  option_map (map (fun p => (content_size ex_cfg p, dag_content p))) (split ex_cfg ex_objs)
  = Some [ (7, [10;11;20;40;41;42;50]); (2, [60;61]) ]%N /\
  orphans ex_cfg ex_objs = [ {| okind := 0; osec := [80]%N |} ].
Proof. split; vm_compute; reflexivity. Qed.

Print Assumptions C16_concat.
Print Assumptions C16_eof_iff.
Print Assumptions C16_count.
Print Assumptions C16_header_roundtrip.
Print Assumptions C16_split_pieces.
Print Assumptions C16_split_non_ignored.
Print Assumptions C16_split_family_once.
Print Assumptions C16_split_total.
Print Assumptions C16_families_shape.
Print Assumptions C16_families_cover.
Print Assumptions C16_reader_over_split.

(* ================================================================ MultiReaderAt.ReadAt itself, TRANSLATED
   split-car-fetcher/fetcher.go:(MultiReaderAt).ReadAt is re-translated from /repo's working tree on every check
   (Generated/GoLiteC16.v; semantics GoLite.v; DESIGN.md section 10a): the loop over the offsets with its `continue`,
   the min/max arithmetic in int64, the io.EOF bookkeeping and the early return of other errors.  The per-segment
   readers are an oracle that behaves like bytes.Reader / io.SectionReader (C16_MR.seg_read).  Theorems: the
   translated function is the model's segment walk (read_at_multi), hence — with C16_concat — it serves exactly the
   concatenation of the segments. *)
Require YF.GoLite YF.Generated.GoLiteC16 YF.GoLiteC16_ReadAt.
Import ZArith String.

Theorem C16_translated_ReadAt_is_the_model : forall (segs : list (list Z)),
  (forall j, (0 <= nth j (offsets segs) 0 < 4611686018427387904)%Z) -> (Z.of_nat (List.length segs) < 4611686018427387904)%Z ->
  forall f (p : list Z) off, (0 <= off)%Z -> (off + GoLite.zlen p < 4611686018427387904)%Z -> (List.length segs < f)%nat ->
  let '(bs, e) := read_at_multi segs off (GoLite.zlen p) in
  exists p', GoLite.call GoLiteC16.prog (GoLiteC16_ReadAt.ext_rd segs) f "MultiReaderAt.ReadAt"%string
               [GoLiteC16_ReadAt.mval segs; GoLite.VInts p; GoLite.VInt off]
             = GoLite.RRet (GoLite.VTuple [GoLite.VInt (GoLite.zlen bs); GoLiteC16_ReadAt.enc_rerr e; GoLite.VInts p']) /\
             List.length p' = List.length p /\ firstn (List.length bs) p' = bs.
Proof. exact (GoLiteC16_ReadAt.ReadAt_is_read_at_multi GoLiteC16.prog GoLiteC16.prog_MultiReaderAt_ReadAt). Qed.

(* end to end: for every non-empty segment list of total size below 2^62, every offset >= 0 and every buffer, the
   translated ReadAt returns n = the number of bytes of the concatenation available at [off, off+len(p)), exactly
   those bytes in p[0:n], io.EOF iff the read is short, never another error and never a panic *)
Theorem C16_translated_ReadAt_is_the_concatenation : forall (segs : list (list Z)) f (p : list Z) off,
  segs <> [] -> (total segs < 4611686018427387904)%Z -> (Z.of_nat (List.length segs) < 4611686018427387904)%Z ->
  (0 <= off)%Z -> (off + GoLite.zlen p < 4611686018427387904)%Z -> (List.length segs < f)%nat ->
  let bs := slice segs off (GoLite.zlen p) in
  exists p', GoLite.call GoLiteC16.prog (GoLiteC16_ReadAt.ext_rd segs) f "MultiReaderAt.ReadAt"%string
               [GoLiteC16_ReadAt.mval segs; GoLite.VInts p; GoLite.VInt off]
             = GoLite.RRet (GoLite.VTuple [GoLite.VInt (GoLite.zlen bs);
                                           (if (GoLite.zlen bs <? GoLite.zlen p)%Z then GoLite.VErr "io.EOF"%string else GoLite.VNil);
                                           GoLite.VInts p']) /\
             List.length p' = List.length p /\ firstn (List.length bs) p' = bs.
Proof. exact (GoLiteC16_ReadAt.ReadAt_is_the_concatenation GoLiteC16.prog GoLiteC16.prog_MultiReaderAt_ReadAt). Qed.

(* non-vacuity: the translated ReadAt RUNS in the kernel on three segments (one empty): a read across two boundaries
   and a short read at the end *)
Example C16_translated_ReadAt_runs :
  let segs := [[1; 2; 3]%Z; []; [4; 5]%Z; [6]%Z] in
  GoLite.call GoLiteC16.prog (GoLiteC16_ReadAt.ext_rd segs) 10 "MultiReaderAt.ReadAt"%string
    [GoLiteC16_ReadAt.mval segs; GoLite.VInts [0; 0; 0; 0]%Z; GoLite.VInt 2%Z]
  = GoLite.RRet (GoLite.VTuple [GoLite.VInt 4%Z; GoLite.VNil; GoLite.VInts [3; 4; 5; 6]%Z]) /\
  GoLite.call GoLiteC16.prog (GoLiteC16_ReadAt.ext_rd segs) 10 "MultiReaderAt.ReadAt"%string
    [GoLiteC16_ReadAt.mval segs; GoLite.VInts [9; 9; 9; 9]%Z; GoLite.VInt 4%Z]
  = GoLite.RRet (GoLite.VTuple [GoLite.VInt 2%Z; GoLite.VErr "io.EOF"%string; GoLite.VInts [5; 6; 9; 9]%Z]).
Proof. vm_compute. split; reflexivity. Qed.

(* the constructor, translated likewise: the reader value the two theorems above are stated for (GoLiteC16_ReadAt.mval: the
   offset table offsets segs) IS what NewMultiReaderAt builds from the pieces' sizes — the prefix sums, in int64 *)
Require YF.GoLiteC16_New.
Theorem C16_translated_NewMultiReaderAt_builds_the_offset_table : forall ext fuel (segs : list (list Z)),
  (Z.of_nat (List.length (List.concat segs)) < 9223372036854775808)%Z ->
  (Z.of_nat (List.length segs) < 4611686018427387904)%Z -> (List.length segs < fuel)%nat ->
  GoLite.call GoLiteC16.prog ext fuel "NewMultiReaderAt"%string
    [GoLite.VInts (repeat 0%Z (List.length segs)); GoLite.VInts (sizes_of segs)] =
  GoLite.RRet (GoLiteC16_ReadAt.mval segs).
Proof. exact (GoLiteC16_New.NewMultiReaderAt_is_mval GoLiteC16.prog GoLiteC16.prog_NewMultiReaderAt). Qed.

Example C16_translated_NewMultiReaderAt_runs :
  GoLite.call GoLiteC16.prog GoLite.no_ext 10 "NewMultiReaderAt"%string [GoLite.VInts [0; 0; 0]%Z; GoLite.VInts [5; 0; 7]%Z]
  = GoLite.RRet (GoLite.VStruct [("readers"%string, GoLite.VInts [0; 0; 0]%Z); ("offsets"%string, GoLite.VInts [0; 5; 5]%Z)]).
Proof. vm_compute. reflexivity. Qed.

Print Assumptions C16_translated_ReadAt_is_the_model.
Print Assumptions C16_translated_ReadAt_is_the_concatenation.
Print Assumptions C16_translated_NewMultiReaderAt_builds_the_offset_table.
