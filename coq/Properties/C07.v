(* C07 — getSignaturesForAddress paging slices the newest-first history correctly.
   Only statements, `exact`, Print Assumptions and non-vacuity examples live here.

   Model (C07_Model.v): an index entry is (signature, slot); an epoch is (epoch number, Found chain | NotFound |
   Failed) where chain = linked-log records, head first, each record newest entry first. A result map
   epoch -> slice is represented by its append log (list of (epoch, entry)); `lookup e m` is the map's value at e,
   `keys m` its key set, `flatten_desc m` its content read newest epoch first.
   get_before_until       = GsfaReaderMultiepoch.GetBeforeUntil   (nested loops, early exits, per-record limit pre-check)
   get_before_until_slot  = GsfaReaderMultiepoch.GetBeforeUntilSlot (flag upper: true = repaired loop with the
                            `slot >= before` test, false = pinned loop)
   reply sorted perm m    = the JSON-RPC reply assembled from map m when Go's map iteration yields the keys in
                            order perm (flag sorted: true = repaired handler, false = pinned handler). *)
From Coq Require Import List Arith Bool NArith ZArith Permutation Sorting.Sorted.
Import ListNotations.
Require Import YF.Paging YF.C07_Model YF.C07_Proofs YF.C07_Reply YF.C07_Slot YF.C07_Check YF.Generated.ConstsC07.

(* ---------------------------------------------------------------------------------------------------------- *)
(* (1) the slice.  For every list of readers given newest epoch first, every limit (also <= 0), every `before`
   and `until` (in the history or not): the call succeeds, and its result map — read newest epoch first, and
   key by key — is the slice of the complete history: after `before` (exclusive), cut to `limit`, up to `until`
   (inclusive). Forced hypothesis: no index lookup fails with an I/O error (then the Go function returns that error). *)
Theorem C07_slice : forall eps limit before until,
  StronglySorted (fun a b : epoch => (fst b < fst a)%N) eps ->
  Forall (fun e : epoch => snd e <> Failed) eps ->
  exists m, get_before_until eps limit before until = Some m /\
            flatten_desc m = slice_spec (Z.to_nat limit) before until (history eps) /\
            (forall e, lookup e m = lookup e (slice_spec (Z.to_nat limit) before until (history eps))).
Proof. exact slice_flat. Qed.

(* fold fusion on its own (no order on the readers needed): epochs -> records -> entries with all early exits
   = one pass = the slice of the concatenation *)
Theorem C07_nested_loops_are_one_pass : forall eps limit before until,
  Forall (fun e : epoch => snd e <> Failed) eps ->
  get_before_until eps limit before until = Some (slice_spec (Z.to_nat limit) before until (history eps)).
Proof. exact get_before_until_spec. Qed.

(* `history` is what the reader can reach; it is everything that was recorded as soon as no record is empty
   (the writer never writes an empty record: linkedlog.Put skips empty value lists) *)
Theorem C07_history_is_complete : forall eps,
  Forall (fun e : epoch => match snd e with Found c => Forall (fun r => r <> []) c | _ => True end) eps ->
  history eps = full_history eps.
Proof. exact history_full. Qed.

(* reading of slice_spec: `before` drawn from the history starts the run just after its first occurrence ... *)
Theorem C07_before_in_history : forall pre b post bsig,
  key b = bsig -> (forall x, In x pre -> key x <> bsig) -> after bsig (pre ++ b :: post) = post.
Proof. exact after_split. Qed.
(* ... a `before` that is not in the history gives the empty result (this is what the code does) ... *)
Theorem C07_before_absent : forall bsig l, (forall x, In x l -> key x <> bsig) -> after bsig l = [].
Proof. exact after_absent. Qed.
(* ... `until` drawn from the (cut) run ends it inclusively, an absent `until` does not cut *)
Theorem C07_until_in_history : forall pre u post usig,
  key u = usig -> (forall x, In x pre -> key x <> usig) -> upto usig (pre ++ u :: post) = pre ++ [u].
Proof. exact upto_split. Qed.
Theorem C07_until_absent : forall usig l, (forall x, In x l -> key x <> usig) -> upto usig l = l.
Proof. exact upto_absent. Qed.
(* the signatures of the slice are the prototype specification (Paging.v) applied to the signatures *)
Theorem C07_slice_signatures : forall limit before until hist,
  map key (slice_spec limit before until hist) = Paging.slice_spec limit before until (map key hist).
Proof. exact slice_sig_view. Qed.

(* ---------------------------------------------------------------------------------------------------------- *)
(* (2) the reply.  Repaired handler: for EVERY order in which the map iteration may yield the keys, the reply is
   the map's content newest epoch first ... *)
Theorem C07_reply_order : forall m perm,
  Permutation perm (keys m) -> reply true perm m = flatten_desc m.
Proof. exact reply_sorted. Qed.
(* ... for any sorting routine that returns a descending permutation of its input (sort.Slice is not stable) ... *)
Theorem C07_reply_order_any_sort : forall m perm sorted,
  Permutation perm (keys m) -> Permutation sorted perm ->
  StronglySorted (fun a b : N => (b <= a)%N) sorted -> flatten_by sorted m = flatten_desc m.
Proof. exact reply_any_sort. Qed.
(* ... hence, end to end, the reply is the slice of the history *)
Theorem C07_reply_is_slice : forall eps limit before until m perm,
  StronglySorted (fun a b : epoch => (fst b < fst a)%N) eps ->
  Forall (fun e : epoch => snd e <> Failed) eps ->
  get_before_until eps limit before until = Some m -> Permutation perm (keys m) ->
  reply true perm m = slice_spec (Z.to_nat limit) before until (history eps).
Proof. exact reply_is_slice. Qed.
(* pinned handler (ranges over the map directly): refuted *)
Theorem C07_reply_refuted :
  exists m perm, Permutation perm (keys m) /\ reply false perm m <> flatten_desc m.
Proof. exact reply_unsorted_refuted. Qed.

(* ---------------------------------------------------------------------------------------------------------- *)
(* (3) the slot window (repaired loop).  Soundness needs nothing about the index content; forced hypothesis
   until < 2^63 because the Go code compares `tx.Slot < int(until)`. *)
Theorem C07_slot_window : forall epoch_len eps limit before until m,
  (until < 2^63)%N -> get_before_until_slot true epoch_len eps limit before until = Some m ->
  forall t, In t m -> (until <= slot t < before)%N.
Proof. exact slot_window_sound. Qed.
(* completeness: when slots do not increase along the newest-first history and every entry of epoch e has
   slot >= e * EpochLen, the result is exactly the first `limit` entries of the history that lie in the window *)
Theorem C07_slot_window_complete : forall eps limit before until,
  (until < 2^63)%N ->
  Forall (fun e : epoch => snd e <> Failed) eps ->
  StronglySorted (fun a b : tagged => (slot b <= slot a)%N) (history eps) ->
  (forall t, In t (history eps) -> (tag t * epoch_len <= slot t)%N) ->
  get_before_until_slot true epoch_len eps limit before until =
  Some (firstn (Z.to_nat limit) (filter (fun x => andb (until <=? slot x)%N (slot x <? before)%N) (history eps))).
Proof. intros. apply get_before_until_slot_spec; auto. exact epoch_len_pos. Qed.
(* pinned loop (no upper test): refuted — entries above the window are returned *)
Theorem C07_slot_window_refuted :
  exists eps limit before until m t,
    get_before_until_slot false 432000 eps limit before until = Some m /\ In t m /\ (before <= slot t)%N.
Proof. exact slot_window_unchecked_refuted. Qed.

(* ---------------------------------------------------------------------------------------------------------- *)
(* (4) epochs in which the address never appears are skipped: same result as without them, never an error *)
Theorem C07_absent_epochs_skipped : forall eps1 e eps2 limit before until,
  get_before_until (eps1 ++ (e, NotFound) :: eps2) limit before until =
  get_before_until (eps1 ++ eps2) limit before until.
Proof. exact absent_skipped. Qed.
Theorem C07_absent_epochs_skipped_slot : forall upper epoch_len eps1 e eps2 limit before until,
  get_before_until_slot upper epoch_len (eps1 ++ (e, NotFound) :: eps2) limit before until =
  get_before_until_slot upper epoch_len (eps1 ++ eps2) limit before until.
Proof. exact slot_absent_skipped. Qed.
Theorem C07_never_fails_without_io_error : forall eps limit before until,
  Forall (fun e : epoch => snd e <> Failed) eps -> get_before_until eps limit before until <> None.
Proof. exact get_before_until_total. Qed.

(* (5) the checker used on the implementation's observations accepts exactly what (1) and (2) say *)
Theorem C07_accepted_observation_is_slice : forall eps limit before until o,
  StronglySorted (fun a b : epoch => (fst b < fst a)%N) eps ->
  Forall (fun e : epoch => snd e <> Failed) eps ->
  case_ok (CSig eps limit before until (Some o)) = true ->
  concat (map (fun p => map (pair (fst p)) (snd p)) o) = slice_spec (Z.to_nat limit) before until (history eps).
Proof. exact csig_accepted. Qed.
Theorem C07_accepted_reply_is_slice : forall eps limit before until sigs,
  StronglySorted (fun a b : epoch => (fst b < fst a)%N) eps ->
  Forall (fun e : epoch => snd e <> Failed) eps ->
  case_ok (CReply eps limit before until sigs) = true ->
  sigs = map key (slice_spec (Z.to_nat limit) before until (history eps)).
Proof. exact creply_accepted. Qed.

(* ---------------------------------------------------------------------------------------------------------- *)
(* non-vacuity: three epochs (8, 6, 5), the address absent from epoch 6, two records in epoch 8 *)
Definition ex_eps : list epoch :=
  [ (8%N, Found [[(7, 3456010%N); (6, 3456007%N)]; [(5, 3456007%N)]]);
    (6%N, NotFound);
    (5%N, Found [[(4, 2160009%N); (3, 2160004%N); (2, 2160004%N); (1, 2160001%N)]]) ].

Definition tg (e : N) (sg : nat) (sl : N) : tagged := (e, (sg, sl)).

Example C07_nonvacuous_slice :
  StronglySorted (fun a b : epoch => (fst b < fst a)%N) ex_eps /\
  Forall (fun e : epoch => snd e <> Failed) ex_eps /\
  get_before_until ex_eps 4 (Some 7) (Some 2) =
    Some [tg 8 6 3456007; tg 8 5 3456007; tg 5 4 2160009; tg 5 3 2160004] /\
  get_before_until ex_eps 10 (Some 6) (Some 2) =
    Some [tg 8 5 3456007; tg 5 4 2160009; tg 5 3 2160004; tg 5 2 2160004] /\
  reply true [5; 8]%N [tg 8 5 3456007; tg 5 4 2160009] = [tg 8 5 3456007; tg 5 4 2160009] /\
  reply false [5; 8]%N [tg 8 5 3456007; tg 5 4 2160009] = [tg 5 4 2160009; tg 8 5 3456007].
Proof.
  split; [repeat constructor|]. split; [repeat constructor; discriminate|].
  split; [vm_compute; reflexivity|]. split; [vm_compute; reflexivity|]. split; vm_compute; reflexivity.
Qed.

Example C07_nonvacuous_slot :
  StronglySorted (fun a b : tagged => (slot b <= slot a)%N) (history ex_eps) /\
  (forall t, In t (history ex_eps) -> (tag t * epoch_len <= slot t)%N) /\
  get_before_until_slot true epoch_len ex_eps 100 3456008 2160004 =
    Some [tg 8 6 3456007; tg 8 5 3456007; tg 5 4 2160009; tg 5 3 2160004; tg 5 2 2160004] /\
  get_before_until_slot false epoch_len ex_eps 100 3456008 2160004 =
    Some [tg 8 7 3456010; tg 8 6 3456007; tg 8 5 3456007; tg 5 4 2160009; tg 5 3 2160004; tg 5 2 2160004].
Proof.
  split; [apply slots_descb_sound; vm_compute; reflexivity|].
  split; [apply slots_in_epochb_sound; vm_compute; reflexivity|].
  split; vm_compute; reflexivity.
Qed.

Print Assumptions C07_slice.
Print Assumptions C07_nested_loops_are_one_pass.
Print Assumptions C07_history_is_complete.
Print Assumptions C07_slice_signatures.
Print Assumptions C07_reply_order.
Print Assumptions C07_reply_order_any_sort.
Print Assumptions C07_reply_is_slice.
Print Assumptions C07_reply_refuted.
Print Assumptions C07_slot_window.
Print Assumptions C07_slot_window_complete.
Print Assumptions C07_slot_window_refuted.
Print Assumptions C07_absent_epochs_skipped.
Print Assumptions C07_absent_epochs_skipped_slot.
Print Assumptions C07_never_fails_without_io_error.
Print Assumptions C07_accepted_observation_is_slice.
Print Assumptions C07_accepted_reply_is_slice.
