(* C19 — Streaming a slot range returns exactly the archived items matching the filter.
   Only statements, `exact`, examples and Print Assumptions. Model: YF.C19_Stream (grpc-server.go).
   [ar : N -> option (list tx)] is the archive seen through getBlock (None = skipped slot or epoch not
   loaded); [keep] is the specification of "satisfies the filter" (readable in C19_Stream.v: vote/failed flags
   absent = no restriction, any-of include, none-of exclude, all-of required; an account is mentioned when it
   is a static key or a loaded address). *)
From Coq Require Import List NArith Bool Sorting.Sorted.
Import ListNotations.
Require Import YF.C19_Stream YF.C19_Flush YF.C19_Prog YF.Generated.FilterProgC19 YF.C19_ProgProof.

(* StreamTransactions, scan path: for every archive, range and filter, the stream is exactly the archived
   transactions of the range that satisfy the filter, in archive (ascending slot, position) order;
   slots without a block are skipped *)
Theorem C19_transactions_scan : forall ar lo hi f,
  stream_txs_scan true true ar lo hi f = filter (keep f) (archived_txs ar lo hi).
Proof. exact scan_is_filter. Qed.

(* StreamBlocks: exactly the archived blocks of the range (with an account filter: those containing a
   transaction that mentions one of the accounts), ascending, inside the range *)
Theorem C19_blocks : forall ar lo hi inc,
  stream_blocks_slots ar inc (range lo hi) = filter (fun b => block_keep inc (snd b)) (archived_blocks ar lo hi).
Proof. exact blocks_is_filter. Qed.
Theorem C19_blocks_ascending_in_range : forall ar lo hi inc,
  StronglySorted N.lt (map fst (stream_blocks_slots ar inc (range lo hi))) /\
  Forall (fun b => (lo <= fst b <= hi)%N /\ ar (fst b) = Some (snd b)) (stream_blocks_slots ar inc (range lo hi)).
Proof. exact blocks_in_range_ascending. Qed.

(* The set streamed does not depend on whether an address index is loaded: with a complete address index
   (it lists exactly the archived transactions mentioning the account) and no per-account cap reached, the
   index-accelerated path (per-account slot-window queries, ordered buffer, flush) streams exactly what the
   scan path streams.  FORCED HYPOTHESIS (stated): at most [limit] matching transactions per included account —
   the pinned code asked the index for at most 100 entries per account (C19_cap_refuted; repaired in /repo: the
   code now passes math.MaxInt, so the hypothesis holds for every input the implementation can see). *)
Theorem C19_index_path_agrees_with_scan : forall ar lo hi f limit,
  let all := archived_txs ar lo hi in
  StronglySorted key_lt all -> keys_identify all ->
  Forall (fun t => (lo <= x_slot t <= hi)%N) all ->
  f_include f <> [] ->
  (forall a, In a (f_include f) -> length (filter (fun t => mentions t a) all) <= limit) ->
  stream_txs_indexed true limit all lo hi f = stream_txs_scan true true ar lo hi (Some f).
Proof. exact indexed_agrees_with_scan. Qed.

(* THE TIE TO THE SOURCE for the predicate: coq/Generated/FilterProgC19.v is the Go closure `filterOutTxn` of
   grpc-server.go:processSlotTransactions, translated statement by statement by gen/c19.go on every check into the
   guard language of C19_Prog (early returns, optional flags, loops over the account lists; dereferencing an absent
   flag or a member of a nil filter is a Panic). For EVERY filter (or none), EVERY transaction and both stream paths
   the translated program returns — never panics — exactly the specification: keep, with the "any included account"
   clause left to the address index when one serves the stream. Both send sites apply it with the same polarity. *)
Theorem C19_translated_predicate_is_the_specification : forall fo idx t,
  run filter_prog_c19 {| e_filter := fo; e_indexed := idx; e_tx := t |} =
  Return (spec {| e_filter := fo; e_indexed := idx; e_tx := t |}).
Proof. exact filter_prog_is_spec. Qed.
(* ... and txMentionsAccount, translated the same way (the lists it searches, in order), searches exactly the lists of
   the specification's [mentions]: the static keys and BOTH lists of addresses loaded from lookup tables *)
Theorem C19_translated_mention_test_is_the_specification : forall x slot pos vote failed id a,
  run_mentions mention_sources_c19 x a = mentions (tx_of x slot pos vote failed id) a.
Proof. exact mention_sources_are_spec. Qed.
Theorem C19_predicate_guards_both_send_sites : filter_send_sites_c19 = 2.
Proof. exact filter_send_sites. Qed.

(* the ordered buffer's flush: visiting the held slots in ascending order (the loop after /repo d26d291) sends
   exactly what walking every slot number of the window sends, in the same order — both are the model's buf_flush —
   and it visits at most one slot per buffered transaction whatever the window is *)
Theorem C19_flush_by_held_slots_is_flush_by_walk : forall lo hi buf, StronglySorted key_lt buf ->
  flush_sparse lo hi buf = flush_walk buf (range lo hi) /\ flush_sparse lo hi buf = buf_flush lo hi buf.
Proof. exact (fun lo hi buf S => conj (sparse_is_walk lo hi buf S) (sparse_is_buf_flush lo hi buf S)). Qed.
Theorem C19_flush_visits_at_most_the_buffer : forall lo hi buf,
  length (filter (fun s => N.leb lo s && N.leb s hi) (held_slots buf)) <= length buf.
Proof. exact sparse_visits_at_most_buffer. Qed.

(* refutations of the pinned behaviours (witnesses by vm_compute) *)
Theorem C19_inverted_polarity_refuted :
  exists ar lo hi, archived_txs ar lo hi <> [] /\ stream_txs_scan true false ar lo hi None = [].
Proof. exact polarity_refuted. Qed.
Theorem C19_stop_at_skipped_slot_refuted :
  exists ar lo hi, stream_txs_scan false true ar lo hi None <> filter (keep None) (archived_txs ar lo hi).
Proof. exact skip_refuted. Qed.
Theorem C19_cap_refuted :
  exists ar lo hi f, f_include f <> [] /\
    stream_txs_indexed true 1 (archived_txs ar lo hi) lo hi f <> stream_txs_scan true true ar lo hi (Some f).
Proof. exact cap_refuted. Qed.

(* non-vacuity *)
Example C19_nonvacuous :
  let t1 := Build_tx 5 0 true false [1%N] [] 1%N in
  let t2 := Build_tx 5 1 false true [2%N] [3%N] 2%N in
  let t3 := Build_tx 7 0 false false [2%N] [] 3%N in
  let ar := fun s => if N.eqb s 5 then Some [t1; t2] else if N.eqb s 7 then Some [t3] else None in
  map x_id (stream_txs_scan true true ar 4 8 (Some (Build_flt (Some false) None [3%N; 2%N] [] []))) = [2%N; 3%N] /\
  map x_id (stream_txs_indexed true 100 (archived_txs ar 4 8) 4 8 (Build_flt (Some false) None [3%N; 2%N] [] [])) = [2%N; 3%N].
Proof. split; vm_compute; reflexivity. Qed.

Print Assumptions C19_transactions_scan.
Print Assumptions C19_blocks.
Print Assumptions C19_blocks_ascending_in_range.
Print Assumptions C19_index_path_agrees_with_scan.
Print Assumptions C19_translated_predicate_is_the_specification.
Print Assumptions C19_translated_mention_test_is_the_specification.
Print Assumptions C19_predicate_guards_both_send_sites.
Print Assumptions C19_flush_by_held_slots_is_flush_by_walk.
Print Assumptions C19_flush_visits_at_most_the_buffer.
Print Assumptions C19_inverted_polarity_refuted.
Print Assumptions C19_stop_at_skipped_slot_refuted.
Print Assumptions C19_cap_refuted.
