(* C02 — RPC answers for archived slots and signatures reproduce the archive exactly.
   Only statements, `exact`, examples and Print Assumptions. Model: YF.C02_Rpc (response assembly of
   multiepoch-getBlock.go / grpc-server.go) on top of the FirstSuccess model of C18 (epoch search).
   An epoch is its number and a block lookup ([ep_block], provided by the indexes: C01 + C03). *)
From Coq Require Import List Arith NArith Sorting.Sorted Sorting.Permutation.
Import ListNotations.
Require Import YF.FS YF.FSCheck YF.C02_Rpc YF.C14_Hash YF.C14_Frames YF.C14_Term YF.C14_Layout YF.C02_Tx.

(* getBlock: for every set of loaded epochs [me], every archived block [b] of a loaded epoch [e] and EVERY
   completion order of the concurrent entry/transaction fetches ([order] lists the completed (entry,tx)
   tasks; all of them complete), the reply is the block's slot, parent, time, height, blockhash = hash of its
   last entry, previous blockhash = last entry hash of the parent when the parent lies in the same epoch, and
   its transactions — all of them, each once — in position order. *)
Theorem C02_get_block : forall me e b order,
  find_epoch me (epoch_of (b_slot b)) = Some e -> ep_block e (b_slot b) = Some b ->
  (((b_parent b <> 0%N \/ b_slot b = 1%N) /\ epoch_of (b_parent b) = ep_num e) -> exists pb, ep_block e (b_parent b) = Some pb) ->
  complete_order b order ->
  exists r, get_block me order (b_slot b) = Reply r /\
    r_slot r = b_slot b /\ r_parent r = b_parent b /\
    r_time r = (if N.eqb (b_time b) 0 then None else Some (b_time b)) /\
    r_height r = b_height b /\ r_blockhash r = last_hash b /\
    (forall pb, ((b_parent b <> 0%N \/ b_slot b = 1%N) /\ epoch_of (b_parent b) = ep_num e) ->
                ep_block e (b_parent b) = Some pb -> r_prev r = last_hash pb) /\
    Permutation (r_txs r) (all_txs b) /\ StronglySorted le_pos (r_txs r).
Proof. exact get_block_correct. Qed.

(* the concurrent fetch is order independent: any completion order of all tasks fills every cell *)
Theorem C02_fetch_order_independent : forall es order,
  (forall i j e t, nth_error es i = Some e -> nth_error (e_txs e) j = Some t -> In (i, j) order) ->
  fill es order = full_grid es.
Proof. exact fill_any_order. Qed.

(* with distinct positions, "all transactions in position order" determines the list uniquely *)
Theorem C02_transaction_list_unique : forall b l1 l2, NoDup (map t_pos (all_txs b)) ->
  in_position_order b l1 -> in_position_order b l2 -> l1 = l2.
Proof. exact txs_unique. Qed.

(* a slot without archived block is answered not-found / epoch-not-available *)
Theorem C02_absent_slot : forall me order slot,
  (forall e, find_epoch me (epoch_of slot) = Some e -> ep_block e slot = None) ->
  get_block me order slot = EpochNotAvailable \/ get_block me order slot = SlotNotFound.
Proof. exact get_block_absent. Qed.

(* getTransaction, epoch search: whichever other epochs are loaded, for every concurrency limit and every
   schedule of the parallel search, a signature archived in exactly epoch [e] is routed to [e]; a signature
   archived nowhere is answered not-found (never an internal error) *)
Theorem C02_signature_routed_to_its_epoch : forall has limit cs s r e,
  run (search_jobs has) limit init cs = Some s -> ret s = Some r ->
  In (e, true) has -> (forall e', In (e', true) has -> e' = e) ->
  map_find r = Found e.
Proof. exact search_finds_the_epoch. Qed.
Theorem C02_unarchived_signature_not_found : forall has limit cs s r,
  run (search_jobs has) limit init cs = Some s -> ret s = Some r ->
  (forall e, ~ In (e, true) has) -> map_find r = NotFoundR.
Proof. exact search_not_found. Qed.

(* getTransaction / getBlock payloads: the transaction bytes and the metadata bytes of the reply are byte-identical
   to what was archived — for ANY number of frames of either payload, ANY fan-out of the next links, ANY
   injective CID assignment and ANY store that holds (at least) the continuation frames; zstd enters through its
   contract decompress (compress x) = Some x; sort.Slice through "returns a sorted permutation". This composes C14's
   reassembly theorem with the decompression step of storage.go. *)
Theorem C02_transaction_payloads_byte_identical :
  forall (compress : list N -> list N) (decompress : list N -> option (list N)),
  (forall x, decompress (compress x) = Some x) ->
  forall (srt : list frame -> list frame), (forall l, Permutation (srt l) l) -> (forall l, fsorted (srt l)) ->
  forall (cid_d cid_m : nat -> cid) (txbytes meta : list N) (nd nm kd km : nat) (store : list (cid * frame)),
  1 <= kd -> 1 <= km -> 1 <= nd -> 1 <= nm ->
  (forall i j, i < nd -> j < nd -> cid_d i = cid_d j -> i = j) ->
  (forall i j, i < nm -> j < nm -> cid_m i = cid_m j -> i = j) ->
  let cd := chunk_even nd txbytes in
  let cm := chunk_even nm (compress meta) in
  let hd := Some (crc64 txbytes) in
  let hm := Some (crc64 (compress meta)) in
  (forall i, 1 <= i < nd -> lookup store (cid_d i) = Some (wframe cid_d cd kd hd i)) ->
  (forall i, 1 <= i < nm -> lookup store (cid_m i) = Some (wframe cid_m cm km hm i)) ->
  get_tx_payloads decompress srt store (wframe cid_d cd kd hd 0) (wframe cid_m cm km hm 0) = TxOk txbytes meta.
Proof. exact tx_payloads_byte_identical. Qed.

(* non-vacuity: a block with two entries whose transactions complete in reverse order *)
Example C02_nonvacuous :
  map (fun t => (t_pos t, t_id t))
      (TxSort.sort (merge (fill (mk_entries [[(1, 11%N); (0, 10%N)]; [(2, 12%N)]]) [(1, 0); (0, 1); (0, 0)])))
  = [(0, 10%N); (1, 11%N); (2, 12%N)].
Proof. vm_compute. reflexivity. Qed.

Print Assumptions C02_get_block.
Print Assumptions C02_fetch_order_independent.
Print Assumptions C02_transaction_list_unique.
Print Assumptions C02_absent_slot.
Print Assumptions C02_signature_routed_to_its_epoch.
Print Assumptions C02_unarchived_signature_not_found.
Print Assumptions C02_transaction_payloads_byte_identical.

(* ================================================================ the Go functions themselves, TRANSLATED
   On every check gen/golite.go re-translates slottools/edges.go (CalcEpochForSlot, CalcEpochLimits,
   Uint64RangesHavePartialOverlapIncludingEdges — the slot -> epoch routing used by getBlock / getTransaction (C02),
   getSignaturesForAddress (C07) and the gRPC range streams (C19)) from /repo's working tree into the GoLite fragment
   (Generated/GoLiteC02.v; semantics: GoLite.v — uint64 arithmetic wraps modulo 2^64, division by zero and bad
   indexes panic).  The theorems below state that the translated functions ARE what the models compute
   ([epoch_of] of C02_Rpc above; [slot / ConstsC07.epoch_len] of C07_Model, the constant being generated from
   slottools.EpochLen as well); they are re-proved against what the source says now. *)
Require YF.GoLite YF.Generated.GoLiteC02 YF.GoLiteC02_Slots YF.Generated.ConstsC07 YF.C01_IndexAll.
Import ZArith String.

(* the epoch lengths of the models (C02_Rpc, C01_IndexAll) are the constant generated from slottools.EpochLen *)
Theorem C02_translated_epoch_len_is_the_models : 
  epoch_len = ConstsC07.epoch_len /\ C01_IndexAll.epoch_len = ConstsC07.epoch_len.
Proof. exact GoLiteC02_Slots.epoch_len_models_agree. Qed.

(* edges.go:CalcEpochForSlot is the model's [epoch_of] (= slot / epoch_len) on every uint64 slot: no panic, no wrap *)
Theorem C02_translated_CalcEpochForSlot_is_epoch_of : forall ext fuel (slot : N), (slot < 18446744073709551616)%N ->
  GoLite.call GoLiteC02.prog ext fuel "CalcEpochForSlot"%string [GoLite.VInt (Z.of_N slot)]
  = GoLite.RRet (GoLite.VInt (Z.of_N (epoch_of slot))) /\
  epoch_of slot = (slot / ConstsC07.epoch_len)%N.
Proof.
  exact (fun ext fuel slot H =>
    conj (GoLiteC02_Slots.CalcEpochForSlot_is_epoch_of GoLiteC02.prog GoLiteC02.prog_CalcEpochForSlot ext fuel slot H) eq_refl).
Qed.

(* edges.go:CalcEpochLimits, for EVERY epoch: first and last slot of the epoch, each reduced modulo 2^64 (Go's uint64
   arithmetic wraps silently) ... *)
Theorem C02_translated_CalcEpochLimits_mod_2_64 : forall ext fuel (epoch : N),
  GoLite.call GoLiteC02.prog ext fuel "CalcEpochLimits"%string [GoLite.VInt (Z.of_N epoch)]
  = GoLite.RRet (GoLite.VTuple
      [GoLite.VInt (Z.of_N ((epoch * epoch_len) mod 18446744073709551616));
       GoLite.VInt (Z.of_N ((epoch * epoch_len + epoch_len - 1) mod 18446744073709551616))]).
Proof. exact (GoLiteC02_Slots.CalcEpochLimits_mod GoLiteC02.prog GoLiteC02.prog_CalcEpochLimits). Qed.

(* ... hence exactly (epoch*epoch_len, epoch*epoch_len + epoch_len - 1) when nothing wraps, i.e. under the premise of
   the C01 slot theorems (this pair is the range of the block-time table of C01_IndexAll.index_all); every slot of
   that range, and no other, is routed back to the epoch by CalcEpochForSlot *)
Theorem C02_translated_CalcEpochLimits_exact : forall ext fuel (epoch : N),
  (epoch * epoch_len + epoch_len < 2 ^ 64)%N ->
  GoLite.call GoLiteC02.prog ext fuel "CalcEpochLimits"%string [GoLite.VInt (Z.of_N epoch)]
  = GoLite.RRet (GoLite.VTuple
      [GoLite.VInt (Z.of_N (epoch * epoch_len)); GoLite.VInt (Z.of_N (epoch * epoch_len + epoch_len - 1))]) /\
  (forall slot, (epoch * epoch_len <= slot <= epoch * epoch_len + epoch_len - 1)%N <-> epoch_of slot = epoch).
Proof.
  exact (fun ext fuel epoch H =>
    conj (GoLiteC02_Slots.CalcEpochLimits_exact GoLiteC02.prog GoLiteC02.prog_CalcEpochLimits ext fuel epoch H)
         (fun slot => GoLiteC02_Slots.epoch_limits_contain epoch slot)).
Qed.
(* the wrap-around is real: the last epoch that starts below 2^64 ends, according to CalcEpochLimits, at slot 320383 *)
Example C02_translated_CalcEpochLimits_wraps :
  GoLite.call GoLiteC02.prog GoLite.no_ext 0 "CalcEpochLimits"%string [GoLite.VInt 42700796466920%Z]
  = GoLite.RRet (GoLite.VTuple [GoLite.VInt 18446744073709440000%Z; GoLite.VInt 320383%Z]).
Proof. vm_compute. reflexivity. Qed.

(* edges.go:Uint64RangesHavePartialOverlapIncludingEdges on closed intervals [a0,a1], [b0,b1] (a0 <= a1, b0 <= b1):
   true exactly when the intervals share a point; equivalently max of the starts <= min of the ends *)
Theorem C02_translated_ranges_overlap_is_intersection : forall ext fuel (a0 a1 b0 b1 : Z), (a0 <= a1)%Z -> (b0 <= b1)%Z ->
  GoLite.call GoLiteC02.prog ext fuel "Uint64RangesHavePartialOverlapIncludingEdges"%string
    [GoLite.VInts [a0; a1]; GoLite.VInts [b0; b1]]
  = GoLite.RRet (GoLite.VBool (Z.max a0 b0 <=? Z.min a1 b1)%Z) /\
  ((Z.max a0 b0 <=? Z.min a1 b1)%Z = true <-> exists x, (a0 <= x <= a1)%Z /\ (b0 <= x <= b1)%Z).
Proof.
  exact (fun ext fuel a0 a1 b0 b1 Ha Hb =>
    conj (GoLiteC02_Slots.Overlap_is_max_le_min GoLiteC02.prog GoLiteC02.prog_Uint64RangesHavePartialOverlapIncludingEdges ext fuel a0 a1 b0 b1 Ha Hb)
         (GoLiteC02_Slots.max_le_min_iff_common_point a0 a1 b0 b1)).
Qed.

(* ... and the exact boolean for arbitrary pairs (no premise): only the starts are compared first *)
Theorem C02_translated_ranges_overlap_exact : forall ext fuel (a0 a1 b0 b1 : Z),
  GoLite.call GoLiteC02.prog ext fuel "Uint64RangesHavePartialOverlapIncludingEdges"%string
    [GoLite.VInts [a0; a1]; GoLite.VInts [b0; b1]]
  = GoLite.RRet (GoLite.VBool (if (a0 <? b0)%Z then (b0 <=? a1)%Z else (a0 <=? b1)%Z)).
Proof. exact (GoLiteC02_Slots.Overlap_exact GoLiteC02.prog GoLiteC02.prog_Uint64RangesHavePartialOverlapIncludingEdges). Qed.

(* non-vacuity: the translated functions RUN (vm_compute inside the kernel): slot 206459118 lies in epoch 477, whose
   limits are 206064000 .. 206495999; touching ranges overlap, disjoint ones do not *)
Example C02_translated_functions_run :
  GoLite.call GoLiteC02.prog GoLite.no_ext 0 "CalcEpochForSlot"%string [GoLite.VInt 206459118%Z]
    = GoLite.RRet (GoLite.VInt 477%Z) /\
  epoch_of 206459118 = 477%N /\
  GoLite.call GoLiteC02.prog GoLite.no_ext 0 "CalcEpochLimits"%string [GoLite.VInt 477%Z]
    = GoLite.RRet (GoLite.VTuple [GoLite.VInt 206064000%Z; GoLite.VInt 206495999%Z]) /\
  GoLite.call GoLiteC02.prog GoLite.no_ext 0 "Uint64RangesHavePartialOverlapIncludingEdges"%string
      [GoLite.VInts [10; 20]%Z; GoLite.VInts [20; 30]%Z] = GoLite.RRet (GoLite.VBool true) /\
  GoLite.call GoLiteC02.prog GoLite.no_ext 0 "Uint64RangesHavePartialOverlapIncludingEdges"%string
      [GoLite.VInts [21; 30]%Z; GoLite.VInts [10; 20]%Z] = GoLite.RRet (GoLite.VBool false).
Proof. vm_compute. repeat split; reflexivity. Qed.

Print Assumptions C02_translated_epoch_len_is_the_models.
Print Assumptions C02_translated_CalcEpochForSlot_is_epoch_of.
Print Assumptions C02_translated_CalcEpochLimits_mod_2_64.
Print Assumptions C02_translated_CalcEpochLimits_exact.
Print Assumptions C02_translated_ranges_overlap_is_intersection.
Print Assumptions C02_translated_ranges_overlap_exact.
